(* package polyexact (round 4): pin blocks for the binary64 / Complex<f64> EXACTNESS theorems of C11 and C12
   ("all of this holds exactly for exactly-representable coefficients"; "exactly over exact coefficients").
   Format of CONVENTIONS section 2.  No scope is opened: integers carry %Z, floats %float.

   Vocabulary (definitions in the files named):
     ExactW x z   Proofs/ParDotFloat.v   the float x is finite and its real value is the integer z (a zero: either sign)
     Exact  x z   Proofs/ParDotFloat.v   ... and x is not the negative zero: the bit pattern of x is determined by z
     AZ, AZC      Proofs/PolyExact.v     the integers / the Gaussian integers as an arithmetic: the model functions of
                                         Model/Poly.v run there too, and give the exact results the floats are compared with;
                                         AZ's div answers only when the divisor divides (Panic Guard otherwise)
     horner p x   Proofs/Poly.v          a_0 + x (a_1 + x (...)): the value of p at x (peval p x = Ok (horner p x) over a ring)
     eval_fits zs x   := horner |zs| |x| < 2^53          (sum_i |a_i| |x|^i < 2^53)            Proofs/PolyExactF.v
     pmul_fits zs ws  := every coefficient of |zs| * |ws| is < 2^53  (sum_i |a_i| |b_(k-i)|)   Proofs/PolyExactF.v
     same_value r r' z := ExactW r z /\ ExactW r' z /\ (r == r') = true /\ (z <> 0 -> r = r') Proofs/PolyExactF.v
     geom n xi    := 1 + xi + ... + xi^(n-1)                                                   Proofs/PolyExactB.v
     CExactW, CExact, cn1 g = |re g| + |im g|, ceval_fits                                      Proofs/PolyExactC.v
     polydiv_fits N D u v : every pass of the integer long division fits below 2^53              Proofs/PolyExactDiv.v *)
From Coq Require Import ZArith Reals Floats Lia List Bool Arith.
From OV Require Import Base.Panic Base.Arith gen.Params Model.Poly Model.Complex Inst.FloatInst Proofs.Poly
  Proofs.ParDotFloat Proofs.PolyExact Proofs.PolyExactF Proofs.PolyExactB Proofs.PolyExactC Proofs.PolyExactDiv
  Proofs.PolyExactDivZ Proofs.PolyExactDivF Proofs.PolyExactDivC Proofs.PolyExactEx.
Import ListNotations.

(* ==== C11 ==== *)
(* binary64, integer-valued coefficients (p ~ zs, q ~ ws, s ~ sz through ExactW): every operation returns the float images
   of what the SAME model function returns over the integers, provided the exact results (for the product: the sums
   sum_i |a_i| |b_(k-i)|; for the derivative, which adds a_(i+1) to zero i+1 times: the results (i+1) a_(i+1)) are below 2^53.
   Products, derivatives never contain a negative zero (Exact).  pderiv_n: every derivative of order 1..n must fit.
   Panics: exactly those of the integer run (pderiv zs = Ok dz is part of the hypothesis: the empty polynomial) *)
Theorem poly_ops_exact_float : forall (p q : list PrimFloat.float) (zs ws : list Z) (s : PrimFloat.float) (sz : Z),
  Forall2 ExactW p zs -> Forall2 ExactW q ws -> ExactW s sz ->
  (Forall (fun c : Z => (Z.abs c < 2 ^ 53)%Z) (padd (A := AZ) zs ws) -> Forall2 ExactW (padd (A := AF) p q) (padd (A := AZ) zs ws)) /\
  (Forall (fun c : Z => (Z.abs c < 2 ^ 53)%Z) (psub (A := AZ) zs ws) -> Forall2 ExactW (psub (A := AF) p q) (psub (A := AZ) zs ws)) /\
  Forall2 ExactW (pneg (A := AF) p) (pneg (A := AZ) zs) /\
  (Forall (fun c : Z => (Z.abs c < 2 ^ 53)%Z) (pscale (A := AZ) zs sz) -> Forall2 ExactW (pscale (A := AF) p s) (pscale (A := AZ) zs sz)) /\
  (pmul_fits zs ws -> Forall2 Exact (pmul (A := AF) p q) (pmul (A := AZ) zs ws)) /\
  (forall dz, pderiv (A := AZ) zs = Ok dz -> Forall (fun c : Z => (Z.abs c < 2 ^ 53)%Z) dz ->
     exists d, pderiv (A := AF) p = Ok d /\ Forall2 Exact d dz) /\
  (forall n dz, pderiv_n (A := AZ) zs n = Ok dz ->
     (forall k dk, (1 <= k <= n)%nat -> pderiv_n (A := AZ) zs k = Ok dk -> Forall (fun c : Z => (Z.abs c < 2 ^ 53)%Z) dk) ->
     exists d, pderiv_n (A := AF) p n = Ok d /\ Forall2 ExactW d dz).
Proof. intros p q zs ws s sz Hp Hq Hs.
  exact (Logic.conj (padd_exact_float_lemma p q zs ws Hp Hq) (Logic.conj (psub_exact_float_lemma p q zs ws Hp Hq)
        (Logic.conj (pneg_exact_float_lemma p zs Hp) (Logic.conj (pscale_exact_float_lemma p zs Hp s sz Hs)
        (Logic.conj (pmul_exact_float_lemma p q zs ws Hp Hq) (Logic.conj (pderiv_exact_float_lemma p zs Hp)
        (pderiv_n_exact_float_lemma p zs Hp))))))). Qed.
Check poly_ops_exact_float : forall (p q : list PrimFloat.float) (zs ws : list Z) (s : PrimFloat.float) (sz : Z),
  Forall2 ExactW p zs -> Forall2 ExactW q ws -> ExactW s sz ->
  (Forall (fun c : Z => (Z.abs c < 2 ^ 53)%Z) (padd (A := AZ) zs ws) -> Forall2 ExactW (padd (A := AF) p q) (padd (A := AZ) zs ws)) /\
  (Forall (fun c : Z => (Z.abs c < 2 ^ 53)%Z) (psub (A := AZ) zs ws) -> Forall2 ExactW (psub (A := AF) p q) (psub (A := AZ) zs ws)) /\
  Forall2 ExactW (pneg (A := AF) p) (pneg (A := AZ) zs) /\
  (Forall (fun c : Z => (Z.abs c < 2 ^ 53)%Z) (pscale (A := AZ) zs sz) -> Forall2 ExactW (pscale (A := AF) p s) (pscale (A := AZ) zs sz)) /\
  (pmul_fits zs ws -> Forall2 Exact (pmul (A := AF) p q) (pmul (A := AZ) zs ws)) /\
  (forall dz, pderiv (A := AZ) zs = Ok dz -> Forall (fun c : Z => (Z.abs c < 2 ^ 53)%Z) dz ->
     exists d, pderiv (A := AF) p = Ok d /\ Forall2 Exact d dz) /\
  (forall n dz, pderiv_n (A := AZ) zs n = Ok dz ->
     (forall k dk, (1 <= k <= n)%nat -> pderiv_n (A := AZ) zs k = Ok dk -> Forall (fun c : Z => (Z.abs c < 2 ^ 53)%Z) dk) ->
     exists d, pderiv_n (A := AF) p n = Ok d /\ Forall2 ExactW d dz).
Print Assumptions poly_ops_exact_float.
(* p = 3 - 2x + 5x^3 (degree 3), q = -7 + 4x + x^2 + 2x^4 (degree 4), s = -6 *)
Example poly_ops_exact_float_nonvacuous :
  Forall2 ExactW exP exPz /\ Forall2 ExactW exQ exQz /\ ExactW (-6)%float (-6)%Z /\
  Forall (fun c : Z => (Z.abs c < 2 ^ 53)%Z) (padd (A := AZ) exPz exQz) /\ Forall (fun c : Z => (Z.abs c < 2 ^ 53)%Z) (psub (A := AZ) exPz exQz) /\
  Forall (fun c : Z => (Z.abs c < 2 ^ 53)%Z) (pscale (A := AZ) exPz (-6)%Z) /\ pmul_fits exPz exQz /\
  (exists dz, pderiv_n (A := AZ) exPz 2 = Ok dz /\ dz = [0; 30]%Z) /\
  pmul (A := AF) exP exQ = [-21; 26; -5; -37; 26; 1; 0; 10]%float /\
  pmul (A := AZ) exPz exQz = [-21; 26; -5; -37; 26; 1; 0; 10]%Z /\
  pderiv_n (A := AF) exP 2 = Ok [0; 30]%float.
Proof.
  split; [exact exP_exactW|]. split; [exact exQ_exactW|]. split; [exact ex_s_exact|].
  split; [fits|]. split; [fits|]. split; [fits|]. split; [unfold pmul_fits; fits|].
  split; [eexists; split; vm_compute; reflexivity|]. repeat split; vm_compute; reflexivity.
Qed.
(* outside the bound: 2^53 and 1 are floats, their integer sum 2^53 + 1 is not, and the float sum is 2^53 *)
Example poly_ops_exact_float_refuted :
  padd (A := AF) [9007199254740992%float] [1%float] = [9007199254740992%float] /\
  padd (A := AZ) [2 ^ 53]%Z [1]%Z = [2 ^ 53 + 1]%Z /\ ~ Forall2 ExactW [9007199254740992%float] [2 ^ 53 + 1]%Z.
Proof. exact padd_beyond_refuted. Qed.

(* the same with the size conditions in terms of the INPUTS: |a_i| <= al, |b_j| <= be.
   sum/difference: al + be; scalar multiple: al |s|; product: len p * al * be; derivative: (len p - 1) * al;
   Horner at the integer point x: al (1 + |x| + ... + |x|^(len p - 1))  -- each below 2^53 *)
Theorem poly_exact_float_input_bounds : forall (p q : list PrimFloat.float) (zs ws : list Z) (s x : PrimFloat.float) (sz xz al be : Z),
  Forall2 ExactW p zs -> Forall2 ExactW q ws -> ExactW s sz -> ExactW x xz ->
  (0 <= al)%Z -> (0 <= be)%Z ->
  Forall (fun a : Z => (Z.abs a <= al)%Z) zs -> Forall (fun b : Z => (Z.abs b <= be)%Z) ws ->
  ((al + be < 2 ^ 53)%Z ->
     Forall2 ExactW (padd (A := AF) p q) (padd (A := AZ) zs ws) /\
     Forall2 ExactW (psub (A := AF) p q) (psub (A := AZ) zs ws)) /\
  Forall2 ExactW (pneg (A := AF) p) (pneg (A := AZ) zs) /\
  ((al * Z.abs sz < 2 ^ 53)%Z -> Forall2 ExactW (pscale (A := AF) p s) (pscale (A := AZ) zs sz)) /\
  ((Z.of_nat (length zs) * (al * be) < 2 ^ 53)%Z -> Forall2 Exact (pmul (A := AF) p q) (pmul (A := AZ) zs ws)) /\
  ((Z.of_nat (length zs - 1) * al < 2 ^ 53)%Z -> forall dz, pderiv (A := AZ) zs = Ok dz ->
     exists d, pderiv (A := AF) p = Ok d /\ Forall2 Exact d dz) /\
  ((al * geom (length zs) (Z.abs xz) < 2 ^ 53)%Z -> p <> [] ->
     exists r, peval (A := AF) p x = Ok r /\ ExactW r (horner (A := AZ) zs xz)).
Proof. exact poly_exact_float_bounds_lemma. Qed.
Check poly_exact_float_input_bounds : forall (p q : list PrimFloat.float) (zs ws : list Z) (s x : PrimFloat.float) (sz xz al be : Z),
  Forall2 ExactW p zs -> Forall2 ExactW q ws -> ExactW s sz -> ExactW x xz ->
  (0 <= al)%Z -> (0 <= be)%Z ->
  Forall (fun a : Z => (Z.abs a <= al)%Z) zs -> Forall (fun b : Z => (Z.abs b <= be)%Z) ws ->
  ((al + be < 2 ^ 53)%Z ->
     Forall2 ExactW (padd (A := AF) p q) (padd (A := AZ) zs ws) /\
     Forall2 ExactW (psub (A := AF) p q) (psub (A := AZ) zs ws)) /\
  Forall2 ExactW (pneg (A := AF) p) (pneg (A := AZ) zs) /\
  ((al * Z.abs sz < 2 ^ 53)%Z -> Forall2 ExactW (pscale (A := AF) p s) (pscale (A := AZ) zs sz)) /\
  ((Z.of_nat (length zs) * (al * be) < 2 ^ 53)%Z -> Forall2 Exact (pmul (A := AF) p q) (pmul (A := AZ) zs ws)) /\
  ((Z.of_nat (length zs - 1) * al < 2 ^ 53)%Z -> forall dz, pderiv (A := AZ) zs = Ok dz ->
     exists d, pderiv (A := AF) p = Ok d /\ Forall2 Exact d dz) /\
  ((al * geom (length zs) (Z.abs xz) < 2 ^ 53)%Z -> p <> [] ->
     exists r, peval (A := AF) p x = Ok r /\ ExactW r (horner (A := AZ) zs xz)).
Print Assumptions poly_exact_float_input_bounds.
Example poly_exact_float_input_bounds_nonvacuous :
  Forall2 ExactW exP exPz /\ Forall2 ExactW exQ exQz /\ ExactW (-6)%float (-6)%Z /\ ExactW 3%float 3%Z /\
  (0 <= 5)%Z /\ (0 <= 7)%Z /\
  Forall (fun a : Z => (Z.abs a <= 5)%Z) exPz /\ Forall (fun b : Z => (Z.abs b <= 7)%Z) exQz /\
  (5 + 7 < 2 ^ 53)%Z /\ (5 * Z.abs (-6) < 2 ^ 53)%Z /\ (Z.of_nat (length exPz) * (5 * 7) < 2 ^ 53)%Z /\
  (Z.of_nat (length exPz - 1) * 5 < 2 ^ 53)%Z /\ (5 * geom (length exPz) (Z.abs 3) < 2 ^ 53)%Z /\ exP <> [].
Proof.
  split; [exact exP_exactW|]. split; [exact exQ_exactW|]. split; [exact ex_s_exact|]. split; [exact ex_x_exact|].
  split; [lia|]. split; [lia|]. split; [repeat constructor; cbn; lia|]. split; [repeat constructor; cbn; lia|].
  repeat split; try (vm_compute; reflexivity). discriminate.
Qed.

(* Horner at an integer point with sum_i |a_i| |x|^i < 2^53 is exact: no step rounds; the result is the float image of the
   integer value (and not a negative zero when no coefficient is one) *)
Theorem peval_exact_float : forall (p : list PrimFloat.float) (zs : list Z) (x : PrimFloat.float) (xz : Z),
  Forall2 ExactW p zs -> ExactW x xz -> p <> [] -> eval_fits zs xz ->
  exists r, peval (A := AF) p x = Ok r /\ ExactW r (horner (A := AZ) zs xz) /\
            (Z.abs (horner (A := AZ) zs xz) <= horner (A := AZ) (map Z.abs zs) (Z.abs xz))%Z /\
            (Forall2 Exact p zs -> Exact r (horner (A := AZ) zs xz)).
Proof. exact peval_exact_float_lemma. Qed.
Check peval_exact_float : forall (p : list PrimFloat.float) (zs : list Z) (x : PrimFloat.float) (xz : Z),
  Forall2 ExactW p zs -> ExactW x xz -> p <> [] -> eval_fits zs xz ->
  exists r, peval (A := AF) p x = Ok r /\ ExactW r (horner (A := AZ) zs xz) /\
            (Z.abs (horner (A := AZ) zs xz) <= horner (A := AZ) (map Z.abs zs) (Z.abs xz))%Z /\
            (Forall2 Exact p zs -> Exact r (horner (A := AZ) zs xz)).
Print Assumptions peval_exact_float.
Example peval_exact_float_nonvacuous :   (* 3 - 2x + 5x^3 at x = 3: 132 *)
  Forall2 ExactW exP exPz /\ ExactW 3%float 3%Z /\ exP <> [] /\ eval_fits exPz 3%Z /\
  peval (A := AF) exP 3%float = Ok 132%float /\ horner (A := AZ) exPz 3%Z = 132%Z.
Proof.
  split; [exact exP_exactW|]. split; [exact ex_x_exact|]. split; [discriminate|].
  split; [unfold eval_fits; vm_compute; reflexivity|]. split; vm_compute; reflexivity.
Qed.

(* the homomorphism law of evaluation for the sum, BIT FOR BIT: eval (p + q) x = eval p x + eval q x as floats,
   for integer-valued coefficients none of which is a negative zero, under the bounds (coefficients of p + q, and the three
   Horner sums sum_i |c_i| |x|^i, below 2^53) *)
Theorem peval_padd_exact_float : forall (p q : list PrimFloat.float) (zs ws : list Z) (x : PrimFloat.float) (xz : Z),
  Forall2 Exact p zs -> Forall2 Exact q ws -> ExactW x xz -> p <> [] -> q <> [] ->
  Forall (fun c : Z => (Z.abs c < 2 ^ 53)%Z) (padd (A := AZ) zs ws) ->
  eval_fits zs xz -> eval_fits ws xz -> eval_fits (padd (A := AZ) zs ws) xz ->
  exists rp rq, peval (A := AF) p x = Ok rp /\ peval (A := AF) q x = Ok rq /\
    peval (A := AF) (padd (A := AF) p q) x = Ok (rp + rq)%float /\
    Exact rp (horner (A := AZ) zs xz) /\ Exact rq (horner (A := AZ) ws xz) /\
    Exact (rp + rq)%float (horner (A := AZ) zs xz + horner (A := AZ) ws xz)%Z.
Proof. exact peval_padd_exact_float_lemma. Qed.
Check peval_padd_exact_float : forall (p q : list PrimFloat.float) (zs ws : list Z) (x : PrimFloat.float) (xz : Z),
  Forall2 Exact p zs -> Forall2 Exact q ws -> ExactW x xz -> p <> [] -> q <> [] ->
  Forall (fun c : Z => (Z.abs c < 2 ^ 53)%Z) (padd (A := AZ) zs ws) ->
  eval_fits zs xz -> eval_fits ws xz -> eval_fits (padd (A := AZ) zs ws) xz ->
  exists rp rq, peval (A := AF) p x = Ok rp /\ peval (A := AF) q x = Ok rq /\
    peval (A := AF) (padd (A := AF) p q) x = Ok (rp + rq)%float /\
    Exact rp (horner (A := AZ) zs xz) /\ Exact rq (horner (A := AZ) ws xz) /\
    Exact (rp + rq)%float (horner (A := AZ) zs xz + horner (A := AZ) ws xz)%Z.
Print Assumptions peval_padd_exact_float.
Example peval_padd_exact_float_nonvacuous :
  Forall2 Exact exP exPz /\ Forall2 Exact exQ exQz /\ ExactW 3%float 3%Z /\ exP <> [] /\ exQ <> [] /\
  Forall (fun c : Z => (Z.abs c < 2 ^ 53)%Z) (padd (A := AZ) exPz exQz) /\
  eval_fits exPz 3%Z /\ eval_fits exQz 3%Z /\ eval_fits (padd (A := AZ) exPz exQz) 3%Z.
Proof.
  split; [exact exP_exact|]. split; [exact exQ_exact|]. split; [exact ex_x_exact|]. split; [discriminate|].
  split; [discriminate|]. split; [fits|]. repeat split; unfold eval_fits; vm_compute; reflexivity.
Qed.
(* outside the bound the law FAILS: p = 1 + (2^52+1) x, q = 2, x = 2 -- every coefficient is a float, but
   p(2) + q(2) = 2^53 + 5 is not: eval (p + q) 2 = 2^53 + 4, eval p 2 + eval q 2 = 2^53 + 6.
   And with negative-zero coefficients it fails in the sign: p = q = -0 gives +0 on the left, -0 on the right *)
Example peval_padd_exact_float_refuted :
  (let p := [1; 4503599627370497]%float in let q := [2; 0]%float in
   Forall2 Exact p [1; 2 ^ 52 + 1]%Z /\ Forall2 Exact q [2; 0]%Z /\
   peval (A := AF) (padd (A := AF) p q) 2%float = Ok 9007199254740996%float /\
   peval (A := AF) p 2%float = Ok 9007199254740996%float /\ peval (A := AF) q 2%float = Ok 2%float /\
   (9007199254740996 + 2)%float = 9007199254740998%float /\
   ~ eval_fits (padd (A := AZ) [1; 2 ^ 52 + 1]%Z [2; 0]%Z) 2%Z) /\
  (exists r rp rq, peval (A := AF) (padd (A := AF) [-0]%float [-0]%float) 1%float = Ok r /\
    peval (A := AF) [-0]%float 1%float = Ok rp /\ peval (A := AF) [-0]%float 1%float = Ok rq /\
    is_pos_zero r /\ is_neg_zero (rp + rq)%float /\ ExactW (-0)%float 0%Z /\ ~ Exact (-0)%float 0%Z).
Proof. exact (Logic.conj peval_padd_beyond_refuted peval_padd_negzero_refuted). Qed.

(* the homomorphism law of evaluation for the difference, BIT FOR BIT: eval (p - q) x = eval p x - eval q x as floats,
   for integer-valued coefficients none of which is a negative zero, under the bounds (coefficients of p - q, and the three
   Horner sums sum_i |c_i| |x|^i, below 2^53) *)
Theorem peval_psub_exact_float : forall (p q : list PrimFloat.float) (zs ws : list Z) (x : PrimFloat.float) (xz : Z),
  Forall2 Exact p zs -> Forall2 Exact q ws -> ExactW x xz -> p <> [] -> q <> [] ->
  Forall (fun c : Z => (Z.abs c < 2 ^ 53)%Z) (psub (A := AZ) zs ws) ->
  eval_fits zs xz -> eval_fits ws xz -> eval_fits (psub (A := AZ) zs ws) xz ->
  exists rp rq, peval (A := AF) p x = Ok rp /\ peval (A := AF) q x = Ok rq /\
    peval (A := AF) (psub (A := AF) p q) x = Ok (rp - rq)%float /\
    Exact rp (horner (A := AZ) zs xz) /\ Exact rq (horner (A := AZ) ws xz) /\
    Exact (rp - rq)%float (horner (A := AZ) zs xz - horner (A := AZ) ws xz)%Z.
Proof. exact peval_psub_exact_float_lemma. Qed.
Check peval_psub_exact_float : forall (p q : list PrimFloat.float) (zs ws : list Z) (x : PrimFloat.float) (xz : Z),
  Forall2 Exact p zs -> Forall2 Exact q ws -> ExactW x xz -> p <> [] -> q <> [] ->
  Forall (fun c : Z => (Z.abs c < 2 ^ 53)%Z) (psub (A := AZ) zs ws) ->
  eval_fits zs xz -> eval_fits ws xz -> eval_fits (psub (A := AZ) zs ws) xz ->
  exists rp rq, peval (A := AF) p x = Ok rp /\ peval (A := AF) q x = Ok rq /\
    peval (A := AF) (psub (A := AF) p q) x = Ok (rp - rq)%float /\
    Exact rp (horner (A := AZ) zs xz) /\ Exact rq (horner (A := AZ) ws xz) /\
    Exact (rp - rq)%float (horner (A := AZ) zs xz - horner (A := AZ) ws xz)%Z.
Print Assumptions peval_psub_exact_float.
Example peval_psub_exact_float_nonvacuous :
  Forall2 Exact exP exPz /\ Forall2 Exact exQ exQz /\ ExactW 3%float 3%Z /\ exP <> [] /\ exQ <> [] /\
  Forall (fun c : Z => (Z.abs c < 2 ^ 53)%Z) (psub (A := AZ) exPz exQz) /\
  eval_fits exPz 3%Z /\ eval_fits exQz 3%Z /\ eval_fits (psub (A := AZ) exPz exQz) 3%Z.
Proof.
  split; [exact exP_exact|]. split; [exact exQ_exact|]. split; [exact ex_x_exact|]. split; [discriminate|].
  split; [discriminate|]. split; [fits|]. repeat split; unfold eval_fits; vm_compute; reflexivity.
Qed.

(* eval (p * q) x and eval p x * eval q x hold the SAME integer (and are == ; identical bits unless that integer is 0:
   a product of values can be -0 where the product polynomial evaluates to +0) *)
Theorem peval_pmul_exact_float : forall (p q : list PrimFloat.float) (zs ws : list Z) (x : PrimFloat.float) (xz : Z),
  Forall2 ExactW p zs -> Forall2 ExactW q ws -> ExactW x xz -> p <> [] -> q <> [] ->
  pmul_fits zs ws -> eval_fits zs xz -> eval_fits ws xz -> eval_fits (pmul (A := AZ) zs ws) xz ->
  (horner (A := AZ) (map Z.abs zs) (Z.abs xz) * horner (A := AZ) (map Z.abs ws) (Z.abs xz) < 2 ^ 53)%Z ->
  exists rp rq r, peval (A := AF) p x = Ok rp /\ peval (A := AF) q x = Ok rq /\
    peval (A := AF) (pmul (A := AF) p q) x = Ok r /\
    same_value r (rp * rq)%float (horner (A := AZ) zs xz * horner (A := AZ) ws xz)%Z.
Proof. exact peval_pmul_exact_float_lemma. Qed.
Check peval_pmul_exact_float : forall (p q : list PrimFloat.float) (zs ws : list Z) (x : PrimFloat.float) (xz : Z),
  Forall2 ExactW p zs -> Forall2 ExactW q ws -> ExactW x xz -> p <> [] -> q <> [] ->
  pmul_fits zs ws -> eval_fits zs xz -> eval_fits ws xz -> eval_fits (pmul (A := AZ) zs ws) xz ->
  (horner (A := AZ) (map Z.abs zs) (Z.abs xz) * horner (A := AZ) (map Z.abs ws) (Z.abs xz) < 2 ^ 53)%Z ->
  exists rp rq r, peval (A := AF) p x = Ok rp /\ peval (A := AF) q x = Ok rq /\
    peval (A := AF) (pmul (A := AF) p q) x = Ok r /\
    same_value r (rp * rq)%float (horner (A := AZ) zs xz * horner (A := AZ) ws xz)%Z.
Print Assumptions peval_pmul_exact_float.
Example peval_pmul_exact_float_nonvacuous :
  Forall2 ExactW exP exPz /\ Forall2 ExactW exQ exQz /\ ExactW 3%float 3%Z /\ exP <> [] /\ exQ <> [] /\
  pmul_fits exPz exQz /\ eval_fits exPz 3%Z /\ eval_fits exQz 3%Z /\ eval_fits (pmul (A := AZ) exPz exQz) 3%Z /\
  (horner (A := AZ) (map Z.abs exPz) (Z.abs 3) * horner (A := AZ) (map Z.abs exQz) (Z.abs 3) < 2 ^ 53)%Z.
Proof.
  split; [exact exP_exactW|]. split; [exact exQ_exactW|]. split; [exact ex_x_exact|]. split; [discriminate|].
  split; [discriminate|]. split; [unfold pmul_fits; fits|]. repeat split; unfold eval_fits; vm_compute; reflexivity.
Qed.
(* the sign of a zero: p = 0, q = -3: eval (p*q) 1 = +0, eval p 1 * eval q 1 = -0 *)
Example peval_pmul_exact_float_refuted :
  exists r rp rq, peval (A := AF) (pmul (A := AF) [0]%float [-3]%float) 1%float = Ok r /\
    peval (A := AF) [0]%float 1%float = Ok rp /\ peval (A := AF) [-3]%float 1%float = Ok rq /\
    is_pos_zero r /\ is_neg_zero (rp * rq)%float.
Proof. exact peval_pmul_sign_refuted. Qed.

(* eval (-p) x and -(eval p x) hold the same integer (== ; identical unless it is 0) *)
Theorem peval_pneg_exact_float : forall (p : list PrimFloat.float) (zs : list Z) (x : PrimFloat.float) (xz : Z),
  Forall2 ExactW p zs -> ExactW x xz -> p <> [] -> eval_fits zs xz ->
  exists rp r, peval (A := AF) p x = Ok rp /\ peval (A := AF) (pneg (A := AF) p) x = Ok r /\
    same_value r (- rp)%float (- horner (A := AZ) zs xz)%Z.
Proof. exact peval_pneg_exact_float_lemma. Qed.
Check peval_pneg_exact_float : forall (p : list PrimFloat.float) (zs : list Z) (x : PrimFloat.float) (xz : Z),
  Forall2 ExactW p zs -> ExactW x xz -> p <> [] -> eval_fits zs xz ->
  exists rp r, peval (A := AF) p x = Ok rp /\ peval (A := AF) (pneg (A := AF) p) x = Ok r /\
    same_value r (- rp)%float (- horner (A := AZ) zs xz)%Z.
Print Assumptions peval_pneg_exact_float.
Example peval_pneg_exact_float_nonvacuous :
  Forall2 ExactW exP exPz /\ ExactW 3%float 3%Z /\ exP <> [] /\ eval_fits exPz 3%Z.
Proof.
  split; [exact exP_exactW|]. split; [exact ex_x_exact|]. split; [discriminate|]. unfold eval_fits; vm_compute; reflexivity.
Qed.
(* p = 1 - x at x = 1: eval (-p) 1 = +0 but -(eval p 1) = -0 *)
Example peval_pneg_exact_float_refuted :
  exists r rp, peval (A := AF) (pneg (A := AF) [1; -1]%float) 1%float = Ok r /\
    peval (A := AF) [1; -1]%float 1%float = Ok rp /\ is_pos_zero r /\ is_neg_zero (- rp)%float.
Proof. exact peval_pneg_sign_refuted. Qed.

(* eval (s p) x and (eval p x) * s hold the same integer (== ; identical unless it is 0) *)
Theorem peval_pscale_exact_float : forall (p : list PrimFloat.float) (zs : list Z) (x : PrimFloat.float) (xz : Z) (s : PrimFloat.float) (sz : Z),
  Forall2 ExactW p zs -> ExactW x xz -> ExactW s sz -> p <> [] ->
  Forall (fun c : Z => (Z.abs c < 2 ^ 53)%Z) (pscale (A := AZ) zs sz) -> eval_fits zs xz -> eval_fits (pscale (A := AZ) zs sz) xz ->
  (horner (A := AZ) (map Z.abs zs) (Z.abs xz) * Z.abs sz < 2 ^ 53)%Z ->
  exists rp r, peval (A := AF) p x = Ok rp /\ peval (A := AF) (pscale (A := AF) p s) x = Ok r /\
    same_value r (rp * s)%float (horner (A := AZ) zs xz * sz)%Z.
Proof. exact peval_pscale_exact_float_lemma. Qed.
Check peval_pscale_exact_float : forall (p : list PrimFloat.float) (zs : list Z) (x : PrimFloat.float) (xz : Z) (s : PrimFloat.float) (sz : Z),
  Forall2 ExactW p zs -> ExactW x xz -> ExactW s sz -> p <> [] ->
  Forall (fun c : Z => (Z.abs c < 2 ^ 53)%Z) (pscale (A := AZ) zs sz) -> eval_fits zs xz -> eval_fits (pscale (A := AZ) zs sz) xz ->
  (horner (A := AZ) (map Z.abs zs) (Z.abs xz) * Z.abs sz < 2 ^ 53)%Z ->
  exists rp r, peval (A := AF) p x = Ok rp /\ peval (A := AF) (pscale (A := AF) p s) x = Ok r /\
    same_value r (rp * s)%float (horner (A := AZ) zs xz * sz)%Z.
Print Assumptions peval_pscale_exact_float.
Example peval_pscale_exact_float_nonvacuous :
  Forall2 ExactW exP exPz /\ ExactW 3%float 3%Z /\ ExactW (-6)%float (-6)%Z /\ exP <> [] /\
  Forall (fun c : Z => (Z.abs c < 2 ^ 53)%Z) (pscale (A := AZ) exPz (-6)%Z) /\ eval_fits exPz 3%Z /\
  eval_fits (pscale (A := AZ) exPz (-6)%Z) 3%Z /\
  (horner (A := AZ) (map Z.abs exPz) (Z.abs 3) * Z.abs (-6) < 2 ^ 53)%Z.
Proof.
  split; [exact exP_exactW|]. split; [exact ex_x_exact|]. split; [exact ex_s_exact|]. split; [discriminate|].
  split; [fits|]. repeat split; unfold eval_fits; vm_compute; reflexivity.
Qed.

(* differentiation is linear, BIT FOR BIT, for ANY integer-valued operands (negative zeros included: every coefficient of a
   derivative and of a sum of two non-empty operands is accumulated from +0), when the sums and both derivatives fit *)
Theorem pderiv_padd_exact_float : forall (p q : list PrimFloat.float) (zs ws dzs dws : list Z),
  Forall2 ExactW p zs -> Forall2 ExactW q ws ->
  pderiv (A := AZ) zs = Ok dzs -> pderiv (A := AZ) ws = Ok dws ->
  Forall (fun c : Z => (Z.abs c < 2 ^ 53)%Z) (padd (A := AZ) zs ws) -> Forall (fun c : Z => (Z.abs c < 2 ^ 53)%Z) dzs -> Forall (fun c : Z => (Z.abs c < 2 ^ 53)%Z) dws ->
  Forall (fun c : Z => (Z.abs c < 2 ^ 53)%Z) (padd (A := AZ) dzs dws) ->
  exists dp dq, pderiv (A := AF) p = Ok dp /\ pderiv (A := AF) q = Ok dq /\
    pderiv (A := AF) (padd (A := AF) p q) = Ok (padd (A := AF) dp dq) /\
    Forall2 Exact (padd (A := AF) dp dq) (padd (A := AZ) dzs dws).
Proof. exact pderiv_padd_exact_float_lemma. Qed.
Check pderiv_padd_exact_float : forall (p q : list PrimFloat.float) (zs ws dzs dws : list Z),
  Forall2 ExactW p zs -> Forall2 ExactW q ws ->
  pderiv (A := AZ) zs = Ok dzs -> pderiv (A := AZ) ws = Ok dws ->
  Forall (fun c : Z => (Z.abs c < 2 ^ 53)%Z) (padd (A := AZ) zs ws) -> Forall (fun c : Z => (Z.abs c < 2 ^ 53)%Z) dzs -> Forall (fun c : Z => (Z.abs c < 2 ^ 53)%Z) dws ->
  Forall (fun c : Z => (Z.abs c < 2 ^ 53)%Z) (padd (A := AZ) dzs dws) ->
  exists dp dq, pderiv (A := AF) p = Ok dp /\ pderiv (A := AF) q = Ok dq /\
    pderiv (A := AF) (padd (A := AF) p q) = Ok (padd (A := AF) dp dq) /\
    Forall2 Exact (padd (A := AF) dp dq) (padd (A := AZ) dzs dws).
Print Assumptions pderiv_padd_exact_float.
Example pderiv_padd_exact_float_nonvacuous :
  Forall2 ExactW exP exPz /\ Forall2 ExactW exQ exQz /\
  pderiv (A := AZ) exPz = Ok [-2; 0; 15]%Z /\ pderiv (A := AZ) exQz = Ok [4; 2; 0; 8]%Z /\
  Forall (fun c : Z => (Z.abs c < 2 ^ 53)%Z) (padd (A := AZ) exPz exQz) /\ Forall (fun c : Z => (Z.abs c < 2 ^ 53)%Z) [-2; 0; 15]%Z /\ Forall (fun c : Z => (Z.abs c < 2 ^ 53)%Z) [4; 2; 0; 8]%Z /\
  Forall (fun c : Z => (Z.abs c < 2 ^ 53)%Z) (padd (A := AZ) [-2; 0; 15]%Z [4; 2; 0; 8]%Z).
Proof.
  split; [exact exP_exactW|]. split; [exact exQ_exactW|]. split; [vm_compute; reflexivity|]. split; [vm_compute; reflexivity|].
  repeat split; fits.
Qed.

(* the product rule (p q)' = p' q + p q', BIT FOR BIT, for any integer-valued operands, when the three products, the two derivatives and the final sum fit *)
Theorem pderiv_pmul_exact_float : forall (p q : list PrimFloat.float) (zs ws dzs dws : list Z),
  Forall2 ExactW p zs -> Forall2 ExactW q ws ->
  pderiv (A := AZ) zs = Ok dzs -> pderiv (A := AZ) ws = Ok dws ->
  pmul_fits zs ws -> Forall (fun c : Z => (Z.abs c < 2 ^ 53)%Z) dzs -> Forall (fun c : Z => (Z.abs c < 2 ^ 53)%Z) dws -> pmul_fits dzs ws -> pmul_fits zs dws ->
  Forall (fun c : Z => (Z.abs c < 2 ^ 53)%Z) (padd (A := AZ) (pmul (A := AZ) dzs ws) (pmul (A := AZ) zs dws)) ->
  exists dp dq, pderiv (A := AF) p = Ok dp /\ pderiv (A := AF) q = Ok dq /\
    pderiv (A := AF) (pmul (A := AF) p q) = Ok (padd (A := AF) (pmul (A := AF) dp q) (pmul (A := AF) p dq)) /\
    Forall2 Exact (padd (A := AF) (pmul (A := AF) dp q) (pmul (A := AF) p dq))
                  (padd (A := AZ) (pmul (A := AZ) dzs ws) (pmul (A := AZ) zs dws)).
Proof. exact pderiv_pmul_exact_float_lemma. Qed.
Check pderiv_pmul_exact_float : forall (p q : list PrimFloat.float) (zs ws dzs dws : list Z),
  Forall2 ExactW p zs -> Forall2 ExactW q ws ->
  pderiv (A := AZ) zs = Ok dzs -> pderiv (A := AZ) ws = Ok dws ->
  pmul_fits zs ws -> Forall (fun c : Z => (Z.abs c < 2 ^ 53)%Z) dzs -> Forall (fun c : Z => (Z.abs c < 2 ^ 53)%Z) dws -> pmul_fits dzs ws -> pmul_fits zs dws ->
  Forall (fun c : Z => (Z.abs c < 2 ^ 53)%Z) (padd (A := AZ) (pmul (A := AZ) dzs ws) (pmul (A := AZ) zs dws)) ->
  exists dp dq, pderiv (A := AF) p = Ok dp /\ pderiv (A := AF) q = Ok dq /\
    pderiv (A := AF) (pmul (A := AF) p q) = Ok (padd (A := AF) (pmul (A := AF) dp q) (pmul (A := AF) p dq)) /\
    Forall2 Exact (padd (A := AF) (pmul (A := AF) dp q) (pmul (A := AF) p dq))
                  (padd (A := AZ) (pmul (A := AZ) dzs ws) (pmul (A := AZ) zs dws)).
Print Assumptions pderiv_pmul_exact_float.
Example pderiv_pmul_exact_float_nonvacuous :
  Forall2 ExactW exP exPz /\ Forall2 ExactW exQ exQz /\
  pderiv (A := AZ) exPz = Ok [-2; 0; 15]%Z /\ pderiv (A := AZ) exQz = Ok [4; 2; 0; 8]%Z /\
  pmul_fits exPz exQz /\ Forall (fun c : Z => (Z.abs c < 2 ^ 53)%Z) [-2; 0; 15]%Z /\ Forall (fun c : Z => (Z.abs c < 2 ^ 53)%Z) [4; 2; 0; 8]%Z /\
  pmul_fits [-2; 0; 15]%Z exQz /\ pmul_fits exPz [4; 2; 0; 8]%Z /\
  Forall (fun c : Z => (Z.abs c < 2 ^ 53)%Z) (padd (A := AZ) (pmul (A := AZ) [-2; 0; 15]%Z exQz) (pmul (A := AZ) exPz [4; 2; 0; 8]%Z)).
Proof.
  split; [exact exP_exactW|]. split; [exact exQ_exactW|]. split; [vm_compute; reflexivity|]. split; [vm_compute; reflexivity|].
  repeat split; unfold pmul_fits; fits.
Qed.

(* (s p)' and s p' hold the same integers coefficient by coefficient (a zero coefficient may differ in sign) *)
Theorem pderiv_pscale_exact_float : forall (p : list PrimFloat.float) (zs dzs : list Z) (s : PrimFloat.float) (sz : Z),
  Forall2 ExactW p zs -> ExactW s sz -> pderiv (A := AZ) zs = Ok dzs ->
  Forall (fun c : Z => (Z.abs c < 2 ^ 53)%Z) (pscale (A := AZ) zs sz) -> Forall (fun c : Z => (Z.abs c < 2 ^ 53)%Z) dzs -> Forall (fun c : Z => (Z.abs c < 2 ^ 53)%Z) (pscale (A := AZ) dzs sz) ->
  exists dp d, pderiv (A := AF) p = Ok dp /\ pderiv (A := AF) (pscale (A := AF) p s) = Ok d /\
    Forall2 ExactW d (pscale (A := AZ) dzs sz) /\ Forall2 ExactW (pscale (A := AF) dp s) (pscale (A := AZ) dzs sz).
Proof. exact pderiv_pscale_exact_float_lemma. Qed.
Check pderiv_pscale_exact_float : forall (p : list PrimFloat.float) (zs dzs : list Z) (s : PrimFloat.float) (sz : Z),
  Forall2 ExactW p zs -> ExactW s sz -> pderiv (A := AZ) zs = Ok dzs ->
  Forall (fun c : Z => (Z.abs c < 2 ^ 53)%Z) (pscale (A := AZ) zs sz) -> Forall (fun c : Z => (Z.abs c < 2 ^ 53)%Z) dzs -> Forall (fun c : Z => (Z.abs c < 2 ^ 53)%Z) (pscale (A := AZ) dzs sz) ->
  exists dp d, pderiv (A := AF) p = Ok dp /\ pderiv (A := AF) (pscale (A := AF) p s) = Ok d /\
    Forall2 ExactW d (pscale (A := AZ) dzs sz) /\ Forall2 ExactW (pscale (A := AF) dp s) (pscale (A := AZ) dzs sz).
Print Assumptions pderiv_pscale_exact_float.
Example pderiv_pscale_exact_float_nonvacuous :
  Forall2 ExactW exP exPz /\ ExactW (-6)%float (-6)%Z /\ pderiv (A := AZ) exPz = Ok [-2; 0; 15]%Z /\
  Forall (fun c : Z => (Z.abs c < 2 ^ 53)%Z) (pscale (A := AZ) exPz (-6)%Z) /\ Forall (fun c : Z => (Z.abs c < 2 ^ 53)%Z) [-2; 0; 15]%Z /\
  Forall (fun c : Z => (Z.abs c < 2 ^ 53)%Z) (pscale (A := AZ) [-2; 0; 15]%Z (-6)%Z).
Proof.
  split; [exact exP_exactW|]. split; [exact ex_s_exact|]. split; [vm_compute; reflexivity|]. repeat split; fits.
Qed.
(* p = 0 + 0x, s = -1: (s p)' = [+0] but s p' = [-0] *)
Example pderiv_pscale_exact_float_refuted :
  exists d dp, pderiv (A := AF) (pscale (A := AF) [0; 0]%float (-1)%float) = Ok d /\ pderiv (A := AF) [0; 0]%float = Ok dp /\
    is_pos_zero (nth 0 d 1%float) /\ is_neg_zero (nth 0 (pscale (A := AF) dp (-1)%float) 1%float).
Proof. exact pderiv_pscale_sign_refuted. Qed.

(* the sum and the difference of two NON-EMPTY integer-valued operands never contain a negative zero (coefficient i is
   (0 + p_i) + q_i resp. (0 + p_i) - q_i and 0 + (-0) = +0), whatever the signs of the zeros in the operands: the results
   are the bit patterns determined by the integer results *)
Theorem padd_psub_no_negative_zero_float : forall (p q : list PrimFloat.float) (zs ws : list Z),
  Forall2 ExactW p zs -> Forall2 ExactW q ws -> p <> [] -> q <> [] ->
  (Forall (fun c : Z => (Z.abs c < 2 ^ 53)%Z) (padd (A := AZ) zs ws) -> Forall2 Exact (padd (A := AF) p q) (padd (A := AZ) zs ws)) /\
  (Forall (fun c : Z => (Z.abs c < 2 ^ 53)%Z) (psub (A := AZ) zs ws) -> Forall2 Exact (psub (A := AF) p q) (psub (A := AZ) zs ws)).
Proof. exact padd_psub_no_negzero_float_lemma. Qed.
Check padd_psub_no_negative_zero_float : forall (p q : list PrimFloat.float) (zs ws : list Z),
  Forall2 ExactW p zs -> Forall2 ExactW q ws -> p <> [] -> q <> [] ->
  (Forall (fun c : Z => (Z.abs c < 2 ^ 53)%Z) (padd (A := AZ) zs ws) -> Forall2 Exact (padd (A := AF) p q) (padd (A := AZ) zs ws)) /\
  (Forall (fun c : Z => (Z.abs c < 2 ^ 53)%Z) (psub (A := AZ) zs ws) -> Forall2 Exact (psub (A := AF) p q) (psub (A := AZ) zs ws)).
Print Assumptions padd_psub_no_negative_zero_float.
Example padd_psub_no_negative_zero_float_nonvacuous :   (* (-0) + (-0) as constant polynomials is +0 *)
  Forall2 ExactW [-0]%float [0]%Z /\ [-0]%float <> [] /\ Forall (fun c : Z => (Z.abs c < 2 ^ 53)%Z) (padd (A := AZ) [0]%Z [0]%Z) /\
  is_pos_zero (nth 0 (padd (A := AF) [-0]%float [-0]%float) 1%float) /\ is_neg_zero (-0)%float.
Proof.
  split; [repeat constructor; exactw|]. split; [discriminate|]. split; [fits|]. split; vm_compute; reflexivity.
Qed.

(* derivative_at: the n-th derivative evaluated at an integer point, when every derivative of order 1..n and the Horner sum fit *)
Theorem pderiv_at_exact_float : forall (p : list PrimFloat.float) (zs dz : list Z) (x : PrimFloat.float) (xz : Z) (n : nat),
  Forall2 ExactW p zs -> ExactW x xz -> pderiv_n (A := AZ) zs n = Ok dz -> dz <> [] ->
  (forall k dk, (1 <= k <= n)%nat -> pderiv_n (A := AZ) zs k = Ok dk -> Forall (fun c : Z => (Z.abs c < 2 ^ 53)%Z) dk) ->
  eval_fits dz xz ->
  exists r, pderiv_at (A := AF) p x n = Ok r /\ ExactW r (horner (A := AZ) dz xz) /\
            pderiv_at (A := AZ) zs xz n = Ok (horner (A := AZ) dz xz).
Proof. exact pderiv_at_exact_float_lemma. Qed.
Check pderiv_at_exact_float : forall (p : list PrimFloat.float) (zs dz : list Z) (x : PrimFloat.float) (xz : Z) (n : nat),
  Forall2 ExactW p zs -> ExactW x xz -> pderiv_n (A := AZ) zs n = Ok dz -> dz <> [] ->
  (forall k dk, (1 <= k <= n)%nat -> pderiv_n (A := AZ) zs k = Ok dk -> Forall (fun c : Z => (Z.abs c < 2 ^ 53)%Z) dk) ->
  eval_fits dz xz ->
  exists r, pderiv_at (A := AF) p x n = Ok r /\ ExactW r (horner (A := AZ) dz xz) /\
            pderiv_at (A := AZ) zs xz n = Ok (horner (A := AZ) dz xz).
Print Assumptions pderiv_at_exact_float.
Example pderiv_at_exact_float_nonvacuous :   (* (3 - 2x + 5x^3)'' = 30x at x = 3: 90 *)
  Forall2 ExactW exP exPz /\ ExactW 3%float 3%Z /\ pderiv_n (A := AZ) exPz 2 = Ok [0; 30]%Z /\ [0; 30]%Z <> [] /\
  eval_fits [0; 30]%Z 3%Z /\ pderiv_at (A := AF) exP 3%float 2 = Ok 90%float.
Proof.
  split; [exact exP_exactW|]. split; [exact ex_x_exact|]. split; [vm_compute; reflexivity|]. split; [discriminate|].
  split; [unfold eval_fits; vm_compute; reflexivity|]. vm_compute; reflexivity.
Qed.

(* both additive evaluation laws, bit for bit, from ONE condition on the inputs:
   (al + be) (1 + |x| + ... + |x|^(max (len p) (len q) - 1)) < 2^53  with |a_i| <= al, |b_j| <= be *)
Theorem peval_padd_psub_exact_float_input_bounds : forall (p q : list PrimFloat.float) (zs ws : list Z) (x : PrimFloat.float) (xz al be : Z),
  Forall2 Exact p zs -> Forall2 Exact q ws -> ExactW x xz -> p <> [] -> q <> [] ->
  (0 <= al)%Z -> (0 <= be)%Z ->
  Forall (fun a : Z => (Z.abs a <= al)%Z) zs -> Forall (fun b : Z => (Z.abs b <= be)%Z) ws ->
  ((al + be) * geom (Nat.max (length zs) (length ws)) (Z.abs xz) < 2 ^ 53)%Z ->
  exists rp rq, peval (A := AF) p x = Ok rp /\ peval (A := AF) q x = Ok rq /\
    peval (A := AF) (padd (A := AF) p q) x = Ok (rp + rq)%float /\
    peval (A := AF) (psub (A := AF) p q) x = Ok (rp - rq)%float /\
    Exact rp (horner (A := AZ) zs xz) /\ Exact rq (horner (A := AZ) ws xz).
Proof. exact peval_padd_psub_exact_float_bounds_lemma. Qed.
Check peval_padd_psub_exact_float_input_bounds : forall (p q : list PrimFloat.float) (zs ws : list Z) (x : PrimFloat.float) (xz al be : Z),
  Forall2 Exact p zs -> Forall2 Exact q ws -> ExactW x xz -> p <> [] -> q <> [] ->
  (0 <= al)%Z -> (0 <= be)%Z ->
  Forall (fun a : Z => (Z.abs a <= al)%Z) zs -> Forall (fun b : Z => (Z.abs b <= be)%Z) ws ->
  ((al + be) * geom (Nat.max (length zs) (length ws)) (Z.abs xz) < 2 ^ 53)%Z ->
  exists rp rq, peval (A := AF) p x = Ok rp /\ peval (A := AF) q x = Ok rq /\
    peval (A := AF) (padd (A := AF) p q) x = Ok (rp + rq)%float /\
    peval (A := AF) (psub (A := AF) p q) x = Ok (rp - rq)%float /\
    Exact rp (horner (A := AZ) zs xz) /\ Exact rq (horner (A := AZ) ws xz).
Print Assumptions peval_padd_psub_exact_float_input_bounds.
Example peval_padd_psub_exact_float_input_bounds_nonvacuous :
  Forall2 Exact exP exPz /\ Forall2 Exact exQ exQz /\ ExactW 3%float 3%Z /\ exP <> [] /\ exQ <> [] /\
  (0 <= 5)%Z /\ (0 <= 7)%Z /\
  Forall (fun a : Z => (Z.abs a <= 5)%Z) exPz /\ Forall (fun b : Z => (Z.abs b <= 7)%Z) exQz /\
  ((5 + 7) * geom (Nat.max (length exPz) (length exQz)) (Z.abs 3) < 2 ^ 53)%Z.
Proof.
  split; [exact exP_exact|]. split; [exact exQ_exact|]. split; [exact ex_x_exact|]. split; [discriminate|].
  split; [discriminate|]. split; [lia|]. split; [lia|]. split; [repeat constructor; cbn; lia|].
  split; [repeat constructor; cbn; lia|]. vm_compute; reflexivity.
Qed.

(* Complex<f64> with Gaussian-integer coefficients (CExactW: both components integer-valued).  Size of a Gaussian integer:
   cn1 g = |re g| + |im g|; the complex product is 4 real products and 2 sums, each bounded by cn1 g * cn1 h *)
Theorem cpoly_ops_exact_float : forall (p q : list (cplx AF)) (zs ws : list (cplx AZ)),
  Forall2 CExactW p zs -> Forall2 CExactW q ws ->
  (Forall (fun g : cplx AZ => (cn1 g < 2 ^ 53)%Z) (padd (A := AZC) zs ws) -> Forall2 CExactW (padd (A := ACF) p q) (padd (A := AZC) zs ws)) /\
  (Forall (fun g : cplx AZ => (cn1 g < 2 ^ 53)%Z) (psub (A := AZC) zs ws) -> Forall2 CExactW (psub (A := ACF) p q) (psub (A := AZC) zs ws)) /\
  Forall2 CExactW (pneg (A := ACF) p) (pneg (A := AZC) zs) /\
  (Forall (fun c : Z => (c < 2 ^ 53)%Z) (pmul (A := AZ) (map cn1 zs) (map cn1 ws)) ->
     Forall2 CExact (pmul (A := ACF) p q) (pmul (A := AZC) zs ws)).
Proof. exact cpoly_ops_exact_float_lemma. Qed.
Check cpoly_ops_exact_float : forall (p q : list (cplx AF)) (zs ws : list (cplx AZ)),
  Forall2 CExactW p zs -> Forall2 CExactW q ws ->
  (Forall (fun g : cplx AZ => (cn1 g < 2 ^ 53)%Z) (padd (A := AZC) zs ws) -> Forall2 CExactW (padd (A := ACF) p q) (padd (A := AZC) zs ws)) /\
  (Forall (fun g : cplx AZ => (cn1 g < 2 ^ 53)%Z) (psub (A := AZC) zs ws) -> Forall2 CExactW (psub (A := ACF) p q) (psub (A := AZC) zs ws)) /\
  Forall2 CExactW (pneg (A := ACF) p) (pneg (A := AZC) zs) /\
  (Forall (fun c : Z => (c < 2 ^ 53)%Z) (pmul (A := AZ) (map cn1 zs) (map cn1 ws)) ->
     Forall2 CExact (pmul (A := ACF) p q) (pmul (A := AZC) zs ws)).
Print Assumptions cpoly_ops_exact_float.
(* p = (1+2i) + (3-i) x, q = (-2+i) + 4i x + (1+i) x^2 *)
Example cpoly_ops_exact_float_nonvacuous :
  Forall2 CExactW exCP exCPz /\ Forall2 CExactW exCQ exCQz /\
  Forall (fun g : cplx AZ => (cn1 g < 2 ^ 53)%Z) (padd (A := AZC) exCPz exCQz) /\ Forall (fun g : cplx AZ => (cn1 g < 2 ^ 53)%Z) (psub (A := AZC) exCPz exCQz) /\
  Forall (fun c : Z => (c < 2 ^ 53)%Z) (pmul (A := AZ) (map cn1 exCPz) (map cn1 exCQz)) /\
  pmul (A := ACF) exCP exCQ = [cF (-4) (-3); cF (-13) 9; cF 3 15; cF 4 2]%float /\
  pmul (A := AZC) exCPz exCQz = [cZ (-4) (-3); cZ (-13) 9; cZ 3 15; cZ 4 2]%Z.
Proof.
  split; [exact exCP_exactW|]. split; [exact exCQ_exactW|]. split; [fits|]. split; [fits|]. split; [fits|].
  split; vm_compute; reflexivity.
Qed.

(* Horner for Complex<f64> at a Gaussian-integer point with sum_i cn1 a_i (cn1 x)^i < 2^53 is exact *)
Theorem cpeval_exact_float : forall (p : list (cplx AF)) (zs : list (cplx AZ)) (x : cplx AF) (xz : cplx AZ),
  Forall2 CExactW p zs -> CExactW x xz -> p <> [] -> ceval_fits zs xz ->
  exists r, peval (A := ACF) p x = Ok r /\ CExactW r (horner (A := AZC) zs xz) /\
            (Forall2 CExact p zs -> CExact r (horner (A := AZC) zs xz)).
Proof. exact cpeval_exact_float_lemma. Qed.
Check cpeval_exact_float : forall (p : list (cplx AF)) (zs : list (cplx AZ)) (x : cplx AF) (xz : cplx AZ),
  Forall2 CExactW p zs -> CExactW x xz -> p <> [] -> ceval_fits zs xz ->
  exists r, peval (A := ACF) p x = Ok r /\ CExactW r (horner (A := AZC) zs xz) /\
            (Forall2 CExact p zs -> CExact r (horner (A := AZC) zs xz)).
Print Assumptions cpeval_exact_float.
Example cpeval_exact_float_nonvacuous :   (* q at x = 2 - i *)
  Forall2 CExactW exCQ exCQz /\ CExactW (cF 2 (-1))%float (cZ 2 (-1))%Z /\ exCQ <> [] /\
  ceval_fits exCQz (cZ 2 (-1))%Z /\
  peval (A := ACF) exCQ (cF 2 (-1))%float = Ok (cF 9 8)%float /\ horner (A := AZC) exCQz (cZ 2 (-1))%Z = cZ 9 8.
Proof.
  split; [exact exCQ_exactW|]. split; [exact exCx_exact|]. split; [discriminate|].
  split; [unfold ceval_fits; vm_compute; reflexivity|]. split; vm_compute; reflexivity.
Qed.

(* the additive evaluation law for Complex<f64>, bit for bit in both components (cadd of Model/Complex.v) *)
Theorem cpeval_padd_exact_float : forall (p q : list (cplx AF)) (zs ws : list (cplx AZ)) (x : cplx AF) (xz : cplx AZ),
  Forall2 CExact p zs -> Forall2 CExact q ws -> CExactW x xz -> p <> [] -> q <> [] ->
  Forall (fun g : cplx AZ => (cn1 g < 2 ^ 53)%Z) (padd (A := AZC) zs ws) ->
  ceval_fits zs xz -> ceval_fits ws xz -> ceval_fits (padd (A := AZC) zs ws) xz ->
  exists rp rq, peval (A := ACF) p x = Ok rp /\ peval (A := ACF) q x = Ok rq /\
    peval (A := ACF) (padd (A := ACF) p q) x = Ok (cadd rp rq) /\
    CExact rp (horner (A := AZC) zs xz) /\ CExact rq (horner (A := AZC) ws xz).
Proof. exact cpeval_padd_exact_float_lemma. Qed.
Check cpeval_padd_exact_float : forall (p q : list (cplx AF)) (zs ws : list (cplx AZ)) (x : cplx AF) (xz : cplx AZ),
  Forall2 CExact p zs -> Forall2 CExact q ws -> CExactW x xz -> p <> [] -> q <> [] ->
  Forall (fun g : cplx AZ => (cn1 g < 2 ^ 53)%Z) (padd (A := AZC) zs ws) ->
  ceval_fits zs xz -> ceval_fits ws xz -> ceval_fits (padd (A := AZC) zs ws) xz ->
  exists rp rq, peval (A := ACF) p x = Ok rp /\ peval (A := ACF) q x = Ok rq /\
    peval (A := ACF) (padd (A := ACF) p q) x = Ok (cadd rp rq) /\
    CExact rp (horner (A := AZC) zs xz) /\ CExact rq (horner (A := AZC) ws xz).
Print Assumptions cpeval_padd_exact_float.
Example cpeval_padd_exact_float_nonvacuous :
  Forall2 CExact exCP exCPz /\ Forall2 CExact exCQ exCQz /\ CExactW (cF 2 (-1))%float (cZ 2 (-1))%Z /\
  exCP <> [] /\ exCQ <> [] /\ Forall (fun g : cplx AZ => (cn1 g < 2 ^ 53)%Z) (padd (A := AZC) exCPz exCQz) /\
  ceval_fits exCPz (cZ 2 (-1))%Z /\ ceval_fits exCQz (cZ 2 (-1))%Z /\
  ceval_fits (padd (A := AZC) exCPz exCQz) (cZ 2 (-1))%Z.
Proof.
  split; [exact exCP_exact|]. split; [exact exCQ_exact|]. split; [exact exCx_exact|]. split; [discriminate|].
  split; [discriminate|]. split; [fits|]. repeat split; unfold ceval_fits; vm_compute; reflexivity.
Qed.

(* the additive evaluation law for Complex<f64>, bit for bit in both components (csub of Model/Complex.v) *)
Theorem cpeval_psub_exact_float : forall (p q : list (cplx AF)) (zs ws : list (cplx AZ)) (x : cplx AF) (xz : cplx AZ),
  Forall2 CExact p zs -> Forall2 CExact q ws -> CExactW x xz -> p <> [] -> q <> [] ->
  Forall (fun g : cplx AZ => (cn1 g < 2 ^ 53)%Z) (psub (A := AZC) zs ws) ->
  ceval_fits zs xz -> ceval_fits ws xz -> ceval_fits (psub (A := AZC) zs ws) xz ->
  exists rp rq, peval (A := ACF) p x = Ok rp /\ peval (A := ACF) q x = Ok rq /\
    peval (A := ACF) (psub (A := ACF) p q) x = Ok (csub rp rq) /\
    CExact rp (horner (A := AZC) zs xz) /\ CExact rq (horner (A := AZC) ws xz).
Proof. exact cpeval_psub_exact_float_lemma. Qed.
Check cpeval_psub_exact_float : forall (p q : list (cplx AF)) (zs ws : list (cplx AZ)) (x : cplx AF) (xz : cplx AZ),
  Forall2 CExact p zs -> Forall2 CExact q ws -> CExactW x xz -> p <> [] -> q <> [] ->
  Forall (fun g : cplx AZ => (cn1 g < 2 ^ 53)%Z) (psub (A := AZC) zs ws) ->
  ceval_fits zs xz -> ceval_fits ws xz -> ceval_fits (psub (A := AZC) zs ws) xz ->
  exists rp rq, peval (A := ACF) p x = Ok rp /\ peval (A := ACF) q x = Ok rq /\
    peval (A := ACF) (psub (A := ACF) p q) x = Ok (csub rp rq) /\
    CExact rp (horner (A := AZC) zs xz) /\ CExact rq (horner (A := AZC) ws xz).
Print Assumptions cpeval_psub_exact_float.
Example cpeval_psub_exact_float_nonvacuous :
  Forall2 CExact exCP exCPz /\ Forall2 CExact exCQ exCQz /\ CExactW (cF 2 (-1))%float (cZ 2 (-1))%Z /\
  exCP <> [] /\ exCQ <> [] /\ Forall (fun g : cplx AZ => (cn1 g < 2 ^ 53)%Z) (psub (A := AZC) exCPz exCQz) /\
  ceval_fits exCPz (cZ 2 (-1))%Z /\ ceval_fits exCQz (cZ 2 (-1))%Z /\
  ceval_fits (psub (A := AZC) exCPz exCQz) (cZ 2 (-1))%Z.
Proof.
  split; [exact exCP_exact|]. split; [exact exCQ_exact|]. split; [exact exCx_exact|]. split; [discriminate|].
  split; [discriminate|]. split; [fits|]. repeat split; unfold ceval_fits; vm_compute; reflexivity.
Qed.

(* eval (p * q) x and eval p x * eval q x hold the same Gaussian integer *)
Theorem cpeval_pmul_exact_float : forall (p q : list (cplx AF)) (zs ws : list (cplx AZ)) (x : cplx AF) (xz : cplx AZ),
  Forall2 CExactW p zs -> Forall2 CExactW q ws -> CExactW x xz -> p <> [] -> q <> [] ->
  Forall (fun c : Z => (c < 2 ^ 53)%Z) (pmul (A := AZ) (map cn1 zs) (map cn1 ws)) ->
  ceval_fits zs xz -> ceval_fits ws xz -> ceval_fits (pmul (A := AZC) zs ws) xz ->
  (horner (A := AZ) (map cn1 zs) (cn1 xz) * horner (A := AZ) (map cn1 ws) (cn1 xz) < 2 ^ 53)%Z ->
  exists rp rq r, peval (A := ACF) p x = Ok rp /\ peval (A := ACF) q x = Ok rq /\
    peval (A := ACF) (pmul (A := ACF) p q) x = Ok r /\
    CExactW r (cmul (horner (A := AZC) zs xz) (horner (A := AZC) ws xz)) /\
    CExactW (cmul rp rq) (cmul (horner (A := AZC) zs xz) (horner (A := AZC) ws xz)).
Proof. exact cpeval_pmul_exact_float_lemma. Qed.
Check cpeval_pmul_exact_float : forall (p q : list (cplx AF)) (zs ws : list (cplx AZ)) (x : cplx AF) (xz : cplx AZ),
  Forall2 CExactW p zs -> Forall2 CExactW q ws -> CExactW x xz -> p <> [] -> q <> [] ->
  Forall (fun c : Z => (c < 2 ^ 53)%Z) (pmul (A := AZ) (map cn1 zs) (map cn1 ws)) ->
  ceval_fits zs xz -> ceval_fits ws xz -> ceval_fits (pmul (A := AZC) zs ws) xz ->
  (horner (A := AZ) (map cn1 zs) (cn1 xz) * horner (A := AZ) (map cn1 ws) (cn1 xz) < 2 ^ 53)%Z ->
  exists rp rq r, peval (A := ACF) p x = Ok rp /\ peval (A := ACF) q x = Ok rq /\
    peval (A := ACF) (pmul (A := ACF) p q) x = Ok r /\
    CExactW r (cmul (horner (A := AZC) zs xz) (horner (A := AZC) ws xz)) /\
    CExactW (cmul rp rq) (cmul (horner (A := AZC) zs xz) (horner (A := AZC) ws xz)).
Print Assumptions cpeval_pmul_exact_float.
Example cpeval_pmul_exact_float_nonvacuous :
  Forall2 CExactW exCP exCPz /\ Forall2 CExactW exCQ exCQz /\ CExactW (cF 2 (-1))%float (cZ 2 (-1))%Z /\
  exCP <> [] /\ exCQ <> [] /\ Forall (fun c : Z => (c < 2 ^ 53)%Z) (pmul (A := AZ) (map cn1 exCPz) (map cn1 exCQz)) /\
  ceval_fits exCPz (cZ 2 (-1))%Z /\ ceval_fits exCQz (cZ 2 (-1))%Z /\
  ceval_fits (pmul (A := AZC) exCPz exCQz) (cZ 2 (-1))%Z /\
  (horner (A := AZ) (map cn1 exCPz) (cn1 (cZ 2 (-1))) * horner (A := AZ) (map cn1 exCQz) (cn1 (cZ 2 (-1))) < 2 ^ 53)%Z.
Proof.
  split; [exact exCP_exactW|]. split; [exact exCQ_exactW|]. split; [exact exCx_exact|]. split; [discriminate|].
  split; [discriminate|]. split; [fits|]. repeat split; unfold ceval_fits; vm_compute; reflexivity.
Qed.

(* ==== C12 ==== *)
(* binary64, integer-valued coefficients, divisor with leading coefficient +1 or -1 (monic up to sign): the float long
   division returns EXACTLY the float images of the integer quotient and remainder -- the unique pair (q0, r0) with
   u = q0 v + r0 and r0 zero or shorter than v -- whenever  U (1 + V)^(len u - len v + 1) < 2^53  for bounds U, V of the
   |u_i|, |v_j| (every size met in the loop is below that number).  No panic, no error value *)
Theorem polydiv_exact_float : forall (u v : list PrimFloat.float) (uz vz : list Z) (U V : Z),
  Forall2 ExactW u uz -> Forall2 ExactW v vz -> vz <> [] -> (last vz 0%Z = 1%Z \/ last vz 0%Z = (-1)%Z) ->
  (0 <= U)%Z -> Forall (fun a : Z => (Z.abs a <= U)%Z) uz -> Forall (fun b : Z => (Z.abs b <= V)%Z) vz ->
  (length uz <= POLYDIV_MAX)%nat ->
  (U * (1 + V) ^ Z.of_nat (length uz - length vz + 1) < 2 ^ 53)%Z ->
  exists q r q0 r0, polydiv (A := AF) u v = Ok (inl (q, r)) /\ Forall2 ExactW q q0 /\ Forall2 ExactW r r0 /\
    polydiv (A := AZ) uz vz = Ok (inl (q0, r0)) /\
    (forall k, nth k uz 0%Z = nth k (padd (A := AZ) (pmul (A := AZ) q0 vz) r0) 0%Z) /\
    (is_zero (A := AZ) r0 = true \/ (length r0 < length vz)%nat) /\
    (forall q1 r1 : list Z,
       (forall k, nth k uz 0%Z = nth k (padd (A := AZ) (pmul (A := AZ) q1 vz) r1) 0%Z) ->
       (is_zero (A := AZ) r1 = true \/ (length r1 < length vz)%nat) ->
       (forall k, nth k q0 0%Z = nth k q1 0%Z) /\ (forall k, nth k r0 0%Z = nth k r1 0%Z)).
Proof. exact polydiv_exact_float_monic_lemma. Qed.
Check polydiv_exact_float : forall (u v : list PrimFloat.float) (uz vz : list Z) (U V : Z),
  Forall2 ExactW u uz -> Forall2 ExactW v vz -> vz <> [] -> (last vz 0%Z = 1%Z \/ last vz 0%Z = (-1)%Z) ->
  (0 <= U)%Z -> Forall (fun a : Z => (Z.abs a <= U)%Z) uz -> Forall (fun b : Z => (Z.abs b <= V)%Z) vz ->
  (length uz <= POLYDIV_MAX)%nat ->
  (U * (1 + V) ^ Z.of_nat (length uz - length vz + 1) < 2 ^ 53)%Z ->
  exists q r q0 r0, polydiv (A := AF) u v = Ok (inl (q, r)) /\ Forall2 ExactW q q0 /\ Forall2 ExactW r r0 /\
    polydiv (A := AZ) uz vz = Ok (inl (q0, r0)) /\
    (forall k, nth k uz 0%Z = nth k (padd (A := AZ) (pmul (A := AZ) q0 vz) r0) 0%Z) /\
    (is_zero (A := AZ) r0 = true \/ (length r0 < length vz)%nat) /\
    (forall q1 r1 : list Z,
       (forall k, nth k uz 0%Z = nth k (padd (A := AZ) (pmul (A := AZ) q1 vz) r1) 0%Z) ->
       (is_zero (A := AZ) r1 = true \/ (length r1 < length vz)%nat) ->
       (forall k, nth k q0 0%Z = nth k q1 0%Z) /\ (forall k, nth k r0 0%Z = nth k r1 0%Z)).
Print Assumptions polydiv_exact_float.
(* u = 7 + x - 3x^3 + 2x^4 by v = 3 - 2x + x^2 (U = 7, V = 3: 7 * 4^3 = 448): q = -4 + x + 2x^2, r = 19 - 10x *)
Example polydiv_exact_float_nonvacuous :
  Forall2 ExactW exU exUz /\ Forall2 ExactW exV exVz /\ exVz <> [] /\ (last exVz 0%Z = 1%Z \/ last exVz 0%Z = (-1)%Z) /\
  (0 <= 7)%Z /\ Forall (fun a : Z => (Z.abs a <= 7)%Z) exUz /\ Forall (fun b : Z => (Z.abs b <= 3)%Z) exVz /\
  (length exUz <= POLYDIV_MAX)%nat /\ (7 * (1 + 3) ^ Z.of_nat (length exUz - length exVz + 1) < 2 ^ 53)%Z /\
  polydiv (A := AF) exU exV = Ok (inl ([-4; 1; 2]%float, [19; -10]%float)) /\
  polydiv (A := AZ) exUz exVz = Ok (inl ([-4; 1; 2]%Z, [19; -10]%Z)).
Proof.
  split; [exact exU_exact|]. split; [exact exV_exact|]. split; [discriminate|]. split; [left; reflexivity|].
  split; [lia|]. split; [repeat constructor; cbn; lia|]. split; [repeat constructor; cbn; lia|].
  split; [vm_compute; lia|]. repeat split; vm_compute; reflexivity.
Qed.

(* any nonzero leading coefficient (e.g. a power of two): IF the integer long division goes through (every quotient term is
   an exact integer division: polydiv over AZ answers Ok) the same size condition U (1+V)^(len u - len v + 1) < 2^53
   suffices: the float division returns the float images of the integer quotient and remainder, the unique pair with
   u = q0 v + r0 and r0 zero or shorter than v *)
Theorem polydiv_exact_float_exactdiv : forall (u v : list PrimFloat.float) (uz vz q0 r0 : list Z) (U V : Z),
  Forall2 ExactW u uz -> Forall2 ExactW v vz -> vz <> [] -> last vz 0%Z <> 0%Z ->
  (0 <= U)%Z -> Forall (fun a : Z => (Z.abs a <= U)%Z) uz -> Forall (fun b : Z => (Z.abs b <= V)%Z) vz ->
  (U * (1 + V) ^ Z.of_nat (length uz - length vz + 1) < 2 ^ 53)%Z ->
  polydiv (A := AZ) uz vz = Ok (inl (q0, r0)) ->
  exists q r, polydiv (A := AF) u v = Ok (inl (q, r)) /\ Forall2 ExactW q q0 /\ Forall2 ExactW r r0 /\
    (forall k, nth k uz 0%Z = nth k (padd (A := AZ) (pmul (A := AZ) q0 vz) r0) 0%Z) /\
    (is_zero (A := AZ) r0 = true \/ (length r0 < length vz)%nat) /\
    (forall q1 r1 : list Z,
       (forall k, nth k uz 0%Z = nth k (padd (A := AZ) (pmul (A := AZ) q1 vz) r1) 0%Z) ->
       (is_zero (A := AZ) r1 = true \/ (length r1 < length vz)%nat) ->
       (forall k, nth k q0 0%Z = nth k q1 0%Z) /\ (forall k, nth k r0 0%Z = nth k r1 0%Z)).
Proof. exact polydiv_exact_float_exactdiv_lemma. Qed.
Check polydiv_exact_float_exactdiv : forall (u v : list PrimFloat.float) (uz vz q0 r0 : list Z) (U V : Z),
  Forall2 ExactW u uz -> Forall2 ExactW v vz -> vz <> [] -> last vz 0%Z <> 0%Z ->
  (0 <= U)%Z -> Forall (fun a : Z => (Z.abs a <= U)%Z) uz -> Forall (fun b : Z => (Z.abs b <= V)%Z) vz ->
  (U * (1 + V) ^ Z.of_nat (length uz - length vz + 1) < 2 ^ 53)%Z ->
  polydiv (A := AZ) uz vz = Ok (inl (q0, r0)) ->
  exists q r, polydiv (A := AF) u v = Ok (inl (q, r)) /\ Forall2 ExactW q q0 /\ Forall2 ExactW r r0 /\
    (forall k, nth k uz 0%Z = nth k (padd (A := AZ) (pmul (A := AZ) q0 vz) r0) 0%Z) /\
    (is_zero (A := AZ) r0 = true \/ (length r0 < length vz)%nat) /\
    (forall q1 r1 : list Z,
       (forall k, nth k uz 0%Z = nth k (padd (A := AZ) (pmul (A := AZ) q1 vz) r1) 0%Z) ->
       (is_zero (A := AZ) r1 = true \/ (length r1 < length vz)%nat) ->
       (forall k, nth k q0 0%Z = nth k q1 0%Z) /\ (forall k, nth k r0 0%Z = nth k r1 0%Z)).
Print Assumptions polydiv_exact_float_exactdiv.
(* u = 8 + 2x + 6x^2 + 4x^3 by v = 4 + 2x (U = 8, V = 4: 8 * 5^3 = 1000) *)
Example polydiv_exact_float_exactdiv_nonvacuous :
  Forall2 ExactW exU2 exU2z /\ Forall2 ExactW exV2 exV2z /\ exV2z <> [] /\ last exV2z 0%Z <> 0%Z /\
  (0 <= 8)%Z /\ Forall (fun a : Z => (Z.abs a <= 8)%Z) exU2z /\ Forall (fun b : Z => (Z.abs b <= 4)%Z) exV2z /\
  (8 * (1 + 4) ^ Z.of_nat (length exU2z - length exV2z + 1) < 2 ^ 53)%Z /\
  polydiv (A := AZ) exU2z exV2z = Ok (inl ([3; -1; 2]%Z, [-4]%Z)).
Proof.
  split; [exact exU2_exact|]. split; [exact exV2_exact|]. split; [discriminate|]. split; [discriminate|].
  split; [lia|]. split; [repeat constructor; cbn; lia|]. split; [repeat constructor; cbn; lia|].
  split; vm_compute; reflexivity.
Qed.

(* the general form (any leading coefficient, e.g. a power of two): if the INTEGER long division goes through -- every
   division of a leading coefficient by that of v is exact (AZ's div) -- with answer (q0, r0), and every pass fits below
   2^53 (polydiv_fits: the quotient term, the updated quotient, the products and the updated remainder), then the float
   division returns the float images of (q0, r0) *)
Theorem polydiv_exact_float_run : forall (u v : list PrimFloat.float) (uz vz q0 r0 : list Z),
  Forall2 ExactW u uz -> Forall2 ExactW v vz -> polydiv_fits (ZA := AZ) Z.abs (fun _ _ => True) uz vz ->
  polydiv (A := AZ) uz vz = Ok (inl (q0, r0)) ->
  exists q r, polydiv (A := AF) u v = Ok (inl (q, r)) /\ Forall2 ExactW q q0 /\ Forall2 ExactW r r0.
Proof. exact polydiv_exact_float_run_lemma. Qed.
Check polydiv_exact_float_run : forall (u v : list PrimFloat.float) (uz vz q0 r0 : list Z),
  Forall2 ExactW u uz -> Forall2 ExactW v vz -> polydiv_fits (ZA := AZ) Z.abs (fun _ _ => True) uz vz ->
  polydiv (A := AZ) uz vz = Ok (inl (q0, r0)) ->
  exists q r, polydiv (A := AF) u v = Ok (inl (q, r)) /\ Forall2 ExactW q q0 /\ Forall2 ExactW r r0.
Print Assumptions polydiv_exact_float_run.
(* u = 8 + 2x + 6x^2 + 4x^3 by v = 4 + 2x (leading coefficient 2 divides 4, -2, 6): q = 3 - x + 2x^2, r = -4 *)
Example polydiv_exact_float_run_nonvacuous :
  Forall2 ExactW exU2 exU2z /\ Forall2 ExactW exV2 exV2z /\ polydiv_fits (ZA := AZ) Z.abs (fun _ _ => True) exU2z exV2z /\
  polydiv (A := AZ) exU2z exV2z = Ok (inl ([3; -1; 2]%Z, [-4]%Z)) /\
  polydiv (A := AF) exU2 exV2 = Ok (inl ([3; -1; 2]%float, [-4]%float)).
Proof.
  split; [exact exU2_exact|]. split; [exact exV2_exact|]. split; [exact exU2_fits|]. split; vm_compute; reflexivity.
Qed.
(* an inexact leading division: x^2 by 1 + 3x.  The integer run stops (1/3); the float answer is not integer-valued *)
Example polydiv_exact_float_run_refuted :
  polydiv (A := AZ) [0; 0; 1]%Z [1; 3]%Z = Panic Guard /\
  exists q r, polydiv (A := AF) [0; 0; 1]%float [1; 3]%float = Ok (inl (q, r)) /\
    nth 1 q 0%float = (1 / 3)%float /\ ~ exists z, ExactW (1 / 3)%float z.
Proof. exact polydiv_inexact_refuted. Qed.

(* the integer side on its own: whenever the integer long division answers, u = q v + r coefficient by coefficient and r is
   zero or shorter than v; and such a pair is unique when the leading coefficient of v is nonzero (Z is an integral domain) *)
Theorem polydiv_int_identity_unique : forall (u v q r : list Z), polydiv (A := AZ) u v = Ok (inl (q, r)) ->
  (forall k, nth k u 0%Z = nth k (padd (A := AZ) (pmul (A := AZ) q v) r) 0%Z) /\
  (is_zero (A := AZ) r = true \/ (length r < length v)%nat) /\
  (v <> [] -> last v 0%Z <> 0%Z -> forall q' r' : list Z,
     (forall k, nth k u 0%Z = nth k (padd (A := AZ) (pmul (A := AZ) q' v) r') 0%Z) ->
     (is_zero (A := AZ) r' = true \/ (length r' < length v)%nat) ->
     (forall k, nth k q 0%Z = nth k q' 0%Z) /\ (forall k, nth k r 0%Z = nth k r' 0%Z)).
Proof. intros u v q r E. destruct (polydiv_Z_identity_lemma u v q r E) as [I S]. split; [exact I|]. split; [exact S|].
  intros Nv Lv q' r' I' S'. exact (polydiv_Z_unique_lemma u v q r q' r' Nv Lv I S I' S'). Qed.
Check polydiv_int_identity_unique : forall (u v q r : list Z), polydiv (A := AZ) u v = Ok (inl (q, r)) ->
  (forall k, nth k u 0%Z = nth k (padd (A := AZ) (pmul (A := AZ) q v) r) 0%Z) /\
  (is_zero (A := AZ) r = true \/ (length r < length v)%nat) /\
  (v <> [] -> last v 0%Z <> 0%Z -> forall q' r' : list Z,
     (forall k, nth k u 0%Z = nth k (padd (A := AZ) (pmul (A := AZ) q' v) r') 0%Z) ->
     (is_zero (A := AZ) r' = true \/ (length r' < length v)%nat) ->
     (forall k, nth k q 0%Z = nth k q' 0%Z) /\ (forall k, nth k r 0%Z = nth k r' 0%Z)).
Print Assumptions polydiv_int_identity_unique.
Example polydiv_int_identity_unique_nonvacuous :
  polydiv (A := AZ) exUz exVz = Ok (inl ([-4; 1; 2]%Z, [19; -10]%Z)) /\ exVz <> [] /\ last exVz 0%Z <> 0%Z.
Proof. split; [vm_compute; reflexivity|]. split; discriminate. Qed.

(* Complex<f64> with Gaussian-integer coefficients: the same for the complex long division.  The complex quotient term is
   ((a c + b d)/(c^2 + d^2), (b c - a d)/(c^2 + d^2)): over the Gaussian integers (AZC) both divisions must be exact, and
   cDfit asks that the six products fit:  cn1 lead(r) * cn1 lead(v) < 2^53  and  (cn1 lead(v))^2 < 2^53 *)
Theorem cpolydiv_exact_float_run : forall (u v : list (cplx AF)) (uz vz q0 r0 : list (cplx AZ)),
  Forall2 CExactW u uz -> Forall2 CExactW v vz -> polydiv_fits (ZA := AZC) cn1 cDfit uz vz ->
  polydiv (A := AZC) uz vz = Ok (inl (q0, r0)) ->
  exists q r, polydiv (A := ACF) u v = Ok (inl (q, r)) /\ Forall2 CExactW q q0 /\ Forall2 CExactW r r0.
Proof. exact cpolydiv_exact_float_run_lemma. Qed.
Check cpolydiv_exact_float_run : forall (u v : list (cplx AF)) (uz vz q0 r0 : list (cplx AZ)),
  Forall2 CExactW u uz -> Forall2 CExactW v vz -> polydiv_fits (ZA := AZC) cn1 cDfit uz vz ->
  polydiv (A := AZC) uz vz = Ok (inl (q0, r0)) ->
  exists q r, polydiv (A := ACF) u v = Ok (inl (q, r)) /\ Forall2 CExactW q q0 /\ Forall2 CExactW r r0.
Print Assumptions cpolydiv_exact_float_run.
(* u = (2-i) + 3i x + (1+i) x^2 + 2 x^3 by the monic v = (1+i) + x *)
Example cpolydiv_exact_float_run_nonvacuous :
  Forall2 CExactW exCU exCUz /\ Forall2 CExactW exCV exCVz /\ polydiv_fits (ZA := AZC) cn1 cDfit exCUz exCVz /\
  (exists q0 r0, polydiv (A := AZC) exCUz exCVz = Ok (inl (q0, r0)) /\
     exists q r, polydiv (A := ACF) exCU exCV = Ok (inl (q, r)) /\ length q = 3%nat /\ length r = 1%nat).
Proof.
  split; [exact exCU_exact|]. split; [exact exCV_exact|]. split; [exact exCU_fits|].
  eexists _, _. split; [vm_compute; reflexivity|]. eexists _, _. split; [vm_compute; reflexivity|]. split; reflexivity.
Qed.

