(* Proofs/GuardsModelBase.v -- C20 at the level of the model functions (package guards2): shared bridge.
   The guards g_<entry> of gen/GuardTable.v are REGENERATED from /repo/src on every run; the theorems of
   Proofs/GuardsModel*.v are stated with them (over Z.of_nat of the sizes of the model objects) and are proved
   through guard_<entry>_lemma (Proofs/Guards.v: g_<entry> = false <-> ok_<entry>), never by unfolding g_<entry>:
   a harmless rewrite of a guard in the source (`row >= self.rows` for `self.rows <= row`) leaves them intact, a
   changed guard breaks guard_<entry> itself.

   Reading of the three statement shapes (all over the executable model, whose `res` values are what the
   correspondence checks compare with the implementation, panic-versus-value exactly):
     rejects_<entry> : g_<entry> sizes = true  -> f args = Panic Guard
                       The model is state-passing: a mutating function returns `res state`; `Panic k` carries NO
                       state, i.e. the caller keeps the receiver it passed in -- a rejected call is decided before
                       any write of the returned state exists.
     accepts_<entry> : g_<entry> sizes = false -> exists v, f args = Ok v   (every rd/upd/usub inside succeeded:
                       no index or underflow panic for any size)
     frame_<entry>   : what the returned state leaves unchanged. *)
From Coq Require Import ZArith Bool Lia ZifyBool List Arith.
From OV Require Import Base.Panic.

Lemma fires_not_ok (b : bool) (P : Prop) : (b = false <-> P) -> b = true -> ~ P.
Proof. intros H E HP. apply H in HP. congruence. Qed.

(* H : g_<entry> (Z.of_nat ..) .. = false   ~~>   H : <the documented range, over Z.of_nat> *)
Ltac g_false H lem ok := apply lem in H; [unfold ok in H | lia ..].
(* H : g_<entry> (Z.of_nat ..) .. = true    ~~>   H : ~ <the documented range> *)
Ltac g_true H lem ok := eapply fires_not_ok in H; [| apply lem; lia]; unfold ok in H.

Definition panics {X} (r : res X) : Prop := exists k, r = Panic k.
Definition returns {X} (r : res X) : Prop := exists v, r = Ok v.

Lemma panics_not_returns {X} (r : res X) : panics r -> ~ returns r.
Proof. intros [k ->] [v E]; discriminate. Qed.
