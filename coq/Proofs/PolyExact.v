(* Proofs/PolyExact.v -- C11/C12 "holds exactly for exactly-representable coefficients": the generic transfer.

   The model functions of Model/Poly.v are generic over the arithmetic, so the SAME definition runs over the floats
   (FA) and over the integers (ZA := AZ below, or the Gaussian integers AZC).  This file proves, once and for all,
   that the run over FA is the image of the run over ZA as long as the sizes met on the way stay below 2^53:

     R  x a : the float-side value x holds the exact value a                       (sign of a zero unknown)
     Rs x a : ... and x is not a negative zero                                     (bit pattern determined by a)
     N  a   : the size of a (|a| for integers, |re| + |im| for Gaussian integers)

   The hypotheses of the Section are the one-operation facts (an operation whose exact result is smaller than 2^53
   does not round); they are discharged for binary64 in Proofs/PolyExactF.v (Flocq's Bplus/Bminus/Bmult/Bdiv_correct).
   Nothing here mentions floats. *)
From Coq Require Import ZArith Lia List Bool Arith.
From OV Require Import Base.Panic Base.Arith Model.Poly Model.Complex Proofs.Poly Proofs.Complex.
Import ListNotations.

(* ---- the integers as an arithmetic: the exact side of the comparison.
   div is the EXACT division of the long-division loop: it answers only when the divisor divides (Panic Guard
   otherwise is a specification device: "the integer division does not go through") *)
Definition z_div (a b : Z) : res Z :=
  if (b =? 0)%Z then Panic DivZero else if (a mod b =? 0)%Z then Ok (a / b)%Z else Panic Guard.
Definition AZ : Arith := {|
  T := Z; zero := 0%Z; one := 1%Z; add := Z.add; sub := Z.sub; mul := Z.mul; neg := Z.opp; abs := Z.abs;
  div := z_div; eqb := Z.eqb; ltb := Z.ltb; leb := Z.leb |}.
Definition SAZ : SArith := {| SA := AZ; sqrt := Z.sqrt; of_nat := Z.of_nat |}.
(* the Gaussian integers: Complex<_> over the integers, with the operator definitions of Model/Complex.v *)
Definition AZC : Arith := CArith SAZ.

Lemma AZ_ring : RingLaws AZ.
Proof. constructor. exact InitialRing.Zth. Qed.
Lemma AZC_ring : RingLaws AZC.
Proof. constructor. exact (complex_ring_lemma (A := AZ) (rl_ring AZ AZ_ring)). Qed.

(* ---- list helpers *)
Lemma F2_rev {X Y} (R : X -> Y -> Prop) l m : Forall2 R l m -> Forall2 R (rev l) (rev m).
Proof. induction 1; cbn; [constructor|]. apply Forall2_app; auto. Qed.

Lemma F2_length {X Y} (R : X -> Y -> Prop) l m : Forall2 R l m -> length l = length m.
Proof. induction 1; cbn; auto. Qed.

Lemma F2_nth_error {X Y} (R : X -> Y -> Prop) l m : Forall2 R l m -> forall i,
  match nth_error l i, nth_error m i with Some x, Some a => R x a | None, None => True | _, _ => False end.
Proof. induction 1 as [|x a l m Hx H IH]; intros [|i]; cbn; auto. apply IH. Qed.

Lemma F2_nth {X Y} (R : X -> Y -> Prop) l m dx dy : Forall2 R l m -> R dx dy -> forall i, R (nth i l dx) (nth i m dy).
Proof. induction 1 as [|x a l m Hx H IH]; intros Hd [|i]; cbn; auto. Qed.

Lemma F2_map_seq {X Y} (R : X -> Y -> Prop) (f : nat -> X) (g : nat -> Y) n s :
  (forall i, s <= i < s + n -> R (f i) (g i)) -> Forall2 R (map f (seq s n)) (map g (seq s n)).
Proof.
  revert s; induction n as [|n IH]; intros s H; cbn; constructor.
  - apply H; lia.
  - apply IH. intros; apply H; lia.
Qed.

Lemma F2_map {X Y X' Y'} (R : X -> Y -> Prop) (R' : X' -> Y' -> Prop) (f : X -> X') (g : Y -> Y') l m :
  Forall2 R l m -> (forall x a, R x a -> R' (f x) (g a)) -> Forall2 R' (map f l) (map g m).
Proof. intros H Hf; induction H; cbn; constructor; auto. Qed.

Lemma F2_impl {X Y} (R R' : X -> Y -> Prop) l m : (forall x a, R x a -> R' x a) -> Forall2 R l m -> Forall2 R' l m.
Proof. intros H; induction 1; constructor; auto. Qed.

Lemma Forall_map_seq {Y} (P : Y -> Prop) (g : nat -> Y) n s :
  Forall P (map g (seq s n)) -> forall i, s <= i < s + n -> P (g i).
Proof. intros H i Hi. rewrite Forall_forall in H. apply H. apply in_map. apply in_seq. lia. Qed.

Lemma nth_error_map' {X Y} (f : X -> Y) l i : nth_error (map f l) i = option_map f (nth_error l i).
Proof. revert i; induction l; intros [|i]; cbn; auto. Qed.

Local Open Scope Z_scope.
Notation B53 := (2 ^ 53)%Z.

(* the one-operation facts, bundled *)
Record ExactLaws {FA ZA : Arith} (R Rs : FA -> ZA -> Prop) (N : ZA -> Z) : Prop := {
  el_ring : RingLaws ZA;
  el_N_nonneg : forall a, 0 <= N a;
  el_N_zero : forall a, N a = 0 -> a = zero;
  el_N_zero0 : N zero = 0;
  el_N_add : forall a b : ZA, N (a + b)%A <= N a + N b;
  el_N_mul : forall a b : ZA, N (a * b)%A <= N a * N b;
  el_Rs_R : forall x a, Rs x a -> R x a;
  el_Rs_zero : Rs zero zero;
  el_Rs_add_l : forall x y a b, Rs x a -> R y b -> N (a + b)%A < B53 -> Rs (x + y)%A (a + b)%A;
  el_Rs_add_r : forall x y a b, R x a -> Rs y b -> N (a + b)%A < B53 -> Rs (x + y)%A (a + b)%A;
  el_Rs_add0_l : forall x y a b, Rs x a -> a = zero -> R y b -> Rs (x + y)%A (a + b)%A;
  el_Rs_add0_r : forall x y a b, R x a -> a = zero -> Rs y b -> Rs (x + y)%A (a + b)%A;
  el_Rs_sub : forall x y a b, Rs x a -> R y b -> N (a - b)%A < B53 -> Rs (x - y)%A (a - b)%A;
  el_R_neg : forall x a, R x a -> R (- x)%A (- a)%A;
  el_R_mul : forall x y a b, R x a -> R y b -> N a * N b < B53 -> R (x * y)%A (a * b)%A;
}.

Section Gen.
Context {FA ZA : Arith}.
Variables (R Rs : FA -> ZA -> Prop) (N : ZA -> Z).
Hypothesis EL : ExactLaws R Rs N.
Let RLZ : RingLaws ZA := el_ring _ _ _ EL.
Add Ring ZAring : (rl_ring ZA RLZ).
Let N_nonneg := el_N_nonneg _ _ _ EL.
Let N_zero := el_N_zero _ _ _ EL.
Let N_zero0 := el_N_zero0 _ _ _ EL.
Let N_add := el_N_add _ _ _ EL.
Let N_mul := el_N_mul _ _ _ EL.
Let Rs_R := el_Rs_R _ _ _ EL.
Let Rs_zero := el_Rs_zero _ _ _ EL.
Let Rs_add_l := el_Rs_add_l _ _ _ EL.
Let Rs_add_r := el_Rs_add_r _ _ _ EL.
Let Rs_add0_l := el_Rs_add0_l _ _ _ EL.
Let Rs_add0_r := el_Rs_add0_r _ _ _ EL.
Let Rs_sub := el_Rs_sub _ _ _ EL.
Let R_neg := el_R_neg _ _ _ EL.
Let R_mul := el_R_mul _ _ _ EL.

Implicit Types p q : list FA.
Implicit Types zs ws : list ZA.

(* ---------------------------------------------------------------- padd / psub / pneg / pscale *)
(* the sum of two non-empty operands never carries a negative zero: every coefficient is (0 + p_i) + q_i *)
Lemma gen_padd_ne p q zs ws : Forall2 R p zs -> Forall2 R q ws -> p <> [] -> q <> [] ->
  Forall (fun c => N c < B53) (padd zs ws) -> Forall2 Rs (padd p q) (padd zs ws).
Proof.
  intros Hp Hq Np Nq Hb.
  pose proof (F2_length _ _ _ Hp) as Lp. pose proof (F2_length _ _ _ Hq) as Lq.
  destruct p as [|x0 p']; [congruence|]. destruct q as [|y0 q']; [congruence|].
  destruct zs as [|a0 zs']; [discriminate|]. destruct ws as [|b0 ws']; [discriminate|].
  unfold padd in *. rewrite <- Lp, <- Lq in *.
  apply F2_map_seq. intros i Hi. pose proof (Forall_map_seq _ _ _ _ Hb i Hi) as Hbi. cbv beta in Hbi.
  pose proof (F2_nth_error _ _ _ Hp i) as Pi. pose proof (F2_nth_error _ _ _ Hq i) as Qi.
  destruct (nth_error (x0 :: p') i) as [x|], (nth_error (a0 :: zs') i) as [a|]; try contradiction;
  destruct (nth_error (y0 :: q') i) as [y|], (nth_error (b0 :: ws') i) as [b|]; try contradiction; cbn [opt_acc] in *.
  - apply Rs_add_l; auto.
  - apply Rs_add0_l; auto.
  - apply Rs_add0_l; auto.
  - exact Rs_zero.
Qed.

Lemma gen_padd_w p q zs ws : Forall2 R p zs -> Forall2 R q ws ->
  Forall (fun c => N c < B53) (padd zs ws) -> Forall2 R (padd p q) (padd zs ws).
Proof.
  intros Hp Hq Hb. destruct p as [|x0 p'].
  - inversion Hp; subst. exact Hq.
  - destruct q as [|y0 q'].
    + inversion Hq; subst. destruct zs; [inversion Hp|]. exact Hp.
    + eapply F2_impl; [exact Rs_R|]. apply gen_padd_ne; auto; discriminate.
Qed.

Lemma gen_pneg p zs : Forall2 R p zs -> Forall2 R (pneg p) (pneg zs).
Proof. intros H. unfold pneg. eapply F2_map; eauto. Qed.

(* weak operands: the difference of two non-empty operands; (0 + p_i) is never a negative zero *)
Lemma gen_psub_ne p q zs ws : Forall2 R p zs -> Forall2 R q ws -> p <> [] -> q <> [] ->
  Forall (fun c => N c < B53) (psub zs ws) -> Forall2 Rs (psub p q) (psub zs ws).
Proof.
  intros Hp Hq Np Nq Hb.
  pose proof (F2_length _ _ _ Hp) as Lp. pose proof (F2_length _ _ _ Hq) as Lq.
  destruct p as [|x0 p']; [congruence|]. destruct q as [|y0 q']; [congruence|].
  destruct zs as [|a0 zs']; [discriminate|]. destruct ws as [|b0 ws']; [discriminate|].
  unfold psub in *. rewrite <- Lp, <- Lq in *.
  apply F2_map_seq. intros i Hi. pose proof (Forall_map_seq _ _ _ _ Hb i Hi) as Hbi. cbv beta in Hbi.
  pose proof (F2_nth_error _ _ _ Hp i) as Pi. pose proof (F2_nth_error _ _ _ Hq i) as Qi.
  destruct (nth_error (x0 :: p') i) as [x|], (nth_error (a0 :: zs') i) as [a|]; try contradiction;
  destruct (nth_error (y0 :: q') i) as [y|], (nth_error (b0 :: ws') i) as [b|]; try contradiction; cbn [opt_acc] in *.
  - apply Rs_sub; auto.
  - apply Rs_add0_l; auto.
  - apply Rs_sub; auto.
  - exact Rs_zero.
Qed.

Lemma gen_psub_w p q zs ws : Forall2 R p zs -> Forall2 R q ws ->
  Forall (fun c => N c < B53) (psub zs ws) -> Forall2 R (psub p q) (psub zs ws).
Proof.
  intros Hp Hq Hb. destruct p as [|x0 p'].
  - inversion Hp; subst. cbn. now apply gen_pneg.
  - destruct q as [|y0 q'].
    + inversion Hq; subst. destruct zs; [inversion Hp|]. exact Hp.
    + eapply F2_impl; [exact Rs_R|]. apply gen_psub_ne; auto; discriminate.
Qed.

Lemma gen_pscale p zs s sz : Forall2 R p zs -> R s sz -> Forall (fun a => N a * N sz < B53) zs ->
  Forall2 R (pscale p s) (pscale zs sz).
Proof.
  intros H Hs Hb. unfold pscale. induction H as [|x a p zs Hx H IH]; cbn [map]; constructor.
  - inversion Hb; subst. now apply R_mul.
  - apply IH. now inversion Hb.
Qed.

(* ---------------------------------------------------------------- pmul *)
(* the size shadow of the convolution: sum_i N a_i * N b_(k-i), computed by the same loop over the integers *)
Definition nconv zs ws (k : nat) : Z := pmul_coeff (A := AZ) (map N zs) (map N ws) k.

Definition mstepF p q (k : nat) (acc : FA) (i : nat) : FA :=
  match nth_error p i, (if (i <=? k)%nat then nth_error q (k - i) else None) with
  | Some a, Some b => (acc + a * b)%A | _, _ => acc end.
Definition mstepZ zs ws (k : nat) (acc : ZA) (i : nat) : ZA :=
  match nth_error zs i, (if (i <=? k)%nat then nth_error ws (k - i) else None) with
  | Some a, Some b => (acc + a * b)%A | _, _ => acc end.
Definition mstepN zs ws (k : nat) (acc : Z) (i : nat) : Z :=
  match nth_error (map N zs) i, (if (i <=? k)%nat then nth_error (map N ws) (k - i) else None) with
  | Some a, Some b => acc + a * b | _, _ => acc end.

Lemma mstepN_mono zs ws k l : forall h, h <= fold_left (mstepN zs ws k) l h.
Proof.
  induction l as [|i l IH]; intros h; cbn [fold_left]; [lia|].
  eapply Z.le_trans; [|apply IH]. unfold mstepN. rewrite !nth_error_map'.
  destruct (nth_error zs i) as [a|]; cbn [option_map]; [|lia].
  destruct (i <=? k)%nat; [|lia]. destruct (nth_error ws (k - i)) as [b|]; cbn [option_map]; [|lia].
  pose proof (N_nonneg a). pose proof (N_nonneg b). nia.
Qed.

Lemma gen_mstep p q zs ws k i acc s h : Forall2 R p zs -> Forall2 R q ws ->
  Rs acc s -> N s <= h -> mstepN zs ws k h i < B53 ->
  Rs (mstepF p q k acc i) (mstepZ zs ws k s i) /\ N (mstepZ zs ws k s i) <= mstepN zs ws k h i.
Proof.
  intros Hp Hq Ha Hs Hb. unfold mstepF, mstepZ, mstepN in *. rewrite !nth_error_map' in *.
  pose proof (F2_nth_error _ _ _ Hp i) as Pi.
  destruct (nth_error p i) as [x|], (nth_error zs i) as [a|]; try contradiction; cbn [option_map] in *; auto.
  destruct (i <=? k)%nat; auto. pose proof (F2_nth_error _ _ _ Hq (k - i)%nat) as Qi.
  destruct (nth_error q (k - i)) as [y|], (nth_error ws (k - i)) as [b|]; try contradiction; cbn [option_map] in *; auto.
  pose proof (N_nonneg a). pose proof (N_nonneg b). pose proof (N_nonneg s).
  pose proof (N_add s (a * b)%A). pose proof (N_mul a b).
  split; [|lia]. apply Rs_add_l; auto; [|lia]. apply R_mul; auto. nia.
Qed.

Lemma gen_mfold p q zs ws k : Forall2 R p zs -> Forall2 R q ws -> forall l acc s h,
  Rs acc s -> N s <= h -> fold_left (mstepN zs ws k) l h < B53 ->
  Rs (fold_left (mstepF p q k) l acc) (fold_left (mstepZ zs ws k) l s) /\
  N (fold_left (mstepZ zs ws k) l s) <= fold_left (mstepN zs ws k) l h.
Proof.
  intros Hp Hq. induction l as [|i l IH]; intros acc s h Ha Hs Hb; cbn [fold_left] in *; [auto|].
  pose proof (mstepN_mono zs ws k l (mstepN zs ws k h i)) as Hm.
  destruct (gen_mstep p q zs ws k i acc s h Hp Hq Ha Hs ltac:(lia)) as [H1 H2].
  apply IH; auto.
Qed.

Definition conv_fits zs ws : Prop :=
  zs <> [] -> ws <> [] -> forall k, (k < length zs + length ws - 1)%nat -> nconv zs ws k < B53.

(* the product: every coefficient is accumulated from +0, hence never a negative zero *)
Lemma gen_pmul p q zs ws : Forall2 R p zs -> Forall2 R q ws -> conv_fits zs ws ->
  Forall2 Rs (pmul p q) (pmul zs ws).
Proof.
  intros Hp Hq Hb.
  pose proof (F2_length _ _ _ Hp) as Lp. pose proof (F2_length _ _ _ Hq) as Lq.
  destruct p as [|x0 p']; [inversion Hp; subst; constructor|].
  destruct q as [|y0 q']; [inversion Hq; subst; destruct zs; constructor|].
  destruct zs as [|a0 zs']; [discriminate|]. destruct ws as [|b0 ws']; [discriminate|].
  specialize (Hb ltac:(discriminate) ltac:(discriminate)).
  unfold pmul. rewrite <- Lp, <- Lq in *. apply F2_map_seq. intros k Hk.
  specialize (Hb k ltac:(lia)). unfold nconv, pmul_coeff in Hb. rewrite map_length, <- Lp in Hb.
  unfold pmul_coeff. rewrite <- Lp.
  refine (proj1 (gen_mfold _ _ _ _ k Hp Hq _ zero zero 0 Rs_zero _ Hb)).
  rewrite N_zero0. lia.
Qed.

(* strong operands: the sum is strong whatever the shapes (an empty operand returns the other one unchanged) *)
Lemma gen_padd_s p q zs ws : Forall2 Rs p zs -> Forall2 Rs q ws ->
  Forall (fun c => N c < B53) (padd zs ws) -> Forall2 Rs (padd p q) (padd zs ws).
Proof.
  intros Hp Hq Hb. destruct p as [|x0 p'].
  - inversion Hp; subst. exact Hq.
  - destruct q as [|y0 q'].
    + inversion Hq; subst. destruct zs; [inversion Hp|]. exact Hp.
    + apply gen_padd_ne; auto; try discriminate; eapply F2_impl; eauto.
Qed.

(* ---------------------------------------------------------------- pderiv / pderiv_n *)
Lemma gen_add_times n : forall x a acc s, R x a -> Rs acc s -> N s + Z.of_nat n * N a < B53 ->
  Rs (add_times n x acc) (add_times n a s) /\ N (add_times n a s) <= N s + Z.of_nat n * N a.
Proof.
  induction n as [|n IH]; intros x a acc s Hx Ha Hb; cbn [add_times].
  - split; auto. lia.
  - pose proof (N_nonneg a). pose proof (N_nonneg s). pose proof (N_add s a).
    assert (H2 : Rs (acc + x)%A (s + a)%A) by (apply Rs_add_l; auto; lia).
    destruct (IH x a _ _ Hx H2 ltac:(lia)) as [H3 H4]. split; auto. lia.
Qed.

(* coefficient i of the derivative is a_(i+1) added (i+1) times: its size bound (i+1) * N a_(i+1) *)
Definition deriv_fits zs : Prop :=
  forall i, (S i < length zs)%nat -> Z.of_nat (S i) * N (nth (S i) zs zero) < B53.

Lemma gen_pderiv p zs : Forall2 R p zs -> p <> [] -> deriv_fits zs ->
  exists d dz, pderiv p = Ok d /\ pderiv zs = Ok dz /\ Forall2 Rs d dz.
Proof.
  intros Hp Np Hb. destruct Hp as [|x0 a0 t tz H0 Ht]; [congruence|].
  eexists _, _. split; [reflexivity|]. split; [reflexivity|].
  rewrite <- (F2_length _ _ _ Ht). apply F2_map_seq. intros i Hi.
  specialize (Hb i ltac:(cbn; rewrite <- (F2_length _ _ _ Ht); lia)). cbn [nth] in Hb.
  rewrite Nat.add_1_r.
  apply (gen_add_times (S i) _ _ zero zero); auto.
  - apply F2_nth; auto.
  - rewrite N_zero0. lia.
Qed.

Fixpoint deriv_n_fits zs (n : nat) : Prop :=
  match n with
  | O => True
  | S n' => deriv_fits zs /\ forall dz, pderiv zs = Ok dz -> deriv_n_fits dz n'
  end.

Lemma gen_pderiv_n n : forall p zs dz, Forall2 R p zs -> deriv_n_fits zs n -> pderiv_n zs n = Ok dz ->
  exists d, pderiv_n p n = Ok d /\ Forall2 R d dz.
Proof.
  induction n as [|n IH]; intros p zs dz Hp Hf E; cbn [pderiv_n deriv_n_fits] in *.
  - injection E as <-. eauto.
  - destruct Hf as [Hf Hn]. destruct zs as [|a0 tz]; [discriminate|].
    assert (Np : p <> []) by (intros ->; inversion Hp).
    destruct (gen_pderiv p _ Hp Np Hf) as (d1 & dz1 & E1 & E2 & H1).
    rewrite E1. rewrite E2 in E. cbn [bind] in *.
    apply (IH d1 dz1 dz); auto. eapply F2_impl; eauto.
Qed.

(* ---------------------------------------------------------------- peval (Horner) *)
Definition hstepN (nx : Z) (h : Z) (a : ZA) : Z := h * nx + N a.
(* sum_i N a_i * (N x)^i, by the loop of the code *)
Definition habs zs (xz : ZA) : Z :=
  match rev zs with [] => 0 | c :: rest => fold_left (hstepN (N xz)) rest (N c) end.

Lemma hstepN_eq nx h a : hstepN nx h a = h * nx + N a.
Proof. reflexivity. Qed.

Lemma hstepN_mono nx restz : 1 <= nx -> forall h, 0 <= h -> h <= fold_left (hstepN nx) restz h.
Proof.
  intros Hx. induction restz as [|a r IH]; intros h Hh; cbn [fold_left]; [lia|].
  pose proof (N_nonneg a). pose proof (hstepN_eq nx h a).
  eapply Z.le_trans; [|apply IH]; nia.
Qed.

Lemma gen_hfold_pos x xz : R x xz -> 1 <= N xz -> forall rest restz acc accz h,
  Forall2 Rs rest restz -> Rs acc accz -> N accz <= h ->
  fold_left (hstepN (N xz)) restz h < B53 ->
  Rs (fold_left (fun acc a => acc * x + a)%A rest acc) (fold_left (fun acc a => acc * xz + a)%A restz accz) /\
  N (fold_left (fun acc a => acc * xz + a)%A restz accz) <= fold_left (hstepN (N xz)) restz h.
Proof.
  intros Hx Hx1 rest restz acc accz h Hr. revert acc accz h.
  induction Hr as [|c cz rest restz Hc Hr IH]; intros acc accz h Ha Hh Hb; cbn [fold_left] in *; [auto|].
  pose proof (N_nonneg accz). pose proof (N_nonneg cz).
  pose proof (hstepN_eq (N xz) h cz) as Eh.
  pose proof (hstepN_mono (N xz) restz Hx1 (hstepN (N xz) h cz) ltac:(nia)) as Hm.
  pose proof (N_mul accz xz). pose proof (N_add (accz * xz)%A cz).
  apply IH; auto.
  - apply Rs_add_r; auto; [|nia]. apply R_mul; auto. nia.
  - nia.
Qed.

Lemma gen_hfold_zero x : R x zero -> forall rest restz acc accz,
  Forall2 Rs rest restz -> Rs acc accz ->
  Rs (fold_left (fun acc a => acc * x + a)%A rest acc) (fold_left (fun acc a => acc * zero + a)%A restz accz) /\
  N (fold_left (fun acc a => acc * zero + a)%A restz accz) <= fold_left (hstepN 0) restz (N accz).
Proof.
  intros Hx rest restz acc accz Hr. revert acc accz.
  induction Hr as [|c cz rest restz Hc Hr IH]; intros acc accz Ha; cbn [fold_left] in *; [split; auto; lia|].
  assert (Hs : Rs (acc * x + c)%A (accz * zero + cz)%A).
  { apply Rs_add0_r; auto; [|ring]. apply R_mul; auto. rewrite N_zero0. lia. }
  destruct (IH _ _ Hs) as [H1 H2]. split; auto.
  eapply Z.le_trans; [exact H2|]. rewrite (hstepN_eq 0 (N accz) cz).
  replace (accz * zero + cz)%A with cz by ring. replace (N accz * 0 + N cz) with (N cz) by lia. lia.
Qed.

Lemma gen_peval p zs x xz : Forall2 Rs p zs -> R x xz -> p <> [] -> habs zs xz < B53 ->
  exists r rz, peval p x = Ok r /\ peval zs xz = Ok rz /\ Rs r rz /\ N rz <= habs zs xz.
Proof.
  intros Hp Hx Np Hb. apply F2_rev in Hp. unfold peval, habs in *.
  destruct (rev p) as [|c rest] eqn:Erp.
  - exfalso. apply Np. destruct p; auto. cbn in Erp. now apply app_eq_nil in Erp as [_ ?].
  - destruct (rev zs) as [|cz restz]; [inversion Hp|]. inversion Hp as [|? ? ? ? Hc Hr]; subst.
    eexists _, _. split; [reflexivity|]. split; [reflexivity|].
    pose proof (N_nonneg xz) as Hn. destruct (Z.eq_dec (N xz) 0) as [E0|E0].
    + pose proof (N_zero _ E0) as ->. rewrite N_zero0 in *. apply gen_hfold_zero; auto.
    + apply gen_hfold_pos; auto; lia.
Qed.

(* the size shadow is the value of the same Horner loop over the integers, on the sizes *)
Lemma habs_peval zs xz : zs <> [] -> peval (A := AZ) (map N zs) (N xz) = Ok (habs zs xz).
Proof.
  intros Nz. unfold peval, habs. rewrite <- map_rev. destruct (rev zs) as [|c rest] eqn:E.
  - exfalso. apply Nz. destruct zs; auto. cbn in E. now apply app_eq_nil in E as [_ ?].
  - cbn [map]. f_equal. clear E. generalize (N c). induction rest as [|a r IH]; intros h; cbn [fold_left map]; auto.
Qed.

Lemma habs_horner_gen zs xz : zs <> [] -> habs zs xz = horner (A := AZ) (map N zs) (N xz).
Proof.
  intros Nz. pose proof (habs_peval zs xz Nz) as E.
  rewrite (peval_horner AZ_ring) in E by (destruct zs; [congruence|discriminate]). now injection E.
Qed.

Lemma conv_fits_of_pmul zs ws :
  Forall (fun c => c < B53) (pmul (A := AZ) (map N zs) (map N ws)) -> conv_fits zs ws.
Proof.
  intros H Nz Nw k Hk. destruct zs as [|a0 zs']; [now elim Nz|]. destruct ws as [|b0 ws']; [now elim Nw|].
  cbn [map] in H. unfold pmul in H. rewrite <- !(map_cons N), !map_length in H.
  change (@length (T AZ)) with (@length Z) in *.
  exact (Forall_map_seq _ _ _ _ H k ltac:(lia)).
Qed.

(* ---------------------------------------------------------------- the laws, bit for bit *)
Section Bits.
Hypothesis Rs_unique : forall x y a, Rs x a -> Rs y a -> x = y.

Lemma F2_unique l l' zs : Forall2 Rs l zs -> Forall2 Rs l' zs -> l = l'.
Proof.
  intros H; revert l'. induction H as [|x a l zs Hx H IH]; intros l' H'; inversion H'; subst; auto.
  f_equal; eauto.
Qed.

(* eval (p + q) x = eval p x + eval q x *)
Lemma law_eval_padd p q zs ws x xz : Forall2 Rs p zs -> Forall2 Rs q ws -> R x xz -> p <> [] -> q <> [] ->
  Forall (fun c => N c < B53) (padd zs ws) ->
  habs zs xz < B53 -> habs ws xz < B53 -> habs (padd zs ws) xz < B53 ->
  exists rp rq rpz rqz, peval p x = Ok rp /\ peval q x = Ok rq /\ peval (padd p q) x = Ok (rp + rq)%A /\
    Rs rp rpz /\ Rs rq rqz /\ Rs (rp + rq)%A (rpz + rqz)%A /\
    peval zs xz = Ok rpz /\ peval ws xz = Ok rqz.
Proof.
  intros Hp Hq Hx Np Nq Hs Bp Bq Bs.
  destruct (gen_peval p zs x xz Hp Hx Np Bp) as (rp & rpz & Ep & Epz & Rp & _).
  destruct (gen_peval q ws x xz Hq Hx Nq Bq) as (rq & rqz & Eq & Eqz & Rq & _).
  assert (Nzs : zs <> []) by (intros ->; inversion Hp; congruence).
  assert (Nws : ws <> []) by (intros ->; inversion Hq; congruence).
  assert (Hpq : Forall2 Rs (padd p q) (padd zs ws)) by (apply gen_padd_s; auto).
  destruct (gen_peval _ _ x xz Hpq Hx (padd_nonempty p q Np) Bs) as (r & rz & Er & Erz & Rr & Nr).
  destruct (peval_padd_lemma RLZ zs ws xz Nzs Nws) as (a & b & Ea & Eb & Eab).
  rewrite Epz in Ea. rewrite Eqz in Eb. injection Ea as <-. injection Eb as <-.
  rewrite Erz in Eab. injection Eab as ->.
  assert (Rsum : Rs (rp + rq)%A (rpz + rqz)%A) by (apply Rs_add_l; auto; lia).
  exists rp, rq, rpz, rqz. repeat split; auto.
  rewrite Er. f_equal. eapply Rs_unique; eauto.
Qed.

(* eval (p - q) x = eval p x - eval q x *)
Lemma law_eval_psub p q zs ws x xz : Forall2 Rs p zs -> Forall2 Rs q ws -> R x xz -> p <> [] -> q <> [] ->
  Forall (fun c => N c < B53) (psub zs ws) ->
  habs zs xz < B53 -> habs ws xz < B53 -> habs (psub zs ws) xz < B53 ->
  exists rp rq rpz rqz, peval p x = Ok rp /\ peval q x = Ok rq /\ peval (psub p q) x = Ok (rp - rq)%A /\
    Rs rp rpz /\ Rs rq rqz /\ Rs (rp - rq)%A (rpz - rqz)%A /\
    peval zs xz = Ok rpz /\ peval ws xz = Ok rqz.
Proof.
  intros Hp Hq Hx Np Nq Hs Bp Bq Bs.
  destruct (gen_peval p zs x xz Hp Hx Np Bp) as (rp & rpz & Ep & Epz & Rp & _).
  destruct (gen_peval q ws x xz Hq Hx Nq Bq) as (rq & rqz & Eq & Eqz & Rq & _).
  assert (Nzs : zs <> []) by (intros ->; inversion Hp; congruence).
  assert (Nws : ws <> []) by (intros ->; inversion Hq; congruence).
  assert (Hpq : Forall2 Rs (psub p q) (psub zs ws)).
  { apply gen_psub_ne; auto; eapply F2_impl; eauto. }
  destruct (gen_peval _ _ x xz Hpq Hx (psub_nonempty p q Np) Bs) as (r & rz & Er & Erz & Rr & Nr).
  destruct (peval_psub_lemma RLZ zs ws xz Nzs Nws) as (a & b & Ea & Eb & Eab).
  rewrite Epz in Ea. rewrite Eqz in Eb. injection Ea as <-. injection Eb as <-.
  rewrite Erz in Eab. injection Eab as ->.
  assert (Rsum : Rs (rp - rq)%A (rpz - rqz)%A) by (apply Rs_sub; auto; lia).
  exists rp, rq, rpz, rqz. repeat split; auto.
  rewrite Er. f_equal. eapply Rs_unique; eauto.
Qed.

(* (p + q)' = p' + q' *)
Lemma law_pderiv_padd p q zs ws : Forall2 R p zs -> Forall2 R q ws -> p <> [] -> q <> [] ->
  Forall (fun c => N c < B53) (padd zs ws) ->
  deriv_fits zs -> deriv_fits ws -> deriv_fits (padd zs ws) ->
  (forall dzs dws, pderiv zs = Ok dzs -> pderiv ws = Ok dws -> Forall (fun c => N c < B53) (padd dzs dws)) ->
  exists dp dq, pderiv p = Ok dp /\ pderiv q = Ok dq /\ pderiv (padd p q) = Ok (padd dp dq).
Proof.
  intros Hp Hq Np Nq Hs Fp Fq Fs Fd.
  destruct (gen_pderiv p zs Hp Np Fp) as (dp & dzs & Ep & Ezs & Rp).
  destruct (gen_pderiv q ws Hq Nq Fq) as (dq & dws & Eq & Ews & Rq).
  pose proof (gen_padd_w p q zs ws Hp Hq Hs) as Hpq.
  destruct (gen_pderiv _ _ Hpq (padd_nonempty p q Np) Fs) as (d & dz & Ed & Edz & Rd).
  rewrite (pderiv_padd RLZ zs ws dzs dws Ezs Ews) in Edz. injection Edz as <-.
  exists dp, dq. repeat split; auto. rewrite Ed. f_equal.
  eapply F2_unique; [exact Rd|]. apply gen_padd_s; auto.
Qed.

(* (p * q)' = p' * q + p * q' *)
Lemma law_pderiv_pmul p q zs ws : Forall2 R p zs -> Forall2 R q ws -> p <> [] -> q <> [] ->
  conv_fits zs ws ->
  deriv_fits zs -> deriv_fits ws -> deriv_fits (pmul zs ws) ->
  (forall dzs dws, pderiv zs = Ok dzs -> pderiv ws = Ok dws ->
     conv_fits dzs ws /\ conv_fits zs dws /\
     Forall (fun c => N c < B53) (padd (pmul dzs ws) (pmul zs dws))) ->
  exists dp dq, pderiv p = Ok dp /\ pderiv q = Ok dq /\
    pderiv (pmul p q) = Ok (padd (pmul dp q) (pmul p dq)).
Proof.
  intros Hp Hq Np Nq Hm Fp Fq Fm Fd.
  destruct (gen_pderiv p zs Hp Np Fp) as (dp & dzs & Ep & Ezs & Rp).
  destruct (gen_pderiv q ws Hq Nq Fq) as (dq & dws & Eq & Ews & Rq).
  destruct (Fd dzs dws Ezs Ews) as (M1 & M2 & S12).
  pose proof (gen_pmul p q zs ws Hp Hq Hm) as Hpq. apply (F2_impl _ _ _ _ Rs_R) in Hpq.
  destruct (gen_pderiv _ _ Hpq (pmul_nonempty p q Np Nq)) as (d & dz & Ed & Edz & Rd); auto.
  rewrite (pderiv_pmul RLZ zs ws dzs dws Ezs Ews) in Edz. injection Edz as <-.
  exists dp, dq. repeat split; auto. rewrite Ed. f_equal.
  eapply F2_unique; [exact Rd|]. apply gen_padd_s; auto.
  - apply gen_pmul; auto. eapply F2_impl; eauto.
  - apply gen_pmul; auto. eapply F2_impl; eauto.
Qed.

End Bits.

(* ---------------------------------------------------------------- the remaining laws, as values *)
(* Negation, scaling and the product of two values can produce a NEGATIVE zero where the other side of the law has a
   positive one (refuted examples in Proofs/PolyExactF.v), so these laws are stated for the weak relation alone:
   both sides hold the same exact value.  (Section hypothesis: the two relations coincide.) *)
Section Weak.
Hypothesis R_Rs : forall x a, R x a -> Rs x a.

Lemma law_eval_pmul p q zs ws x xz : Forall2 R p zs -> Forall2 R q ws -> R x xz -> p <> [] -> q <> [] ->
  conv_fits zs ws ->
  habs zs xz < B53 -> habs ws xz < B53 -> habs (pmul zs ws) xz < B53 -> habs zs xz * habs ws xz < B53 ->
  exists rp rq r rpz rqz, peval p x = Ok rp /\ peval q x = Ok rq /\ peval (pmul p q) x = Ok r /\
    peval zs xz = Ok rpz /\ peval ws xz = Ok rqz /\ R rp rpz /\ R rq rqz /\
    R r (rpz * rqz)%A /\ R (rp * rq)%A (rpz * rqz)%A.
Proof.
  intros Hp Hq Hx Np Nq Hm Bp Bq Bm Bpq.
  destruct (gen_peval p zs x xz (F2_impl _ _ _ _ R_Rs Hp) Hx Np Bp) as (rp & rpz & Ep & Epz & Rp & Npz).
  destruct (gen_peval q ws x xz (F2_impl _ _ _ _ R_Rs Hq) Hx Nq Bq) as (rq & rqz & Eq & Eqz & Rq & Nqz).
  assert (Nzs : zs <> []) by (intros ->; inversion Hp; congruence).
  assert (Nws : ws <> []) by (intros ->; inversion Hq; congruence).
  pose proof (gen_pmul p q zs ws Hp Hq Hm) as Hpq.
  destruct (gen_peval _ _ x xz Hpq Hx (pmul_nonempty p q Np Nq) Bm) as (r & rz & Er & Erz & Rr & Nr).
  destruct (peval_pmul_lemma RLZ zs ws xz Nzs Nws) as (a & b & Ea & Eb & Eab).
  rewrite Epz in Ea. rewrite Eqz in Eb. injection Ea as <-. injection Eb as <-.
  rewrite Erz in Eab. injection Eab as ->.
  exists rp, rq, r, rpz, rqz. repeat split; auto.
  apply R_mul; auto. pose proof (N_nonneg rpz). pose proof (N_nonneg rqz). nia.
Qed.

Lemma law_eval_pneg p zs x xz : Forall2 R p zs -> R x xz -> p <> [] -> habs zs xz < B53 -> habs (pneg zs) xz < B53 ->
  exists rp r rpz, peval p x = Ok rp /\ peval (pneg p) x = Ok r /\ peval zs xz = Ok rpz /\
    R rp rpz /\ R r (- rpz)%A /\ R (- rp)%A (- rpz)%A.
Proof.
  intros Hp Hx Np Bp Bn.
  destruct (gen_peval p zs x xz (F2_impl _ _ _ _ R_Rs Hp) Hx Np Bp) as (rp & rpz & Ep & Epz & Rp & Npz).
  assert (Nzs : zs <> []) by (intros ->; inversion Hp; congruence).
  assert (Nn : pneg p <> []) by (destruct p; [congruence|discriminate]).
  destruct (gen_peval _ _ x xz (F2_impl _ _ _ _ R_Rs (gen_pneg p zs Hp)) Hx Nn Bn) as (r & rz & Er & Erz & Rr & Nr).
  destruct (peval_pneg_pscale_lemma RLZ zs xz zero Nzs) as (a & Ea & Eb & _).
  rewrite Epz in Ea. injection Ea as <-. rewrite Erz in Eb. injection Eb as ->.
  exists rp, r, rpz. repeat split; auto.
Qed.

Lemma law_eval_pscale p zs x xz s sz : Forall2 R p zs -> R x xz -> R s sz -> p <> [] ->
  Forall (fun a => N a * N sz < B53) zs ->
  habs zs xz < B53 -> habs (pscale zs sz) xz < B53 -> habs zs xz * N sz < B53 ->
  exists rp r rpz, peval p x = Ok rp /\ peval (pscale p s) x = Ok r /\ peval zs xz = Ok rpz /\
    R rp rpz /\ R r (rpz * sz)%A /\ R (rp * s)%A (rpz * sz)%A.
Proof.
  intros Hp Hx Hs Np Hb Bp Bn Bs.
  destruct (gen_peval p zs x xz (F2_impl _ _ _ _ R_Rs Hp) Hx Np Bp) as (rp & rpz & Ep & Epz & Rp & Npz).
  assert (Nzs : zs <> []) by (intros ->; inversion Hp; congruence).
  assert (Nn : pscale p s <> []) by (destruct p; [congruence|discriminate]).
  destruct (gen_peval _ _ x xz (F2_impl _ _ _ _ R_Rs (gen_pscale p zs s sz Hp Hs Hb)) Hx Nn Bn)
    as (r & rz & Er & Erz & Rr & Nr).
  destruct (peval_pneg_pscale_lemma RLZ zs xz sz Nzs) as (a & Ea & _ & Eb).
  rewrite Epz in Ea. injection Ea as <-. rewrite Erz in Eb. injection Eb as ->.
  exists rp, r, rpz. repeat split; auto.
  apply R_mul; auto. pose proof (N_nonneg rpz). pose proof (N_nonneg sz). nia.
Qed.

(* (s p)' and s p' hold the same exact values *)
Lemma law_pderiv_pscale p zs s sz : Forall2 R p zs -> R s sz -> p <> [] ->
  Forall (fun a => N a * N sz < B53) zs -> deriv_fits zs -> deriv_fits (pscale zs sz) ->
  (forall dzs, pderiv zs = Ok dzs -> Forall (fun a => N a * N sz < B53) dzs) ->
  exists dp d dzs, pderiv p = Ok dp /\ pderiv (pscale p s) = Ok d /\ pderiv zs = Ok dzs /\
    Forall2 R d (pscale dzs sz) /\ Forall2 R (pscale dp s) (pscale dzs sz).
Proof.
  intros Hp Hs Np Hb Fp Fs Fd.
  destruct (gen_pderiv p zs Hp Np Fp) as (dp & dzs & Ep & Ezs & Rp).
  assert (Nn : pscale p s <> []) by (destruct p; [congruence|discriminate]).
  destruct (gen_pderiv _ _ (gen_pscale p zs s sz Hp Hs Hb) Nn Fs) as (d & dz & Ed & Edz & Rd).
  rewrite (pderiv_pscale RLZ zs dzs sz Ezs) in Edz. injection Edz as <-.
  exists dp, d, dzs. repeat split; auto.
  - eapply F2_impl; eauto.
  - apply gen_pscale; auto. eapply F2_impl; eauto.
Qed.

End Weak.

End Gen.
