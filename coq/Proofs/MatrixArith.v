(* Proofs/MatrixArith.v -- lemmas about Model/Matrix.v, part 2: arithmetic.rs (element-wise operators
   through [mtab], compound assignments through [mupd_all]), transpose_in_place (both branches) and
   the matrix product as the code builds it (column by column through get_col / multiply / set_col).
   No ring law is used: the product's entries are the textbook sums in the order the code adds. *)
From Coq Require Import List Arith Lia Bool ZArith.
From OV Require Import Base.Panic Base.Arith Model.Vector Model.Matrix Proofs.Matrix.
Import ListNotations.

Section MatArith.
Context {A : Arith}.
Notation T := (T A).
Notation matrix := (matrix A).

(* ---------- mtab: result = new(r, c, 0); for i, for j: result[(i,j)] = g i j ---------- *)
Lemma mtab_msp r c (g : nat -> nat -> res T) (h : nat -> nat -> T) :
  (forall i j, i < r -> j < c -> g i j = Ok (h i j)) ->
  exists m', mtab r c g = Ok m' /\ msp r c h m'.
Proof.
  intros Hg. unfold mtab.
  destruct (for_msp r c (fun k i j => if i <? k then h i j else zero) 0 r
     (fun i s => for_ 0 c (fun j s => let* x := g i j in mset s i j x) s)
     (mat_new r c zero)) as (m' & E & Hm'); [lia| | |].
  - eapply msp_ext; [apply msp_new|]. intros; bdestr.
  - intros k s Hk Hs.
    destruct (for_mset r c (fun q i j => if (i <? k) || ((i =? k) && (j <? q)) then h i j else zero)
                0 c (fun _ => k) (fun q => q) (fun q => h k q) (fun q _ => g k q) s)
      as (s' & E' & Hs'); [lia | | intros; lia | | | ].
    + eapply msp_ext; [exact Hs|]. intros; bdestr.
    + intros q t Hq _. apply Hg; lia.
    + intros q i j Hq Hi Hj. unfold upd_fn. bdestr.
    + exists s'; split; [exact E'|]. eapply msp_ext; [exact Hs'|]. intros; bdestr.
  - exists m'; split; [exact E|]. eapply msp_ext; [exact Hm'|]. intros; bdestr.
Qed.

(* the first failing entry decides the panic (used for division by zero) *)
Lemma for_first_panic {S} (body : nat -> S -> res S) (s : S) n k :
  0 < n -> (forall t, body 0 t = Panic k) -> for_ 0 n body s = Panic k.
Proof. intros Hn Hb. unfold for_. rewrite Nat.sub_0_r. destruct n; [lia|]. cbn. now rewrite Hb. Qed.

Lemma mtab_panic r c (g : nat -> nat -> res T) k :
  0 < r -> 0 < c -> g 0 0 = Panic k -> mtab r c g = Panic k.
Proof.
  intros Hr Hc Hg. unfold mtab. apply for_first_panic; auto. intros t.
  apply for_first_panic; auto. intros t'. now rewrite Hg.
Qed.

Lemma mneg_msp r c f (m : matrix) : msp r c f m ->
  exists m', mneg m = Ok m' /\ msp r c (fun i j => neg (f i j)) m'.
Proof.
  intros Hm. pose proof Hm as (_ & Hr & Hc & _). unfold mneg. rewrite Hr, Hc.
  apply mtab_msp. intros i j Hi Hj. now rewrite (mget_msp r c f m i j Hm Hi Hj).
Qed.

Lemma madd_msp r c f g (a b : matrix) : msp r c f a -> msp r c g b ->
  exists m', madd a b = Ok m' /\ msp r c (fun i j => add (f i j) (g i j)) m'.
Proof.
  intros Ha Hb. pose proof Ha as (_ & Hr & Hc & _). pose proof Hb as (_ & Hr' & Hc' & _).
  unfold madd. rewrite Hr, Hc, Hr', Hc', !Nat.eqb_refl. cbn [negb].
  apply mtab_msp. intros i j Hi Hj.
  now rewrite (mget_msp r c f a i j Ha Hi Hj), (mget_msp r c g b i j Hb Hi Hj).
Qed.

Lemma msub_msp r c f g (a b : matrix) : msp r c f a -> msp r c g b ->
  exists m', msub a b = Ok m' /\ msp r c (fun i j => sub (f i j) (g i j)) m'.
Proof.
  intros Ha Hb. pose proof Ha as (_ & Hr & Hc & _). pose proof Hb as (_ & Hr' & Hc' & _).
  unfold msub. rewrite Hr, Hc, Hr', Hc', !Nat.eqb_refl. cbn [negb].
  apply mtab_msp. intros i j Hi Hj.
  now rewrite (mget_msp r c f a i j Ha Hi Hj), (mget_msp r c g b i j Hb Hi Hj).
Qed.

Lemma shape_guard (P : res matrix) (a b : matrix) :
  rows a <> rows b \/ cols a <> cols b ->
  (if negb (rows a =? rows b) then Panic Guard else if negb (cols a =? cols b) then Panic Guard else P)
  = Panic Guard.
Proof.
  intros H. destruct (Nat.eqb_spec (rows a) (rows b)); cbn [negb]; auto.
  destruct (Nat.eqb_spec (cols a) (cols b)); cbn [negb]; auto. lia.
Qed.

Lemma madd_guard (a b : matrix) : rows a <> rows b \/ cols a <> cols b -> madd a b = Panic Guard.
Proof. apply shape_guard. Qed.
Lemma msub_guard (a b : matrix) : rows a <> rows b \/ cols a <> cols b -> msub a b = Panic Guard.
Proof. apply shape_guard. Qed.
Lemma madd_assign_guard (a b : matrix) : rows a <> rows b \/ cols a <> cols b -> madd_assign a b = Panic Guard.
Proof. apply shape_guard. Qed.
Lemma msub_assign_guard (a b : matrix) : rows a <> rows b \/ cols a <> cols b -> msub_assign a b = Panic Guard.
Proof. apply shape_guard. Qed.

Lemma mscale_msp r c f (m : matrix) s : msp r c f m ->
  exists m', mscale m s = Ok m' /\ msp r c (fun i j => mul (f i j) s) m'.
Proof.
  intros Hm. pose proof Hm as (_ & Hr & Hc & _). unfold mscale. rewrite Hr, Hc.
  apply mtab_msp. intros i j Hi Hj. now rewrite (mget_msp r c f m i j Hm Hi Hj).
Qed.

Lemma mscale_l_msp r c f (m : matrix) s : msp r c f m ->
  exists m', mscale_l s m = Ok m' /\ msp r c (fun i j => mul (f i j) s) m'.
Proof. apply mscale_msp. Qed.

(* matrix / scalar: the element type's own division (which may panic: exact types on a zero divisor) *)
Lemma mdiv_msp r c f (m : matrix) s (dv : T -> T) : msp r c f m -> (forall x, div x s = Ok (dv x)) ->
  exists m', mdiv m s = Ok m' /\ msp r c (fun i j => dv (f i j)) m'.
Proof.
  intros Hm Hd. pose proof Hm as (_ & Hr & Hc & _). unfold mdiv. rewrite Hr, Hc.
  apply mtab_msp. intros i j Hi Hj. rewrite (mget_msp r c f m i j Hm Hi Hj). cbn [bind]. apply Hd.
Qed.

Lemma mdiv_panic r c f (m : matrix) s k : msp r c f m -> 0 < r -> 0 < c -> (forall x, div x s = Panic k) ->
  mdiv m s = Panic k.
Proof.
  intros Hm H0r H0c Hd. pose proof Hm as (_ & Hr & Hc & _). unfold mdiv. rewrite Hr, Hc.
  apply mtab_panic; auto. rewrite (mget_msp r c f m 0 0 Hm H0r H0c). cbn [bind]. apply Hd.
Qed.

(* ---------- mupd_all: for i, for j: self[(i,j)] = g i j self[(i,j)] ---------- *)
Lemma mupd_all_msp r c f (m : matrix) (g : nat -> nat -> T -> res T) (h : nat -> nat -> T) :
  msp r c f m -> (forall i j, i < r -> j < c -> g i j (f i j) = Ok (h i j)) ->
  exists m', mupd_all m g = Ok m' /\ msp r c h m'.
Proof.
  intros Hm Hg. pose proof Hm as (_ & Hr & Hc & _). unfold mupd_all. rewrite Hr, Hc.
  destruct (for_msp r c (fun k i j => if i <? k then h i j else f i j) 0 r
     (fun i s => for_ 0 c (fun j s => let* x := mget s i j in let* y := g i j x in mset s i j y) s) m)
    as (m' & E & Hm'); [lia| | |].
  - eapply msp_ext; [exact Hm|]. intros; bdestr.
  - intros k s Hk Hs.
    destruct (for_msp r c (fun q i j => if (i <? k) || ((i =? k) && (j <? q)) then h i j else f i j) 0 c
       (fun j s => let* x := mget s k j in let* y := g k j x in mset s k j y) s)
      as (s' & E' & Hs'); [lia| | |].
    + eapply msp_ext; [exact Hs|]. intros; bdestr.
    + intros q t Hq Ht. rewrite (mget_msp r c _ t k q Ht (proj2 Hk) (proj2 Hq)).
      assert (Hx : (if (k <? k) || ((k =? k) && (q <? q)) then h k q else f k q) = f k q) by bdestr.
      cbn beta. rewrite Hx. cbn [bind]. rewrite Hg by lia. cbn [bind].
      destruct (mset_msp r c _ t k q (h k q) Ht (proj2 Hk) (proj2 Hq)) as (t' & Et & Ht').
      exists t'; split; auto. eapply msp_ext; [exact Ht'|]. intros i j Hi Hj. unfold upd_fn. bdestr.
    + exists s'; split; [exact E'|]. eapply msp_ext; [exact Hs'|]. intros; bdestr.
  - exists m'; split; [exact E|]. eapply msp_ext; [exact Hm'|]. intros; bdestr.
Qed.

Lemma for_first_panic_at {S} (body : nat -> S -> res S) (s : S) n k :
  0 < n -> body 0 s = Panic k -> for_ 0 n body s = Panic k.
Proof. intros Hn Hb. unfold for_. rewrite Nat.sub_0_r. destruct n; [lia|]. cbn. now rewrite Hb. Qed.

Lemma mupd_all_panic r c f (m : matrix) (g : nat -> nat -> T -> res T) k :
  msp r c f m -> 0 < r -> 0 < c -> g 0 0 (f 0 0) = Panic k -> mupd_all m g = Panic k.
Proof.
  intros Hm H0r H0c Hg. pose proof Hm as (_ & Hr & Hc & _). unfold mupd_all. rewrite Hr, Hc.
  apply for_first_panic_at; auto. apply for_first_panic_at; auto.
  rewrite (mget_msp r c f m 0 0 Hm H0r H0c). cbn [bind]. now rewrite Hg.
Qed.

Lemma madd_assign_msp r c f g (a b : matrix) : msp r c f a -> msp r c g b ->
  exists m', madd_assign a b = Ok m' /\ msp r c (fun i j => add (f i j) (g i j)) m'.
Proof.
  intros Ha Hb. pose proof Ha as (_ & Hr & Hc & _). pose proof Hb as (_ & Hr' & Hc' & _).
  unfold madd_assign. rewrite Hr, Hc, Hr', Hc', !Nat.eqb_refl. cbn [negb].
  apply (mupd_all_msp r c f a); auto. intros i j Hi Hj.
  now rewrite (mget_msp r c g b i j Hb Hi Hj).
Qed.

Lemma msub_assign_msp r c f g (a b : matrix) : msp r c f a -> msp r c g b ->
  exists m', msub_assign a b = Ok m' /\ msp r c (fun i j => sub (f i j) (g i j)) m'.
Proof.
  intros Ha Hb. pose proof Ha as (_ & Hr & Hc & _). pose proof Hb as (_ & Hr' & Hc' & _).
  unfold msub_assign. rewrite Hr, Hc, Hr', Hc', !Nat.eqb_refl. cbn [negb].
  apply (mupd_all_msp r c f a); auto. intros i j Hi Hj.
  now rewrite (mget_msp r c g b i j Hb Hi Hj).
Qed.

Lemma mmul_assign_scalar_msp r c f (m : matrix) s : msp r c f m ->
  exists m', mmul_assign_scalar m s = Ok m' /\ msp r c (fun i j => mul (f i j) s) m'.
Proof. intros Hm. apply (mupd_all_msp r c f m); auto. Qed.
Lemma madd_assign_scalar_msp r c f (m : matrix) s : msp r c f m ->
  exists m', madd_assign_scalar m s = Ok m' /\ msp r c (fun i j => add (f i j) s) m'.
Proof. intros Hm. apply (mupd_all_msp r c f m); auto. Qed.
Lemma msub_assign_scalar_msp r c f (m : matrix) s : msp r c f m ->
  exists m', msub_assign_scalar m s = Ok m' /\ msp r c (fun i j => sub (f i j) s) m'.
Proof. intros Hm. apply (mupd_all_msp r c f m); auto. Qed.
Lemma mdiv_assign_scalar_msp r c f (m : matrix) s (dv : T -> T) : msp r c f m -> (forall x, div x s = Ok (dv x)) ->
  exists m', mdiv_assign_scalar m s = Ok m' /\ msp r c (fun i j => dv (f i j)) m'.
Proof. intros Hm Hd. apply (mupd_all_msp r c f m); auto. Qed.
Lemma mdiv_assign_scalar_panic r c f (m : matrix) s k : msp r c f m -> 0 < r -> 0 < c ->
  (forall x, div x s = Panic k) -> mdiv_assign_scalar m s = Panic k.
Proof. intros Hm H0r H0c Hd. apply (mupd_all_panic r c f m); auto. Qed.


(* ---------- the matrix product, as written: for col: result.set_col(col, a.multiply(b.get_col(col))) ---------- *)
Lemma mat_mul_msp ra k cb f g (a b : matrix) : msp ra k f a -> msp k cb g b ->
  exists m', mat_mul a b = Ok m' /\
    msp ra cb (fun i j => sum_n k (fun q => mul (f i q) (g q j))) m'.
Proof.
  intros Ha Hb. pose proof Ha as (_ & Hra & Hca & _). pose proof Hb as (_ & Hrb & Hcb & _).
  unfold mat_mul. rewrite Hca, Hrb, Nat.eqb_refl, Hcb, Hra. cbn [negb].
  destruct (for_msp ra cb (fun col i j => if j <? col then sum_n k (fun q => mul (f i q) (g q j)) else zero) 0 cb
     (fun col s => let* bc := get_col b col in let* v := multiply a bc in set_col s col v)
     (mat_new ra cb zero)) as (m' & E & Hm'); [lia| | |].
  - eapply msp_ext; [apply msp_new|]. intros; bdestr.
  - intros col s Hcol Hs.
    destruct (get_col_msp k cb g b col Hb (proj2 Hcol)) as (bc & Ebc & Hbc). rewrite Ebc. cbn [bind].
    destruct (multiply_msp ra k f a bc Ha (proj1 Hbc)) as (v & Ev & Hv). rewrite Ev. cbn [bind].
    destruct (set_col_msp ra cb _ s col v Hs (proj1 Hv) (proj2 Hcol)) as (s' & Es & Hs').
    exists s'; split; auto. eapply msp_ext; [exact Hs'|]. intros i j Hi Hj. cbn beta.
    destruct (Nat.eqb_spec j col) as [->|Hne].
    + destruct (Nat.ltb_spec col (S col)); [|lia].
      rewrite (proj2 Hv) by auto. apply sum_n_ext. intros q Hq. now rewrite (proj2 Hbc) by auto.
    + bdestr.
  - exists m'; split; [exact E|]. eapply msp_ext; [exact Hm'|]. intros; bdestr.
Qed.

Lemma mat_mul_guard (a b : matrix) : cols a <> rows b -> mat_mul a b = Panic Guard.
Proof. intros H; unfold mat_mul. now destruct (Nat.eqb_spec (cols a) (rows b)). Qed.


(* ---------- transpose_in_place ---------- *)
(* square branch: for i, for j in i+1..n: swap (i,j) <-> (j,i), in place *)
Lemma transpose_sq_msp n f (m : matrix) : msp n n f m ->
  exists m', transpose_in_place m = Ok m' /\ msp n n (fun i j => f j i) m'.
Proof.
  intros Hm. pose proof Hm as (_ & Hr & Hc & _). unfold transpose_in_place.
  rewrite Hr, Hc, Nat.eqb_refl.
  destruct (for_msp n n (fun k i j => if Nat.min i j <? k then f j i else f i j) 0 n
     (fun i s => for_ (i + 1) (cols s) (fun j s =>
        let* temp := mget s i j in let* old := mget s j i in
        let* m1 := mset s j i temp in mset m1 i j old) s) m) as (m' & E & Hm'); [lia| | |].
  - eapply msp_ext; [exact Hm|]. intros; bdestr.
  - intros k s Hk Hs. pose proof Hs as (_ & _ & Hcs & _). rewrite Hcs.
    destruct (for_msp n n
       (fun q i j => if (Nat.min i j <? k) || ((Nat.min i j =? k) && (Nat.max i j <? q)) then f j i else f i j)
       (k + 1) n
       (fun j s => let* temp := mget s k j in let* old := mget s j k in
                   let* m1 := mset s j k temp in mset m1 k j old) s) as (s' & E' & Hs'); [lia| | |].
    + eapply msp_ext; [exact Hs|]. intros i j Hi Hj. bdestr; f_equal; lia.
    + intros q t Hq Ht.
      assert (Hkn : k < n) by lia. assert (Hqn : q < n) by lia.
      rewrite (mget_msp n n _ t k q Ht Hkn Hqn), (mget_msp n n _ t q k Ht Hqn Hkn). cbn [bind].
      match goal with |- context [mset t q k ?x] =>
        destruct (mset_msp n n _ t q k x Ht Hqn Hkn) as (t1 & E1 & Ht1) end.
      rewrite E1. cbn [bind].
      match goal with |- context [mset t1 k q ?x] =>
        destruct (mset_msp n n _ t1 k q x Ht1 Hkn Hqn) as (t2 & E2 & Ht2) end.
      exists t2; split; [exact E2|]. eapply msp_ext; [exact Ht2|].
      intros i j Hi Hj. unfold upd_fn. cbn beta.
      destruct (Nat.eqb_spec i k) as [->|Hik]; destruct (Nat.eqb_spec j q) as [->|Hjq]; cbn [andb].
      * bdestr.
      * destruct (Nat.eqb_spec k q); [lia|]. cbn [andb]. bdestr; f_equal; lia.
      * destruct (Nat.eqb_spec i q) as [->|Hiq]; destruct (Nat.eqb_spec q k); cbn [andb]; try lia; bdestr; f_equal; lia.
      * destruct (Nat.eqb_spec i q) as [->|Hiq]; destruct (Nat.eqb_spec j k) as [->|Hjk]; cbn [andb];
          bdestr; f_equal; lia.
    + exists s'; split; [exact E'|]. eapply msp_ext; [exact Hs'|]. intros i j Hi Hj. bdestr; f_equal; lia.
  - exists m'; split; [exact E|]. eapply msp_ext; [exact Hm'|]. intros i j Hi Hj. bdestr; f_equal; lia.
Qed.


(* non-square branch: temp = []; for j < cols, for i < rows: temp.push(self[(i,j)]); swap(rows, cols) *)
Lemma transpose_nsq_msp r c f (m : matrix) : msp r c f m -> r <> c ->
  exists m', transpose_in_place m = Ok m' /\ msp c r (fun i j => f j i) m'.
Proof.
  intros Hm Hne. pose proof Hm as (_ & Hr & Hc & _). unfold transpose_in_place.
  rewrite Hr, Hc. destruct (Nat.eqb_spec r c) as [Hx|_]; [contradiction|].
  destruct (for_inv (fun j acc => length acc = j * r /\
               forall j' i', j' < j -> i' < r -> nth (j' * r + i') acc zero = f i' j') 0 c
     (fun j acc => for_ 0 r (fun i acc => let* x := mget m i j in Ok (acc ++ [x])) acc) [])
    as (temp & E & Hlen & Htemp); [lia| | |].
  - split; auto. intros; lia.
  - intros j acc Hj (Hl & Ha).
    destruct (for_inv (fun i acc => length acc = j * r + i /\
               forall j' i', i' < r -> (j' < j \/ (j' = j /\ i' < i)) -> nth (j' * r + i') acc zero = f i' j') 0 r
       (fun i acc => let* x := mget m i j in Ok (acc ++ [x])) acc) as (acc' & E' & Hl' & Ha'); [lia| | |].
    + split; [lia|]. intros j' i' Hi' [Hj'|[_ Hx]]; [|lia]. apply Ha; auto.
    + intros i t Hi (Hlt & Ht). rewrite (mget_msp r c f m i j Hm (proj2 Hi) (proj2 Hj)). cbn [bind].
      eexists; split; [reflexivity|]. split.
      * rewrite app_length; cbn; lia.
      * intros j' i' Hi' Hcase.
        destruct (Nat.eq_dec (j' * r + i') (j * r + i)) as [Heq|Hneq].
        -- apply idx_inj in Heq as [-> ->]; try lia.
           rewrite app_nth2 by lia. now rewrite Hlt, Nat.sub_diag.
        -- assert (Hlt' : j' * r + i' < j * r + i).
           { destruct Hcase as [Hj'|[-> Hi'']]; [nia|lia]. }
           rewrite app_nth1 by lia. apply Ht; auto.
           destruct Hcase as [Hj'|[-> Hi'']]; [left; auto|right; split; auto; lia].
    + exists acc'; split; [exact E'|]. split; [lia|].
      intros j' i' Hj' Hi'. apply Ha'; auto.
      destruct (Nat.eq_dec j' j) as [->|]; [right; split; auto|left; lia].
  - rewrite E. cbn [bind]. eexists; split; [reflexivity|].
    unfold msp, wf, entry; cbn [buf rows cols]. repeat split; auto.
Qed.

Lemma transpose_in_place_msp r c f (m : matrix) : msp r c f m ->
  exists m', transpose_in_place m = Ok m' /\ msp c r (fun i j => f j i) m'.
Proof.
  intros Hm. destruct (Nat.eq_dec r c) as [->|Hne].
  - now apply transpose_sq_msp.
  - now apply transpose_nsq_msp.
Qed.

End MatArith.
