(* ======================================================================================================
   C15 (vectors), rounding half at binary64 -- package round2.  Append to Props/C15.v.
   norm_2 "to rounding accuracy" for the PRIMITIVE-FLOAT instance itself (norm_2 at SAF, IEEE binary64), through Flocq:
   whenever the computed norm is finite and no square underflows, it is the exact Euclidean norm of the data times
   (1 + th), |th| <= gam_{n+1}, u = 2^-53.  (The standard-model statement is norm_2_relative_error of package round.)
   Unproved remainder: squares that fall into the subnormal range, overflowing squares (the unscaled-squares finding of
   C15 is exactly the case where the hypothesis "finite" fails for representable norms).
   ====================================================================================================== *)
From Coq Require Import Reals Floats List Lra Lia.
From OV Require Import Base.RoundModel Model.Vector Model.Iter Inst.FloatInst Proofs.ComplexRound Proofs.RoundDotFloat
  Proofs.Round2Norm2F.
Import ListNotations.

Theorem norm_2_relative_error_float : forall (v : list PrimFloat.float),
  ffinite (norm_2 (F := SAF) PrimFloat.abs v) ->
  (forall k, (k < length v)%nat -> no_underflow (FR (nth k v 0%float) * FR (nth k v 0%float))%R) ->
  (INR (length v + 1) * u64 < 1)%R ->
  exists th : R, (Rabs th <= g64 (length v + 1))%R /\
    FR (norm_2 (F := SAF) PrimFloat.abs v)
    = (R_sqrt.sqrt (Rsum (length v) (fun k => (FR (nth k v 0%float) * FR (nth k v 0%float))%R)) * (1 + th))%R.
Proof. intros v. exact (norm_2_relative_error_float_lemma v). Qed.
Check norm_2_relative_error_float : forall (v : list PrimFloat.float),
  ffinite (norm_2 (F := SAF) PrimFloat.abs v) ->
  (forall k, (k < length v)%nat -> no_underflow (FR (nth k v 0%float) * FR (nth k v 0%float))%R) ->
  (INR (length v + 1) * u64 < 1)%R ->
  exists th : R, (Rabs th <= g64 (length v + 1))%R /\
    FR (norm_2 (F := SAF) PrimFloat.abs v)
    = (R_sqrt.sqrt (Rsum (length v) (fun k => (FR (nth k v 0%float) * FR (nth k v 0%float))%R)) * (1 + th))%R.
Print Assumptions norm_2_relative_error_float.
(* [1; 1]: the norm sqrt 2 is inexact, the computed one is finite, the squares are 1 *)
Example norm_2_relative_error_float_nonvacuous :
  ffinite (norm_2 (F := SAF) PrimFloat.abs ex_n2) /\
  (forall k, (k < length ex_n2)%nat -> no_underflow (FR (nth k ex_n2 0%float) * FR (nth k ex_n2 0%float))%R) /\
  (INR (length ex_n2 + 1) * u64 < 1)%R.
Proof. exact ex_n2_conditions. Qed.
