(* Proofs/CFunSeriesAbs.v -- modulus statements about the exponential series of Proofs/CFunSeries.v:
   * componentwise convergence (cconv) is the same as convergence of the modulus of the difference to 0;
   * the model's modulus is multiplicative and satisfies the triangle inequality;
   * the exponential series converges absolutely:  sum_n |z^n/n!| = exp |z|;
   * truncation error:  |cexp z - sum_{n<=N} z^n/n!|  <=  exp |z| - sum_{n<=N} |z|^n/n!   (the real tail), for all z, N. *)
From Coq Require Import Reals Lra Lia Field.
From OV Require Import Model.CFun Proofs.CFunArg Proofs.CFun Proofs.CFunAlg Proofs.CFunSeries.
Local Open Scope R_scope.

(* ---------- the modulus ---------- *)
Lemma Rabs_sqr a : Rabs a * Rabs a = a * a.
Proof. rewrite <- Rabs_mult. apply Rabs_pos_eq. nra. Qed.

Lemma re_le_cabs w : Rabs (re w) <= cabs w.
Proof.
  unfold cabs, abs_sqr. rewrite <- sqrt_Rsqr_abs. apply sqrt_le_1_alt. unfold Rsqr. nra.
Qed.

Lemma im_le_cabs w : Rabs (im w) <= cabs w.
Proof.
  unfold cabs, abs_sqr. rewrite <- sqrt_Rsqr_abs. apply sqrt_le_1_alt. unfold Rsqr. nra.
Qed.

Lemma cabs_le_sum w : cabs w <= Rabs (re w) + Rabs (im w).
Proof.
  pose proof (Rabs_pos (re w)) as Ha. pose proof (Rabs_pos (im w)) as Hb.
  rewrite <- (sqrt_square (Rabs (re w) + Rabs (im w))) by lra.
  unfold cabs, abs_sqr. apply sqrt_le_1_alt.
  pose proof (Rabs_sqr (re w)). pose proof (Rabs_sqr (im w)). nra.
Qed.

Lemma cabs_cmul a b : cabs (cmul a b) = cabs a * cabs b.
Proof.
  unfold cabs. rewrite <- sqrt_mult by apply abs_sqr_nonneg. f_equal.
  destruct a, b. unfold abs_sqr. csimpl. ring.
Qed.

Lemma cabs_RtoC r : cabs (RtoC r) = Rabs r.
Proof.
  unfold cabs, abs_sqr, RtoC. cbn [re im fst snd]. rewrite <- sqrt_Rsqr_abs. f_equal. unfold Rsqr. ring.
Qed.

Lemma cabs_cone : cabs cone = 1.
Proof. change cone with (RtoC 1). rewrite cabs_RtoC. apply Rabs_R1. Qed.

Lemma cabs_czero : cabs czero = 0.
Proof. change czero with (RtoC 0). rewrite cabs_RtoC. apply Rabs_R0. Qed.

Lemma cabs_cpown z n : cabs (cpown z n) = cabs z ^ n.
Proof.
  induction n as [|n IH].
  - apply cabs_cone.
  - cbn [cpown pow]. rewrite cabs_cmul, IH. reflexivity.
Qed.

Lemma cabs_eterm z n : cabs (eterm n z) = expq (cabs z) n.
Proof.
  unfold eterm, cexp_coeff, expq. rewrite cabs_cmul, cabs_RtoC, cabs_cpown. f_equal.
  apply Rabs_pos_eq. left. apply Rinv_0_lt_compat, INR_fact_lt_0.
Qed.

Lemma cabs_sub_sym a b : cabs (csub a b) = cabs (csub b a).
Proof. unfold cabs. f_equal. destruct a, b. unfold abs_sqr. csimpl. ring. Qed.

Lemma cabs_triang a b : cabs (cadd a b) <= cabs a + cabs b.
Proof.
  pose proof (cabs_nonneg a) as Ha. pose proof (cabs_nonneg b) as Hb.
  pose proof (cabs_sqr a) as Sa. pose proof (cabs_sqr b) as Sb.
  rewrite <- (sqrt_square (cabs a + cabs b)) by lra.
  unfold cabs at 1. apply sqrt_le_1_alt.
  destruct a as [a1 a2], b as [b1 b2]. unfold abs_sqr in *. cbn [cadd re im fst snd] in *.
  set (A := cabs (a1, a2)) in *. set (B := cabs (b1, b2)) in *.
  (* Cauchy-Schwarz: a1 b1 + a2 b2 <= A B *)
  assert (CS : a1 * b1 + a2 * b2 <= A * B).
  { destruct (Rle_or_lt (a1 * b1 + a2 * b2) (A * B)) as [H|H]; [exact H|exfalso].
    assert (H0 : 0 <= A * B) by nra.
    assert (H1 : (A * B) * (A * B) < (a1 * b1 + a2 * b2) * (a1 * b1 + a2 * b2)) by nra.
    assert (H2 : (A * B) * (A * B) = (a1 * a1 + a2 * a2) * (b1 * b1 + b2 * b2)) by (rewrite <- Sa, <- Sb; ring).
    pose proof (Rle_0_sqr (a1 * b2 - a2 * b1)) as H3. unfold Rsqr in H3. nra. }
  nra.
Qed.

Lemma cabs_csum_le f N : cabs (csum f N) <= sum_f_R0 (fun n => cabs (f n)) N.
Proof.
  induction N as [|N IH].
  - cbn [csum sum_f_R0]. lra.
  - rewrite csum_S. cbn [sum_f_R0]. pose proof (cabs_triang (csum f N) (f (S N))). lra.
Qed.

(* ---------- componentwise convergence = convergence in modulus ---------- *)
Lemma cconv_iff_modulus s l : cconv s l <-> Un_cv (fun N => cabs (csub (s N) l)) 0.
Proof.
  split.
  - intros [H1 H2] eps Heps.
    destruct (H1 (eps / 2)) as [N1 HN1]; [lra|]. destruct (H2 (eps / 2)) as [N2 HN2]; [lra|].
    exists (Nat.max N1 N2). intros n Hn.
    specialize (HN1 n ltac:(lia)). specialize (HN2 n ltac:(lia)). unfold R_dist in *.
    rewrite Rminus_0_r, Rabs_pos_eq by apply cabs_nonneg.
    pose proof (cabs_le_sum (csub (s n) l)) as H. cbn [csub re im fst snd] in H. lra.
  - intros H. split; intros eps Heps; destruct (H eps Heps) as [N HN]; exists N; intros n Hn;
      specialize (HN n Hn); unfold R_dist in *; rewrite Rminus_0_r, Rabs_pos_eq in HN by apply cabs_nonneg.
    + pose proof (re_le_cabs (csub (s n) l)) as K. cbn [csub re im fst snd] in K. lra.
    + pose proof (im_le_cabs (csub (s n) l)) as K. cbn [csub re im fst snd] in K. lra.
Qed.

(* ---------- absolute convergence of the exponential series ---------- *)
Lemma exp_series_abs_lemma z : infinite_sum (fun n => cabs (cmul (cexp_coeff n) (cpown z n))) (exp (cabs z)).
Proof.
  apply (Un_cv_ext _ (sum_f_R0 (expq (cabs z)))).
  - intros N. apply sum_eq. intros n _. apply (cabs_eterm z n).
  - apply exp_series_R.
Qed.

(* ---------- truncation error ---------- *)
Lemma expq_sum_growing r : 0 <= r -> Un_growing (sum_f_R0 (expq r)).
Proof.
  intros Hr n. cbn [sum_f_R0]. assert (0 <= expq r (S n)); [|lra].
  rewrite <- (Rabs_pos_eq r Hr). apply expq_nonneg.
Qed.

Lemma expq_sum_le_exp r : 0 <= r -> forall n, sum_f_R0 (expq r) n <= exp r.
Proof. intros Hr. apply growing_ineq; [apply expq_sum_growing, Hr | apply exp_series_R]. Qed.

Lemma exp_partial_diff z N k :
  cabs (csub (cpsum cexp_coeff z (N + k)) (cpsum cexp_coeff z N))
  <= sum_f_R0 (expq (cabs z)) (N + k) - sum_f_R0 (expq (cabs z)) N.
Proof.
  induction k as [|k IH].
  - rewrite Nat.add_0_r. replace (csub (cpsum cexp_coeff z N) (cpsum cexp_coeff z N)) with czero by ring.
    rewrite cabs_czero. lra.
  - replace (N + S k)%nat with (S (N + k)) by lia. unfold cpsum in *. rewrite csum_S. cbn [sum_f_R0].
    set (E := csum (fun n => cmul (cexp_coeff n) (cpown z n))) in *.
    replace (csub (cadd (E (N + k)%nat) (cmul (cexp_coeff (S (N + k))) (cpown z (S (N + k))))) (E N))
      with (cadd (csub (E (N + k)%nat) (E N)) (eterm (S (N + k)) z)) by (unfold eterm; ring).
    pose proof (cabs_triang (csub (E (N + k)%nat) (E N)) (eterm (S (N + k)) z)) as T.
    rewrite cabs_eterm in T. lra.
Qed.

Lemma exp_series_tail_lemma z N :
  cabs (csub (cexp z) (cpsum cexp_coeff z N)) <= exp (cabs z) - sum_f_R0 (expq (cabs z)) N.
Proof.
  apply le_epsilon. intros eps Heps.
  destruct (proj1 (cconv_iff_modulus _ _) (cexp_series_lemma z) eps Heps) as [M0 HM0].
  set (k := (M0 - N)%nat). specialize (HM0 (N + k)%nat ltac:(lia)).
  unfold R_dist in HM0. rewrite Rminus_0_r, Rabs_pos_eq in HM0 by apply cabs_nonneg.
  pose proof (exp_partial_diff z N k) as D.
  pose proof (expq_sum_le_exp (cabs z) (cabs_nonneg z) (N + k)) as L.
  replace (csub (cexp z) (cpsum cexp_coeff z N))
    with (cadd (csub (cexp z) (cpsum cexp_coeff z (N + k))) (csub (cpsum cexp_coeff z (N + k)) (cpsum cexp_coeff z N))) by ring.
  pose proof (cabs_triang (csub (cexp z) (cpsum cexp_coeff z (N + k))) (csub (cpsum cexp_coeff z (N + k)) (cpsum cexp_coeff z N))) as T.
  rewrite (cabs_sub_sym (cexp z)) in T. lra.
Qed.

(* the bound of exp_series_tail_lemma tends to 0 *)
Lemma exp_tail_bound_to_0 r : Un_cv (fun N => exp r - sum_f_R0 (expq r) N) 0.
Proof.
  intros eps Heps. destruct (exp_series_R r eps Heps) as [N HN]. exists N. intros n Hn.
  specialize (HN n Hn). unfold R_dist in *. rewrite Rminus_0_r, Rabs_minus_sym. exact HN.
Qed.

(* ---------- an explicit truncation bound:  tail of the real exponential series <= r^(N+1)/(N+1)! * exp r ---------- *)
Lemma fact_mul_le N k : (fact N * fact k <= fact (N + k))%nat.
Proof.
  induction k as [|k IH].
  - rewrite Nat.add_0_r. cbn [fact]. lia.
  - replace (N + S k)%nat with (S (N + k)) by lia.
    change (fact (S (N + k))) with (S (N + k) * fact (N + k))%nat.
    change (fact (S k)) with (S k * fact k)%nat.
    assert (H : (S k * (fact N * fact k) <= S (N + k) * fact (N + k))%nat) by (apply Nat.mul_le_mono; lia).
    lia.
Qed.

Lemma expq_add_le r N k : 0 <= r -> expq r (N + k) <= expq r N * expq r k.
Proof.
  intros Hr. unfold expq. rewrite pow_add.
  assert (Hp : 0 <= r ^ N * r ^ k) by (apply Rmult_le_pos; apply pow_le; exact Hr).
  assert (Hi : / INR (fact (N + k)) <= / INR (fact N) * / INR (fact k)).
  { rewrite <- Rinv_mult, <- mult_INR. apply Rinv_le_contravar.
    - apply lt_0_INR. pose proof (lt_O_fact N). pose proof (lt_O_fact k). nia.
    - apply le_INR, fact_mul_le. }
  replace (/ INR (fact N) * r ^ N * (/ INR (fact k) * r ^ k))
    with (/ INR (fact N) * / INR (fact k) * (r ^ N * r ^ k)) by ring.
  apply Rmult_le_compat_r; assumption.
Qed.

Lemma expq_sum_shift r N k :
  sum_f_R0 (expq r) (S N + k) - sum_f_R0 (expq r) N = sum_f_R0 (fun j => expq r (S N + j)) k.
Proof.
  induction k as [|k IH].
  - rewrite !Nat.add_0_r. change (sum_f_R0 (expq r) (S N)) with (sum_f_R0 (expq r) N + expq r (S N)).
    change (sum_f_R0 (fun j => expq r (S N + j)) 0) with (expq r (S N + 0)). rewrite Nat.add_0_r. ring.
  - replace (S N + S k)%nat with (S (S N + k)) by lia.
    change (sum_f_R0 (expq r) (S (S N + k))) with (sum_f_R0 (expq r) (S N + k) + expq r (S (S N + k))).
    change (sum_f_R0 (fun j => expq r (S N + j)) (S k))
      with (sum_f_R0 (fun j => expq r (S N + j)) k + expq r (S N + S k)).
    rewrite <- IH. replace (S N + S k)%nat with (S (S N + k)) by lia. ring.
Qed.

Lemma expq_tail_partial r N k : 0 <= r ->
  sum_f_R0 (expq r) (S N + k) - sum_f_R0 (expq r) N <= expq r (S N) * exp r.
Proof.
  intros Hr. rewrite expq_sum_shift.
  apply Rle_trans with (sum_f_R0 (fun j => expq r (S N) * expq r j) k).
  - apply sum_Rle. intros j _. apply expq_add_le, Hr.
  - rewrite sum_f_R0_scal_l. apply Rmult_le_compat_l.
    + rewrite <- (Rabs_pos_eq r Hr). apply expq_nonneg.
    + apply expq_sum_le_exp, Hr.
Qed.

Lemma expq_tail_bound r N : 0 <= r -> exp r - sum_f_R0 (expq r) N <= expq r (S N) * exp r.
Proof.
  intros Hr. apply le_epsilon. intros eps Heps.
  destruct (exp_series_R r eps Heps) as [M HM].
  specialize (HM (S N + M)%nat ltac:(lia)). unfold R_dist in HM.
  pose proof (expq_tail_partial r N M Hr) as T.
  pose proof (Rle_abs (exp r - sum_f_R0 (expq r) (S N + M))) as A. rewrite Rabs_minus_sym in A. lra.
Qed.

Lemma exp_series_tail_explicit z N :
  cabs (csub (cexp z) (cpsum cexp_coeff z N)) <= cabs z ^ S N / INR (fact (S N)) * exp (cabs z).
Proof.
  apply Rle_trans with (exp (cabs z) - sum_f_R0 (expq (cabs z)) N); [apply exp_series_tail_lemma|].
  replace (cabs z ^ S N / INR (fact (S N))) with (expq (cabs z) (S N)) by (unfold expq, Rdiv; ring).
  apply expq_tail_bound, cabs_nonneg.
Qed.

(* the explicit bound tends to 0 (standard library: cv_speed_pow_fact) *)
Lemma exp_explicit_bound_to_0 r : Un_cv (fun N => r ^ S N / INR (fact (S N)) * exp r) 0.
Proof.
  replace 0 with (0 * exp r) by ring.
  apply (CV_mult (fun N => r ^ S N / INR (fact (S N))) (fun _ => exp r) 0 (exp r)).
  - intros eps Heps. destruct (cv_speed_pow_fact r eps Heps) as [M HM]. exists M. intros n Hn.
    apply (HM (S n)). lia.
  - intros eps Heps. exists 0%nat. intros n _. unfold R_dist. rewrite Rminus_diag_eq, Rabs_R0 by reflexivity. exact Heps.
Qed.
