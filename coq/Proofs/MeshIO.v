(* Proofs/MeshIO.v -- Mesh1D::output and Mesh1D::read (src/mesh1d.rs:98-122, 147-159).
   output writes one line per node: the node, then its nvars variables (nvars+1 tokens per line);
   read, run on the whitespace-token stream of such a file, rebuilds exactly the mesh that was
   written, whatever the nodes and the variable vectors of the mesh it is called on (they are
   replaced / resized / overwritten), provided that mesh has the same nvars.
   Pure storage facts: no law on the arithmetic [A] is used; formatting and parsing are abstract,
   with the single hypothesis that parsing a formatted value gives the value back. *)
From Coq Require Import List Arith Lia Bool.
From OV Require Import Base.Panic.
From OV Require Import Base.Arith.
From OV Require Import Model.Vector.
From OV Require Import Model.Matrix.
From OV Require Import Model.Mesh.
From OV Require Import Proofs.MeshBase.
From OV Require Import Proofs.MeshStore.
Import ListNotations.

(* ------------------------------------------------------------------ loops *)
Section LoopFacts.
Context {St : Type}.

Lemma ex_eq_ok (r : res St) v : (exists s', r = Ok s' /\ s' = v) -> r = Ok v.
Proof. intros (s' & E & ->). exact E. Qed.

Lemma for_from_ext n lo (body body' : nat -> St -> res St) s :
  (forall i s, lo <= i < lo + n -> body i s = body' i s) ->
  for_from n lo body s = for_from n lo body' s.
Proof.
  revert lo s; induction n as [|n IH]; intros lo s H; cbn [for_from]; [reflexivity|].
  rewrite H by lia. destruct (body' lo s) as [s1|e]; cbn [bind]; [|reflexivity].
  apply IH. intros i s2 Hi. apply H; lia.
Qed.

(* a range split in two *)
Lemma for_from_app a b lo (body : nat -> St -> res St) s :
  for_from (a + b) lo body s =
  let* s' := for_from a lo body s in for_from b (lo + a) body s'.
Proof.
  revert lo s; induction a as [|a IH]; intros lo s; cbn [for_from Nat.add bind].
  - now rewrite Nat.add_0_r.
  - destruct (body lo s) as [s1|e]; cbn [bind]; [|reflexivity].
    rewrite IH. now replace (S lo + a) with (lo + S a) by lia.
Qed.

(* a range counted from its lower end *)
Lemma for_from_shift n lo (body : nat -> St -> res St) s :
  for_from n lo body s = for_from n 0 (fun j => body (lo + j)) s.
Proof.
  revert lo body s; induction n as [|n IH]; intros lo body s; cbn [for_from]; [reflexivity|].
  rewrite Nat.add_0_r. destruct (body lo s) as [s1|e]; cbn [bind]; [|reflexivity].
  rewrite (IH (S lo)). rewrite (IH 1 (fun j => body (lo + j))).
  apply for_from_ext. intros i s2 _. f_equal. lia.
Qed.

(* a loop none of whose iterations does anything *)
Lemma for_from_id n lo (body : nat -> St -> res St) s :
  (forall i s, lo <= i < lo + n -> body i s = Ok s) -> for_from n lo body s = Ok s.
Proof.
  revert lo s; induction n as [|n IH]; intros lo s H; cbn [for_from]; [reflexivity|].
  rewrite H by lia. cbn [bind]. apply IH. intros i s2 Hi. apply H; lia.
Qed.

(* a loop only one of whose iterations does something *)
Lemma for_from_single n lo (body : nat -> St -> res St) v s :
  lo <= v < lo + n ->
  (forall i s, lo <= i < lo + n -> i <> v -> body i s = Ok s) ->
  for_from n lo body s = body v s.
Proof.
  revert lo s; induction n as [|n IH]; intros lo s Hv H; [lia|]. cbn [for_from].
  destruct (Nat.eq_dec lo v) as [->|Hne].
  - destruct (body v s) as [s1|e]; cbn [bind]; [|reflexivity].
    apply for_from_id. intros i s2 Hi. apply H; lia.
  - rewrite H by lia. cbn [bind]. apply IH; [lia|].
    intros i s2 Hi Hiv. apply H; lia.
Qed.

Lemma for_from0_inv_post (I : nat -> St -> Prop) (Q : St -> Prop) n body (s : St) :
  I 0 s ->
  (forall i s, i < n -> I i s -> exists s', body i s = Ok s' /\ I (S i) s') ->
  (forall s', I n s' -> Q s') ->
  exists s', for_from n 0 body s = Ok s' /\ Q s'.
Proof.
  intros H0 Hstep Hpost.
  destruct (for_from_inv I n 0 body s H0) as (s' & E & H).
  - intros i s1 Hi. apply Hstep; lia.
  - exists s'. split; [exact E | now apply Hpost].
Qed.

(* a loop over n*w indices, read as n consecutive blocks of w indices: an invariant between
   the blocks *)
Lemma for_blocks (J : nat -> St -> Prop) n w (body : nat -> St -> res St) s :
  J 0 s ->
  (forall k s, k < n -> J k s ->
     exists s', for_ 0 w (fun r => body (k * w + r)) s = Ok s' /\ J (S k) s') ->
  exists s', for_ 0 (n * w) body s = Ok s' /\ J n s'.
Proof.
  intros H0. unfold for_. rewrite !Nat.sub_0_r. induction n as [|n IH]; intros Hstep.
  - exists s. cbn [Nat.mul for_from]. auto.
  - destruct IH as (s1 & E1 & H1).
    { intros k s1 Hk. apply Hstep; lia. }
    destruct (Hstep n s1) as (s2 & E2 & H2); [lia|exact H1|].
    exists s2. split; [|exact H2].
    replace (S n * w) with (n * w + w) by lia.
    rewrite for_from_app, E1. cbn [bind]. rewrite for_from_shift. cbn [Nat.add]. exact E2.
Qed.

End LoopFacts.

(* ------------------------------------------------------------------ lists *)
Section ListFacts.
Context {Y : Type}.

Lemma firstn_S_nth (l : list Y) k d :
  k < length l -> firstn (S k) l = firstn k l ++ [nth k l d].
Proof.
  revert k; induction l as [|h t IH]; intros k Hk; cbn [length] in Hk; [lia|].
  destruct k as [|k]; [reflexivity|].
  cbn [firstn nth app]. f_equal. apply IH. lia.
Qed.

(* the lines of a file all of whose lines have w tokens *)
Lemma concat_length_eq (ls : list (list Y)) w :
  Forall (fun l => length l = w) ls -> length (concat ls) = length ls * w.
Proof.
  induction 1 as [|l ls Hl Hls IH]; [reflexivity|].
  cbn [concat length Nat.mul]. rewrite app_length, IH. lia.
Qed.

Lemma nth_error_concat (ls : list (list Y)) w k r :
  Forall (fun l => length l = w) ls -> k < length ls -> r < w ->
  nth_error (concat ls) (k * w + r) = nth_error (nth k ls []) r.
Proof.
  intros Hall. revert k; induction Hall as [|l ls Hl Hls IH]; intros k Hk Hr;
    cbn [length] in Hk; [lia|].
  destruct k as [|k]; cbn [concat nth Nat.mul Nat.add].
  - apply nth_error_app1. lia.
  - rewrite nth_error_app2 by lia.
    replace (w + k * w + r - length l) with (k * w + r) by lia.
    apply IH; lia.
Qed.

(* a list being overwritten front to back by the entries of another one *)
Lemma splice_step (l l' : list Y) k d :
  k < length l -> k < length l' ->
  upd_list (firstn k l ++ skipn k l') k (nth k l d) = firstn (S k) l ++ skipn (S k) l'.
Proof.
  revert l l'; induction k as [|k IH]; intros [|h t] [|h' t'] Hk Hk'; cbn [length] in Hk, Hk';
    try lia.
  - reflexivity.
  - change (upd_list (firstn (S k) (h :: t) ++ skipn (S k) (h' :: t')) (S k) (nth (S k) (h :: t) d))
      with (h :: upd_list (firstn k t ++ skipn k t') k (nth k t d)).
    rewrite IH by lia. reflexivity.
Qed.

Lemma nth_splice (l l' : list Y) k d :
  k <= length l -> nth k (firstn k l ++ skipn k l') d = nth k l' d.
Proof.
  intros Hk. rewrite app_nth2; rewrite firstn_length_le by exact Hk; [|lia].
  rewrite Nat.sub_diag. apply nth0_skipn.
Qed.

Lemma splice_length (l l' : list Y) k :
  k <= length l -> k <= length l' -> length (firstn k l ++ skipn k l') = length l'.
Proof.
  intros Hk Hk'. rewrite app_length, firstn_length_le, skipn_length by exact Hk. lia.
Qed.

(* Vec::resize *)
Lemma resize_list_length (l : list Y) n v : length (resize_list l n v) = n.
Proof.
  unfold resize_list. rewrite app_length, firstn_length, repeat_length. lia.
Qed.

Lemma Forall_resize_list (P : Y -> Prop) (l : list Y) n v :
  Forall P l -> P v -> Forall P (resize_list l n v).
Proof.
  intros Hl Hv. unfold resize_list. apply Forall_app.
  split; rewrite Forall_forall in *; intros y Hy.
  - apply Hl. rewrite <- (firstn_skipn n l). apply in_or_app. now left.
  - apply repeat_spec in Hy. now subst y.
Qed.

End ListFacts.

(* position k*w + r of a file of w-token lines: line k, column r *)
Lemma mod_block k w r : r < w -> (k * w + r) mod w = r.
Proof.
  intros Hr. rewrite Nat.add_comm, Nat.mod_add by lia. now apply Nat.mod_small.
Qed.

Lemma div_block k w r : r < w -> (k * w + r) / w = k.
Proof.
  intros Hr. rewrite Nat.div_add_l by lia. rewrite Nat.div_small by exact Hr. lia.
Qed.

(* ================================================================== Mesh1D *)
Section IO.
Context {A : Arith}.
Variable tok : Type.
Variable fmt : A -> tok.
Variable parse : tok -> res A.
Hypothesis parse_fmt : forall x, parse (fmt x) = Ok x.

Notation mesh1 := (mesh1 A A).

(* ------------------------------------------------------------------ 1. output *)

(* the file written: one line per node, the node then its variables *)
Definition layout1 (m : mesh1) : list (list tok) :=
  map (fun p => fmt (fst p) :: map fmt (snd p)) (combine (m1_nodes m) (m1_vars m)).

Lemma layout1_length (m : mesh1) : wf1 m -> length (layout1 m) = length (m1_nodes m).
Proof.
  intros [Hlen _]. unfold layout1. rewrite map_length, combine_length. lia.
Qed.

Lemma layout1_nth (m : mesh1) k :
  wf1 m -> k < length (m1_nodes m) ->
  nth k (layout1 m) [] = fmt (nth k (m1_nodes m) zero) :: map fmt (nth k (m1_vars m) []).
Proof.
  intros Hwf Hk. pose proof Hwf as [Hlen _]. unfold layout1.
  set (f := fun p : A * list A => fmt (fst p) :: map fmt (snd p)).
  rewrite (nth_indep _ [] (f (zero, []))).
  - rewrite map_nth, combine_nth by lia. reflexivity.
  - rewrite map_length, combine_length. lia.
Qed.

(* nvars + 1 tokens per line *)
Lemma layout1_line_length (m : mesh1) :
  wf1 m -> Forall (fun l => length l = m1_nvars m + 1) (layout1 m).
Proof.
  intros [Hlen Hall]. unfold layout1. rewrite Forall_forall in *. intros l Hl.
  apply in_map_iff in Hl as ([x r] & <- & Hin). apply in_combine_r in Hin.
  cbn [fst snd length]. rewrite map_length, (Hall r Hin). lia.
Qed.

(* the variables of one node, appended to the tokens already on the line *)
Lemma out_line_loop (vars : list (list A)) i (r : list A) nv (pre : list tok) :
  nth_error vars i = Some r -> length r = nv ->
  for_ 0 nv (fun var line =>
     let* row := rd vars i in
     let* v := rd row var in Ok (line ++ [fmt v])) pre = Ok (pre ++ map fmt r).
Proof.
  intros Hr Hnv. apply ex_eq_ok.
  apply (for_inv_post (fun var line => line = pre ++ map fmt (firstn var r))).
  - lia.
  - cbn [firstn map]. now rewrite app_nil_r.
  - intros var line [_ Hvar] ->. unfold rd at 1. rewrite Hr. cbn [bind].
    rewrite (rd_ok r var zero) by lia. cbn [bind].
    eexists. split; [reflexivity|].
    rewrite (firstn_S_nth r var zero) by lia. rewrite map_app, app_assoc. reflexivity.
  - intros line ->. rewrite firstn_all2 by lia. reflexivity.
Qed.

Lemma output1_layout (m : mesh1) : wf1 m -> output1 tok fmt fmt m = Ok (layout1 m).
Proof.
  intros Hwf. pose proof Hwf as [Hlen Hall]. unfold output1. apply ex_eq_ok.
  apply (for_inv_post (fun i lines => lines = firstn i (layout1 m))).
  - lia.
  - reflexivity.
  - intros i lines [_ Hi] ->. rewrite (rd_ok _ i zero) by exact Hi. cbn [bind].
    rewrite (out_line_loop _ i (nth i (m1_vars m) [])).
    + cbn [bind]. eexists. split; [reflexivity|].
      rewrite (firstn_S_nth (layout1 m) i []) by (rewrite layout1_length; assumption).
      now rewrite layout1_nth.
    + apply nth_error_nth'. lia.
    + apply (Forall_nth_lt _ _ _ _ Hall). lia.
  - intros lines ->. apply firstn_all2. rewrite layout1_length by exact Hwf. lia.
Qed.

(* ------------------------------------------------------------------ 2. read *)

(* the whitespace-token stream of the file *)
Lemma layout1_toks_length (m : mesh1) :
  wf1 m -> length (concat (layout1 m)) = length (m1_nodes m) * (m1_nvars m + 1).
Proof.
  intros Hwf. rewrite (concat_length_eq _ (m1_nvars m + 1)) by now apply layout1_line_length.
  now rewrite layout1_length.
Qed.

(* token 0 of line k is node k *)
Lemma layout1_tok_node (m : mesh1) k :
  wf1 m -> k < length (m1_nodes m) ->
  rd (concat (layout1 m)) (k * (m1_nvars m + 1) + 0) = Ok (fmt (nth k (m1_nodes m) zero)).
Proof.
  intros Hwf Hk. unfold rd.
  rewrite (nth_error_concat _ (m1_nvars m + 1)).
  - rewrite layout1_nth by assumption. reflexivity.
  - now apply layout1_line_length.
  - now rewrite layout1_length.
  - lia.
Qed.

(* token v+1 of line k is variable v of node k *)
Lemma layout1_tok_var (m : mesh1) k v :
  wf1 m -> k < length (m1_nodes m) -> v < m1_nvars m ->
  rd (concat (layout1 m)) (k * (m1_nvars m + 1) + S v) =
  Ok (fmt (nth v (nth k (m1_vars m) []) zero)).
Proof.
  intros Hwf Hk Hv. pose proof Hwf as [Hlen Hall]. unfold rd.
  rewrite (nth_error_concat _ (m1_nvars m + 1)).
  - rewrite layout1_nth by assumption. cbn [nth_error].
    rewrite (map_nth_error fmt v (nth k (m1_vars m) []) (d := nth v (nth k (m1_vars m) []) zero)).
    + reflexivity.
    + apply nth_error_nth'. rewrite (Forall_nth_lt _ _ k [] Hall) by lia. exact Hv.
  - now apply layout1_line_length.
  - now rewrite layout1_length.
  - lia.
Qed.

(* first loop of read: the nodes *)
Lemma read_nodes_loop (m : mesh1) :
  wf1 m ->
  for_ 0 (length (concat (layout1 m))) (fun i nodes =>
    if i mod (m1_nvars m + 1) =? 0 then
      let* t := rd (concat (layout1 m)) i in let* x := parse t in Ok (nodes ++ [x])
    else Ok nodes) [] = Ok (m1_nodes m).
Proof.
  intros Hwf. rewrite layout1_toks_length by exact Hwf. apply ex_eq_ok.
  set (nv := m1_nvars m).
  destruct (for_blocks (fun k nodes => nodes = firstn k (m1_nodes m))
              (length (m1_nodes m)) (nv + 1)
              (fun i nodes =>
                 if i mod (nv + 1) =? 0 then
                   let* t := rd (concat (layout1 m)) i in let* x := parse t in Ok (nodes ++ [x])
                 else Ok nodes) []) as (s' & E & H).
  - reflexivity.
  - intros k nodes Hk ->. unfold for_. replace (nv + 1 - 0) with (S nv) by lia.
    cbn [for_from]. rewrite mod_block by lia. cbn [Nat.eqb].
    unfold nv at 1. rewrite layout1_tok_node by assumption. cbn [bind].
    rewrite parse_fmt. cbn [bind].
    rewrite for_from_id.
    + eexists. split; [reflexivity|]. symmetry. now apply firstn_S_nth.
    + intros i s Hi. rewrite mod_block by lia.
      destruct i as [|i]; [lia|]. reflexivity.
  - exists s'. split; [exact E|]. rewrite H. now apply firstn_all.
Qed.

(* what read does with one token *)
Definition read_vars_body (nv : nat) (toks : list tok) (i : nat) (vars : list (list A))
  : res (list (list A)) :=
  for_ 0 nv (fun var vars =>
    if i mod (nv + 1) =? var + 1 then
      let* t := rd toks i in let* x := parse t in
      set_elem vars (i / (nv + 1)) var x
    else Ok vars) vars.

(* a node token changes nothing; the token of variable v sets component v of node k *)
Lemma read_vars_body_tok (m : mesh1) k r (vs : list (list A)) :
  wf1 m -> k < length (m1_nodes m) -> r < m1_nvars m + 1 ->
  read_vars_body (m1_nvars m) (concat (layout1 m)) (k * (m1_nvars m + 1) + r) vs =
  match r with
  | 0 => Ok vs
  | S v => set_elem vs k v (nth v (nth k (m1_vars m) []) zero)
  end.
Proof.
  intros Hwf Hk Hr. unfold read_vars_body, for_. rewrite Nat.sub_0_r.
  rewrite mod_block, div_block by exact Hr.
  destruct r as [|v].
  - apply for_from_id. intros i s _. rewrite Nat.add_1_r. reflexivity.
  - rewrite (for_from_single _ _ _ v) by first
      [ lia
      | intros i s Hi Hne; destruct (Nat.eqb_spec (S v) (i + 1)) as [E|_]; [lia|reflexivity] ].
    rewrite Nat.add_1_r, Nat.eqb_refl.
    rewrite layout1_tok_var by first [assumption | lia]. cbn [bind].
    rewrite parse_fmt. reflexivity.
Qed.

(* one line of the file: the row of node k is overwritten front to back by that of m *)
Lemma read_vars_line (m : mesh1) k (vs : list (list A)) :
  wf1 m -> k < length (m1_nodes m) ->
  k < length vs -> length (nth k vs []) = m1_nvars m ->
  for_ 0 (m1_nvars m + 1) (fun r =>
     read_vars_body (m1_nvars m) (concat (layout1 m)) (k * (m1_nvars m + 1) + r)) vs =
  Ok (upd_list vs k (nth k (m1_vars m) [])).
Proof.
  intros Hwf Hk Hkv Hold. pose proof Hwf as [Hlen Hall].
  set (nv := m1_nvars m) in *. set (rowm := nth k (m1_vars m) []). set (old := nth k vs []) in *.
  assert (Hrowm : length rowm = nv).
  { unfold rowm. apply (Forall_nth_lt _ _ _ _ Hall). lia. }
  unfold for_. replace (nv + 1 - 0) with (S nv) by lia. cbn [for_from].
  unfold nv at 1 2. rewrite read_vars_body_tok by first [assumption | lia]. cbn [bind].
  rewrite for_from_shift. apply ex_eq_ok.
  apply (for_from0_inv_post
           (fun v vs' => vs' = upd_list vs k (firstn v rowm ++ skipn v old))).
  - cbn [firstn skipn app]. unfold old. symmetry. apply upd_list_nth_id.
  - intros v s Hv ->. set (R := firstn v rowm ++ skipn v old).
    assert (HR : nth k (upd_list vs k R) [] = R).
    { rewrite nth_upd_list by exact Hkv. now rewrite Nat.eqb_refl. }
    assert (HlenR : length R = nv) by (unfold R; rewrite splice_length; lia).
    cbn [Nat.add]. unfold nv at 1 2.
    rewrite read_vars_body_tok by first [assumption | fold nv; lia].
    rewrite set_elem_ok.
    + eexists. split; [reflexivity|]. rewrite HR, upd_list_twice. f_equal.
      unfold R. apply splice_step; lia.
    + now rewrite upd_list_length.
    + rewrite HR. lia.
  - intros s ->. rewrite firstn_all2, skipn_all2 by lia. now rewrite app_nil_r.
Qed.

(* second loop of read: the variables, starting from any vars vector of the right shape *)
Lemma read_vars_loop (m : mesh1) (vs0 : list (list A)) :
  wf1 m -> length vs0 = length (m1_nodes m) ->
  Forall (fun r => length r = m1_nvars m) vs0 ->
  for_ 0 (length (concat (layout1 m)))
    (read_vars_body (m1_nvars m) (concat (layout1 m))) vs0 = Ok (m1_vars m).
Proof.
  intros Hwf Hlen0 Hall0. pose proof Hwf as [Hlen Hall].
  rewrite layout1_toks_length by exact Hwf. apply ex_eq_ok.
  destruct (for_blocks (fun k vs => vs = firstn k (m1_vars m) ++ skipn k vs0)
              (length (m1_nodes m)) (m1_nvars m + 1)
              (read_vars_body (m1_nvars m) (concat (layout1 m))) vs0) as (s' & E & H).
  - reflexivity.
  - intros k vs Hk ->.
    rewrite read_vars_line.
    + eexists. split; [reflexivity|]. apply splice_step; lia.
    + exact Hwf.
    + exact Hk.
    + rewrite splice_length; lia.
    + rewrite nth_splice by lia. apply (Forall_nth_lt _ _ _ _ Hall0). lia.
  - exists s'. split; [exact E|]. rewrite H.
    rewrite firstn_all2, skipn_all2 by lia. apply app_nil_r.
Qed.

(* read (output m) = m, on any target mesh with the same nvars *)
Lemma read_layout_roundtrip (m m0 : mesh1) :
  wf1 m -> m1_nvars m0 = m1_nvars m ->
  Forall (fun r => length r = m1_nvars m0) (m1_vars m0) ->
  read1 tok parse m0 (concat (layout1 m)) = Ok m.
Proof.
  intros Hwf Hnv Hall0. unfold read1. cbv zeta. rewrite Hnv in *.
  rewrite read_nodes_loop by exact Hwf. cbn [bind].
  pose proof (read_vars_loop m
    (resize_list (m1_vars m0) (length (m1_nodes m)) (repeat zero (m1_nvars m))) Hwf) as E.
  unfold read_vars_body in E. rewrite E.
  - cbn [bind]. destruct m; reflexivity.
  - apply resize_list_length.
  - apply Forall_resize_list; [exact Hall0 | apply repeat_length].
Qed.

(* output then read: the composition the two methods are used in *)
Lemma read_output_roundtrip (m m0 : mesh1) :
  wf1 m -> m1_nvars m0 = m1_nvars m ->
  Forall (fun r => length r = m1_nvars m0) (m1_vars m0) ->
  (let* lines := output1 tok fmt fmt m in read1 tok parse m0 (concat lines)) = Ok m.
Proof.
  intros Hwf Hnv Hall0. rewrite output1_layout by exact Hwf. cbn [bind].
  now apply read_layout_roundtrip.
Qed.

End IO.

(* ================================================================== Mesh2D::output *)
Section IO2.
Context {A : Arith}.
Variable tok : Type.
Variable fmt : A -> tok.

Notation mesh2 := (mesh2 A A).

(* the line of node (i,j): x, y, then the variables *)
Definition line2 (m : mesh2) (j i : nat) : list tok :=
  fmt (nth i (m2_x m) zero) :: fmt (nth j (m2_y m) zero) ::
  map fmt (nth (i * m2_ny m + j) (m2_vars m) []).

(* the file written: for every j, the lines of the nodes (0,j) .. (nx-1,j), then an empty line *)
Definition layout2 (m : mesh2) : list (list tok) :=
  flat_map (fun j => map (line2 m j) (seq 0 (m2_nx m)) ++ [[]]) (seq 0 (m2_ny m)).

Lemma layout2_length (m : mesh2) : length (layout2 m) = m2_ny m * (m2_nx m + 1).
Proof.
  unfold layout2. generalize 0 at 2. induction (m2_ny m) as [|ny IH]; intros lo; [reflexivity|].
  cbn [seq flat_map]. rewrite !app_length, map_length, seq_length, IH. cbn [length]. lia.
Qed.

(* the lines of one j *)
Lemma out2_row_loop (m : mesh2) j (lines0 : list (list tok)) :
  wf2 m -> j < m2_ny m ->
  for_ 0 (m2_nx m) (fun i lines =>
    let* x := rd (m2_x m) i in
    let* y := rd (m2_y m) j in
    let* line := for_ 0 (m2_nvars m) (fun var line =>
                   let* row := rd (m2_vars m) (i * m2_ny m + j) in
                   let* v := rd row var in Ok (line ++ [fmt v])) [fmt x; fmt y] in
    Ok (lines ++ [line])) lines0
  = Ok (lines0 ++ map (line2 m j) (seq 0 (m2_nx m))).
Proof.
  intros Hwf Hj. pose proof Hwf as (Hx & Hy & Hlen & Hall). apply ex_eq_ok.
  apply (for_inv_post (fun i lines => lines = lines0 ++ map (line2 m j) (seq 0 i))).
  - lia.
  - cbn [seq map]. now rewrite app_nil_r.
  - intros i lines [_ Hi] ->. pose proof (idx_lt i j _ _ Hi Hj) as Hk.
    rewrite (rd_ok _ i zero) by lia. cbn [bind].
    rewrite (rd_ok _ j zero) by lia. cbn [bind].
    rewrite (out_line_loop tok fmt _ _ (nth (i * m2_ny m + j) (m2_vars m) [])).
    + cbn [bind]. eexists. split; [reflexivity|].
      rewrite seq_S, map_app, app_assoc. reflexivity.
    + apply nth_error_nth'. lia.
    + apply (Forall_nth_lt _ _ _ _ Hall). lia.
  - intros lines ->. reflexivity.
Qed.

Lemma output2_layout (m : mesh2) : wf2 m -> output2 tok fmt fmt m = Ok (layout2 m).
Proof.
  intros Hwf. unfold output2, layout2. apply ex_eq_ok.
  apply (for_inv_post (fun j lines =>
           lines = flat_map (fun j => map (line2 m j) (seq 0 (m2_nx m)) ++ [[]]) (seq 0 j))).
  - lia.
  - reflexivity.
  - intros j lines [_ Hj] ->. rewrite out2_row_loop by assumption. cbn [bind].
    eexists. split; [reflexivity|].
    rewrite seq_S, flat_map_app. cbn [flat_map Nat.add]. rewrite app_nil_r, app_assoc.
    reflexivity.
  - intros lines ->. reflexivity.
Qed.

End IO2.
