(* Proofs/VectorQc.v -- the exact tier (Qc) instance of the history theorem of C15. *)
From Coq Require Import List Arith Permutation Sorted QArith Qcanon.
From OV Require Import Base.Panic Base.Arith Model.Complex Model.Vector Model.VecOps Proofs.Vector Inst.QcInst.
Import ListNotations.

(* ------------------------------------------------------------------ the exact tier's order is total *)
Lemma AQ_leb_total (x y : AQ) : @leb AQ x y = true \/ @leb AQ y x = true.
Proof.
  cbn. unfold Qc_leb, Qccompare. rewrite <- (Qcompare_antisym (this y) (this x)).
  destruct (this y ?= this x)%Q; cbn; auto.
Qed.

Lemma vec_run_refines_Qc_lemma (ops : list (vop AQ)) (v : list AQ) : run_spec (isort (A := AQ) leb) v ops.
Proof. apply vec_run_refines_lemma. exact (isort_sorter_ok AQ_leb_total). Qed.
