(* Proofs/VectorCx2R.v -- C15, package cnorm: the norms of COMPLEX vectors "to rounding accuracy", in the STANDARD MODEL of
   floating-point arithmetic extended by a rounded square root (Base/RoundModel.v, Proofs/RoundNorm2.v):
        fadd x y = (x + y)(1 + d)    fmul x y = x y (1 + d)    fsqrt x = sqrt x (1 + d)   (x >= 0),     |d| <= u.
   The SAME Gallina functions (Complex::abs = sqrt (re*re + im*im), cnorm_inf, the generic norm_1 at CArith) instantiated
   at the SArith [SARm] of that model:
     cabs_relative_error_lemma        fl(|z|) = |z| (1 + th),  |th| <= gam 3                      (two products, a sum, a root)
     cnorm_inf_relative_error_lemma   fl(norm_inf v) = max |z_i| (1 + th),  |th| <= gam 3        (comparisons are exact)
     cnorm1_backward_error_lemma      re fl(norm_1 v) = Sum |z_k| (1 + th_k), |th_k| <= gam (n+3);  im fl(norm_1 v) = 0
     cnorm1_relative_error_lemma      |re fl(norm_1 v) - Sum |z_k|| <= gam (n+3) Sum |z_k|
   for every length n with (n+3) u < 1.  Overflow / underflow of re^2 + im^2 is outside the standard model (as for norm_2). *)
From Coq Require Import List Arith Lia Reals Lra Psatz.
From OV Require Import Base.Panic Base.Arith Base.RoundModel Model.Complex Model.Vector Model.Matrix Proofs.Matrix Proofs.RoundDot
                       Proofs.RoundNorm2.
Import ListNotations.
Local Open Scope R_scope.

Notation rsqrt := R_sqrt.sqrt.

Section CxRound.
Variable u : R.
Hypothesis u_range : 0 <= u < 1.
Variables fadd fsub fmul fdiv : R -> R -> R.
Variable fsqrt : R -> R.
Hypothesis fadd_ok : forall x y, exists d, Rabs d <= u /\ fadd x y = (x + y) * (1 + d).
Hypothesis fmul_ok : forall x y, exists d, Rabs d <= u /\ fmul x y = x * y * (1 + d).
Hypothesis fsqrt_ok : forall x, 0 <= x -> exists d, Rabs d <= u /\ fsqrt x = rsqrt x * (1 + d).

Notation AR := (ARm fadd fsub fmul fdiv).
Notation SM := (SARm fadd fsub fmul fdiv fsqrt).
Notation CM := (CArith (SARm fadd fsub fmul fdiv fsqrt)).
Notation bnd := (bnd u).
Notation gam := (gam u).

(* the exact modulus and the computed one *)
Definition tmod (z : cplx AR) : R := rsqrt (re z * re z + im z * im z).
Definition fmod (z : cplx AR) : R := fsqrt (fadd (fmul (re z) (re z)) (fmul (im z) (im z))).

Lemma fmod_is_cabs (z : cplx AR) : @Complex.cabs SM z = fmod z.
Proof. reflexivity. Qed.

Lemma tmod_nonneg z : 0 <= tmod z.
Proof. apply sqrt_pos. Qed.

Lemma bnd_lo_hi n p : bnd n p -> (1 - u) ^ n <= p <= / (1 - u) ^ n.
Proof. intros H; exact H. Qed.

(* a sum of two non-negative terms, each perturbed by a factor in [lo, hi], is the sum perturbed by such a factor *)
Lemma fmod_rel (z : cplx AR) : exists e, bnd 3 e /\ fmod z = tmod z * e.
Proof using u_range fadd_ok fmul_ok fsqrt_ok.
  destruct z as [a b]. unfold fmod, tmod. cbn [re im].
  destruct (fmul_ok a a) as (d1 & H1 & E1). destruct (fmul_ok b b) as (d2 & H2 & E2).
  destruct (fadd_ok (fmul a a) (fmul b b)) as (d3 & H3 & E3).
  pose proof (bnd_1pd u u_range d1 H1) as B1. pose proof (bnd_1pd u u_range d2 H2) as B2.
  pose proof (bnd_1pd u u_range d3 H3) as B3.
  set (A := a * a) in *. set (B := b * b) in *.
  assert (HA : 0 <= A) by apply Rle_0_sqr. assert (HB : 0 <= B) by apply Rle_0_sqr.
  set (S := A + B). assert (HS : 0 <= S) by (unfold S; lra).
  set (X := A * (1 + d1) + B * (1 + d2)).
  destruct (bnd_lo_hi 1 _ B1) as [L1 U1]. destruct (bnd_lo_hi 1 _ B2) as [L2 U2]. rewrite pow_1 in *.
  assert (Hi : 0 < / (1 - u)) by (apply Rinv_0_lt_compat; lra).
  assert (HX : (1 - u) * S <= X <= / (1 - u) * S) by (unfold X, S; split; nra).
  destruct (Req_dec S 0) as [Z|NZ].
  - (* z = 0: everything is 0 *)
    assert (A = 0) by (unfold S in Z; lra). assert (B = 0) by (unfold S in Z; lra).
    exists 1. split; [apply (bnd_1 u u_range)|].
    rewrite E3, E1, E2. fold A B. replace (A * (1 + d1) + B * (1 + d2)) with 0 by (rewrite H, H0; ring).
    rewrite Rmult_0_l. destruct (fsqrt_ok 0 ltac:(lra)) as (d4 & _ & E4). rewrite E4.
    fold S. rewrite Z, sqrt_0. ring.
  - assert (Sp : 0 < S) by lra.
    set (W := X / S).
    assert (HW : bnd 1 W).
    { unfold W, RoundModel.bnd. rewrite pow_1. destruct HX as [X1 X2]. split.
      - apply (Rmult_le_reg_r S); [exact Sp|]. unfold Rdiv. rewrite Rmult_assoc, Rinv_l by lra. lra.
      - apply (Rmult_le_reg_r S); [exact Sp|]. unfold Rdiv. rewrite Rmult_assoc, Rinv_l by lra. lra. }
    assert (EX : X = S * W) by (unfold W; field; lra).
    assert (HW2 : bnd 2 (W * (1 + d3))) by (apply (bnd_S_mul u u_range); assumption).
    assert (Harg : fadd (fmul a a) (fmul b b) = S * (W * (1 + d3))).
    { rewrite E3, E1, E2. fold A B X. rewrite EX. ring. }
    assert (Hpos : 0 <= S * (W * (1 + d3))).
    { pose proof (bnd_pos u u_range _ _ HW2). nra. }
    rewrite Harg. destruct (fsqrt_ok _ Hpos) as (d4 & H4 & E4). rewrite E4.
    exists (rsqrt (W * (1 + d3)) * (1 + d4)). split.
    + replace 3%nat with (2 + 1)%nat by lia. apply (bnd_mul u u_range); [now apply (bnd_sqrt u u_range)|now apply (bnd_1pd u u_range)].
    + fold S. rewrite sqrt_mult_alt by lra. ring.
Qed.

Lemma fmod_nonneg z : 0 <= fmod z.
Proof using u_range fadd_ok fmul_ok fsqrt_ok.
  destruct (fmod_rel z) as (e & He & ->). pose proof (bnd_pos u u_range _ _ He). pose proof (tmod_nonneg z). nra.
Qed.

Theorem cabs_relative_error_lemma (z : cplx AR) : INR 3 * u < 1 ->
  exists th, Rabs th <= gam 3 /\ (@Complex.cabs SM z : R) = tmod z * (1 + th).
Proof using u_range fadd_ok fmul_ok fsqrt_ok.
  intros Hn. rewrite fmod_is_cabs. destruct (fmod_rel z) as (e & He & E).
  exists (e - 1). split; [now apply (bnd_gam u u_range)|]. rewrite E. ring.
Qed.

(* ---------------------------------------------------------------- norm_inf *)
Lemma ltb_step_max_M (r y : R) : (if @ltb AR r y then y else r) = Rmax r y.
Proof. cbn. unfold Rmax. destruct (Rlt_dec r y), (Rle_dec r y); auto; lra. Qed.

Definition rmaxl (r : R) (l : list R) : R := fold_left Rmax l r.

Lemma rmaxl_ge_init r l : r <= rmaxl r l.
Proof.
  unfold rmaxl. revert r; induction l as [|y t IH]; intros r; cbn; [lra|].
  pose proof (IH (Rmax r y)). pose proof (Rmax_l r y). lra.
Qed.
Lemma rmaxl_ge_in r l y : In y l -> y <= rmaxl r l.
Proof.
  unfold rmaxl. revert r; induction l as [|z t IH]; intros r H; [contradiction|]. cbn.
  destruct H as [->|H].
  - pose proof (rmaxl_ge_init (Rmax r y) t). unfold rmaxl in *. pose proof (Rmax_r r y). lra.
  - now apply IH.
Qed.
Lemma rmaxl_attained r l : rmaxl r l = r \/ In (rmaxl r l) l.
Proof.
  unfold rmaxl. revert r; induction l as [|z t IH]; intros r; cbn; auto.
  destruct (IH (Rmax r z)) as [E|E].
  - rewrite E. unfold Rmax. destruct (Rle_dec r z); auto.
  - auto.
Qed.

Lemma cnorm_inf_M (z0 : cplx AR) (t : list (cplx AR)) :
  cnorm_inf (F := SM) (z0 :: t) = Ok (rmaxl (fmod z0) (map fmod t)).
Proof.
  unfold cnorm_inf. cbn [rd nth_error bind skipn]. f_equal.
  change (@Vector.cabs SM) with fmod.
  generalize (fmod z0). induction t as [|z t IH]; intros r; cbn [fold_left map]; [reflexivity|].
  rewrite ltb_step_max_M. unfold rmaxl. cbn [fold_left]. apply IH.
Qed.

(* an entry of largest exact modulus *)
Lemma tmod_max_exists (z0 : cplx AR) (t : list (cplx AR)) :
  exists z, In z (z0 :: t) /\ forall w, In w (z0 :: t) -> tmod w <= tmod z.
Proof.
  revert z0; induction t as [|a t IH]; intros z0.
  - exists z0. split; [now left|]. intros w [<-|[]]. lra.
  - destruct (IH a) as (x & Hx & Hmax).
    destruct (Rle_dec (tmod x) (tmod z0)) as [H|H].
    + exists z0. split; [now left|]. intros w [<-|Hw]; [lra|]. specialize (Hmax w Hw). lra.
    + exists x. split; [now right|]. intros w [<-|Hw]; [lra|]. now apply Hmax.
Qed.

Theorem cnorm_inf_relative_error_lemma (v : list (cplx AR)) (m : R) : INR 3 * u < 1 ->
  cnorm_inf (F := SM) v = Ok m ->
  exists z th, In z v /\ (forall w, In w v -> tmod w <= tmod z) /\ Rabs th <= gam 3 /\ m = tmod z * (1 + th).
Proof using u_range fadd_ok fmul_ok fsqrt_ok.
  intros Hn E. destruct v as [|z0 t]; [discriminate|]. rewrite cnorm_inf_M in E. injection E as <-.
  destruct (tmod_max_exists z0 t) as (z & Hz & Hmax). exists z.
  set (m := rmaxl (fmod z0) (map fmod t)).
  pose proof (pow1u_pos u u_range 3) as P.
  assert (Pi : 0 < / (1 - u) ^ 3) by now apply Rinv_0_lt_compat.
  (* m is the computed modulus of some entry, and at least that of every entry *)
  assert (Hat : exists w, In w (z0 :: t) /\ m = fmod w).
  { destruct (rmaxl_attained (fmod z0) (map fmod t)) as [E|H].
    - exists z0. split; [now left|exact E].
    - apply in_map_iff in H as (w & E & Hw). exists w. split; [now right|now rewrite E]. }
  assert (Hub : forall w, In w (z0 :: t) -> fmod w <= m).
  { intros w [<-|Hw]; [apply rmaxl_ge_init|]. apply rmaxl_ge_in. now apply in_map. }
  assert (Hlo : (1 - u) ^ 3 * tmod z <= m).
  { destruct (fmod_rel z) as (e & [He _] & Ee). pose proof (Hub z Hz). pose proof (tmod_nonneg z). rewrite Ee in H. nra. }
  assert (Hhi : m <= / (1 - u) ^ 3 * tmod z).
  { destruct Hat as (w & Hw & ->). destruct (fmod_rel w) as (e & [_ He] & ->).
    pose proof (Hmax w Hw). pose proof (tmod_nonneg w). nra. }
  destruct (Req_dec (tmod z) 0) as [Z|NZ].
  - exists 0. split; [exact Hz|]. split; [exact Hmax|]. split; [rewrite Rabs_R0; now apply (gam_nonneg u u_range)|].
    rewrite Z in *. lra.
  - assert (Tp : 0 < tmod z) by (pose proof (tmod_nonneg z); lra).
    exists (m / tmod z - 1). split; [exact Hz|]. split; [exact Hmax|]. split.
    + apply (bnd_gam u u_range); [|exact Hn]. split.
      * apply (Rmult_le_reg_r (tmod z)); [exact Tp|]. unfold Rdiv. rewrite Rmult_assoc, Rinv_l by lra. lra.
      * apply (Rmult_le_reg_r (tmod z)); [exact Tp|]. unfold Rdiv. rewrite Rmult_assoc, Rinv_l by lra. lra.
    + field. lra.
Qed.

(* ---------------------------------------------------------------- norm_1 at the complex instance *)
Lemma fadd_0_0 : fadd 0 0 = 0.
Proof using fadd_ok. destruct (fadd_ok 0 0) as (d & _ & ->). ring. Qed.

Lemma cnorm1_fold_M (v : list (cplx AR)) (acc : cplx AR) : im acc = 0 ->
  fold_left (fun (s : CM) (x : CM) => @add CM s (@abs CM x)) v acc
  = mkC (A := AR) (sum_acc (A := AR) (re acc) (length v) (fun k => fmod (nth k v (@czero AR)))) 0.
Proof using fadd_ok.
  revert acc; induction v as [|z v IH]; intros acc Hi; cbn [fold_left length].
  - cbn [sum_acc]. destruct acc as [a b]. cbn [re im] in *. now subst b.
  - rewrite (sum_acc_shift (A := AR)). cbn [nth]. rewrite IH.
    + reflexivity.
    + cbn. rewrite Hi. apply fadd_0_0.
Qed.

Theorem cnorm1_backward_error_lemma (v : list (cplx AR)) : INR (length v + 3) * u < 1 ->
  exists th : nat -> R,
    (forall k, (k < length v)%nat -> Rabs (th k) <= gam (length v + 3)) /\
    re (norm_1 (A := CM) v) = Rsum (length v) (fun k => tmod (nth k v (@czero AR)) * (1 + th k)) /\
    im (norm_1 (A := CM) v) = 0.
Proof using u_range fadd_ok fmul_ok fsqrt_ok.
  intros Hn. unfold norm_1. rewrite (cnorm1_fold_M v (@zero CM) eq_refl). cbn [re im].
  set (n := length v) in *. set (g := fun k => fmod (nth k v (@czero AR))).
  destruct (sum_acc_round u u_range fadd fsub fmul fdiv fadd_ok n g (re (@zero CM))) as (P & W & HP & HW & E).
  exists (fun k => ratio (fmod (nth k v (@czero AR))) (tmod (nth k v (@czero AR))) * W k - 1).
  split; [|split; [|reflexivity]].
  - intros k Hk. apply (bnd_gam u u_range); [|exact Hn].
    apply (bnd_mono u u_range (3 + (n - k))); [lia|].
    apply (bnd_mul u u_range); [|now apply HW].
    apply (ratio_spec u u_range). destruct (fmod_rel (nth k v (@czero AR))) as (e & He & Ee). exists e. auto.
  - etransitivity; [exact E|]. change (re (@zero CM)) with 0. rewrite Rmult_0_l, Rplus_0_l.
    apply Rsum_ext. intros k Hk. unfold g.
    destruct (ratio_spec u u_range 3 (fmod (nth k v (@czero AR))) (tmod (nth k v (@czero AR)))) as [_ Er].
    { destruct (fmod_rel (nth k v (@czero AR))) as (e & He & Ee). exists e. auto. }
    rewrite Er at 1. ring.
Qed.

Theorem cnorm1_relative_error_lemma (v : list (cplx AR)) : INR (length v + 3) * u < 1 ->
  Rabs (re (norm_1 (A := CM) v) - Rsum (length v) (fun k => tmod (nth k v (@czero AR))))
    <= gam (length v + 3) * Rsum (length v) (fun k => tmod (nth k v (@czero AR))).
Proof using u_range fadd_ok fmul_ok fsqrt_ok.
  intros Hn. destruct (cnorm1_backward_error_lemma v Hn) as (th & Hth & E & _). rewrite E.
  rewrite <- Rsum_minus.
  rewrite (Rsum_ext _ _ (fun k => tmod (nth k v (@czero AR)) * th k)) by (intros; ring).
  eapply Rle_trans; [apply Rsum_pert_le; exact Hth|].
  apply Rmult_le_compat_l; [now apply (gam_nonneg u u_range)|].
  apply Req_le, Rsum_ext. intros k Hk. apply Rabs_pos_eq, tmod_nonneg.
Qed.

End CxRound.
