(* Proofs/ComplexRound.v -- P3 of C13: a normwise rounding bound for the complex product AS THE CODE COMPUTES IT,
   (fl(fl(ac) - fl(bd)), fl(fl(ad) + fl(bc))), first in the standard model of rounding (any reals related by a
   relative error u), then for the float instance of the model itself (@cmul AF on Coq's primitive binary64),
   through Flocq's specification of the primitive operations (Bmult/Bplus/Bminus_correct, relative_error_N_FLT):
       |fl(z*w) - z*w|^2 <= 2 (2u + u^2)^2 |z|^2 |w|^2 ,  u = 2^-53        (i.e. |error| <= 2.83 u |z||w|)
   whenever no product / sum overflows or falls into the subnormal range.  *)
From Coq Require Import ZArith Reals Lra Lia Floats.
From Flocq Require Import Core BinarySingleNaN PrimFloat Relative.
From OV Require Import Base.Panic Base.Arith Model.Complex Inst.FloatInst.
Local Open Scope R_scope.
Notation pfloat := Coq.Floats.PrimFloat.float.

(* ---------------------------------------------------------------- 1. standard model *)

Section StdModel.
Variable u : R.
Hypothesis u_nonneg : 0 <= u.

(* t approximates s with relative error u *)
Definition rel_err (t s : R) : Prop := Rabs (t - s) <= u * Rabs s.

Lemma rel_err_abs t s : rel_err t s -> Rabs t <= (1 + u) * Rabs s.
Proof.
  unfold rel_err. intros H.
  replace t with ((t - s) + s) by ring.
  eapply Rle_trans; [apply Rabs_triang|]. lra.
Qed.

(* two rounded terms, combined (+ or -), rounded again *)
Lemma round_sum_err (sg : R) (x y p1 p2 t : R) :
  Rabs sg = 1 -> rel_err p1 x -> rel_err p2 y -> rel_err t (p1 + sg * p2) ->
  Rabs (t - (x + sg * y)) <= (2 * u + u * u) * (Rabs x + Rabs y).
Proof.
  intros Hs H1 H2 H3.
  pose proof (rel_err_abs _ _ H1) as A1. pose proof (rel_err_abs _ _ H2) as A2.
  unfold rel_err in *.
  assert (S : Rabs (p1 + sg * p2) <= (1 + u) * (Rabs x + Rabs y)).
  { eapply Rle_trans; [apply Rabs_triang|]. rewrite Rabs_mult, Hs. lra. }
  replace (t - (x + sg * y)) with ((t - (p1 + sg * p2)) + ((p1 - x) + sg * (p2 - y))) by ring.
  eapply Rle_trans; [apply Rabs_triang|].
  assert (B : Rabs ((p1 - x) + sg * (p2 - y)) <= u * Rabs x + u * Rabs y).
  { eapply Rle_trans; [apply Rabs_triang|]. rewrite Rabs_mult, Hs. lra. }
  assert (C : u * Rabs (p1 + sg * p2) <= u * ((1 + u) * (Rabs x + Rabs y))).
  { apply Rmult_le_compat_l; assumption. }
  lra.
Qed.

Lemma sq_le_of_abs_le (e m : R) : Rabs e <= m -> e * e <= m * m.
Proof.
  intros H. pose proof (Rabs_pos e) as P.
  replace (e * e) with (Rabs e * Rabs e).
  - apply Rmult_le_compat; assumption.
  - unfold Rabs. destruct (Rcase_abs e); ring.
Qed.

Lemma cauchy_like (a b c d : R) :
  (Rabs (a * c) + Rabs (b * d)) * (Rabs (a * c) + Rabs (b * d)) +
  (Rabs (a * d) + Rabs (b * c)) * (Rabs (a * d) + Rabs (b * c)) <=
  2 * ((a * a + b * b) * (c * c + d * d)).
Proof.
  rewrite !Rabs_mult.
  pose proof (Rabs_pos a) as Pa. pose proof (Rabs_pos b) as Pb.
  pose proof (Rabs_pos c) as Pc. pose proof (Rabs_pos d) as Pd.
  assert (Ea : a * a = Rabs a * Rabs a) by (unfold Rabs; destruct (Rcase_abs a); ring).
  assert (Eb : b * b = Rabs b * Rabs b) by (unfold Rabs; destruct (Rcase_abs b); ring).
  assert (Ec : c * c = Rabs c * Rabs c) by (unfold Rabs; destruct (Rcase_abs c); ring).
  assert (Ed : d * d = Rabs d * Rabs d) by (unfold Rabs; destruct (Rcase_abs d); ring).
  rewrite Ea, Eb, Ec, Ed.
  clear Ea Eb Ec Ed. revert Pa Pb Pc Pd. generalize (Rabs a) (Rabs b) (Rabs c) (Rabs d).
  intros X Y Z W Pa Pb Pc Pd.
  assert (H1 : 0 <= (X - Y) * (X - Y)) by (apply (Rle_0_sqr (X - Y))).
  assert (H2 : 0 <= (Z - W) * (Z - W)) by (apply (Rle_0_sqr (Z - W))).
  assert (H3 : 0 <= X * Y) by (now apply Rmult_le_pos).
  assert (H4 : 0 <= Z * W) by (now apply Rmult_le_pos).
  assert (H5 : (2 * (X * Y)) * (2 * (Z * W)) <= (X * X + Y * Y) * (Z * Z + W * W)).
  { apply Rmult_le_compat; lra. }
  lra.
Qed.

(* the rounded complex product, as the code computes it: (rnd(rnd(ac) - rnd(bd)), rnd(rnd(ad) + rnd(bc))) *)
Theorem cmul_std_model (a b c d p1 p2 p3 p4 fr fi : R) :
  rel_err p1 (a * c) -> rel_err p2 (b * d) -> rel_err fr (p1 - p2) ->
  rel_err p3 (a * d) -> rel_err p4 (b * c) -> rel_err fi (p3 + p4) ->
  let er := fr - (a * c - b * d) in
  let ei := fi - (a * d + b * c) in
  er * er + ei * ei <= 2 * ((2 * u + u * u) * (2 * u + u * u)) * ((a * a + b * b) * (c * c + d * d)).
Proof.
  intros H1 H2 H3 H4 H5 H6 er ei.
  assert (Er : Rabs er <= (2 * u + u * u) * (Rabs (a * c) + Rabs (b * d))).
  { unfold er. replace (a * c - b * d) with (a * c + (-1) * (b * d)) by ring.
    apply (round_sum_err (-1) _ _ p1 p2); try assumption.
    - unfold Rabs. destruct (Rcase_abs (-1)); lra.
    - now replace (p1 + -1 * p2) with (p1 - p2) by ring. }
  assert (Ei : Rabs ei <= (2 * u + u * u) * (Rabs (a * d) + Rabs (b * c))).
  { unfold ei. replace (a * d + b * c) with (a * d + 1 * (b * c)) by ring.
    apply (round_sum_err 1 _ _ p3 p4); try assumption.
    - apply Rabs_R1.
    - now replace (p3 + 1 * p4) with (p3 + p4) by ring. }
  apply sq_le_of_abs_le in Er. apply sq_le_of_abs_le in Ei.
  pose proof (cauchy_like a b c d) as K.
  revert Er Ei K. generalize (Rabs (a * c) + Rabs (b * d)) (Rabs (a * d) + Rabs (b * c)).
  generalize ((a * a + b * b) * (c * c + d * d)). generalize (er * er) (ei * ei).
  generalize (2 * u + u * u).
  intros g e1 e2 N m1 m2 Er Ei K.
  assert (G : 0 <= g * g) by (apply (Rle_0_sqr g)).
  assert (K' : (g * g) * (m1 * m1 + m2 * m2) <= (g * g) * (2 * N)) by (apply Rmult_le_compat_l; assumption).
  lra.
Qed.
End StdModel.

(* ---------------------------------------------------------------- 2. the float instance, through Flocq *)

Definition FR (x : pfloat) : R := B2R (Prim2B x).
Definition ffinite (x : pfloat) : Prop := is_finite (Prim2B x) = true.
Definition rnd64 (x : R) : R := round radix2 (FLT_exp (-1074) 53) ZnearestE x.
Definition u64 : R := / 2 * bpow radix2 (-53 + 1).
Definition no_underflow (x : R) : Prop := x = 0 \/ bpow radix2 (-1022) <= Rabs x.
Definition no_overflow (x : R) : Prop := Rabs (rnd64 x) < bpow radix2 1024.

Lemma rnd64_rel x : no_underflow x -> Rabs (rnd64 x - x) <= u64 * Rabs x.
Proof.
  intros [->|H].
  - unfold rnd64. rewrite round_0 by auto with typeclass_instances.
    rewrite Rminus_0_r, Rabs_R0. lra.
  - unfold rnd64, u64. apply (relative_error_N_FLT radix2 (-1074) 53 eq_refl (fun x => negb (Z.even x)) x). exact H.
Qed.

Lemma fmul_correct (x y : pfloat) : no_overflow (FR x * FR y) ->
  FR (x * y)%float = rnd64 (FR x * FR y) /\ (ffinite x -> ffinite y -> ffinite (x * y)%float).
Proof.
  unfold FR, ffinite, no_overflow. intros H. rewrite mul_equiv.
  pose proof (Bmult_correct prec emax Hprec Hmax mode_NE (Prim2B x) (Prim2B y)) as K.
  change (round radix2 (fexp prec emax) (round_mode mode_NE)) with rnd64 in K.
  change (bpow radix2 emax) with (bpow radix2 1024) in K.
  rewrite Rlt_bool_true in K by exact H.
  destruct K as (K1 & K2 & _). split; [exact K1|]. intros Fx Fy. now rewrite K2, Fx, Fy.
Qed.

Lemma fadd_correct (x y : pfloat) : ffinite x -> ffinite y -> no_overflow (FR x + FR y) ->
  FR (x + y)%float = rnd64 (FR x + FR y) /\ ffinite (x + y)%float.
Proof.
  unfold FR, ffinite, no_overflow. intros Fx Fy H. rewrite add_equiv.
  pose proof (Bplus_correct prec emax Hprec Hmax mode_NE (Prim2B x) (Prim2B y) Fx Fy) as K.
  change (round radix2 (fexp prec emax) (round_mode mode_NE)) with rnd64 in K.
  change (bpow radix2 emax) with (bpow radix2 1024) in K.
  rewrite Rlt_bool_true in K by exact H.
  destruct K as (K1 & K2 & _). now split.
Qed.

Lemma fsub_correct (x y : pfloat) : ffinite x -> ffinite y -> no_overflow (FR x - FR y) ->
  FR (x - y)%float = rnd64 (FR x - FR y) /\ ffinite (x - y)%float.
Proof.
  unfold FR, ffinite, no_overflow. intros Fx Fy H. rewrite sub_equiv.
  pose proof (Bminus_correct prec emax Hprec Hmax mode_NE (Prim2B x) (Prim2B y) Fx Fy) as K.
  change (round radix2 (fexp prec emax) (round_mode mode_NE)) with rnd64 in K.
  change (bpow radix2 emax) with (bpow radix2 1024) in K.
  rewrite Rlt_bool_true in K by exact H.
  destruct K as (K1 & K2 & _). now split.
Qed.

Definition in_range (x : R) : Prop := no_underflow x /\ no_overflow x.

Lemma u64_nonneg : 0 <= u64.
Proof. unfold u64. pose proof (bpow_gt_0 radix2 (-53 + 1)). lra. Qed.

(* the float instance of the model: z, w : cplx AF (Complex<f64>) *)
Lemma cmul_rounding_bound_lemma (z w : cplx AF) :
  let a := FR (re z) in let b := FR (im z) in let c := FR (re w) in let d := FR (im w) in
  ffinite (re z) -> ffinite (im z) -> ffinite (re w) -> ffinite (im w) ->
  in_range (a * c) -> in_range (b * d) -> in_range (a * d) -> in_range (b * c) ->
  in_range (rnd64 (a * c) - rnd64 (b * d)) -> in_range (rnd64 (a * d) + rnd64 (b * c)) ->
  ffinite (re (cmul z w)) /\ ffinite (im (cmul z w)) /\
  let er := FR (re (cmul z w)) - (a * c - b * d) in
  let ei := FR (im (cmul z w)) - (a * d + b * c) in
  er * er + ei * ei <= 2 * ((2 * u64 + u64 * u64) * (2 * u64 + u64 * u64)) * ((a * a + b * b) * (c * c + d * d)).
Proof.
  intros a b c d Fa Fb Fc Fd [U1 O1] [U2 O2] [U3 O3] [U4 O4] [U5 O5] [U6 O6].
  destruct z as [zr zi], w as [wr wi]. cbn [re im] in *.
  change (re (cmul (mkC zr zi) (mkC wr wi))) with (zr * wr - zi * wi)%float.
  change (im (cmul (mkC zr zi) (mkC wr wi))) with (zr * wi + zi * wr)%float.
  destruct (fmul_correct zr wr O1) as [E1 F1]. specialize (F1 Fa Fc).
  destruct (fmul_correct zi wi O2) as [E2 F2]. specialize (F2 Fb Fd).
  destruct (fmul_correct zr wi O3) as [E3 F3]. specialize (F3 Fa Fd).
  destruct (fmul_correct zi wr O4) as [E4 F4]. specialize (F4 Fb Fc).
  fold a b c d in E1, E2, E3, E4.
  assert (O5' : no_overflow (FR (zr * wr)%float - FR (zi * wi)%float)) by (now rewrite E1, E2).
  assert (O6' : no_overflow (FR (zr * wi)%float + FR (zi * wr)%float)) by (now rewrite E3, E4).
  destruct (fsub_correct _ _ F1 F2 O5') as [E5 F5].
  destruct (fadd_correct _ _ F3 F4 O6') as [E6 F6].
  split; [exact F5|]. split; [exact F6|].
  rewrite E5, E6, E1, E2, E3, E4.
  apply (cmul_std_model u64 u64_nonneg a b c d (rnd64 (a * c)) (rnd64 (b * d)) (rnd64 (a * d)) (rnd64 (b * c)));
    unfold rel_err; apply rnd64_rel; assumption.
Qed.

(* ---------------------------------------------------------------- 3. checkable range conditions; non-vacuity *)
Local Instance P53 : Prec_gt_0 53 := eq_refl.

Lemma in_range_of_bounds x : bpow radix2 (-1022) <= Rabs x <= bpow radix2 1023 -> in_range x.
Proof.
  intros [H1 H2]. split; [now right|].
  unfold no_overflow, rnd64.
  apply Rle_lt_trans with (bpow radix2 1023); [|apply bpow_lt; reflexivity].
  apply abs_round_le_generic; [apply FLT_exp_valid; reflexivity | apply valid_rnd_N | | exact H2].
  apply generic_format_bpow. unfold FLT_exp. lia.
Qed.

Lemma in_range_0 : in_range 0.
Proof.
  split; [now left|]. unfold no_overflow, rnd64.
  rewrite round_0 by auto with typeclass_instances. rewrite Rabs_R0. apply bpow_gt_0.
Qed.

(* rounding stays between two powers of two that bracket the argument *)
Lemma rnd64_between (e1 e2 : Z) x : (-1074 <= e1)%Z -> (-1074 <= e2)%Z ->
  bpow radix2 e1 <= x <= bpow radix2 e2 -> bpow radix2 e1 <= rnd64 x <= bpow radix2 e2.
Proof.
  intros L1 L2 [H1 H2]. unfold rnd64. split.
  - apply round_ge_generic; [apply FLT_exp_valid; reflexivity | apply valid_rnd_N | | exact H1].
    apply generic_format_bpow. unfold FLT_exp. lia.
  - apply round_le_generic; [apply FLT_exp_valid; reflexivity | apply valid_rnd_N | | exact H2].
    apply generic_format_bpow. unfold FLT_exp. lia.
Qed.

Lemma rnd64_opp x : rnd64 (- x) = - rnd64 x.
Proof. unfold rnd64. apply round_NE_opp. Qed.

Lemma FR_SF (x : pfloat) : FR x = SF2R radix2 (Prim2SF x).
Proof. unfold FR, Prim2B. apply B2R_SF2B. Qed.

Lemma ffinite_SF (x : pfloat) : is_finite_SF (Prim2SF x) = true -> ffinite x.
Proof. unfold ffinite, Prim2B. now rewrite is_finite_SF2B. Qed.

Ltac fr_eval := rewrite FR_SF; match goal with |- context [Prim2SF ?x] => let s := fresh "s" in
  set (s := Prim2SF x); vm_compute in s; subst s end; unfold SF2R, F2R; cbn -[IZR Rmult]; lra.

(* (1.5 + 2i) * (3 - 0.5i): every operand component non-zero, all six roundings in range *)
Example cmul_rounding_bound_nonvacuous :
  let z := @mkC AF 1.5%float 2%float in let w := @mkC AF 3%float (-0.5)%float in
  let a := FR (re z) in let b := FR (im z) in let c := FR (re w) in let d := FR (im w) in
  ffinite (re z) /\ ffinite (im z) /\ ffinite (re w) /\ ffinite (im w) /\
  in_range (a * c) /\ in_range (b * d) /\ in_range (a * d) /\ in_range (b * c) /\
  in_range (rnd64 (a * c) - rnd64 (b * d)) /\ in_range (rnd64 (a * d) + rnd64 (b * c)).
Proof.
  cbn [re im].
  assert (Ea : FR 1.5%float = 1.5) by fr_eval. assert (Eb : FR 2%float = 2) by fr_eval.
  assert (Ec : FR 3%float = 3) by fr_eval. assert (Ed : FR (-0.5)%float = -0.5) by fr_eval.
  rewrite Ea, Eb, Ec, Ed.
  assert (B0 : bpow radix2 (-1022) <= bpow radix2 (-1)) by (apply bpow_le; lia).
  assert (B1 : bpow radix2 4 <= bpow radix2 1023) by (apply bpow_le; lia).
  assert (P4 : bpow radix2 4 = 16) by (cbn; lra).
  assert (Pm1 : bpow radix2 (-1) = / 2) by reflexivity.
  assert (P0 : bpow radix2 0 = 1) by reflexivity.
  assert (P2 : bpow radix2 2 = 4) by (cbn; lra).
  assert (P3 : bpow radix2 3 = 8) by (cbn; lra).
  assert (R1 : 4 <= rnd64 (1.5 * 3) <= 8).
  { rewrite <- P2, <- P3. apply rnd64_between; try lia. rewrite P2, P3. lra. }
  assert (R2 : rnd64 (2 * -0.5) = -1).
  { replace (2 * -0.5) with (- bpow radix2 0) by (rewrite P0; lra). rewrite rnd64_opp. f_equal.
    assert (K : bpow radix2 0 <= rnd64 (bpow radix2 0) <= bpow radix2 0) by (apply rnd64_between; try lia; lra).
    rewrite P0 in K. rewrite P0. lra. }
  assert (R3 : / 2 <= rnd64 (- (1.5 * -0.5)) <= 1).
  { rewrite <- Pm1, <- P0. apply rnd64_between; try lia. rewrite Pm1, P0. lra. }
  rewrite rnd64_opp in R3.
  assert (R4 : 4 <= rnd64 (2 * 3) <= 8).
  { rewrite <- P2, <- P3. apply rnd64_between; try lia. rewrite P2, P3. lra. }
  repeat split; try (apply ffinite_SF; reflexivity);
    apply in_range_of_bounds; rewrite ?R2;
    (rewrite Rabs_pos_eq by lra) || (rewrite Rabs_left by lra); lra.
Qed.
