(* Proofs/ComplexRound.v -- P3 of C13: a normwise rounding bound for the complex product AS THE CODE COMPUTES IT,
   (fl(fl(ac) - fl(bd)), fl(fl(ad) + fl(bc))), first in the standard model of rounding (any reals related by a
   relative error u), then for the float instance of the model itself (@cmul AF on Coq's primitive binary64),
   through Flocq's specification of the primitive operations (Bmult/Bplus/Bminus_correct, relative_error_N_FLT):
       |fl(z*w) - z*w|^2 <= 2 (2u + u^2)^2 |z|^2 |w|^2 ,  u = 2^-53        (i.e. |error| <= 2.83 u |z||w|)
   whenever no product / sum overflows or falls into the subnormal range; likewise componentwise u for + and -,
   2u + u^2 for |z|^2, u for z * r, and normwise sqrt 2 * kappa (about 7.1 u) |z|/|w| for the quotient.  *)
From Coq Require Import ZArith Reals Lra Lia Floats.
From Flocq Require Import Core BinarySingleNaN PrimFloat Relative.
From OV Require Import Base.Panic Base.Arith Model.Complex Inst.FloatInst.
Local Open Scope R_scope.
Notation pfloat := Coq.Floats.PrimFloat.float.

(* ---------------------------------------------------------------- 1. standard model *)

Section StdModel.
Variable u : R.
Hypothesis u_nonneg : 0 <= u.

(* t approximates s with relative error u *)
Definition rel_err (t s : R) : Prop := Rabs (t - s) <= u * Rabs s.

Lemma rel_err_abs t s : rel_err t s -> Rabs t <= (1 + u) * Rabs s.
Proof.
  unfold rel_err. intros H.
  replace t with ((t - s) + s) by ring.
  eapply Rle_trans; [apply Rabs_triang|]. lra.
Qed.

(* two rounded terms, combined (+ or -), rounded again *)
Lemma round_sum_err (sg : R) (x y p1 p2 t : R) :
  Rabs sg = 1 -> rel_err p1 x -> rel_err p2 y -> rel_err t (p1 + sg * p2) ->
  Rabs (t - (x + sg * y)) <= (2 * u + u * u) * (Rabs x + Rabs y).
Proof.
  intros Hs H1 H2 H3.
  pose proof (rel_err_abs _ _ H1) as A1. pose proof (rel_err_abs _ _ H2) as A2.
  unfold rel_err in *.
  assert (S : Rabs (p1 + sg * p2) <= (1 + u) * (Rabs x + Rabs y)).
  { eapply Rle_trans; [apply Rabs_triang|]. rewrite Rabs_mult, Hs. lra. }
  replace (t - (x + sg * y)) with ((t - (p1 + sg * p2)) + ((p1 - x) + sg * (p2 - y))) by ring.
  eapply Rle_trans; [apply Rabs_triang|].
  assert (B : Rabs ((p1 - x) + sg * (p2 - y)) <= u * Rabs x + u * Rabs y).
  { eapply Rle_trans; [apply Rabs_triang|]. rewrite Rabs_mult, Hs. lra. }
  assert (C : u * Rabs (p1 + sg * p2) <= u * ((1 + u) * (Rabs x + Rabs y))).
  { apply Rmult_le_compat_l; assumption. }
  lra.
Qed.

Lemma sq_le_of_abs_le (e m : R) : Rabs e <= m -> e * e <= m * m.
Proof.
  intros H. pose proof (Rabs_pos e) as P.
  replace (e * e) with (Rabs e * Rabs e).
  - apply Rmult_le_compat; assumption.
  - unfold Rabs. destruct (Rcase_abs e); ring.
Qed.

Lemma cauchy_like (a b c d : R) :
  (Rabs (a * c) + Rabs (b * d)) * (Rabs (a * c) + Rabs (b * d)) +
  (Rabs (a * d) + Rabs (b * c)) * (Rabs (a * d) + Rabs (b * c)) <=
  2 * ((a * a + b * b) * (c * c + d * d)).
Proof.
  rewrite !Rabs_mult.
  pose proof (Rabs_pos a) as Pa. pose proof (Rabs_pos b) as Pb.
  pose proof (Rabs_pos c) as Pc. pose proof (Rabs_pos d) as Pd.
  assert (Ea : a * a = Rabs a * Rabs a) by (unfold Rabs; destruct (Rcase_abs a); ring).
  assert (Eb : b * b = Rabs b * Rabs b) by (unfold Rabs; destruct (Rcase_abs b); ring).
  assert (Ec : c * c = Rabs c * Rabs c) by (unfold Rabs; destruct (Rcase_abs c); ring).
  assert (Ed : d * d = Rabs d * Rabs d) by (unfold Rabs; destruct (Rcase_abs d); ring).
  rewrite Ea, Eb, Ec, Ed.
  clear Ea Eb Ec Ed. revert Pa Pb Pc Pd. generalize (Rabs a) (Rabs b) (Rabs c) (Rabs d).
  intros X Y Z W Pa Pb Pc Pd.
  assert (H1 : 0 <= (X - Y) * (X - Y)) by (apply (Rle_0_sqr (X - Y))).
  assert (H2 : 0 <= (Z - W) * (Z - W)) by (apply (Rle_0_sqr (Z - W))).
  assert (H3 : 0 <= X * Y) by (now apply Rmult_le_pos).
  assert (H4 : 0 <= Z * W) by (now apply Rmult_le_pos).
  assert (H5 : (2 * (X * Y)) * (2 * (Z * W)) <= (X * X + Y * Y) * (Z * Z + W * W)).
  { apply Rmult_le_compat; lra. }
  lra.
Qed.

(* the rounded complex product, as the code computes it: (rnd(rnd(ac) - rnd(bd)), rnd(rnd(ad) + rnd(bc))) *)
Theorem cmul_std_model (a b c d p1 p2 p3 p4 fr fi : R) :
  rel_err p1 (a * c) -> rel_err p2 (b * d) -> rel_err fr (p1 - p2) ->
  rel_err p3 (a * d) -> rel_err p4 (b * c) -> rel_err fi (p3 + p4) ->
  let er := fr - (a * c - b * d) in
  let ei := fi - (a * d + b * c) in
  er * er + ei * ei <= 2 * ((2 * u + u * u) * (2 * u + u * u)) * ((a * a + b * b) * (c * c + d * d)).
Proof.
  intros H1 H2 H3 H4 H5 H6 er ei.
  assert (Er : Rabs er <= (2 * u + u * u) * (Rabs (a * c) + Rabs (b * d))).
  { unfold er. replace (a * c - b * d) with (a * c + (-1) * (b * d)) by ring.
    apply (round_sum_err (-1) _ _ p1 p2); try assumption.
    - unfold Rabs. destruct (Rcase_abs (-1)); lra.
    - now replace (p1 + -1 * p2) with (p1 - p2) by ring. }
  assert (Ei : Rabs ei <= (2 * u + u * u) * (Rabs (a * d) + Rabs (b * c))).
  { unfold ei. replace (a * d + b * c) with (a * d + 1 * (b * c)) by ring.
    apply (round_sum_err 1 _ _ p3 p4); try assumption.
    - apply Rabs_R1.
    - now replace (p3 + 1 * p4) with (p3 + p4) by ring. }
  apply sq_le_of_abs_le in Er. apply sq_le_of_abs_le in Ei.
  pose proof (cauchy_like a b c d) as K.
  revert Er Ei K. generalize (Rabs (a * c) + Rabs (b * d)) (Rabs (a * d) + Rabs (b * c)).
  generalize ((a * a + b * b) * (c * c + d * d)). generalize (er * er) (ei * ei).
  generalize (2 * u + u * u).
  intros g e1 e2 N m1 m2 Er Ei K.
  assert (G : 0 <= g * g) by (apply (Rle_0_sqr g)).
  assert (K' : (g * g) * (m1 * m1 + m2 * m2) <= (g * g) * (2 * N)) by (apply Rmult_le_compat_l; assumption).
  lra.
Qed.
End StdModel.

(* ---------------------------------------------------------------- 2. the float instance, through Flocq *)

Definition FR (x : pfloat) : R := B2R (Prim2B x).
Definition ffinite (x : pfloat) : Prop := is_finite (Prim2B x) = true.
Definition rnd64 (x : R) : R := round radix2 (FLT_exp (-1074) 53) ZnearestE x.
Definition u64 : R := / 2 * bpow radix2 (-53 + 1).
Definition no_underflow (x : R) : Prop := x = 0 \/ bpow radix2 (-1022) <= Rabs x.
Definition no_overflow (x : R) : Prop := Rabs (rnd64 x) < bpow radix2 1024.

Lemma rnd64_rel x : no_underflow x -> Rabs (rnd64 x - x) <= u64 * Rabs x.
Proof.
  intros [->|H].
  - unfold rnd64. rewrite round_0 by auto with typeclass_instances.
    rewrite Rminus_0_r, Rabs_R0. lra.
  - unfold rnd64, u64. apply (relative_error_N_FLT radix2 (-1074) 53 eq_refl (fun x => negb (Z.even x)) x). exact H.
Qed.

Lemma fmul_correct (x y : pfloat) : no_overflow (FR x * FR y) ->
  FR (x * y)%float = rnd64 (FR x * FR y) /\ (ffinite x -> ffinite y -> ffinite (x * y)%float).
Proof.
  unfold FR, ffinite, no_overflow. intros H. rewrite mul_equiv.
  pose proof (Bmult_correct prec emax Hprec Hmax mode_NE (Prim2B x) (Prim2B y)) as K.
  change (round radix2 (fexp prec emax) (round_mode mode_NE)) with rnd64 in K.
  change (bpow radix2 emax) with (bpow radix2 1024) in K.
  rewrite Rlt_bool_true in K by exact H.
  destruct K as (K1 & K2 & _). split; [exact K1|]. intros Fx Fy. now rewrite K2, Fx, Fy.
Qed.

Lemma fadd_correct (x y : pfloat) : ffinite x -> ffinite y -> no_overflow (FR x + FR y) ->
  FR (x + y)%float = rnd64 (FR x + FR y) /\ ffinite (x + y)%float.
Proof.
  unfold FR, ffinite, no_overflow. intros Fx Fy H. rewrite add_equiv.
  pose proof (Bplus_correct prec emax Hprec Hmax mode_NE (Prim2B x) (Prim2B y) Fx Fy) as K.
  change (round radix2 (fexp prec emax) (round_mode mode_NE)) with rnd64 in K.
  change (bpow radix2 emax) with (bpow radix2 1024) in K.
  rewrite Rlt_bool_true in K by exact H.
  destruct K as (K1 & K2 & _). now split.
Qed.

Lemma fsub_correct (x y : pfloat) : ffinite x -> ffinite y -> no_overflow (FR x - FR y) ->
  FR (x - y)%float = rnd64 (FR x - FR y) /\ ffinite (x - y)%float.
Proof.
  unfold FR, ffinite, no_overflow. intros Fx Fy H. rewrite sub_equiv.
  pose proof (Bminus_correct prec emax Hprec Hmax mode_NE (Prim2B x) (Prim2B y) Fx Fy) as K.
  change (round radix2 (fexp prec emax) (round_mode mode_NE)) with rnd64 in K.
  change (bpow radix2 emax) with (bpow radix2 1024) in K.
  rewrite Rlt_bool_true in K by exact H.
  destruct K as (K1 & K2 & _). now split.
Qed.

Definition in_range (x : R) : Prop := no_underflow x /\ no_overflow x.

Lemma u64_nonneg : 0 <= u64.
Proof. unfold u64. pose proof (bpow_gt_0 radix2 (-53 + 1)). lra. Qed.

(* the float instance of the model: z, w : cplx AF (Complex<f64>) *)
Lemma cmul_rounding_bound_lemma (z w : cplx AF) :
  let a := FR (re z) in let b := FR (im z) in let c := FR (re w) in let d := FR (im w) in
  ffinite (re z) -> ffinite (im z) -> ffinite (re w) -> ffinite (im w) ->
  in_range (a * c) -> in_range (b * d) -> in_range (a * d) -> in_range (b * c) ->
  in_range (rnd64 (a * c) - rnd64 (b * d)) -> in_range (rnd64 (a * d) + rnd64 (b * c)) ->
  ffinite (re (cmul z w)) /\ ffinite (im (cmul z w)) /\
  let er := FR (re (cmul z w)) - (a * c - b * d) in
  let ei := FR (im (cmul z w)) - (a * d + b * c) in
  er * er + ei * ei <= 2 * ((2 * u64 + u64 * u64) * (2 * u64 + u64 * u64)) * ((a * a + b * b) * (c * c + d * d)).
Proof.
  intros a b c d Fa Fb Fc Fd [U1 O1] [U2 O2] [U3 O3] [U4 O4] [U5 O5] [U6 O6].
  destruct z as [zr zi], w as [wr wi]. cbn [re im] in *.
  change (re (cmul (mkC zr zi) (mkC wr wi))) with (zr * wr - zi * wi)%float.
  change (im (cmul (mkC zr zi) (mkC wr wi))) with (zr * wi + zi * wr)%float.
  destruct (fmul_correct zr wr O1) as [E1 F1]. specialize (F1 Fa Fc).
  destruct (fmul_correct zi wi O2) as [E2 F2]. specialize (F2 Fb Fd).
  destruct (fmul_correct zr wi O3) as [E3 F3]. specialize (F3 Fa Fd).
  destruct (fmul_correct zi wr O4) as [E4 F4]. specialize (F4 Fb Fc).
  fold a b c d in E1, E2, E3, E4.
  assert (O5' : no_overflow (FR (zr * wr)%float - FR (zi * wi)%float)) by (now rewrite E1, E2).
  assert (O6' : no_overflow (FR (zr * wi)%float + FR (zi * wr)%float)) by (now rewrite E3, E4).
  destruct (fsub_correct _ _ F1 F2 O5') as [E5 F5].
  destruct (fadd_correct _ _ F3 F4 O6') as [E6 F6].
  split; [exact F5|]. split; [exact F6|].
  rewrite E5, E6, E1, E2, E3, E4.
  apply (cmul_std_model u64 u64_nonneg a b c d (rnd64 (a * c)) (rnd64 (b * d)) (rnd64 (a * d)) (rnd64 (b * c)));
    unfold rel_err; apply rnd64_rel; assumption.
Qed.

(* ---------------------------------------------------------------- 3. checkable range conditions; non-vacuity *)
Local Instance P53 : Prec_gt_0 53 := eq_refl.

Lemma in_range_of_bounds x : bpow radix2 (-1022) <= Rabs x <= bpow radix2 1023 -> in_range x.
Proof.
  intros [H1 H2]. split; [now right|].
  unfold no_overflow, rnd64.
  apply Rle_lt_trans with (bpow radix2 1023); [|apply bpow_lt; reflexivity].
  apply abs_round_le_generic; [apply FLT_exp_valid; reflexivity | apply valid_rnd_N | | exact H2].
  apply generic_format_bpow. unfold FLT_exp. lia.
Qed.

Lemma in_range_0 : in_range 0.
Proof.
  split; [now left|]. unfold no_overflow, rnd64.
  rewrite round_0 by auto with typeclass_instances. rewrite Rabs_R0. apply bpow_gt_0.
Qed.

(* rounding stays between two powers of two that bracket the argument *)
Lemma rnd64_between (e1 e2 : Z) x : (-1074 <= e1)%Z -> (-1074 <= e2)%Z ->
  bpow radix2 e1 <= x <= bpow radix2 e2 -> bpow radix2 e1 <= rnd64 x <= bpow radix2 e2.
Proof.
  intros L1 L2 [H1 H2]. unfold rnd64. split.
  - apply round_ge_generic; [apply FLT_exp_valid; reflexivity | apply valid_rnd_N | | exact H1].
    apply generic_format_bpow. unfold FLT_exp. lia.
  - apply round_le_generic; [apply FLT_exp_valid; reflexivity | apply valid_rnd_N | | exact H2].
    apply generic_format_bpow. unfold FLT_exp. lia.
Qed.

Lemma rnd64_opp x : rnd64 (- x) = - rnd64 x.
Proof. unfold rnd64. apply round_NE_opp. Qed.

Lemma FR_SF (x : pfloat) : FR x = SF2R radix2 (Prim2SF x).
Proof. unfold FR, Prim2B. apply B2R_SF2B. Qed.

Lemma ffinite_SF (x : pfloat) : is_finite_SF (Prim2SF x) = true -> ffinite x.
Proof. unfold ffinite, Prim2B. now rewrite is_finite_SF2B. Qed.

Ltac fr_eval := rewrite FR_SF; match goal with |- context [Prim2SF ?x] => let s := fresh "s" in
  set (s := Prim2SF x); vm_compute in s; subst s end; unfold SF2R, F2R; cbn -[IZR Rmult]; lra.

(* (1.5 + 2i) * (3 - 0.5i): every operand component non-zero, all six roundings in range *)
Example cmul_rounding_bound_nonvacuous :
  let z := @mkC AF 1.5%float 2%float in let w := @mkC AF 3%float (-0.5)%float in
  let a := FR (re z) in let b := FR (im z) in let c := FR (re w) in let d := FR (im w) in
  ffinite (re z) /\ ffinite (im z) /\ ffinite (re w) /\ ffinite (im w) /\
  in_range (a * c) /\ in_range (b * d) /\ in_range (a * d) /\ in_range (b * c) /\
  in_range (rnd64 (a * c) - rnd64 (b * d)) /\ in_range (rnd64 (a * d) + rnd64 (b * c)).
Proof.
  cbn [re im].
  assert (Ea : FR 1.5%float = 1.5) by fr_eval. assert (Eb : FR 2%float = 2) by fr_eval.
  assert (Ec : FR 3%float = 3) by fr_eval. assert (Ed : FR (-0.5)%float = -0.5) by fr_eval.
  rewrite Ea, Eb, Ec, Ed.
  assert (B0 : bpow radix2 (-1022) <= bpow radix2 (-1)) by (apply bpow_le; lia).
  assert (B1 : bpow radix2 4 <= bpow radix2 1023) by (apply bpow_le; lia).
  assert (P4 : bpow radix2 4 = 16) by (cbn; lra).
  assert (Pm1 : bpow radix2 (-1) = / 2) by reflexivity.
  assert (P0 : bpow radix2 0 = 1) by reflexivity.
  assert (P2 : bpow radix2 2 = 4) by (cbn; lra).
  assert (P3 : bpow radix2 3 = 8) by (cbn; lra).
  assert (R1 : 4 <= rnd64 (1.5 * 3) <= 8).
  { rewrite <- P2, <- P3. apply rnd64_between; try lia. rewrite P2, P3. lra. }
  assert (R2 : rnd64 (2 * -0.5) = -1).
  { replace (2 * -0.5) with (- bpow radix2 0) by (rewrite P0; lra). rewrite rnd64_opp. f_equal.
    assert (K : bpow radix2 0 <= rnd64 (bpow radix2 0) <= bpow radix2 0) by (apply rnd64_between; try lia; lra).
    rewrite P0 in K. rewrite P0. lra. }
  assert (R3 : / 2 <= rnd64 (- (1.5 * -0.5)) <= 1).
  { rewrite <- Pm1, <- P0. apply rnd64_between; try lia. rewrite Pm1, P0. lra. }
  rewrite rnd64_opp in R3.
  assert (R4 : 4 <= rnd64 (2 * 3) <= 8).
  { rewrite <- P2, <- P3. apply rnd64_between; try lia. rewrite P2, P3. lra. }
  repeat split; try (apply ffinite_SF; reflexivity);
    apply in_range_of_bounds; rewrite ?R2;
    (rewrite Rabs_pos_eq by lra) || (rewrite Rabs_left by lra); lra.
Qed.

(* ---------------------------------------------------------------- 4. the single-rounding operators *)
(* + and - round each component once: componentwise (hence normwise) relative error u *)
Lemma cadd_csub_rounding_bound_lemma (z w : cplx AF) :
  let a := FR (re z) in let b := FR (im z) in let c := FR (re w) in let d := FR (im w) in
  ffinite (re z) -> ffinite (im z) -> ffinite (re w) -> ffinite (im w) ->
  (in_range (a + c) -> in_range (b + d) ->
   ffinite (re (cadd z w)) /\ ffinite (im (cadd z w)) /\
   Rabs (FR (re (cadd z w)) - (a + c)) <= u64 * Rabs (a + c) /\
   Rabs (FR (im (cadd z w)) - (b + d)) <= u64 * Rabs (b + d)) /\
  (in_range (a - c) -> in_range (b - d) ->
   ffinite (re (csub z w)) /\ ffinite (im (csub z w)) /\
   Rabs (FR (re (csub z w)) - (a - c)) <= u64 * Rabs (a - c) /\
   Rabs (FR (im (csub z w)) - (b - d)) <= u64 * Rabs (b - d)).
Proof.
  intros a b c d Fa Fb Fc Fd.
  destruct z as [zr zi], w as [wr wi]. cbn [re im] in *. split.
  - intros [U1 O1] [U2 O2].
    change (re (cadd (mkC zr zi) (mkC wr wi))) with (zr + wr)%float.
    change (im (cadd (mkC zr zi) (mkC wr wi))) with (zi + wi)%float.
    destruct (fadd_correct zr wr Fa Fc O1) as [E1 F1]. destruct (fadd_correct zi wi Fb Fd O2) as [E2 F2].
    rewrite E1, E2. repeat split; try assumption; apply rnd64_rel; assumption.
  - intros [U1 O1] [U2 O2].
    change (re (csub (mkC zr zi) (mkC wr wi))) with (zr - wr)%float.
    change (im (csub (mkC zr zi) (mkC wr wi))) with (zi - wi)%float.
    destruct (fsub_correct zr wr Fa Fc O1) as [E1 F1]. destruct (fsub_correct zi wi Fb Fd O2) as [E2 F2].
    rewrite E1, E2. repeat split; try assumption; apply rnd64_rel; assumption.
Qed.

(* |z|^2 = fl(fl(a*a) + fl(b*b)): no cancellation, relative error 2u + u^2;  z * r rounds each component once *)
Lemma abs_sqr_cmul_r_rounding_bound_lemma (z : cplx AF) (r : AF) :
  let a := FR (re z) in let b := FR (im z) in let s := FR r in
  ffinite (re z) -> ffinite (im z) ->
  (in_range (a * a) -> in_range (b * b) -> in_range (rnd64 (a * a) + rnd64 (b * b)) ->
   ffinite (abs_sqr z) /\
   Rabs (FR (abs_sqr z) - (a * a + b * b)) <= (2 * u64 + u64 * u64) * (a * a + b * b)) /\
  (ffinite r -> in_range (a * s) -> in_range (b * s) ->
   ffinite (re (cmul_r z r)) /\ ffinite (im (cmul_r z r)) /\ rmul_c r z = cmul_r z r /\
   Rabs (FR (re (cmul_r z r)) - a * s) <= u64 * Rabs (a * s) /\
   Rabs (FR (im (cmul_r z r)) - b * s) <= u64 * Rabs (b * s)).
Proof.
  intros a b s Fa Fb. destruct z as [zr zi]. cbn [re im] in *. split.
  - intros [U1 O1] [U2 O2] [U3 O3].
    change (abs_sqr (mkC zr zi)) with (zr * zr + zi * zi)%float.
    destruct (fmul_correct zr zr O1) as [E1 F1]. specialize (F1 Fa Fa).
    destruct (fmul_correct zi zi O2) as [E2 F2]. specialize (F2 Fb Fb).
    fold a b in E1, E2.
    assert (O3' : no_overflow (FR (zr * zr)%float + FR (zi * zi)%float)) by (now rewrite E1, E2).
    destruct (fadd_correct _ _ F1 F2 O3') as [E3 F3].
    split; [exact F3|]. rewrite E3, E1, E2.
    pose proof (round_sum_err u64 u64_nonneg 1 (a * a) (b * b) (rnd64 (a * a)) (rnd64 (b * b))
                  (rnd64 (rnd64 (a * a) + rnd64 (b * b))) Rabs_R1) as K.
    replace (rnd64 (a * a) + 1 * rnd64 (b * b)) with (rnd64 (a * a) + rnd64 (b * b)) in K by ring.
    replace (a * a + 1 * (b * b)) with (a * a + b * b) in K by ring.
    assert (Pa : 0 <= a * a) by (apply (Rle_0_sqr a)). assert (Pb : 0 <= b * b) by (apply (Rle_0_sqr b)).
    rewrite (Rabs_pos_eq (a * a)), (Rabs_pos_eq (b * b)) in K by assumption.
    apply K; unfold rel_err; apply rnd64_rel; assumption.
  - intros Fr [U1 O1] [U2 O2].
    change (re (cmul_r (mkC zr zi) r)) with (zr * r)%float.
    change (im (cmul_r (mkC zr zi) r)) with (zi * r)%float.
    destruct (fmul_correct zr r O1) as [E1 F1]. destruct (fmul_correct zi r O2) as [E2 F2].
    fold a b s in E1, E2. rewrite E1, E2.
    repeat split; auto; apply rnd64_rel; assumption.
Qed.

(* ---------------------------------------------------------------- 5. division *)
Section StdModelDiv.
Variable u : R.
Hypothesis u_nonneg : 0 <= u.

(* a rounded quotient of a perturbed numerator (|R1 - R0| <= g m, |R0| <= m) by a perturbed positive denominator *)
Lemma quot_err (g R0 R1 D0 D1 q m : R) :
  0 <= g < 1 -> 0 < D0 -> Rabs (D1 - D0) <= g * D0 -> Rabs (R1 - R0) <= g * m -> Rabs R0 <= m ->
  Rabs (q - R1 / D1) <= u * Rabs (R1 / D1) ->
  Rabs (q - R0 / D0) <= ((2 * g + u * (1 + g)) / (1 - g)) * (m / D0).
Proof.
  intros [G0 G1] HD HD1 HR1 HR0 Hq.
  assert (M0 : 0 <= m) by (pose proof (Rabs_pos R0); lra).
  apply Rabs_le_inv in HD1.
  assert (P : 0 < (1 - g) * D0) by (apply Rmult_lt_0_compat; lra).
  assert (L : (1 - g) * D0 <= D1) by lra.
  assert (D1pos : 0 < D1) by lra.
  set (k := / ((1 - g) * D0)).
  assert (Kpos : 0 < k) by (apply Rinv_0_lt_compat; exact P).
  assert (Kle : / D1 <= k) by (apply Rinv_le_contravar; assumption).
  assert (I1pos : 0 < / D1) by (apply Rinv_0_lt_compat; exact D1pos).
  assert (A1 : Rabs R1 <= (1 + g) * m).
  { replace R1 with ((R1 - R0) + R0) by ring. eapply Rle_trans; [apply Rabs_triang|]. lra. }
  assert (A : Rabs (R1 / D1) <= ((1 + g) * m) * k).
  { unfold Rdiv. rewrite Rabs_mult, (Rabs_pos_eq (/ D1)) by lra.
    apply Rmult_le_compat; try lra. apply Rabs_pos. }
  assert (N : Rabs ((R1 - R0) * D0 - R0 * (D1 - D0)) <= 2 * (g * m) * D0).
  { replace ((R1 - R0) * D0 - R0 * (D1 - D0)) with ((R1 - R0) * D0 + (- R0) * (D1 - D0)) by ring.
    eapply Rle_trans; [apply Rabs_triang|]. rewrite !Rabs_mult, Rabs_Ropp, (Rabs_pos_eq D0) by lra.
    assert (X1 : Rabs (R1 - R0) * D0 <= (g * m) * D0) by (apply Rmult_le_compat_r; lra).
    assert (X2 : Rabs R0 * Rabs (D1 - D0) <= m * (g * D0)).
    { apply Rmult_le_compat; try apply Rabs_pos; try assumption. apply Rabs_le. lra. }
    lra. }
  assert (B : Rabs (R1 / D1 - R0 / D0) <= (2 * (g * m)) * k).
  { replace (R1 / D1 - R0 / D0) with (((R1 - R0) * D0 - R0 * (D1 - D0)) * (/ D1 * / D0)) by (field; lra).
    rewrite Rabs_mult. rewrite (Rabs_pos_eq (/ D1 * / D0)).
    2:{ apply Rlt_le, Rmult_lt_0_compat; [exact I1pos | apply Rinv_0_lt_compat; exact HD]. }
    eapply Rle_trans; [apply Rmult_le_compat_r; [|exact N]|].
    - apply Rlt_le, Rmult_lt_0_compat; [exact I1pos | apply Rinv_0_lt_compat; exact HD].
    - replace (2 * (g * m) * D0 * (/ D1 * / D0)) with ((2 * (g * m)) * / D1) by (field; lra).
      apply Rmult_le_compat_l; [|exact Kle]. assert (0 <= g * m) by (apply Rmult_le_pos; lra). lra. }
  replace (q - R0 / D0) with ((q - R1 / D1) + (R1 / D1 - R0 / D0)) by ring.
  eapply Rle_trans; [apply Rabs_triang|].
  assert (C : u * Rabs (R1 / D1) <= u * (((1 + g) * m) * k)) by (apply Rmult_le_compat_l; assumption).
  replace ((2 * g + u * (1 + g)) / (1 - g) * (m / D0)) with (u * ((1 + g) * m * k) + 2 * (g * m) * k)
    by (unfold k; field; lra).
  lra.
Qed.

Definition kappa (g : R) : R := (2 * g + u * (1 + g)) / (1 - g).

(* the rounded complex quotient as the code computes it:
   den = fl(fl(cc) + fl(dd)),  x = fl(fl(fl(ac) + fl(bd)) / den),  y = fl(fl(fl(bc) - fl(ad)) / den) *)
Theorem cdiv_std_model (a b c d pcc pdd D1 pac pbd R1 pbc pad I1 qx qy : R) :
  2 * u + u * u < 1 -> 0 < c * c + d * d ->
  rel_err u pcc (c * c) -> rel_err u pdd (d * d) -> rel_err u D1 (pcc + pdd) ->
  rel_err u pac (a * c) -> rel_err u pbd (b * d) -> rel_err u R1 (pac + pbd) ->
  rel_err u pbc (b * c) -> rel_err u pad (a * d) -> rel_err u I1 (pbc - pad) ->
  rel_err u qx (R1 / D1) -> rel_err u qy (I1 / D1) ->
  let er := qx - (a * c + b * d) / (c * c + d * d) in
  let ei := qy - (b * c - a * d) / (c * c + d * d) in
  er * er + ei * ei <= 2 * (kappa (2 * u + u * u) * kappa (2 * u + u * u)) * ((a * a + b * b) / (c * c + d * d)).
Proof.
  intros G1 HD Hcc Hdd HD1 Hac Hbd HR1 Hbc Had HI1 Hqx Hqy er ei.
  set (g := 2 * u + u * u) in *. set (D0 := c * c + d * d) in *.
  assert (G0 : 0 <= g) by (unfold g; assert (0 <= u * u) by (apply Rmult_le_pos; assumption); lra).
  (* denominator *)
  assert (ED : Rabs (D1 - D0) <= g * D0).
  { pose proof (round_sum_err u u_nonneg 1 (c * c) (d * d) pcc pdd D1 Rabs_R1) as K.
    replace (pcc + 1 * pdd) with (pcc + pdd) in K by ring.
    replace (c * c + 1 * (d * d)) with D0 in K by (unfold D0; ring).
    rewrite (Rabs_pos_eq (c * c)), (Rabs_pos_eq (d * d)) in K by (apply Rle_0_sqr).
    apply K; assumption. }
  (* numerators *)
  set (mR := Rabs (a * c) + Rabs (b * d)). set (mI := Rabs (a * d) + Rabs (b * c)).
  assert (ER : Rabs (R1 - (a * c + b * d)) <= g * mR).
  { pose proof (round_sum_err u u_nonneg 1 (a * c) (b * d) pac pbd R1 Rabs_R1) as K.
    replace (pac + 1 * pbd) with (pac + pbd) in K by ring.
    replace (a * c + 1 * (b * d)) with (a * c + b * d) in K by ring. apply K; assumption. }
  assert (EI : Rabs (I1 - (b * c - a * d)) <= g * mI).
  { assert (S1 : Rabs (-1) = 1) by (unfold Rabs; destruct (Rcase_abs (-1)); lra).
    pose proof (round_sum_err u u_nonneg (-1) (b * c) (a * d) pbc pad I1 S1) as K.
    replace (pbc + -1 * pad) with (pbc - pad) in K by ring.
    replace (b * c + -1 * (a * d)) with (b * c - a * d) in K by ring.
    unfold mI. rewrite (Rplus_comm (Rabs (a * d))). apply K; assumption. }
  assert (BR : Rabs (a * c + b * d) <= mR) by apply Rabs_triang.
  assert (BI : Rabs (b * c - a * d) <= mI).
  { unfold mI. replace (b * c - a * d) with (b * c + - (a * d)) by ring.
    eapply Rle_trans; [apply Rabs_triang|]. rewrite Rabs_Ropp. lra. }
  assert (GG : 0 <= g < 1) by (split; assumption).
  pose proof (quot_err g _ R1 D0 D1 qx mR GG HD ED ER BR Hqx) as Qx.
  pose proof (quot_err g _ I1 D0 D1 qy mI GG HD ED EI BI Hqy) as Qy.
  fold (kappa g) in Qx, Qy. fold er in Qx. fold ei in Qy.
  apply sq_le_of_abs_le in Qx. apply sq_le_of_abs_le in Qy.
  pose proof (cauchy_like a b c d) as K. fold mR mI D0 in K.
  assert (KK : 0 <= kappa g * kappa g) by (apply (Rle_0_sqr (kappa g))).
  assert (ID : 0 < / D0) by (apply Rinv_0_lt_compat; exact HD).
  assert (K' : (kappa g * kappa g) * (/ D0 * / D0) * (mR * mR + mI * mI)
               <= (kappa g * kappa g) * (/ D0 * / D0) * (2 * ((a * a + b * b) * D0))).
  { apply Rmult_le_compat_l; [|exact K]. apply Rmult_le_pos; [exact KK|]. apply Rlt_le, Rmult_lt_0_compat; exact ID. }
  replace (2 * (kappa g * kappa g) * ((a * a + b * b) / D0))
    with ((kappa g * kappa g) * (/ D0 * / D0) * (2 * ((a * a + b * b) * D0))) by (field; lra).
  eapply Rle_trans; [|exact K'].
  replace (kappa g * kappa g * (/ D0 * / D0) * (mR * mR + mI * mI))
    with (kappa g * (mR / D0) * (kappa g * (mR / D0)) + kappa g * (mI / D0) * (kappa g * (mI / D0))) by (field; lra).
  lra.
Qed.
End StdModelDiv.

Lemma fdiv_correct (x y : pfloat) : ffinite x -> FR y <> 0 -> no_overflow (FR x / FR y) ->
  FR (x / y)%float = rnd64 (FR x / FR y) /\ ffinite (x / y)%float.
Proof.
  unfold FR, ffinite, no_overflow. intros Fx Ny H. rewrite div_equiv.
  pose proof (Bdiv_correct prec emax Hprec Hmax mode_NE (Prim2B x) (Prim2B y) Ny) as K.
  change (round radix2 (fexp prec emax) (round_mode mode_NE)) with rnd64 in K.
  change (bpow radix2 emax) with (bpow radix2 1024) in K.
  rewrite Rlt_bool_true in K by exact H.
  destruct K as (K1 & K2 & _). split; [exact K1 | now rewrite K2].
Qed.

Lemma u64_small : 2 * u64 + u64 * u64 < 1.
Proof.
  assert (H : u64 <= / 4).
  { unfold u64. assert (bpow radix2 (-53 + 1) <= bpow radix2 (-1)) by (apply bpow_le; lia).
    change (bpow radix2 (-1)) with (/ 2) in H. lra. }
  pose proof u64_nonneg as P.
  assert (u64 * u64 <= / 4 * / 4) by (apply Rmult_le_compat; lra). lra.
Qed.

(* the float instance of the model: z / w for z, w : cplx AF *)
Lemma cdiv_rounding_bound_lemma (z w : cplx AF) :
  let a := FR (re z) in let b := FR (im z) in let c := FR (re w) in let d := FR (im w) in
  let D1 := rnd64 (rnd64 (c * c) + rnd64 (d * d)) in
  let R1 := rnd64 (rnd64 (a * c) + rnd64 (b * d)) in
  let I1 := rnd64 (rnd64 (b * c) - rnd64 (a * d)) in
  ffinite (re z) -> ffinite (im z) -> ffinite (re w) -> ffinite (im w) -> 0 < c * c + d * d ->
  in_range (c * c) -> in_range (d * d) -> in_range (rnd64 (c * c) + rnd64 (d * d)) ->
  in_range (a * c) -> in_range (b * d) -> in_range (rnd64 (a * c) + rnd64 (b * d)) ->
  in_range (b * c) -> in_range (a * d) -> in_range (rnd64 (b * c) - rnd64 (a * d)) ->
  in_range (R1 / D1) -> in_range (I1 / D1) ->
  exists q, cdiv z w = Ok q /\ ffinite (re q) /\ ffinite (im q) /\
  let er := FR (re q) - (a * c + b * d) / (c * c + d * d) in
  let ei := FR (im q) - (b * c - a * d) / (c * c + d * d) in
  er * er + ei * ei <=
    2 * (kappa u64 (2 * u64 + u64 * u64) * kappa u64 (2 * u64 + u64 * u64)) * ((a * a + b * b) / (c * c + d * d)).
Proof.
  intros a b c d D1 R1 I1 Fa Fb Fc Fd HD [U1 O1] [U2 O2] [U3 O3] [U4 O4] [U5 O5] [U6 O6] [U7 O7] [U8 O8] [U9 O9]
         [U10 O10] [U11 O11].
  destruct z as [zr zi], w as [wr wi]. cbn [re im] in *.
  exists (@mkC AF ((zr * wr + zi * wi) / (wr * wr + wi * wi))%float ((zi * wr - zr * wi) / (wr * wr + wi * wi))%float).
  split; [reflexivity|]. cbn [re im].
  destruct (fmul_correct wr wr O1) as [E1 F1]. specialize (F1 Fc Fc).
  destruct (fmul_correct wi wi O2) as [E2 F2]. specialize (F2 Fd Fd).
  destruct (fmul_correct zr wr O4) as [E4 F4]. specialize (F4 Fa Fc).
  destruct (fmul_correct zi wi O5) as [E5 F5]. specialize (F5 Fb Fd).
  destruct (fmul_correct zi wr O7) as [E7 F7]. specialize (F7 Fb Fc).
  destruct (fmul_correct zr wi O8) as [E8 F8]. specialize (F8 Fa Fd).
  fold a b c d in E1, E2, E4, E5, E7, E8.
  assert (O3' : no_overflow (FR (wr * wr)%float + FR (wi * wi)%float)) by (now rewrite E1, E2).
  assert (O6' : no_overflow (FR (zr * wr)%float + FR (zi * wi)%float)) by (now rewrite E4, E5).
  assert (O9' : no_overflow (FR (zi * wr)%float - FR (zr * wi)%float)) by (now rewrite E7, E8).
  destruct (fadd_correct _ _ F1 F2 O3') as [E3 F3]. rewrite E1, E2 in E3. fold D1 in E3.
  destruct (fadd_correct _ _ F4 F5 O6') as [E6 F6]. rewrite E4, E5 in E6. fold R1 in E6.
  destruct (fsub_correct _ _ F7 F8 O9') as [E9 F9]. rewrite E7, E8 in E9. fold I1 in E9.
  (* the standard-model facts *)
  assert (Hcc := rnd64_rel _ U1). assert (Hdd := rnd64_rel _ U2). assert (HD1 := rnd64_rel _ U3).
  assert (Hac := rnd64_rel _ U4). assert (Hbd := rnd64_rel _ U5). assert (HR1 := rnd64_rel _ U6).
  assert (Hbc := rnd64_rel _ U7). assert (Had := rnd64_rel _ U8). assert (HI1 := rnd64_rel _ U9).
  assert (Hqx := rnd64_rel _ U10). assert (Hqy := rnd64_rel _ U11).
  fold D1 in HD1. fold R1 in HR1. fold I1 in HI1.
  (* the computed denominator is not zero *)
  assert (ND : D1 <> 0).
  { pose proof (round_sum_err u64 u64_nonneg 1 (c * c) (d * d) (rnd64 (c * c)) (rnd64 (d * d)) D1 Rabs_R1) as K.
    replace (rnd64 (c * c) + 1 * rnd64 (d * d)) with (rnd64 (c * c) + rnd64 (d * d)) in K by ring.
    specialize (K Hcc Hdd HD1).
    rewrite (Rabs_pos_eq (c * c)), (Rabs_pos_eq (d * d)) in K by (apply Rle_0_sqr).
    replace (c * c + 1 * (d * d)) with (c * c + d * d) in K by ring.
    apply Rabs_le_inv in K. pose proof u64_small as S.
    assert (0 < (1 - (2 * u64 + u64 * u64)) * (c * c + d * d)) by (apply Rmult_lt_0_compat; lra).
    lra. }
  assert (O10' : no_overflow (FR (zr * wr + zi * wi)%float / FR (wr * wr + wi * wi)%float)) by (now rewrite E6, E3).
  assert (O11' : no_overflow (FR (zi * wr - zr * wi)%float / FR (wr * wr + wi * wi)%float)) by (now rewrite E9, E3).
  assert (ND' : FR (wr * wr + wi * wi)%float <> 0) by (now rewrite E3).
  destruct (fdiv_correct _ _ F6 ND' O10') as [Ex Fx]. destruct (fdiv_correct _ _ F9 ND' O11') as [Ey Fy].
  split; [exact Fx|]. split; [exact Fy|].
  rewrite Ex, Ey, E6, E9, E3.
  apply (cdiv_std_model u64 u64_nonneg a b c d (rnd64 (c * c)) (rnd64 (d * d)) D1
           (rnd64 (a * c)) (rnd64 (b * d)) R1 (rnd64 (b * c)) (rnd64 (a * d)) I1); try assumption.
  exact u64_small.
Qed.

Lemma quot_between (x y lx hx ly hy : R) : 0 < lx -> 0 < ly -> lx <= x <= hx -> ly <= y <= hy ->
  lx / hy <= x / y <= hx / ly.
Proof.
  intros Plx Ply [X1 X2] [Y1 Y2]. unfold Rdiv.
  assert (/ hy <= / y) by (apply Rinv_le_contravar; lra).
  assert (/ y <= / ly) by (apply Rinv_le_contravar; lra).
  assert (0 < / hy) by (apply Rinv_0_lt_compat; lra).
  split.
  - apply Rmult_le_compat; lra.
  - apply Rmult_le_compat; lra.
Qed.

(* (1.5 + 2i) / (3 - 0.5i) meets every hypothesis of cdiv_rounding_bound *)
Example cdiv_rounding_bound_nonvacuous :
  let z := @mkC AF 1.5%float 2%float in let w := @mkC AF 3%float (-0.5)%float in
  let a := FR (re z) in let b := FR (im z) in let c := FR (re w) in let d := FR (im w) in
  let D1 := rnd64 (rnd64 (c * c) + rnd64 (d * d)) in
  let R1 := rnd64 (rnd64 (a * c) + rnd64 (b * d)) in
  let I1 := rnd64 (rnd64 (b * c) - rnd64 (a * d)) in
  ffinite (re z) /\ ffinite (im z) /\ ffinite (re w) /\ ffinite (im w) /\ 0 < c * c + d * d /\
  in_range (c * c) /\ in_range (d * d) /\ in_range (rnd64 (c * c) + rnd64 (d * d)) /\
  in_range (a * c) /\ in_range (b * d) /\ in_range (rnd64 (a * c) + rnd64 (b * d)) /\
  in_range (b * c) /\ in_range (a * d) /\ in_range (rnd64 (b * c) - rnd64 (a * d)) /\
  in_range (R1 / D1) /\ in_range (I1 / D1).
Proof.
  cbn [re im].
  assert (Ea : FR 1.5%float = 1.5) by fr_eval. assert (Eb : FR 2%float = 2) by fr_eval.
  assert (Ec : FR 3%float = 3) by fr_eval. assert (Ed : FR (-0.5)%float = -0.5) by fr_eval.
  rewrite Ea, Eb, Ec, Ed.
  assert (B0 : bpow radix2 (-1022) <= bpow radix2 (-4)) by (apply bpow_le; lia).
  assert (B1 : bpow radix2 5 <= bpow radix2 1023) by (apply bpow_le; lia).
  assert (Pm4 : bpow radix2 (-4) = / 16) by (cbn; lra).
  assert (Pm2 : bpow radix2 (-2) = / 4) by (cbn; lra).
  assert (Pm1 : bpow radix2 (-1) = / 2) by reflexivity.
  assert (P0 : bpow radix2 0 = 1) by reflexivity.
  assert (P1 : bpow radix2 1 = 2) by reflexivity.
  assert (P2 : bpow radix2 2 = 4) by (cbn; lra).
  assert (P3 : bpow radix2 3 = 8) by (cbn; lra).
  assert (P4 : bpow radix2 4 = 16) by (cbn; lra).
  assert (P5 : bpow radix2 5 = 32) by (cbn; lra).
  assert (Rcc : 8 <= rnd64 (3 * 3) <= 16).
  { rewrite <- P3, <- P4. apply rnd64_between; try lia. rewrite P3, P4. lra. }
  assert (Rdd : / 4 <= rnd64 (-0.5 * -0.5) <= / 4).
  { rewrite <- Pm2. apply rnd64_between; try lia. rewrite Pm2. lra. }
  assert (RD : 8 <= rnd64 (rnd64 (3 * 3) + rnd64 (-0.5 * -0.5)) <= 32).
  { rewrite <- P3, <- P5. apply rnd64_between; try lia. rewrite P3, P5. lra. }
  assert (Rac : 4 <= rnd64 (1.5 * 3) <= 8).
  { rewrite <- P2, <- P3. apply rnd64_between; try lia. rewrite P2, P3. lra. }
  assert (Rbd : -1 <= rnd64 (2 * -0.5) <= -1).
  { replace (2 * -0.5) with (- bpow radix2 0) by (rewrite P0; lra). rewrite rnd64_opp.
    assert (K : bpow radix2 0 <= rnd64 (bpow radix2 0) <= bpow radix2 0) by (apply rnd64_between; try lia; lra).
    rewrite P0 in K. rewrite P0. lra. }
  assert (RR : 2 <= rnd64 (rnd64 (1.5 * 3) + rnd64 (2 * -0.5)) <= 8).
  { rewrite <- P1, <- P3. apply rnd64_between; try lia. rewrite P1, P3. lra. }
  assert (Rbc : 4 <= rnd64 (2 * 3) <= 8).
  { rewrite <- P2, <- P3. apply rnd64_between; try lia. rewrite P2, P3. lra. }
  assert (Rad : / 2 <= rnd64 (- (1.5 * -0.5)) <= 1).
  { rewrite <- Pm1, <- P0. apply rnd64_between; try lia. rewrite Pm1, P0. lra. }
  rewrite rnd64_opp in Rad.
  assert (RI : 4 <= rnd64 (rnd64 (2 * 3) - rnd64 (1.5 * -0.5)) <= 16).
  { rewrite <- P2, <- P4. apply rnd64_between; try lia. rewrite P2, P4. lra. }
  pose proof (quot_between _ _ 2 8 8 32 ltac:(lra) ltac:(lra) RR RD) as QR.
  pose proof (quot_between _ _ 4 16 8 32 ltac:(lra) ltac:(lra) RI RD) as QI.
  repeat split; try (apply ffinite_SF; reflexivity); try lra;
    apply in_range_of_bounds;
    (rewrite Rabs_pos_eq by lra) || (rewrite Rabs_left by lra); lra.
Qed.

(* non-vacuity witnesses used by Props/C13.v *)
Lemma cadd_csub_rounding_bound_nonvacuous_lemma : in_range (FR (FloatInst.fz false 3 (-1)) + FR (FloatInst.fz false 3 0)).
Proof.
  assert (E : (FR (FloatInst.fz false 3 (-1)) + FR (FloatInst.fz false 3 0) = 4.5)%R).
  { assert (E1 : FR (FloatInst.fz false 3 (-1)) = 1.5%R) by fr_eval.
    assert (E2 : FR (FloatInst.fz false 3 0) = 3%R) by fr_eval. rewrite E1, E2. lra. }
  rewrite E. apply in_range_of_bounds. rewrite Rabs_pos_eq by lra.
  assert (B0 : (bpow radix2 (-1022) <= bpow radix2 0)%R) by (apply bpow_le; lia).
  assert (B1 : (bpow radix2 3 <= bpow radix2 1023)%R) by (apply bpow_le; lia).
  change (bpow radix2 0) with 1%R in B0. assert (P3 : bpow radix2 3 = 8%R) by (cbn; lra). lra.
Qed.

Lemma abs_sqr_cmul_r_rounding_bound_nonvacuous_lemma :
  let a := FR (FloatInst.fz false 3 (-1)) in let b := FR (FloatInst.fz true 1 (-1)) in
  in_range (a * a) /\ in_range (b * b) /\ in_range (a * b).
Proof.
  cbn zeta. assert (E1 : FR (FloatInst.fz false 3 (-1)) = 1.5%R) by fr_eval.
  assert (E2 : FR (FloatInst.fz true 1 (-1)) = (-0.5)%R) by fr_eval. rewrite E1, E2.
  assert (B0 : (bpow radix2 (-1022) <= bpow radix2 (-2))%R) by (apply bpow_le; lia).
  assert (B1 : (bpow radix2 2 <= bpow radix2 1023)%R) by (apply bpow_le; lia).
  assert (Pm2 : bpow radix2 (-2) = (/ 4)%R) by (cbn; lra). assert (P2 : bpow radix2 2 = 4%R) by (cbn; lra).
  repeat split; apply in_range_of_bounds;
    (rewrite Rabs_pos_eq by lra) || (rewrite Rabs_left by lra); lra.
Qed.

Notation rsqrt := R_sqrt.sqrt.
(* ---------------------------------------------------------------- 6. neg / conj (exact), z / r, |z| *)
Lemma fopp_correct (x : pfloat) : FR (- x)%float = - FR x /\ (ffinite x -> ffinite (- x)%float).
Proof.
  unfold FR, ffinite. rewrite opp_equiv. split; [apply B2R_Bopp | now rewrite is_finite_Bopp].
Qed.

Lemma cneg_conj_exact_lemma (z : cplx AF) :
  FR (re (cneg z)) = - FR (re z) /\ FR (im (cneg z)) = - FR (im z) /\
  re (conj z) = re z /\ FR (im (conj z)) = - FR (im z).
Proof.
  destruct z as [zr zi]. cbn [re im cneg conj].
  change (@neg AF zr) with (- zr)%float. change (@neg AF zi) with (- zi)%float.
  repeat split; apply fopp_correct.
Qed.

(* z / r divides each component once *)
Lemma cdiv_r_rounding_bound_lemma (z : cplx AF) (r : AF) :
  let a := FR (re z) in let b := FR (im z) in let s := FR r in
  ffinite (re z) -> ffinite (im z) -> s <> 0 -> in_range (a / s) -> in_range (b / s) ->
  exists q, cdiv_r z r = Ok q /\ cdiv_assign_r z r = Ok q /\ ffinite (re q) /\ ffinite (im q) /\
  Rabs (FR (re q) - a / s) <= u64 * Rabs (a / s) /\ Rabs (FR (im q) - b / s) <= u64 * Rabs (b / s).
Proof.
  intros a b s Fa Fb Ns [U1 O1] [U2 O2]. destruct z as [zr zi]. cbn [re im] in *.
  exists (@mkC AF (zr / r)%float (zi / r)%float). split; [reflexivity|]. split; [reflexivity|]. cbn [re im].
  destruct (fdiv_correct zr r Fa Ns O1) as [E1 F1]. destruct (fdiv_correct zi r Fb Ns O2) as [E2 F2].
  fold a b s in E1, E2. rewrite E1, E2. repeat split; try assumption; apply rnd64_rel; assumption.
Qed.

(* sqrt is 1-Lipschitz in relative terms: |sqrt x - sqrt y| <= |x - y| / sqrt y *)
Lemma sqrt_perturb (g S S1 : R) : 0 <= g -> 0 < S -> Rabs (S1 - S) <= g * S -> 0 <= S1 ->
  Rabs (rsqrt S1 - rsqrt S) <= g * rsqrt S.
Proof.
  intros G PS H P1.
  assert (Q : 0 < rsqrt S) by (now apply sqrt_lt_R0).
  assert (Q1 : 0 <= rsqrt S1) by apply sqrt_pos.
  assert (M : (rsqrt S1 - rsqrt S) * (rsqrt S1 + rsqrt S) = S1 - S).
  { replace ((rsqrt S1 - rsqrt S) * (rsqrt S1 + rsqrt S)) with (rsqrt S1 * rsqrt S1 - rsqrt S * rsqrt S) by ring.
    rewrite !sqrt_sqrt by lra. reflexivity. }
  assert (E : rsqrt S1 - rsqrt S = (S1 - S) * / (rsqrt S1 + rsqrt S)).
  { rewrite <- M. field. lra. }
  rewrite E, Rabs_mult. rewrite (Rabs_pos_eq (/ _)) by (apply Rlt_le, Rinv_0_lt_compat; lra).
  assert (I : / (rsqrt S1 + rsqrt S) <= / rsqrt S) by (apply Rinv_le_contravar; lra).
  assert (I0 : 0 < / (rsqrt S1 + rsqrt S)) by (apply Rinv_0_lt_compat; lra).
  eapply Rle_trans; [apply Rmult_le_compat; [apply Rabs_pos | lra | exact H | exact I]|].
  replace (g * S * / rsqrt S) with (g * (rsqrt S * rsqrt S) * / rsqrt S) by (now rewrite sqrt_sqrt by lra).
  right. field. lra.
Qed.

(* |z| = fl(sqrt(fl(fl(a*a) + fl(b*b)))): relative error g + u (1 + g), g = 2u + u^2  (about 3u) *)
Lemma cabs_rounding_bound_lemma (z : cplx AF) :
  let a := FR (re z) in let b := FR (im z) in
  ffinite (re z) -> ffinite (im z) -> 0 < a * a + b * b ->
  in_range (a * a) -> in_range (b * b) -> in_range (rnd64 (a * a) + rnd64 (b * b)) ->
  no_underflow (rsqrt (rnd64 (rnd64 (a * a) + rnd64 (b * b)))) ->
  Rabs (FR (@cabs SAF z) - rsqrt (a * a + b * b)) <=
    ((2 * u64 + u64 * u64) + u64 * (1 + (2 * u64 + u64 * u64))) * rsqrt (a * a + b * b).
Proof.
  intros a b Fa Fb PS R1 R2 R3 U4.
  destruct (abs_sqr_cmul_r_rounding_bound_lemma z (re z)) as [K _]; try assumption.
  fold a b in K. destruct (K R1 R2 R3) as [_ E]. clear K.
  set (g := 2 * u64 + u64 * u64) in *. set (S := a * a + b * b) in *.
  assert (G : 0 <= g) by (unfold g; pose proof u64_nonneg; assert (0 <= u64 * u64) by (now apply Rmult_le_pos); lra).
  change (@cabs SAF z) with (Coq.Floats.PrimFloat.sqrt (abs_sqr z)).
  unfold FR at 1. rewrite sqrt_equiv.
  destruct (Bsqrt_correct prec emax Hprec Hmax mode_NE (Prim2B (abs_sqr z))) as [E1 _].
  change (round radix2 (fexp prec emax) (round_mode mode_NE)) with rnd64 in E1.
  rewrite E1. fold (FR (abs_sqr z)).
  set (S1 := FR (abs_sqr z)) in *.
  assert (ES1 : S1 = rnd64 (rnd64 (a * a) + rnd64 (b * b))).
  { unfold S1. destruct z as [zr zi]. cbn [re im] in *.
    change (abs_sqr (mkC zr zi)) with (zr * zr + zi * zi)%float.
    destruct R1 as [_ O1], R2 as [_ O2], R3 as [_ O3].
    destruct (fmul_correct zr zr O1) as [M1 F1]. specialize (F1 Fa Fa).
    destruct (fmul_correct zi zi O2) as [M2 F2]. specialize (F2 Fb Fb). fold a b in M1, M2.
    assert (O3' : no_overflow (FR (zr * zr)%float + FR (zi * zi)%float)) by (now rewrite M1, M2).
    destruct (fadd_correct _ _ F1 F2 O3') as [M3 _]. now rewrite M3, M1, M2. }
  assert (L : (1 - g) * S <= S1) by (apply Rabs_le_inv in E; lra).
  assert (P1 : 0 <= S1).
  { pose proof u64_small as Sm. fold g in Sm. assert (0 <= (1 - g) * S) by (apply Rmult_le_pos; lra). lra. }
  pose proof (sqrt_perturb g S S1 G PS E P1) as Q.
  rewrite <- ES1 in U4. pose proof (rnd64_rel _ U4) as Rq.
  assert (A : Rabs (rsqrt S1) <= (1 + g) * rsqrt S).
  { replace (rsqrt S1) with ((rsqrt S1 - rsqrt S) + rsqrt S) by ring.
    eapply Rle_trans; [apply Rabs_triang|]. rewrite (Rabs_pos_eq (rsqrt S)) by apply sqrt_pos. lra. }
  replace (rnd64 (rsqrt S1) - rsqrt S) with ((rnd64 (rsqrt S1) - rsqrt S1) + (rsqrt S1 - rsqrt S)) by ring.
  eapply Rle_trans; [apply Rabs_triang|].
  assert (C : u64 * Rabs (rsqrt S1) <= u64 * ((1 + g) * rsqrt S)) by (apply Rmult_le_compat_l; [apply u64_nonneg | exact A]).
  lra.
Qed.

Lemma cdiv_r_cabs_rounding_bound_nonvacuous_lemma :
  let z := @mkC AF 1.5%float 2%float in let r : AF := (-0.5)%float in
  let a := FR (re z) in let b := FR (im z) in let s := FR r in
  ffinite (re z) /\ ffinite (im z) /\ s <> 0 /\ in_range (a / s) /\ in_range (b / s) /\
  0 < a * a + b * b /\ in_range (a * a) /\ in_range (b * b) /\ in_range (rnd64 (a * a) + rnd64 (b * b)) /\
  no_underflow (rsqrt (rnd64 (rnd64 (a * a) + rnd64 (b * b)))).
Proof.
  cbn [re im].
  assert (Ea : FR 1.5%float = 1.5) by fr_eval. assert (Eb : FR 2%float = 2) by fr_eval.
  assert (Es : FR (-0.5)%float = -0.5) by fr_eval.
  rewrite Ea, Eb, Es.
  assert (B0 : bpow radix2 (-1022) <= bpow radix2 0) by (apply bpow_le; lia).
  assert (B1 : bpow radix2 4 <= bpow radix2 1023) by (apply bpow_le; lia).
  assert (P0 : bpow radix2 0 = 1) by reflexivity.
  assert (P1 : bpow radix2 1 = 2) by reflexivity.
  assert (P2 : bpow radix2 2 = 4) by (cbn; lra).
  assert (P3 : bpow radix2 3 = 8) by (cbn; lra).
  assert (P4 : bpow radix2 4 = 16) by (cbn; lra).
  assert (Raa : 2 <= rnd64 (1.5 * 1.5) <= 4).
  { rewrite <- P1, <- P2. apply rnd64_between; try lia. rewrite P1, P2. lra. }
  assert (Rbb : 4 <= rnd64 (2 * 2) <= 4).
  { rewrite <- P2. apply rnd64_between; try lia. rewrite P2. lra. }
  assert (RS : 4 <= rnd64 (rnd64 (1.5 * 1.5) + rnd64 (2 * 2)) <= 8).
  { rewrite <- P2, <- P3. apply rnd64_between; try lia. rewrite P2, P3. lra. }
  assert (Q3 : 1.5 / -0.5 = -3) by lra. assert (Q4 : 2 / -0.5 = -4) by lra.
  rewrite Q3, Q4.
  assert (I1 : in_range (-3)) by (apply in_range_of_bounds; rewrite Rabs_left by lra; lra).
  assert (I2 : in_range (-4)) by (apply in_range_of_bounds; rewrite Rabs_left by lra; lra).
  assert (I3 : in_range (1.5 * 1.5)) by (apply in_range_of_bounds; rewrite Rabs_pos_eq by lra; lra).
  assert (I4 : in_range (2 * 2)) by (apply in_range_of_bounds; rewrite Rabs_pos_eq by lra; lra).
  assert (I5 : in_range (rnd64 (1.5 * 1.5) + rnd64 (2 * 2))) by (apply in_range_of_bounds; rewrite Rabs_pos_eq by lra; lra).
  assert (I6 : no_underflow (rsqrt (rnd64 (rnd64 (1.5 * 1.5) + rnd64 (2 * 2))))).
  { right. rewrite Rabs_pos_eq by apply sqrt_pos.
    apply Rle_trans with 1; [lra|]. rewrite <- sqrt_1. apply sqrt_le_1_alt. lra. }
  repeat (split; [first [assumption | apply ffinite_SF; reflexivity | lra]|]). assumption.
Qed.
