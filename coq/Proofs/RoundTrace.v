(* Proofs/RoundTrace.v -- over ANY arithmetic (no law at all): the closed form of what backsolve and the unit-lower
   forward substitution of solve_lu (Model/Solve.v) compute, as folds over the FINAL answer.

     backsolve m b = Ok x  ->  for every row k:   div (racc m b x k n) m_kk = Ok x_k
        racc m b x k n = (...((b_k - m_{k,k+1} x_{k+1}) - m_{k,k+2} x_{k+2}) ... - m_{k,n-1} x_{n-1})
     fwd_loop m b = Ok y   ->  for every row i:   y_i = lacc m b y i
        lacc m b y i   = (...((b_i - m_{i,0} y_0) - m_{i,1} y_1) ... - m_{i,i-1} y_{i-1})

   with the operations of the arithmetic, in the order of the code.  (The entries of the answer that a row reads are
   final when the row is processed and never change afterwards.)  This reduces every statement about these loops --
   at the rounded reals as at the primitive floats -- to a statement about one left fold per row. *)
From Coq Require Import List Arith Lia Bool.
From OV Require Import Base.Panic Base.Arith Model.Vector Model.Matrix Model.Solve Proofs.Matrix Proofs.LUPrim Proofs.LUSolve.
Import ListNotations.

Lemma fold_left_ext_in {S X} (f g : S -> X -> S) (l : list X) (s : S) :
  (forall a x, In x l -> f a x = g a x) -> fold_left f l s = fold_left g l s.
Proof.
  revert s; induction l as [|x l IH]; intros s H; [reflexivity|].
  cbn [fold_left]. rewrite H by (left; reflexivity). apply IH. intros a y Hy. apply H. right; exact Hy.
Qed.

Section Trace.
Context {A : Arith}.
Notation matrix := (matrix A).

(* x[tgt] -= m[(tgt,j)] * x[j]  for j in the list js, starting from s *)
Definition eacc (m : matrix) (x : list A) (tgt : nat) (js : list nat) (s : A) : A :=
  fold_left (fun s j => (s - ent m tgt j * nth j x zero)%A) js s.

Definition racc (m : matrix) (b x : list A) (k n : nat) : A :=
  eacc m x k (seq (k + 1) (n - (k + 1))) (nth k b zero).
Definition lacc (m : matrix) (b y : list A) (i : nat) : A :=
  eacc m y i (seq 0 i) (nth i b zero).

Lemma eacc_ext m x x' tgt js s : (forall j, In j js -> nth j x' zero = nth j x zero) ->
  eacc m x' tgt js s = eacc m x tgt js s.
Proof. intros H. unfold eacc. apply fold_left_ext_in. intros a j Hj. now rewrite H. Qed.

Definition gelim_body (m : matrix) (tgt : nat) : nat -> list A -> res (list A) :=
  fun j x => let* xj := rd x j in let* xk := rd x tgt in let* a := mget m tgt j in upd x tgt (xk - a * xj)%A.

Lemma gelim_loop (m : matrix) (n tgt lo hi : nat) (X : list A) :
  shape m n n -> tgt < n -> lo <= hi -> hi <= n -> (tgt < lo \/ hi <= tgt) -> length X = n ->
  exists X', for_ lo hi (gelim_body m tgt) X = Ok X' /\ length X' = n /\
    (forall i, i <> tgt -> nth i X' zero = nth i X zero) /\
    nth tgt X' zero = eacc m X tgt (seq lo (hi - lo)) (nth tgt X zero).
Proof.
  intros SH Ht Hlh Hhn Hout LX.
  destruct (for_inv (fun j (X' : list A) => length X' = n /\
              (forall i, i <> tgt -> nth i X' zero = nth i X zero) /\
              nth tgt X' zero = eacc m X tgt (seq lo (j - lo)) (nth tgt X zero))
            lo hi (gelim_body m tgt) X) as (X' & E & HI).
  - exact Hlh.
  - split; [exact LX|]. split; [auto|]. rewrite Nat.sub_diag. reflexivity.
  - intros j X0 Hj (L0 & O0 & EP).
    unfold gelim_body. rewrite (rd_ok X0 j zero) by lia. cbn [bind]. rewrite (rd_ok X0 tgt zero) by lia. cbn [bind].
    rewrite (mget_ok m n n tgt j SH) by lia. cbn [bind].
    rewrite upd_ok by lia. eexists; split; [reflexivity|].
    split; [rewrite upd_list_length; exact L0|]. split.
    + intros i Hi. rewrite nth_upd_list by lia. destruct (Nat.eqb_spec i tgt); [lia|]. now apply O0.
    + rewrite nth_upd_list by lia. rewrite Nat.eqb_refl.
      replace (S j - lo) with (S (j - lo)) by lia. rewrite seq_S. unfold eacc. rewrite fold_left_app. cbn [fold_left].
      fold (eacc m X tgt (seq lo (j - lo)) (nth tgt X zero)). rewrite <- EP.
      replace (lo + (j - lo)) with j by lia. rewrite (O0 j) by lia. reflexivity.
  - exists X'. split; [exact E|]. exact HI.
Qed.

(* ---------------------------------------------------------------- backsolve *)
Definition gbs_body (m : matrix) (n' : nat) (x : list A) : res (list A) :=
  let* k := usub (rows m) n' in
  let* x := for_ (rows m - n' + 1) (rows m) (gelim_body m k) x in
  let* xk := rd x k in
  let* d := mget m k k in
  let* q := div xk d in
  upd x k q.

Lemma gbacksolve_unfold (m : matrix) (x : list A) :
  backsolve m x =
  (let* last := usub (rows m) 1 in
   let* xl := rd x last in
   let* d := mget m last last in
   let* q := div xl d in
   let* x := upd x last q in
   for_ 2 (rows m + 1) (gbs_body m) x).
Proof. reflexivity. Qed.

Theorem backsolve_trace (m : matrix) (n : nat) (b x : list A) :
  shape m n n -> length b = n -> backsolve m b = Ok x ->
  length x = n /\ forall k, k < n -> div (racc m b x k n) (ent m k k) = Ok (nth k x zero).
Proof.
  intros SH Lb E. pose proof SH as (W & Er & Ec).
  rewrite gbacksolve_unfold in E. rewrite Er in E.
  apply bind_ok in E as (last & El & E). unfold usub in El.
  destruct (Nat.leb_spec 1 n) as [Hn|]; [|discriminate]. injection El as <-.
  rewrite (rd_ok b (n - 1) zero) in E by lia. cbn [bind] in E.
  rewrite (mget_ok m n n (n - 1) (n - 1) SH) in E by lia. cbn [bind] in E.
  apply bind_ok in E as (q0 & Eq0 & E). rewrite upd_ok in E by lia. cbn [bind] in E.
  pose (I := fun n' (X : list A) => length X = n /\
              (forall i, i < n - (n' - 1) -> nth i X zero = nth i b zero) /\
              (forall i, n - (n' - 1) <= i -> i < n -> div (racc m b X i n) (ent m i i) = Ok (nth i X zero))).
  assert (G : I (n + 1) x).
  { refine (for_inv_partial I 2 (n + 1) _ _ x ltac:(lia) _ _ E).
    - split; [rewrite upd_list_length; exact Lb|]. split.
      + intros i Hi. rewrite nth_upd_list by lia. destruct (Nat.eqb_spec i (n - 1)); [lia|reflexivity].
      + intros i Hi1 Hi2. assert (i = n - 1) as -> by lia.
        rewrite nth_upd_list by lia. rewrite Nat.eqb_refl. unfold racc.
        replace (n - (n - 1 + 1)) with 0 by lia. cbn [seq eacc fold_left]. exact Eq0.
    - clear E. intros n' X X2 Hn' (LX & Hlow & Hdone) E.
      unfold gbs_body in E. rewrite Er in E. unfold usub in E.
      destruct (Nat.leb_spec n' n); [|lia]. cbn [bind] in E.
      set (k := n - n') in *.
      destruct (gelim_loop m n k (k + 1) n X SH ltac:(lia) ltac:(lia) ltac:(lia) ltac:(lia) LX)
        as (X1 & E1 & L1 & O1 & EP).
      replace (n - n' + 1) with (k + 1) in E by lia. rewrite E1 in E. cbn [bind] in E.
      rewrite (rd_ok X1 k zero) in E by lia. cbn [bind] in E.
      rewrite (mget_ok m n n k k SH) in E by lia. cbn [bind] in E.
      apply bind_ok in E as (q & Eq & E). rewrite upd_ok in E by lia. injection E as <-.
      split; [rewrite upd_list_length; exact L1|]. split.
      + intros i Hi. rewrite nth_upd_list by lia. destruct (Nat.eqb_spec i k); [lia|].
        rewrite O1 by lia. apply Hlow. lia.
      + intros i Hi1 Hi2.
        assert (EX : forall j, k < j -> nth j (upd_list X1 k q) zero = nth j X zero).
        { intros j Hj. rewrite nth_upd_list by lia. destruct (Nat.eqb_spec j k); [lia|]. apply O1. lia. }
        destruct (Nat.eq_dec i k) as [->|Ne].
        * rewrite nth_upd_list by lia. rewrite Nat.eqb_refl. unfold racc.
          rewrite (eacc_ext m X) by (intros j Hj; apply in_seq in Hj; apply EX; lia).
          rewrite <- (Hlow k) by lia. rewrite <- EP. exact Eq.
        * unfold racc. rewrite (eacc_ext m X) by (intros j Hj; apply in_seq in Hj; apply EX; lia).
          rewrite EX by lia. apply Hdone; lia. }
  destruct G as (Lx & _ & Hrows). split; [exact Lx|]. intros k Hk. apply Hrows; lia.
Qed.

(* ---------------------------------------------------------------- the forward substitution of solve_lu *)
Theorem fwd_loop_trace (m : matrix) (n : nat) (b : list A) :
  shape m n n -> length b = n ->
  exists y, fwd_loop m b = Ok y /\ length y = n /\ forall i, i < n -> nth i y zero = lacc m b y i.
Proof.
  intros SH Lb. pose proof SH as (W & Er & Ec). unfold fwd_loop. rewrite Er.
  destruct (for_inv (fun i (X : list A) => length X = n /\
              (forall r, i <= r -> nth r X zero = nth r b zero) /\
              (forall r, r < i -> nth r X zero = lacc m b X r))
            0 n (fun i x => for_ 0 i (gelim_body m i) x) b) as (y & E & Ly & _ & Hrows).
  - lia.
  - split; [exact Lb|]. split; [auto|intros; lia].
  - intros i X Hi (LX & Hup & Hdone).
    destruct (gelim_loop m n i 0 i X SH ltac:(lia) ltac:(lia) ltac:(lia) ltac:(lia) LX) as (X1 & E1 & L1 & O1 & EP).
    rewrite Nat.sub_0_r in EP.
    exists X1. split; [exact E1|]. split; [exact L1|]. split.
    + intros r Hr. rewrite O1 by lia. apply Hup. lia.
    + intros r Hr. destruct (Nat.eq_dec r i) as [->|Ne].
      * unfold lacc. rewrite (eacc_ext m X) by (intros j Hj; apply in_seq in Hj; apply O1; lia).
        rewrite <- (Hup i) by lia. exact EP.
      * unfold lacc. rewrite (eacc_ext m X) by (intros j Hj; apply in_seq in Hj; apply O1; lia).
        rewrite O1 by lia. apply Hdone. lia.
  - exists y. split; [exact E|]. split; [exact Ly|]. intros i Hi. now apply Hrows.
Qed.

End Trace.
