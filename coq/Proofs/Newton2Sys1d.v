(* Proofs/Newton2Sys1d.v -- C17 over the reals: the FINITE-DIFFERENCE system solve
   (Newton<Vec64>::solve, Model/Newton.v newton_sys at NRl) on a one-dimensional nonlinear system
   p = [x] |-> [f x]  (package newton2).  The whole code path of a system pass is exercised: func,
   norm_inf, Mat64::jacobian (forward difference, set_col), solve_basic, the vector update.

   jacobian_1d      the Jacobian is the 1 x 1 matrix [(f(y + d) - f(y)) / d];
   sys_pass_1d      the pass:  x' = y - f(y)/D with D that quotient, test |f(y)| <= tol;
   newton_sys1d_ok_near_root     Ok => |y - r| <= tol/m at the pass that stopped and
                                 |x - r| <= (L/m) (tol/m) (tol/m + |delta|);
   newton_sys1d_basin_*          from |x0 - r| <= rho with q = (L/m)(rho + |delta|) < 1: no panic, linear
                                 contraction by q, Ok as soon as Mb q^N rho <= tol and N < max_iter.
   Hypotheses on f as in Proofs/Newton2Scalar.v. *)
From Coq Require Import List Arith Lia Reals Lra Psatz.
From OV Require Import Base.Panic Base.Arith Model.Vector Model.Matrix Model.Solve Model.Newton
  Proofs.Matrix Proofs.NewtonLoop Proofs.Newton Proofs.NewtonJac Proofs.NewtonReal
  Proofs.Newton2Real Proofs.Newton2Scalar Proofs.Newton2Mono.
Import ListNotations.
Local Open Scope R_scope.

(* a system pass, forwards: the value of sys_step from the values of its five stages *)
Lemma sys_step_eq (O : NOps) tl dl (g : list (NA O) -> res (list (NA O))) x fv mr J jev dx :
  g x = Ok fv -> norm_inf O fv = Ok mr -> jacobian O g x (emb O dl) = Ok (J, jev) ->
  solve_basic J fv = Ok dx -> length x = length dx ->
  sys_step O tl dl g x = Ok (zipw sub x dx, leb mr tl, x :: jev).
Proof.
  intros E1 E2 E3 E4 E5. unfold sys_step. rewrite E1. cbn [bind]. rewrite E2. cbn [bind].
  rewrite E3. cbn [bind fst snd]. rewrite E4. cbn [bind].
  unfold vsub_assign. rewrite nw_vsub_ok by exact E5. reflexivity.
Qed.

Section OneDimFD.
Variable f : R -> R.
Notation F := (F1 f).

Definition fdq (y d : R) : R := (f (y + d) - f y) / d.          (* forward difference quotient *)

Lemma jacobian_1d y d : d <> 0 ->
  exists evs, jacobian NRl F [y] d = Ok (@mkM AR [fdq y d] 1 1, evs).
Proof.
  intros Hd.
  destruct (jacobian_shape_lemma NRl F [y] d 1) as (J & evs & EJ & WJ & RJ & CJ & _).
  - intros [|u [|? ?]] Hl; try discriminate. cbn. eauto.
  - intros u. cbn. exists (u / d). apply R_div_ok. exact Hd.
  - exists evs. rewrite EJ. do 2 f_equal.
    destruct (jacobian_entry_lemma NRl (nw_ring_laws NRl ARn_FieldLaws) F [y] d J evs EJ) as (f0 & E0 & _ & _ & Hent).
    cbn in E0. injection E0 as <-.
    destruct (Hent 0%nat 0%nat) as (fj & q & Ej & Eq & Em); [cbn; lia|cbn; lia|].
    cbn in Ej. injection Ej as <-. cbn in Eq. rewrite R_div_ok in Eq by exact Hd. injection Eq as <-.
    fold (fdq y d) in Em.
    destruct J as [bf rw cl]. cbn in RJ, CJ. subst rw cl. unfold wf in WJ. cbn in WJ.
    destruct bf as [|b0 [|? ?]]; try discriminate.
    unfold mget in Em. cbn in Em. injection Em as ->. reflexivity.
Qed.

Lemma sys_pass_1d tl y d : d <> 0 -> fdq y d <> 0 ->
  exists e, sys_step NRl tl d F [y] = Ok ([y - f y / fdq y d], R_leb (Rabs (f y)) tl, e).
Proof.
  intros Hd HD. destruct (jacobian_1d y d Hd) as (jev & EJ).
  assert (EN : norm_inf NRl [f y] = Ok (Rabs (f y))).
  { unfold norm_inf. cbn [rd nth_error bind length]. rewrite for_empty by lia. reflexivity. }
  exists ([y] :: jev).
  exact (sys_step_eq NRl tl d F [y] [f y] (Rabs (f y)) _ jev [f y / fdq y d]
           eq_refl EN EJ (solve_1x1 (fdq y d) (f y) HD) eq_refl).
Qed.

Section General.
Variables (f' : R -> R) (a b m Mb L r : R).
Hypothesis Hder : forall c, a <= c <= b -> derivable_pt_lim f c (f' c).
Hypothesis Hm : 0 < m.
Hypothesis HL : 0 <= L.
Hypothesis Hlo : forall c, a <= c <= b -> m <= Rabs (f' c).
Hypothesis Hhi : forall c, a <= c <= b -> Rabs (f' c) <= Mb.
Hypothesis Hlip : forall u v, a <= u <= b -> a <= v <= b -> Rabs (f' u - f' v) <= L * Rabs (u - v).
Hypothesis Hr : a <= r <= b.
Hypothesis Hroot : f r = 0.

(* calculus of the forward-difference pass *)
Lemma fwd_pass_err y d : d <> 0 -> a <= y - Rabs d -> y + Rabs d <= b ->
  fdq y d <> 0 /\
  Rabs (y - f y / fdq y d - r) <= L / m * (Rabs (y - r) * (Rabs (y - r) + Rabs d)) /\
  Rabs (f y) <= Mb * Rabs (y - r) /\ m * Rabs (y - r) <= Rabs (f y).
Proof.
  intros Hd Ha Hb.
  assert (Hy : a <= y <= b) by (pose proof (Rabs_pos d); lra).
  assert (Hyd : a <= y + d <= b) by (unfold Rabs in *; destruct (Rcase_abs d); lra).
  destruct (mvt_between f f' a b Hder (y + d) y Hyd Hy) as (c & Hc & E).
  assert (Hcb : a <= c <= b) by (unfold Rmin, Rmax in Hc; destruct (Rle_dec (y + d) y); lra).
  assert (Hcy : Rabs (c - y) <= Rabs d).
  { unfold Rabs, Rmin, Rmax in *. destruct (Rcase_abs d), (Rcase_abs (c - y)), (Rle_dec (y + d) y); lra. }
  assert (ED : fdq y d = f' c) by (unfold fdq; rewrite E; field; exact Hd).
  rewrite ED.
  destruct (newton_update_err f f' a b Hder m Mb L r Hm HL Hlo Hhi Hlip Hr Hroot y c (Rabs d) Hy Hcb Hcy)
    as (N & H1 & _ & _).
  split; [exact N|]. split; [exact H1|].
  destruct (root_mvt f f' a b Hder r Hr Hroot y Hy) as (xi & Hxi & _ & Ef).
  rewrite Ef, Rabs_mult. pose proof (Hlo xi Hxi). pose proof (Hhi xi Hxi). pose proof (Rabs_pos (y - r)).
  split; nra.
Qed.

Lemma Lm_nonneg1 : 0 <= L / m.
Proof. unfold Rdiv. apply Rmult_le_pos; [exact HL|]. left. now apply Rinv_0_lt_compat. Qed.

(* ---- Ok => close ---- *)
Lemma sys1d_ok_pass tl dl y p e :
  sys_step NRl tl dl F [y] = Ok (p, true, e) -> dl <> 0 ->
  a <= y - Rabs dl -> y + Rabs dl <= b ->
  exists x, p = [x] /\ Rabs (y - r) <= tl / m /\
    Rabs (x - r) <= L / m * (tl / m * (tl / m + Rabs dl)).
Proof.
  intros H Hd Ha Hb.
  destruct (fwd_pass_err y dl Hd Ha Hb) as (HD & H1 & _ & H3).
  destruct (sys_pass_1d tl y dl Hd HD) as (e' & Es).
  pose proof (eq_trans (eq_sym Es) H) as Q. injection Q as E1 Hb' _. subst p.
  apply R_leb_true in Hb'.
  exists (y - f y / fdq y dl). split; [reflexivity|].
  pose proof (Rabs_pos (y - r)) as HA. pose proof (Rabs_pos dl) as Hdp. pose proof Lm_nonneg1 as HLm.
  assert (HT : Rabs (y - r) <= tl / m).
  { apply (Rmult_le_reg_l m); [exact Hm|]. assert (Em : m * (tl / m) = tl). { field. lra. } rewrite Em. lra. }
  split; [exact HT|].
  eapply Rle_trans; [exact H1|]. apply Rmult_le_compat_l; [exact HLm|].
  set (A := Rabs (y - r)) in *. set (T := tl / m) in *. nra.
Qed.

Lemma newton_sys1d_ok_near_root_lemma tl dl n x0 p evs :
  newton_sys NRl (mkCfg tl dl n [x0]) F = Ok (NOk p, evs) ->
  exists x y k, (k < n)%nat /\ p = [x] /\ niter (sys_step NRl tl dl F) k [x0] = Ok [y] /\
    (a <= y - Rabs dl -> y + Rabs dl <= b ->
     Rabs (y - r) <= tl / m /\ Rabs (x - r) <= L / m * (tl / m * (tl / m + Rabs dl))).
Proof.
  unfold newton_sys. cbn [tol delta max_iter guess]. intros H.
  apply nloop_ok in H as (k & pk & e & Hk & Hit & Hst & _).
  (* the iterate is a singleton: the length of the iterate is invariant *)
  assert (Lk : length pk = 1%nat).
  { apply (niter_inv (sys_step NRl tl dl F) (fun q => length q = 1%nat)) with (k := k) (x := [x0]);
      [|reflexivity|exact Hit].
    intros q q' bb ee Hq Hs. apply sys_step_calls in Hs as [Hl _]. congruence. }
  assert (Lp : length p = 1%nat) by (pose proof (sys_step_calls NRl _ _ _ _ _ _ _ Hst) as [Hl _]; congruence).
  destruct pk as [|y [|? ?]]; try discriminate. destruct p as [|x [|? ?]]; try discriminate.
  exists x, y, k. split; [exact Hk|]. split; [reflexivity|]. split; [exact Hit|].
  intros Ha Hb.
  assert (Hd : dl <> 0).
  { intros ->. apply sys_step_inv in Hst as (fv & mr & J & jev & dx & Ef & _ & EJ & _).
    unfold jacobian, jacobian_tr in EJ. cbn [emb NRl NReal] in EJ. rewrite Ef in EJ. cbn [bind] in EJ.
    cbn [F1 rd nth_error bind] in Ef. injection Ef as <-.
    cbn in EJ. unfold R_div in EJ. destruct (Req_EM_T 0 0); [discriminate|congruence]. }
  destruct (sys1d_ok_pass tl dl y [x] e Hst Hd Ha Hb) as (x2 & E & H1 & H2). injection E as <-. auto.
Qed.

(* ---- the basin ---- *)
Variables (rho tl dl : R).
Hypothesis Hrho : 0 <= rho.
Hypothesis Hdl : dl <> 0.
Hypothesis Hin_a : a <= r - rho - Rabs dl.
Hypothesis Hin_b : r + rho + Rabs dl <= b.
Notation q := (L / m * (rho + Rabs dl)).
Hypothesis Hq : q < 1.

Lemma q_nonneg : 0 <= q.
Proof. apply Rmult_le_pos; [exact Lm_nonneg1|]. pose proof (Rabs_pos dl). lra. Qed.

Lemma ball_in1 y : Rabs (y - r) <= rho -> a <= y - Rabs dl /\ y + Rabs dl <= b.
Proof. intros H. unfold Rabs in H. destruct (Rcase_abs (y - r)); lra. Qed.

Definition in_ball (p : list R) : Prop := exists y, p = [y] /\ Rabs (y - r) <= rho.

Lemma basin1_pass y : Rabs (y - r) <= rho ->
  exists x' bt e, sys_step NRl tl dl F [y] = Ok ([x'], bt, e) /\
    Rabs (x' - r) <= q * Rabs (y - r) /\ Rabs (x' - r) <= rho /\
    (bt = false -> tl < Mb * Rabs (y - r)).
Proof.
  intros Hy. destruct (ball_in1 y Hy) as [Ha Hb].
  destruct (fwd_pass_err y dl Hdl Ha Hb) as (HD & H1 & H2 & _).
  destruct (sys_pass_1d tl y dl Hdl HD) as (e & Es).
  do 3 eexists. split; [exact Es|].
  pose proof q_nonneg as Hq0. pose proof Lm_nonneg1 as HLm.
  pose proof (Rabs_pos (y - r)) as HA. pose proof (Rabs_pos dl) as Hdp.
  assert (Hc : Rabs (y - f y / fdq y dl - r) <= q * Rabs (y - r)).
  { eapply Rle_trans; [exact H1|].
    replace (L / m * (rho + Rabs dl) * Rabs (y - r)) with (L / m * (Rabs (y - r) * (rho + Rabs dl))) by ring.
    apply Rmult_le_compat_l; [exact HLm|]. apply Rmult_le_compat_l; lra. }
  split; [exact Hc|]. split; [nra|].
  intros Hf. apply R_leb_false in Hf. lra.
Qed.

Lemma basin1_pass_inv y p bt e : Rabs (y - r) <= rho ->
  sys_step NRl tl dl F [y] = Ok (p, bt, e) ->
  exists x', p = [x'] /\ Rabs (x' - r) <= q * Rabs (y - r) /\ Rabs (x' - r) <= rho /\
    (bt = false -> tl < Mb * Rabs (y - r)).
Proof.
  intros Hy H. destruct (basin1_pass y Hy) as (x1 & b1 & e1 & E & H1).
  pose proof (eq_trans (eq_sym E) H) as Q. injection Q as E1 E2 _. subst p bt. eauto.
Qed.

Lemma newton_sys1d_basin_total_lemma n x0 : Rabs (x0 - r) <= rho ->
  exists res evs, newton_sys NRl (mkCfg tl dl n [x0]) F = Ok (res, evs).
Proof.
  intros H0. unfold newton_sys. cbn [tol delta max_iter guess].
  apply (nloop_total _ in_ball); [|exists x0; auto].
  intros p (y & -> & Hy). destruct (basin1_pass y Hy) as (x' & bt & e & E & _ & H2 & _).
  do 3 eexists. split; [exact E|]. exists x'. auto.
Qed.

Lemma basin1_run k p pk es :
  run (sys_step NRl tl dl F) k p pk es -> forall y, p = [y] -> Rabs (y - r) <= rho ->
  exists z, pk = [z] /\ Rabs (z - r) <= q ^ k * Rabs (y - r) /\ Rabs (z - r) <= rho.
Proof.
  induction 1 as [p|k p p1 pk e es P Rn IH]; intros y -> H0.
  - exists y. split; [reflexivity|]. cbn. lra.
  - unfold pass in P. destruct (basin1_pass_inv _ _ _ _ H0 P) as (x1 & -> & H1 & H2 & _).
    destruct (IH x1 eq_refl H2) as (z & -> & H3 & H4). exists z. split; [reflexivity|]. split; [|exact H4].
    eapply Rle_trans; [exact H3|]. cbn [pow].
    replace (q * q ^ k * Rabs (y - r)) with (q ^ k * (q * Rabs (y - r))) by ring.
    apply Rmult_le_compat_l; [apply pow_le; exact q_nonneg|exact H1].
Qed.

Lemma newton_sys1d_basin_ok_lemma N n x0 : Rabs (x0 - r) <= rho ->
  Mb * (q ^ N * rho) <= tl -> (N < n)%nat ->
  exists x evs, newton_sys NRl (mkCfg tl dl n [x0]) F = Ok (NOk [x], evs) /\
    Rabs (x - r) <= rho /\
    Rabs (x - r) <= L / m * (tl / m * (tl / m + Rabs dl)).
Proof.
  intros H0 HN Hn. destruct (newton_sys1d_basin_total_lemma n x0 H0) as (res & evs & H).
  pose proof H as H'. unfold newton_sys in H'. cbn [tol delta max_iter guess] in H'.
  pose proof (Mb_pos f' a b m Mb r Hm Hlo Hhi Hr) as HMb.
  apply nloop_spec in H' as [(es & x' & -> & Rn & _)|(k & es & pk & x' & e & -> & Hk & Rn & P & _)].
  - exfalso. destruct (run_prefix _ _ _ _ _ N Rn Hn) as (pj & p1 & e1 & Rj & Pj).
    destruct (basin1_run _ _ _ _ Rj x0 eq_refl H0) as (z & -> & H1 & H2).
    unfold pass in Pj. destruct (basin1_pass_inv _ _ _ _ H2 Pj) as (_ & _ & _ & _ & Hf). specialize (Hf eq_refl).
    pose proof (pow_le q N q_nonneg) as Hqp.
    assert (Rabs (z - r) <= q ^ N * rho).
    { eapply Rle_trans; [exact H1|]. apply Rmult_le_compat_l; auto. }
    assert (Mb * Rabs (z - r) <= Mb * (q ^ N * rho)) by (apply Rmult_le_compat_l; lra).
    lra.
  - destruct (basin1_run _ _ _ _ Rn x0 eq_refl H0) as (z & -> & _ & H2). unfold pass in P.
    destruct (basin1_pass_inv _ _ _ _ H2 P) as (x1 & -> & _ & H3 & _).
    exists x1, evs. split; [exact H|]. split; [exact H3|].
    destruct (ball_in1 z H2) as [Ha Hb].
    destruct (sys1d_ok_pass _ _ _ _ _ P Hdl Ha Hb) as (x2 & E & _ & H4).
    injection E as <-. exact H4.
Qed.

End General.
End OneDimFD.
