(* Proofs/GuardsModelIter.v -- C20, acceptance half of the four iterative solvers (solve_cg, solve_bicg,
   solve_bicgstab, solve_qmr of src/sparse.rs:309-615) on the model functions of Model/Iter.v.

   Statement: on a well-formed receiver with conformable b and x0 (the regenerated guard does not fire), for EVERY
   iteration budget and tolerance, the ONLY panic a solver can raise is one raised by the arithmetic's own division:
   every vector operation inside the loops (identity preconditioner, dot, +, -, scalar /, the CSC products) meets
   its own size guard and stays inside its buffers, in every iteration -- memory safety of the loop code for all
   sizes.  The panics the division may raise are a parameter [Kd]:
     * exact types (Rat/Qc): Kd = (k = DivZero): a Krylov breakdown shows as a division by zero -- data-dependent,
       legitimately so (KNOWN_FINDINGS: breakdown keys of C09);
     * f64 (division never panics): Kd = False: the solver ALWAYS returns (Ok k or Err resid).
   The proof is a shape invariant per solver state (every vector has length n) pushed through the fuelled loop;
   no algebraic law is used. *)
From Coq Require Import ZArith Bool Lia ZifyBool List Arith.
From OV Require Import Base.Panic Base.Arith Model.Vector Model.Matrix Model.Sparse Model.Iter gen.GuardTable Model.Guards
  Proofs.Guards Proofs.GuardsModelBase Proofs.SparseBase Proofs.Iter Proofs.GuardsModelSparse.
Import ListNotations.
Local Open Scope bool_scope.

Section Nice.
Context {A : SArith}.
Notation F := (T (SA A)).
Variable Kd : pkind -> Prop.                 (* the panics the division of the arithmetic may raise *)
Hypothesis Hdiv : forall (x y : F) k, div x y = Panic k -> Kd k.

(* r returns a value satisfying P, or is a panic of the division *)
Definition nice {X} (P : X -> Prop) (r : res X) : Prop :=
  match r with Ok x => P x | Panic k => Kd k end.

Lemma nice_bind {X Y} (P : X -> Prop) (Q : Y -> Prop) (r : res X) (f : X -> res Y) :
  nice P r -> (forall x, P x -> nice Q (f x)) -> nice Q (bind r f).
Proof. destruct r as [x|k]; cbn; auto. Qed.

Lemma nice_div (x y : F) : nice (fun _ => True) (div x y).
Proof. unfold nice. destruct (div x y) eqn:E; [exact I | eapply Hdiv; eauto]. Qed.

Lemma nice_dot (u v : list F) : length u = length v -> nice (fun _ : F => True) (dot u v).
Proof. intros E. unfold dot. rewrite E, Nat.eqb_refl. exact I. Qed.

Section Dim.
Variable n : nat.
Variables mulA mulAT : list F -> res (list F).
Hypothesis HA : forall v, length v = n -> exists w, mulA v = Ok w /\ length w = n.
Hypothesis HAT : forall v, length v = n -> exists w, mulAT v = Ok w /\ length w = n.

Notation len_n := (fun w : list F => length w = n).

Lemma nice_vadd (u v : list F) : length u = n -> length v = n -> nice len_n (vadd u v).
Proof.
  intros Hu Hv. unfold vadd. rewrite Hu, Hv, Nat.eqb_refl. cbn. rewrite zipw_length; congruence.
Qed.
Lemma nice_vsub (u v : list F) : length u = n -> length v = n -> nice len_n (vsub u v).
Proof.
  intros Hu Hv. unfold vsub. rewrite Hu, Hv, Nat.eqb_refl. cbn. rewrite zipw_length; congruence.
Qed.
Lemma nice_ident (b x : list F) : length b = n -> length x = n -> nice len_n (ident_pre n b x).
Proof. intros Hb Hx. rewrite ident_pre_ok by auto. exact Hb. Qed.
Lemma nice_mulA (v : list F) : length v = n -> nice len_n (mulA v).
Proof. intros H. destruct (HA v H) as (w & -> & L). exact L. Qed.
Lemma nice_mulAT (v : list F) : length v = n -> nice len_n (mulAT v).
Proof. intros H. destruct (HAT v H) as (w & -> & L). exact L. Qed.

Lemma nice_mapM_div (u : list F) (c : F) : nice (fun w : list F => length w = length u) (mapM (fun x => div x c) u).
Proof.
  induction u as [|a u IH]; cbn [mapM]; [reflexivity|].
  eapply nice_bind; [apply nice_div|]. intros q _. cbv beta.
  eapply nice_bind; [exact IH|]. intros w Hw. cbn. now rewrite Hw.
Qed.
Lemma nice_vdiv (u : list F) (c : F) : length u = n -> nice len_n (vdiv u c).
Proof. intros H. unfold vdiv. rewrite <- H. apply nice_mapM_div. Qed.

Lemma zeros_len : length (@zeros A n) = n.
Proof. apply repeat_length. Qed.

Ltac lens := unfold zeros; rewrite ?vscale_length, ?vscale_l_length, ?repeat_length; first [assumption | congruence | lia].

Ltac nstep :=
  cbv beta;
  lazymatch goal with
  | |- nice _ (bind (div _ _) _) => eapply nice_bind; [apply nice_div | intros ? _]
  | |- nice _ (bind (dot _ _) _) => eapply nice_bind; [apply nice_dot; lens | intros ? _]
  | |- nice _ (bind (vadd _ _) _) => eapply nice_bind; [apply nice_vadd; lens | intros ? ?]
  | |- nice _ (bind (vsub _ _) _) => eapply nice_bind; [apply nice_vsub; lens | intros ? ?]
  | |- nice _ (bind (vdiv _ _) _) => eapply nice_bind; [apply nice_vdiv; lens | intros ? ?]
  | |- nice _ (bind (ident_pre _ _ _) _) => eapply nice_bind; [apply nice_ident; lens | intros ? ?]
  | |- nice _ (bind (mulA _) _) => eapply nice_bind; [apply nice_mulA; lens | intros ? ?]
  | |- nice _ (bind (mulAT _) _) => eapply nice_bind; [apply nice_mulAT; lens | intros ? ?]
  | |- nice _ (if ?c then _ else _) => destruct c
  end.

(* what one iteration must deliver: a returned outcome, or a next state satisfying the shape invariant *)
Definition step_ok {S} (Inv : S -> Prop) (o : @step_out A S) : Prop :=
  match o with Continue s' => Inv s' | Return _ => True end.

Lemma nice_iloop {S} (Inv : S -> Prop) (body : nat -> S -> res (step_out S)) (final : S -> iout A) :
  (forall i s, Inv s -> nice (step_ok Inv) (body i s)) ->
  forall fuel i s, Inv s -> nice (fun _ => True) (iloop body final fuel i s).
Proof.
  intros Hb fuel. induction fuel as [|f IH]; intros i s HI; cbn [iloop]; [exact I|].
  eapply nice_bind; [apply Hb; exact HI|]. intros [s'|o] Ho; cbn in Ho |- *; [apply IH; exact Ho | exact I].
Qed.

(* ---------------- CG ---------------- *)
Definition cg_shape (s : @cg_st A) : Prop :=
  length (cg_x s) = n /\ length (cg_r s) = n /\ length (cg_p s) = n /\ length (cg_z s) = n.

Lemma cg_body_nice tol normb i s : cg_shape s -> nice (step_ok cg_shape) (cg_body mulA n tol normb i s).
Proof.
  intros (Lx & Lr & Lp & Lz). unfold cg_body. cbv zeta.
  nstep. nstep.
  eapply (nice_bind len_n).
  { destruct (i =? 1); [assumption|]. nstep. apply nice_vadd; lens. }
  intros p Hp. repeat nstep; repeat split; simpl; lens.
Qed.

Lemma solve_cg_nice (b x : list F) max tol : length b = n -> length x = n ->
  nice (fun _ => True) (solve_cg mulA n n b x max tol).
Proof.
  intros Hb Hx. unfold solve_cg, guards. rewrite Hb, Hx, !Nat.eqb_refl. cbn [negb bind]. cbv zeta.
  nstep. nstep. nstep. nstep; [exact I|].
  apply (nice_iloop cg_shape); [intros; now apply cg_body_nice|].
  repeat split; simpl; lens.
Qed.

(* ---------------- BiCG ---------------- *)
Definition bicg_shape (s : @bicg_st A) : Prop :=
  length (bi_x s) = n /\ length (bi_r s) = n /\ length (bi_rr s) = n /\ length (bi_z s) = n /\
  length (bi_zz s) = n /\ length (bi_p s) = n /\ length (bi_pp s) = n.

Lemma bicg_body_nice itol tol bnrm i s : bicg_shape s ->
  nice (step_ok bicg_shape) (bicg_body mulA mulAT n itol tol bnrm i s).
Proof.
  intros (Lx & Lr & Lrr & Lz & Lzz & Lp & Lpp). unfold bicg_body. cbv zeta.
  nstep. nstep.
  eapply (nice_bind (fun pq : list F * list F => length (fst pq) = n /\ length (snd pq) = n)).
  { destruct (i =? 1); [cbn; auto|]. nstep. nstep. nstep. cbn; auto. }
  intros [p pp] [Hp Hpp]. cbn [fst snd] in Hp, Hpp.
  nstep. nstep. nstep. nstep. nstep. nstep. nstep. nstep.
  eapply (nice_bind (fun _ => True)); [destruct (itol =? 1); [apply nice_div | exact I]|]. intros e1 _.
  eapply (nice_bind (fun _ => True)); [destruct (itol =? 2); [apply nice_div | exact I]|]. intros e2 _.
  nstep; repeat split; simpl; lens.
Qed.

Lemma solve_bicg_nice itol (b x : list F) max tol : length b = n -> length x = n -> itol = 1 \/ itol = 2 ->
  nice (fun _ => True) (solve_bicg mulA mulAT n n itol b x max tol).
Proof.
  intros Hb Hx Hit. unfold solve_bicg, bicg_start, guards.
  rewrite Hb, Hx, !Nat.eqb_refl. cbn [negb bind]. rewrite !bind_assoc. cbv zeta.
  nstep. rewrite !bind_assoc. nstep. rewrite !bind_assoc.
  eapply (nice_bind (fun bz : F * list F => length (snd bz) = n)).
  { destruct Hit as [-> | ->]; cbn [Nat.eqb].
    - nstep. cbn. assumption.
    - nstep. nstep. cbn. assumption. }
  intros [bnrm z] Hz. cbn [snd] in Hz. cbn [bind fst snd]. cbv zeta.
  nstep. nstep; [exact I|].
  apply (nice_iloop bicg_shape); [intros; now apply bicg_body_nice|].
  repeat split; simpl; lens.
Qed.

(* ---------------- BiCGSTAB ---------------- *)
Definition stab_shape (s : @stab_st A) : Prop :=
  length (st_x s) = n /\ length (st_r s) = n /\ length (st_p s) = n /\ length (st_phat s) = n /\
  length (st_shat s) = n /\ length (st_v s) = n.

Lemma stab_body_nice rtilde tol normb i s : length rtilde = n -> stab_shape s ->
  nice (step_ok stab_shape) (stab_body mulA n rtilde tol normb i s).
Proof.
  intros Lt (Lx & Lr & Lp & Lph & Lsh & Lv). unfold stab_body. cbv zeta.
  nstep. nstep.
  { nstep. exact I. }
  eapply (nice_bind len_n).
  { destruct (i =? 1); [assumption|]. nstep. nstep. nstep. apply nice_vadd; lens. }
  intros p Hp.
  nstep. nstep. nstep. nstep. nstep. nstep. nstep.
  { nstep. exact I. }
  nstep. nstep. nstep. nstep. nstep. nstep. nstep. nstep. nstep.
  nstep; [exact I|]. nstep; [exact I|]. repeat split; simpl; lens.
Qed.

Lemma solve_bicgstab_nice (b x : list F) max tol : length b = n -> length x = n ->
  nice (fun _ => True) (solve_bicgstab mulA n n b x max tol).
Proof.
  intros Hb Hx. unfold solve_bicgstab, guards. rewrite Hb, Hx, !Nat.eqb_refl. cbn [negb bind]. cbv zeta.
  nstep. nstep. nstep. nstep; [exact I|].
  apply (nice_iloop stab_shape); [intros; apply stab_body_nice; assumption|].
  repeat split; simpl; lens.
Qed.

(* ---------------- QMR ---------------- *)
Definition qmr_shape (s : @qmr_st A) : Prop :=
  length (q_x s) = n /\ length (q_r s) = n /\ length (q_vt s) = n /\ length (q_y s) = n /\ length (q_wt s) = n /\
  length (q_z s) = n /\ length (q_p s) = n /\ length (q_q s) = n /\ length (q_d s) = n /\ length (q_s s) = n.

Lemma qmr_body_nice tol normb i s : qmr_shape s -> nice (step_ok qmr_shape) (qmr_body mulA mulAT tol normb i s).
Proof.
  intros (Lx & Lr & Lvt & Ly & Lwt & Lz & Lp & Lq & Ld & Ls). unfold qmr_body. cbv zeta.
  nstep; [exact I|]. nstep; [exact I|].
  nstep. nstep. nstep. nstep. nstep. nstep; [exact I|].
  eapply (nice_bind (fun pq : list F * list F => length (fst pq) = n /\ length (snd pq) = n)).
  { destruct (1 <? i); [|cbn; auto]. nstep. nstep. nstep. nstep. cbn; auto. }
  intros [p q] [Hp Hq]. cbn [fst snd] in Hp, Hq.
  nstep. nstep. nstep; [exact I|]. nstep. nstep; [exact I|].
  nstep. nstep. nstep. nstep. nstep. nstep; [exact I|]. nstep.
  eapply (nice_bind (fun pq : list F * list F => length (fst pq) = n /\ length (snd pq) = n)).
  { destruct (1 <? i); [|cbn; split; lens]. nstep. nstep. cbn; auto. }
  intros [d sv] [Hd Hsv]. cbn [fst snd] in Hd, Hsv.
  nstep. nstep. nstep. nstep; repeat split; simpl; lens.
Qed.

Lemma solve_qmr_nice (b x : list F) max tol : length b = n -> length x = n ->
  nice (fun _ => True) (solve_qmr mulA mulAT n n b x max tol).
Proof.
  intros Hb Hx. unfold solve_qmr, guards. rewrite Hb, Hx, !Nat.eqb_refl. cbn [negb bind]. cbv zeta.
  nstep. nstep. nstep. nstep; [exact I|].
  apply (nice_iloop qmr_shape); [intros; now apply qmr_body_nice|].
  repeat split; simpl; lens.
Qed.

End Dim.
End Nice.

(* ---------------- the solvers on a CSC receiver ---------------- *)
Section SolverAccepts.
Context {S : SArith}.
Notation F := (T (SA S)).
Notation sparse := (sparse (SA S)).
Implicit Types s : sparse.
Notation Zn n := (Z.of_nat n).
Notation Zl l := (Z.of_nat (length l)).
Variable Kd : pkind -> Prop.
Hypothesis Hdiv : forall (x y : F) k, div x y = Panic k -> Kd k.

Lemma sp_mul_shape s : wfS s -> sp_rows s = sp_cols s ->
  forall v : list F, length v = sp_rows s -> exists w, sp_mul s v = Ok w /\ length w = sp_rows s.
Proof.
  intros W Sq v Hv. rewrite (SparseMul.sp_mul_fold s v W) by congruence.
  eexists; split; [reflexivity|]. now rewrite SparseMul.scat_length, repeat_length.
Qed.
Lemma sp_tmul_shape s : wfS s -> sp_rows s = sp_cols s ->
  forall v : list F, length v = sp_rows s -> exists w, sp_tmul s v = Ok w /\ length w = sp_rows s.
Proof.
  intros W Sq v Hv. rewrite (SparseMul.sp_tmul_fold s v W) by congruence.
  eexists; split; [reflexivity|]. rewrite SparseMul.scat_length, repeat_length. congruence.
Qed.

Lemma nice_panic {X} (r : res X) : nice Kd (fun _ => True) r -> forall k, r = Panic k -> Kd k.
Proof. intros H k ->. exact H. Qed.

Lemma accepts_sp_solve_cg s (b x : list F) max tol : wfS s ->
  g_sp_solve_cg (Zn (sp_rows s)) (Zn (sp_cols s)) (Zl b) (Zl x) = false ->
  forall k, solve_cg (sp_mul s) (sp_rows s) (sp_cols s) b x max tol = Panic k -> Kd k.
Proof.
  intros W H. g_false H guard_sp_solve_cg_lemma ok_sp_solve_cg.
  assert (Sq : sp_rows s = sp_cols s) by lia. rewrite <- Sq.
  apply nice_panic. apply (solve_cg_nice Kd Hdiv (sp_rows s) (sp_mul s) (sp_mul_shape s W Sq)); lia.
Qed.

Lemma accepts_sp_solve_bicgstab s (b x : list F) max tol : wfS s ->
  g_sp_solve_bicgstab (Zn (sp_rows s)) (Zn (sp_cols s)) (Zl b) (Zl x) = false ->
  forall k, solve_bicgstab (sp_mul s) (sp_rows s) (sp_cols s) b x max tol = Panic k -> Kd k.
Proof.
  intros W H. g_false H guard_sp_solve_bicgstab_lemma ok_sp_solve_bicgstab.
  assert (Sq : sp_rows s = sp_cols s) by lia. rewrite <- Sq.
  apply nice_panic. apply (solve_bicgstab_nice Kd Hdiv (sp_rows s) (sp_mul s) (sp_mul_shape s W Sq)); lia.
Qed.

Lemma accepts_sp_solve_qmr s (b x : list F) max tol : wfS s ->
  g_sp_solve_qmr (Zn (sp_rows s)) (Zn (sp_cols s)) (Zl b) (Zl x) = false ->
  forall k, solve_qmr (sp_mul s) (sp_tmul s) (sp_rows s) (sp_cols s) b x max tol = Panic k -> Kd k.
Proof.
  intros W H. g_false H guard_sp_solve_qmr_lemma ok_sp_solve_qmr.
  assert (Sq : sp_rows s = sp_cols s) by lia. rewrite <- Sq.
  apply nice_panic.
  apply (solve_qmr_nice Kd Hdiv (sp_rows s) (sp_mul s) (sp_tmul s) (sp_mul_shape s W Sq) (sp_tmul_shape s W Sq)); lia.
Qed.

Lemma accepts_sp_solve_bicg s itol (b x : list F) max tol : wfS s ->
  g_sp_solve_bicg (Zn (sp_rows s)) (Zn (sp_cols s)) (Zl b) (Zl x) (Zn itol) = false ->
  forall k, solve_bicg (sp_mul s) (sp_tmul s) (sp_rows s) (sp_cols s) itol b x max tol = Panic k -> Kd k.
Proof.
  intros W H. g_false H guard_sp_solve_bicg_lemma ok_sp_solve_bicg.
  assert (Sq : sp_rows s = sp_cols s) by lia. rewrite <- Sq.
  apply nice_panic.
  apply (solve_bicg_nice Kd Hdiv (sp_rows s) (sp_mul s) (sp_tmul s) (sp_mul_shape s W Sq) (sp_tmul_shape s W Sq)); lia.
Qed.

End SolverAccepts.

(* when the division of the arithmetic never panics (f64, Complex<f64>): every accepted call RETURNS *)
Lemma total_div_returns {X} (r : res X) : (forall k, r = Panic k -> False) -> exists o, r = Ok o.
Proof. destruct r as [o|k]; [eauto|]. intros H. destruct (H k eq_refl). Qed.
