(* Proofs/Newton2DiagFD.v -- C17 over the reals: Newton<Vec64>::solve (FINITE-DIFFERENCE Jacobian) on decoupled
   nonlinear systems of ANY dimension  F(x)_i = f_i(x_i), i < dim  (package newton2).

   jacobian_decoupled   Mat64::jacobian of a decoupled map is EXACTLY diagonal over R: the off-diagonal forward
                        quotients are (f_i(x_i) - f_i(x_i)) / delta = 0, the diagonal ones (f_i(x_i + delta) - f_i(x_i)) / delta;
   fd_diag_pass         the pass of newton_sys: x'_i = x_i - f_i(x_i) / fdq_i, test max_i |f_i(x_i)| <= tol;
   Section AbstractBasin  a sup-norm basin argument for ANY pass function whose update obeys
                        |x'_i - r_i| <= (L/m) |x_i - r_i| (|x_i - r_i| + e0) and whose test is max_i |f_i(x_i)| <= tol;
   newton_fd_decoupled_*  its instance for the finite-difference system solve (e0 = |delta|):
                        no panic, contraction by q = (L/m)(rho + |delta|), Ok once Mb q^N rho <= tol and N < max_iter,
                        every Ok answer within (L/m)(tol/m)(tol/m + |delta|) of the root, componentwise. *)
From Coq Require Import List Arith Lia Reals Lra Psatz.
From OV Require Import Base.Panic Base.Arith Model.Vector Model.Matrix Model.Solve Model.Newton
  Proofs.Matrix Proofs.SolveBase Proofs.Solve Proofs.SolveComplete
  Proofs.NewtonLoop Proofs.Newton Proofs.NewtonJac Proofs.NewtonReal
  Proofs.Newton2Real Proofs.Newton2Scalar Proofs.Newton2Mono Proofs.Newton2Sys1d Proofs.Newton2Diag.
Import ListNotations.
Local Open Scope R_scope.

Lemma ent_of_mget (J : matrix AR) i j (q : R) : mget J i j = Ok q -> ent J i j = q.
Proof.
  unfold mget, ent. intros H. apply (rd_Ok_inv _ _ _ (@zero AR)) in H as [_ ->]. reflexivity.
Qed.

Section FDDecoupled.
Variables (dim : nat) (f : nat -> R -> R) (F : list R -> res (list R)).
Hypothesis Hdim : (1 <= dim)%nat.
Hypothesis HF : forall x, length x = dim ->
  exists v, F x = Ok v /\ length v = dim /\ forall i, (i < dim)%nat -> nth i v 0 = f i (nth i x 0).

Lemma jacobian_decoupled x d : length x = dim -> d <> 0 ->
  exists J evs, jacobian NRl F x d = Ok (J, evs) /\ wf J /\ rows J = dim /\ cols J = dim /\
    forall i j, (i < dim)%nat -> (j < dim)%nat ->
      ent J i j = if (i =? j)%nat then fdq (f i) (nth i x 0) d else 0.
Proof.
  intros Lx Hd.
  destruct (jacobian_shape_lemma NRl F x d dim) as (J & evs & EJ & WJ & RJ & CJ & _).
  - intros y Ly. destruct (HF y (eq_trans Ly Lx)) as (v & E & Lv & _). eauto.
  - intros u. exists (u / d). apply R_div_ok. exact Hd.
  - exists J, evs. split; [exact EJ|]. split; [exact WJ|]. split; [exact RJ|]. split; [congruence|].
    intros i j Hi Hj.
    destruct (jacobian_entry_lemma NRl (nw_ring_laws NRl ARn_FieldLaws) F x d J evs EJ) as (f0 & E0 & Rw & _ & Hent).
    destruct (HF x Lx) as (v0 & E0' & Lv0 & Hv0).
    assert (f0 = v0) by congruence. subst f0.
    assert (Hi' : (i < length v0)%nat) by (rewrite Lv0; exact Hi).
    assert (Hj' : (j < length x)%nat) by (rewrite Lx; exact Hj).
    destruct (Hent i j Hi' Hj') as (fj & q & Ej & Eq & Em).
    pose proof (ent_of_mget J i j q Em) as EQ.
    cbn in Eq. rewrite R_div_ok in Eq by exact Hd. injection Eq as <-.
    assert (Lp : length (perturbed NRl x d j) = dim) by (unfold perturbed; rewrite upd_list_length; exact Lx).
    destruct (HF _ Lp) as (vj & Ej' & _ & Hvj).
    assert (fj = vj) by congruence. subst fj.
    pose proof (Hvj i Hi) as E1. pose proof (Hv0 i Hi) as E2.
    assert (G : (nth i vj 0 - nth i v0 0) / d = if (i =? j)%nat then fdq (f i) (nth i x 0) d else 0).
    { rewrite E1, E2. unfold perturbed. rewrite (nth_upd_list x j i _ 0 Hj').
      destruct (Nat.eqb_spec i j) as [->|Hne].
      - unfold fdq. reflexivity.
      - unfold Rminus. rewrite Rplus_opp_r. unfold Rdiv. ring. }
    exact (eq_trans EQ G).
Qed.

Lemma fd_diag_pass tl d x : length x = dim -> d <> 0 ->
  (forall i, (i < dim)%nat -> fdq (f i) (nth i x 0) d <> 0) ->
  exists x' mr e, sys_step NRl tl d F x = Ok (x', R_leb mr tl, e) /\ length x' = dim /\
    (forall i, (i < dim)%nat -> nth i x' 0 = nth i x 0 - f i (nth i x 0) / fdq (f i) (nth i x 0) d) /\
    (forall i, (i < dim)%nat -> Rabs (f i (nth i x 0)) <= mr) /\
    (exists i, (i < dim)%nat /\ mr = Rabs (f i (nth i x 0))).
Proof.
  intros Lx Hd HD.
  destruct (HF x Lx) as (v & EF & Lv & Hv).
  destruct (jacobian_decoupled x d Lx Hd) as (J & jev & EJ & W & Hr & Hc & HE).
  assert (Hlv : (0 < length v)%nat) by lia.
  destruct (norm_inf_R_spec v Hlv) as (mr & EN & Hmax & (k & Hk & Ek)).
  destruct (solve_diag J v dim (fun i => fdq (f i) (nth i x 0) d) W Hr Hc Hdim Lv HE HD) as (dx & ES & Ldx & Hdx).
  exists (@zipw AR (@sub AR) x dx), mr, (x :: jev). split.
  - exact (sys_step_eq NRl tl d F x v mr J jev dx EF EN EJ ES (eq_trans Lx (eq_sym Ldx))).
  - split; [rewrite nw_zipw_length; [exact Lx|transitivity dim; [exact Lx|symmetry; exact Ldx]]|]. split; [|split].
    + intros i Hi.
      assert (Hix : (i < length x)%nat) by (rewrite Lx; exact Hi).
      assert (Hidx : (i < length dx)%nat) by (rewrite Ldx; exact Hi).
      change 0 with (@zero AR) at 1. rewrite nw_zipw_nth; [|exact Hix|exact Hidx].
      pose proof (Hdx i Hi) as E1. pose proof (Hv i Hi) as E2.
      assert (G : nth i x 0 - nth i dx 0 = nth i x 0 - f i (nth i x 0) / fdq (f i) (nth i x 0) d)
        by (rewrite E1, E2; reflexivity).
      exact G.
    + intros i Hi. assert (Hiv : (i < length v)%nat) by (rewrite Lv; exact Hi).
      pose proof (Hmax i Hiv) as G. pose proof (Hv i Hi) as E2.
      assert (G' : Rabs (nth i v 0) <= mr) by exact G. rewrite E2 in G'. exact G'.
    + assert (Hkd : (k < dim)%nat) by (rewrite <- Lv; exact Hk).
      exists k. split; [exact Hkd|]. pose proof (Hv k Hkd) as E2.
      assert (G' : mr = Rabs (nth k v 0)) by exact Ek. rewrite E2 in G'. exact G'.
Qed.

End FDDecoupled.

(* ====================================================================================== *)
(* sup-norm basin for an abstract pass                                                     *)
(* ====================================================================================== *)
Section AbstractBasin.
Context {E : Type}.
Variables (dim : nat) (f f' : nat -> R -> R) (a b r : nat -> R) (m Mb L rho e0 tl : R).
Variable step : list R -> res (list R * bool * list E).
Hypothesis Hder : forall i, (i < dim)%nat -> forall c, a i <= c <= b i -> derivable_pt_lim (f i) c (f' i c).
Hypothesis Hm : 0 < m.
Hypothesis HL : 0 <= L.
Hypothesis Hlo : forall i, (i < dim)%nat -> forall c, a i <= c <= b i -> m <= Rabs (f' i c).
Hypothesis Hhi : forall i, (i < dim)%nat -> forall c, a i <= c <= b i -> Rabs (f' i c) <= Mb.
Hypothesis Hroot : forall i, (i < dim)%nat -> f i (r i) = 0.
Hypothesis Hrho : 0 <= rho.
Hypothesis He0 : 0 <= e0.
Hypothesis Hin : forall i, (i < dim)%nat -> a i <= r i - rho - e0 /\ r i + rho + e0 <= b i.
Notation q := (L / m * (rho + e0)).
Hypothesis Hq : q < 1.

Definition ballr (e : R) (x : list R) : Prop :=
  length x = dim /\ forall i, (i < dim)%nat -> Rabs (nth i x 0 - r i) <= e.

(* what is assumed of the pass: total on the ball of radius rho, Newton-like update, residual test *)
Hypothesis Hpass : forall x, ballr rho x ->
  exists x' mr ev, step x = Ok (x', R_leb mr tl, ev) /\ length x' = dim /\
    (forall i, (i < dim)%nat ->
       Rabs (nth i x' 0 - r i) <= L / m * (Rabs (nth i x 0 - r i) * (Rabs (nth i x 0 - r i) + e0))) /\
    (forall i, (i < dim)%nat -> Rabs (f i (nth i x 0)) <= mr) /\
    (exists i, (i < dim)%nat /\ mr = Rabs (f i (nth i x 0))).

Lemma qa_nonneg : 0 <= q.
Proof.
  apply Rmult_le_pos; [|lra]. unfold Rdiv. apply Rmult_le_pos; [exact HL|]. left. now apply Rinv_0_lt_compat.
Qed.

Lemma HLm_a : 0 <= L / m.
Proof. unfold Rdiv. apply Rmult_le_pos; [exact HL|]. left. now apply Rinv_0_lt_compat. Qed.

Lemma resid_bounds i y : (i < dim)%nat -> Rabs (y - r i) <= rho ->
  Rabs (f i y) <= Mb * Rabs (y - r i) /\ m * Rabs (y - r i) <= Rabs (f i y) /\ 0 < Mb.
Proof.
  intros Hi Hy. destruct (Hin i Hi) as [Ha Hb].
  assert (Hyi : a i <= y <= b i) by (unfold Rabs in Hy; destruct (Rcase_abs (y - r i)); lra).
  assert (Hri : a i <= r i <= b i) by lra.
  destruct (root_mvt (f i) (f' i) (a i) (b i) (Hder i Hi) (r i) Hri (Hroot i Hi) y Hyi) as (xi & Hxi & _ & Ef).
  rewrite Ef, Rabs_mult. pose proof (Hlo i Hi xi Hxi). pose proof (Hhi i Hi xi Hxi).
  pose proof (Rabs_pos (y - r i)). repeat split; first [nra|lra].
Qed.

Lemma ballr_weaken e e' x : e <= e' -> ballr e x -> ballr e' x.
Proof. intros He [Lx Hx]. split; [exact Lx|]. intros i Hi. specialize (Hx i Hi). lra. Qed.

Lemma abs_pass e x : e <= rho -> ballr e x ->
  exists x' bt ev, step x = Ok (x', bt, ev) /\ ballr (q * e) x' /\
    (forall i, (i < dim)%nat ->
       Rabs (nth i x' 0 - r i) <= L / m * (Rabs (nth i x 0 - r i) * (Rabs (nth i x 0 - r i) + e0))) /\
    (bt = false -> tl < Mb * e) /\
    (bt = true -> forall i, (i < dim)%nat -> Rabs (nth i x 0 - r i) <= tl / m).
Proof.
  intros He Hb. pose proof Hb as [Lx Hx].
  destruct (Hpass x (ballr_weaken e rho x He Hb)) as (x' & mr & ev & Es & Lx' & Hup & Hmax & (k & Hk & Ek)).
  exists x', (R_leb mr tl), ev. split; [exact Es|].
  pose proof HLm_a as HLm.
  split; [|split; [exact Hup|split]].
  - split; [exact Lx'|]. intros i Hi. eapply Rle_trans; [apply Hup; exact Hi|].
    specialize (Hx i Hi). pose proof (Rabs_pos (nth i x 0 - r i)) as HA.
    replace (L / m * (rho + e0) * e) with (L / m * (e * (rho + e0))) by ring.
    apply Rmult_le_compat_l; [exact HLm|]. apply Rmult_le_compat; lra.
  - intros Hf. apply R_leb_false in Hf. rewrite Ek in Hf.
    specialize (Hx k Hk). destruct (resid_bounds k (nth k x 0) Hk ltac:(lra)) as (H3 & _ & HMb).
    assert (Mb * Rabs (nth k x 0 - r k) <= Mb * e) by (apply Rmult_le_compat_l; lra). lra.
  - intros Ht. apply R_leb_true in Ht. intros i Hi. specialize (Hx i Hi).
    destruct (resid_bounds i (nth i x 0) Hi ltac:(lra)) as (_ & H4 & _). specialize (Hmax i Hi).
    apply (Rmult_le_reg_l m); [exact Hm|].
    assert (Em : m * (tl / m) = tl) by (field; lra). rewrite Em. lra.
Qed.

Lemma qa_le e : 0 <= e -> q * e <= e.
Proof. intros He. pose proof qa_nonneg. nra. Qed.

Lemma abs_total n x0 evs0 : ballr rho x0 -> exists res evs, nloop step n x0 evs0 = Ok (res, evs).
Proof.
  intros H0. apply (nloop_total _ (ballr rho)); [|exact H0].
  intros x Hx. destruct (abs_pass rho x (Rle_refl rho) Hx) as (x' & bt & ev & Es & Hb & _).
  do 3 eexists. split; [exact Es|]. eapply ballr_weaken; [|exact Hb]. apply qa_le. exact Hrho.
Qed.

Lemma abs_run k x xk es :
  run step k x xk es -> forall e, 0 <= e <= rho -> ballr e x -> ballr (q ^ k * e) xk.
Proof.
  induction 1 as [x|k x x1 xk ev es P Rn IH]; intros e He H0.
  - cbn. eapply ballr_weaken; [|exact H0]. lra.
  - unfold pass in P. destruct (abs_pass e x (proj2 He) H0) as (x1' & bt & ev' & Es & Hb & _).
    pose proof (eq_trans (eq_sym Es) P) as Q. injection Q as -> _ _.
    pose proof qa_nonneg as Hq0. pose proof (qa_le e (proj1 He)).
    assert (He' : 0 <= q * e <= rho) by (split; [apply Rmult_le_pos; lra|lra]).
    specialize (IH (q * e) He' Hb). cbn [pow].
    replace (q * q ^ k * e) with (q ^ k * (q * e)) by ring. exact IH.
Qed.

Lemma qpow_le k : q ^ k * rho <= rho.
Proof.
  pose proof qa_nonneg as Hq0.
  assert (q ^ k <= 1) by (rewrite <- (pow1 k); apply pow_incr; lra). nra.
Qed.

Lemma abs_ok_close n x0 x evs : ballr rho x0 ->
  nloop step n x0 [] = Ok (NOk x, evs) ->
  ballr rho x /\ forall i, (i < dim)%nat -> Rabs (nth i x 0 - r i) <= L / m * (tl / m * (tl / m + e0)).
Proof.
  intros H0 H.
  apply nloop_spec in H as [(es & x' & Hx & _)|(k & es & xk & x' & e & Hx & Hk & Rn & P & _)]; [discriminate|].
  injection Hx as <-.
  pose proof (abs_run _ _ _ _ Rn rho (conj Hrho (Rle_refl rho)) H0) as Hk'.
  assert (Hxk : ballr rho xk) by (eapply ballr_weaken; [apply (qpow_le k)|exact Hk']).
  unfold pass in P. destruct (abs_pass rho xk (Rle_refl rho) Hxk) as (x1 & bt & ev & Es & Hb & Hup & _ & Ht).
  pose proof (eq_trans (eq_sym Es) P) as Q. injection Q as -> -> _.
  split; [eapply ballr_weaken; [|exact Hb]; apply qa_le; exact Hrho|].
  intros i Hi. eapply Rle_trans; [apply Hup; exact Hi|].
  specialize (Ht eq_refl i Hi). pose proof HLm_a as HLm.
  apply Rmult_le_compat_l; [exact HLm|].
  assert (G : forall A T : R, 0 <= A <= T -> A * (A + e0) <= T * (T + e0)) by (intros A T HAT; nra).
  apply G. split; [apply Rabs_pos|exact Ht].
Qed.

Lemma abs_ok N n x0 : ballr rho x0 -> Mb * (q ^ N * rho) <= tl -> (N < n)%nat ->
  exists x evs, nloop step n x0 [] = Ok (NOk x, evs) /\
    ballr rho x /\ forall i, (i < dim)%nat -> Rabs (nth i x 0 - r i) <= L / m * (tl / m * (tl / m + e0)).
Proof.
  intros H0 HN Hn. destruct (abs_total n x0 [] H0) as (res & evs & H).
  destruct res as [x|x].
  - exists x, evs. split; [exact H|]. exact (abs_ok_close n x0 x evs H0 H).
  - exfalso.
    apply nloop_spec in H as [(es & x' & _ & Rn & _)|(k & es & xk & x' & e & Hx & _)]; [|discriminate].
    destruct (run_prefix _ _ _ _ _ N Rn Hn) as (xj & x1 & e1 & Rj & Pj).
    pose proof (abs_run _ _ _ _ Rj rho (conj Hrho (Rle_refl rho)) H0) as Hj.
    unfold pass in Pj.
    destruct (abs_pass (q ^ N * rho) xj (qpow_le N) Hj) as (x2 & bt & ev & Es & _ & _ & Hf & _).
    pose proof (eq_trans (eq_sym Es) Pj) as Q. injection Q as _ -> _. specialize (Hf eq_refl). lra.
Qed.

End AbstractBasin.

(* ====================================================================================== *)
(* the finite-difference system solve on decoupled systems                                 *)
(* ====================================================================================== *)
Section FDBasin.
Variables (dim : nat) (f f' : nat -> R -> R) (F : list R -> res (list R)).
Hypothesis Hdim : (1 <= dim)%nat.
Hypothesis HF : forall x, length x = dim ->
  exists v, F x = Ok v /\ length v = dim /\ forall i, (i < dim)%nat -> nth i v 0 = f i (nth i x 0).
Variables (a b r : nat -> R) (m Mb L rho tl dl : R).
Hypothesis Hder : forall i, (i < dim)%nat -> forall c, a i <= c <= b i -> derivable_pt_lim (f i) c (f' i c).
Hypothesis Hm : 0 < m.
Hypothesis HL : 0 <= L.
Hypothesis Hlo : forall i, (i < dim)%nat -> forall c, a i <= c <= b i -> m <= Rabs (f' i c).
Hypothesis Hhi : forall i, (i < dim)%nat -> forall c, a i <= c <= b i -> Rabs (f' i c) <= Mb.
Hypothesis Hlip : forall i, (i < dim)%nat -> forall u v, a i <= u <= b i -> a i <= v <= b i ->
  Rabs (f' i u - f' i v) <= L * Rabs (u - v).
Hypothesis Hroot : forall i, (i < dim)%nat -> f i (r i) = 0.
Hypothesis Hrho : 0 <= rho.
Hypothesis Hdl : dl <> 0.
Hypothesis Hin : forall i, (i < dim)%nat -> a i <= r i - rho - Rabs dl /\ r i + rho + Rabs dl <= b i.
Hypothesis Hq : L / m * (rho + Rabs dl) < 1.

Lemma fd_pass_ok x : ballr dim r rho x ->
  exists x' mr ev, sys_step NRl tl dl F x = Ok (x', R_leb mr tl, ev) /\ length x' = dim /\
    (forall i, (i < dim)%nat ->
       Rabs (nth i x' 0 - r i) <= L / m * (Rabs (nth i x 0 - r i) * (Rabs (nth i x 0 - r i) + Rabs dl))) /\
    (forall i, (i < dim)%nat -> Rabs (f i (nth i x 0)) <= mr) /\
    (exists i, (i < dim)%nat /\ mr = Rabs (f i (nth i x 0))).
Proof.
  intros [Lx Hx].
  assert (Hc : forall i, (i < dim)%nat ->
            fdq (f i) (nth i x 0) dl <> 0 /\
            Rabs (nth i x 0 - f i (nth i x 0) / fdq (f i) (nth i x 0) dl - r i) <=
              L / m * (Rabs (nth i x 0 - r i) * (Rabs (nth i x 0 - r i) + Rabs dl))).
  { intros i Hi. specialize (Hx i Hi). destruct (Hin i Hi) as [Ha Hb].
    assert (Hri : a i <= r i <= b i) by (pose proof (Rabs_pos dl); lra).
    assert (Hya : a i <= nth i x 0 - Rabs dl /\ nth i x 0 + Rabs dl <= b i)
      by (unfold Rabs in Hx; destruct (Rcase_abs (nth i x 0 - r i)); lra).
    destruct (fwd_pass_err (f i) (f' i) (a i) (b i) m Mb L (r i) (Hder i Hi) Hm HL (Hlo i Hi) (Hhi i Hi)
                (Hlip i Hi) Hri (Hroot i Hi) (nth i x 0) dl Hdl (proj1 Hya) (proj2 Hya)) as (N & H1 & _).
    split; [exact N|exact H1]. }
  destruct (fd_diag_pass dim f F Hdim HF tl dl x Lx Hdl (fun i Hi => proj1 (Hc i Hi)))
    as (x' & mr & ev & Es & Lx' & Hx' & Hmax & Hk).
  exists x', mr, ev. split; [exact Es|]. split; [exact Lx'|]. split; [|split; [exact Hmax|exact Hk]].
  intros i Hi. rewrite (Hx' i Hi). exact (proj2 (Hc i Hi)).
Qed.

Lemma newton_fd_decoupled_total_lemma n x0 : ballr dim r rho x0 ->
  exists res evs, newton_sys NRl (mkCfg tl dl n x0) F = Ok (res, evs).
Proof.
  intros H0. unfold newton_sys. cbn [tol delta max_iter guess].
  exact (abs_total dim f f' a b r m Mb L rho (Rabs dl) tl (sys_step NRl tl dl F)
           Hder Hm HL Hlo Hhi Hroot Hrho (Rabs_pos dl) Hin Hq fd_pass_ok n x0 [] H0).
Qed.

Lemma newton_fd_decoupled_ok_close_lemma n x0 x evs : ballr dim r rho x0 ->
  newton_sys NRl (mkCfg tl dl n x0) F = Ok (NOk x, evs) ->
  ballr dim r rho x /\
  forall i, (i < dim)%nat -> Rabs (nth i x 0 - r i) <= L / m * (tl / m * (tl / m + Rabs dl)).
Proof.
  intros H0 H. unfold newton_sys in H. cbn [tol delta max_iter guess] in H.
  exact (abs_ok_close dim f f' a b r m Mb L rho (Rabs dl) tl (sys_step NRl tl dl F)
           Hder Hm HL Hlo Hhi Hroot Hrho (Rabs_pos dl) Hin Hq fd_pass_ok n x0 x evs H0 H).
Qed.

Lemma newton_fd_decoupled_ok_lemma N n x0 : ballr dim r rho x0 ->
  Mb * ((L / m * (rho + Rabs dl)) ^ N * rho) <= tl -> (N < n)%nat ->
  exists x evs, newton_sys NRl (mkCfg tl dl n x0) F = Ok (NOk x, evs) /\
    ballr dim r rho x /\
    forall i, (i < dim)%nat -> Rabs (nth i x 0 - r i) <= L / m * (tl / m * (tl / m + Rabs dl)).
Proof.
  intros H0 HN Hn. unfold newton_sys. cbn [tol delta max_iter guess].
  exact (abs_ok dim f f' a b r m Mb L rho (Rabs dl) tl (sys_step NRl tl dl F)
           Hder Hm HL Hlo Hhi Hroot Hrho (Rabs_pos dl) Hin Hq fd_pass_ok N n x0 H0 HN Hn).
Qed.

End FDBasin.
