(* Proofs/SolveAgree.v -- the two dense solvers agree: assembled from package c01 (solve_basic_sound, uniqueness,
   Proofs/Solve.v) and package c02 (solve_lu_sound_lemma, Proofs/LUSolve.v).  The two packages define `ent`, `mvprod`
   and `left_inverse` twice with identical bodies (SolveBase / LUPrim); the statements below use c01's and convert. *)
From Coq Require Import List Arith Lia.
From OV Require Import Base.Panic Base.Arith Model.Vector Model.Matrix Model.Solve Proofs.Matrix.
From OV Require Proofs.SolveBase Proofs.Solve Proofs.LUPrim Proofs.LUSolve Proofs.LUKernel.

Section Agree.
Context {A : Arith}.

Lemma solve_lu_sound_c01form (FL : FieldLaws A) (PL : LUPrim.PivLaws A) (M : matrix A) (b x : list A) :
  wf M -> rows M = cols M -> length b = rows M -> solve_lu M b = Ok x ->
  length x = rows M /\
  forall i, i < rows M -> SolveBase.mvprod (rows M) (SolveBase.ent M) (fun k => nth k x zero) i = nth i b zero.
Proof. exact (LUSolve.solve_lu_sound_lemma FL PL M b x). Qed.

Lemma solvers_agree_lemma (FL : FieldLaws A) (PL : LUPrim.PivLaws A) (M : matrix A) (b x y : list A) :
  wf M -> rows M = cols M -> length b = rows M ->
  (exists N : nat -> nat -> A, Solve.left_inverse (rows M) N (SolveBase.ent M)) ->
  solve_basic M b = Ok x -> solve_lu M b = Ok y -> x = y.
Proof.
  intros W Hsq Lb LI Ex Ey.
  apply (Solve.solvers_agree_from_lu_sound FL M b x y); auto.
  intros H. exact (solve_lu_sound_c01form FL PL M b y W Hsq Lb H).
Qed.

End Agree.
