(* Proofs/ComplexQc.v -- the hypotheses of the C13 theorems hold at the exact-tier instance AQ (Qc):
   non-vacuity witnesses and the corollaries for Complex<Rat>. *)
From Coq Require Import List ZArith QArith Qcanon Bool Ring_theory Field_theory Lia.
From OV Require Import Base.Panic Base.Arith Model.Complex Inst.QcInst Proofs.Complex.

Lemma AQ_ring : ring_theory (@zero AQ) one add mul sub neg eq.
Proof. exact (F_R AQ_field). Qed.

Lemma Qc_ltb_iff (x y : Qc) : Qc_ltb x y = true <-> (x < y)%Qc.
Proof.
  unfold Qc_ltb. rewrite Qclt_alt. destruct (x ?= y)%Qc; split; congruence.
Qed.

Lemma AQ_order : OrderLaws AQ.
Proof.
  constructor.
  - exact Qc_eqb_spec.
  - intros x. cbn. destruct (Qc_ltb x x) eqn:E; [|reflexivity].
    apply Qc_ltb_iff in E. exfalso. exact (Qclt_not_eq _ _ E eq_refl).
  - intros x y z. cbn. rewrite !Qc_ltb_iff. apply Qclt_trans.
  - intros x y. cbn. rewrite !Qc_ltb_iff.
    destruct (Qc_dec x y) as [[H|H]|H]; auto.
  - intros x y. cbn. unfold Qc_leb, Qc_ltb.
    destruct (x ?= y)%Qc eqn:E; cbn.
    + symmetry. apply Qc_eqb_spec. now apply Qceq_alt.
    + reflexivity.
    + destruct (Qc_eqb x y) eqn:E2; [|reflexivity].
      apply Qc_eqb_spec in E2. apply Qceq_alt in E2. congruence.
Qed.

(* Q is formally real: a sum of two squares vanishes only if both do *)
Lemma Qc_sq_nonneg (x : Qc) : (0 <= x * x)%Qc.
Proof.
  destruct (Qclt_le_dec x 0) as [H|H].
  - assert (K : (0 <= - x)%Qc).
    { apply Qclt_le_weak in H. apply Qcle_minus_iff in H. now rewrite Qcplus_0_l in H. }
    replace (x * x)%Qc with ((- x) * (- x))%Qc by ring.
    rewrite <- (Qcmult_0_l (- x)). now apply Qcmult_le_compat_r.
  - rewrite <- (Qcmult_0_l x). now apply Qcmult_le_compat_r.
Qed.

Lemma Qc_sum_sq_zero (x y : Qc) : (x * x + y * y = 0)%Qc -> x = 0%Qc /\ y = 0%Qc.
Proof.
  intros H. pose proof (Qc_sq_nonneg x) as Hx. pose proof (Qc_sq_nonneg y) as Hy.
  assert (Ex : (x * x)%Qc = 0%Qc).
  { apply Qcle_antisym; [|exact Hx].
    apply Qcle_minus_iff. replace (0 + - (x * x))%Qc with (y * y)%Qc; [exact Hy|].
    rewrite <- H. ring. }
  assert (Ey : (y * y)%Qc = 0%Qc) by (rewrite Ex in H; rewrite <- H; ring).
  split; [destruct (Qcmult_integral _ _ Ex) | destruct (Qcmult_integral _ _ Ey)]; assumption.
Qed.

Lemma abs_sqr_zero_Qc (w : cplx AQ) : abs_sqr w = zero <-> w = czero.
Proof.
  split.
  - intros H. destruct (Qc_sum_sq_zero _ _ H) as [H1 H2]. now apply cplx_ext.
  - intros ->. reflexivity.
Qed.

(* Complex<Rat>: division by any nonzero number is exact; division by 0+0i panics *)
Lemma cdiv_Qc_lemma (z w : cplx AQ) :
  (w <> czero -> exists q, cdiv z w = Ok q /\ cmul q w = z) /\
  (w = czero -> cdiv z w = Panic DivZero).
Proof.
  split.
  - intros H. destruct (cdiv_cancel_lemma AQ_FieldLaws z w) as (q & H1 & H2 & _).
    + intros E. apply H. now apply abs_sqr_zero_Qc.
    + eauto.
  - intros H. apply (cdiv_panics_iff_lemma AQ_FieldLaws). now apply abs_sqr_zero_Qc.
Qed.

(* ---- Complex<Rat> = Q[i] is a field: Q is formally real ---- *)
From OV Require Import Proofs.ComplexField.
From Coq Require Import Field.

Lemma AQ_formally_real : formally_real AQ.
Proof. intros x y H. exact (Qc_sum_sq_zero x y H). Qed.

Lemma complex_Qc_field_lemma :
  field_theory (@czero AQ) cone cadd cmul csub cneg (cdivt AQ_FieldLaws) (cinv AQ_FieldLaws) eq.
Proof. exact (complex_field_lemma AQ_FieldLaws AQ_formally_real). Qed.

(* the theory is usable by the `field` tactic *)
Add Field CQfield : complex_Qc_field_lemma.
Example field_tactic_on_complex_Qc (z w v : cplx AQ) :
  w <> czero -> v <> czero ->
  cadd (cdivt AQ_FieldLaws z w) (cdivt AQ_FieldLaws z v) = cdivt AQ_FieldLaws (cmul z (cadd w v)) (cmul w v).
Proof. intros Hw Hv. field. split; assumption. Qed.
