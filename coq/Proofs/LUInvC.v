(* Proofs/LUInvC.v -- completeness of inverse (and of solve_lu's back substitution): when no
   diagonal entry of U is zero nothing panics; in particular whenever the code's own determinant
   of M is a nonzero value, inverse M returns.  Stdlib style only. *)
From Coq Require Import List Arith Lia Bool Ring Ring_theory Field_theory.
From OV Require Import Base.Panic Base.Arith Model.Vector Model.Matrix Model.Solve
  Proofs.Matrix Proofs.LUPrim Proofs.LUSum Proofs.LU Proofs.LUSolve Proofs.LUInv.
Import ListNotations.
Local Open Scope arith_scope.

Section LUInvC.
Context {A : Arith} (FL : FieldLaws A) (PL : PivLaws A).
Add Ring Ar : (A_ring FL).
Notation matrix := (matrix A).

Lemma bwd_col_ok (LU Y : matrix) n j : shape LU n n -> shape Y n n -> j < n ->
  (forall i, i < n -> ent LU i i <> zero) ->
  exists Z, bwd_col LU n j Y = Ok Z.
Proof.
  intros SL SY Hj Hd. unfold bwd_col, for_rev. rewrite Nat.sub_0_r.
  destruct (for_rev_from_inv (fun (_ : nat) (Z : matrix) => shape Z n n) n 0
              (fun i inv =>
                let* inv := for_ (i + 1) n (fun k inv =>
                              let* kj := mget inv k j in
                              let* ij := mget inv i j in
                              let* a := mget LU i k in
                              mset inv i j (ij - a * kj)) inv in
                let* ij := mget inv i j in
                let* d := mget LU i i in
                let* q := div ij d in
                mset inv i j q) Y) as (Z & E & _); auto.
  - intros i s Hi Ss. cbn [Nat.add].
    destruct (for_inv (fun (_ : nat) (t : matrix) => shape t n n) (i + 1)%nat n
                (fun k inv =>
                  let* kj := mget inv k j in
                  let* ij := mget inv i j in
                  let* a := mget LU i k in
                  mset inv i j (ij - a * kj)) s) as (t & Et & St); auto; [lia| |].
    + intros k t Hk St.
      rewrite (mget_ok t n n k j St), (mget_ok t n n i j St), (mget_ok LU n n i k SL) by lia.
      cbn [bind].
      destruct (mset_ok t n n i j (ent t i j - ent LU i k * ent t k j) St) as (t1 & E1 & S1 & _); [lia|lia|].
      exists t1; auto.
    + rewrite Et. cbn [bind].
      rewrite (mget_ok t n n i j St), (mget_ok LU n n i i SL) by lia. cbn [bind].
      rewrite (div_ok FL) by (apply Hd; lia). cbn [bind].
      destruct (mset_ok t n n i j (ent t i j * LUSum.inv FL (ent LU i i)) St) as (t1 & E1 & S1 & _); [lia|lia|].
      exists t1; auto.
  - exists Z; auto.
Qed.

Lemma prod_n_zero n (f : nat -> A) i : i < n -> f i = zero -> prod_n n f = zero.
Proof.
  induction n as [|n IH]; intros Hi Hz; [lia|]. cbn [prod_n].
  destruct (Nat.eq_dec i n) as [->|Hn].
  - rewrite Hz. ring.
  - rewrite IH by (auto; lia). ring.
Qed.

Lemma inverse_complete_diag (M : matrix) n : shape M n n ->
  (forall LU piv P, lu_decomp M = Ok (LU, piv, P) -> forall i, i < n -> ent LU i i <> zero) ->
  exists N, inverse M = Ok N.
Proof.
  intros SH Hd. rewrite inverse_eq. destruct (SH) as (_ & Er & Ec).
  rewrite Er, Ec, Nat.eqb_refl. cbn [negb].
  destruct (lu_decomp_ok FL PL M n SH) as (LU & piv & P & sw & E & SL & SP & _).
  rewrite E. cbn [bind]. specialize (Hd LU piv P E).
  destruct (for_inv (fun (_ : nat) (X : matrix) => shape X n n) 0 n
              (fun j inv => let* inv := fwd_col LU n j inv in bwd_col LU n j inv) P)
    as (N & EN & _); auto; [lia| |].
  - intros j X Hj SX.
    destruct (fwd_col_ok FL LU X n j SL SX) as (Y & EY & SY & _); [lia|].
    rewrite EY. cbn [bind].
    destruct (bwd_col_ok LU Y n j SL SY) as (Z & EZ); auto; [lia|].
    exists Z; split; auto.
    now destruct (bwd_col_sound FL LU Y Z n j SL SY) as (SZ & _); [lia|auto|].
  - exists N; auto.
Qed.

(* the code's own determinant decides: a nonzero value means inverse returns *)
Lemma inverse_complete_lemma (M : matrix) (d : A) : wf M -> rows M = cols M ->
  determinant M = Ok d -> d <> zero -> exists N, inverse M = Ok N.
Proof.
  intros W Esq Hdet Hd.
  assert (SH : shape M (rows M) (rows M)) by (split; auto).
  apply (inverse_complete_diag M (rows M) SH).
  intros LU piv P E i Hi Hz.
  destruct (determinant_eq FL PL M (rows M) SH) as (LU' & piv' & P' & sw & E' & _ & _ & _ & _ & Hdet').
  rewrite E in E'. injection E' as <- <- <-.
  rewrite Hdet in Hdet'. injection Hdet' as ->.
  apply Hd. rewrite (prod_n_zero (rows M) (fun i => ent LU i i) i Hi Hz).
  destruct (Nat.even piv); ring.
Qed.

End LUInvC.
