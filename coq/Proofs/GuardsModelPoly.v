(* Proofs/GuardsModelPoly.v -- C20 entry contracts of the polynomial family (3 entries: Index, IndexMut of
   src/polynomial/arithmetic.rs and the degree guard of poly_solve in src/polynomial/mod.rs) on the model functions
   of Model/Poly.v and Model/Roots.v.
     roots (degree guard): rejected = exactly one coefficient (degree 0), for every root arithmetic.  The empty
       coefficient list is outside the table's precondition (1 <= len): there `coeffs.size() - 1` underflows.
       Accepted (two or more coefficients): the float instance with ANY table of libm results never indexes out
       of range and never underflows, in poly_solve, laguer, the deflation and the polishing pass (C10's
       float_roots_memory_safe); together with the rejection half: on the float instance the size-dependent panic
       of Polynomial::roots is the degree-0 guard and nothing else.  (`exists v, ... = Ok v` is NOT claimed: the
       libm-backed primitives are oracle parameters of the model.) *)
From Coq Require Import ZArith Bool Lia ZifyBool List Arith.
From OV Require Import Base.Panic Base.Arith Model.Poly Model.Roots gen.GuardTable Model.Guards
  Proofs.Guards Proofs.GuardsModelBase.
From OV Require Proofs.Roots Proofs.RootsSafe.
Import ListNotations.

Section PolyContracts.
Context {A : Arith}.
Notation T := (T A).
Implicit Types p : list T.
Notation Zn n := (Z.of_nat n).
Notation Zl l := (Z.of_nat (length l)).

Lemma rejects_poly_index p i : g_poly_index (Zl p) (Zn i) = true -> pindex p i = Panic Guard.
Proof.
  intros H. g_true H guard_poly_index_lemma ok_poly_index. unfold pindex.
  destruct (Nat.leb_spec (length p) i); [reflexivity|lia].
Qed.
Lemma accepts_poly_index p i : g_poly_index (Zl p) (Zn i) = false -> pindex p i = Ok (nth i p zero).
Proof.
  intros H. g_false H guard_poly_index_lemma ok_poly_index. unfold pindex.
  destruct (Nat.leb_spec (length p) i); [lia|]. apply rd_ok. lia.
Qed.

Lemma rejects_poly_index_mut p i x : g_poly_index_mut (Zl p) (Zn i) = true -> pindex_set p i x = Panic Guard.
Proof.
  intros H. g_true H guard_poly_index_mut_lemma ok_poly_index_mut. unfold pindex_set.
  destruct (Nat.leb_spec (length p) i); [reflexivity|lia].
Qed.
Lemma accepts_poly_index_mut p i x : g_poly_index_mut (Zl p) (Zn i) = false -> exists p', pindex_set p i x = Ok p'.
Proof.
  intros H. g_false H guard_poly_index_mut_lemma ok_poly_index_mut. unfold pindex_set.
  destruct (Nat.leb_spec (length p) i); [lia|]. rewrite upd_ok by lia. eauto.
Qed.
Lemma frame_poly_index_mut p i x p' : pindex_set p i x = Ok p' ->
  length p' = length p /\ nth i p' zero = x /\ forall j, j <> i -> nth j p' zero = nth j p zero.
Proof.
  unfold pindex_set. destruct (Nat.leb_spec (length p) i); [discriminate|].
  intros E. apply upd_Ok_inv in E as (Hi & ->). split; [apply upd_list_length|]. split.
  - rewrite nth_upd_list by exact Hi. now rewrite Nat.eqb_refl.
  - intros j Hj. rewrite nth_upd_list by exact Hi. destruct (Nat.eqb_spec j i); [lia|reflexivity].
Qed.

End PolyContracts.

Lemma rejects_poly_roots_degree (RA : RootArith) (coeffs : list (KK RA)) refine :
  1 <= length coeffs -> g_poly_roots_degree (Z.of_nat (length coeffs)) = true ->
  poly_solve RA coeffs refine = Panic Guard.
Proof.
  intros H1 H. g_true H guard_poly_roots_degree_lemma ok_poly_roots_degree.
  destruct coeffs as [|c [|c' t]]; cbn [length] in *; [lia | | lia].
  apply Proofs.Roots.degree0_rejected_lemma.
Qed.

Lemma accepts_poly_roots_degree_float (tbl : list PrimFloat.float) coeffs refine :
  g_poly_roots_degree (Z.of_nat (length coeffs)) = false -> 1 <= length coeffs ->
  poly_solve (FloatRA tbl) coeffs refine <> Panic Index /\ poly_solve (FloatRA tbl) coeffs refine <> Panic Underflow.
Proof.
  intros _ H1. apply RootsSafe.float_roots_memory_safe_both. destruct coeffs; cbn in H1; [lia|discriminate].
Qed.
