(* Proofs/RootsSafe.v -- index safety of Polynomial::roots, for EVERY arithmetic and every input:
   no Vec access of poly_solve / laguer / the deflation is ever out of bounds (the model's [Panic Index]),
   and the only usize underflow is `coeffs.size() - 1` on the empty coefficient list.
   (What remains possible: the degree-0 guard, and -- in exact instances -- division by zero / an oracle miss.) *)
From Coq Require Import List Arith Bool Lia.
From OV Require Import Base.Panic Base.Arith Model.Complex gen.Params Model.Roots Proofs.Roots.
Import ListNotations.

(* the panics this file excludes *)
Definition mem_panic {X} (r : res X) : Prop := r = Panic Index \/ r = Panic Underflow.

Lemma bind_mem {X Y} (r : res X) (f : X -> res Y) :
  mem_panic (bind r f) -> mem_panic r \/ exists x, r = Ok x /\ mem_panic (f x).
Proof.
  destruct r as [x|k]; cbn.
  - intros H. right. eauto.
  - intros [H|H]; injection H as ->; left; [left | right]; reflexivity.
Qed.

Lemma ok_not_mem {X} (x : X) : ~ mem_panic (Ok x).
Proof. intros [H|H]; discriminate. Qed.

Lemma rd_mem {X} (l : list X) i : i < length l -> ~ mem_panic (rd l i).
Proof.
  intros H. unfold rd. destruct (nth_error l i) eqn:E.
  - apply ok_not_mem.
  - apply nth_error_None in E. lia.
Qed.

Lemma upd_mem {X} (l : list X) i v : i < length l -> ~ mem_panic (upd l i v).
Proof. intros H. rewrite upd_ok by exact H. apply ok_not_mem. Qed.

(* loops: an invariant that excludes memory panics of the body excludes them for the loop *)
Lemma for_rev_from_mem {S} (I : nat -> S -> Prop) n lo (body : nat -> S -> res S) s :
  I n s ->
  (forall k s, k < n -> I (Datatypes.S k) s -> ~ mem_panic (body (lo + k) s) /\ forall s', body (lo + k) s = Ok s' -> I k s') ->
  ~ mem_panic (for_rev_from n lo body s).
Proof.
  revert s; induction n as [|n IH]; intros s H0 Hstep; cbn [for_rev_from].
  - apply ok_not_mem.
  - intros Hm. apply bind_mem in Hm as [Hm|(s1 & E1 & Hm)].
    + destruct (Hstep n s) as (Hb & _); [lia | exact H0 | contradiction].
    + destruct (Hstep n s) as (_ & Hn); [lia | exact H0 |].
      revert Hm. apply IH; [now apply Hn|]. intros k t Hk. apply Hstep. lia.
Qed.

Lemma for_from_mem {S} (I : nat -> S -> Prop) n lo (body : nat -> S -> res S) s :
  I lo s ->
  (forall i s, lo <= i < lo + n -> I i s -> ~ mem_panic (body i s) /\ forall s', body i s = Ok s' -> I (Datatypes.S i) s') ->
  ~ mem_panic (for_from n lo body s).
Proof.
  revert lo s; induction n as [|n IH]; intros lo s H0 Hstep; cbn [for_from].
  - apply ok_not_mem.
  - intros Hm. apply bind_mem in Hm as [Hm|(s1 & E1 & Hm)].
    + destruct (Hstep lo s) as (Hb & _); [lia | exact H0 | contradiction].
    + destruct (Hstep lo s) as (_ & Hn); [lia | exact H0 |].
      revert Hm. apply IH; [now apply Hn|]. intros i t Hi. apply Hstep. lia.
Qed.

Section Safe.
Context (RA : RootArith).
Notation K := (T (KK RA)).
(* what the memory panics do NOT cover: the arithmetic's own division and the oracles may fail in other ways *)
Hypothesis div_mem : forall (x y : K), ~ mem_panic (div x y).
Hypothesis divr_mem : forall (x : K) (y : RR RA), ~ mem_panic (kdivr RA x y).
Hypothesis rdiv_mem : forall (x y : RR RA), ~ mem_panic (div x y).
Hypothesis osqrt_mem : forall z, ~ mem_panic (osqrt RA z).
Hypothesis opow_mem : forall z w, ~ mem_panic (opow RA z w).
Hypothesis opolar_mem : forall r t, ~ mem_panic (opolar RA r t).
(* the table frac[] has MR + 1 entries (checked by driver/translate.py on every run) and MT, MR > 0 *)
Hypothesis frac_len : length (rfrac RA) = LAGUER_MR + 1.
Hypothesis MT_pos : 0 < LAGUER_MT.
Hypothesis MR_pos : 0 < LAGUER_MR.

Ltac step H :=
  apply bind_mem in H as [H|(? & ? & H)];
  [ first [ now apply div_mem in H | now apply divr_mem in H | now apply rdiv_mem in H
          | now apply osqrt_mem in H | now apply opow_mem in H | now apply opolar_mem in H | idtac ] | ].

Lemma horner3_mem a m x : m < length a -> ~ mem_panic (horner3 RA a m x).
Proof.
  intros Hm H. unfold horner3 in H.
  apply bind_mem in H as [H|(am & _ & H)]; [now apply (rd_mem a m Hm)|].
  unfold for_rev in H. rewrite Nat.sub_0_r in H. revert H.
  apply (for_rev_from_mem (fun _ _ => True)); [exact I|].
  intros k [[[b e] d] f] Hk _. split; [|auto].
  unfold horner_body. cbn [Nat.add]. intros H.
  apply bind_mem in H as [H|(aj & _ & H)]; [apply (rd_mem a k) in H; [auto | lia]|].
  now apply ok_not_mem in H.
Qed.

Lemma laguer_step_mem a m iter x :
  1 <= m -> m < length a -> iter < LAGUER_MT * LAGUER_MR -> ~ mem_panic (laguer_step RA a m iter x).
Proof.
  intros Hm1 Hm Hit H. unfold laguer_step in H.
  apply bind_mem in H as [H|(st & _ & H)]; [now apply (horner3_mem a m x Hm)|].
  destruct st as [[[b err] d] f].
  destruct (leb _ _); [now apply ok_not_mem in H|].
  step H. step H.
  apply bind_mem in H as [H|(m1 & _ & H)].
  { unfold usub in H. destruct (Nat.leb_spec 1 m); [now apply ok_not_mem in H | lia]. }
  step H.
  apply bind_mem in H as [H|(dx & _ & H)].
  { destruct (ltb _ _); [now apply div_mem in H | now apply opolar_mem in H]. }
  destruct (eqb _ _); [now apply ok_not_mem in H|].
  destruct (negb _); [now apply ok_not_mem in H|].
  apply bind_mem in H as [H|(fr & _ & H)]; [|now apply ok_not_mem in H].
  revert H. apply rd_mem. rewrite frac_len.
  assert (iter / LAGUER_MT < LAGUER_MR); [|lia].
  apply Nat.div_lt_upper_bound; lia.
Qed.

Lemma laguer_loop_mem a m x0 fin0 fuel : forall iter x,
  1 <= m -> m < length a -> iter + fuel <= LAGUER_MT * LAGUER_MR ->
  ~ mem_panic (laguer_loop RA a m x0 fin0 fuel iter x).
Proof.
  induction fuel as [|fuel IH]; intros iter x Hm1 Hm Hit; cbn [laguer_loop].
  - apply ok_not_mem.
  - intros H. apply bind_mem in H as [H|(o & _ & H)].
    + revert H. apply laguer_step_mem; auto. lia.
    + destruct o as [[why tok]|x']; [now apply ok_not_mem in H|].
      revert H. apply IH; auto. lia.
Qed.

Lemma laguer_mem a x : 2 <= length a -> ~ mem_panic (laguer RA a x).
Proof.
  intros Ha H. unfold laguer in H.
  apply bind_mem in H as [H|(m & Em & H)].
  - unfold usub in H. destruct (Nat.leb_spec 1 (length a)); [now apply ok_not_mem in H | lia].
  - unfold usub in Em. destruct (Nat.leb_spec 1 (length a)); [|discriminate]. injection Em as <-.
    revert H. apply laguer_loop_mem; try lia. unfold MAXIT. nia.
Qed.

Lemma deflate_mem ad j x : j + 1 < length ad -> ~ mem_panic (deflate RA ad j x).
Proof.
  intros Hj H. unfold deflate in H.
  apply bind_mem in H as [H|(b & _ & H)]; [now apply (rd_mem ad (j + 1) Hj)|].
  unfold for_rev in H. rewrite Nat.sub_0_r in H. revert H.
  apply (for_rev_from_mem (fun _ (s : list K * K) => length (fst s) = length ad)); [reflexivity|].
  intros k [adk bk] Hk HL. cbn [fst] in HL. unfold deflate_body. cbn [Nat.add]. split.
  - intros H. apply bind_mem in H as [H|(c & _ & H)]; [apply (rd_mem adk k) in H; [auto | lia]|].
    apply bind_mem in H as [H|(ad' & _ & H)]; [apply (upd_mem adk k bk) in H; [auto | lia]|].
    now apply ok_not_mem in H.
  - intros [ad' b'] E. apply bind_ok in E as (c & _ & E). apply bind_ok in E as (adu & Eu & E).
    injection E as <- _. apply upd_Ok_inv in Eu as (_ & ->). cbn [fst]. now rewrite upd_list_length.
Qed.

Lemma deflate_length ad j x ad' r : deflate RA ad j x = Ok (ad', r) -> length ad' = length ad.
Proof.
  unfold deflate. intros E. apply bind_ok in E as (b & _ & E).
  unfold for_rev in E.
  apply (for_rev_from_inv_partial (fun _ (s : list K * K) => length (fst s) = length ad)) in E; [exact E | reflexivity |].
  intros k [adk bk] [adk1 bk1] _ HL Eb. cbn [fst] in *. unfold deflate_body in Eb.
  apply bind_ok in Eb as (c & _ & Eb). apply bind_ok in Eb as (adu & Eu & Eb).
  injection Eb as <- _. apply upd_Ok_inv in Eu as (_ & ->). now rewrite upd_list_length.
Qed.

Lemma solve_body_mem j ad roots tr :
  j + 2 <= length ad -> j < length roots -> ~ mem_panic (solve_body RA j (ad, roots, tr)).
Proof.
  intros Ha Hr H. unfold solve_body in H.
  apply bind_mem in H as [H|(adv & Eadv & H)].
  { unfold take_checked in H. destruct (Nat.leb_spec (j + 2) (length ad)); [now apply ok_not_mem in H | lia]. }
  unfold take_checked in Eadv. destruct (Nat.leb_spec (j + 2) (length ad)); [|discriminate]. injection Eadv as <-.
  apply bind_mem in H as [H|(l & _ & H)].
  { revert H. apply laguer_mem. rewrite firstn_length. lia. }
  apply bind_mem in H as [H|(r' & _ & H)]; [now apply (upd_mem roots j _ Hr) in H|].
  apply bind_mem in H as [H|(db & _ & H)]; [revert H; apply deflate_mem; lia|].
  now apply ok_not_mem in H.
Qed.

Lemma polish_body_mem a j roots tr :
  2 <= length a -> j < length roots -> ~ mem_panic (polish_body RA a j (roots, tr)).
Proof.
  intros Ha Hr H. unfold polish_body in H.
  apply bind_mem in H as [H|(x & _ & H)]; [now apply (rd_mem roots j Hr) in H|].
  apply bind_mem in H as [H|(l & _ & H)]; [revert H; now apply laguer_mem|].
  apply bind_mem in H as [H|(r' & _ & H)]; [now apply (upd_mem roots j _ Hr) in H|].
  now apply ok_not_mem in H.
Qed.

Lemma quadratic_mem fixed a b c : ~ mem_panic (quadratic_solve_gen RA fixed a b c).
Proof.
  intros H. unfold quadratic_solve_gen in H.
  step H. step H. step H.
  apply bind_mem in H as [H|(r1 & _ & H)].
  - destruct (fixed && eqb _ zero); [now apply ok_not_mem in H | now apply div_mem in H].
  - now apply ok_not_mem in H.
Qed.

Lemma cubic_mem cs a b c d : ~ mem_panic (cubic_solve_gen RA cs a b c d).
Proof.
  intros H. unfold cubic_solve_gen in H. destruct (cubic_disc RA a b c d) as [[d0 d1] rad].
  destruct (eqb d0 zero && eqb d1 zero).
  - step H. now apply ok_not_mem in H.
  - do 11 (step H). now apply ok_not_mem in H.
Qed.

Lemma poly_solve_mem_safe_lemma coeffs refine : coeffs <> [] -> ~ mem_panic (poly_solve RA coeffs refine).
Proof.
  intros Hne H. unfold poly_solve in H.
  assert (H1 : 1 <= length coeffs) by (destruct coeffs; cbn; [congruence | lia]).
  unfold usub in H. destruct (Nat.leb_spec 1 (length coeffs)); [|lia]. cbn [bind] in H.
  set (n := length coeffs - 1) in *.
  destruct (Nat.eqb_spec n 0); [destruct H; discriminate|].
  (* degree 1 *)
  apply bind_mem in H as [H|(r1 & E1 & H)].
  { destruct (Nat.eqb_spec n 1); [|now apply ok_not_mem in H].
    apply bind_mem in H as [H|(c0 & _ & H)]; [apply (rd_mem coeffs 0) in H; [auto | lia]|].
    apply bind_mem in H as [H|(c1 & _ & H)]; [apply (rd_mem coeffs 1) in H; [auto | lia]|].
    step H. revert H. apply upd_mem. rewrite repeat_length. lia. }
  assert (L1 : length r1 = n).
  { destruct (n =? 1).
    - apply bind_ok in E1 as (c0 & _ & E1). apply bind_ok in E1 as (c1 & _ & E1).
      apply bind_ok in E1 as (r & _ & E1). apply upd_Ok_inv in E1 as (_ & ->).
      rewrite upd_list_length. apply repeat_length.
    - injection E1 as <-. apply repeat_length. }
  (* degree 2 *)
  apply bind_mem in H as [H|(r2 & E2 & H)].
  { destruct (Nat.eqb_spec n 2); [|now apply ok_not_mem in H].
    apply bind_mem in H as [H|(a & _ & H)]; [apply (rd_mem coeffs 2) in H; [auto | lia]|].
    apply bind_mem in H as [H|(b & _ & H)]; [apply (rd_mem coeffs 1) in H; [auto | lia]|].
    apply bind_mem in H as [H|(c & _ & H)]; [apply (rd_mem coeffs 0) in H; [auto | lia]|].
    now apply quadratic_mem in H. }
  assert (L2 : length r2 = n).
  { destruct (Nat.eqb_spec n 2) as [H2|H2].
    - rewrite H2. apply bind_ok in E2 as (a & _ & E2). apply bind_ok in E2 as (b & _ & E2).
      apply bind_ok in E2 as (c & _ & E2). now apply (OV.Proofs.Roots.quadratic_solve_gen_length RA) in E2.
    - now injection E2 as <-. }
  (* degree 3 *)
  apply bind_mem in H as [H|(r3 & E3 & H)].
  { destruct (Nat.eqb_spec n 3); [|now apply ok_not_mem in H].
    apply bind_mem in H as [H|(a & _ & H)]; [apply (rd_mem coeffs 3) in H; [auto | lia]|].
    apply bind_mem in H as [H|(b & _ & H)]; [apply (rd_mem coeffs 2) in H; [auto | lia]|].
    apply bind_mem in H as [H|(c & _ & H)]; [apply (rd_mem coeffs 1) in H; [auto | lia]|].
    apply bind_mem in H as [H|(d & _ & H)]; [apply (rd_mem coeffs 0) in H; [auto | lia]|].
    now apply cubic_mem in H. }
  assert (L3 : length r3 = n).
  { destruct (Nat.eqb_spec n 3) as [H3|H3].
    - rewrite H3. apply bind_ok in E3 as (a & _ & E3). apply bind_ok in E3 as (b & _ & E3).
      apply bind_ok in E3 as (c & _ & E3). apply bind_ok in E3 as (d & _ & E3).
      now apply (OV.Proofs.Roots.cubic_solve_gen_length RA) in E3.
    - now injection E3 as <-. }
  (* deflation *)
  pose (I := fun (k : nat) (s : list K * list K * list (lres K)) =>
     length (fst (fst s)) = length coeffs /\ length (snd (fst s)) = n).
  apply bind_mem in H as [H|([r4 t4] & E4 & H)].
  { destruct (3 <? n); [|now apply ok_not_mem in H].
    apply bind_mem in H as [H|(s4 & _ & H)]; [|now apply ok_not_mem in H].
    unfold for_rev in H. rewrite Nat.sub_0_r in H. revert H.
    apply (for_rev_from_mem I); [split; [reflexivity | exact L3]|].
    intros k [[adk rk] tk] Hk (HLa & HLr). cbn [fst snd] in *. cbn [Nat.add]. split.
    - apply solve_body_mem; lia.
    - intros [[ad1 rk1] tk1] Eb. split; cbn [fst snd].
      + unfold solve_body in Eb. apply bind_ok in Eb as (adv & _ & Eb). apply bind_ok in Eb as (l & _ & Eb).
        apply bind_ok in Eb as (r' & _ & Eb). apply bind_ok in Eb as ([ad' rr] & Ed & Eb).
        injection Eb as <- _ _. cbn [fst]. apply deflate_length in Ed. congruence.
      + apply (OV.Proofs.Roots.solve_body_length RA) in Eb. congruence. }
  assert (L4 : length r4 = n).
  { destruct (3 <? n).
    - apply bind_ok in E4 as ([[ad rr] tt] & Ef & E4). injection E4 as <- _. cbn [fst snd].
      unfold for_rev in Ef.
      apply (for_rev_from_inv_partial (fun _ (s : list K * list K * list (lres K)) => length (snd (fst s)) = n)) in Ef; [exact Ef | exact L3 |].
      intros k [[ad0 rr0] tt0] [[ad1 rr1] tt1] _ HI Eb. cbn [fst snd] in *.
      apply (OV.Proofs.Roots.solve_body_length RA) in Eb. congruence.
    - now injection E4 as <- _. }
  (* polishing *)
  destruct refine; [|now apply ok_not_mem in H].
  unfold for_ in H. rewrite Nat.sub_0_r in H. revert H.
  apply (for_from_mem (fun _ (s : list K * list (lres K)) => length (fst s) = n)); [exact L4|].
  intros i [rk tk] Hi HL. cbn [fst] in HL. split.
  - apply polish_body_mem; lia.
  - intros [rk1 tk1] Eb. cbn [fst]. apply (OV.Proofs.Roots.polish_body_length RA) in Eb. congruence.
Qed.

End Safe.

(* ---------- the float instance: whatever the three libm-backed primitives return (ANY oracle table) ---------- *)
From OV Require Import Inst.FloatInst.

Lemma olookup_mem tbl w k1 k2 k3 k4 : ~ mem_panic (olookup tbl w k1 k2 k3 k4).
Proof.
  revert tbl. fix IH 1. intros tbl.
  destruct tbl as [|w' [|a [|b [|c [|d [|r [|i t]]]]]]]; cbn [olookup]; try (intros [H|H]; discriminate).
  destruct (_ && _); [apply ok_not_mem | apply IH].
Qed.

Lemma float_roots_memory_safe_lemma (tbl : list PrimFloat.float) coeffs refine :
  coeffs <> [] -> ~ mem_panic (poly_solve (FloatRA tbl) coeffs refine).
Proof.
  apply poly_solve_mem_safe_lemma.
  - intros x y. apply ok_not_mem.
  - intros x y. apply ok_not_mem.
  - intros x y. apply ok_not_mem.
  - intros z. apply olookup_mem.
  - intros z w. apply olookup_mem.
  - intros r t. apply olookup_mem.
  - reflexivity.
  - apply Nat.ltb_lt. reflexivity.
  - apply Nat.ltb_lt. reflexivity.
Qed.

Lemma float_roots_memory_safe_both (tbl : list PrimFloat.float) coeffs refine :
  coeffs <> [] ->
  poly_solve (FloatRA tbl) coeffs refine <> Panic Index /\ poly_solve (FloatRA tbl) coeffs refine <> Panic Underflow.
Proof.
  intros H. pose proof (float_roots_memory_safe_lemma tbl coeffs refine H) as Hm.
  split; intros E; apply Hm; [left | right]; exact E.
Qed.
