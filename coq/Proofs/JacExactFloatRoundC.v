(* Proofs/JacExactFloatRoundC.v -- package jacexact (C18): the restoration drift of Matrix::<Cmplx>::jacobian_cmplx AT IEEE BINARY64 ITSELF
   (NCplx SAF, step Cmplx::new(delta, 0.0)), any closure, "whenever the final state is finite":
     - the IMAGINARY parts never drift in value: (y (+) 0) (-) 0 has the real value of y (only the sign of a zero can change:
       Proofs/JacExactFloatC.v exc_negzero) -- sharper than the standard-model bound of Proofs/JacExactRoundC.v;
     - the REAL parts behave as the coordinates of Mat64::jacobian: the j-th call is made within u |re x_j + delta| (k = j),
       (2u + u^2)(|re x_k| + |delta|) (k < j), 0 (k > j) of x + delta e_j, and the loop ends within the k < j bound of x. *)
From Coq Require Import ZArith Reals Lra Lia List Floats Bool Arith.
From Flocq Require Import Core BinarySingleNaN PrimFloat.
From OV Require Import Base.Panic Base.Arith Base.RoundModel Model.Complex Model.Vector Model.Matrix Model.Newton Inst.FloatInst
  Proofs.Matrix Proofs.Newton Proofs.NewtonJac Proofs.ComplexRound Proofs.RoundDotFloat Proofs.RoundTriFloat
  Proofs.JacExactGen Proofs.JacExactRound Proofs.JacExactFloatRound.
Import ListNotations.
Local Open Scope R_scope.

Local Notation OC := (NCplx SAF).
Local Notation cf := (cplx AF).
Local Notation cz := (@zero (NA OC)).

(* y + 0 and y - 0 keep the value of y *)
Lemma fadd_zero_value (y : PrimFloat.float) : ffinite (y + 0)%float -> ffinite y /\ FR (y + 0)%float = FR y.
Proof.
  intros H. destruct (fadd_finite_inv _ _ H) as (Fy & _ & E). split; [exact Fy|].
  rewrite E, FR_zero, Rplus_0_r. apply rnd64_id, FR_fmt.
Qed.
Lemma fsub_zero_value (y : PrimFloat.float) : ffinite (y - 0)%float -> ffinite y /\ FR (y - 0)%float = FR y.
Proof.
  intros H. destruct (fsub_finite_inv _ _ H) as (Fy & _ & E). split; [exact Fy|].
  rewrite E, FR_zero, Rminus_0_r. apply rnd64_id, FR_fmt.
Qed.

Lemma restore_im_float (y : PrimFloat.float) : ffinite (y + 0 - 0)%float ->
  ffinite y /\ ffinite (y + 0)%float /\ FR (y + 0)%float = FR y /\ FR (y + 0 - 0)%float = FR y.
Proof.
  intros H. destruct (fsub_zero_value _ H) as (F1 & E1). destruct (fadd_zero_value _ F1) as (F0 & E0).
  split; [exact F0|]. split; [exact F1|]. split; [exact E0|]. now rewrite E1.
Qed.

Lemma jacobian_call_points_drift_C_float_lemma (F : list cf -> res (list cf)) (x : list cf) (d : PrimFloat.float)
    (st : list cf) (J : matrix (NA OC)) (evs : list (list cf)) :
  jacobian_tr OC F x (emb OC d) = Ok (st, J, evs) ->
  (forall k, (k < length x)%nat -> ffinite (re (nth k st cz)) /\ ffinite (im (nth k st cz))) ->
  evs = x :: map (call_pt OC x (emb OC d)) (seq 0 (length x)) /\ length st = length x /\
  (forall k, (k < length x)%nat -> ffinite (re (nth k x cz)) /\ ffinite (im (nth k x cz))) /\
  (forall j k, (j < length x)%nat -> (k < length x)%nat ->
     FR (im (nth k (call_pt OC x (emb OC d) j) cz)) = FR (im (nth k x cz)) /\
     Rabs (FR (re (nth k (call_pt OC x (emb OC d) j) cz)) -
           (if k =? j then FR (re (nth j x cz)) + FR d else FR (re (nth k x cz)))) <=
       (if k =? j then u64 * Rabs (FR (re (nth k x cz)) + FR d)
        else if k <? j then (2 * u64 + u64 * u64) * (Rabs (FR (re (nth k x cz))) + Rabs (FR d)) else 0)) /\
  (forall k, (k < length x)%nat ->
     FR (im (nth k st cz)) = FR (im (nth k x cz)) /\
     Rabs (FR (re (nth k st cz)) - FR (re (nth k x cz))) <= (2 * u64 + u64 * u64) * (Rabs (FR (re (nth k x cz))) + Rabs (FR d))).
Proof.
  intros H Hfin. apply jacobian_tr_gen in H as (-> & -> & _).
  assert (Hcp : forall j k, (j < length x)%nat ->
            nth k (call_pt OC x (emb OC d) j) cz =
              if k =? j then mkC (A := AF) (re (nth j x cz) + d)%float (im (nth j x cz) + 0)%float
              else if k <? j then mkC (A := AF) (re (nth k x cz) + d - d)%float (im (nth k x cz) + 0 - 0)%float
              else nth k x cz)
    by exact (call_pt_nth OC x (emb OC d)).
  assert (Hst : forall k, (k < length x)%nat ->
            nth k (state_at OC x (emb OC d) (length x)) cz =
              mkC (A := AF) (re (nth k x cz) + d - d)%float (im (nth k x cz) + 0 - 0)%float).
  { intros k Hk. pose proof (state_at_nth OC x (emb OC d) (length x) k (le_n _)) as E.
    destruct (Nat.ltb_spec k (length x)) as [_|]; [exact E|lia]. }
  assert (Ls : length (state_at OC x (emb OC d) (length x)) = length x) by exact (state_at_length OC x (emb OC d) (length x)).
  assert (Hr : forall k, (k < length x)%nat ->
            ffinite (re (nth k x cz) + d - d)%float /\ ffinite (im (nth k x cz) + 0 - 0)%float).
  { intros k Hk.
    exact (eq_ind _ (fun t : cf => ffinite (re t) /\ ffinite (im t)) (Hfin k Hk) _ (Hst k Hk)). }
  split; [reflexivity|]. split; [exact Ls|]. split; [|split].
  - intros k Hk. destruct (Hr k Hk) as [R1 R2].
    destruct (restore_drift_float _ _ R1) as (Fx & _). destruct (restore_im_float _ R2) as (Fy & _). split; assumption.
  - intros j k Hj Hk. rewrite (Hcp j k Hj).
    destruct (k =? j) eqn:Ekj.
    + apply Nat.eqb_eq in Ekj. subst k. destruct (Hr j Hj) as [R1 R2]. cbn [re im].
      destruct (restore_im_float _ R2) as (_ & _ & E0 & _). split; [exact E0|].
      destruct (restore_drift_float _ _ R1) as (_ & _ & Fs & _). exact (fadd_err_float _ _ Fs).
    + destruct (k <? j).
      * destruct (Hr k Hk) as [R1 R2]. cbn [re im].
        destruct (restore_im_float _ R2) as (_ & _ & _ & E1). split; [exact E1|].
        destruct (restore_drift_float _ _ R1) as (_ & _ & _ & G). exact G.
      * split; [reflexivity|]. rewrite Rminus_diag_eq by reflexivity. rewrite Rabs_R0. lra.
  - intros k Hk. destruct (Hr k Hk) as [R1 R2].
    destruct (restore_im_float _ R2) as (_ & _ & _ & E1). destruct (restore_drift_float _ _ R1) as (_ & _ & _ & G).
    assert (Q : forall t : cf, t = mkC (A := AF) (re (nth k x cz) + d - d)%float (im (nth k x cz) + 0 - 0)%float ->
              FR (im t) = FR (im (nth k x cz)) /\
              Rabs (FR (re t) - FR (re (nth k x cz))) <= (2 * u64 + u64 * u64) * (Rabs (FR (re (nth k x cz))) + Rabs (FR d)))
      by (intros t ->; cbn [re im]; split; assumption).
    exact (Q _ (Hst k Hk)).
Qed.

(* non-vacuity: the non-dyadic run of Proofs/JacExactFloatC.v (delta = 1e-8, re x_0 = 0.9999999999): the final state is finite *)
From OV Require Import Proofs.JacExactFloat Proofs.JacExactFloatC.
Lemma excf_conditions :
  exists st J evs,
    jacobian_tr OC (fun p => Ok (aff OC exc_M exc_c p)) exc_x2 (emb OC exj_d2) = Ok (st, J, evs) /\
    forall k, (k < length exc_x2)%nat -> ffinite (re (nth k st cz)) /\ ffinite (im (nth k st cz)).
Proof.
  do 3 eexists. split; [vm_compute; reflexivity|].
  intros [|[|k]] Hk; [| |cbn in Hk; lia]; split; apply ffinite_SF; vm_compute; reflexivity.
Qed.
