(* Proofs/JacExactFloatRoundC.v -- package jacexact (C18): the restoration drift of Matrix::<Cmplx>::jacobian_cmplx AT IEEE BINARY64 ITSELF
   (NCplx SAF, step Cmplx::new(delta, 0.0)), any closure, "whenever the final state is finite":
     - the IMAGINARY parts never drift in value: (y (+) 0) (-) 0 has the real value of y (only the sign of a zero can change:
       Proofs/JacExactFloatC.v exc_negzero) -- sharper than the standard-model bound of Proofs/JacExactRoundC.v;
     - the REAL parts behave as the coordinates of Mat64::jacobian: the j-th call is made within u |re x_j + delta| (k = j),
       (2u + u^2)(|re x_k| + |delta|) (k < j), 0 (k > j) of x + delta e_j, and the loop ends within the k < j bound of x. *)
From Coq Require Import ZArith Reals Lra Lia List Floats Bool Arith.
From Flocq Require Import Core BinarySingleNaN PrimFloat.
From OV Require Import Base.Panic Base.Arith Base.RoundModel Model.Complex Model.Vector Model.Matrix Model.Newton Inst.FloatInst
  Proofs.Matrix Proofs.Newton Proofs.NewtonJac Proofs.ComplexRound Proofs.RoundDotFloat Proofs.RoundTriFloat
  Proofs.JacExactGen Proofs.JacExactRound Proofs.JacExactFloatRound.
Import ListNotations.
Local Open Scope R_scope.

Local Notation OC := (NCplx SAF).
Local Notation cf := (cplx AF).
Local Notation cz := (@zero (NA OC)).

(* y + 0 and y - 0 keep the value of y *)
Lemma fadd_zero_value (y : PrimFloat.float) : ffinite (y + 0)%float -> ffinite y /\ FR (y + 0)%float = FR y.
Proof.
  intros H. destruct (fadd_finite_inv _ _ H) as (Fy & _ & E). split; [exact Fy|].
  rewrite E, FR_zero, Rplus_0_r. apply rnd64_id, FR_fmt.
Qed.
Lemma fsub_zero_value (y : PrimFloat.float) : ffinite (y - 0)%float -> ffinite y /\ FR (y - 0)%float = FR y.
Proof.
  intros H. destruct (fsub_finite_inv _ _ H) as (Fy & _ & E). split; [exact Fy|].
  rewrite E, FR_zero, Rminus_0_r. apply rnd64_id, FR_fmt.
Qed.

Lemma restore_im_float (y : PrimFloat.float) : ffinite (y + 0 - 0)%float ->
  ffinite y /\ ffinite (y + 0)%float /\ FR (y + 0)%float = FR y /\ FR (y + 0 - 0)%float = FR y.
Proof.
  intros H. destruct (fsub_zero_value _ H) as (F1 & E1). destruct (fadd_zero_value _ F1) as (F0 & E0).
  split; [exact F0|]. split; [exact F1|]. split; [exact E0|]. now rewrite E1.
Qed.

Lemma jacobian_call_points_drift_C_float_lemma (F : list cf -> res (list cf)) (x : list cf) (d : PrimFloat.float)
    (st : list cf) (J : matrix (NA OC)) (evs : list (list cf)) :
  jacobian_tr OC F x (emb OC d) = Ok (st, J, evs) ->
  (forall k, (k < length x)%nat -> ffinite (re (nth k st cz)) /\ ffinite (im (nth k st cz))) ->
  evs = x :: map (call_pt OC x (emb OC d)) (seq 0 (length x)) /\ length st = length x /\
  (forall k, (k < length x)%nat -> ffinite (re (nth k x cz)) /\ ffinite (im (nth k x cz))) /\
  (forall j k, (j < length x)%nat -> (k < length x)%nat ->
     FR (im (nth k (call_pt OC x (emb OC d) j) cz)) = FR (im (nth k x cz)) /\
     Rabs (FR (re (nth k (call_pt OC x (emb OC d) j) cz)) -
           (if k =? j then FR (re (nth j x cz)) + FR d else FR (re (nth k x cz)))) <=
       (if k =? j then u64 * Rabs (FR (re (nth k x cz)) + FR d)
        else if k <? j then (2 * u64 + u64 * u64) * (Rabs (FR (re (nth k x cz))) + Rabs (FR d)) else 0)) /\
  (forall k, (k < length x)%nat ->
     FR (im (nth k st cz)) = FR (im (nth k x cz)) /\
     Rabs (FR (re (nth k st cz)) - FR (re (nth k x cz))) <= (2 * u64 + u64 * u64) * (Rabs (FR (re (nth k x cz))) + Rabs (FR d))).
Proof.
  intros H Hfin. apply jacobian_tr_gen in H as (-> & -> & _).
  assert (Hcp : forall j k, (j < length x)%nat ->
            nth k (call_pt OC x (emb OC d) j) cz =
              if k =? j then mkC (A := AF) (re (nth j x cz) + d)%float (im (nth j x cz) + 0)%float
              else if k <? j then mkC (A := AF) (re (nth k x cz) + d - d)%float (im (nth k x cz) + 0 - 0)%float
              else nth k x cz)
    by exact (call_pt_nth OC x (emb OC d)).
  assert (Hst : forall k, (k < length x)%nat ->
            nth k (state_at OC x (emb OC d) (length x)) cz =
              mkC (A := AF) (re (nth k x cz) + d - d)%float (im (nth k x cz) + 0 - 0)%float).
  { intros k Hk. pose proof (state_at_nth OC x (emb OC d) (length x) k (le_n _)) as E.
    destruct (Nat.ltb_spec k (length x)) as [_|]; [exact E|lia]. }
  assert (Ls : length (state_at OC x (emb OC d) (length x)) = length x) by exact (state_at_length OC x (emb OC d) (length x)).
  assert (Hr : forall k, (k < length x)%nat ->
            ffinite (re (nth k x cz) + d - d)%float /\ ffinite (im (nth k x cz) + 0 - 0)%float).
  { intros k Hk.
    exact (eq_ind _ (fun t : cf => ffinite (re t) /\ ffinite (im t)) (Hfin k Hk) _ (Hst k Hk)). }
  split; [reflexivity|]. split; [exact Ls|]. split; [|split].
  - intros k Hk. destruct (Hr k Hk) as [R1 R2].
    destruct (restore_drift_float _ _ R1) as (Fx & _). destruct (restore_im_float _ R2) as (Fy & _). split; assumption.
  - intros j k Hj Hk. rewrite (Hcp j k Hj).
    destruct (k =? j) eqn:Ekj.
    + apply Nat.eqb_eq in Ekj. subst k. destruct (Hr j Hj) as [R1 R2]. cbn [re im].
      destruct (restore_im_float _ R2) as (_ & _ & E0 & _). split; [exact E0|].
      destruct (restore_drift_float _ _ R1) as (_ & _ & Fs & _). exact (fadd_err_float _ _ Fs).
    + destruct (k <? j).
      * destruct (Hr k Hk) as [R1 R2]. cbn [re im].
        destruct (restore_im_float _ R2) as (_ & _ & _ & E1). split; [exact E1|].
        destruct (restore_drift_float _ _ R1) as (_ & _ & _ & G). exact G.
      * split; [reflexivity|]. rewrite Rminus_diag_eq by reflexivity. rewrite Rabs_R0. lra.
  - intros k Hk. destruct (Hr k Hk) as [R1 R2].
    destruct (restore_im_float _ R2) as (_ & _ & _ & E1). destruct (restore_drift_float _ _ R1) as (_ & _ & _ & G).
    assert (Q : forall t : cf, t = mkC (A := AF) (re (nth k x cz) + d - d)%float (im (nth k x cz) + 0 - 0)%float ->
              FR (im t) = FR (im (nth k x cz)) /\
              Rabs (FR (re t) - FR (re (nth k x cz))) <= (2 * u64 + u64 * u64) * (Rabs (FR (re (nth k x cz))) + Rabs (FR d)))
      by (intros t ->; cbn [re im]; split; assumption).
    exact (Q _ (Hst k Hk)).
Qed.

(* non-vacuity: the non-dyadic run of Proofs/JacExactFloatC.v (delta = 1e-8, re x_0 = 0.9999999999): the final state is finite *)
From OV Require Import Proofs.JacExactFloat Proofs.JacExactFloatC.
Lemma excf_conditions :
  exists st J evs,
    jacobian_tr OC (fun p => Ok (aff OC exc_M exc_c p)) exc_x2 (emb OC exj_d2) = Ok (st, J, evs) /\
    forall k, (k < length exc_x2)%nat -> ffinite (re (nth k st cz)) /\ ffinite (im (nth k st cz)).
Proof.
  do 3 eexists. split; [vm_compute; reflexivity|].
  intros [|[|k]] Hk; [| |cbn in Hk; lia]; split; apply ffinite_SF; vm_compute; reflexivity.
Qed.

(* ================================================================ the rounding floor of the complex entry at binary64 *)
(* the model's complex division by (d, 0) at the primitive floats, backwards from finite results: both parts are the exact quotients
   times a product of five factors (1 + e), |e| <= 2^-53 -- provided the denominator d d + 0 0 is finite and non-zero and the three
   products and two quotients do not underflow *)
From OV Require Import Proofs.JacExactRoundC.

Lemma FR_mul0 (y : PrimFloat.float) : ffinite (y * 0)%float -> ffinite y /\ FR (y * 0)%float = 0.
Proof.
  intros H. destruct (fmul_finite_inv _ _ H) as (Fy & _ & E). split; [exact Fy|].
  rewrite E, FR_zero, Rmult_0_r. apply rnd64_id, fmt_0.
Qed.

Lemma Fmul_0_r a : Fmul a 0 = 0.
Proof. destruct (Fmul_ok a 0) as (e & _ & ->). ring. Qed.

Lemma cdiv_real_float (z : cf) (d : PrimFloat.float) (q : cf) :
  cdiv z (emb OC d) = Ok q ->
  ffinite (re q) -> ffinite (im q) ->
  FR (d * d + 0 * 0)%float <> 0 ->
  no_underflow (FR (re z) * FR d) -> no_underflow (FR (im z) * FR d) -> no_underflow (FR d * FR d) ->
  no_underflow (FR (re z * d + im z * 0)%float / FR (d * d + 0 * 0)%float) ->
  no_underflow (FR (im z * d - re z * 0)%float / FR (d * d + 0 * 0)%float) ->
  FR d <> 0 /\ ffinite (re z) /\ ffinite (im z) /\
  exists Pr Pi, bnd u64 5 Pr /\ bnd u64 5 Pi /\ FR (re q) = FR (re z) / FR d * Pr /\ FR (im q) = FR (im z) / FR d * Pi.
Proof.
  destruct z as [zr zi]. unfold cdiv. cbn [re im emb NCplx].
  change (@mul (SA SAF)) with PrimFloat.mul. change (@add (SA SAF)) with PrimFloat.add. change (@sub (SA SAF)) with PrimFloat.sub.
  change (@zero (SA SAF)) with 0%float. change (@div (SA SAF)) with (fun a b : PrimFloat.float => Ok (a / b)%float).
  cbn beta. cbn [bind]. intros Eq. injection Eq as <-. cbn [re im].
  intros Fr Fi Dn Ur Ui Ud Uqr Uqi.
  destruct (fdiv_finite_inv _ _ Fr Dn) as (Fnr & Er). destruct (fdiv_finite_inv _ _ Fi Dn) as (Fni & Ei).
  destruct (fadd_finite_inv _ _ Fnr) as (Fzrd & Fzi0 & Enr). destruct (fsub_finite_inv _ _ Fni) as (Fzid & Fzr0 & Eni).
  destruct (fmul_finite_inv _ _ Fzrd) as (Fzr & Fd & Ezrd). destruct (fmul_finite_inv _ _ Fzid) as (Fzi & _ & Ezid).
  destruct (FR_mul0 _ Fzi0) as (_ & Ezi0). destruct (FR_mul0 _ Fzr0) as (_ & Ezr0).
  (* the denominator *)
  assert (Hd : FR d <> 0).
  { intros Z. apply Dn.
    assert (Fdn : ffinite (d * d + 0 * 0)%float).
    { unfold ffinite. destruct (Prim2B (d * d + 0 * 0)%float) eqn:EB; try reflexivity; exfalso; unfold FR in Dn; rewrite EB in Dn;
        simpl in Dn; now apply Dn. }
    destruct (fadd_finite_inv _ _ Fdn) as (Fdd & F00 & Ed). destruct (fmul_finite_inv _ _ Fdd) as (_ & _ & Edd).
    destruct (fmul_finite_inv _ _ F00) as (_ & _ & E00).
    rewrite Ed, Edd, E00, Z, FR_zero, !Rmult_0_r, (rnd64_id 0 fmt_0), Rplus_0_r. apply rnd64_id, fmt_0. }
  split; [exact Hd|]. split; [exact Fzr|]. split; [exact Fzi|].
  assert (Fdn : ffinite (d * d + 0 * 0)%float).
  { unfold ffinite. destruct (Prim2B (d * d + 0 * 0)%float) eqn:EB; try reflexivity; exfalso; unfold FR in Dn; rewrite EB in Dn;
      simpl in Dn; now apply Dn. }
  destruct (fadd_finite_inv _ _ Fdn) as (Fdd & F00 & Ed). destruct (fmul_finite_inv _ _ Fdd) as (_ & _ & Edd).
  destruct (fmul_finite_inv _ _ F00) as (_ & _ & E00).
  assert (E00' : FR (0 * 0)%float = 0) by (rewrite E00, FR_zero, Rmult_0_r; apply rnd64_id, fmt_0).
  (* the float computation is the computation in the total standard-model arithmetic A64r *)
  assert (Mdd : FR (d * d)%float = Fmul (FR d) (FR d)) by (rewrite Edd; symmetry; now apply Fmul_nounder).
  assert (Mzrd : FR (zr * d)%float = Fmul (FR zr) (FR d)) by (rewrite Ezrd; symmetry; now apply Fmul_nounder).
  assert (Mzid : FR (zi * d)%float = Fmul (FR zi) (FR d)) by (rewrite Ezid; symmetry; now apply Fmul_nounder).
  assert (Aden : FR (d * d + 0 * 0)%float = Fadd (Fmul (FR d) (FR d)) (Fmul 0 0)).
  { rewrite Ed, E00', Fmul_0_r, <- Mdd. symmetry. apply Fadd_fmt; [apply FR_fmt|apply fmt_0]. }
  assert (Anr : FR (zr * d + zi * 0)%float = Fadd (Fmul (FR zr) (FR d)) (Fmul (FR zi) 0)).
  { rewrite Enr, Ezi0, Fmul_0_r, <- Mzrd. symmetry. apply Fadd_fmt; [apply FR_fmt|apply fmt_0]. }
  assert (Ani : FR (zi * d - zr * 0)%float = Fsub (Fmul (FR zi) (FR d)) (Fmul (FR zr) 0)).
  { rewrite Eni, Ezr0, Fmul_0_r, <- Mzid. symmetry. apply Fsub_fmt; [apply FR_fmt|apply fmt_0]. }
  assert (Qr : FR ((zr * d + zi * 0) / (d * d + 0 * 0))%float =
               Fdiv (Fadd (Fmul (FR zr) (FR d)) (Fmul (FR zi) 0)) (Fadd (Fmul (FR d) (FR d)) (Fmul 0 0))).
  { transitivity (rnd64 (FR (zr * d + zi * 0)%float / FR (d * d + 0 * 0)%float)); [exact Er|].
    symmetry. rewrite <- Anr, <- Aden. apply Fdiv_nounder. exact Uqr. }
  assert (Qi : FR ((zi * d - zr * 0) / (d * d + 0 * 0))%float =
               Fdiv (Fsub (Fmul (FR zi) (FR d)) (Fmul (FR zr) 0)) (Fadd (Fmul (FR d) (FR d)) (Fmul 0 0))).
  { transitivity (rnd64 (FR (zi * d - zr * 0)%float / FR (d * d + 0 * 0)%float)); [exact Ei|].
    symmetry. rewrite <- Ani, <- Aden. apply Fdiv_nounder. exact Uqi. }
  destruct (cdiv_real_model u64 u64_range Fadd Fsub Fmul Fdiv R_sqrt.sqrt Fadd_ok Fsub_ok Fmul_ok Fdiv_ok
              (mkC (A := ARm Fadd Fsub Fmul Fdiv) (FR zr) (FR zi)) (FR d) Hd) as (q' & Pr & Pi & Eq' & Br & Bi & Rr & Ri).
  injection Eq' as <-. cbn [re im] in Rr, Ri.
  exists Pr, Pi. split; [exact Br|]. split; [exact Bi|]. split.
  - exact (eq_trans Qr Rr).
  - exact (eq_trans Qi Ri).
Qed.

Lemma six_u64 : INR 6 * u64 < 1.
Proof. pose proof RoundDotFloat.u64_small as H. pose proof u64_range. simpl. lra. Qed.

(* the entries of Matrix::<Cmplx>::jacobian_cmplx at binary64, any closure *)
Lemma jacobian_entry_floor_C_float_lemma (F : list cf -> res (list cf)) (x : list cf) (d : PrimFloat.float)
    (J : matrix (NA OC)) (evs : list (list cf)) :
  jacobian OC F x (emb OC d) = Ok (J, evs) ->
  exists f0, F x = Ok f0 /\ rows J = length f0 /\ cols J = length x /\
  forall i j, (i < length f0)%nat -> (j < length x)%nat ->
    exists fj q, F (call_pt OC x (emb OC d) j) = Ok fj /\ mget J i j = Ok q /\
      cdiv (csub (nth i fj cz) (nth i f0 cz)) (emb OC d) = Ok q /\
      forall (Ar Ai Br Bi ea eb : R),
        ffinite (re q) -> ffinite (im q) -> FR (d * d + 0 * 0)%float <> 0 ->
        no_underflow (FR (re (csub (nth i fj cz) (nth i f0 cz))) * FR d) ->
        no_underflow (FR (im (csub (nth i fj cz) (nth i f0 cz))) * FR d) -> no_underflow (FR d * FR d) ->
        no_underflow (FR (re (csub (nth i fj cz) (nth i f0 cz)) * d + im (csub (nth i fj cz) (nth i f0 cz)) * 0)%float
                      / FR (d * d + 0 * 0)%float) ->
        no_underflow (FR (im (csub (nth i fj cz) (nth i f0 cz)) * d - re (csub (nth i fj cz) (nth i f0 cz)) * 0)%float
                      / FR (d * d + 0 * 0)%float) ->
        Rabs (FR (re (nth i fj cz)) - Ar) <= ea -> Rabs (FR (im (nth i fj cz)) - Ai) <= ea ->
        Rabs (FR (re (nth i f0 cz)) - Br) <= eb -> Rabs (FR (im (nth i f0 cz)) - Bi) <= eb ->
        Rabs (FR (re q) - (Ar - Br) / FR d) <= (gam u64 6 * Rabs (Ar - Br) + (1 + gam u64 6) * (ea + eb)) / Rabs (FR d) /\
        Rabs (FR (im q) - (Ai - Bi) / FR d) <= (gam u64 6 * Rabs (Ai - Bi) + (1 + gam u64 6) * (ea + eb)) / Rabs (FR d).
Proof.
  intros H. apply jacobian_gen_lemma in H as (_ & f0 & E0 & _ & Rw & Cl & Hent).
  exists f0. split; [exact E0|]. split; [exact Rw|]. split; [exact Cl|].
  intros i j Hi Hj. destruct (Hent i j Hi Hj) as (fj & q & Ej & _ & Eq & Em).
  exists fj, q. split; [exact Ej|]. split; [exact Em|]. split; [exact Eq|].
  intros Ar Ai Br Bi ea eb Fr Fi Dn Ur Ui Ud Uqr Uqi Har Hai Hbr Hbi.
  cbn [NA NCplx CArith T SA SAF] in *.
  set (a := nth i fj cz) in *. set (b := nth i f0 cz) in *.
  destruct (cdiv_real_float (csub a b) d q Eq Fr Fi Dn Ur Ui Ud Uqr Uqi) as (Hd & Fzr & Fzi & Pr & Pi & Br5 & Bi5 & Er & Ei).
  change (re (csub a b)) with (re a - re b)%float in Fzr, Er. change (im (csub a b)) with (im a - im b)%float in Fzi, Ei.
  destruct (fsub_finite_inv _ _ Fzr) as (_ & _ & Sr). destruct (fsub_finite_inv _ _ Fzi) as (_ & _ & Si).
  rewrite <- (Fsub_fmt _ _ (FR_fmt (re a)) (FR_fmt (re b))) in Sr. rewrite <- (Fsub_fmt _ _ (FR_fmt (im a)) (FR_fmt (im b))) in Si.
  destruct (Fsub_ok (FR (re a)) (FR (re b))) as (s1 & Hs1 & Es1). destruct (Fsub_ok (FR (im a)) (FR (im b))) as (s2 & Hs2 & Es2).
  rewrite Sr, Es1 in Er. rewrite Si, Es2 in Ei.
  assert (G1 : Rabs ((1 + s1) * Pr - 1) <= gam u64 6).
  { apply (bnd_gam u64 u64_range 6); [|exact six_u64]. change 6%nat with (1 + 5)%nat.
    apply (bnd_mul u64 u64_range 1 5); [apply (bnd_1pd u64 u64_range); exact Hs1|exact Br5]. }
  assert (G2 : Rabs ((1 + s2) * Pi - 1) <= gam u64 6).
  { apply (bnd_gam u64 u64_range 6); [|exact six_u64]. change 6%nat with (1 + 5)%nat.
    apply (bnd_mul u64 u64_range 1 5); [apply (bnd_1pd u64 u64_range); exact Hs2|exact Bi5]. }
  split.
  - rewrite Er. replace ((FR (re a) - FR (re b)) * (1 + s1) / FR d * Pr) with ((FR (re a) - FR (re b)) / FR d * ((1 + s1) * Pr)) by (field; exact Hd).
    now apply quot_error_abs.
  - rewrite Ei. replace ((FR (im a) - FR (im b)) * (1 + s2) / FR d * Pi) with ((FR (im a) - FR (im b)) / FR d * ((1 + s2) * Pi)) by (field; exact Hd).
    now apply quot_error_abs.
Qed.

(* ---------------------------------------------------------------- non-vacuity of the complex entry floor: the identity on C^1 at 1 + i with the
   non-dyadic step 0.1: the entry is 1.0000000000000007 + 0 i *)
From OV Require Import Proofs.ParDotFloat Proofs.Round2Lin.
Definition excf_x : list cf := [mkC (A := AF) 1%float 1%float].
Definition excf_a : cf := mkC (A := AF) 0x1.199999999999ap+0%float 1%float.      (* the call point (1 (+) 0.1, 1 (+) 0) *)
Definition excf_J : matrix (NA OC) := @mkM (NA OC) [mkC (A := AF) 0x1.0000000000003p+0%float 0%float] 1 1.

Lemma excf_run : jacobian OC (fun p => Ok p) excf_x (emb OC exf_d) = Ok (excf_J, [excf_x; [excf_a]]).
Proof. vm_compute. reflexivity. Qed.

Lemma excf_den : Dy (exf_d * exf_d + 0 * 0)%float 5764607523034236 (-59).
Proof. dyw. Qed.
Lemma excf_nr : Dy ((0x1.199999999999ap+0 - 1) * exf_d + (1 - 1) * 0)%float 5764607523034240 (-59).
Proof. dyw. Qed.
Lemma excf_ni : Dy ((1 - 1) * exf_d - (0x1.199999999999ap+0 - 1) * 0)%float 0 0.
Proof. dyw. Qed.
Lemma excf_zi : Dy (1 - 1)%float 0 0.
Proof. dyw. Qed.

Lemma excf_floor_conditions :
  let z := csub excf_a (nth 0 excf_x cz) in
  ffinite (re (nth 0 (buf excf_J) cz)) /\ ffinite (im (nth 0 (buf excf_J) cz)) /\
  FR (exf_d * exf_d + 0 * 0)%float <> 0 /\
  no_underflow (FR (re z) * FR exf_d) /\ no_underflow (FR (im z) * FR exf_d) /\ no_underflow (FR exf_d * FR exf_d) /\
  no_underflow (FR (re z * exf_d + im z * 0)%float / FR (exf_d * exf_d + 0 * 0)%float) /\
  no_underflow (FR (im z * exf_d - re z * 0)%float / FR (exf_d * exf_d + 0 * 0)%float).
Proof.
  cbn zeta. change (re (csub excf_a (nth 0 excf_x cz))) with (0x1.199999999999ap+0 - 1)%float.
  change (im (csub excf_a (nth 0 excf_x cz))) with (1 - 1)%float.
  split; [apply ffinite_SF; vm_compute; reflexivity|]. split; [apply ffinite_SF; vm_compute; reflexivity|].
  split; [rewrite (Dy_FR _ _ _ excf_den); simpl; lra|].
  split; [apply no_underflow_ge_small; rewrite (Dy_FR _ _ _ exf_diff), (Dy_FR _ _ _ exf_d_dy); simpl; rewrite Rabs_pos_eq; lra|].
  split; [left; rewrite (Dy_FR _ _ _ excf_zi); simpl; lra|].
  split; [apply no_underflow_ge_small; rewrite (Dy_FR _ _ _ exf_d_dy); simpl; rewrite Rabs_pos_eq; lra|].
  split.
  - apply no_underflow_ge1. rewrite (Dy_FR _ _ _ excf_nr), (Dy_FR _ _ _ excf_den). simpl. rewrite Rabs_pos_eq; lra.
  - left. rewrite (Dy_FR _ _ _ excf_ni). simpl. lra.
Qed.
