(* Proofs/MatrixRefine.v -- histories: the flat row-major model refines a list-of-rows specification.

   Specification state [smat]: the list of rows together with the declared number of columns (a bare
   list of rows cannot tell a 0 x 3 matrix from a 0 x 5 one, and the code can: transpose, resize).
   The specification never mentions the flat buffer or an offset i*cols+j: every operation is given
   by its textbook entry formula over [sget X i j] = the j-th element of the i-th row, and its
   documented range/shape condition.  [absM] reads the rows out of the flat buffer.

   [step_refines]: one operation of the model (Model/MatOps.v [mstep]) on a well-formed matrix either
   succeeds exactly when the specification's does, with abstractions equal and wf preserved, or
   both panic with the same kind.  [run_refines] lifts this to every finite history, with the
   history semantics of the correspondence check ([mrun_state]: a panicking operation leaves the
   matrix as it was, what C20 demands).

   Operations covered: set_row set_col delete_row resize transpose_in_place swap_rows fill fill_diag
   fill_band fill_tridiag fill_row fill_col clear  += -= (matrix)  *= += -= (scalar).
   Not covered: the raw (i,j) writes [OSet]/[OSwapElem] (unchecked addressing, outside the claim:
   an out-of-range (i,j) that stays inside the buffer aliases another element) and [/= scalar]
   (needs the field laws; its own theorem is mdiv_assign_scalar_spec).  The value-returning
   operations do not change the state. *)
From Coq Require Import List Arith Lia Bool ZArith.
From OV Require Import Base.Panic Base.Arith Model.Vector Model.Matrix Model.MatOps.
From OV Require Import Proofs.Matrix Proofs.MatrixArith.
Import ListNotations.

Section Refine.
Context {A : Arith}.
Notation T := (T A).
Notation matrix := (matrix A).

Record smat := mkS { sc : nat; srows : list (list T) }.
Definition snr (X : smat) : nat := length (srows X).
Definition sget (X : smat) (i j : nat) : T := nth j (nth i (srows X) []) zero.
Definition tab (r c : nat) (f : nat -> nat -> T) : smat :=
  mkS c (map (fun i => map (f i) (seq 0 c)) (seq 0 r)).

Definition absM (m : matrix) : smat := tab (rows m) (cols m) (entry m).

Lemma snr_tab r c f : snr (tab r c f) = r.
Proof. unfold snr, tab; cbn. now rewrite map_length, seq_length. Qed.
Lemma sc_tab r c f : sc (tab r c f) = c.
Proof. reflexivity. Qed.

Lemma sget_tab r c f i j : i < r -> j < c -> sget (tab r c f) i j = f i j.
Proof.
  intros Hi Hj. unfold sget, tab; cbn.
  rewrite (nth_indep _ [] (map (f 0) (seq 0 c))) by (now rewrite map_length, seq_length).
  rewrite (map_nth (fun i => map (f i) (seq 0 c)) (seq 0 r) 0 i), seq_nth by auto. cbn.
  rewrite (nth_indep _ zero (f i 0)) by (now rewrite map_length, seq_length).
  now rewrite (map_nth (f i) (seq 0 c) 0 j), seq_nth by auto.
Qed.

Lemma tab_ext r c f g : (forall i j, i < r -> j < c -> f i j = g i j) -> tab r c f = tab r c g.
Proof.
  intros H. unfold tab. f_equal. apply map_ext_in. intros i Hi. apply in_seq in Hi.
  apply map_ext_in. intros j Hj. apply in_seq in Hj. apply H; lia.
Qed.

Lemma msp_absM r c f (m : matrix) : msp r c f m -> absM m = tab r c f.
Proof. intros (_ & Hr & Hc & He). unfold absM. rewrite Hr, Hc. now apply tab_ext. Qed.

(* ---------- the editing operations and their list-of-rows specification ---------- *)
Inductive eop :=
| ESetRow (r : nat) (v : list T) | ESetCol (c : nat) (v : list T) | EDeleteRow (r : nat)
| EResize (r c : nat) | ETransposeInPlace | ESwapRows (r1 r2 : nat)
| EFill (x : T) | EFillDiag (x : T) | EFillBand (o : Z) (x : T) | EFillTridiag (l d u : T)
| EFillRow (r : nat) (x : T) | EFillCol (c : nat) (x : T) | EClear
| EAddAssign (b : matrix) | ESubAssign (b : matrix)
| EMulAssignS (x : T) | EAddAssignS (x : T) | ESubAssignS (x : T).

Definition to_mop (o : eop) : mop A :=
  match o with
  | ESetRow r v => OSetRow r v | ESetCol c v => OSetCol c v | EDeleteRow r => ODeleteRow r
  | EResize r c => OResize r c | ETransposeInPlace => OTransposeInPlace | ESwapRows a b => OSwapRows a b
  | EFill x => OFill x | EFillDiag x => OFillDiag x | EFillBand o x => OFillBand o x
  | EFillTridiag l d u => OFillTridiag l d u | EFillRow r x => OFillRow r x | EFillCol c x => OFillCol c x
  | EClear => OClear | EAddAssign b => OAddAssign b | ESubAssign b => OSubAssign b
  | EMulAssignS x => OMulAssignS x | EAddAssignS x => OAddAssignS x | ESubAssignS x => OSubAssignS x
  end.

(* operands of += / -= are themselves well-formed matrices *)
Definition eop_wf (o : eop) : Prop :=
  match o with EAddAssign b | ESubAssign b => wf b | _ => True end.

Definition sstep (X : smat) (o : eop) : res smat :=
  let r := snr X in
  let c := sc X in
  match o with
  | ESetRow i v =>
      if negb (length v =? c) then Panic Guard else if r <=? i then Panic Guard else
      Ok (tab r c (fun i' j' => if i' =? i then nth j' v zero else sget X i' j'))
  | ESetCol j v =>
      if negb (length v =? r) then Panic Guard else if c <=? j then Panic Guard else
      Ok (tab r c (fun i' j' => if j' =? j then nth i' v zero else sget X i' j'))
  | EDeleteRow i =>
      if r <=? i then Panic Guard else
      Ok (tab (r - 1) c (fun i' j' => if i' <? i then sget X i' j' else sget X (S i') j'))
  | EResize nr nc => Ok (tab nr nc (fun i j => if (i <? r) && (j <? c) then sget X i j else zero))
  | ETransposeInPlace => Ok (tab c r (fun i j => sget X j i))
  | ESwapRows a b =>
      if (r <=? a) || (r <=? b) then Panic Guard else
      Ok (tab r c (fun i j => if i =? a then sget X b j else if i =? b then sget X a j else sget X i j))
  | EFill x => Ok (tab r c (fun _ _ => x))
  | EFillDiag x => Ok (tab r c (fun i j => if i =? j then x else sget X i j))
  | EFillBand o x => Ok (tab r c (fun i j => if (Z.of_nat j =? Z.of_nat i + o)%Z then x else sget X i j))
  | EFillTridiag l d u =>
      Ok (tab r c (fun i j => if j =? i + 1 then u else if i =? j then d else if i =? j + 1 then l else sget X i j))
  | EFillRow i x =>
      if r <=? i then Panic Guard else Ok (tab r c (fun i' j' => if i' =? i then x else sget X i' j'))
  | EFillCol j x =>
      if c <=? j then Panic Guard else Ok (tab r c (fun i' j' => if j' =? j then x else sget X i' j'))
  | EClear => Ok (tab 0 0 (fun _ _ => zero))
  | EAddAssign b =>
      if negb (r =? rows b) then Panic Guard else if negb (c =? cols b) then Panic Guard else
      Ok (tab r c (fun i j => add (sget X i j) (sget (absM b) i j)))
  | ESubAssign b =>
      if negb (r =? rows b) then Panic Guard else if negb (c =? cols b) then Panic Guard else
      Ok (tab r c (fun i j => sub (sget X i j) (sget (absM b) i j)))
  | EMulAssignS x => Ok (tab r c (fun i j => mul (sget X i j) x))
  | EAddAssignS x => Ok (tab r c (fun i j => add (sget X i j) x))
  | ESubAssignS x => Ok (tab r c (fun i j => sub (sget X i j) x))
  end.

Lemma snr_absM (m : matrix) : snr (absM m) = rows m.
Proof. apply snr_tab. Qed.
Lemma sc_absM (m : matrix) : sc (absM m) = cols m.
Proof. reflexivity. Qed.

Lemma sget_absM (m : matrix) i j : i < rows m -> j < cols m -> sget (absM m) i j = entry m i j.
Proof. intros; now apply sget_tab. Qed.

Definition step_rel (m : matrix) (o : eop) : Prop :=
  match mstep m (to_mop o), sstep (absM m) o with
  | Ok (m', _), Ok X' => wf m' /\ absM m' = X'
  | Panic k, Panic k' => k = k'
  | _, _ => False
  end.

(* closing tactic for the success cases: the model's result is an msp, the spec's a tab *)
Ltac finish Hm' :=
  split; [exact (proj1 Hm') |];
  rewrite (msp_absM _ _ _ _ Hm'); apply tab_ext; intros i j Hi Hj;
  repeat (rewrite sget_absM by lia); bdestr;
  repeat (rewrite sget_absM by lia); try reflexivity.

Lemma step_refines (m : matrix) (o : eop) : wf m -> eop_wf o -> step_rel m o.
Proof.
  intros Hw Ho. pose proof (msp_self m Hw) as Hm.
  unfold step_rel, sstep. cbn zeta.
  destruct o; cbn [to_mop mstep eop_wf] in *; rewrite ?snr_absM, ?sc_absM.
  - (* set_row *)
    destruct (Nat.eqb_spec (length v) (cols m)) as [Hv|Hv]; cbn [negb].
    + destruct (Nat.leb_spec (rows m) r) as [Hr|Hr].
      * rewrite set_row_guard by auto. reflexivity.
      * destruct (set_row_msp _ _ _ m r v Hm Hv Hr) as (m' & E & Hm'). rewrite E; cbn [bind]. finish Hm'.
    + rewrite set_row_guard by auto. reflexivity.
  - (* set_col *)
    destruct (Nat.eqb_spec (length v) (rows m)) as [Hv|Hv]; cbn [negb].
    + destruct (Nat.leb_spec (cols m) c) as [Hc|Hc].
      * rewrite set_col_guard by auto. reflexivity.
      * destruct (set_col_msp _ _ _ m c v Hm Hv Hc) as (m' & E & Hm'). rewrite E; cbn [bind]. finish Hm'.
    + rewrite set_col_guard by auto. reflexivity.
  - (* delete_row *)
    destruct (Nat.leb_spec (rows m) r) as [Hr|Hr].
    + rewrite delete_row_guard by auto. reflexivity.
    + destruct (delete_row_msp _ _ _ m r Hm Hr) as (m' & E & Hm'). rewrite E; cbn [bind]. finish Hm'.
  - (* resize *)
    destruct (resize_msp _ _ _ m r c Hm) as (m' & E & Hm'). rewrite E; cbn [bind]. finish Hm'.
  - (* transpose_in_place *)
    destruct (transpose_in_place_msp _ _ _ m Hm) as (m' & E & Hm'). rewrite E; cbn [bind]. finish Hm'.
  - (* swap_rows *)
    destruct (Nat.leb_spec (rows m) r1) as [H1|H1]; cbn [orb].
    + rewrite swap_rows_guard by auto. reflexivity.
    + destruct (Nat.leb_spec (rows m) r2) as [H2|H2].
      * rewrite swap_rows_guard by auto. reflexivity.
      * destruct (swap_rows_msp _ _ _ m r1 r2 Hm H1 H2) as (m' & E & Hm'). rewrite E; cbn [bind]. finish Hm'.
  - (* fill *)
    destruct (fill_msp _ _ _ m x Hm) as (m' & E & Hm'). rewrite E; cbn [bind]. finish Hm'.
  - (* fill_diag *)
    destruct (fill_diag_msp _ _ _ m x Hm) as (m' & E & Hm'). rewrite E; cbn [bind]. finish Hm'.
  - (* fill_band *)
    destruct (fill_band_msp _ _ _ m o x Hm) as (m' & E & Hm'). rewrite E; cbn [bind]. finish Hm'.
  - (* fill_tridiag *)
    destruct (fill_tridiag_msp _ _ _ m l d u Hm) as (m' & E & Hm'). rewrite E; cbn [bind]. finish Hm'.
  - (* fill_row *)
    destruct (Nat.leb_spec (rows m) r) as [Hr|Hr].
    + rewrite fill_row_guard by auto. reflexivity.
    + destruct (fill_row_msp _ _ _ m r x Hm Hr) as (m' & E & Hm'). rewrite E; cbn [bind]. finish Hm'.
  - (* fill_col *)
    destruct (Nat.leb_spec (cols m) c) as [Hc|Hc].
    + rewrite fill_col_guard by auto. reflexivity.
    + destruct (fill_col_msp _ _ _ m c x Hm Hc) as (m' & E & Hm'). rewrite E; cbn [bind]. finish Hm'.
  - (* clear *)
    split; [reflexivity|]. reflexivity.
  - (* += matrix *)
    destruct (Nat.eqb_spec (rows m) (rows b)) as [Hr|Hr]; cbn [negb].
    + destruct (Nat.eqb_spec (cols m) (cols b)) as [Hc|Hc]; cbn [negb].
      * assert (Hb : msp (rows m) (cols m) (entry b) b) by (rewrite Hr, Hc; now apply msp_self).
        destruct (madd_assign_msp _ _ _ _ m b Hm Hb) as (m' & E & Hm'). rewrite E; cbn [bind].
        split; [exact (proj1 Hm')|]. rewrite (msp_absM _ _ _ _ Hm'). apply tab_ext. intros i j Hi Hj.
        rewrite !sget_absM by lia. reflexivity.
      * rewrite madd_assign_guard by auto. reflexivity.
    + rewrite madd_assign_guard by auto. reflexivity.
  - (* -= matrix *)
    destruct (Nat.eqb_spec (rows m) (rows b)) as [Hr|Hr]; cbn [negb].
    + destruct (Nat.eqb_spec (cols m) (cols b)) as [Hc|Hc]; cbn [negb].
      * assert (Hb : msp (rows m) (cols m) (entry b) b) by (rewrite Hr, Hc; now apply msp_self).
        destruct (msub_assign_msp _ _ _ _ m b Hm Hb) as (m' & E & Hm'). rewrite E; cbn [bind].
        split; [exact (proj1 Hm')|]. rewrite (msp_absM _ _ _ _ Hm'). apply tab_ext. intros i j Hi Hj.
        rewrite !sget_absM by lia. reflexivity.
      * rewrite msub_assign_guard by auto. reflexivity.
    + rewrite msub_assign_guard by auto. reflexivity.
  - destruct (mmul_assign_scalar_msp _ _ _ m x Hm) as (m' & E & Hm'). rewrite E; cbn [bind]. finish Hm'.
  - destruct (madd_assign_scalar_msp _ _ _ m x Hm) as (m' & E & Hm'). rewrite E; cbn [bind]. finish Hm'.
  - destruct (msub_assign_scalar_msp _ _ _ m x Hm) as (m' & E & Hm'). rewrite E; cbn [bind]. finish Hm'.
Qed.

(* ---------- histories ---------- *)
Definition srun (X : smat) (ops : list eop) : smat :=
  fold_left (fun X o => match sstep X o with Ok X' => X' | Panic _ => X end) ops X.

Theorem run_refines_lemma (ops : list eop) (m : matrix) :
  wf m -> Forall eop_wf ops ->
  wf (mrun_state m (map to_mop ops)) /\ absM (mrun_state m (map to_mop ops)) = srun (absM m) ops.
Proof.
  unfold mrun_state, srun.
  revert m; induction ops as [|o ops IH]; intros m Hw Hops; [split; auto|].
  inversion Hops as [|? ? Ho Hrest]; subst.
  pose proof (step_refines m o Hw Ho) as Hs. unfold step_rel in Hs.
  cbn [map fold_left].
  destruct (mstep m (to_mop o)) as [[m' v]|k]; destruct (sstep (absM m) o) as [X'|k']; try contradiction.
  - destruct Hs as (Hw' & <-). apply IH; auto.
  - apply IH; auto.
Qed.

(* stop-at-first-panic semantics: the model run is Ok exactly when the specification run is, with equal abstractions *)
Fixpoint mrun_res (m : matrix) (ops : list eop) : res matrix :=
  match ops with
  | [] => Ok m
  | o :: t => let* p := mstep m (to_mop o) in mrun_res (fst p) t
  end.
Fixpoint srun_res (X : smat) (ops : list eop) : res smat :=
  match ops with
  | [] => Ok X
  | o :: t => let* X' := sstep X o in srun_res X' t
  end.

Theorem run_refines_res_lemma (ops : list eop) (m : matrix) :
  wf m -> Forall eop_wf ops ->
  match mrun_res m ops, srun_res (absM m) ops with
  | Ok m', Ok X' => wf m' /\ absM m' = X'
  | Panic k, Panic k' => k = k'
  | _, _ => False
  end.
Proof.
  revert m; induction ops as [|o ops IH]; intros m Hw Hops; [cbn; auto|].
  inversion Hops as [|? ? Ho Hrest]; subst.
  pose proof (step_refines m o Hw Ho) as Hs. unfold step_rel in Hs.
  cbn [mrun_res srun_res].
  destruct (mstep m (to_mop o)) as [[m' v]|k]; destruct (sstep (absM m) o) as [X'|k']; try contradiction; cbn [bind fst].
  - destruct Hs as (Hw' & <-). apply IH; auto.
  - exact Hs.
Qed.

End Refine.
