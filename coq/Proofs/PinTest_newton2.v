(* Proofs/PinTest_newton2.v -- compiled copy of the pinned blocks of package newton2:
   Props/pending/C17_newton2.v.txt followed by Props/pending/C18_newton2.v.txt, verbatim, behind a header that
   reproduces the imports and the scope state at the end of Props/C17.v (resp. Props/C18.v).
   Regenerate with:  (header; cat Props/pending/C17_newton2.v.txt Props/pending/C18_newton2.v.txt) > this file. *)
From Coq Require Import List Arith Reals Lra ZArith QArith Qcanon.
From OV Require Import Base.Panic Base.Arith Model.Vector Model.Matrix Model.Solve Model.Newton
  Proofs.Matrix Proofs.NewtonLoop Proofs.Newton Proofs.NewtonJac Proofs.NewtonSys Proofs.NewtonReal Inst.QcInst
  Legacy.C18Refuted.
Import ListNotations.
Local Open Scope nat_scope.
Local Open Scope R_scope.
(* ---- end of header ---- *)
(* ======================================================================================
   C17, round two (package newton2) -- to be appended at the END of Props/C17.v.

   What is added to the success half of C17 ("inside its basin of quadratic convergence the
   solver returns Ok at a distance of the order of the tolerance from the root"):

   A. affine systems, the `_partial` premise discharged (C01: solve_basic_sound + solve_basic_complete
      + solutions_unique): newton_sys_affine / newton_sysjac_affine -- no panic, Ok of THE root
      within two passes, over any FieldLaws + PivLaws arithmetic; corollaries at Qc, R and C.
   B. general differentiable f over R (on [a,b]: f' exists, 0 < m <= |f'| <= Mb, f' L-Lipschitz),
      the code's finite-difference scalar solve (newton_scalar at NRl):
        newton_ok_near_root_general   "Ok => distance of the order of tol" : covers the SECOND half
                                      of the sentence (given the last pass lay in [a,b]);
        newton_basin_no_panic / _contraction / _ok / _pass_count
                                      "inside the basin => Ok": covers the FIRST half, the basin being
                                      |x0 - r| <= rho with (L/m)(rho + |delta|) < 1.
   C. the supplied-derivative variant on a 1 x 1 system (newton_sysjac at NRl, exact f'):
        newton_quadratic_step         one-step inequality |x' - r| <= (L/m) |x - r|^2;
        newton_monotone_*             convex increasing f from the right of the root: no panic,
                                      monotone iterates, Ok within an explicit number of passes,
                                      0 <= x - r <= tol / f'(r)  (both halves, global basin).
   D. further variants and the sharpness of the hypotheses:
        newton_sqrt_converges         x^2 - c from ANY x0 > 0: Ok as soon as (max_iter - 1) tol > (x0 + c/x0)/2 - sqrt c
                                      (completes newton_sqrt: first half of the sentence, basin = half line);
        central_difference_truncation / scalar_derivative_truncation
                                      the slope of the scalar pass is within (delta^2/6) sup|f^(3)| of f'(y);
        newton_scalar_affine_exact / newton_affine_exact_C
                                      the scalar solve on a z + b over any field, and Newton<Cmplx>::solve;
        newton_sys1d_ok_near_root / newton_sys1d_basin_no_panic / newton_sys1d_basin_ok
                                      the finite-difference SYSTEM solve (func, norm_inf, Mat64::jacobian,
                                      solve_basic, vector update) on a nonlinear 1 x 1 system, both halves;
        newton_sys_affine_one_pass    2 <= max_iter is sharp: one pass already yields the exact root but reports
                                      it as Err unless the guess had a small residual;
        newton_sys_empty_panics / newton_sysjac_empty_panics
                                      1 <= rows M is sharp: a 0-dimensional system panics (norm_inf reads vec[0]).
   E. nonlinear systems of ANY dimension in the decoupled case F(x)_i = f_i(x_i) with the exact diagonal Jacobian
      (solve_jacobian over R): sysjac_decoupled_pass, newton_decoupled_no_panic / _ok_close / _ok -- both halves,
      sup-norm basin, quadratic contraction; the dim x dim elimination of each pass is discharged by C01;
      and the same for the finite-difference variant (solve): newton_fd_decoupled_no_panic / _ok_close / _ok.
   Still not proved: float rounding (tie); basins for COUPLED nonlinear systems of dimension > 1; nonlinear complex functions.
   ====================================================================================== *)
From Coq Require Import Lia.
From OV Require Import Proofs.SolveBase Proofs.Solve Proofs.SolveQc Proofs.Newton2Sys Proofs.Newton2Real
  Proofs.Newton2Scalar Proofs.Newton2Mono Proofs.Newton2Sqrt Proofs.Newton2Sys1d Proofs.Newton2Diag Proofs.Newton2Wit.
From OV Require Proofs.SolveC Proofs.Newton2Inst Proofs.Newton2Cplx Proofs.Newton2Cdq Proofs.Newton2DiagFD.
Local Close Scope R_scope.
Local Open Scope nat_scope.

(* ---------------- A. affine systems: no panic, Ok of the unique root within two passes ---------------- *)
Theorem newton_sys_affine : forall (O : NOps), FieldLaws (NA O) -> PivLaws (NA O) ->
  forall (M : matrix (NA O)) (c0 : list (NA O)) (tl dl : NR O),
  wf M -> rows M = cols M -> 1 <= rows M -> emb O dl <> zero ->
  ltb (mag O zero) (mag O zero) = false -> leb (mag O zero) tl = true ->
  (exists N : nat -> nat -> NA O, left_inverse (rows M) N (ent M)) ->
  forall n x0, length x0 = cols M -> 2 <= n ->
  exists x evs, newton_sys O (mkCfg tl dl n x0) (fun p => Ok (aff O M c0 p)) = Ok (NOk x, evs) /\
    length x = cols M /\ is_root O M c0 x /\
    (forall y, length y = cols M -> is_root O M c0 y -> y = x) /\
    length evs <= 2 * (cols M + 2).
Proof. exact newton_sys_affine_full. Qed.
Check newton_sys_affine : forall (O : NOps), FieldLaws (NA O) -> PivLaws (NA O) ->
  forall (M : matrix (NA O)) (c0 : list (NA O)) (tl dl : NR O),
  wf M -> rows M = cols M -> 1 <= rows M -> emb O dl <> zero ->
  ltb (mag O zero) (mag O zero) = false -> leb (mag O zero) tl = true ->
  (exists N : nat -> nat -> NA O, left_inverse (rows M) N (ent M)) ->
  forall n x0, length x0 = cols M -> 2 <= n ->
  exists x evs, newton_sys O (mkCfg tl dl n x0) (fun p => Ok (aff O M c0 p)) = Ok (NOk x, evs) /\
    length x = cols M /\ is_root O M c0 x /\
    (forall y, length y = cols M -> is_root O M c0 y -> y = x) /\
    length evs <= 2 * (cols M + 2).
Print Assumptions newton_sys_affine.

Theorem newton_sysjac_affine : forall (O : NOps), FieldLaws (NA O) -> PivLaws (NA O) ->
  forall (M : matrix (NA O)) (c0 : list (NA O)) (tl dl : NR O),
  wf M -> rows M = cols M -> 1 <= rows M ->
  ltb (mag O zero) (mag O zero) = false -> leb (mag O zero) tl = true ->
  (exists N : nat -> nat -> NA O, left_inverse (rows M) N (ent M)) ->
  forall n x0, length x0 = cols M -> 2 <= n ->
  exists x evs, newton_sysjac O (mkCfg tl dl n x0) (fun p => Ok (aff O M c0 p)) (fun _ => Ok M) = Ok (NOk x, evs) /\
    length x = cols M /\ is_root O M c0 x /\
    (forall y, length y = cols M -> is_root O M c0 y -> y = x) /\
    length evs <= 4.
Proof. exact newton_sysjac_affine_full. Qed.
Check newton_sysjac_affine : forall (O : NOps), FieldLaws (NA O) -> PivLaws (NA O) ->
  forall (M : matrix (NA O)) (c0 : list (NA O)) (tl dl : NR O),
  wf M -> rows M = cols M -> 1 <= rows M ->
  ltb (mag O zero) (mag O zero) = false -> leb (mag O zero) tl = true ->
  (exists N : nat -> nat -> NA O, left_inverse (rows M) N (ent M)) ->
  forall n x0, length x0 = cols M -> 2 <= n ->
  exists x evs, newton_sysjac O (mkCfg tl dl n x0) (fun p => Ok (aff O M c0 p)) (fun _ => Ok M) = Ok (NOk x, evs) /\
    length x = cols M /\ is_root O M c0 x /\
    (forall y, length y = cols M -> is_root O M c0 y -> y = x) /\
    length evs <= 4.
Print Assumptions newton_sysjac_affine.

(* the hypotheses hold at Qc for [[2,1],[1,3]] (inverse [[3/5,-1/5],[-1/5,2/5]]), delta = 1/8, tol = 1/1000;
   newton_sys_affine_nonvacuous above is the run of the model on that system *)
Example newton_sys_affine_hyps_nonvacuous :
  PivLaws AQ /\ wf M2q /\ rows M2q = cols M2q /\ 1 <= rows M2q /\ emb (NReal AQ) (q 1 8) <> zero /\
  ltb (mag (NReal AQ) zero) (mag (NReal AQ) zero) = false /\ leb (mag (NReal AQ) zero) (q 1 1000) = true /\
  (exists N : nat -> nat -> AQ, left_inverse (rows M2q) N (ent M2q)) /\ length [q 0 1; q 0 1] = cols M2q.
Proof.
  split; [exact AQ_PivLaws|]. split; [reflexivity|]. split; [reflexivity|]. split; [cbn; lia|].
  split; [exact q18_nonzero|]. split; [reflexivity|]. split; [reflexivity|].
  split; [exists (ent N2q); exact M2q_left_inverse|reflexivity].
Qed.

(* at Qc, the arithmetic of the exact tier of the correspondence check *)
Theorem newton_sys_affine_Qc : forall (M : matrix AQ) (c0 : list AQ) (tl dl : Qc) n x0,
  wf M -> rows M = cols M -> 1 <= rows M -> dl <> 0%Qc -> (0 <= tl)%Qc ->
  (exists N : nat -> nat -> AQ, left_inverse (rows M) N (ent M)) ->
  length x0 = cols M -> 2 <= n ->
  exists x evs, newton_sys (NReal AQ) (mkCfg tl dl n x0) (fun p => Ok (aff (NReal AQ) M c0 p)) = Ok (NOk x, evs) /\
    length x = cols M /\ is_root (NReal AQ) M c0 x /\
    (forall y, length y = cols M -> is_root (NReal AQ) M c0 y -> y = x) /\
    length evs <= 2 * (cols M + 2).
Proof. exact Newton2Inst.newton_sys_affine_Qc_lemma. Qed.
Check newton_sys_affine_Qc : forall (M : matrix AQ) (c0 : list AQ) (tl dl : Qc) n x0,
  wf M -> rows M = cols M -> 1 <= rows M -> dl <> 0%Qc -> (0 <= tl)%Qc ->
  (exists N : nat -> nat -> AQ, left_inverse (rows M) N (ent M)) ->
  length x0 = cols M -> 2 <= n ->
  exists x evs, newton_sys (NReal AQ) (mkCfg tl dl n x0) (fun p => Ok (aff (NReal AQ) M c0 p)) = Ok (NOk x, evs) /\
    length x = cols M /\ is_root (NReal AQ) M c0 x /\
    (forall y, length y = cols M -> is_root (NReal AQ) M c0 y -> y = x) /\
    length evs <= 2 * (cols M + 2).
Print Assumptions newton_sys_affine_Qc.

Theorem newton_sysjac_affine_Qc : forall (M : matrix AQ) (c0 : list AQ) (tl dl : Qc) n x0,
  wf M -> rows M = cols M -> 1 <= rows M -> (0 <= tl)%Qc ->
  (exists N : nat -> nat -> AQ, left_inverse (rows M) N (ent M)) ->
  length x0 = cols M -> 2 <= n ->
  exists x evs, newton_sysjac (NReal AQ) (mkCfg tl dl n x0) (fun p => Ok (aff (NReal AQ) M c0 p)) (fun _ => Ok M) = Ok (NOk x, evs) /\
    length x = cols M /\ is_root (NReal AQ) M c0 x /\
    (forall y, length y = cols M -> is_root (NReal AQ) M c0 y -> y = x) /\
    length evs <= 4.
Proof. exact Newton2Inst.newton_sysjac_affine_Qc_lemma. Qed.
Check newton_sysjac_affine_Qc : forall (M : matrix AQ) (c0 : list AQ) (tl dl : Qc) n x0,
  wf M -> rows M = cols M -> 1 <= rows M -> (0 <= tl)%Qc ->
  (exists N : nat -> nat -> AQ, left_inverse (rows M) N (ent M)) ->
  length x0 = cols M -> 2 <= n ->
  exists x evs, newton_sysjac (NReal AQ) (mkCfg tl dl n x0) (fun p => Ok (aff (NReal AQ) M c0 p)) (fun _ => Ok M) = Ok (NOk x, evs) /\
    length x = cols M /\ is_root (NReal AQ) M c0 x /\
    (forall y, length y = cols M -> is_root (NReal AQ) M c0 y -> y = x) /\
    length evs <= 4.
Print Assumptions newton_sysjac_affine_Qc.

Example newton_sys_affine_Qc_nonvacuous :
  wf M2q /\ rows M2q = cols M2q /\ 1 <= rows M2q /\ q 1 8 <> 0%Qc /\ (0 <= q 1 1000)%Qc /\
  (exists N : nat -> nat -> AQ, left_inverse (rows M2q) N (ent M2q)) /\ length [q 0 1; q 0 1] = cols M2q.
Proof.
  split; [reflexivity|]. split; [reflexivity|]. split; [cbn; lia|]. split; [exact q18_nonzero|].
  split; [discriminate|]. split; [exists (ent N2q); exact M2q_left_inverse|reflexivity].
Qed.

(* over the reals (NRl, the idealisation of Newton<Vec64>) *)
Theorem newton_sys_affine_R : forall (M : matrix AR) (c0 : list AR) (tl dl : R) n x0,
  wf M -> rows M = cols M -> 1 <= rows M -> dl <> 0%R -> (0 <= tl)%R ->
  (exists N : nat -> nat -> AR, left_inverse (rows M) N (ent M)) ->
  length x0 = cols M -> 2 <= n ->
  exists x evs, newton_sys NRl (mkCfg tl dl n x0) (fun p => Ok (aff NRl M c0 p)) = Ok (NOk x, evs) /\
    length x = cols M /\ is_root NRl M c0 x /\
    (forall y, length y = cols M -> is_root NRl M c0 y -> y = x) /\
    length evs <= 2 * (cols M + 2).
Proof. exact newton_sys_affine_R_lemma. Qed.
Check newton_sys_affine_R : forall (M : matrix AR) (c0 : list AR) (tl dl : R) n x0,
  wf M -> rows M = cols M -> 1 <= rows M -> dl <> 0%R -> (0 <= tl)%R ->
  (exists N : nat -> nat -> AR, left_inverse (rows M) N (ent M)) ->
  length x0 = cols M -> 2 <= n ->
  exists x evs, newton_sys NRl (mkCfg tl dl n x0) (fun p => Ok (aff NRl M c0 p)) = Ok (NOk x, evs) /\
    length x = cols M /\ is_root NRl M c0 x /\
    (forall y, length y = cols M -> is_root NRl M c0 y -> y = x) /\
    length evs <= 2 * (cols M + 2).
Print Assumptions newton_sys_affine_R.

Theorem newton_sysjac_affine_R : forall (M : matrix AR) (c0 : list AR) (tl dl : R) n x0,
  wf M -> rows M = cols M -> 1 <= rows M -> (0 <= tl)%R ->
  (exists N : nat -> nat -> AR, left_inverse (rows M) N (ent M)) ->
  length x0 = cols M -> 2 <= n ->
  exists x evs, newton_sysjac NRl (mkCfg tl dl n x0) (fun p => Ok (aff NRl M c0 p)) (fun _ => Ok M) = Ok (NOk x, evs) /\
    length x = cols M /\ is_root NRl M c0 x /\
    (forall y, length y = cols M -> is_root NRl M c0 y -> y = x) /\
    length evs <= 4.
Proof. exact newton_sysjac_affine_R_lemma. Qed.
Check newton_sysjac_affine_R : forall (M : matrix AR) (c0 : list AR) (tl dl : R) n x0,
  wf M -> rows M = cols M -> 1 <= rows M -> (0 <= tl)%R ->
  (exists N : nat -> nat -> AR, left_inverse (rows M) N (ent M)) ->
  length x0 = cols M -> 2 <= n ->
  exists x evs, newton_sysjac NRl (mkCfg tl dl n x0) (fun p => Ok (aff NRl M c0 p)) (fun _ => Ok M) = Ok (NOk x, evs) /\
    length x = cols M /\ is_root NRl M c0 x /\
    (forall y, length y = cols M -> is_root NRl M c0 y -> y = x) /\
    length evs <= 4.
Print Assumptions newton_sysjac_affine_R.

Example newton_sys_affine_R_nonvacuous :
  wf M2r /\ rows M2r = cols M2r /\ 1 <= rows M2r /\
  (exists N : nat -> nat -> AR, left_inverse (rows M2r) N (ent M2r)) /\ length [0%R; 0%R] = cols M2r.
Proof.
  split; [reflexivity|]. split; [reflexivity|]. split; [cbn; lia|].
  split; [exists (ent N2r); exact M2r_left_inverse|reflexivity].
Qed.

(* over C = R[i] through NCplx (Newton2Inst.NCR = NCplx SolveC.SAR: tol and delta real, |z| = sqrt(re^2 + im^2),
   delta enters as (delta, 0)): the idealisation of Newton<Vector<Cmplx>> *)
Theorem newton_sys_affine_C : forall (M : matrix SolveC.ACR) (c0 : list SolveC.ACR) (tl dl : R) n x0,
  wf M -> rows M = cols M -> 1 <= rows M -> dl <> 0%R -> (0 <= tl)%R ->
  (exists N : nat -> nat -> SolveC.ACR, left_inverse (rows M) N (ent M)) ->
  length x0 = cols M -> 2 <= n ->
  exists x evs, newton_sys Newton2Inst.NCR (mkCfg tl dl n x0) (fun p => Ok (aff Newton2Inst.NCR M c0 p)) = Ok (NOk x, evs) /\
    length x = cols M /\ is_root Newton2Inst.NCR M c0 x /\
    (forall y, length y = cols M -> is_root Newton2Inst.NCR M c0 y -> y = x) /\
    length evs <= 2 * (cols M + 2).
Proof. exact Newton2Inst.newton_sys_affine_C_lemma. Qed.
Check newton_sys_affine_C : forall (M : matrix SolveC.ACR) (c0 : list SolveC.ACR) (tl dl : R) n x0,
  wf M -> rows M = cols M -> 1 <= rows M -> dl <> 0%R -> (0 <= tl)%R ->
  (exists N : nat -> nat -> SolveC.ACR, left_inverse (rows M) N (ent M)) ->
  length x0 = cols M -> 2 <= n ->
  exists x evs, newton_sys Newton2Inst.NCR (mkCfg tl dl n x0) (fun p => Ok (aff Newton2Inst.NCR M c0 p)) = Ok (NOk x, evs) /\
    length x = cols M /\ is_root Newton2Inst.NCR M c0 x /\
    (forall y, length y = cols M -> is_root Newton2Inst.NCR M c0 y -> y = x) /\
    length evs <= 2 * (cols M + 2).
Print Assumptions newton_sys_affine_C.

Theorem newton_sysjac_affine_C : forall (M : matrix SolveC.ACR) (c0 : list SolveC.ACR) (tl dl : R) n x0,
  wf M -> rows M = cols M -> 1 <= rows M -> (0 <= tl)%R ->
  (exists N : nat -> nat -> SolveC.ACR, left_inverse (rows M) N (ent M)) ->
  length x0 = cols M -> 2 <= n ->
  exists x evs, newton_sysjac Newton2Inst.NCR (mkCfg tl dl n x0) (fun p => Ok (aff Newton2Inst.NCR M c0 p)) (fun _ => Ok M) = Ok (NOk x, evs) /\
    length x = cols M /\ is_root Newton2Inst.NCR M c0 x /\
    (forall y, length y = cols M -> is_root Newton2Inst.NCR M c0 y -> y = x) /\
    length evs <= 4.
Proof. exact Newton2Inst.newton_sysjac_affine_C_lemma. Qed.
Check newton_sysjac_affine_C : forall (M : matrix SolveC.ACR) (c0 : list SolveC.ACR) (tl dl : R) n x0,
  wf M -> rows M = cols M -> 1 <= rows M -> (0 <= tl)%R ->
  (exists N : nat -> nat -> SolveC.ACR, left_inverse (rows M) N (ent M)) ->
  length x0 = cols M -> 2 <= n ->
  exists x evs, newton_sysjac Newton2Inst.NCR (mkCfg tl dl n x0) (fun p => Ok (aff Newton2Inst.NCR M c0 p)) (fun _ => Ok M) = Ok (NOk x, evs) /\
    length x = cols M /\ is_root Newton2Inst.NCR M c0 x /\
    (forall y, length y = cols M -> is_root Newton2Inst.NCR M c0 y -> y = x) /\
    length evs <= 4.
Print Assumptions newton_sysjac_affine_C.

(* [[1, i], [0, 1]] with inverse [[1, -i], [0, 1]] *)
Example newton_sys_affine_C_nonvacuous :
  wf Newton2Inst.M2c /\ rows Newton2Inst.M2c = cols Newton2Inst.M2c /\ 1 <= rows Newton2Inst.M2c /\
  (exists N : nat -> nat -> SolveC.ACR, left_inverse (rows Newton2Inst.M2c) N (ent Newton2Inst.M2c)).
Proof.
  split; [reflexivity|]. split; [reflexivity|]. split; [cbn; lia|].
  exists (ent Newton2Inst.N2c). exact Newton2Inst.M2c_left_inverse.
Qed.

(* ---------------- B. general f over R, the finite-difference scalar solve ---------------- *)
Local Open Scope R_scope.

(* Ok => close.  [last evs 0] is the point at which the last pass started (each pass calls f at
   y + delta, y - delta, y in this order). *)
Theorem newton_ok_near_root_general : forall (f f' : R -> R) (a b m Mb L r : R),
  (forall c, a <= c <= b -> derivable_pt_lim f c (f' c)) -> 0 < m -> 0 <= L ->
  (forall c, a <= c <= b -> m <= Rabs (f' c)) -> (forall c, a <= c <= b -> Rabs (f' c) <= Mb) ->
  (forall u v, a <= u <= b -> a <= v <= b -> Rabs (f' u - f' v) <= L * Rabs (u - v)) ->
  a <= r <= b -> f r = 0 ->
  forall (tl dl : R) (n : nat) (x0 x : R) (evs : list R),
  newton_scalar NRl (mkCfg tl dl n x0) (fun t => Ok (f t)) = Ok (NOk x, evs) ->
  a <= last evs 0 - Rabs dl -> last evs 0 + Rabs dl <= b ->
  Rabs (last evs 0 - r) <= Mb / m * tl /\
  Rabs (x - r) <= L / m * (Mb / m * tl * (Mb / m * tl + Rabs dl)).
Proof. exact newton_ok_near_root_lemma. Qed.
Check newton_ok_near_root_general : forall (f f' : R -> R) (a b m Mb L r : R),
  (forall c, a <= c <= b -> derivable_pt_lim f c (f' c)) -> 0 < m -> 0 <= L ->
  (forall c, a <= c <= b -> m <= Rabs (f' c)) -> (forall c, a <= c <= b -> Rabs (f' c) <= Mb) ->
  (forall u v, a <= u <= b -> a <= v <= b -> Rabs (f' u - f' v) <= L * Rabs (u - v)) ->
  a <= r <= b -> f r = 0 ->
  forall (tl dl : R) (n : nat) (x0 x : R) (evs : list R),
  newton_scalar NRl (mkCfg tl dl n x0) (fun t => Ok (f t)) = Ok (NOk x, evs) ->
  a <= last evs 0 - Rabs dl -> last evs 0 + Rabs dl <= b ->
  Rabs (last evs 0 - r) <= Mb / m * tl /\
  Rabs (x - r) <= L / m * (Mb / m * tl * (Mb / m * tl + Rabs dl)).
Print Assumptions newton_ok_near_root_general.

(* x^3 - 2 on [1, 2] (m = 3, Mb = 12, L = 12, root rc = exp (ln 2 / 3)); the run from 5/4 with delta = 1/4,
   tol = 1 answers Ok after one pass, whose call points 3/2, 1, 5/4 lie in [1, 2] *)
Example newton_ok_near_root_general_nonvacuous :
  (forall c, 1 <= c <= 2 -> derivable_pt_lim cube2 c (cube2' c)) /\ 0 < 3 /\ 0 <= 12 /\
  (forall c, 1 <= c <= 2 -> 3 <= Rabs (cube2' c)) /\ (forall c, 1 <= c <= 2 -> Rabs (cube2' c) <= 12) /\
  (forall u v, 1 <= u <= 2 -> 1 <= v <= 2 -> Rabs (cube2' u - cube2' v) <= 12 * Rabs (u - v)) /\
  1 <= rc <= 2 /\ cube2 rc = 0 /\
  exists x evs, newton_scalar NRl (mkCfg 1 (1 / 4) 1%nat (5 / 4)) (fun t => Ok (cube2 t)) = Ok (NOk x, evs) /\
    1 <= last evs 0 - Rabs (1 / 4) /\ last evs 0 + Rabs (1 / 4) <= 2.
Proof.
  pose proof rc_bounds as Hrc.
  split; [intros c _; apply cube2_der|]. split; [lra|]. split; [lra|].
  split; [exact cube2_lo|]. split; [exact cube2_hi|]. split; [exact cube2_lip|].
  split; [lra|]. split; [exact rc_root|].
  do 2 eexists. split; [exact cube2_run|]. cbn [last]. rewrite Rabs_right by lra. lra.
Qed.

(* inside the basin: no panic *)
Theorem newton_basin_no_panic : forall (f f' : R -> R) (a b m Mb L r : R),
  (forall c, a <= c <= b -> derivable_pt_lim f c (f' c)) -> 0 < m -> 0 <= L ->
  (forall c, a <= c <= b -> m <= Rabs (f' c)) -> (forall c, a <= c <= b -> Rabs (f' c) <= Mb) ->
  (forall u v, a <= u <= b -> a <= v <= b -> Rabs (f' u - f' v) <= L * Rabs (u - v)) ->
  a <= r <= b -> f r = 0 ->
  forall rho tl dl : R, 0 <= rho -> dl <> 0 -> a <= r - rho - Rabs dl -> r + rho + Rabs dl <= b ->
  L / m * (rho + Rabs dl) < 1 ->
  forall (n : nat) (x0 : R), Rabs (x0 - r) <= rho ->
  exists res evs, newton_scalar NRl (mkCfg tl dl n x0) (fun t => Ok (f t)) = Ok (res, evs).
Proof. exact newton_basin_total_lemma. Qed.
Check newton_basin_no_panic : forall (f f' : R -> R) (a b m Mb L r : R),
  (forall c, a <= c <= b -> derivable_pt_lim f c (f' c)) -> 0 < m -> 0 <= L ->
  (forall c, a <= c <= b -> m <= Rabs (f' c)) -> (forall c, a <= c <= b -> Rabs (f' c) <= Mb) ->
  (forall u v, a <= u <= b -> a <= v <= b -> Rabs (f' u - f' v) <= L * Rabs (u - v)) ->
  a <= r <= b -> f r = 0 ->
  forall rho tl dl : R, 0 <= rho -> dl <> 0 -> a <= r - rho - Rabs dl -> r + rho + Rabs dl <= b ->
  L / m * (rho + Rabs dl) < 1 ->
  forall (n : nat) (x0 : R), Rabs (x0 - r) <= rho ->
  exists res evs, newton_scalar NRl (mkCfg tl dl n x0) (fun t => Ok (f t)) = Ok (res, evs).
Print Assumptions newton_basin_no_panic.

(* inside the basin: the k-th iterate is within q^k |x0 - r| of the root, q = (L/m)(rho + |delta|);
   one pass obeys |x' - r| <= (L/m) |y - r| (|y - r| + |delta|)  (Proofs/Newton2Real.v fd_pass_err) *)
Theorem newton_basin_contraction : forall (f f' : R -> R) (a b m Mb L r : R),
  (forall c, a <= c <= b -> derivable_pt_lim f c (f' c)) -> 0 < m -> 0 <= L ->
  (forall c, a <= c <= b -> m <= Rabs (f' c)) -> (forall c, a <= c <= b -> Rabs (f' c) <= Mb) ->
  (forall u v, a <= u <= b -> a <= v <= b -> Rabs (f' u - f' v) <= L * Rabs (u - v)) ->
  a <= r <= b -> f r = 0 ->
  forall rho tl dl : R, 0 <= rho -> dl <> 0 -> a <= r - rho - Rabs dl -> r + rho + Rabs dl <= b ->
  L / m * (rho + Rabs dl) < 1 ->
  forall (k : nat) (x0 xk : R), Rabs (x0 - r) <= rho ->
  niter (scalar_step NRl tl dl (fun t => Ok (f t))) k x0 = Ok xk ->
  Rabs (xk - r) <= (L / m * (rho + Rabs dl)) ^ k * Rabs (x0 - r).
Proof. exact newton_basin_iterates_lemma. Qed.
Check newton_basin_contraction : forall (f f' : R -> R) (a b m Mb L r : R),
  (forall c, a <= c <= b -> derivable_pt_lim f c (f' c)) -> 0 < m -> 0 <= L ->
  (forall c, a <= c <= b -> m <= Rabs (f' c)) -> (forall c, a <= c <= b -> Rabs (f' c) <= Mb) ->
  (forall u v, a <= u <= b -> a <= v <= b -> Rabs (f' u - f' v) <= L * Rabs (u - v)) ->
  a <= r <= b -> f r = 0 ->
  forall rho tl dl : R, 0 <= rho -> dl <> 0 -> a <= r - rho - Rabs dl -> r + rho + Rabs dl <= b ->
  L / m * (rho + Rabs dl) < 1 ->
  forall (k : nat) (x0 xk : R), Rabs (x0 - r) <= rho ->
  niter (scalar_step NRl tl dl (fun t => Ok (f t))) k x0 = Ok xk ->
  Rabs (xk - r) <= (L / m * (rho + Rabs dl)) ^ k * Rabs (x0 - r).
Print Assumptions newton_basin_contraction.

(* inside the basin: Ok as soon as max_iter exceeds an N with (Mb/m) q^N rho <= tol, at a distance of the
   order of tol (of tol (tol + |delta|), in fact) from the root *)
Theorem newton_basin_ok : forall (f f' : R -> R) (a b m Mb L r : R),
  (forall c, a <= c <= b -> derivable_pt_lim f c (f' c)) -> 0 < m -> 0 <= L ->
  (forall c, a <= c <= b -> m <= Rabs (f' c)) -> (forall c, a <= c <= b -> Rabs (f' c) <= Mb) ->
  (forall u v, a <= u <= b -> a <= v <= b -> Rabs (f' u - f' v) <= L * Rabs (u - v)) ->
  a <= r <= b -> f r = 0 ->
  forall rho tl dl : R, 0 <= rho -> dl <> 0 -> a <= r - rho - Rabs dl -> r + rho + Rabs dl <= b ->
  L / m * (rho + Rabs dl) < 1 ->
  forall (N n : nat) (x0 : R), Rabs (x0 - r) <= rho ->
  Mb / m * ((L / m * (rho + Rabs dl)) ^ N * rho) <= tl -> (N < n)%nat ->
  exists x evs, newton_scalar NRl (mkCfg tl dl n x0) (fun t => Ok (f t)) = Ok (NOk x, evs) /\
    Rabs (x - r) <= rho /\
    Rabs (x - r) <= L / m * (Mb / m * tl * (Mb / m * tl + Rabs dl)).
Proof. exact newton_basin_ok_lemma. Qed.
Check newton_basin_ok : forall (f f' : R -> R) (a b m Mb L r : R),
  (forall c, a <= c <= b -> derivable_pt_lim f c (f' c)) -> 0 < m -> 0 <= L ->
  (forall c, a <= c <= b -> m <= Rabs (f' c)) -> (forall c, a <= c <= b -> Rabs (f' c) <= Mb) ->
  (forall u v, a <= u <= b -> a <= v <= b -> Rabs (f' u - f' v) <= L * Rabs (u - v)) ->
  a <= r <= b -> f r = 0 ->
  forall rho tl dl : R, 0 <= rho -> dl <> 0 -> a <= r - rho - Rabs dl -> r + rho + Rabs dl <= b ->
  L / m * (rho + Rabs dl) < 1 ->
  forall (N n : nat) (x0 : R), Rabs (x0 - r) <= rho ->
  Mb / m * ((L / m * (rho + Rabs dl)) ^ N * rho) <= tl -> (N < n)%nat ->
  exists x evs, newton_scalar NRl (mkCfg tl dl n x0) (fun t => Ok (f t)) = Ok (NOk x, evs) /\
    Rabs (x - r) <= rho /\
    Rabs (x - r) <= L / m * (Mb / m * tl * (Mb / m * tl + Rabs dl)).
Print Assumptions newton_basin_ok.

(* such an N exists for every positive tolerance *)
Theorem newton_basin_pass_count : forall (f' : R -> R) (a b m Mb L r : R),
  0 < m -> 0 <= L ->
  (forall c, a <= c <= b -> m <= Rabs (f' c)) -> (forall c, a <= c <= b -> Rabs (f' c) <= Mb) ->
  a <= r <= b ->
  forall rho tl dl : R, 0 <= rho -> a <= r - rho - Rabs dl -> r + rho + Rabs dl <= b ->
  L / m * (rho + Rabs dl) < 1 -> 0 < tl ->
  exists N : nat, Mb / m * ((L / m * (rho + Rabs dl)) ^ N * rho) <= tl.
Proof. exact basin_N_exists_lemma. Qed.
Check newton_basin_pass_count : forall (f' : R -> R) (a b m Mb L r : R),
  0 < m -> 0 <= L ->
  (forall c, a <= c <= b -> m <= Rabs (f' c)) -> (forall c, a <= c <= b -> Rabs (f' c) <= Mb) ->
  a <= r <= b ->
  forall rho tl dl : R, 0 <= rho -> a <= r - rho - Rabs dl -> r + rho + Rabs dl <= b ->
  L / m * (rho + Rabs dl) < 1 -> 0 < tl ->
  exists N : nat, Mb / m * ((L / m * (rho + Rabs dl)) ^ N * rho) <= tl.
Print Assumptions newton_basin_pass_count.

(* the basin hypotheses hold for x^3 - 2 with rho = delta = 1/10 (q = 4/5), x0 = 5/4, tol = 1, N = 0, max_iter = 1
   (the hypotheses on f are those of newton_ok_near_root_general_nonvacuous) *)
Example newton_basin_nonvacuous :
  0 <= 1 / 10 /\ 1 / 10 <> 0 /\ 1 <= rc - 1 / 10 - Rabs (1 / 10) /\ rc + 1 / 10 + Rabs (1 / 10) <= 2 /\
  12 / 3 * (1 / 10 + Rabs (1 / 10)) < 1 /\ Rabs (5 / 4 - rc) <= 1 / 10 /\
  12 / 3 * ((12 / 3 * (1 / 10 + Rabs (1 / 10))) ^ 0 * (1 / 10)) <= 1 /\ (0 < 1)%nat.
Proof.
  pose proof rc_bounds as Hrc. rewrite (Rabs_right (1 / 10)) by lra.
  repeat split; try lra; [|auto].
  unfold Rabs. destruct (Rcase_abs (5 / 4 - rc)); lra.
Qed.

(* ---------------- C. the supplied-derivative variant on a 1 x 1 system ---------------- *)
(* quadratic convergence, one step: the pass of solve_jacobian on p = [y] |-> [f y] with Jacobian [[f' y]] *)
Theorem newton_quadratic_step : forall (f f' : R -> R) (a b m Mb L r : R),
  (forall c, a <= c <= b -> derivable_pt_lim f c (f' c)) -> 0 < m -> 0 <= L ->
  (forall c, a <= c <= b -> m <= Rabs (f' c)) -> (forall c, a <= c <= b -> Rabs (f' c) <= Mb) ->
  (forall u v, a <= u <= b -> a <= v <= b -> Rabs (f' u - f' v) <= L * Rabs (u - v)) ->
  a <= r <= b -> f r = 0 ->
  forall (tl y : R), a <= y <= b ->
  exists x' bt e,
    sysjac_step NRl tl (fun p => let* x := rd p 0 in Ok [f x])
                       (fun p => let* x := rd p 0 in Ok (@mkM AR [f' x] 1 1)) [y] = Ok ([x'], bt, e) /\
    Rabs (x' - r) <= L / m * (Rabs (y - r) * Rabs (y - r)).
Proof. exact newton_quadratic_lemma. Qed.
Check newton_quadratic_step : forall (f f' : R -> R) (a b m Mb L r : R),
  (forall c, a <= c <= b -> derivable_pt_lim f c (f' c)) -> 0 < m -> 0 <= L ->
  (forall c, a <= c <= b -> m <= Rabs (f' c)) -> (forall c, a <= c <= b -> Rabs (f' c) <= Mb) ->
  (forall u v, a <= u <= b -> a <= v <= b -> Rabs (f' u - f' v) <= L * Rabs (u - v)) ->
  a <= r <= b -> f r = 0 ->
  forall (tl y : R), a <= y <= b ->
  exists x' bt e,
    sysjac_step NRl tl (fun p => let* x := rd p 0 in Ok [f x])
                       (fun p => let* x := rd p 0 in Ok (@mkM AR [f' x] 1 1)) [y] = Ok ([x'], bt, e) /\
    Rabs (x' - r) <= L / m * (Rabs (y - r) * Rabs (y - r)).
Print Assumptions newton_quadratic_step.
(* non-vacuity: the hypotheses on f are those of newton_ok_near_root_general_nonvacuous; y = 5/4 lies in [1, 2] *)

(* monotone global convergence: f' nondecreasing on [r, x0] (f convex), 0 < f'(r), start right of the root *)
Theorem newton_monotone_no_panic : forall (f f' : R -> R) (r x0 tl : R),
  r <= x0 -> f r = 0 -> (forall c, r <= c <= x0 -> derivable_pt_lim f c (f' c)) ->
  (forall u v, r <= u -> u <= v -> v <= x0 -> f' u <= f' v) -> 0 < f' r ->
  forall (dl : R) (n : nat),
  exists res evs,
    newton_sysjac NRl (mkCfg tl dl n [x0]) (fun p => let* x := rd p 0 in Ok [f x])
                  (fun p => let* x := rd p 0 in Ok (@mkM AR [f' x] 1 1)) = Ok (res, evs).
Proof. exact newton_monotone_total_lemma. Qed.
Check newton_monotone_no_panic : forall (f f' : R -> R) (r x0 tl : R),
  r <= x0 -> f r = 0 -> (forall c, r <= c <= x0 -> derivable_pt_lim f c (f' c)) ->
  (forall u v, r <= u -> u <= v -> v <= x0 -> f' u <= f' v) -> 0 < f' r ->
  forall (dl : R) (n : nat),
  exists res evs,
    newton_sysjac NRl (mkCfg tl dl n [x0]) (fun p => let* x := rd p 0 in Ok [f x])
                  (fun p => let* x := rd p 0 in Ok (@mkM AR [f' x] 1 1)) = Ok (res, evs).
Print Assumptions newton_monotone_no_panic.

(* the iterates: x_k in [r, x0], x_{k+1} = x_k - f(x_k)/f'(x_k), r <= x_{k+1} <= x_k *)
Theorem newton_monotone_iterates : forall (f f' : R -> R) (r x0 tl : R),
  r <= x0 -> f r = 0 -> (forall c, r <= c <= x0 -> derivable_pt_lim f c (f' c)) ->
  (forall u v, r <= u -> u <= v -> v <= x0 -> f' u <= f' v) -> 0 < f' r ->
  forall (k : nat) (pk : list R),
  niter (sysjac_step NRl tl (fun p => let* x := rd p 0 in Ok [f x])
                            (fun p => let* x := rd p 0 in Ok (@mkM AR [f' x] 1 1))) k [x0] = Ok pk ->
  exists z, pk = [z] /\ r <= z <= x0 /\
    niter (sysjac_step NRl tl (fun p => let* x := rd p 0 in Ok [f x])
                              (fun p => let* x := rd p 0 in Ok (@mkM AR [f' x] 1 1))) (S k) [x0]
      = Ok [z - f z / f' z] /\
    r <= z - f z / f' z <= z.
Proof. exact newton_monotone_iterates_lemma. Qed.
Check newton_monotone_iterates : forall (f f' : R -> R) (r x0 tl : R),
  r <= x0 -> f r = 0 -> (forall c, r <= c <= x0 -> derivable_pt_lim f c (f' c)) ->
  (forall u v, r <= u -> u <= v -> v <= x0 -> f' u <= f' v) -> 0 < f' r ->
  forall (k : nat) (pk : list R),
  niter (sysjac_step NRl tl (fun p => let* x := rd p 0 in Ok [f x])
                            (fun p => let* x := rd p 0 in Ok (@mkM AR [f' x] 1 1))) k [x0] = Ok pk ->
  exists z, pk = [z] /\ r <= z <= x0 /\
    niter (sysjac_step NRl tl (fun p => let* x := rd p 0 in Ok [f x])
                              (fun p => let* x := rd p 0 in Ok (@mkM AR [f' x] 1 1))) (S k) [x0]
      = Ok [z - f z / f' z] /\
    r <= z - f z / f' z <= z.
Print Assumptions newton_monotone_iterates.

(* every Ok answer lies within tol / f'(r) to the right of the root *)
Theorem newton_monotone_ok_close : forall (f f' : R -> R) (r x0 tl : R),
  r <= x0 -> f r = 0 -> (forall c, r <= c <= x0 -> derivable_pt_lim f c (f' c)) ->
  (forall u v, r <= u -> u <= v -> v <= x0 -> f' u <= f' v) -> 0 < f' r ->
  forall (dl : R) (n : nat) (p : list R) evs,
  newton_sysjac NRl (mkCfg tl dl n [x0]) (fun p => let* x := rd p 0 in Ok [f x])
                (fun p => let* x := rd p 0 in Ok (@mkM AR [f' x] 1 1)) = Ok (NOk p, evs) ->
  exists x, p = [x] /\ r <= x <= x0 /\ x - r <= tl / f' r.
Proof. exact newton_monotone_ok_close_lemma. Qed.
Check newton_monotone_ok_close : forall (f f' : R -> R) (r x0 tl : R),
  r <= x0 -> f r = 0 -> (forall c, r <= c <= x0 -> derivable_pt_lim f c (f' c)) ->
  (forall u v, r <= u -> u <= v -> v <= x0 -> f' u <= f' v) -> 0 < f' r ->
  forall (dl : R) (n : nat) (p : list R) evs,
  newton_sysjac NRl (mkCfg tl dl n [x0]) (fun p => let* x := rd p 0 in Ok [f x])
                (fun p => let* x := rd p 0 in Ok (@mkM AR [f' x] 1 1)) = Ok (NOk p, evs) ->
  exists x, p = [x] /\ r <= x <= x0 /\ x - r <= tl / f' r.
Print Assumptions newton_monotone_ok_close.

(* global convergence with an explicit pass count: max_iter * tol > f'(x0) (x0 - r) => Ok *)
Theorem newton_monotone : forall (f f' : R -> R) (r x0 tl : R),
  r <= x0 -> f r = 0 -> (forall c, r <= c <= x0 -> derivable_pt_lim f c (f' c)) ->
  (forall u v, r <= u -> u <= v -> v <= x0 -> f' u <= f' v) -> 0 < f' r ->
  forall (dl : R) (n : nat), f' x0 * (x0 - r) < INR n * tl ->
  exists x evs,
    newton_sysjac NRl (mkCfg tl dl n [x0]) (fun p => let* x := rd p 0 in Ok [f x])
                  (fun p => let* x := rd p 0 in Ok (@mkM AR [f' x] 1 1)) = Ok (NOk [x], evs) /\
    r <= x <= x0 /\ x - r <= tl / f' r.
Proof. exact newton_monotone_ok_lemma. Qed.
Check newton_monotone : forall (f f' : R -> R) (r x0 tl : R),
  r <= x0 -> f r = 0 -> (forall c, r <= c <= x0 -> derivable_pt_lim f c (f' c)) ->
  (forall u v, r <= u -> u <= v -> v <= x0 -> f' u <= f' v) -> 0 < f' r ->
  forall (dl : R) (n : nat), f' x0 * (x0 - r) < INR n * tl ->
  exists x evs,
    newton_sysjac NRl (mkCfg tl dl n [x0]) (fun p => let* x := rd p 0 in Ok [f x])
                  (fun p => let* x := rd p 0 in Ok (@mkM AR [f' x] 1 1)) = Ok (NOk [x], evs) /\
    r <= x <= x0 /\ x - r <= tl / f' r.
Print Assumptions newton_monotone.

(* x^3 - 2 from x0 = 2 with tol = 1/2: the budget f'(2) (2 - rc) < 12 * 0.8 = 9.6 is exceeded by 20 passes *)
Example newton_monotone_nonvacuous :
  rc <= 2 /\ cube2 rc = 0 /\ (forall c, rc <= c <= 2 -> derivable_pt_lim cube2 c (cube2' c)) /\
  (forall u v, rc <= u -> u <= v -> v <= 2 -> cube2' u <= cube2' v) /\ 0 < cube2' rc /\
  cube2' 2 * (2 - rc) < INR 20 * (1 / 2).
Proof.
  pose proof rc_bounds as Hrc.
  split; [lra|]. split; [exact rc_root|]. split; [intros c _; apply cube2_der|].
  split; [exact cube2_convex|]. split; [exact cube2_pos_at_root|].
  unfold cube2'. replace (INR 20) with 20 by (cbn; ring). lra.
Qed.

(* ---------------- D. further variants; sharpness ---------------- *)
(* x^2 - c: from any positive start the answer IS Ok (and then within tol of sqrt c) once max_iter is large enough *)
Theorem newton_sqrt_converges : forall (c tl dl : R), 0 < c -> dl <> 0 ->
  forall (n : nat) (x0 : R), 0 < x0 ->
  (x0 + c / x0) / 2 - R_sqrt.sqrt c < INR (n - 1) * tl ->
  exists x evs, newton_scalar NRl (mkCfg tl dl n x0) (fun x => Ok (x * x - c)) = Ok (NOk x, evs) /\
    Rabs (x - R_sqrt.sqrt c) <= tl.
Proof. exact newton_sqrt_converges_lemma. Qed.
Check newton_sqrt_converges : forall (c tl dl : R), 0 < c -> dl <> 0 ->
  forall (n : nat) (x0 : R), 0 < x0 ->
  (x0 + c / x0) / 2 - R_sqrt.sqrt c < INR (n - 1) * tl ->
  exists x evs, newton_scalar NRl (mkCfg tl dl n x0) (fun x => Ok (x * x - c)) = Ok (NOk x, evs) /\
    Rabs (x - R_sqrt.sqrt c) <= tl.
Print Assumptions newton_sqrt_converges.

(* c = 4 from x0 = 1 (first iterate 5/2), tol = 1/2, three passes allowed *)
Example newton_sqrt_converges_nonvacuous :
  0 < 4 /\ 1 <> 0 /\ 0 < 1 /\ (1 + 4 / 1) / 2 - R_sqrt.sqrt 4 < INR (3 - 1) * (1 / 2).
Proof.
  replace 4 with (2 * 2) at 3 by ring. rewrite sqrt_square by lra. cbn [INR Nat.sub]. lra.
Qed.

(* accuracy of the slope the scalar pass divides by: the central difference quotient
   (f(y + delta) - f(y - delta)) / (2 delta) is within (delta^2 / 6) sup |f^(3)| of f'(y) *)
Theorem central_difference_truncation : forall (g g1 g2 g3 : R -> R) (y d B : R), d <> 0 ->
  (forall x, y - Rabs d <= x <= y + Rabs d -> derivable_pt_lim g x (g1 x)) ->
  (forall x, y - Rabs d <= x <= y + Rabs d -> derivable_pt_lim g1 x (g2 x)) ->
  (forall x, y - Rabs d <= x <= y + Rabs d -> derivable_pt_lim g2 x (g3 x)) ->
  (forall x, y - Rabs d <= x <= y + Rabs d -> Rabs (g3 x) <= B) ->
  Rabs ((g (y + d) - g (y - d)) / (2 * d) - g1 y) <= d * d / 6 * B.
Proof. exact Newton2Cdq.central_diff_trunc. Qed.
Check central_difference_truncation : forall (g g1 g2 g3 : R -> R) (y d B : R), d <> 0 ->
  (forall x, y - Rabs d <= x <= y + Rabs d -> derivable_pt_lim g x (g1 x)) ->
  (forall x, y - Rabs d <= x <= y + Rabs d -> derivable_pt_lim g1 x (g2 x)) ->
  (forall x, y - Rabs d <= x <= y + Rabs d -> derivable_pt_lim g2 x (g3 x)) ->
  (forall x, y - Rabs d <= x <= y + Rabs d -> Rabs (g3 x) <= B) ->
  Rabs ((g (y + d) - g (y - d)) / (2 * d) - g1 y) <= d * d / 6 * B.
Print Assumptions central_difference_truncation.

Theorem scalar_derivative_truncation : forall (f f1 f2 f3 : R -> R) (B tl dl y x' : R) bt e,
  scalar_step NRl tl dl (fun t => Ok (f t)) y = Ok (x', bt, e) ->
  (forall x, y - Rabs dl <= x <= y + Rabs dl -> derivable_pt_lim f x (f1 x)) ->
  (forall x, y - Rabs dl <= x <= y + Rabs dl -> derivable_pt_lim f1 x (f2 x)) ->
  (forall x, y - Rabs dl <= x <= y + Rabs dl -> derivable_pt_lim f2 x (f3 x)) ->
  (forall x, y - Rabs dl <= x <= y + Rabs dl -> Rabs (f3 x) <= B) ->
  x' = y - f y / ((f (y + dl) - f (y - dl)) / (2 * dl)) /\
  Rabs ((f (y + dl) - f (y - dl)) / (2 * dl) - f1 y) <= dl * dl / 6 * B.
Proof. exact Newton2Cdq.scalar_deriv_trunc_lemma. Qed.
Check scalar_derivative_truncation : forall (f f1 f2 f3 : R -> R) (B tl dl y x' : R) bt e,
  scalar_step NRl tl dl (fun t => Ok (f t)) y = Ok (x', bt, e) ->
  (forall x, y - Rabs dl <= x <= y + Rabs dl -> derivable_pt_lim f x (f1 x)) ->
  (forall x, y - Rabs dl <= x <= y + Rabs dl -> derivable_pt_lim f1 x (f2 x)) ->
  (forall x, y - Rabs dl <= x <= y + Rabs dl -> derivable_pt_lim f2 x (f3 x)) ->
  (forall x, y - Rabs dl <= x <= y + Rabs dl -> Rabs (f3 x) <= B) ->
  x' = y - f y / ((f (y + dl) - f (y - dl)) / (2 * dl)) /\
  Rabs ((f (y + dl) - f (y - dl)) / (2 * dl) - f1 y) <= dl * dl / 6 * B.
Print Assumptions scalar_derivative_truncation.

(* x^3 - 2 at y = 5/4, delta = 1/4: the quotient is 19/4, f'(5/4) = 75/16, the third derivative is 6 = B,
   and the bound (1/16)/6 * 6 = 1/16 is attained *)
Example scalar_derivative_truncation_nonvacuous :
  (exists x' bt e, scalar_step NRl 1 (1 / 4) (fun t => Ok (cube2 t)) (5 / 4) = Ok (x', bt, e)) /\
  (forall x, derivable_pt_lim cube2 x (cube2' x)) /\ (forall x, derivable_pt_lim cube2' x (6 * x)) /\
  (forall x, derivable_pt_lim (fun x => 6 * x) x 6) /\ Rabs 6 <= 6.
Proof.
  split; [do 3 eexists; exact cube2_pass|]. split; [exact cube2_der|]. split; [exact cube2_der2|].
  split; [exact cube2_der3|]. rewrite Rabs_right; lra.
Qed.

(* the finite-difference system solve on a nonlinear 1 x 1 system p = [x] |-> [f x]:
   Ok => close (y is the iterate at which the pass that answered started) *)
Theorem newton_sys1d_ok_near_root : forall (f f' : R -> R) (a b m Mb L r : R),
  (forall c, a <= c <= b -> derivable_pt_lim f c (f' c)) -> 0 < m -> 0 <= L ->
  (forall c, a <= c <= b -> m <= Rabs (f' c)) -> (forall c, a <= c <= b -> Rabs (f' c) <= Mb) ->
  (forall u v, a <= u <= b -> a <= v <= b -> Rabs (f' u - f' v) <= L * Rabs (u - v)) ->
  a <= r <= b -> f r = 0 ->
  forall (tl dl : R) (n : nat) (x0 : R) (p : list R) evs,
  newton_sys NRl (mkCfg tl dl n [x0]) (fun p => let* x := rd p 0 in Ok [f x]) = Ok (NOk p, evs) ->
  exists x y k, (k < n)%nat /\ p = [x] /\
    niter (sys_step NRl tl dl (fun p => let* x := rd p 0 in Ok [f x])) k [x0] = Ok [y] /\
    (a <= y - Rabs dl -> y + Rabs dl <= b ->
     Rabs (y - r) <= tl / m /\ Rabs (x - r) <= L / m * (tl / m * (tl / m + Rabs dl))).
Proof. exact newton_sys1d_ok_near_root_lemma. Qed.
Check newton_sys1d_ok_near_root : forall (f f' : R -> R) (a b m Mb L r : R),
  (forall c, a <= c <= b -> derivable_pt_lim f c (f' c)) -> 0 < m -> 0 <= L ->
  (forall c, a <= c <= b -> m <= Rabs (f' c)) -> (forall c, a <= c <= b -> Rabs (f' c) <= Mb) ->
  (forall u v, a <= u <= b -> a <= v <= b -> Rabs (f' u - f' v) <= L * Rabs (u - v)) ->
  a <= r <= b -> f r = 0 ->
  forall (tl dl : R) (n : nat) (x0 : R) (p : list R) evs,
  newton_sys NRl (mkCfg tl dl n [x0]) (fun p => let* x := rd p 0 in Ok [f x]) = Ok (NOk p, evs) ->
  exists x y k, (k < n)%nat /\ p = [x] /\
    niter (sys_step NRl tl dl (fun p => let* x := rd p 0 in Ok [f x])) k [x0] = Ok [y] /\
    (a <= y - Rabs dl -> y + Rabs dl <= b ->
     Rabs (y - r) <= tl / m /\ Rabs (x - r) <= L / m * (tl / m * (tl / m + Rabs dl))).
Print Assumptions newton_sys1d_ok_near_root.

Theorem newton_sys1d_basin_no_panic : forall (f f' : R -> R) (a b m Mb L r : R),
  (forall c, a <= c <= b -> derivable_pt_lim f c (f' c)) -> 0 < m -> 0 <= L ->
  (forall c, a <= c <= b -> m <= Rabs (f' c)) -> (forall c, a <= c <= b -> Rabs (f' c) <= Mb) ->
  (forall u v, a <= u <= b -> a <= v <= b -> Rabs (f' u - f' v) <= L * Rabs (u - v)) ->
  a <= r <= b -> f r = 0 ->
  forall rho tl dl : R, 0 <= rho -> dl <> 0 -> a <= r - rho - Rabs dl -> r + rho + Rabs dl <= b ->
  L / m * (rho + Rabs dl) < 1 ->
  forall (n : nat) (x0 : R), Rabs (x0 - r) <= rho ->
  exists res evs, newton_sys NRl (mkCfg tl dl n [x0]) (fun p => let* x := rd p 0 in Ok [f x]) = Ok (res, evs).
Proof. exact newton_sys1d_basin_total_lemma. Qed.
Check newton_sys1d_basin_no_panic : forall (f f' : R -> R) (a b m Mb L r : R),
  (forall c, a <= c <= b -> derivable_pt_lim f c (f' c)) -> 0 < m -> 0 <= L ->
  (forall c, a <= c <= b -> m <= Rabs (f' c)) -> (forall c, a <= c <= b -> Rabs (f' c) <= Mb) ->
  (forall u v, a <= u <= b -> a <= v <= b -> Rabs (f' u - f' v) <= L * Rabs (u - v)) ->
  a <= r <= b -> f r = 0 ->
  forall rho tl dl : R, 0 <= rho -> dl <> 0 -> a <= r - rho - Rabs dl -> r + rho + Rabs dl <= b ->
  L / m * (rho + Rabs dl) < 1 ->
  forall (n : nat) (x0 : R), Rabs (x0 - r) <= rho ->
  exists res evs, newton_sys NRl (mkCfg tl dl n [x0]) (fun p => let* x := rd p 0 in Ok [f x]) = Ok (res, evs).
Print Assumptions newton_sys1d_basin_no_panic.

Theorem newton_sys1d_basin_ok : forall (f f' : R -> R) (a b m Mb L r : R),
  (forall c, a <= c <= b -> derivable_pt_lim f c (f' c)) -> 0 < m -> 0 <= L ->
  (forall c, a <= c <= b -> m <= Rabs (f' c)) -> (forall c, a <= c <= b -> Rabs (f' c) <= Mb) ->
  (forall u v, a <= u <= b -> a <= v <= b -> Rabs (f' u - f' v) <= L * Rabs (u - v)) ->
  a <= r <= b -> f r = 0 ->
  forall rho tl dl : R, 0 <= rho -> dl <> 0 -> a <= r - rho - Rabs dl -> r + rho + Rabs dl <= b ->
  L / m * (rho + Rabs dl) < 1 ->
  forall (N n : nat) (x0 : R), Rabs (x0 - r) <= rho ->
  Mb * ((L / m * (rho + Rabs dl)) ^ N * rho) <= tl -> (N < n)%nat ->
  exists x evs, newton_sys NRl (mkCfg tl dl n [x0]) (fun p => let* x := rd p 0 in Ok [f x]) = Ok (NOk [x], evs) /\
    Rabs (x - r) <= rho /\
    Rabs (x - r) <= L / m * (tl / m * (tl / m + Rabs dl)).
Proof. exact newton_sys1d_basin_ok_lemma. Qed.
Check newton_sys1d_basin_ok : forall (f f' : R -> R) (a b m Mb L r : R),
  (forall c, a <= c <= b -> derivable_pt_lim f c (f' c)) -> 0 < m -> 0 <= L ->
  (forall c, a <= c <= b -> m <= Rabs (f' c)) -> (forall c, a <= c <= b -> Rabs (f' c) <= Mb) ->
  (forall u v, a <= u <= b -> a <= v <= b -> Rabs (f' u - f' v) <= L * Rabs (u - v)) ->
  a <= r <= b -> f r = 0 ->
  forall rho tl dl : R, 0 <= rho -> dl <> 0 -> a <= r - rho - Rabs dl -> r + rho + Rabs dl <= b ->
  L / m * (rho + Rabs dl) < 1 ->
  forall (N n : nat) (x0 : R), Rabs (x0 - r) <= rho ->
  Mb * ((L / m * (rho + Rabs dl)) ^ N * rho) <= tl -> (N < n)%nat ->
  exists x evs, newton_sys NRl (mkCfg tl dl n [x0]) (fun p => let* x := rd p 0 in Ok [f x]) = Ok (NOk [x], evs) /\
    Rabs (x - r) <= rho /\
    Rabs (x - r) <= L / m * (tl / m * (tl / m + Rabs dl)).
Print Assumptions newton_sys1d_basin_ok.

(* x^3 - 2 again (hypotheses on f: newton_ok_near_root_general_nonvacuous; basin: newton_basin_nonvacuous) with
   tol = 2: Mb q^0 rho = 12/10 <= 2 *)
Example newton_sys1d_basin_nonvacuous :
  12 * ((12 / 3 * (1 / 10 + Rabs (1 / 10))) ^ 0 * (1 / 10)) <= 2 /\ (0 < 1)%nat.
Proof. split; [cbn [pow]; lra|auto]. Qed.
Local Close Scope R_scope.

(* the scalar solve on an affine function over any field: exact root -b/a within two passes, at most six calls.
   The hypothesis on divr says that "element / real" undoes the multiplication by 2 delta (f64 / f64, Complex / f64). *)
Theorem newton_scalar_affine_exact : forall (O : NOps) (FL : FieldLaws (NA O)) (a b : NA O) (tl dl : NR O),
  a <> zero ->
  (forall z : NA O, divr O (mul z (add (emb O dl) (emb O dl))) (mul (two O) dl) = Ok z) ->
  leb (mag O zero) tl = true ->
  forall n x0, 2 <= n ->
  exists evs, newton_scalar O (mkCfg tl dl n x0) (fun x => Ok (add (mul a x) b)) =
                Ok (NOk (neg (mul b (fl_inv (NA O) FL a))), evs) /\ length evs <= 6.
Proof. exact Newton2Cplx.newton_scalar_affine_lemma. Qed.
Check newton_scalar_affine_exact : forall (O : NOps) (FL : FieldLaws (NA O)) (a b : NA O) (tl dl : NR O),
  a <> zero ->
  (forall z : NA O, divr O (mul z (add (emb O dl) (emb O dl))) (mul (two O) dl) = Ok z) ->
  leb (mag O zero) tl = true ->
  forall n x0, 2 <= n ->
  exists evs, newton_scalar O (mkCfg tl dl n x0) (fun x => Ok (add (mul a x) b)) =
                Ok (NOk (neg (mul b (fl_inv (NA O) FL a))), evs) /\ length evs <= 6.
Print Assumptions newton_scalar_affine_exact.

(* Newton<Cmplx>::solve on a z + b *)
Theorem newton_affine_exact_C : forall (a b : SolveC.ACR) (tl dl : R) (n : nat) (x0 : SolveC.ACR),
  a <> zero -> dl <> 0%R -> (0 <= tl)%R -> 2 <= n ->
  exists evs, newton_scalar Newton2Inst.NCR (mkCfg tl dl n x0) (fun z => Ok (add (mul a z) b)) =
                Ok (NOk (neg (mul b (SolveC.C_inv a))), evs) /\
              add (mul a (neg (mul b (SolveC.C_inv a)))) b = zero /\ length evs <= 6.
Proof. exact Newton2Cplx.newton_affine_exact_C_lemma. Qed.
Check newton_affine_exact_C : forall (a b : SolveC.ACR) (tl dl : R) (n : nat) (x0 : SolveC.ACR),
  a <> zero -> dl <> 0%R -> (0 <= tl)%R -> 2 <= n ->
  exists evs, newton_scalar Newton2Inst.NCR (mkCfg tl dl n x0) (fun z => Ok (add (mul a z) b)) =
                Ok (NOk (neg (mul b (SolveC.C_inv a))), evs) /\
              add (mul a (neg (mul b (SolveC.C_inv a)))) b = zero /\ length evs <= 6.
Print Assumptions newton_affine_exact_C.

(* a = i is a nonzero slope; and the divr hypothesis of newton_scalar_affine_exact holds at C for delta = 1/8 *)
Example newton_affine_exact_C_nonvacuous :
  Complex.mkC (A:=SolveR.AR) 0%R 1%R <> (zero : SolveC.ACR) /\
  (forall z : SolveC.ACR,
     divr Newton2Inst.NCR (mul z (add (emb Newton2Inst.NCR (1 / 8)%R) (emb Newton2Inst.NCR (1 / 8)%R)))
          (mul (two Newton2Inst.NCR) (1 / 8)%R) = Ok z).
Proof. split; [exact Newton2Cplx.i_nonzero|]. apply Newton2Cplx.NCR_divr. lra. Qed.

(* sharpness of 2 <= max_iter: with one pass the value is the exact root, the verdict depends on the residual of the guess *)
Theorem newton_sys_affine_one_pass : forall (O : NOps), FieldLaws (NA O) -> PivLaws (NA O) ->
  forall (M : matrix (NA O)) (c0 : list (NA O)) (tl dl : NR O),
  wf M -> rows M = cols M -> 1 <= rows M -> emb O dl <> zero ->
  ltb (mag O zero) (mag O zero) = false -> leb (mag O zero) tl = true ->
  (exists N : nat -> nat -> NA O, left_inverse (rows M) N (ent M)) ->
  forall x0, length x0 = cols M ->
  exists x evs mr, norm_inf O (aff O M c0 x0) = Ok mr /\ is_root O M c0 x /\
    newton_sys O (mkCfg tl dl 1 x0) (fun p => Ok (aff O M c0 p)) = Ok ((if leb mr tl then NOk x else NErr x), evs).
Proof. exact newton_sys_affine_one_pass_lemma. Qed.
Check newton_sys_affine_one_pass : forall (O : NOps), FieldLaws (NA O) -> PivLaws (NA O) ->
  forall (M : matrix (NA O)) (c0 : list (NA O)) (tl dl : NR O),
  wf M -> rows M = cols M -> 1 <= rows M -> emb O dl <> zero ->
  ltb (mag O zero) (mag O zero) = false -> leb (mag O zero) tl = true ->
  (exists N : nat -> nat -> NA O, left_inverse (rows M) N (ent M)) ->
  forall x0, length x0 = cols M ->
  exists x evs mr, norm_inf O (aff O M c0 x0) = Ok mr /\ is_root O M c0 x /\
    newton_sys O (mkCfg tl dl 1 x0) (fun p => Ok (aff O M c0 p)) = Ok ((if leb mr tl then NOk x else NErr x), evs).
Print Assumptions newton_sys_affine_one_pass.
(* non-vacuity: newton_sys_affine_hyps_nonvacuous; on that system from (0,0) the residual norm 5 exceeds tol = 1/1000:
   the real code answers Err (4/5, 7/5) for max_iter = 1 (observed through the executor) *)

(* sharpness of 1 <= rows M: a 0-dimensional system panics in the residual norm (Vector::norm_inf reads vec[0]) *)
Theorem newton_sys_empty_panics : forall (O : NOps) (tl dl : NR O) (n : nat) (f : list (NA O) -> res (list (NA O))),
  f [] = Ok [] -> newton_sys O (mkCfg tl dl (S n) []) f = Panic Index.
Proof. exact newton_sys_empty_panics_lemma. Qed.
Check newton_sys_empty_panics : forall (O : NOps) (tl dl : NR O) (n : nat) (f : list (NA O) -> res (list (NA O))),
  f [] = Ok [] -> newton_sys O (mkCfg tl dl (S n) []) f = Panic Index.
Print Assumptions newton_sys_empty_panics.

Theorem newton_sysjac_empty_panics : forall (O : NOps) (tl dl : NR O) (n : nat) (f : list (NA O) -> res (list (NA O))) jac,
  f [] = Ok [] -> newton_sysjac O (mkCfg tl dl (S n) []) f jac = Panic Index.
Proof. exact newton_sysjac_empty_panics_lemma. Qed.
Check newton_sysjac_empty_panics : forall (O : NOps) (tl dl : NR O) (n : nat) (f : list (NA O) -> res (list (NA O))) jac,
  f [] = Ok [] -> newton_sysjac O (mkCfg tl dl (S n) []) f jac = Panic Index.
Print Assumptions newton_sysjac_empty_panics.

Example newton_sys_empty_panics_nonvacuous : (fun p : list AQ => Ok p) [] = Ok [].
Proof. reflexivity. Qed.

(* ---------------- E. nonlinear systems of ANY dimension, decoupled case (solve_jacobian over R) ----------------
   F(x)_i = f_i(x_i), jac(x) = diag(f_i'(x_i)), i < dim, for arbitrary closures returning these values; each f_i as in
   part B on [a_i, b_i] with common constants m, Mb, L and root r_i.  The dim x dim Gaussian elimination of every pass
   is discharged by C01 (completeness + soundness + a left inverse of the diagonal matrix). *)
Local Open Scope R_scope.
Definition decoupled_system (dim : nat) (f f' : nat -> R -> R) (F : list R -> res (list R)) (Jc : list R -> res (matrix AR)) : Prop :=
  (forall x, length x = dim ->
     exists v, F x = Ok v /\ length v = dim /\ forall i, (i < dim)%nat -> nth i v 0 = f i (nth i x 0)) /\
  (forall x, length x = dim ->
     exists J, Jc x = Ok J /\ wf J /\ rows J = dim /\ cols J = dim /\
       forall i j, (i < dim)%nat -> (j < dim)%nat -> ent J i j = if (i =? j)%nat then f' i (nth i x 0) else 0).
Definition smooth_components (dim : nat) (f f' : nat -> R -> R) (a b r : nat -> R) (m Mb L : R) : Prop :=
  (forall i, (i < dim)%nat -> forall c, a i <= c <= b i -> derivable_pt_lim (f i) c (f' i c)) /\ 0 < m /\ 0 <= L /\
  (forall i, (i < dim)%nat -> forall c, a i <= c <= b i -> m <= Rabs (f' i c)) /\
  (forall i, (i < dim)%nat -> forall c, a i <= c <= b i -> Rabs (f' i c) <= Mb) /\
  (forall i, (i < dim)%nat -> forall u v, a i <= u <= b i -> a i <= v <= b i -> Rabs (f' i u - f' i v) <= L * Rabs (u - v)) /\
  (forall i, (i < dim)%nat -> f i (r i) = 0).

(* one pass, any dimension: x'_i = x_i - f_i(x_i)/f_i'(x_i), the test compares max_i |f_i(x_i)| with tol *)
Theorem sysjac_decoupled_pass : forall (dim : nat) (f f' : nat -> R -> R) F Jc, (1 <= dim)%nat ->
  decoupled_system dim f f' F Jc ->
  forall (tl : R) (x : list R), length x = dim -> (forall i, (i < dim)%nat -> f' i (nth i x 0) <> 0) ->
  exists x' mr e, sysjac_step NRl tl F Jc x = Ok (x', R_leb mr tl, e) /\ length x' = dim /\
    (forall i, (i < dim)%nat -> nth i x' 0 = nth i x 0 - f i (nth i x 0) / f' i (nth i x 0)) /\
    (forall i, (i < dim)%nat -> Rabs (f i (nth i x 0)) <= mr) /\
    (exists i, (i < dim)%nat /\ mr = Rabs (f i (nth i x 0))).
Proof. intros dim f f' F Jc Hd [HF HJ]. exact (diag_pass dim f f' F Jc Hd HF HJ). Qed.
Check sysjac_decoupled_pass : forall (dim : nat) (f f' : nat -> R -> R) F Jc, (1 <= dim)%nat ->
  decoupled_system dim f f' F Jc ->
  forall (tl : R) (x : list R), length x = dim -> (forall i, (i < dim)%nat -> f' i (nth i x 0) <> 0) ->
  exists x' mr e, sysjac_step NRl tl F Jc x = Ok (x', R_leb mr tl, e) /\ length x' = dim /\
    (forall i, (i < dim)%nat -> nth i x' 0 = nth i x 0 - f i (nth i x 0) / f' i (nth i x 0)) /\
    (forall i, (i < dim)%nat -> Rabs (f i (nth i x 0)) <= mr) /\
    (exists i, (i < dim)%nat /\ mr = Rabs (f i (nth i x 0))).
Print Assumptions sysjac_decoupled_pass.

(* sup-norm basin |x0_i - r_i| <= rho with (L/m) rho < 1 inside the intervals: no panic *)
Theorem newton_decoupled_no_panic : forall (dim : nat) (f f' : nat -> R -> R) F Jc, (1 <= dim)%nat ->
  decoupled_system dim f f' F Jc ->
  forall (a b r : nat -> R) (m Mb L rho tl : R), smooth_components dim f f' a b r m Mb L ->
  0 <= rho -> (forall i, (i < dim)%nat -> a i <= r i - rho /\ r i + rho <= b i) -> L / m * rho < 1 ->
  forall (dl : R) (n : nat) (x0 : list R),
  (length x0 = dim /\ forall i, (i < dim)%nat -> Rabs (nth i x0 0 - r i) <= rho) ->
  exists res evs, newton_sysjac NRl (mkCfg tl dl n x0) F Jc = Ok (res, evs).
Proof.
  intros dim f f' F Jc Hd [HF HJ] a b r m Mb L rho tl (H1 & H2 & H3 & H4 & H5 & H6 & H7).
  exact (newton_diag_total_lemma dim f f' F Jc Hd HF HJ a b r m Mb L rho tl H1 H2 H3 H4 H5 H6 H7).
Qed.
Check newton_decoupled_no_panic : forall (dim : nat) (f f' : nat -> R -> R) F Jc, (1 <= dim)%nat ->
  decoupled_system dim f f' F Jc ->
  forall (a b r : nat -> R) (m Mb L rho tl : R), smooth_components dim f f' a b r m Mb L ->
  0 <= rho -> (forall i, (i < dim)%nat -> a i <= r i - rho /\ r i + rho <= b i) -> L / m * rho < 1 ->
  forall (dl : R) (n : nat) (x0 : list R),
  (length x0 = dim /\ forall i, (i < dim)%nat -> Rabs (nth i x0 0 - r i) <= rho) ->
  exists res evs, newton_sysjac NRl (mkCfg tl dl n x0) F Jc = Ok (res, evs).
Print Assumptions newton_decoupled_no_panic.

(* every Ok answer is componentwise within (L/m) (tol/m)^2 of the root *)
Theorem newton_decoupled_ok_close : forall (dim : nat) (f f' : nat -> R -> R) F Jc, (1 <= dim)%nat ->
  decoupled_system dim f f' F Jc ->
  forall (a b r : nat -> R) (m Mb L rho tl : R), smooth_components dim f f' a b r m Mb L ->
  0 <= rho -> (forall i, (i < dim)%nat -> a i <= r i - rho /\ r i + rho <= b i) -> L / m * rho < 1 ->
  forall (dl : R) (n : nat) (x0 x : list R) evs,
  (length x0 = dim /\ forall i, (i < dim)%nat -> Rabs (nth i x0 0 - r i) <= rho) ->
  newton_sysjac NRl (mkCfg tl dl n x0) F Jc = Ok (NOk x, evs) ->
  (length x = dim /\ forall i, (i < dim)%nat -> Rabs (nth i x 0 - r i) <= rho) /\
  forall i, (i < dim)%nat -> Rabs (nth i x 0 - r i) <= L / m * (tl / m * (tl / m)).
Proof.
  intros dim f f' F Jc Hd [HF HJ] a b r m Mb L rho tl (H1 & H2 & H3 & H4 & H5 & H6 & H7).
  exact (newton_diag_ok_close_lemma dim f f' F Jc Hd HF HJ a b r m Mb L rho tl H1 H2 H3 H4 H5 H6 H7).
Qed.
Check newton_decoupled_ok_close : forall (dim : nat) (f f' : nat -> R -> R) F Jc, (1 <= dim)%nat ->
  decoupled_system dim f f' F Jc ->
  forall (a b r : nat -> R) (m Mb L rho tl : R), smooth_components dim f f' a b r m Mb L ->
  0 <= rho -> (forall i, (i < dim)%nat -> a i <= r i - rho /\ r i + rho <= b i) -> L / m * rho < 1 ->
  forall (dl : R) (n : nat) (x0 x : list R) evs,
  (length x0 = dim /\ forall i, (i < dim)%nat -> Rabs (nth i x0 0 - r i) <= rho) ->
  newton_sysjac NRl (mkCfg tl dl n x0) F Jc = Ok (NOk x, evs) ->
  (length x = dim /\ forall i, (i < dim)%nat -> Rabs (nth i x 0 - r i) <= rho) /\
  forall i, (i < dim)%nat -> Rabs (nth i x 0 - r i) <= L / m * (tl / m * (tl / m)).
Print Assumptions newton_decoupled_ok_close.

(* and the answer IS Ok as soon as Mb q^N rho <= tol with q = (L/m) rho and N < max_iter *)
Theorem newton_decoupled_ok : forall (dim : nat) (f f' : nat -> R -> R) F Jc, (1 <= dim)%nat ->
  decoupled_system dim f f' F Jc ->
  forall (a b r : nat -> R) (m Mb L rho tl : R), smooth_components dim f f' a b r m Mb L ->
  0 <= rho -> (forall i, (i < dim)%nat -> a i <= r i - rho /\ r i + rho <= b i) -> L / m * rho < 1 ->
  forall (dl : R) (N n : nat) (x0 : list R),
  (length x0 = dim /\ forall i, (i < dim)%nat -> Rabs (nth i x0 0 - r i) <= rho) ->
  Mb * ((L / m * rho) ^ N * rho) <= tl -> (N < n)%nat ->
  exists x evs, newton_sysjac NRl (mkCfg tl dl n x0) F Jc = Ok (NOk x, evs) /\
    (length x = dim /\ forall i, (i < dim)%nat -> Rabs (nth i x 0 - r i) <= rho) /\
    forall i, (i < dim)%nat -> Rabs (nth i x 0 - r i) <= L / m * (tl / m * (tl / m)).
Proof.
  intros dim f f' F Jc Hd [HF HJ] a b r m Mb L rho tl (H1 & H2 & H3 & H4 & H5 & H6 & H7).
  exact (newton_diag_ok_lemma dim f f' F Jc Hd HF HJ a b r m Mb L rho tl H1 H2 H3 H4 H5 H6 H7).
Qed.
Check newton_decoupled_ok : forall (dim : nat) (f f' : nat -> R -> R) F Jc, (1 <= dim)%nat ->
  decoupled_system dim f f' F Jc ->
  forall (a b r : nat -> R) (m Mb L rho tl : R), smooth_components dim f f' a b r m Mb L ->
  0 <= rho -> (forall i, (i < dim)%nat -> a i <= r i - rho /\ r i + rho <= b i) -> L / m * rho < 1 ->
  forall (dl : R) (N n : nat) (x0 : list R),
  (length x0 = dim /\ forall i, (i < dim)%nat -> Rabs (nth i x0 0 - r i) <= rho) ->
  Mb * ((L / m * rho) ^ N * rho) <= tl -> (N < n)%nat ->
  exists x evs, newton_sysjac NRl (mkCfg tl dl n x0) F Jc = Ok (NOk x, evs) /\
    (length x = dim /\ forall i, (i < dim)%nat -> Rabs (nth i x 0 - r i) <= rho) /\
    forall i, (i < dim)%nat -> Rabs (nth i x 0 - r i) <= L / m * (tl / m * (tl / m)).
Print Assumptions newton_decoupled_ok.

(* (x, y) |-> (x^3 - 2, y^3 - 2) with its diagonal Jacobian, from (5/4, 13/10), rho = 1/10 (q = 2/5), tol = 2, N = 0 *)
Example newton_decoupled_nonvacuous :
  (1 <= 2)%nat /\ decoupled_system 2 (fun _ => cube2) (fun _ => cube2') F2w J2w /\
  smooth_components 2 (fun _ => cube2) (fun _ => cube2') (fun _ => 1) (fun _ => 2) (fun _ => rc) 3 12 12 /\
  0 <= 1 / 10 /\ (forall i, (i < 2)%nat -> 1 <= rc - 1 / 10 /\ rc + 1 / 10 <= 2) /\ 12 / 3 * (1 / 10) < 1 /\
  (length [5 / 4; 13 / 10] = 2%nat /\ forall i, (i < 2)%nat -> Rabs (nth i [5 / 4; 13 / 10] 0 - rc) <= 1 / 10) /\
  12 * ((12 / 3 * (1 / 10)) ^ 0 * (1 / 10)) <= 2 /\ (0 < 1)%nat.
Proof.
  pose proof rc_bounds as Hrc.
  split; [lia|]. split; [split; [exact F2w_spec|exact J2w_spec]|].
  split.
  { split; [intros i _ c _; apply cube2_der|]. split; [lra|]. split; [lra|].
    split; [intros i _; exact cube2_lo|]. split; [intros i _; exact cube2_hi|].
    split; [intros i _; exact cube2_lip|]. intros i _. exact rc_root. }
  split; [lra|]. split; [intros i _; lra|]. split; [lra|]. split; [exact ball2w|].
  split; [cbn [pow]; lra|auto].
Qed.
Local Close Scope R_scope.

(* the same with the FINITE-DIFFERENCE Jacobian (Newton<Vec64>::solve): the Jacobian of a decoupled map is exactly
   diagonal over R (Props/C18.v jacobian_decoupled_diagonal), its diagonal entries are values of f_i' within |delta|
   of x_i, so q = (L/m)(rho + |delta|) and the final distance is (L/m)(tol/m)(tol/m + |delta|) *)
Local Open Scope R_scope.
Definition decoupled_map (dim : nat) (f : nat -> R -> R) (F : list R -> res (list R)) : Prop :=
  forall x, length x = dim ->
    exists v, F x = Ok v /\ length v = dim /\ forall i, (i < dim)%nat -> nth i v 0 = f i (nth i x 0).

Theorem newton_fd_decoupled_no_panic : forall (dim : nat) (f f' : nat -> R -> R) F, (1 <= dim)%nat ->
  decoupled_map dim f F ->
  forall (a b r : nat -> R) (m Mb L rho tl dl : R), smooth_components dim f f' a b r m Mb L ->
  0 <= rho -> dl <> 0 ->
  (forall i, (i < dim)%nat -> a i <= r i - rho - Rabs dl /\ r i + rho + Rabs dl <= b i) ->
  L / m * (rho + Rabs dl) < 1 ->
  forall (n : nat) (x0 : list R),
  (length x0 = dim /\ forall i, (i < dim)%nat -> Rabs (nth i x0 0 - r i) <= rho) ->
  exists res evs, newton_sys NRl (mkCfg tl dl n x0) F = Ok (res, evs).
Proof.
  intros dim f f' F Hd HF a b r m Mb L rho tl dl (H1 & H2 & H3 & H4 & H5 & H6 & H7).
  exact (Newton2DiagFD.newton_fd_decoupled_total_lemma dim f f' F Hd HF a b r m Mb L rho tl dl H1 H2 H3 H4 H5 H6 H7).
Qed.
Check newton_fd_decoupled_no_panic : forall (dim : nat) (f f' : nat -> R -> R) F, (1 <= dim)%nat ->
  decoupled_map dim f F ->
  forall (a b r : nat -> R) (m Mb L rho tl dl : R), smooth_components dim f f' a b r m Mb L ->
  0 <= rho -> dl <> 0 ->
  (forall i, (i < dim)%nat -> a i <= r i - rho - Rabs dl /\ r i + rho + Rabs dl <= b i) ->
  L / m * (rho + Rabs dl) < 1 ->
  forall (n : nat) (x0 : list R),
  (length x0 = dim /\ forall i, (i < dim)%nat -> Rabs (nth i x0 0 - r i) <= rho) ->
  exists res evs, newton_sys NRl (mkCfg tl dl n x0) F = Ok (res, evs).
Print Assumptions newton_fd_decoupled_no_panic.

Theorem newton_fd_decoupled_ok_close : forall (dim : nat) (f f' : nat -> R -> R) F, (1 <= dim)%nat ->
  decoupled_map dim f F ->
  forall (a b r : nat -> R) (m Mb L rho tl dl : R), smooth_components dim f f' a b r m Mb L ->
  0 <= rho -> dl <> 0 ->
  (forall i, (i < dim)%nat -> a i <= r i - rho - Rabs dl /\ r i + rho + Rabs dl <= b i) ->
  L / m * (rho + Rabs dl) < 1 ->
  forall (n : nat) (x0 x : list R) evs,
  (length x0 = dim /\ forall i, (i < dim)%nat -> Rabs (nth i x0 0 - r i) <= rho) ->
  newton_sys NRl (mkCfg tl dl n x0) F = Ok (NOk x, evs) ->
  (length x = dim /\ forall i, (i < dim)%nat -> Rabs (nth i x 0 - r i) <= rho) /\
  forall i, (i < dim)%nat -> Rabs (nth i x 0 - r i) <= L / m * (tl / m * (tl / m + Rabs dl)).
Proof.
  intros dim f f' F Hd HF a b r m Mb L rho tl dl (H1 & H2 & H3 & H4 & H5 & H6 & H7).
  exact (Newton2DiagFD.newton_fd_decoupled_ok_close_lemma dim f f' F Hd HF a b r m Mb L rho tl dl H1 H2 H3 H4 H5 H6 H7).
Qed.
Check newton_fd_decoupled_ok_close : forall (dim : nat) (f f' : nat -> R -> R) F, (1 <= dim)%nat ->
  decoupled_map dim f F ->
  forall (a b r : nat -> R) (m Mb L rho tl dl : R), smooth_components dim f f' a b r m Mb L ->
  0 <= rho -> dl <> 0 ->
  (forall i, (i < dim)%nat -> a i <= r i - rho - Rabs dl /\ r i + rho + Rabs dl <= b i) ->
  L / m * (rho + Rabs dl) < 1 ->
  forall (n : nat) (x0 x : list R) evs,
  (length x0 = dim /\ forall i, (i < dim)%nat -> Rabs (nth i x0 0 - r i) <= rho) ->
  newton_sys NRl (mkCfg tl dl n x0) F = Ok (NOk x, evs) ->
  (length x = dim /\ forall i, (i < dim)%nat -> Rabs (nth i x 0 - r i) <= rho) /\
  forall i, (i < dim)%nat -> Rabs (nth i x 0 - r i) <= L / m * (tl / m * (tl / m + Rabs dl)).
Print Assumptions newton_fd_decoupled_ok_close.

Theorem newton_fd_decoupled_ok : forall (dim : nat) (f f' : nat -> R -> R) F, (1 <= dim)%nat ->
  decoupled_map dim f F ->
  forall (a b r : nat -> R) (m Mb L rho tl dl : R), smooth_components dim f f' a b r m Mb L ->
  0 <= rho -> dl <> 0 ->
  (forall i, (i < dim)%nat -> a i <= r i - rho - Rabs dl /\ r i + rho + Rabs dl <= b i) ->
  L / m * (rho + Rabs dl) < 1 ->
  forall (N n : nat) (x0 : list R),
  (length x0 = dim /\ forall i, (i < dim)%nat -> Rabs (nth i x0 0 - r i) <= rho) ->
  Mb * ((L / m * (rho + Rabs dl)) ^ N * rho) <= tl -> (N < n)%nat ->
  exists x evs, newton_sys NRl (mkCfg tl dl n x0) F = Ok (NOk x, evs) /\
    (length x = dim /\ forall i, (i < dim)%nat -> Rabs (nth i x 0 - r i) <= rho) /\
    forall i, (i < dim)%nat -> Rabs (nth i x 0 - r i) <= L / m * (tl / m * (tl / m + Rabs dl)).
Proof.
  intros dim f f' F Hd HF a b r m Mb L rho tl dl (H1 & H2 & H3 & H4 & H5 & H6 & H7).
  exact (Newton2DiagFD.newton_fd_decoupled_ok_lemma dim f f' F Hd HF a b r m Mb L rho tl dl H1 H2 H3 H4 H5 H6 H7).
Qed.
Check newton_fd_decoupled_ok : forall (dim : nat) (f f' : nat -> R -> R) F, (1 <= dim)%nat ->
  decoupled_map dim f F ->
  forall (a b r : nat -> R) (m Mb L rho tl dl : R), smooth_components dim f f' a b r m Mb L ->
  0 <= rho -> dl <> 0 ->
  (forall i, (i < dim)%nat -> a i <= r i - rho - Rabs dl /\ r i + rho + Rabs dl <= b i) ->
  L / m * (rho + Rabs dl) < 1 ->
  forall (N n : nat) (x0 : list R),
  (length x0 = dim /\ forall i, (i < dim)%nat -> Rabs (nth i x0 0 - r i) <= rho) ->
  Mb * ((L / m * (rho + Rabs dl)) ^ N * rho) <= tl -> (N < n)%nat ->
  exists x evs, newton_sys NRl (mkCfg tl dl n x0) F = Ok (NOk x, evs) /\
    (length x = dim /\ forall i, (i < dim)%nat -> Rabs (nth i x 0 - r i) <= rho) /\
    forall i, (i < dim)%nat -> Rabs (nth i x 0 - r i) <= L / m * (tl / m * (tl / m + Rabs dl)).
Print Assumptions newton_fd_decoupled_ok.

(* the system of newton_decoupled_nonvacuous with delta = 1/10: q = 4/5 *)
Example newton_fd_decoupled_nonvacuous :
  decoupled_map 2 (fun _ => cube2) F2w /\ 1 / 10 <> 0 /\
  (forall i, (i < 2)%nat -> 1 <= rc - 1 / 10 - Rabs (1 / 10) /\ rc + 1 / 10 + Rabs (1 / 10) <= 2) /\
  12 / 3 * (1 / 10 + Rabs (1 / 10)) < 1 /\
  12 * ((12 / 3 * (1 / 10 + Rabs (1 / 10))) ^ 0 * (1 / 10)) <= 2.
Proof.
  pose proof rc_bounds as Hrc. rewrite (Rabs_right (1 / 10)) by lra.
  split; [exact F2w_spec|]. split; [lra|]. split; [intros i _; lra|]. split; [lra|cbn [pow]; lra].
Qed.
Local Close Scope R_scope.
(* ======================================================================================
   C18, round two (package newton2) -- to be appended at the END of Props/C18.v.
   The O(delta) claim, over the reals (NRl = the real instance of Proofs/NewtonReal.v): whatever matrix
   Mat64::jacobian returns, entry (i, j) differs from the partial derivative d f_i / d x_j at x by at most
   (|delta| / 2) * sup |d^2 f_i / d x_j^2| over the segment between x and x + delta e_j.
   g is the restriction of component i to that segment, g(t) = f_i(x + t e_j); g1 = g', g2 = g''.
   Still not proved: float rounding of the quotient (tie + search). *)
From Coq Require Import Reals Lra.
From OV Require Import Proofs.NewtonReal Proofs.Newton2Jac.
Local Close Scope R_scope.
Local Open Scope nat_scope.

Theorem jacobian_truncation : forall (F : list R -> res (list R)) (x : list R) (dl : R) (J : matrix AR) evs,
  jacobian NRl F x dl = Ok (J, evs) ->
  forall (i j : nat) (g g1 g2 : R -> R) (B : R),
  i < rows J -> j < length x ->
  (forall t, (Rmin 0 dl <= t <= Rmax 0 dl)%R -> exists v, F (perturbed NRl x t j) = Ok v /\ nth i v 0%R = g t) ->
  (forall t, (Rmin 0 dl <= t <= Rmax 0 dl)%R -> derivable_pt_lim g t (g1 t)) ->
  (forall t, (Rmin 0 dl <= t <= Rmax 0 dl)%R -> derivable_pt_lim g1 t (g2 t)) ->
  (forall t, (Rmin 0 dl <= t <= Rmax 0 dl)%R -> (Rabs (g2 t) <= B)%R) ->
  exists q : R, mget J i j = Ok q /\ (Rabs (q - g1 0) <= Rabs dl / 2 * B)%R.
Proof. exact jacobian_truncation_lemma. Qed.
Check jacobian_truncation : forall (F : list R -> res (list R)) (x : list R) (dl : R) (J : matrix AR) evs,
  jacobian NRl F x dl = Ok (J, evs) ->
  forall (i j : nat) (g g1 g2 : R -> R) (B : R),
  i < rows J -> j < length x ->
  (forall t, (Rmin 0 dl <= t <= Rmax 0 dl)%R -> exists v, F (perturbed NRl x t j) = Ok v /\ nth i v 0%R = g t) ->
  (forall t, (Rmin 0 dl <= t <= Rmax 0 dl)%R -> derivable_pt_lim g t (g1 t)) ->
  (forall t, (Rmin 0 dl <= t <= Rmax 0 dl)%R -> derivable_pt_lim g1 t (g2 t)) ->
  (forall t, (Rmin 0 dl <= t <= Rmax 0 dl)%R -> (Rabs (g2 t) <= B)%R) ->
  exists q : R, mget J i j = Ok q /\ (Rabs (q - g1 0) <= Rabs dl / 2 * B)%R.
Print Assumptions jacobian_truncation.

(* F(x, y) = (x^2 y, x + y^3) at (1, 2), delta = 1/4, entry (0, 0): g(t) = 2 (1 + t)^2, g' = 4 (1 + t), g'' = 4 = B;
   the entry is 9/2, the partial derivative 4, and the bound (1/4)/2 * 4 = 1/2 is attained *)
Example jacobian_truncation_nonvacuous :
  exists J evs, jacobian NRl Fw [1%R; 2%R] (1 / 4)%R = Ok (J, evs) /\ 0 < rows J /\
    (forall t, (Rmin 0 (1 / 4) <= t <= Rmax 0 (1 / 4))%R ->
       exists v, Fw (perturbed NRl [1%R; 2%R] t 0) = Ok v /\ nth 0 v 0%R = (2 * ((1 + t) * (1 + t)))%R) /\
    (forall t, derivable_pt_lim (fun t => 2 * ((1 + t) * (1 + t)))%R t (4 * (1 + t))%R) /\
    (forall t, derivable_pt_lim (fun t => 4 * (1 + t))%R t 4%R) /\
    (Rabs 4 <= 4)%R.
Proof. exact jacobian_truncation_witness. Qed.

(* the calculus behind it, either sign of the step: |(g(d) - g(0))/d - g'(0)| <= (|d|/2) sup |g''| *)
Theorem forward_difference_truncation : forall (g g1 g2 : R -> R) (d B : R),
  (forall t, (Rmin 0 d <= t <= Rmax 0 d)%R -> derivable_pt_lim g t (g1 t)) ->
  (forall t, (Rmin 0 d <= t <= Rmax 0 d)%R -> derivable_pt_lim g1 t (g2 t)) ->
  (forall t, (Rmin 0 d <= t <= Rmax 0 d)%R -> (Rabs (g2 t) <= B)%R) ->
  d <> 0%R ->
  (Rabs ((g d - g 0) / d - g1 0) <= Rabs d / 2 * B)%R.
Proof. exact fwd_diff_trunc. Qed.
Check forward_difference_truncation : forall (g g1 g2 : R -> R) (d B : R),
  (forall t, (Rmin 0 d <= t <= Rmax 0 d)%R -> derivable_pt_lim g t (g1 t)) ->
  (forall t, (Rmin 0 d <= t <= Rmax 0 d)%R -> derivable_pt_lim g1 t (g2 t)) ->
  (forall t, (Rmin 0 d <= t <= Rmax 0 d)%R -> (Rabs (g2 t) <= B)%R) ->
  d <> 0%R ->
  (Rabs ((g d - g 0) / d - g1 0) <= Rabs d / 2 * B)%R.
Print Assumptions forward_difference_truncation.
(* non-vacuity: jacobian_truncation_nonvacuous exhibits g, g', g'' = 4 on [0, 1/4] *)

(* the complex Jacobian (Matrix::<Cmplx>::jacobian_cmplx at Newton2Inst.NCR = NCplx SolveC.SAR): the step is the REAL
   number delta, embedded as (delta, 0); gr, gi are the real and imaginary parts of f_i(x + t e_j) for real t *)
From OV Require Model.Complex Proofs.SolveR Proofs.SolveC Proofs.Newton2Inst Proofs.Newton2JacC.
Theorem jacobian_truncation_C : forall (F : list SolveC.ACR -> res (list SolveC.ACR)) (x : list SolveC.ACR) (dl : R)
    (J : matrix SolveC.ACR) evs,
  jacobian Newton2Inst.NCR F x (emb Newton2Inst.NCR dl) = Ok (J, evs) ->
  forall (i j : nat) (gr gr1 gr2 gi gi1 gi2 : R -> R) (Br Bi : R),
  i < rows J -> j < length x ->
  (forall t, (Rmin 0 dl <= t <= Rmax 0 dl)%R ->
     exists v, F (perturbed Newton2Inst.NCR x (Complex.mkC (A:=SolveR.AR) t 0%R) j) = Ok v /\
               Complex.re (nth i v (zero : SolveC.ACR)) = gr t /\ Complex.im (nth i v (zero : SolveC.ACR)) = gi t) ->
  (forall t, (Rmin 0 dl <= t <= Rmax 0 dl)%R -> derivable_pt_lim gr t (gr1 t)) ->
  (forall t, (Rmin 0 dl <= t <= Rmax 0 dl)%R -> derivable_pt_lim gr1 t (gr2 t)) ->
  (forall t, (Rmin 0 dl <= t <= Rmax 0 dl)%R -> (Rabs (gr2 t) <= Br)%R) ->
  (forall t, (Rmin 0 dl <= t <= Rmax 0 dl)%R -> derivable_pt_lim gi t (gi1 t)) ->
  (forall t, (Rmin 0 dl <= t <= Rmax 0 dl)%R -> derivable_pt_lim gi1 t (gi2 t)) ->
  (forall t, (Rmin 0 dl <= t <= Rmax 0 dl)%R -> (Rabs (gi2 t) <= Bi)%R) ->
  exists q : SolveC.ACR, mget J i j = Ok q /\
    (Rabs (Complex.re q - gr1 0) <= Rabs dl / 2 * Br)%R /\ (Rabs (Complex.im q - gi1 0) <= Rabs dl / 2 * Bi)%R.
Proof. exact Newton2JacC.jacobian_truncation_C_lemma. Qed.
Check jacobian_truncation_C : forall (F : list SolveC.ACR -> res (list SolveC.ACR)) (x : list SolveC.ACR) (dl : R)
    (J : matrix SolveC.ACR) evs,
  jacobian Newton2Inst.NCR F x (emb Newton2Inst.NCR dl) = Ok (J, evs) ->
  forall (i j : nat) (gr gr1 gr2 gi gi1 gi2 : R -> R) (Br Bi : R),
  i < rows J -> j < length x ->
  (forall t, (Rmin 0 dl <= t <= Rmax 0 dl)%R ->
     exists v, F (perturbed Newton2Inst.NCR x (Complex.mkC (A:=SolveR.AR) t 0%R) j) = Ok v /\
               Complex.re (nth i v (zero : SolveC.ACR)) = gr t /\ Complex.im (nth i v (zero : SolveC.ACR)) = gi t) ->
  (forall t, (Rmin 0 dl <= t <= Rmax 0 dl)%R -> derivable_pt_lim gr t (gr1 t)) ->
  (forall t, (Rmin 0 dl <= t <= Rmax 0 dl)%R -> derivable_pt_lim gr1 t (gr2 t)) ->
  (forall t, (Rmin 0 dl <= t <= Rmax 0 dl)%R -> (Rabs (gr2 t) <= Br)%R) ->
  (forall t, (Rmin 0 dl <= t <= Rmax 0 dl)%R -> derivable_pt_lim gi t (gi1 t)) ->
  (forall t, (Rmin 0 dl <= t <= Rmax 0 dl)%R -> derivable_pt_lim gi1 t (gi2 t)) ->
  (forall t, (Rmin 0 dl <= t <= Rmax 0 dl)%R -> (Rabs (gi2 t) <= Bi)%R) ->
  exists q : SolveC.ACR, mget J i j = Ok q /\
    (Rabs (Complex.re q - gr1 0) <= Rabs dl / 2 * Br)%R /\ (Rabs (Complex.im q - gi1 0) <= Rabs dl / 2 * Bi)%R.
Print Assumptions jacobian_truncation_C.

(* F(z) = (z^2) at z = 1 + i, delta = 1/4: re f(1 + t + i) = (1 + t)^2 - 1, im f(1 + t + i) = 2 (1 + t) *)
Example jacobian_truncation_C_nonvacuous :
  exists J evs, jacobian Newton2Inst.NCR Newton2JacC.Fwc [Complex.mkC (A:=SolveR.AR) 1%R 1%R] (emb Newton2Inst.NCR (1 / 4)%R) = Ok (J, evs) /\
    0 < rows J /\
    (forall t, (Rmin 0 (1 / 4) <= t <= Rmax 0 (1 / 4))%R ->
       exists v, Newton2JacC.Fwc (perturbed Newton2Inst.NCR [Complex.mkC (A:=SolveR.AR) 1%R 1%R] (Complex.mkC (A:=SolveR.AR) t 0%R) 0) = Ok v /\
                 Complex.re (nth 0 v (zero : SolveC.ACR)) = ((1 + t) * (1 + t) - 1)%R /\
                 Complex.im (nth 0 v (zero : SolveC.ACR)) = (2 * (1 + t))%R) /\
    (forall t, derivable_pt_lim (fun t => (1 + t) * (1 + t) - 1)%R t (2 * (1 + t))%R) /\
    (forall t, derivable_pt_lim (fun t => 2 * (1 + t))%R t 2%R) /\ (Rabs 2 <= 2)%R /\
    (forall t, derivable_pt_lim (fun _ : R => 2%R) t 0%R) /\ (Rabs 0 <= 0)%R.
Proof. exact Newton2JacC.jacobian_truncation_C_witness. Qed.

(* exactness beyond affine maps: the finite-difference Jacobian of a DECOUPLED map F(x)_i = f_i(x_i) is exactly diagonal
   over R, for every dimension: off the diagonal the quotient is (f_i(x_i) - f_i(x_i)) / delta = 0 *)
From OV Require Proofs.SolveBase Proofs.Newton2Sys1d Proofs.Newton2DiagFD.
Theorem jacobian_decoupled_diagonal : forall (dim : nat) (f : nat -> R -> R) (F : list R -> res (list R)),
  (forall x, length x = dim ->
     exists v, F x = Ok v /\ length v = dim /\ forall i, i < dim -> nth i v 0%R = f i (nth i x 0%R)) ->
  forall (x : list R) (d : R), length x = dim -> d <> 0%R ->
  exists J evs, jacobian NRl F x d = Ok (J, evs) /\ wf J /\ rows J = dim /\ cols J = dim /\
    forall i j, i < dim -> j < dim ->
      SolveBase.ent J i j = if i =? j then ((f i (nth i x 0 + d) - f i (nth i x 0)) / d)%R else 0%R.
Proof. exact Newton2DiagFD.jacobian_decoupled. Qed.
Check jacobian_decoupled_diagonal : forall (dim : nat) (f : nat -> R -> R) (F : list R -> res (list R)),
  (forall x, length x = dim ->
     exists v, F x = Ok v /\ length v = dim /\ forall i, i < dim -> nth i v 0%R = f i (nth i x 0%R)) ->
  forall (x : list R) (d : R), length x = dim -> d <> 0%R ->
  exists J evs, jacobian NRl F x d = Ok (J, evs) /\ wf J /\ rows J = dim /\ cols J = dim /\
    forall i j, i < dim -> j < dim ->
      SolveBase.ent J i j = if i =? j then ((f i (nth i x 0 + d) - f i (nth i x 0)) / d)%R else 0%R.
Print Assumptions jacobian_decoupled_diagonal.
(* F(x, y) = (x^3 - 2, y^3 - 2) is decoupled *)
From OV Require Proofs.Newton2Wit.
Example jacobian_decoupled_diagonal_nonvacuous :
  (forall x, length x = 2 ->
     exists v, Newton2Wit.F2w x = Ok v /\ length v = 2 /\
       forall i, i < 2 -> nth i v 0%R = (fun _ : nat => Newton2Wit.cube2) i (nth i x 0%R)) /\
  length [1%R; 2%R] = 2 /\ (1 / 4)%R <> 0%R.
Proof. split; [exact Newton2Wit.F2w_spec|]. split; [reflexivity|]. apply Rgt_not_eq. lra. Qed.
