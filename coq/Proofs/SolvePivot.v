(* Proofs/SolvePivot.v -- the pivot rule of Model/Solve.v (max_abs_in_column: initial index 0, initial
   maximum zero, strict <) selects an entry of maximal magnitude in the scanned part of the column --
   or, when no magnitude there exceeds zero, falls back to its initial index 0.  Needs only that `ltb`
   is a strict weak order (OrdLaws below; met by Q and R).  Package c01. *)
From Coq Require Import List Arith Lia Bool.
From OV Require Import Base.Panic Base.Arith Model.Vector Model.Matrix Model.Solve
  Proofs.Matrix Proofs.SolveBase Proofs.SolveBack Proofs.SolveGauss.
Import ListNotations.

Record OrdLaws (A : Arith) : Prop := {
  ol_irrefl : forall x : A, ltb x x = false;
  (* z <= x < y  implies  z <= y  (negative transitivity of a strict weak order) *)
  ol_ntrans : forall x y z : A, ltb x y = true -> ltb x z = false -> ltb y z = false;
}.

Section Pivot.
Context {A : Arith}.
Variable OL : OrdLaws A.

Lemma max_abs_maximal (m : matrix A) col start : wf m -> (col < cols m) -> (start <= rows m) ->
  exists p, max_abs_in_column m col start = Ok p /\
    ((p = 0 /\ forall i, start <= i < rows m -> ltb zero (abs (ent m i col)) = false) \/
     (start <= p < rows m /\ ltb zero (abs (ent m p col)) = true /\
      forall i, start <= i < rows m -> ltb (abs (ent m p col)) (abs (ent m i col)) = false)).
Proof.
  intros W Hc Hs. rewrite max_abs_unfold.
  destruct (for_inv (fun i0 (s : nat * A) =>
               (fst s = 0 /\ snd s = zero /\ forall i, start <= i < i0 -> ltb zero (abs (ent m i col)) = false) \/
               (start <= fst s < i0 /\ snd s = abs (ent m (fst s) col) /\ ltb zero (snd s) = true /\
                forall i, start <= i < i0 -> ltb (snd s) (abs (ent m i col)) = false))
             start (rows m) (max_body m col) (0, zero)) as (s & E & H).
  - exact Hs.
  - left. repeat split; auto. intros; lia.
  - intros i [mi mx] Hi H. unfold max_body. rewrite mget_ok by (auto; lia). cbn [bind].
    cbn [fst snd] in H.
    destruct (ltb mx (abs (ent m i col))) eqn:Lt; eexists; (split; [reflexivity|]); cbn [fst snd].
    + right. split; [lia|]. split; [reflexivity|].
      destruct H as [(_ & Hz & Hall)|(_ & _ & Hpos & Hall)].
      * subst mx. split; auto. intros i' Hi'. destruct (Nat.eq_dec i' i) as [->|]; [apply (ol_irrefl A OL)|].
        apply (ol_ntrans A OL zero); auto. apply Hall; lia.
      * split.
        { destruct (ltb zero (abs (ent m i col))) eqn:Z; auto.
          pose proof (ol_ntrans A OL _ _ _ Hpos Z) as C. congruence. }
        intros i' Hi'. destruct (Nat.eq_dec i' i) as [->|]; [apply (ol_irrefl A OL)|].
        apply (ol_ntrans A OL mx); auto. apply Hall; lia.
    + destruct H as [(H0 & Hz & Hall)|(Hr & Hm & Hpos & Hall)].
      * left. repeat split; auto. intros i' Hi'. destruct (Nat.eq_dec i' i) as [->|]; [|apply Hall; lia].
        now rewrite <- Hz.
      * right. split; [lia|]. repeat split; auto.
        intros i' Hi'. destruct (Nat.eq_dec i' i) as [->|]; [exact Lt|apply Hall; lia].
  - rewrite E. cbn [bind]. exists (fst s). split; auto.
    destruct H as [(H0 & _ & Hall)|(Hr & Hm & Hpos & Hall)]; [left; auto|].
    right. rewrite <- Hm. auto.
Qed.

End Pivot.
