(* Proofs/IterInst.v -- concrete instances that discharge the hypotheses of the field-level
   theorems of Proofs/IterField.v (non-vacuity): the rationals Qc with a stand-in square root
   (the theorems quantify over EVERY function sqrt with sqrt 0 = 0, so any such function is an
   instance), and the CSC product of a concrete 2x2 matrix as a linear operator. *)
From Coq Require Import List Arith Lia ZArith QArith Qcanon.
From OV Require Import Base.Panic Base.Arith Model.Vector Model.Matrix Model.Sparse Model.Iter
  Inst.QcInst Proofs.Iter Proofs.IterField.
Import ListNotations.

Definition SAQ : SArith := {| SA := AQ; sqrt := fun x : Qc => x; of_nat := fun k => Q2Qc (inject_Z (Z.of_nat k)) |}.

Lemma SAQ_SqrtLaws : SqrtLaws SAQ.
Proof. split; reflexivity. Qed.

(* [[4,1],[1,3]] in compressed-sparse-column form *)
Definition exq_s : sparse AQ := @mkS AQ 2%nat 2%nat 4%nat [q 4 1; q 1 1; q 1 1; q 3 1] [0; 1; 0; 1]%nat [0; 2; 4]%nat.

Lemma exq_mul (a b : Qc) :
  sp_mul exq_s [a; b] = Ok [(0 + q 4 1 * a + q 1 1 * b)%Qc; (0 + q 1 1 * a + q 3 1 * b)%Qc].
Proof. reflexivity. Qed.

Lemma exq_lin : LinOp 2%nat (@sp_mul AQ exq_s).
Proof.
  split.
  - intros [|a [|b [|c v]]] Hv; try discriminate Hv. rewrite exq_mul. eauto.
  - intros [|a [|b [|c u]]] [|a' [|b' [|c' v]]] x y Hu Hv; try discriminate Hu; try discriminate Hv.
    rewrite !exq_mul. intros Ex Ey. injection Ex as <-. injection Ey as <-.
    change (zipw add [a; b] [a'; b']) with [(a + a')%Qc; (b + b')%Qc]. rewrite exq_mul.
    cbn [zipw combine map fst snd add AQ]. apply f_equal. apply f_equal2; [ring | apply f_equal2; [ring | reflexivity]].
  - intros c [|a [|b [|c' v]]] x Hv; try discriminate Hv.
    rewrite exq_mul. intros Ex. injection Ex as <-.
    change (vscale [a; b] c) with [(a * c)%Qc; (b * c)%Qc]. rewrite exq_mul.
    cbn [vscale map mul AQ]. apply f_equal. apply f_equal2; [ring | apply f_equal2; [ring | reflexivity]].
Qed.
