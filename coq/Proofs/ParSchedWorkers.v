(* Proofs/ParSchedWorkers.v -- worker counts the machine cannot offer.  Over IEEE binary64 (Coq's primitive floats,
   related to Flocq's binary_float) and for ALL data -- NaN, infinities, signed zeros, overflowing products included:
     - with ONE worker, and with MORE WORKERS THAN ELEMENTS (len < t: chunk size 0, every worker but the last gets an
       empty slice), the threaded dot product is BIT-IDENTICAL to the sequential one.
   The tie of C16 can only run the worker counts the machine has (1..16 here); this covers every t > len.
   Facts used: 0 + 0 = +0;  0 + x = x unless x is -0;  an accumulator that starts at +0 is never -0
   (x + y is -0 only if x and y both are: Flocq's Bplus_correct and round_plus_eq_0). *)
From Coq Require Import ZArith Reals Floats Lia Lra List Bool Arith.
From Flocq Require Import Core.Core IEEE754.BinarySingleNaN IEEE754.PrimFloat.
From Flocq Require Import Plus_error.
From OV Require Import Base.Panic Base.Arith Model.Vector Model.ParDot Model.ParSched
  Proofs.ParDot Proofs.ParSched Proofs.ParDotFloat Inst.FloatInst.
Import ListNotations.

Notation negzero := (B754_zero true : binary_float prec emax).
Notation Bp := (@Bplus prec emax HP HM mode_NE).

Lemma Bplus_ff_not_negzero sx mx ex Bx sy my ey By :
  Bp (B754_finite sx mx ex Bx) (B754_finite sy my ey By) <> negzero.
Proof.
  intros H.
  pose proof (Bplus_correct prec emax HP HM mode_NE (B754_finite sx mx ex Bx) (B754_finite sy my ey By) eq_refl eq_refl) as C.
  rewrite H in C.
  destruct (Rlt_bool _ _) in C.
  - destruct C as (C1 & _ & C3). change (@B2R prec emax (B754_zero true)) with 0%R in C1. symmetry in C1.
    assert (VE : Valid_exp (fexp prec emax)) by exact (fexp_correct prec emax HP).
    assert (NF : Exp_not_FTZ (fexp prec emax)) by exact (@monotone_exp_not_FTZ _ VE (fexp_monotone prec emax)).
    apply (@round_plus_eq_0 radix2 (fexp prec emax) VE NF (round_mode mode_NE) _ _ _
             (generic_format_B2R prec emax _) (generic_format_B2R prec emax _)) in C1.
    rewrite C1, Rcompare_Eq in C3 by reflexivity. cbn [Bsign] in C3.
    symmetry in C3. apply andb_prop in C3 as [-> ->]. cbn [B2R] in C1.
    assert (F2R (Float radix2 (cond_Zopp true (Z.pos mx)) ex) < 0)%R by now apply F2R_lt_0.
    assert (F2R (Float radix2 (cond_Zopp true (Z.pos my)) ey) < 0)%R by now apply F2R_lt_0.
    lra.
  - destruct C as [C1 _]. cbn in C1. discriminate C1.
Qed.

Lemma Bplus_not_negzero (x y : binary_float prec emax) : x <> negzero -> Bp x y <> negzero.
Proof.
  intros Hx.
  destruct x as [sx|sx| |sx mx ex Bx]; destruct y as [sy|sy| |sy my ey By];
    try apply Bplus_ff_not_negzero; cbn [Bplus]; try discriminate.
  - destruct sx; [congruence|]. destruct sy; cbn; discriminate.
  - destruct sx, sy; cbn; discriminate.
Qed.

Lemma Prim2B_zero : Prim2B 0%float = B754_zero false.
Proof. apply B2SF_inj. rewrite B2SF_Prim2B. reflexivity. Qed.

Lemma fadd_zero_l (x : PrimFloat.float) : Prim2B x <> negzero -> (0 + x)%float = x.
Proof.
  intros Hx. apply Prim2B_inj. rewrite add_equiv, Prim2B_zero.
  destruct (Prim2B x) as [sy|sy| |sy my ey By]; cbn [Bplus]; auto.
  destruct sy; [congruence|reflexivity].
Qed.

Lemma fold_not_negzero (l : list (PrimFloat.float * PrimFloat.float)) acc : Prim2B acc <> negzero ->
  Prim2B (fold_left (fun a p => (a + fst p * snd p)%float) l acc) <> negzero.
Proof.
  revert acc; induction l as [|p r IH]; intros acc H; cbn [fold_left]; auto.
  apply IH. rewrite add_equiv. now apply Bplus_not_negzero.
Qed.

(* the sequential loop from +0 never returns -0, on any data *)
Lemma dot_raw_not_negzero (v w : list PrimFloat.float) : Prim2B (dot_raw (A := AF) v w) <> negzero.
Proof. unfold dot_raw. apply fold_not_negzero. change (@zero AF) with 0%float. rewrite Prim2B_zero. discriminate. Qed.

(* the partition when there are more workers than elements *)
Lemma slice_of_small {X} (v : list X) t i : length v < t ->
  slice_of v t i = if i =? t - 1 then v else [].
Proof.
  intros H. unfold slice_of, chunk_bounds. rewrite (Nat.div_small _ _ H), !Nat.mul_0_r.
  destruct (i =? t - 1); cbn [skipn Nat.sub firstn]; [|reflexivity].
  rewrite Nat.sub_0_r. apply firstn_all.
Qed.

Lemma slice_of_one {X} (v : list X) : slice_of v 1 0 = v.
Proof.
  unfold slice_of, chunk_bounds. cbn [Nat.eqb Nat.sub Nat.mul skipn]. rewrite Nat.sub_0_r. apply firstn_all.
Qed.

Lemma fold_empty_slices (f : nat -> PrimFloat.float) (l : list nat) :
  (forall i, In i l -> f i = 0%float) -> fold_left (fun acc i => (acc + f i)%float) l 0%float = 0%float.
Proof.
  induction l as [|i r IH]; intros H; cbn [fold_left]; auto.
  rewrite (H i (or_introl eq_refl)). change (0 + 0)%float with 0%float. apply IH. intros j Hj. apply H. now right.
Qed.

Lemma pardot_more_workers_float_lemma t (v w : list AF) : length v < t -> length v = length w ->
  pardot (A := AF) t v w = dot (A := AF) v w.
Proof.
  intros Hlt Hl. assert (Ht : 1 <= t) by lia.
  rewrite (pardot_closed_form_lemma (A := AF) t v w Ht Hl), (dot_ok (A := AF) v w Hl). f_equal.
  destruct t as [|t']; [lia|]. rewrite seq_S, fold_left_app. cbn [plus fold_left].
  assert (Hw : length w < S t') by lia.
  rewrite (fold_empty_slices (fun i => dot_raw (A := AF) (slice_of v (S t') i) (slice_of w (S t') i))).
  - rewrite (slice_of_small v (S t') t' Hlt), (slice_of_small w (S t') t' Hw).
    replace (S t' - 1) with t' by lia. rewrite Nat.eqb_refl.
    apply fadd_zero_l, dot_raw_not_negzero.
  - intros i Hi. apply in_seq in Hi.
    rewrite (slice_of_small v (S t') i Hlt), (slice_of_small w (S t') i Hw).
    replace (S t' - 1) with t' by lia. destruct (Nat.eqb_spec i t'); [lia|]. reflexivity.
Qed.

Lemma pardot_one_worker_float_lemma (v w : list AF) : length v = length w ->
  pardot (A := AF) 1 v w = dot (A := AF) v w.
Proof.
  intros Hl. rewrite (pardot_closed_form_lemma (A := AF) 1 v w (le_n 1) Hl), (dot_ok (A := AF) v w Hl). f_equal.
  cbn [seq fold_left]. rewrite !slice_of_one. apply fadd_zero_l, dot_raw_not_negzero.
Qed.

(* ... and so does every interleaved execution of the scoped-thread program with such a worker count *)
Lemma sched_few_elements_float_lemma (v w : list AF) t s0 n s : t = 1 \/ length v < t ->
  par_program (A := AF) v w t = Ok s0 -> steps v w t n s0 s -> terminal v w t s ->
  main s = MRet (dot (A := AF) v w).
Proof.
  intros Hc HP HS HT. destruct (sched_deterministic_lemma v w t s0 n s HP HS HT) as [_ ->].
  apply par_program_ok in HP as (Ht & Hl & _). f_equal.
  destruct Hc as [->|Hlt]; [now apply pardot_one_worker_float_lemma|now apply pardot_more_workers_float_lemma].
Qed.

(* data for the non-vacuity examples: nothing is assumed about the values *)
Definition ex_wild_v : list AF := [infinity; nan; (-0); 1e308; 4.9e-324; (-1e308)]%float.
Definition ex_wild_w : list AF := [1; 1; 1; 10; 0.5; 10]%float.
Lemma ex_wild_ok :
  length ex_wild_v < 17 /\ length ex_wild_v = length ex_wild_w /\ is_ok (pardot (A := AF) 17 ex_wild_v ex_wild_w) = true.
Proof. split; [cbn; lia|]. split; vm_compute; reflexivity. Qed.
