(* Proofs/RoundSparseDense.v -- the rounding theorem of the compressed-sparse-column product (Proofs/RoundSparse.v) in
   DENSE form, the formulation  fl(A x) = (A + dA) x ,  |dA| <= gam |A|  componentwise:

     sp_rentry s i j  :=  the (i,j) entry the structure denotes over the reals: the sum of the stored values of row i
                          that sit in column j (one value, or none, when no position is stored twice)
     sp_rabs   s i j  :=  the sum of their absolute values  ( = |sp_rentry s i j| when no position is stored twice:
                          [sp_rabs_nodup] )

     sp_mul_dense_backward_error_lemma :
        fl(A x)_i = Sum_{j < cols} (sp_rentry s i j + dA i j) x_j ,   |dA i j| <= gam m_i * sp_rabs s i j ,
        m_i = number of entries stored in row i.

   Regrouping the row sum (in storage order) by column is pure real-number algebra ([Rsum_group]). *)
From Coq Require Import List Arith Lia Reals Lra Psatz Bool.
From OV Require Import Base.Panic Base.Arith Base.RoundModel Model.Vector Model.Matrix Model.Sparse
  Proofs.Matrix Proofs.SparseBase Proofs.SparseMul Proofs.RoundDot Proofs.RoundMatvec Proofs.RoundBacksolve Proofs.RoundSparse.
Import ListNotations.
Local Open Scope R_scope.

(* Sum_{j<c} [p = j] v = v  for p < c *)
Lemma Rsum_delta c p v : (p < c)%nat -> Rsum c (fun j => if (p =? j)%nat then v else 0) = v.
Proof.
  induction c as [|c IH]; intros Hp; [lia|].
  cbn [Rsum]. destruct (Nat.eqb_spec p c) as [->|Ne].
  - rewrite Rsum_zero; [ring|]. intros k Hk. destruct (Nat.eqb_spec c k); [lia|reflexivity].
  - rewrite IH by lia. ring.
Qed.

(* grouping a finite sum by a key with values below c *)
Lemma Rsum_group m c (key : nat -> nat) (f : nat -> R) :
  (forall t, (t < m)%nat -> (key t < c)%nat) ->
  Rsum m f = Rsum c (fun j => Rsum m (fun t => if (key t =? j)%nat then f t else 0)).
Proof.
  induction m as [|m IH]; intros Hk.
  - cbn [Rsum]. symmetry. apply Rsum_zero. reflexivity.
  - cbn [Rsum]. rewrite Rsum_plus, <- IH by (intros; apply Hk; lia).
    rewrite Rsum_delta by (apply Hk; lia). reflexivity.
Qed.

(* with at most one matching index the absolute value passes inside *)
Lemma Rsum_abs_single m (key : nat -> nat) (g : nat -> R) j :
  (forall t t', (t < m)%nat -> (t' < m)%nat -> key t = j -> key t' = j -> t = t') ->
  Rabs (Rsum m (fun t => if (key t =? j)%nat then g t else 0))
  = Rsum m (fun t => if (key t =? j)%nat then Rabs (g t) else 0).
Proof.
  induction m as [|m IH]; intros Hinj; [cbn; apply Rabs_R0|].
  cbn [Rsum]. destruct (Nat.eqb_spec (key m) j) as [E|Ne].
  - assert (Z : forall (h : nat -> R), Rsum m (fun t => if (key t =? j)%nat then h t else 0) = 0).
    { intros h. apply Rsum_zero. intros t Ht. destruct (Nat.eqb_spec (key t) j) as [Et|]; [|reflexivity].
      specialize (Hinj t m ltac:(lia) ltac:(lia) Et E). lia. }
    rewrite !Z, !Rplus_0_l. reflexivity.
  - rewrite !Rplus_0_r. apply IH. intros t t' Ht Ht'. apply Hinj; lia.
Qed.

Section Dense.
Variable u : R.
Hypothesis u_range : 0 <= u < 1.
Variables fadd fsub fmul fdiv : R -> R -> R.
Hypothesis fadd_ok : forall x y, exists d, Rabs d <= u /\ fadd x y = (x + y) * (1 + d).
Hypothesis fmul_ok : forall x y, exists d, Rabs d <= u /\ fmul x y = x * y * (1 + d).
Hypothesis fadd_0_mul : forall a b, fadd 0 (fmul a b) = fmul a b.

Notation AR := (ARm fadd fsub fmul fdiv).
Notation gam := (gam u).

Definition sp_rentry (s : sparse AR) (i j : nat) : R :=
  Rsum (length (row_entries s i)) (fun t => if (re_col s i t =? j)%nat then re_val s i t else 0).
Definition sp_rabs (s : sparse AR) (i j : nat) : R :=
  Rsum (length (row_entries s i)) (fun t => if (re_col s i t =? j)%nat then Rabs (re_val s i t) else 0).

(* no position of row i stored twice: the columns of its entries are pairwise distinct *)
Definition row_nodup (s : sparse AR) (i : nat) : Prop :=
  forall t t', (t < length (row_entries s i))%nat -> (t' < length (row_entries s i))%nat ->
    re_col s i t = re_col s i t' -> t = t'.

Lemma sp_rabs_nodup (s : sparse AR) i j : row_nodup s i -> sp_rabs s i j = Rabs (sp_rentry s i j).
Proof.
  intros H. unfold sp_rabs, sp_rentry. symmetry. apply Rsum_abs_single.
  intros t t' Ht Ht' E E'. apply H; auto. congruence.
Qed.

Lemma re_col_lt (s : sparse AR) i t : wfS s -> (t < length (row_entries s i))%nat -> (re_col s i t < sp_cols s)%nat.
Proof.
  intros Hwf Ht. unfold re_col.
  assert (Hin : In (nth t (row_entries s i) (0%nat, 0%nat)) (row_entries s i)) by now apply nth_In.
  unfold row_entries in Hin. apply filter_In in Hin as [Hin _]. now apply (visits_fst_lt _ _ _ Hin).
Qed.

Theorem sp_mul_dense_backward_error_lemma (s : sparse AR) (x y : list R) :
  wfS s -> sp_mul s x = Ok y ->
  length y = sp_rows s /\
  exists dA : nat -> nat -> R,
    forall i, (i < sp_rows s)%nat -> INR (length (row_entries s i)) * u < 1 ->
      (forall j, (j < sp_cols s)%nat -> Rabs (dA i j) <= gam (length (row_entries s i)) * sp_rabs s i j) /\
      nth i y 0 = Rsum (sp_cols s) (fun j => (sp_rentry s i j + dA i j) * nth j x 0).
Proof using u_range fadd_ok fmul_ok fadd_0_mul.
  intros Hwf E.
  destruct (sp_mul_backward_error_lemma u u_range fadd fsub fmul fdiv fadd_ok fmul_ok fadd_0_mul s x y Hwf E)
    as (Ly & Hrows). split; [exact Ly|].
  destruct (fin_choice (fun _ : nat => 0)
              (fun i (d : nat -> R) => INR (length (row_entries s i)) * u < 1 ->
                 (forall j, (j < sp_cols s)%nat -> Rabs (d j) <= gam (length (row_entries s i)) * sp_rabs s i j) /\
                 nth i y 0 = Rsum (sp_cols s) (fun j => (sp_rentry s i j + d j) * nth j x 0)) (sp_rows s))
    as (F & HF).
  - intros i Hi. destruct (Rlt_dec (INR (length (row_entries s i)) * u) 1) as [Hn|Hn].
    2:{ exists (fun _ => 0). intros H. contradiction. }
    destruct (Hrows i Hi Hn) as (th & Hth & Ey).
    set (m := length (row_entries s i)) in *.
    exists (fun j => Rsum m (fun t => if (re_col s i t =? j)%nat then re_val s i t * th t else 0)).
    intros _. split.
    + intros j Hj. eapply Rle_trans; [apply Rsum_abs|]. unfold sp_rabs. fold m. rewrite <- Rsum_scal.
      apply Rsum_le. intros t Ht. destruct (re_col s i t =? j)%nat.
      * rewrite Rabs_mult. specialize (Hth t Ht). pose proof (Rabs_pos (re_val s i t)). nra.
      * rewrite Rabs_R0. lra.
    + rewrite Ey.
      rewrite (Rsum_group m (sp_cols s) (fun t => re_col s i t)) by (intros t Ht; now apply re_col_lt).
      apply Rsum_ext. intros j Hj. unfold sp_rentry. fold m.
      rewrite <- Rsum_plus, Rmult_comm, <- Rsum_scal. apply Rsum_ext. intros t Ht.
      destruct (Nat.eqb_spec (re_col s i t) j) as [->|]; ring.
  - exists F. intros i Hi Hn. exact (HF i Hi Hn).
Qed.

End Dense.
