(* Proofs/SrcEqRoots.v -- `impl Polynomial<Cmplx>` (src/polynomial/mod.rs): quadratic_solve and cubic_solve, regenerated from
   the source of this run as gen/SrcRoots.v over the model's two-sorted RootArith (f64 / Cmplx; the libm-backed
   Complex::sqrt / pow as the oracle operations osqrt / opow), against the hand-written model Model/Roots.v (package C10):

       s_quadratic_solve RA a b c = quadratic_solve RA a b c        s_cubic_solve RA a b c d = cubic_solve RA a b c d

   for EVERY RootArith RA -- the float instance with its oracle table (what the check runs) and the field instance of the
   theorems of Props/C10.v alike.  (the source writes the roots into a Vector of zeros of length 2 / 3 and reads roots[0]
   back; the model names the values) *)
From Coq Require Import List Arith ZArith Lia Bool.
From OV Require Import Base.Panic Base.Arith Model.Vector Model.Complex gen.Params Model.Roots gen.SrcPrelude gen.SrcRoots Proofs.SrcEqBase.
Import ListNotations.

Section SrcEqRoots.
Variable RA : RootArith.
Local Notation R := (T (SA (RR RA))).
Local Notation K := (T (KK RA)).

Lemma if_ok {Y} (c : bool) (a b : Y) : (if c then Ok a else Ok b) = Ok (if c then a else b).
Proof. destruct c; reflexivity. Qed.

Ltac rt_step :=
  match goal with
  | |- ?a = ?b => reflexivity
  | |- context [bind (bind _ _) _] => rewrite !bind_assoc
  | |- context [bind (Ok _) _] => rewrite !bind_Ok_l
  | |- context [if ?c then Ok ?a else Ok ?b] => rewrite (if_ok c a b)
  | |- bind ?e _ = bind ?e' _ => unify e e'; apply bind_ext; intros ?
  | |- context [bind (if ?c then _ else _) _] => destruct c eqn:?
  | |- (if ?c then _ else _) = _ => destruct c eqn:?
  | |- _ = (if ?c then _ else _) => destruct c eqn:?
  end.
Ltac rt_eq := repeat (rt_step; cbn [repeat upd rd nth_error length Nat.ltb Nat.leb upd_list bind andb]).

Lemma src_quadratic_solve (a b c : K) : s_quadratic_solve RA a b c = quadratic_solve RA a b c.
Proof.
  unfold s_quadratic_solve, quadratic_solve, quadratic_solve_gen. cbv zeta. cbn [andb].
  rt_eq.
Qed.

Lemma src_cubic_solve (a b c d : K) : s_cubic_solve RA a b c d = cubic_solve RA a b c d.
Proof.
  unfold s_cubic_solve, cubic_solve, cubic_solve_gen, cubic_disc, cubic_minus. cbv zeta.
  rt_eq.
Qed.

(* ------------------------------------------------------------------ laguer
   The model returns a record (final iterate, exit reason, value of *iterations, trace fields); the source returns the three
   `&mut` operands (a -- never assigned --, x, iterations).  ERASURE: the regenerated function is the model with the exit
   reason and the trace fields projected away. *)
Lemma laguer_loop_eq (a : list K) (m : nat) (x0 : K) (fin0 : bool)
      (b1 : nat -> K * nat -> res (K * nat + list K * K * nat)) :
  (forall iter x its, b1 iter (x, its) = let* o := laguer_step RA a m iter x in
        Ok (match o with inl _ => inr (a, x, iter) | inr x' => inl (x', iter) end)) ->
  forall n lo x its, (n = 0 -> its = lo - 1) ->
  (let* o := for_ret_from n lo b1 (x, its) in
   match o with inl (x', its') => Ok (a, x', its') | inr r => Ok r end)
  = (let* l := laguer_loop RA a m x0 fin0 n lo x in Ok (a, lx l, liters l)).
Proof.
  intros Hb. induction n as [|n IH]; intros lo x its Hn; cbn [for_ret_from laguer_loop bind].
  - rewrite (Hn eq_refl). reflexivity.
  - rewrite Hb, !bind_assoc. destruct (laguer_step RA a m lo x) as [[[why tok]|x']|k]; cbn [bind]; [reflexivity| |reflexivity].
    apply IH. intros _. lia.
Qed.

Ltac lg_step :=
  match goal with
  | |- ?a = ?b => reflexivity
  | |- context [bind (bind _ _) _] => rewrite !bind_assoc
  | |- context [bind (Ok _) _] => rewrite !bind_Ok_l
  | |- context [if ?c then Ok ?a else Ok ?b] => rewrite (if_ok c a b)
  | |- bind ?e _ = bind ?e' _ => unify e e'; apply bind_ext; intros ?
  | |- context [match ?p with pair _ _ => _ end] => is_var p; destruct p
  | |- context [if negb ?c then ?x else ?y] => rewrite (if_negb_flip c x y)             (* canonical orientation, both sides *)
  | |- context [bind (if ?c then _ else _) _] => destruct c eqn:?
  | |- (if ?c then _ else _) = _ => destruct c eqn:?
  | |- _ = (if ?c then _ else _) => destruct c eqn:?
  | |- Ok _ = Ok _ => f_equal
  | |- context [if ?c then _ else _] => destruct c eqn:?
  end.

Lemma src_laguer (a : list K) (x : K) (its : nat) :
  s_laguer RA a x its = let* l := laguer RA a x in Ok (a, lx l, liters l).
Proof.
  unfold s_laguer, laguer, for_ret. rewrite bind_assoc. apply bind_ext; intros m.
  change (10 * 8 - 1) with (MAXIT - 1).
  apply laguer_loop_eq; [|unfold MAXIT; cbv; discriminate].
  intros iter y n. unfold laguer_step, horner3, gtb. cbv delta [LAGUER_MT LAGUER_MR]. cbv zeta. unfold rlit.
  repeat lg_step.
Qed.

(* ------------------------------------------------------------------ poly_solve
   The model also returns the trace of every laguer call.  ERASURE:  s_poly_solve = the model's roots. *)
Lemma for_rev_from_sim {S1 S2} (Rl : S1 -> S2 -> Prop) n lo (b1 : nat -> S1 -> res S1) (b2 : nat -> S2 -> res S2) a1 a2 :
  Rl a1 a2 ->
  (forall i p1 p2, lo <= i < lo + n -> Rl p1 p2 -> res_rel Rl (b1 i p1) (b2 i p2)) ->
  res_rel Rl (for_rev_from n lo b1 a1) (for_rev_from n lo b2 a2).
Proof.
  revert a1 a2; induction n as [|n IH]; intros a1 a2 H0 H; cbn [for_rev_from]; [exact H0|].
  apply (res_rel_bind2 Rl Rl); [apply H; [lia|exact H0]|].
  intros p q Hpq. apply IH; [exact Hpq|]. intros; apply H; [lia|assumption].
Qed.
Lemma for_rev_sim {S1 S2} (Rl : S1 -> S2 -> Prop) lo hi (b1 : nat -> S1 -> res S1) (b2 : nat -> S2 -> res S2) a1 a2 :
  Rl a1 a2 ->
  (forall i p1 p2, lo <= i < hi -> Rl p1 p2 -> res_rel Rl (b1 i p1) (b2 i p2)) ->
  res_rel Rl (for_rev lo hi b1 a1) (for_rev lo hi b2 a2).
Proof. intros H0 H. apply for_rev_from_sim; [exact H0|]. intros; apply H; [lia|assumption]. Qed.

(* `ad_v = zeros(n); for jj in 0..n { ad_v[jj] = ad[jj]; }` is the model's take_checked *)
Lemma mapM_rd_seq_panic {Y} (v : list Y) n lo : lo <= length v < lo + n -> mapM (rd v) (seq lo n) = Panic Index.
Proof.
  revert lo; induction n as [|n IH]; intros lo H; [lia|]. cbn [seq mapM].
  destruct (Nat.eq_dec lo (length v)) as [->|Hne].
  - rewrite rd_panic by lia. reflexivity.
  - rewrite (IH (S lo)) by lia. destruct (rd v lo) eqn:E; [reflexivity|].
    unfold rd in E. destruct (nth_error v lo) eqn:En; [discriminate|]. apply nth_error_None in En. lia.
Qed.
Lemma copy_loop (ad : list K) (n : nat) :
  for_ 0 n (fun jj v => let* y := rd ad jj in upd v jj y) (repeat (@zero (KK RA)) n) = take_checked RA ad n.
Proof.
  unfold for_, take_checked. rewrite Nat.sub_0_r.
  pose proof (for_from_tab (rd ad) (repeat (@zero (KK RA)) n) []) as E. rewrite repeat_length in E. cbn [length app] in E.
  rewrite E. clear E. destruct (Nat.leb_spec n (length ad)) as [Hle|Hgt].
  - rewrite mapM_rd_seq by lia. reflexivity.
  - rewrite mapM_rd_seq_panic by lia. reflexivity.
Qed.

Lemma res_rel_refl_eq {Y} (e : res Y) : res_rel eq e e.
Proof. destruct e; reflexivity. Qed.

Ltac rr_bind :=
  match goal with
  | |- res_rel _ (bind ?e _) (bind ?e' _) => unify e e'; change e' with e; destruct e; cbn [bind res_rel]; [|reflexivity]
  end.

Lemma src_poly_solve (coeffs : list K) (refine : bool) :
  s_poly_solve RA coeffs refine = let* r := poly_solve RA coeffs refine in Ok (fst r).
Proof.
  unfold s_poly_solve, poly_solve. rewrite bind_assoc. apply bind_ext; intros degree. cbv zeta.
  destruct (degree =? 0); [reflexivity|].
  rewrite !bind_assoc. apply bind_ext; intros roots1.
  rewrite !bind_assoc. apply bind_ext; intros roots2.
  rewrite !bind_assoc. apply bind_ext; intros roots3.
  rewrite !bind_assoc.
  (* the deflation loop: source state (roots, its, ad), model state (ad, roots, trace) *)
  apply (res_rel_bind (fun (p : list K * nat) (q : list K * list (lres K)) => fst p = fst q)).
  - destruct (3 <? degree); [|reflexivity].
    apply (res_rel_bind2 (fun (p : list K * nat * list K) (q : list K * list K * list (lres K)) =>
                            fst (fst p) = snd (fst q) /\ snd p = fst (fst q))).
    + apply for_rev_sim; [split; reflexivity|].
      intros j [[rs its] ad] [[ad' rs'] tr] Hj [E1 E2]. cbn [fst snd] in E1, E2. subst rs' ad'.
      unfold solve_body. rewrite copy_loop.
      rr_bind. rewrite !bind_assoc. rr_bind. cbn [bind]. rewrite if_ok. cbn [bind]. unfold snap.
      rr_bind. unfold deflate. rewrite !bind_assoc. rr_bind.
      match goal with |- res_rel _ (bind ?e _) (bind ?e' _) => unify e e'; change e' with e; destruct e as [[ad2 b2]|]; cbn [bind res_rel fst snd]; [|reflexivity] end.
      split; reflexivity.
    + intros [[rs its] ad] [[ad' rs'] tr] [E1 E2]. cbn [fst snd] in *. subst. reflexivity.
  - intros [rs its] [rs' tr] E. cbn [fst] in E. subst rs'.
    destruct refine; [|reflexivity].
    (* the polishing loop: source state (roots, its, a) with a = coeffs throughout, model state (roots, trace) *)
    match goal with |- bind ?L _ = _ => transitivity (bind L (fun r => Ok (fst (fst r)))); [apply bind_ext; intros [[? ?] ?]; reflexivity|] end.
    apply (res_rel_bind (fun (p : list K * nat * list K) (q : list K * list (lres K)) => fst (fst p) = fst q /\ snd p = coeffs)).
    + apply for_sim; [split; reflexivity|].
      intros j [[rs2 its2] a2] [rs2' tr2] Hj [E1 E2]. cbn [fst snd] in E1, E2. subst rs2' a2.
      unfold polish_body. rr_bind. rewrite !bind_assoc. rr_bind. cbn [bind]. rr_bind. split; reflexivity.
    + intros [[rs2 its2] a2] [rs2' tr2] [E1 E2]. cbn [fst snd] in *. subst. reflexivity.
Qed.

(* ------------------------------------------------------------------ the public entry points *)
Lemma src_roots_f64 (p : list R) (refine : bool) :
  s_roots_f64 RA p refine = let* r := poly_solve RA (map (fun c => mkk RA c zero) p) refine in Ok (fst r).
Proof.
  unfold s_roots_f64, for_. rewrite Nat.sub_0_r.
  pose proof (for_from_tab (fun i => let* c := rd p i in Ok (mkk RA c zero)) (repeat (@zero (KK RA)) (length p)) []) as E.
  rewrite repeat_length in E. cbn [length app] in E.
  rewrite (for_from_ext _ _ _ (fun i v => let* y := (let* c := rd p i in Ok (mkk RA c zero)) in upd v i y)).
  2:{ intros i v _. rewrite bind_assoc. reflexivity. }
  rewrite E, mapM_rd1, mapM_pure. reflexivity.
Qed.

Lemma src_roots_cplx (p : list K) (refine : bool) :
  s_roots_cplx RA p refine = let* r := poly_solve RA p refine in Ok (fst r).
Proof.
  unfold s_roots_cplx, for_. rewrite Nat.sub_0_r.
  pose proof (for_from_tab (rd p) (repeat (@zero (KK RA)) (length p)) []) as E.
  rewrite repeat_length in E. cbn [length app] in E.
  rewrite E, mapM_rd_all. reflexivity.
Qed.

Definition model_is_source_Roots : Prop :=
  (forall a b c : K, s_quadratic_solve RA a b c = quadratic_solve RA a b c) /\
  (forall a b c d : K, s_cubic_solve RA a b c d = cubic_solve RA a b c d) /\
  (forall (a : list K) (x : K) (its : nat), s_laguer RA a x its = let* l := laguer RA a x in Ok (a, lx l, liters l)) /\
  (forall (coeffs : list K) (refine : bool), s_poly_solve RA coeffs refine = let* r := poly_solve RA coeffs refine in Ok (fst r)) /\
  (forall (p : list R) (refine : bool),
     s_roots_f64 RA p refine = let* r := poly_solve RA (map (fun c => mkk RA c zero) p) refine in Ok (fst r)) /\
  (forall (p : list K) (refine : bool), s_roots_cplx RA p refine = let* r := poly_solve RA p refine in Ok (fst r)).
Lemma model_is_source_Roots_lemma : model_is_source_Roots.
Proof. exact (Coq.Init.Logic.conj src_quadratic_solve (Coq.Init.Logic.conj src_cubic_solve (Coq.Init.Logic.conj src_laguer (Coq.Init.Logic.conj src_poly_solve (Coq.Init.Logic.conj src_roots_f64 src_roots_cplx))))). Qed.

End SrcEqRoots.
