(* Proofs/SrcEqRoots.v -- `impl Polynomial<Cmplx>` (src/polynomial/mod.rs): quadratic_solve and cubic_solve, regenerated from
   the source of this run as gen/SrcRoots.v over the model's two-sorted RootArith (f64 / Cmplx; the libm-backed
   Complex::sqrt / pow as the oracle operations osqrt / opow), against the hand-written model Model/Roots.v (package C10):

       s_quadratic_solve RA a b c = quadratic_solve RA a b c        s_cubic_solve RA a b c d = cubic_solve RA a b c d

   for EVERY RootArith RA -- the float instance with its oracle table (what the check runs) and the field instance of the
   theorems of Props/C10.v alike.  (the source writes the roots into a Vector of zeros of length 2 / 3 and reads roots[0]
   back; the model names the values) *)
From Coq Require Import List Arith ZArith Lia Bool.
From OV Require Import Base.Panic Base.Arith Model.Complex gen.Params Model.Roots gen.SrcPrelude gen.SrcRoots Proofs.SrcEqBase.
Import ListNotations.

Section SrcEqRoots.
Variable RA : RootArith.
Local Notation R := (T (SA (RR RA))).
Local Notation K := (T (KK RA)).

Lemma if_ok {Y} (c : bool) (a b : Y) : (if c then Ok a else Ok b) = Ok (if c then a else b).
Proof. destruct c; reflexivity. Qed.

Ltac rt_step :=
  match goal with
  | |- ?a = ?b => reflexivity
  | |- context [bind (bind _ _) _] => rewrite !bind_assoc
  | |- context [bind (Ok _) _] => rewrite !bind_Ok_l
  | |- context [if ?c then Ok ?a else Ok ?b] => rewrite (if_ok c a b)
  | |- bind ?e _ = bind ?e' _ => unify e e'; apply bind_ext; intros ?
  | |- context [bind (if ?c then _ else _) _] => destruct c eqn:?
  | |- (if ?c then _ else _) = _ => destruct c eqn:?
  | |- _ = (if ?c then _ else _) => destruct c eqn:?
  end.
Ltac rt_eq := repeat (rt_step; cbn [repeat upd rd nth_error length Nat.ltb Nat.leb upd_list bind andb]).

Lemma src_quadratic_solve (a b c : K) : s_quadratic_solve RA a b c = quadratic_solve RA a b c.
Proof.
  unfold s_quadratic_solve, quadratic_solve, quadratic_solve_gen. cbv zeta. cbn [andb].
  rt_eq.
Qed.

Lemma src_cubic_solve (a b c d : K) : s_cubic_solve RA a b c d = cubic_solve RA a b c d.
Proof.
  unfold s_cubic_solve, cubic_solve, cubic_solve_gen, cubic_disc, cubic_minus. cbv zeta.
  rt_eq.
Qed.

(* ------------------------------------------------------------------ laguer
   The model returns a record (final iterate, exit reason, value of *iterations, trace fields); the source returns the three
   `&mut` operands (a -- never assigned --, x, iterations).  ERASURE: the regenerated function is the model with the exit
   reason and the trace fields projected away. *)
Lemma laguer_loop_eq (a : list K) (m : nat) (x0 : K) (fin0 : bool)
      (b1 : nat -> K * nat -> res (K * nat + list K * K * nat)) :
  (forall iter x its, b1 iter (x, its) = let* o := laguer_step RA a m iter x in
        Ok (match o with inl _ => inr (a, x, iter) | inr x' => inl (x', iter) end)) ->
  forall n lo x its, (n = 0 -> its = lo - 1) ->
  (let* o := for_ret_from n lo b1 (x, its) in
   match o with inl (x', its') => Ok (a, x', its') | inr r => Ok r end)
  = (let* l := laguer_loop RA a m x0 fin0 n lo x in Ok (a, lx l, liters l)).
Proof.
  intros Hb. induction n as [|n IH]; intros lo x its Hn; cbn [for_ret_from laguer_loop bind].
  - rewrite (Hn eq_refl). reflexivity.
  - rewrite Hb, !bind_assoc. destruct (laguer_step RA a m lo x) as [[[why tok]|x']|k]; cbn [bind]; [reflexivity| |reflexivity].
    apply IH. intros _. lia.
Qed.

Ltac lg_step :=
  match goal with
  | |- ?a = ?b => reflexivity
  | |- context [bind (bind _ _) _] => rewrite !bind_assoc
  | |- context [bind (Ok _) _] => rewrite !bind_Ok_l
  | |- context [if ?c then Ok ?a else Ok ?b] => rewrite (if_ok c a b)
  | |- bind ?e _ = bind ?e' _ => unify e e'; apply bind_ext; intros ?
  | |- context [match ?p with pair _ _ => _ end] => is_var p; destruct p
  | |- context [bind (if ?c then _ else _) _] => destruct c eqn:?
  | |- (if ?c then _ else _) = _ => destruct c eqn:?
  | |- _ = (if ?c then _ else _) => destruct c eqn:?
  | |- Ok _ = Ok _ => f_equal
  | |- context [if ?c then _ else _] => destruct c eqn:?
  end.

Lemma src_laguer (a : list K) (x : K) (its : nat) :
  s_laguer RA a x its = let* l := laguer RA a x in Ok (a, lx l, liters l).
Proof.
  unfold s_laguer, laguer, for_ret. rewrite bind_assoc. apply bind_ext; intros m.
  change (10 * 8 - 1) with (MAXIT - 1).
  apply laguer_loop_eq; [|unfold MAXIT; cbv; discriminate].
  intros iter y n. unfold laguer_step, horner3, gtb. cbv delta [LAGUER_MT LAGUER_MR]. cbv zeta. unfold rlit.
  repeat lg_step.
Qed.

Definition model_is_source_Roots : Prop :=
  (forall a b c : K, s_quadratic_solve RA a b c = quadratic_solve RA a b c) /\
  (forall a b c d : K, s_cubic_solve RA a b c d = cubic_solve RA a b c d) /\
  (forall (a : list K) (x : K) (its : nat), s_laguer RA a x its = let* l := laguer RA a x in Ok (a, lx l, liters l)).
Lemma model_is_source_Roots_lemma : model_is_source_Roots.
Proof. exact (Coq.Init.Logic.conj src_quadratic_solve (Coq.Init.Logic.conj src_cubic_solve src_laguer)). Qed.

End SrcEqRoots.
