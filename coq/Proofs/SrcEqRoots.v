(* Proofs/SrcEqRoots.v -- `impl Polynomial<Cmplx>` (src/polynomial/mod.rs): quadratic_solve and cubic_solve, regenerated from
   the source of this run as gen/SrcRoots.v over the model's two-sorted RootArith (f64 / Cmplx; the libm-backed
   Complex::sqrt / pow as the oracle operations osqrt / opow), against the hand-written model Model/Roots.v (package C10):

       s_quadratic_solve RA a b c = quadratic_solve RA a b c        s_cubic_solve RA a b c d = cubic_solve RA a b c d

   for EVERY RootArith RA -- the float instance with its oracle table (what the check runs) and the field instance of the
   theorems of Props/C10.v alike.  (the source writes the roots into a Vector of zeros of length 2 / 3 and reads roots[0]
   back; the model names the values) *)
From Coq Require Import List Arith ZArith Lia Bool.
From OV Require Import Base.Panic Base.Arith Model.Complex gen.Params Model.Roots gen.SrcPrelude gen.SrcRoots Proofs.SrcEqBase.
Import ListNotations.

Section SrcEqRoots.
Variable RA : RootArith.
Local Notation R := (T (SA (RR RA))).
Local Notation K := (T (KK RA)).

Lemma if_ok {Y} (c : bool) (a b : Y) : (if c then Ok a else Ok b) = Ok (if c then a else b).
Proof. destruct c; reflexivity. Qed.

Ltac rt_step :=
  match goal with
  | |- ?a = ?b => reflexivity
  | |- context [bind (bind _ _) _] => rewrite !bind_assoc
  | |- context [bind (Ok _) _] => rewrite !bind_Ok_l
  | |- context [if ?c then Ok ?a else Ok ?b] => rewrite (if_ok c a b)
  | |- bind ?e _ = bind ?e' _ => unify e e'; apply bind_ext; intros ?
  | |- context [bind (if ?c then _ else _) _] => destruct c eqn:?
  | |- (if ?c then _ else _) = _ => destruct c eqn:?
  | |- _ = (if ?c then _ else _) => destruct c eqn:?
  end.
Ltac rt_eq := repeat (rt_step; cbn [repeat upd rd nth_error length Nat.ltb Nat.leb upd_list bind andb]).

Lemma src_quadratic_solve (a b c : K) : s_quadratic_solve RA a b c = quadratic_solve RA a b c.
Proof.
  unfold s_quadratic_solve, quadratic_solve, quadratic_solve_gen. cbv zeta. cbn [andb].
  rt_eq.
Qed.

Lemma src_cubic_solve (a b c d : K) : s_cubic_solve RA a b c d = cubic_solve RA a b c d.
Proof.
  unfold s_cubic_solve, cubic_solve, cubic_solve_gen, cubic_disc, cubic_minus. cbv zeta.
  rt_eq.
Qed.

Definition model_is_source_Roots : Prop :=
  (forall a b c : K, s_quadratic_solve RA a b c = quadratic_solve RA a b c) /\
  (forall a b c d : K, s_cubic_solve RA a b c d = cubic_solve RA a b c d).
Lemma model_is_source_Roots_lemma : model_is_source_Roots.
Proof. exact (Coq.Init.Logic.conj src_quadratic_solve src_cubic_solve). Qed.

End SrcEqRoots.
