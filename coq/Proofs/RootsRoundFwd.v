(* Proofs/RootsRoundFwd.v -- FORWARD error of the two values returned by the model's quadratic_solve in the standard model of
   rounding (the arithmetic [RoundRAo eps O] of Proofs/RootsRound.v), GIVEN an accurate discriminant.

     disc_accurate eta :   |sh^2 - (b^2 - 4ac)| <= eta |b^2 - 4ac|      sh = the value Complex::sqrt returned for the COMPUTED
                                                                          discriminant (o_sh O a b c)
   The discriminant itself may suffer cancellation (b^2 ~ 4ac): then eta is NOT O(eps), and the hypothesis says so.  It is
   PROVED (no hypothesis) with eta = 15.33 eps when one of b^2, 4ac dominates the other by a factor 2.

     quadratic_forward_lemma            disc_accurate eta, eta <= 1/6  ==>  there are x0, x1 with
                                        a x^2 + b x + c = a (x - x0)(x - x1) for all x,
                                        |r0 - x0| <= (6 eps + 2 eta)|x0|,  |r1 - x1| <= (6 eps + 2 eta)|x1|;
     disc_accurate_dominant_lemma       8|a||c| <= |b|^2  or  2|b|^2 <= 4|a||c|   ==>   disc_accurate (15.33 eps);
     quadratic_forward_dominant_lemma   hence, in that case, relative error <= 37 eps for both roots.

   The exact square root of the exact discriminant the computed one is compared with is sh / Csqrt(sh^2 / D), Csqrt the
   principal square root (Proofs/RootsRoundEx.v): |Csqrt z - 1| <= |z - 1|. *)
From Coq Require Import List Arith Bool Reals Lra Lia Psatz.
From Coquelicot Require Import Complex.
From OV Require Import Base.Panic Base.Arith gen.Params Model.Roots Proofs.RootsRound Proofs.RootsRoundEx.
Import ListNotations.
Local Open Scope R_scope.
Import RRN.

(* ---------------------------------------------------------------- the principal square root near 1 *)
Lemma Csqrt_re_nonneg (z : C) : 0 <= fst (Csqrt z).
Proof. unfold Csqrt. cbn [fst]. apply sqrt_pos. Qed.

Lemma Csqrt_near1 (z : C) : Cmod (Csqrt z - C1)%C <= Cmod (z - C1)%C.
Proof.
  set (w := Csqrt z).
  assert (E : (z - C1)%C = ((w - C1) * (w + C1))%C) by (rewrite <- (Csqrt_sqr z); fold w; ring).
  rewrite E, Cmod_mult.
  assert (L : 1 <= Cmod (w + C1)%C).
  { pose proof (fst_le_Cmod (w + C1)%C) as F. pose proof (Csqrt_re_nonneg z) as P. fold w in P.
    assert (G : fst (w + C1)%C = fst w + 1) by (destruct w; reflexivity).
    rewrite G, Rabs_pos_eq in F by lra. lra. }
  pose proof (Cmod_ge_0 (w - C1)%C). nra.
Qed.

(* a computed square root sh with sh^2 = D (1 + eta') has relative error <= eta w.r.t. an EXACT square root of D *)
Lemma exact_sqrt_near (D sh : C) (eta : R) : 0 <= eta < 1 -> Cmod (sh * sh - D)%C <= eta * Cmod D ->
  exists s delta : C, (s * s)%C = D /\ sh = (s * (C1 + delta))%C /\ Cmod delta <= eta.
Proof.
  intros He H. destruct (Ceq_dec D C0) as [Z|NZ].
  - exists C0, C0. subst D. rewrite Cmod_0, Rmult_0_r in H. apply Cmod_sub_0 in H.
    assert (Zs : sh = C0).
    { apply Cmod_eq_0. assert (K : Cmod sh * Cmod sh = 0) by (rewrite <- Cmod_mult, H; apply Cmod_0).
      pose proof (Cmod_ge_0 sh). nra. }
    rewrite Cmod_0. repeat split; [ring | rewrite Zs; ring | lra].
  - set (zeta := (sh * sh / D)%C).
    assert (PD : 0 < Cmod D) by (now apply Cmod_gt_0).
    assert (Hz : Cmod (zeta - C1)%C <= eta).
    { replace (zeta - C1)%C with ((sh * sh - D) / D)%C by (unfold zeta; field; exact NZ).
      rewrite Cmod_div by exact NZ. apply (Rmult_le_reg_r (Cmod D)); [exact PD|].
      unfold Rdiv. rewrite Rmult_assoc, Rinv_l by lra. lra. }
    set (w := Csqrt zeta).
    pose proof (Csqrt_near1 zeta) as Hw. fold w in Hw.
    assert (Nw : w <> C0).
    { intros Zw. rewrite Zw in Hw. replace (C0 - C1)%C with (- C1)%C in Hw by ring. rewrite Cmod_opp, Cmod_1 in Hw. lra. }
    exists (sh / w)%C, (w - C1)%C. split; [|split].
    + replace (sh / w * (sh / w))%C with (sh * sh / (w * w))%C by (field; exact Nw).
      unfold w. rewrite Csqrt_sqr.
      assert (Nzeta : zeta <> C0).
      { intros Zz. rewrite Zz in Hz. replace (C0 - C1)%C with (- C1)%C in Hz by ring. rewrite Cmod_opp, Cmod_1 in Hz. lra. }
      assert (Nss : (sh * sh)%C <> C0).
      { intros Zs. apply Nzeta. unfold zeta. rewrite Zs. field. exact NZ. }
      assert (Nsh : sh <> C0) by (intros Zs; apply Nss; rewrite Zs; ring).
      unfold zeta. field. repeat split; assumption.
    + field. exact Nw.
    + lra.
Qed.

(* ---------------------------------------------------------------- the forward error *)
Definition disc_accurate (O : RoundOps) (a b c : C) (eta : R) : Prop :=
  Cmod (o_sh O a b c * o_sh O a b c - qdisc a b c)%C <= eta * Cmod (qdisc a b c).

Lemma C4_neq0 : (C1 + C1 + C1 + C1)%C <> C0.
Proof. intros H. pose proof Cmod_4 as K. rewrite H, Cmod_0 in K. lra. Qed.

(* what the forward analysis uses of the arithmetic, on the input (a, b, c) *)
Definition fwd_facts (eps : R) (O : RoundOps) (a b c : C) : Prop :=
  (let X5 := (1 + eps) * (1 + eps) * (1 + eps) * (1 + eps) * (1 + eps) in
   let Xq := (1 + eps * (1 + eps)) * (1 + eps) * (1 + eps) in
   let sh := o_sh O a b c in let sg := o_sg O a b c in
   let qx := ((b + sh * RtoC sg) * RtoC (- / 2))%C in
   (sg = 1 \/ sg = Ropp 1) /\
   Cmod (sh * sh - qdisc a b c)%C <= (X5 - 1) * (Cmod b * Cmod b + 4 * (Cmod a * Cmod c)) /\
   (1 - eps) * (Cmod b * Cmod b + Cmod sh * Cmod sh) <= 4 * (Cmod qx * Cmod qx) /\
   exists rho : C, o_q O a b c = (qx * rho)%C /\ near rho Xq) /\
  (o_q O a b c = C0 -> b = C0 /\ c = C0 /\ poly_solve (RoundRAo eps O) [c; b; a] false = Ok ([C0; C0], [])) /\
  relc eps (o_div O (o_q O a b c) a) (o_q O a b c / a)%C /\
  (o_q O a b c <> C0 -> relc eps (o_div O c (o_q O a b c)) (c / o_q O a b c)%C).

Lemma fwd_facts_global (eps : R) (O : RoundOps) (a b c : C) :
  0 <= eps <= / 100 -> std_model eps O -> a <> C0 -> fwd_facts eps O a b c.
Proof.
  intros Heps HO Ha.
  destruct (quadratic_q0_backward_lemma eps O a b c Heps HO Ha) as (Q0 & Q0r & _). cbv zeta in Q0, Q0r. fold (o_q O a b c) in Q0, Q0r.
  split; [exact (quad_core_o eps O a b c Heps HO)|].
  split.
  { intros Zq. destruct (proj1 Q0 Zq) as [Zb Zc]. split; [exact Zb|]. split; [exact Zc|]. exact (Q0r Zq). }
  destruct HO as (_ & _ & _ & Hd & _ & _). split.
  - apply Hd. exact Ha.
  - intros Nq. apply Hd. exact Nq.
Qed.

Lemma fwd_facts_local (eps : R) (O : RoundOps) (a b c : C) :
  0 <= eps <= / 100 -> a <> C0 -> quad_ops_ok eps O a b c -> fwd_facts eps O a b c.
Proof.
  intros Heps Ha H. unfold quad_ops_ok in H. cbv zeta in H.
  destruct H as (H1 & H2 & H3 & H4 & H5 & H6 & H7 & H8 & H9 & H10 & H11).
  pose proof (quad_core_rel eps a b c _ _ _ _ _ _ _ _ _ Heps H1 H2 H3 H4 H5 H6 H7 H8 H9) as K. cbv zeta in K.
  destruct K as (Hsg & HD & NC & rho & Eq & Hr & _).
  destruct (quad_residual_rel eps a b c _ _ _ _ _ _ _ _ _ _ Heps Ha H1 H2 H3 H4 H5 H6 H7 H8 H9 H10) as (_ & _ & B2).
  split; [|split; [|split]].
  - cbv zeta. split; [exact Hsg|]. split; [exact HD|]. split; [exact NC|]. exists rho. split; [exact Eq | exact Hr].
  - intros Zq. destruct (B2 Zq) as [Zb Zc]. split; [exact Zb|]. split; [exact Zc|].
    rewrite poly_solve_deg2_o_eq, Zq.
    destruct (Ceq_dec C0 C0) as [_|N]; [|now contradiction N].
    assert (Zr : o_div O C0 a = C0).
    { unfold relc in H10. fold (q_disc (o_sub O) (o_mul O) (o_scale O) a b c) in H10.
      change (o_scale O (o_add O b (o_scale O (o_sqrt O (q_disc (o_sub O) (o_mul O) (o_scale O) a b c))
               (if if Rle_dec 0 (fst (o_mul O (Cconj b) (o_sqrt O (q_disc (o_sub O) (o_mul O) (o_scale O) a b c)))) then true else false
                then 1 else - (1)))) (- / 2)) with (o_q O a b c) in H10.
      rewrite Zq in H10. replace (C0 / a)%C with C0 in H10 by (field; exact Ha).
      rewrite Cmod_0, Rmult_0_r in H10. now apply Cmod_sub_0. }
    rewrite Zr. reflexivity.
  - exact H10.
  - exact H11.
Qed.

Lemma quadratic_forward_core (eps : R) (O : RoundOps) (a b c : C) (eta : R) :
  0 <= eps <= / 100 -> fwd_facts eps O a b c -> a <> C0 -> 0 <= eta <= / 6 -> disc_accurate O a b c eta ->
  exists r0 r1 x0 x1 : C, poly_solve (RoundRAo eps O) [c; b; a] false = Ok ([r0; r1], []) /\
    (forall x : C, (a * x * x + b * x + c)%C = (a * (x - x0) * (x - x1))%C) /\
    Cmod (r0 - x0)%C <= (6 * eps + 2 * eta) * Cmod x0 /\ Cmod (r1 - x1)%C <= (6 * eps + 2 * eta) * Cmod x1.
Proof.
  intros Heps HF Ha Heta HD.
  destruct HF as (F1 & F2 & F3 & F4).
  destruct F1 as (Hsg & _ & NC & rho & Eq & Hr). cbv zeta in Hsg, NC, Eq, Hr.
  destruct (numeric_bounds eps Heps) as (N1 & N2 & N3 & N4 & N5).
  set (Xq := (1 + eps * (1 + eps)) * (1 + eps) * (1 + eps)) in *.
  set (sh := o_sh O a b c) in *. set (sg := o_sg O a b c) in *.
  set (qx := ((b + sh * RtoC sg) * RtoC (- / 2))%C) in *.
  assert (Xq2 : Xq < 2) by lra.
  pose proof (near_nz _ _ Hr Xq2) as Hrho.
  destruct (Ceq_dec qx C0) as [Zx|Nx].
  { (* q = 0: b = c = 0, both values are 0 *)
    assert (Zq : o_q O a b c = C0) by (rewrite Eq, Zx; ring).
    destruct (F2 Zq) as (Zb & Zc & E0). exists C0, C0, C0, C0.
    split; [exact E0|]. split; [intros x; rewrite Zb, Zc; ring|].
    replace (C0 - C0)%C with C0 by ring. rewrite Cmod_0. split; lra. }
  assert (Nq : o_q O a b c <> C0) by (rewrite Eq; apply Cmult_neq_0; assumption).
  (* an exact square root of the exact discriminant *)
  unfold disc_accurate in HD. fold sh in HD.
  destruct (exact_sqrt_near (qdisc a b c) sh eta ltac:(lra) HD) as (s & delta & Es & Esh & Hdel).
  set (qs := ((b + s * RtoC sg) * RtoC (- / 2))%C).
  assert (Esg2 : (RtoC sg * RtoC sg)%C = C1).
  { destruct Hsg as [-> | ->]; [ring | rewrite RtoC_opp; ring]. }
  assert (Hqs : (qs * qs + b * qs + a * c)%C = C0).
  { pose proof (q_identity a b c (s * RtoC sg)%C) as QI. cbv zeta in QI. fold qs in QI.
    replace (s * RtoC sg * (s * RtoC sg) - qdisc a b c)%C with C0 in QI.
    2:{ replace (s * RtoC sg * (s * RtoC sg))%C with ((s * s) * (RtoC sg * RtoC sg))%C by ring. rewrite Esg2, Es. ring. }
    destruct (Ceq_dec (qs * qs + b * qs + a * c)%C C0) as [Z|NZ]; [exact Z|].
    exfalso. apply (Cmult_neq_0 _ _ C4_neq0 NZ). exact QI. }
  (* qs = qx (1 + theta) *)
  set (u := Cmod qx). assert (Pu : 0 < u) by (now apply Cmod_gt_0).
  pose proof (Cmod_ge_0 sh) as Psh. pose proof (Cmod_ge_0 s) as Ps. pose proof (Cmod_ge_0 b) as Pb.
  assert (Lsh : Cmod sh <= (1 + eps) * (2 * u)).
  { apply sq_le_lin; try lra. fold u in NC.
    assert (0 <= Cmod b * Cmod b) by apply Rle_0_sqr.
    assert (G : 1 <= (1 + eps) * (1 + eps) * (1 - eps)) by nra.
    assert (0 <= Cmod sh * Cmod sh) by apply Rle_0_sqr.
    assert (G2 : Cmod sh * Cmod sh <= ((1 + eps) * (1 + eps) * (1 - eps)) * (Cmod sh * Cmod sh)) by nra.
    nra. }
  assert (Ls : (1 - eta) * Cmod s <= Cmod sh).
  { rewrite Esh, Cmod_mult. pose proof (near_lo _ _ (near_1pd delta eta Hdel)) as L.
    assert ((2 - (1 + eta)) * Cmod s <= Cmod (C1 + delta)%C * Cmod s) by (apply Rmult_le_compat_r; assumption). lra. }
  set (t := 1.212 * eta).
  assert (Ht : 0 <= t <= 0.202) by (unfold t; lra).
  set (theta := ((qs - qx) / qx)%C).
  assert (Hth : Cmod theta <= t).
  { unfold theta. rewrite Cmod_div by exact Nx. fold u.
    apply (Rmult_le_reg_r u); [exact Pu|]. unfold Rdiv. rewrite Rmult_assoc, Rinv_l by lra. rewrite Rmult_1_r.
    replace (qs - qx)%C with (- (s * delta * RtoC sg * RtoC (- / 2)))%C by (unfold qs, qx; rewrite Esh; ring).
    rewrite Cmod_opp, !Cmod_mult, Cmod_mhalf, Cmod_R.
    assert (Asg : Rabs sg = 1) by (destruct Hsg as [-> | ->]; [apply Rabs_R1 | rewrite Rabs_Ropp; apply Rabs_R1]).
    rewrite Asg. pose proof (Cmod_ge_0 delta).
    assert (K1 : Cmod s * Cmod delta <= Cmod s * eta) by (apply Rmult_le_compat_l; lra).
    assert (K2 : (1 - eta) * (Cmod s * eta) <= eta * ((1 + eps) * (2 * u))) by nra.
    assert (P1 : 0 <= Cmod s * eta) by (apply Rmult_le_pos; lra).
    assert (P2 : 0 <= eta * u) by (apply Rmult_le_pos; lra).
    assert (K3 : (/ 6 - eta) * (Cmod s * eta) >= 0) by nra.
    assert (K4 : (/ 100 - eps) * (eta * u) >= 0) by nra.
    unfold t. nra. }
  assert (Eqs : qs = (qx * (C1 + theta))%C) by (unfold theta; field; exact Nx).
  assert (Nth : (C1 + theta)%C <> C0) by (apply (near_nz _ (1 + t)); [apply near_1pd; exact Hth | lra]).
  assert (Nqs : qs <> C0) by (rewrite Eqs; apply Cmult_neq_0; assumption).
  (* the two exact roots *)
  exists (o_div O (o_q O a b c) a), (o_div O c (o_q O a b c)), (qs / a)%C, (c / qs)%C.
  split.
  { rewrite poly_solve_deg2_o_eq. destruct (Ceq_dec (o_q O a b c) C0) as [Z|_]; [contradiction|reflexivity]. }
  split.
  { intros x.
    assert (Hc : c = (- (qs * qs + b * qs) / a)%C).
    { transitivity (((qs * qs + b * qs + a * c) - (qs * qs + b * qs)) / a)%C; [field; exact Ha | rewrite Hqs; field; exact Ha]. }
    rewrite Hc. field. split; assumption. }
  assert (He0 : 0 <= eps) by lra.
  destruct (rel_mult eps _ _ He0 F3) as (d9 & D9 & E9).
  destruct (rel_mult eps _ _ He0 (F4 Nq)) as (d10 & D10 & E10).
  assert (N1pt : near (/ (C1 + theta))%C (/ (1 - t))).
  { replace (1 - t) with (2 - (1 + t)) by ring. apply near_inv; [apply near_1pd; exact Hth | lra]. }
  assert (I1 : / (1 - t) <= 1 + 1.2532 * t).
  { apply (Rmult_le_reg_r (1 - t)); [lra|]. rewrite Rinv_l by lra. nra. }
  split.
  - rewrite E9, Eq.
    replace (qx * rho / a * (C1 + d9))%C with (qs / a * (rho * (C1 + d9) * / (C1 + theta)))%C
      by (rewrite Eqs; field; split; assumption).
    eapply Rle_trans; [apply near_pert; apply near_mul; [apply near_mul; [exact Hr|apply near_1pd; exact D9]|exact N1pt]|].
    apply Rmult_le_compat_r; [apply Cmod_ge_0|].
    assert (B0 : Xq * (1 + eps) * / (1 - t) <= (1 + 4.09 * eps) * (1 + 1.2532 * t)).
    { pose proof (near_ge1 _ _ Hr) as Xq1.
      apply Rmult_le_compat; [nra | apply Rlt_le, Rinv_0_lt_compat; lra | lra | lra]. }
    unfold t in *. nra.
  - rewrite E10, Eq.
    replace (c / (qx * rho) * (C1 + d10))%C with (c / qs * ((C1 + theta) * ((C1 + d10) * / rho)))%C
      by (rewrite Eqs; field; repeat split; assumption).
    eapply Rle_trans; [apply near_pert; apply near_mul; [apply near_1pd; exact Hth|apply near_mul; [apply near_1pd; exact D10|apply near_inv; [exact Hr|exact Xq2]]]|].
    apply Rmult_le_compat_r; [apply Cmod_ge_0|].
    assert (B1 : (1 + t) * ((1 + eps) * / (2 - Xq)) <= (1 + t) * (1 + 4.19 * eps)) by (apply Rmult_le_compat_l; lra).
    unfold t in *. nra.
Qed.

Theorem quadratic_forward_lemma (eps : R) (O : RoundOps) (a b c : C) (eta : R) :
  0 <= eps <= / 100 -> std_model eps O -> a <> C0 -> 0 <= eta <= / 6 -> disc_accurate O a b c eta ->
  exists r0 r1 x0 x1 : C, poly_solve (RoundRAo eps O) [c; b; a] false = Ok ([r0; r1], []) /\
    (forall x : C, (a * x * x + b * x + c)%C = (a * (x - x0) * (x - x1))%C) /\
    Cmod (r0 - x0)%C <= (6 * eps + 2 * eta) * Cmod x0 /\ Cmod (r1 - x1)%C <= (6 * eps + 2 * eta) * Cmod x1.
Proof.
  intros Heps HO Ha. apply quadratic_forward_core; [exact Heps | now apply fwd_facts_global | exact Ha].
Qed.

(* the same from the local hypotheses: only the operations performed on (a, b, c) *)
Theorem quadratic_forward_local_lemma (eps : R) (O : RoundOps) (a b c : C) (eta : R) :
  0 <= eps <= / 100 -> a <> C0 -> quad_ops_ok eps O a b c -> 0 <= eta <= / 6 -> disc_accurate O a b c eta ->
  exists r0 r1 x0 x1 : C, poly_solve (RoundRAo eps O) [c; b; a] false = Ok ([r0; r1], []) /\
    (forall x : C, (a * x * x + b * x + c)%C = (a * (x - x0) * (x - x1))%C) /\
    Cmod (r0 - x0)%C <= (6 * eps + 2 * eta) * Cmod x0 /\ Cmod (r1 - x1)%C <= (6 * eps + 2 * eta) * Cmod x1.
Proof.
  intros Heps Ha H. apply quadratic_forward_core; [exact Heps | now apply fwd_facts_local | exact Ha].
Qed.

(* ---------------------------------------------------------------- the discriminant IS accurate when one of b^2, 4ac dominates *)
Lemma qdisc_lower (a b c : C) :
  Cmod b * Cmod b - 4 * (Cmod a * Cmod c) <= Cmod (qdisc a b c) /\
  4 * (Cmod a * Cmod c) - Cmod b * Cmod b <= Cmod (qdisc a b c).
Proof.
  unfold qdisc. split.
  - assert (K : Cmod (b * b)%C <= Cmod (b * b - a * RtoC (INR 4) * c)%C + Cmod (a * RtoC (INR 4) * c)%C).
    { replace (b * b)%C with ((b * b - a * RtoC (INR 4) * c) + a * RtoC (INR 4) * c)%C at 1 by ring. apply Cmod_triangle. }
    rewrite !Cmod_mult, Cmod_INR4 in K. lra.
  - assert (K : Cmod (a * RtoC (INR 4) * c)%C <= Cmod (b * b - a * RtoC (INR 4) * c)%C + Cmod (b * b)%C).
    { replace (a * RtoC (INR 4) * c)%C with (- (b * b - a * RtoC (INR 4) * c) + b * b)%C at 1 by ring.
      eapply Rle_trans; [apply Cmod_triangle|]. rewrite Cmod_opp. lra. }
    rewrite !Cmod_mult, Cmod_INR4 in K. lra.
Qed.

Theorem disc_accurate_dominant_lemma (eps : R) (O : RoundOps) (a b c : C) :
  0 <= eps <= / 100 -> std_model eps O ->
  8 * (Cmod a * Cmod c) <= Cmod b * Cmod b \/ 2 * (Cmod b * Cmod b) <= 4 * (Cmod a * Cmod c) ->
  disc_accurate O a b c (15.33 * eps).
Proof.
  intros Heps HO Hdom.
  destruct (quad_core_o eps O a b c Heps HO) as (_ & HD & _). cbv zeta in HD.
  destruct (numeric_bounds eps Heps) as (N1 & _).
  destruct (qdisc_lower a b c) as [L1 L2].
  unfold disc_accurate.
  set (P := Cmod b * Cmod b + 4 * (Cmod a * Cmod c)) in *.
  set (X5 := (1 + eps) * (1 + eps) * (1 + eps) * (1 + eps) * (1 + eps)) in *.
  assert (PP : 0 <= P).
  { unfold P. assert (0 <= Cmod b * Cmod b) by apply Rle_0_sqr.
    assert (0 <= Cmod a * Cmod c) by (apply Rmult_le_pos; apply Cmod_ge_0). lra. }
  assert (P3 : P <= 3 * Cmod (qdisc a b c)) by (unfold P; destruct Hdom; lra).
  assert (K1 : (X5 - 1) * P <= 5.11 * eps * P) by (apply Rmult_le_compat_r; lra).
  assert (K2 : 5.11 * eps * P <= 5.11 * eps * (3 * Cmod (qdisc a b c))) by (apply Rmult_le_compat_l; lra).
  lra.
Qed.

Theorem quadratic_forward_dominant_lemma (eps : R) (O : RoundOps) (a b c : C) :
  0 <= eps <= / 100 -> std_model eps O -> a <> C0 ->
  8 * (Cmod a * Cmod c) <= Cmod b * Cmod b \/ 2 * (Cmod b * Cmod b) <= 4 * (Cmod a * Cmod c) ->
  exists r0 r1 x0 x1 : C, poly_solve (RoundRAo eps O) [c; b; a] false = Ok ([r0; r1], []) /\
    (forall x : C, (a * x * x + b * x + c)%C = (a * (x - x0) * (x - x1))%C) /\
    Cmod (r0 - x0)%C <= 37 * eps * Cmod x0 /\ Cmod (r1 - x1)%C <= 37 * eps * Cmod x1.
Proof.
  intros Heps HO Ha Hdom.
  pose proof (disc_accurate_dominant_lemma eps O a b c Heps HO Hdom) as HD.
  destruct (quadratic_forward_lemma eps O a b c (15.33 * eps) Heps HO Ha ltac:(lra) HD) as (r0 & r1 & x0 & x1 & E & F & B0 & B1).
  exists r0, r1, x0, x1. split; [exact E|]. split; [exact F|].
  pose proof (Cmod_ge_0 x0). pose proof (Cmod_ge_0 x1). split; nra.
Qed.

(* non-vacuity: x^2 - 5x + 2 (b^2 = 25 >= 16 = 8|a||c|) is in the dominant case *)
Lemma forward_dominant_nonvacuous :
  RtoC 1 <> C0 /\ 8 * (Cmod (RtoC 1) * Cmod (RtoC 2)) <= Cmod (RtoC (-5)) * Cmod (RtoC (-5)).
Proof.
  split; [intros H; apply RtoC_inj in H; lra|].
  rewrite !Cmod_R. rewrite (Rabs_pos_eq 1), (Rabs_pos_eq 2), (Rabs_left (-5)) by lra. lra.
Qed.

Lemma forward_nonvacuous :
  (0 <= / 1024 <= / 100) /\ std_model (/ 1024) (pert_ops (/ 1024)) /\ RtoC 1 <> C0 /\ (0 <= 15.33 * / 1024 <= / 6) /\
  disc_accurate (pert_ops (/ 1024)) (RtoC 1) (RtoC (-5)) (RtoC 2) (15.33 * / 1024).
Proof.
  destruct forward_dominant_nonvacuous as [N D].
  assert (H : 0 <= / 1024 <= / 100) by lra.
  assert (M : std_model (/ 1024) (pert_ops (/ 1024))) by (apply pert_std_model; lra).
  split; [exact H|]. split; [exact M|]. split; [exact N|]. split; [lra|].
  apply (disc_accurate_dominant_lemma (/ 1024) _ _ _ _ H M). left. exact D.
Qed.

(* ---------------------------------------------------------------- the general statement: the conditioning of the discriminant *)
(* kD >= (|b|^2 + 4|a||c|) / |b^2 - 4ac| is the condition number of the discriminant (kD <= 3 in the dominant case, large near a
   double root): the discriminant is accurate to 5.11 eps kD, and the roots to (6 + 10.22 kD) eps *)
Theorem disc_accurate_conditioned_lemma (eps : R) (O : RoundOps) (a b c : C) (kD : R) :
  0 <= eps <= / 100 -> std_model eps O ->
  Cmod b * Cmod b + 4 * (Cmod a * Cmod c) <= kD * Cmod (qdisc a b c) ->
  disc_accurate O a b c (5.11 * eps * kD).
Proof.
  intros Heps HO HkD.
  destruct (quad_core_o eps O a b c Heps HO) as (_ & HD & _). cbv zeta in HD.
  destruct (numeric_bounds eps Heps) as (N1 & _).
  unfold disc_accurate.
  set (P := Cmod b * Cmod b + 4 * (Cmod a * Cmod c)) in *.
  set (X5 := (1 + eps) * (1 + eps) * (1 + eps) * (1 + eps) * (1 + eps)) in *.
  assert (PP : 0 <= P).
  { unfold P. assert (0 <= Cmod b * Cmod b) by apply Rle_0_sqr.
    assert (0 <= Cmod a * Cmod c) by (apply Rmult_le_pos; apply Cmod_ge_0). lra. }
  assert (K1 : (X5 - 1) * P <= 5.11 * eps * P) by (apply Rmult_le_compat_r; lra).
  assert (K2 : 5.11 * eps * P <= 5.11 * eps * (kD * Cmod (qdisc a b c))) by (apply Rmult_le_compat_l; lra).
  lra.
Qed.

Theorem quadratic_forward_conditioned_lemma (eps : R) (O : RoundOps) (a b c : C) (kD : R) :
  0 <= eps <= / 100 -> std_model eps O -> a <> C0 -> 0 <= kD ->
  Cmod b * Cmod b + 4 * (Cmod a * Cmod c) <= kD * Cmod (qdisc a b c) -> 5.11 * eps * kD <= / 6 ->
  exists r0 r1 x0 x1 : C, poly_solve (RoundRAo eps O) [c; b; a] false = Ok ([r0; r1], []) /\
    (forall x : C, (a * x * x + b * x + c)%C = (a * (x - x0) * (x - x1))%C) /\
    Cmod (r0 - x0)%C <= (6 + 10.22 * kD) * eps * Cmod x0 /\ Cmod (r1 - x1)%C <= (6 + 10.22 * kD) * eps * Cmod x1.
Proof.
  intros Heps HO Ha PkD HkD Hsmall.
  pose proof (disc_accurate_conditioned_lemma eps O a b c kD Heps HO HkD) as HD.
  pose proof Heps as [He0 He].
  assert (Heta0 : 0 <= 5.11 * eps * kD) by (apply Rmult_le_pos; [lra | exact PkD]).
  assert (Heta : 0 <= 5.11 * eps * kD <= / 6) by (split; assumption).
  destruct (quadratic_forward_lemma eps O a b c (5.11 * eps * kD) Heps HO Ha Heta HD) as (r0 & r1 & x0 & x1 & E & F & B0 & B1).
  exists r0, r1, x0, x1. split; [exact E|]. split; [exact F|].
  pose proof (Cmod_ge_0 x0). pose proof (Cmod_ge_0 x1).
  assert (Ek : (6 + 10.22 * kD) * eps = 6 * eps + 2 * (5.11 * eps * kD)) by nra.
  rewrite Ek. split; assumption.
Qed.

(* the conditioning statement from the local hypotheses: no operation performed on (a, b, c) leaves its accurate range, and the
   discriminant has condition number kD *)
Theorem quadratic_forward_conditioned_local_lemma (eps : R) (O : RoundOps) (a b c : C) (kD : R) :
  0 <= eps <= / 100 -> a <> C0 -> quad_ops_ok eps O a b c -> 0 <= kD ->
  Cmod b * Cmod b + 4 * (Cmod a * Cmod c) <= kD * Cmod (qdisc a b c) -> 5.11 * eps * kD <= / 6 ->
  exists r0 r1 x0 x1 : C, poly_solve (RoundRAo eps O) [c; b; a] false = Ok ([r0; r1], []) /\
    (forall x : C, (a * x * x + b * x + c)%C = (a * (x - x0) * (x - x1))%C) /\
    Cmod (r0 - x0)%C <= (6 + 10.22 * kD) * eps * Cmod x0 /\ Cmod (r1 - x1)%C <= (6 + 10.22 * kD) * eps * Cmod x1.
Proof.
  intros Heps Ha Hok PkD HkD Hsmall.
  destruct (fwd_facts_local eps O a b c Heps Ha Hok) as ((_ & HD & _) & _). cbv zeta in HD.
  destruct (numeric_bounds eps Heps) as (N1 & _).
  assert (HDA : disc_accurate O a b c (5.11 * eps * kD)).
  { unfold disc_accurate.
    set (P := Cmod b * Cmod b + 4 * (Cmod a * Cmod c)) in *.
    set (X5 := (1 + eps) * (1 + eps) * (1 + eps) * (1 + eps) * (1 + eps)) in *.
    assert (PP : 0 <= P).
    { unfold P. assert (0 <= Cmod b * Cmod b) by apply Rle_0_sqr.
      assert (0 <= Cmod a * Cmod c) by (apply Rmult_le_pos; apply Cmod_ge_0). lra. }
    assert (K1 : (X5 - 1) * P <= 5.11 * eps * P) by (apply Rmult_le_compat_r; lra).
    assert (K2 : 5.11 * eps * P <= 5.11 * eps * (kD * Cmod (qdisc a b c))) by (apply Rmult_le_compat_l; lra).
    lra. }
  pose proof Heps as [He0 He].
  assert (Heta0 : 0 <= 5.11 * eps * kD) by (apply Rmult_le_pos; [lra | exact PkD]).
  assert (Heta : 0 <= 5.11 * eps * kD <= / 6) by (split; assumption).
  destruct (quadratic_forward_local_lemma eps O a b c (5.11 * eps * kD) Heps Ha Hok Heta HDA) as (r0 & r1 & x0 & x1 & E & F & B0 & B1).
  exists r0, r1, x0, x1. split; [exact E|]. split; [exact F|].
  assert (Ek : (6 + 10.22 * kD) * eps = 6 * eps + 2 * (5.11 * eps * kD)) by nra.
  rewrite Ek. split; assumption.
Qed.
