(* Proofs/Newton2Mono.v -- C17 over the reals, the supplied-derivative variant
   (Newton<Vec64>::solve_jacobian, Model/Newton.v newton_sysjac at NRl) on a ONE-dimensional system
   p = [x] |-> [f x] with the exact 1 x 1 Jacobian [[f' x]]  (package newton2).

   sysjac_pass_1d      the pass is  x' = x - f(x)/f'(x),  test |f(x)| <= tol  (the 1 x 1 step solve
                       is discharged by C01's completeness + soundness, not by unfolding it);
   newton_quadratic_*  one-step quadratic convergence  |x' - r| <= (L/m) |x - r|^2  of that pass;
   newton_monotone_*   f convex (f' nondecreasing) and increasing at the root (0 < f'(r)) on
                       [r, x0]: from the right of the root the run never panics, the iterates
                       decrease monotonically and stay >= r, every Ok answer x satisfies
                       0 <= x - r <= tol / f'(r), and the answer IS Ok as soon as
                       max_iter * tol > f'(x0) (x0 - r)   (global convergence, explicit pass count). *)
From Coq Require Import List Arith Lia Reals Lra Psatz.
From OV Require Import Base.Panic Base.Arith Model.Vector Model.Matrix Model.Solve Model.Newton
  Proofs.Matrix Proofs.SolveBase Proofs.Solve Proofs.SolveComplete
  Proofs.NewtonLoop Proofs.Newton Proofs.NewtonReal Proofs.Newton2Real Proofs.Newton2Scalar.
Import ListNotations.
Local Open Scope R_scope.

(* ---- the 1 x 1 step solve over R ---- *)
Lemma solve_1x1 (d v : R) : d <> 0 -> @solve_basic AR (@mkM AR [d] 1 1) [v] = Ok [v / d].
Proof.
  intros Hd. set (M1 := @mkM AR [d] 1 1).
  assert (W : wf M1) by reflexivity.
  assert (LI : exists N : nat -> nat -> AR, left_inverse (rows M1) N (ent M1)).
  { exists (fun _ _ => / d). intros i j Hi Hj. cbn in Hi, Hj.
    assert (i = 0%nat) by lia. assert (j = 0%nat) by lia. subst. cbn. unfold ent. cbn. field. exact Hd. }
  destruct (solve_basic_complete_lemma ARn_FieldLaws ARn_PivLaws M1 [v] W eq_refl eq_refl (le_n 1) LI) as (x & E).
  destruct (solve_basic_sound_lemma ARn_FieldLaws M1 [v] x W eq_refl eq_refl E) as [Lx S].
  rewrite E. f_equal. cbn in Lx. destruct x as [|x0 [|? ?]]; try discriminate.
  specialize (S 0%nat (le_n 1)). unfold mvprod, ent in S. cbn in S. f_equal.
  apply (Rmult_eq_reg_l d); [|exact Hd]. rewrite <- S. field. exact Hd.
Qed.

Section OneDim.
Variables f f' : R -> R.

Definition F1 (p : list R) : res (list R) := let* x := rd p 0 in Ok [f x].
Definition J1 (p : list R) : res (matrix AR) := let* x := rd p 0 in Ok (@mkM AR [f' x] 1 1).

Lemma sysjac_pass_1d tl y : f' y <> 0 ->
  sysjac_step NRl tl F1 J1 [y] = Ok ([y - f y / f' y], R_leb (Rabs (f y)) tl, [CF [y]; CJ [y]]).
Proof.
  intros Hd. unfold sysjac_step, F1, J1. cbn [rd nth_error bind].
  unfold norm_inf. cbn [rd nth_error bind length]. rewrite for_empty by lia. cbn [bind].
  change (@solve_basic (NA NRl)) with (@solve_basic AR). rewrite solve_1x1 by exact Hd. cbn [bind].
  reflexivity.
Qed.

(* ---- (c) quadratic convergence of the exact-derivative pass ---- *)
Section Quadratic.
Variables (a b m Mb L r : R).
Hypothesis Hder : forall c, a <= c <= b -> derivable_pt_lim f c (f' c).
Hypothesis Hm : 0 < m.
Hypothesis HL : 0 <= L.
Hypothesis Hlo : forall c, a <= c <= b -> m <= Rabs (f' c).
Hypothesis Hhi : forall c, a <= c <= b -> Rabs (f' c) <= Mb.
Hypothesis Hlip : forall u v, a <= u <= b -> a <= v <= b -> Rabs (f' u - f' v) <= L * Rabs (u - v).
Hypothesis Hr : a <= r <= b.
Hypothesis Hroot : f r = 0.

Lemma newton_quadratic_lemma tl y : a <= y <= b ->
  exists x' bt e, sysjac_step NRl tl F1 J1 [y] = Ok ([x'], bt, e) /\
    Rabs (x' - r) <= L / m * (Rabs (y - r) * Rabs (y - r)).
Proof.
  intros Hy.
  destruct (exact_pass_err f f' a b Hder m Mb L r Hm HL Hlo Hhi Hlip Hr Hroot y Hy) as (N & H1 & _).
  do 3 eexists. split; [apply sysjac_pass_1d; exact N|exact H1].
Qed.
End Quadratic.

(* ---- (b) monotone global convergence ---- *)
Section Monotone.
Variables (r x0 tl : R).
Hypothesis Hrx : r <= x0.
Hypothesis Hroot : f r = 0.
Hypothesis Hder : forall c, r <= c <= x0 -> derivable_pt_lim f c (f' c).
Hypothesis Hconv : forall u v, r <= u -> u <= v -> v <= x0 -> f' u <= f' v.
Hypothesis Hpos : 0 < f' r.

Definition nstep (y : R) : R := y - f y / f' y.

Lemma mono_pass y : r <= y <= x0 ->
  0 < f' y /\ 0 <= f y /\ r <= nstep y <= y /\
  f y <= f' x0 * (y - nstep y) /\ f' r * (y - r) <= f y.
Proof.
  intros Hy.
  assert (Py : 0 < f' y) by (pose proof (Hconv r y); lra).
  destruct (mvt_between f f' r x0 Hder y r) as (c & Hc & E); [lra|lra|].
  rewrite Rmin_right, Rmax_left in Hc by lra. rewrite Hroot, Rminus_0_r in E.
  assert (Pc1 : f' r <= f' c) by (apply Hconv; lra).
  assert (Pc2 : f' c <= f' y) by (apply Hconv; lra).
  assert (Pyx : f' y <= f' x0) by (apply Hconv; lra).
  assert (Hfy : 0 <= f y) by (rewrite E; apply Rmult_le_pos; lra).
  assert (Hq : f y / f' y <= y - r).
  { apply (Rmult_le_reg_r (f' y)); [exact Py|].
    replace (f y / f' y * f' y) with (f y) by (field; lra). rewrite E. nra. }
  assert (Hq0 : 0 <= f y / f' y).
  { unfold Rdiv. apply Rmult_le_pos; [exact Hfy|]. left. now apply Rinv_0_lt_compat. }
  unfold nstep. repeat split; try lra.
  - replace (y - (y - f y / f' y)) with (f y / f' y) by ring.
    replace (f y) with (f' y * (f y / f' y)) at 1 by (field; lra).
    apply Rmult_le_compat_r; lra.
  - rewrite E. apply Rmult_le_compat_r; lra.
Qed.

Let step := sysjac_step NRl tl F1 J1.

Lemma mono_step y : r <= y <= x0 ->
  step [y] = Ok ([nstep y], R_leb (Rabs (f y)) tl, [CF [y]; CJ [y]]).
Proof.
  intros Hy. destruct (mono_pass y Hy) as (P & _). unfold step. apply sysjac_pass_1d. lra.
Qed.

Definition in_range (p : list R) : Prop := exists y, p = [y] /\ r <= y <= x0.

(* no panic, whatever max_iter *)
Lemma newton_monotone_total_lemma dl n :
  exists res evs, newton_sysjac NRl (mkCfg tl dl n [x0]) F1 J1 = Ok (res, evs).
Proof.
  unfold newton_sysjac. cbn [tol delta max_iter guess].
  apply (nloop_total _ in_range).
  - intros p (y & -> & Hy). fold step. rewrite (mono_step y Hy). do 3 eexists. split; [reflexivity|].
    exists (nstep y). split; [reflexivity|]. destruct (mono_pass y Hy) as (_ & _ & H & _). lra.
  - exists x0. split; [reflexivity|lra].
Qed.

(* the failed passes: iterates decrease towards r, and each failed test costs more than tol of
   the budget f'(x0) (x0 - r) *)
Lemma mono_run k p pk es : run step k p pk es -> forall y, p = [y] -> r <= y <= x0 ->
  exists z, pk = [z] /\ r <= z <= y /\ INR k * tl <= f' x0 * (y - z).
Proof.
  induction 1 as [p|k p p1 pk e es P Rn IH]; intros y -> Hy.
  - exists y. split; [reflexivity|]. split; [lra|]. cbn. lra.
  - pose proof (mono_step y Hy) as Es. unfold step in Es. unfold pass in P. unfold step in P.
    pose proof (eq_trans (eq_sym Es) P) as Q. injection Q as E1 Hb E2. subst p1 e.
    destruct (mono_pass y Hy) as (_ & Hf & Hn & Hbud & _).
    destruct (IH (nstep y) eq_refl) as (z & -> & Hz & Hk); [lra|].
    exists z. split; [reflexivity|]. split; [lra|].
    apply R_leb_false in Hb. rewrite Rabs_right in Hb by lra.
    rewrite S_INR.
    replace (f' x0 * (y - z)) with (f' x0 * (y - nstep y) + f' x0 * (nstep y - z)) by ring. lra.
Qed.

(* the iterate sequence is monotone: x_{k+1} <= x_k, all >= r *)
Lemma newton_monotone_iterates_lemma k pk : niter step k [x0] = Ok pk ->
  exists z, pk = [z] /\ r <= z <= x0 /\ niter step (S k) [x0] = Ok [nstep z] /\ r <= nstep z <= z.
Proof.
  assert (G : forall k p pk, in_range p -> niter step k p = Ok pk ->
                in_range pk /\ niter step (S k) p = (let* q := step pk in Ok (fst (fst q)))).
  { clear k pk. induction k as [|k IH]; intros p pk Hp H.
    - cbn [niter] in H. injection H as <-. split; [exact Hp|]. cbn [niter].
      destruct (step p) as [[[p1 b1] e1]|]; reflexivity.
    - cbn [niter] in H. apply bind_ok in H as ([[p1 b1] e1] & E & H). cbn [fst] in H.
      destruct Hp as (y & -> & Hy). rewrite (mono_step y Hy) in E. injection E as <- _ _.
      assert (Hp1 : in_range [nstep y]).
      { exists (nstep y). split; [reflexivity|]. destruct (mono_pass y Hy) as (_ & _ & Hn & _). lra. }
      destruct (IH _ _ Hp1 H) as [Hk HS]. split; [exact Hk|].
      change (niter step (S (S k)) [y]) with (let* q := step [y] in niter step (S k) (fst (fst q))).
      rewrite (mono_step y Hy). cbn [bind fst]. exact HS. }
  intros H. destruct (G k [x0] pk) as [(z & -> & Hz) HS]; [exists x0; split; [reflexivity|lra]|exact H|].
  exists z. split; [reflexivity|]. split; [exact Hz|].
  rewrite HS, (mono_step z Hz). cbn [bind fst]. split; [reflexivity|].
  destruct (mono_pass z Hz) as (_ & _ & Hn & _). exact Hn.
Qed.

(* every Ok answer lies within tol / f'(r) to the right of the root *)
Lemma newton_monotone_ok_close_lemma dl n p evs :
  newton_sysjac NRl (mkCfg tl dl n [x0]) F1 J1 = Ok (NOk p, evs) ->
  exists x, p = [x] /\ r <= x <= x0 /\ x - r <= tl / f' r.
Proof.
  unfold newton_sysjac. cbn [tol delta max_iter guess]. intros H.
  apply nloop_spec in H as [(es & x' & Hx & _)|(k & es & pk & x' & e & Hx & Hk & Rn & P & _)]; [discriminate|].
  injection Hx as <-.
  destruct (mono_run _ _ _ _ Rn x0 eq_refl) as (z & -> & Hz & _); [lra|].
  assert (Hz' : r <= z <= x0) by lra.
  pose proof (mono_step z Hz') as Es. unfold step in Es. unfold pass in P. unfold step in P.
  pose proof (eq_trans (eq_sym Es) P) as Q. injection Q as E1 Hb _. subst p.
  apply R_leb_true in Hb.
  destruct (mono_pass z Hz') as (_ & Hf & Hn & _ & Hlow).
  rewrite Rabs_right in Hb by lra.
  exists (nstep z). split; [reflexivity|]. split; [lra|].
  apply (Rmult_le_reg_l (f' r)); [exact Hpos|].
  replace (f' r * (tl / f' r)) with tl by (field; lra).
  assert (f' r * (nstep z - r) <= f' r * (z - r)) by (apply Rmult_le_compat_l; lra). lra.
Qed.

(* global convergence with an explicit pass count *)
Lemma newton_monotone_ok_lemma dl n : f' x0 * (x0 - r) < INR n * tl ->
  exists x evs, newton_sysjac NRl (mkCfg tl dl n [x0]) F1 J1 = Ok (NOk [x], evs) /\
    r <= x <= x0 /\ x - r <= tl / f' r.
Proof.
  intros Hn. destruct (newton_monotone_total_lemma dl n) as (res & evs & H).
  destruct res as [p|p].
  - destruct (newton_monotone_ok_close_lemma dl n p evs H) as (x & -> & Hx). eauto.
  - exfalso. unfold newton_sysjac in H. cbn [tol delta max_iter guess] in H.
    apply nloop_spec in H as [(es & x' & Hx & Rn & _)|(k & es & pk & x' & e & Hx & _)]; [|discriminate].
    destruct (mono_run _ _ _ _ Rn x0 eq_refl) as (z & _ & Hz & Hk); [lra|].
    assert (P0 : 0 < f' x0) by (pose proof (Hconv r x0); lra).
    assert (f' x0 * (x0 - z) <= f' x0 * (x0 - r)) by (apply Rmult_le_compat_l; lra). lra.
Qed.

End Monotone.
End OneDim.
