(* Proofs/SrcEqWrapTridiag.v -- src/tridiagonal.rs: empty, size, the three diagonal accessors, Clone, the consuming matrix * vector
   regenerated from the source of this run as gen/SrcWrapTridiag.v and each proved equal to its hand-written model (package C05).
   Every consuming operator form computes exactly what the by-reference form computes; every Clone impl is the identity that
   the translation of `x.clone()` assumes. *)
From Coq Require Import List Arith ZArith Lia Bool.
From OV Require Import Base.Panic Base.Arith Model.Vector Model.Matrix Model.Tridiag Model.Banded Model.Poly Model.Newton gen.SrcPrelude gen.SrcWrapTridiag Proofs.SrcEqBase.
Import ListNotations.

Section SrcEqWrapTridiag.
Context {A : Arith}.

Lemma src_tempty  : @s_tempty A = Ok tempty.
Proof. reflexivity. Qed.
Lemma src_tsize (t : tridiag A) : s_tsize t = Ok (tsize t).
Proof. reflexivity. Qed.
Lemma src_tsubdiagonal (t : tridiag A) : s_tsubdiagonal t = Ok (tsub t).
Proof. reflexivity. Qed.
Lemma src_tmaindiagonal (t : tridiag A) : s_tmaindiagonal t = Ok (tmain t).
Proof. reflexivity. Qed.
Lemma src_tsuperdiagonal (t : tridiag A) : s_tsuperdiagonal t = Ok (tsup t).
Proof. reflexivity. Qed.
Lemma src_tclone (t : tridiag A) : s_tclone t = Ok t.
Proof. destruct t; reflexivity. Qed.
Lemma src_tmul_val (t : tridiag A) (v : list (T A)) : s_tmul_val t v = tmul t v.
Proof. reflexivity. Qed.

Definition model_is_source_WrapTridiag : Prop :=
  (@s_tempty A = Ok tempty) /\
  (forall (t : tridiag A), s_tsize t = Ok (tsize t)) /\
  (forall (t : tridiag A), s_tsubdiagonal t = Ok (tsub t)) /\
  (forall (t : tridiag A), s_tmaindiagonal t = Ok (tmain t)) /\
  (forall (t : tridiag A), s_tsuperdiagonal t = Ok (tsup t)) /\
  (forall (t : tridiag A), s_tclone t = Ok t) /\
  (forall (t : tridiag A) (v : list (T A)), s_tmul_val t v = tmul t v).
Lemma model_is_source_WrapTridiag_lemma : model_is_source_WrapTridiag.
Proof. exact (conj src_tempty (conj src_tsize (conj src_tsubdiagonal (conj src_tmaindiagonal (conj src_tsuperdiagonal (conj src_tclone src_tmul_val)))))). Qed.

End SrcEqWrapTridiag.
