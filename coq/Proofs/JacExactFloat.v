(* Proofs/JacExactFloat.v -- package jacexact (C18, "exact on dyadic data"), the real variant at IEEE binary64.
   The model's jacobian at the primitive-float instance NReal AF, applied to the affine map
        p  |->  aff (NReal AF) M c p      (row i:  ((0 + M_i0 p_0) + M_i1 p_1 + ...) + c_i,  every + and * a binary64 operation;
                                            the SAME Gallina function [aff] of Proofs/NewtonJac.v that Props/C18.v jacobian_affine uses
                                            over fields, here run with the float operations)
   on DYADIC data
        M_ik = Mz i k 2^eM,   x_k = Xz k 2^eX,   c_i = Cz i 2^(eM+eX),   delta = Dd 2^eX  with Dd > 0 (delta = 2^-k: Dd = 2^(-k-eX))
   with  |Xz k| + Dd < 2^53  and   Sum_k |Mz i k| (|Xz k| + Dd) + |Cz i| < 2^53  for every row  (and the three exponents
   eM, eX, eM+eX in [-1074, 971]):   NO operation of the whole run rounds, and
        - the returned matrix is the float matrix M, bit for bit,
        - every coordinate is restored exactly by  state[j] += delta; state[j] -= delta  (final state = x, calls at x + delta e_j).
   "Bit for bit" needs the sign of zeros: a zero entry of the result is always +0 (a sum that starts at +0 is never -0, x - x = +0,
   +0 / delta = +0 for delta > 0), and (x_j + delta) - delta is +0 for x_j = -0.  Hence the hypothesis that no M_ik and no x_k is
   the NEGATIVE zero ([NNZ]); the two Examples at the end show that the hypothesis is needed (the code turns -0 into +0).
   Built on the dyadic invariant Dy of Proofs/Round2Lin.v (Flocq's Bplus/Bminus/Bmult/Bdiv_correct). *)
From Coq Require Import ZArith Reals Floats Lia Lra List Bool Arith.
From Flocq Require Import Core.Core IEEE754.BinarySingleNaN IEEE754.PrimFloat.
From OV Require Import Base.Panic Base.Arith Model.Vector Model.Matrix Model.Newton Inst.FloatInst
  Proofs.Matrix Proofs.Newton Proofs.NewtonJac Proofs.ParDotFloat Proofs.ComplexRound Proofs.Round2Lin
  Proofs.JacExactGen.
Import ListNotations.
Local Open Scope Z_scope.

(* ---------------------------------------------------------------- signs of zeros *)
(* x is not the negative zero *)
Definition NNZ (x : PrimFloat.float) : Prop := FR x = 0%R -> Bsign (Prim2B x) = false.
(* x is finite, holds m 2^e exactly and is not -0 *)
Definition Dz (x : PrimFloat.float) (m e : Z) : Prop := Dy x m e /\ NNZ x.

Lemma Bsign_true_le (f : binary_float prec emax) : is_finite f = true -> Bsign f = true -> (B2R f <= 0)%R.
Proof.
  destruct f as [s|s| |s m e B]; simpl; try discriminate; intros _ Hs; [lra|].
  subst s. apply Rlt_le. now apply F2R_lt_0.
Qed.

Lemma Bsign_false_ge (f : binary_float prec emax) : is_finite f = true -> Bsign f = false -> (0 <= B2R f)%R.
Proof.
  destruct f as [s|s| |s m e B]; simpl; try discriminate; intros _ Hs; [lra|].
  subst s. apply Rlt_le. now apply F2R_gt_0.
Qed.

Lemma finite_not_nan (f : binary_float prec emax) : is_finite f = true -> is_nan f = false.
Proof. destruct f; simpl; auto; discriminate. Qed.

(* two finite floats, neither of them -0, with the same real value are the same float *)
Lemma NNZ_eq x y : ffinite x -> ffinite y -> NNZ x -> NNZ y -> FR x = FR y -> x = y.
Proof.
  unfold ffinite, NNZ, FR. intros Fx Fy Nx Ny E. apply Prim2B_inj. apply B2R_Bsign_inj; auto.
  destruct (Req_dec (B2R (Prim2B x)) 0) as [Z|NZ].
  - rewrite Nx by exact Z. rewrite Ny by (rewrite <- E; exact Z). reflexivity.
  - rewrite !Bsign_Rlt; auto; congruence.
Qed.

Lemma Dz_unique x y m e : Dz x m e -> Dz y m e -> x = y.
Proof.
  intros [[Fx Rx] Nx] [[Fy Ry] Ny]. apply NNZ_eq; auto. unfold FR. now rewrite Rx, Ry.
Qed.

Lemma Dz_Dy x m e : Dz x m e -> Dy x m e.
Proof. now intros [H _]. Qed.

Lemma Dz_zero e : Dz 0%float 0 e.
Proof. split; [apply Dy_zero|]. intros _. reflexivity. Qed.

(* a sum whose first operand is not -0 is not -0 *)
Lemma Dz_add x y a b e : Dz x a e -> Dy y b e -> Z.abs (a + b) < 2 ^ 53 -> erange e -> Dz (x + y)%float (a + b) e.
Proof.
  intros [Dx Nx] Dy0 Hb He. split; [now apply Dy_add|].
  destruct Dx as [Fx Rx], Dy0 as [Fy Ry], He as [He1 He2]. unfold NNZ, FR in *. rewrite add_equiv.
  pose proof (Bplus_correct prec emax HP HM mode_NE (Prim2B x) (Prim2B y) Fx Fy) as H.
  rewrite Rlt_bool_true in H.
  2:{ rewrite Rx, Ry, <- Rmult_plus_distr_r, <- plus_IZR, round_dy by assumption. now apply dy_lt_emax. }
  destruct H as (H1 & H2 & H3). intros Hz. rewrite H3.
  assert (S0 : (B2R (Prim2B x) + B2R (Prim2B y))%R = 0%R).
  { rewrite H1 in Hz. rewrite Rx, Ry, <- Rmult_plus_distr_r, <- plus_IZR, round_dy in Hz by assumption.
    rewrite Rx, Ry, <- Rmult_plus_distr_r, <- plus_IZR. exact Hz. }
  rewrite Rcompare_Eq by exact S0.
  destruct (Bsign (Prim2B x)) eqn:Sx; [|reflexivity].
  destruct (Bsign (Prim2B y)) eqn:Sy; [|reflexivity]. exfalso.
  pose proof (Bsign_true_le _ Fx Sx) as Lx. pose proof (Bsign_true_le _ Fy Sy) as Ly.
  assert (Zx : B2R (Prim2B x) = 0%R) by lra. specialize (Nx Zx). congruence.
Qed.

(* a difference whose first operand is not -0 is not -0 *)
Lemma Dz_sub x y a b e : Dz x a e -> Dy y b e -> Z.abs (a - b) < 2 ^ 53 -> erange e -> Dz (x - y)%float (a - b) e.
Proof.
  intros [Dx Nx] Dy0 Hb He. split; [now apply Dy_sub|].
  destruct Dx as [Fx Rx], Dy0 as [Fy Ry], He as [He1 He2]. unfold NNZ, FR in *. rewrite sub_equiv.
  pose proof (Bminus_correct prec emax HP HM mode_NE (Prim2B x) (Prim2B y) Fx Fy) as H.
  rewrite Rlt_bool_true in H.
  2:{ rewrite Rx, Ry, <- Rmult_minus_distr_r, <- minus_IZR, round_dy by assumption. now apply dy_lt_emax. }
  destruct H as (H1 & H2 & H3). intros Hz. rewrite H3.
  assert (S0 : (B2R (Prim2B x) - B2R (Prim2B y))%R = 0%R).
  { rewrite H1 in Hz. rewrite Rx, Ry, <- Rmult_minus_distr_r, <- minus_IZR, round_dy in Hz by assumption.
    rewrite Rx, Ry, <- Rmult_minus_distr_r, <- minus_IZR. exact Hz. }
  rewrite Rcompare_Eq by exact S0.
  destruct (Bsign (Prim2B x)) eqn:Sx; [|reflexivity].
  destruct (Bsign (Prim2B y)) eqn:Sy; [reflexivity|]. exfalso.
  pose proof (Bsign_true_le _ Fx Sx) as Lx. pose proof (Bsign_false_ge _ Fy Sy) as Ly.
  assert (Zx : B2R (Prim2B x) = 0%R) by lra. specialize (Nx Zx). congruence.
Qed.

(* exact division: the numerator is q times the numerator of the divisor *)
Lemma Dy_div_gen x y q b e f : Dy x (q * b) e -> Dy y b f -> b <> 0 -> Z.abs q < 2 ^ 53 -> erange (e - f) ->
  Dy (x / y)%float q (e - f).
Proof.
  intros [Fx Rx] [Fy Ry] Hc Hb [He1 He2]. unfold Dy. rewrite div_equiv.
  assert (Hc' : IZR b <> 0%R) by (now apply not_0_IZR).
  assert (Hy : B2R (Prim2B y) <> 0%R).
  { rewrite Ry. apply Rmult_integral_contrapositive_currified; [exact Hc'|]. apply Rgt_not_eq, bpow_gt_0. }
  pose proof (Bdiv_correct prec emax HP HM mode_NE (Prim2B x) (Prim2B y) Hy) as H.
  replace (B2R (Prim2B x) / B2R (Prim2B y))%R with (IZR q * bpow radix2 (e - f))%R in H.
  2:{ rewrite Rx, Ry, mult_IZR. unfold Zminus. rewrite bpow_plus, bpow_opp.
      pose proof (bpow_gt_0 radix2 f). field. split; [lra|exact Hc']. }
  rewrite round_dy in H by assumption.
  rewrite Rlt_bool_true in H by now apply dy_lt_emax.
  destruct H as (H1 & H2 & _). rewrite H1, H2, Fx. auto.
Qed.

(* ... by a POSITIVE divisor: a zero quotient is +0 *)
Lemma Dz_div x y q b e f : Dz x (q * b) e -> Dy y b f -> 0 < b -> Z.abs q < 2 ^ 53 -> erange (e - f) ->
  Dz (x / y)%float q (e - f).
Proof.
  intros [Dx Nx] Dy0 Hb Hq He. split; [apply (Dy_div_gen x y q b e f); auto; lia|].
  pose proof (Dy_div_gen x y q b e f Dx Dy0 ltac:(lia) Hq He) as [Fq Rq].
  destruct Dx as [Fx Rx], Dy0 as [Fy Ry], He as [He1 He2]. unfold NNZ, FR in *. rewrite div_equiv in *.
  assert (Py : (0 < B2R (Prim2B y))%R).
  { rewrite Ry. apply Rmult_lt_0_compat; [now apply IZR_lt|apply bpow_gt_0]. }
  pose proof (Bdiv_correct prec emax HP HM mode_NE (Prim2B x) (Prim2B y) ltac:(lra)) as H.
  replace (B2R (Prim2B x) / B2R (Prim2B y))%R with (IZR q * bpow radix2 (e - f))%R in H.
  2:{ rewrite Rx, Ry, mult_IZR. unfold Zminus. rewrite bpow_plus, bpow_opp.
      pose proof (bpow_gt_0 radix2 f). assert (IZR b <> 0%R) by (apply not_0_IZR; lia). field. split; [lra|assumption]. }
  rewrite round_dy in H by assumption.
  rewrite Rlt_bool_true in H by now apply dy_lt_emax.
  destruct H as (_ & _ & H3). intros Hz. rewrite H3 by (apply finite_not_nan; exact Fq).
  assert (Zq : IZR q = 0%R).
  { rewrite Rq in Hz. apply Rmult_integral in Hz as [Hz|Hz]; [exact Hz|]. pose proof (bpow_gt_0 radix2 (e - f)). lra. }
  assert (Zx : B2R (Prim2B x) = 0%R) by (rewrite Rx, mult_IZR, Zq; ring).
  rewrite (Nx Zx).
  assert (Sy : Bsign (Prim2B y) = false).
  { rewrite Bsign_Rlt by (auto; lra). apply Rlt_bool_false. lra. }
  now rewrite Sy.
Qed.

(* ---------------------------------------------------------------- integer shadows *)
Fixpoint zsumn (n : nat) (f : nat -> Z) : Z := match n with O => 0 | S n' => zsumn n' f + f n' end.

Lemma zsumn_ext n f g : (forall k, (k < n)%nat -> f k = g k) -> zsumn n f = zsumn n g.
Proof. induction n as [|n IH]; intros H; cbn [zsumn]; [reflexivity|]. rewrite IH, H; auto. Qed.

Lemma zsumn_nonneg n W : (forall k, (k < n)%nat -> 0 <= W k) -> 0 <= zsumn n W.
Proof. induction n as [|n IH]; intros H; cbn [zsumn]; [lia|]. specialize (IH ltac:(auto)). specialize (H n ltac:(lia)). lia. Qed.

Lemma zsumn_abs_le n f W : (forall k, (k < n)%nat -> Z.abs (f k) <= W k) -> Z.abs (zsumn n f) <= zsumn n W.
Proof. induction n as [|n IH]; intros H; cbn [zsumn]; [lia|]. specialize (IH ltac:(auto)). specialize (H n ltac:(lia)). lia. Qed.

Lemma zsumn_term n W j : (forall k, (k < n)%nat -> 0 <= W k) -> (j < n)%nat -> W j <= zsumn n W.
Proof.
  induction n as [|n IH]; intros H Hj; [lia|]. cbn [zsumn].
  pose proof (zsumn_nonneg n W ltac:(auto)). pose proof (H n ltac:(lia)).
  destruct (Nat.eq_dec j n) as [->|]; [lia|]. specialize (IH ltac:(auto) ltac:(lia)). lia.
Qed.

(* one coordinate moved by D *)
Lemma zsumn_pert n (a X : nat -> Z) j D :
  zsumn n (fun k => a k * (if (k =? j)%nat then X k + D else X k)) =
  zsumn n (fun k => a k * X k) + (if (j <? n)%nat then a j * D else 0).
Proof.
  induction n as [|n IH]; cbn [zsumn]; [reflexivity|]. rewrite IH.
  destruct (Nat.eqb_spec n j) as [->|Hn].
  - destruct (Nat.ltb_spec j j); [lia|]. destruct (Nat.ltb_spec j (S j)); [|lia]. ring.
  - destruct (Nat.ltb_spec j n), (Nat.ltb_spec j (S n)); try lia; ring.
Qed.

(* ---------------------------------------------------------------- one row of the affine map *)
Lemma row_sum_Dz (a p : nat -> PrimFloat.float) (Az Pz W : nat -> Z) (eM eX : Z) (n : nat) :
  (forall k, (k < n)%nat -> Dy (a k) (Az k) eM) -> (forall k, (k < n)%nat -> Dy (p k) (Pz k) eX) ->
  (forall k, (k < n)%nat -> Z.abs (Az k * Pz k) <= W k) -> zsumn n W < 2 ^ 53 -> erange (eM + eX) ->
  Dz (sum_n (A := AF) n (fun k => (a k * p k)%float)) (zsumn n (fun k => Az k * Pz k)) (eM + eX).
Proof.
  intros Ha Hp HW Hb HE. induction n as [|n IH]; cbn [sum_n zsumn].
  - apply Dz_zero.
  - pose proof (HW n ltac:(lia)) as Wn. pose proof (Z.abs_nonneg (Az n * Pz n)) as A0.
    assert (W0 : forall k, (k < n)%nat -> 0 <= W k).
    { intros k Hk. pose proof (HW k ltac:(lia)). pose proof (Z.abs_nonneg (Az k * Pz k)). lia. }
    pose proof (zsumn_nonneg n W W0) as S0. cbn [zsumn] in Hb.
    pose proof (zsumn_abs_le n (fun k => Az k * Pz k) W (fun k Hk => HW k (Nat.lt_lt_succ_r _ _ Hk))) as AS. cbv beta in AS.
    change (@add AF) with PrimFloat.add.
    apply Dz_add; [apply IH; auto; lia| |lia|exact HE].
    apply Dy_mul; [apply Ha; lia|apply Hp; lia|lia|exact HE].
Qed.

(* ================================================================ the Jacobian of an affine map on dyadic data *)
Section AffineFloat.
Variables (M : matrix AF) (c x : list PrimFloat.float) (d : PrimFloat.float).
Variables (Mz : nat -> nat -> Z) (Cz Xz : nat -> Z) (Dd eM eX : Z).
Notation OF := (NReal AF).

Hypothesis Wf : wf M.
Hypothesis Lx : length x = cols M.
Hypothesis HMd : forall i j, (i < rows M)%nat -> (j < cols M)%nat -> Dz (ment OF M i j) (Mz i j) eM.
Hypothesis HXd : forall j, (j < cols M)%nat -> Dz (nth j x 0%float) (Xz j) eX.
Hypothesis HCd : forall i, (i < rows M)%nat -> Dy (nth i c 0%float) (Cz i) (eM + eX).
Hypothesis Hdd : Dy d Dd eX.
Hypothesis HDpos : 0 < Dd.
Hypothesis HeX : erange eX.
Hypothesis HeM : erange eM.
Hypothesis HeE : erange (eM + eX).
Hypothesis HbX : forall j, (j < cols M)%nat -> Z.abs (Xz j) + Dd < 2 ^ 53.
Hypothesis Hrow : forall i, (i < rows M)%nat ->
  zsumn (cols M) (fun k => Z.abs (Mz i k) * (Z.abs (Xz k) + Dd)) + Z.abs (Cz i) < 2 ^ 53.

(* state[k] += delta; state[k] -= delta  returns x_k, bit for bit *)
Lemma aff_restore_exact k : (k < length x)%nat -> restored OF x d k = nth k x (@zero (NA OF)).
Proof.
  intros Hk. rewrite Lx in Hk. unfold restored. cbn [NA NReal add sub AF zero].
  pose proof (HXd k Hk) as DX. pose proof (HbX k Hk) as BX.
  assert (D1 : Dz (nth k x 0 + d)%float (Xz k + Dd) eX) by (apply Dz_add; auto; lia).
  assert (D2 : Dz (nth k x 0 + d - d)%float (Xz k + Dd - Dd) eX) by (apply Dz_sub; auto; lia).
  replace (Xz k + Dd - Dd) with (Xz k) in D2 by lia.
  exact (Dz_unique _ _ _ _ D2 DX).
Qed.

(* the coordinates of x + delta e_j *)
Definition pertz (j k : nat) : Z := if (k =? j)%nat then Xz k + Dd else Xz k.

Lemma pert_Dy j k : (j < cols M)%nat -> (k < cols M)%nat -> Dy (nth k (perturbed OF x d j) 0%float) (pertz j k) eX.
Proof.
  intros Hj Hk. assert (Hjl : (j < length x)%nat) by (rewrite Lx; exact Hj).
  unfold perturbed, pertz. rewrite nth_upd_list by exact Hjl.
  destruct (Nat.eqb_spec k j) as [->|_]; [|apply Dz_Dy, HXd; exact Hk].
  cbn [NA NReal add AF zero]. pose proof (HbX j Hj). apply Dy_add; auto; [apply Dz_Dy, HXd; exact Hj|lia].
Qed.

Lemma pertz_abs j k : (k < cols M)%nat -> Z.abs (pertz j k) <= Z.abs (Xz k) + Dd.
Proof. intros Hk. unfold pertz. destruct (k =? j)%nat; lia. Qed.

(* component i of the map at a point with dyadic coordinates Pz k 2^eX, |Pz k| <= |Xz k| + Dd: exact *)
Lemma aff_comp_Dz (p : list PrimFloat.float) (Pz : nat -> Z) i :
  (forall k, (k < cols M)%nat -> Dy (nth k p 0%float) (Pz k) eX) ->
  (forall k, (k < cols M)%nat -> Z.abs (Pz k) <= Z.abs (Xz k) + Dd) -> (i < rows M)%nat ->
  Dz (nth i (aff OF M c p) 0%float) (zsumn (cols M) (fun k => Mz i k * Pz k) + Cz i) (eM + eX).
Proof.
  intros HP HB Hi. change 0%float with (@zero (NA OF)). rewrite aff_nth by exact Hi.
  pose proof (Hrow i Hi) as Hr.
  set (Wk := fun k => Z.abs (Mz i k) * (Z.abs (Xz k) + Dd)) in *.
  assert (HW : forall k, (k < cols M)%nat -> Z.abs (Mz i k * Pz k) <= Wk k).
  { intros k Hk. unfold Wk. rewrite Z.abs_mul. specialize (HB k Hk). pose proof (Z.abs_nonneg (Mz i k)). nia. }
  pose proof (zsumn_abs_le (cols M) (fun k => Mz i k * Pz k) Wk HW) as AS. cbv beta in AS.
  cbn [NA NReal add mul AF zero].
  apply Dz_add; [|apply HCd; exact Hi|lia|exact HeE].
  apply (row_sum_Dz (fun k => ment OF M i k) (fun k => nth k p 0%float) (Mz i) Pz Wk eM eX (cols M)); auto; [|lia].
  intros k Hk. apply Dz_Dy, HMd; auto.
Qed.

Lemma jacobian_affine_exact_float_lemma :
  jacobian_tr OF (fun p => Ok (aff OF M c p)) x d =
    Ok (x, M, x :: map (perturbed OF x d) (seq 0 (length x))).
Proof.
  set (F := fun p : list (NA OF) => Ok (aff OF M c p)).
  destruct (jacobian_shape_lemma OF F x d (rows M)) as (J & evs & EJ & WJ & RJ & CJ & _).
  { intros y _. eexists. split; [reflexivity|apply aff_length]. }
  { intros a. eexists. reflexivity. }
  pose proof EJ as EJ'. unfold jacobian in EJ'. inv_bind EJ'. destruct x0 as [[st J'] ev]. injection EJ' as -> ->.
  pose proof (jacobian_tr_state OF F x d st J evs E) as Est.
  assert (Sx : st = x) by (rewrite Est; apply (state_at_exact OF x d); [exact aff_restore_exact|apply le_n]).
  clear Est. subst st.
  destruct (jacobian_gen_exact_restore OF F x d J evs aff_restore_exact EJ) as (Ev & f0 & E0 & _ & _ & _ & Hent).
  unfold F in E0. injection E0 as <-.
  rewrite E. f_equal. f_equal; [|exact Ev]. f_equal.
  apply (nw_mat_ext OF J M WJ Wf RJ (eq_trans CJ Lx)).
  intros i j Hi Hj. assert (Hjl : (j < length x)%nat) by (rewrite Lx; exact Hj).
  destruct (Hent i j) as (fj & q & Ej & _ & Eq & ->); [rewrite aff_length; exact Hi|exact Hjl|].
  unfold F in Ej. injection Ej as <-. f_equal.
  cbn [NA NReal div sub AF] in Eq. injection Eq as <-.
  (* the two evaluations, exactly *)
  pose proof (aff_comp_Dz x Xz i (fun k Hk => Dz_Dy _ _ _ (HXd k Hk)) ltac:(intros; lia) Hi) as D0.
  pose proof (aff_comp_Dz (perturbed OF x d j) (pertz j) i (fun k Hk => pert_Dy j k Hj Hk) (pertz_abs j) Hi) as D1.
  unfold pertz in D1. rewrite (zsumn_pert (cols M) (Mz i) Xz j Dd) in D1.
  destruct (Nat.ltb_spec j (cols M)) as [_|]; [|lia].
  (* bounds on the numerators *)
  pose proof (Hrow i Hi) as Hr.
  assert (W0 : forall k, (k < cols M)%nat -> 0 <= Z.abs (Mz i k) * (Z.abs (Xz k) + Dd)).
  { intros k Hk. pose proof (Z.abs_nonneg (Mz i k)). pose proof (Z.abs_nonneg (Xz k)). nia. }
  pose proof (zsumn_term (cols M) _ j W0 Hj) as Tj. cbv beta in Tj.
  pose proof (Z.abs_nonneg (Mz i j)) as A0. pose proof (Z.abs_nonneg (Xz j)) as A1. pose proof (Z.abs_nonneg (Cz i)) as A2.
  assert (Bd : Z.abs (Mz i j * Dd) < 2 ^ 53) by (rewrite Z.abs_mul, (Z.abs_eq Dd) by lia; nia).
  assert (Bq : Z.abs (Mz i j) < 2 ^ 53) by nia.
  set (S0 := zsumn (cols M) (fun k => Mz i k * Xz k)) in *.
  assert (Dd1 : Dz (nth i (aff OF M c (perturbed OF x d j)) 0 - nth i (aff OF M c x) 0)%float (Mz i j * Dd) (eM + eX)).
  { replace (Mz i j * Dd) with (S0 + Mz i j * Dd + Cz i - (S0 + Cz i)) by ring.
    apply Dz_sub; [exact D1|exact (Dz_Dy _ _ _ D0)| |exact HeE].
    replace (S0 + Mz i j * Dd + Cz i - (S0 + Cz i)) with (Mz i j * Dd) by ring. exact Bd. }
  assert (Dq : Dz ((nth i (aff OF M c (perturbed OF x d j)) 0 - nth i (aff OF M c x) 0) / d)%float (Mz i j) (eM + eX - eX)).
  { apply (Dz_div _ d (Mz i j) Dd (eM + eX) eX); auto. replace (eM + eX - eX) with eM by lia. exact HeM. }
  replace (eM + eX - eX) with eM in Dq by lia.
  exact (Dz_unique _ _ _ _ Dq (HMd i j Hi Hj)).
Qed.

End AffineFloat.

(* ---------------------------------------------------------------- the statement with elementary hypotheses *)
Lemma NNZ_neg0 x : ffinite x -> x <> (-0)%float -> NNZ x.
Proof.
  unfold ffinite, NNZ, FR. intros Fx Hx Hz.
  destruct (Prim2B x) as [s|s| |s m e B] eqn:E; simpl in *; try discriminate.
  - destruct s; [|reflexivity]. exfalso. apply Hx. rewrite <- (B2Prim_Prim2B x), E. reflexivity.
  - exfalso. destruct s; [assert (F2R (Float radix2 (cond_Zopp true (Zpos m)) e) < 0)%R by now apply F2R_lt_0
                         |assert (0 < F2R (Float radix2 (cond_Zopp false (Zpos m)) e))%R by now apply F2R_gt_0];
    simpl in *; lra.
Qed.

Local Open Scope R_scope.
Lemma jacobian_affine_exact_float_thm (M : matrix AF) (c x : list PrimFloat.float) (d : PrimFloat.float)
    (Mz : nat -> nat -> Z) (Cz Xz : nat -> Z) (Dd eM eX : Z) :
  wf M -> length x = cols M ->
  (forall i j, (i < rows M)%nat -> (j < cols M)%nat ->
     ffinite (ment (NReal AF) M i j) /\ FR (ment (NReal AF) M i j) = IZR (Mz i j) * bpow radix2 eM /\
     ment (NReal AF) M i j <> (-0)%float) ->
  (forall j, (j < cols M)%nat ->
     ffinite (nth j x 0%float) /\ FR (nth j x 0%float) = IZR (Xz j) * bpow radix2 eX /\ nth j x 0%float <> (-0)%float) ->
  (forall i, (i < rows M)%nat -> ffinite (nth i c 0%float) /\ FR (nth i c 0%float) = IZR (Cz i) * bpow radix2 (eM + eX)) ->
  ffinite d -> FR d = IZR Dd * bpow radix2 eX -> (0 < Dd)%Z ->
  (-1074 <= eX <= 971)%Z -> (-1074 <= eM <= 971)%Z -> (-1074 <= eM + eX <= 971)%Z ->
  (forall j, (j < cols M)%nat -> (Z.abs (Xz j) + Dd < 2 ^ 53)%Z) ->
  (forall i, (i < rows M)%nat ->
     (zsumn (cols M) (fun k => Z.abs (Mz i k) * (Z.abs (Xz k) + Dd)) + Z.abs (Cz i) < 2 ^ 53)%Z) ->
  jacobian_tr (NReal AF) (fun p => Ok (aff (NReal AF) M c p)) x d =
    Ok (x, M, x :: map (perturbed (NReal AF) x d) (seq 0 (length x))) /\
  jacobian (NReal AF) (fun p => Ok (aff (NReal AF) M c p)) x d =
    Ok (M, x :: map (perturbed (NReal AF) x d) (seq 0 (length x))).
Proof.
  intros Wf Lx HM HX HC Fd Rd HD HeX HeM HeE HbX Hrow.
  assert (E : jacobian_tr (NReal AF) (fun p => Ok (aff (NReal AF) M c p)) x d =
              Ok (x, M, x :: map (perturbed (NReal AF) x d) (seq 0 (length x)))).
  { apply (jacobian_affine_exact_float_lemma M c x d Mz Cz Xz Dd eM eX Wf Lx).
    - intros i j Hi Hj. destruct (HM i j Hi Hj) as (F1 & R1 & N1). split; [split; assumption|now apply NNZ_neg0].
    - intros j Hj. destruct (HX j Hj) as (F1 & R1 & N1). split; [split; assumption|now apply NNZ_neg0].
    - intros i Hi. destruct (HC i Hi) as (F1 & R1). split; assumption.
    - split; assumption.
    - exact HD.
    - exact HeX.
    - exact HeM.
    - exact HeE.
    - exact HbX.
    - exact Hrow. }
  split; [exact E|]. unfold jacobian. rewrite E. reflexivity.
Qed.
Local Close Scope R_scope.

(* ---------------------------------------------------------------- non-vacuity: delta = 2^-20, small-integer 2 x 3 matrix *)
Definition exj_M : matrix AF := @mkM AF [1; 2; 3; -1; 0; 5]%float 2 3.
Definition exj_c : list PrimFloat.float := [0.5; 7]%float.
Definition exj_x : list PrimFloat.float := [0.5; -1.25; 3]%float.
Definition exj_d : PrimFloat.float := 0x1p-20%float.                          (* 2^-20 *)
Definition exj_Mz (i j : nat) : Z := nth (i * 3 + j) [1; 2; 3; -1; 0; 5]%Z 0%Z.
Definition exj_Xz (j : nat) : Z := nth j [524288; -1310720; 3145728]%Z 0%Z.   (* x 2^20 *)
Definition exj_Cz (i : nat) : Z := nth i [524288; 7340032]%Z 0%Z.             (* c 2^20 *)

Ltac neg0w := let H := fresh in intro H; apply (f_equal Prim2SF) in H; vm_compute in H; discriminate H.
Lemma Dy_unfold3 x m e : Dy x m e -> x <> (-0)%float ->
  ffinite x /\ FR x = (IZR m * bpow radix2 e)%R /\ x <> (-0)%float.
Proof. intros [F R] N. auto. Qed.
Lemma Dy_unfold2 x m e : Dy x m e -> ffinite x /\ FR x = (IZR m * bpow radix2 e)%R.
Proof. exact (fun H => H). Qed.
Ltac dyw3 := apply Dy_unfold3; [cbn; dyw|cbn; neg0w].

Lemma exj_M_dy i j : (i < 2)%nat -> (j < 3)%nat ->
  ffinite (ment (NReal AF) exj_M i j) /\ FR (ment (NReal AF) exj_M i j) = (IZR (exj_Mz i j) * bpow radix2 0)%R /\
  ment (NReal AF) exj_M i j <> (-0)%float.
Proof.
  intros Hi Hj.
  do 2 (destruct i as [|i]; [do 3 (destruct j as [|j]; [dyw3|]); lia|]). lia.
Qed.
Lemma exj_x_dy j : (j < 3)%nat ->
  ffinite (nth j exj_x 0%float) /\ FR (nth j exj_x 0%float) = (IZR (exj_Xz j) * bpow radix2 (-20))%R /\
  nth j exj_x 0%float <> (-0)%float.
Proof. intros Hj. do 3 (destruct j as [|j]; [dyw3|]). lia. Qed.
Lemma exj_c_dy i : (i < 2)%nat ->
  ffinite (nth i exj_c 0%float) /\ FR (nth i exj_c 0%float) = (IZR (exj_Cz i) * bpow radix2 (0 + -20))%R.
Proof.
  intros Hi. do 2 (destruct i as [|i]; [apply Dy_unfold2; cbn; dyw|]). lia.
Qed.
Lemma exj_d_dy : ffinite exj_d /\ FR exj_d = (IZR 1 * bpow radix2 (-20))%R.
Proof. apply Dy_unfold2. dyw. Qed.
Lemma exj_bx j : (j < 3)%nat -> Z.abs (exj_Xz j) + 1 < 2 ^ 53.
Proof. intros Hj. do 3 (destruct j as [|j]; [cbn; lia|]). lia. Qed.
Lemma exj_brow i : (i < 2)%nat ->
  zsumn 3 (fun k => Z.abs (exj_Mz i k) * (Z.abs (exj_Xz k) + 1)) + Z.abs (exj_Cz i) < 2 ^ 53.
Proof. intros Hi. do 2 (destruct i as [|i]; [cbn; lia|]). lia. Qed.

Example exj_value :
  jacobian (NReal AF) (fun p => Ok (aff (NReal AF) exj_M exj_c p)) exj_x exj_d =
    Ok (exj_M, [[0.5; -1.25; 3]; [0x1.00002p-1; -1.25; 3]; [0.5; -0x1.3ffffp+0; 3]; [0.5; -1.25; 0x1.800008p+1]]%float).
Proof. vm_compute. reflexivity. Qed.

(* outside the hypotheses, delta = 1e-8 (not dyadic; the binary64 number 0x1.5798ee2308c3ap-27): every non-zero entry of the
   returned matrix is wrong from the 9th digit on (0.99999999392... for 1), and the coordinate x_0 = 0.9999999999
   (0x1.ffffffff2419p-1) comes back one ulp smaller: the later columns are evaluated at a point that is not x + delta e_j *)
Definition exj_x2 : list PrimFloat.float := [0x1.ffffffff2419p-1; -1.25; 3]%float.
Definition exj_d2 : PrimFloat.float := 0x1.5798ee2308c3ap-27%float.
Example exj_inexact :
  exists st J evs, jacobian_tr (NReal AF) (fun p => Ok (aff (NReal AF) exj_M exj_c p)) exj_x2 exj_d2 = Ok (st, J, evs) /\
    map (fun k => PrimFloat.eqb (nth k (buf J) 0%float) (nth k (buf exj_M) 0%float)) (seq 0 6) =
      [false; false; false; false; true; false] /\
    PrimFloat.eqb (nth 0 st 0%float) (nth 0 exj_x2 0%float) = false /\
    PrimFloat.ltb (nth 0 st 0%float) (nth 0 exj_x2 0%float) = true /\
    nth 0 (nth 2 evs []) 0%float = nth 0 st 0%float.
Proof. do 3 eexists. split; [vm_compute; reflexivity|]. repeat split; vm_compute; reflexivity. Qed.

(* the sign hypotheses are needed: a coordinate -0 is "restored" to +0 and an entry -0 of M is returned as +0 *)
Example exj_negzero :
  exists st J evs,
    jacobian_tr (NReal AF) (fun p => Ok (aff (NReal AF) (@mkM AF [1; -0; 3; -1; 0; 5]%float 2 3) exj_c p))
                [-0; -1.25; 3]%float exj_d = Ok (st, J, evs) /\
    PrimFloat.get_sign (nth 0 st 0%float) = false /\ PrimFloat.get_sign (nth 1 (buf J) 1%float) = false /\
    PrimFloat.get_sign (-0)%float = true.
Proof. do 3 eexists. split; [vm_compute; reflexivity|]. repeat split; vm_compute; reflexivity. Qed.

(* named constants for the pinned statements (Props files do not import the float notations) *)
Definition exj_evs : list (list PrimFloat.float) :=
  [[0.5; -1.25; 3]; [0x1.00002p-1; -1.25; 3]; [0.5; -0x1.3ffffp+0; 3]; [0.5; -1.25; 0x1.800008p+1]]%float.
Definition exj_Mneg : matrix AF := @mkM AF [1; -0; 3; -1; 0; 5]%float 2 3.
Definition exj_xneg : list PrimFloat.float := [-0; -1.25; 3]%float.
