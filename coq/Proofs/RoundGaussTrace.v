(* Proofs/RoundGaussTrace.v -- what gauss_with_pivot (Model/Solve.v: Gaussian elimination with partial pivoting on the
   matrix AND the right-hand side, multipliers not stored) computes AT THE ROUNDED REALS, in closed form.

   The state (m, x) is viewed as the augmented n x (n+1) array [aug m x] (column n = right-hand side).  A ghost array H
   follows the run: it equals the state wherever the state is still meaningful (on and above the diagonal, in the
   not-yet-eliminated columns, and in the right-hand side) and keeps the multipliers where the code leaves rounding
   residues.  H evolves exactly as the in-place LU of Proofs/RoundLUFun.v on the augmented array, so Doolittle's closed
   form ([GoodF]) holds for it: the U part is the computed echelon form, the last column is the computed right-hand side
   -- the forward substitution is built into the elimination.

     gauss_trace :  gauss_with_pivot m b = Ok (m', b')  ->
        EITHER some pivot search met an all-zero column (where the code's search returns row 0: the known quirk of
               max_abs_in_column; nothing is claimed then),
        OR     there are a row bijection tau and a ghost H with  m' = H on/above the diagonal,  b' = H's last column,
               and GoodF (n+1) (n-1) (the input augmented and permuted by tau) H. *)
From Coq Require Import List Arith Lia Bool Reals Lra.
From OV Require Import Base.Panic Base.Arith Base.RoundModel Model.Vector Model.Matrix Model.Solve
  Proofs.Matrix Proofs.LUPrim Proofs.RoundLUFun Proofs.RoundLUTrace.
Import ListNotations.

Lemma vswap_spec_gen {A : Arith} (x : list A) (p k : nat) : p < length x -> k < length x ->
  exists x', vswap x p k = Ok x' /\ length x' = length x /\
    forall i, nth i x' zero = nth (tr p k i) x zero.
Proof.
  intros Hp Hk. unfold vswap.
  rewrite (rd_ok x p zero Hp), (rd_ok x k zero Hk). cbn [bind].
  rewrite (upd_ok x p _ Hp). cbn [bind].
  rewrite upd_ok by (now rewrite upd_list_length).
  eexists; split; [reflexivity|]. rewrite !upd_list_length. split; [reflexivity|].
  intros i. rewrite nth_upd_list by (now rewrite upd_list_length).
  rewrite nth_upd_list by exact Hp. unfold tr.
  destruct (Nat.eqb_spec i k) as [->|Nk].
  - destruct (Nat.eqb_spec k p) as [->|]; reflexivity.
  - destruct (Nat.eqb_spec i p) as [->|]; reflexivity.
Qed.

Section GaussTrace.
Variables fadd fsub fmul fdiv : R -> R -> R.
Notation AR := (ARm fadd fsub fmul fdiv).
Notation stepf := (stepf fsub fmul fdiv).
Notation GoodF := (GoodF fsub fmul fdiv).

Local Open Scope R_scope.

(* the augmented array of a state *)
Definition aug (n : nat) (m : matrix AR) (x : list R) : nat -> nat -> R :=
  fun r c => if (c <? n)%nat then ent (A := AR) m r c else nth r x 0.

(* ---------------------------------------------------------------- the pivot search of partial_pivot *)
Definition msearch_body (m : matrix AR) (col : nat) : nat -> nat * R -> res (nat * R) :=
  fun i s => let '(mi, mx) := s in
             let* a := mget m i col in
             if ltb (a := AR) mx (abs (a := AR) a) then Ok (i, abs (a := AR) a) else Ok (mi, mx).

Lemma max_abs_unfold (m : matrix AR) (col start : nat) :
  max_abs_in_column m col start =
  (let* r := for_ start (rows m) (msearch_body m col) (0%nat, 0) in Ok (fst r)).
Proof. reflexivity. Qed.

Lemma msearch_spec (m : matrix AR) (n k : nat) : shape m n n -> (k < n)%nat ->
  exists p, max_abs_in_column m k k = Ok p /\
    (((k <= p)%nat /\ (p < n)%nat) \/ (forall r, (k <= r)%nat -> (r < n)%nat -> ent (A := AR) m r k = 0)).
Proof.
  intros SH Hk. rewrite max_abs_unfold. destruct (SH) as (_ & Rm & _). rewrite Rm.
  destruct (for_inv (fun i (st : nat * R) => 0 <= snd st /\
              (snd st = 0 -> forall r, (k <= r)%nat -> (r < i)%nat -> ent (A := AR) m r k = 0) /\
              (0 < snd st -> (k <= fst st)%nat /\ (fst st < n)%nat))
            k n (msearch_body m k) (0%nat, 0)) as ([p mx] & E & H1 & H2 & H3).
  - lia.
  - cbn [fst snd]. split; [lra|]. split; [intros _ r Hr1 Hr2; lia|intros Z; exfalso; lra].
  - intros i [mi mx] Hi (H1 & H2 & H3). cbn [fst snd] in *.
    unfold msearch_body. rewrite (mget_ok (A := AR) m n n i k SH) by lia. cbn [bind].
    change (ltb (a := AR) mx (abs (a := AR) (ent (A := AR) m i k)))
      with (if Rlt_dec mx (Rabs (ent (A := AR) m i k)) then true else false).
    change (abs (a := AR) (ent (A := AR) m i k)) with (Rabs (ent (A := AR) m i k)).
    destruct (Rlt_dec mx (Rabs (ent (A := AR) m i k))) as [L|L].
    + eexists; split; [reflexivity|]. cbn [fst snd].
      split; [lra|]. split; [intros Z; exfalso; lra|intros _; lia].
    + eexists; split; [reflexivity|]. cbn [fst snd]. split; [exact H1|]. split; [|exact H3].
      intros Z r Hr1 Hr2. destruct (Nat.eq_dec r i) as [->|Ne]; [|apply H2; [exact Z|exact Hr1|lia]].
      assert (Rabs (ent (A := AR) m i k) <= 0) by lra. pose proof (Rabs_pos (ent (A := AR) m i k)).
      destruct (Req_dec (ent (A := AR) m i k) 0) as [E0|N0]; [exact E0|]. apply Rabs_pos_lt in N0. lra.
  - rewrite E. cbn [bind fst]. exists p. split; [reflexivity|]. cbn [fst snd] in *.
    destruct (Req_dec mx 0) as [Z|NZ].
    + right. intros r Hr1 Hr2. now apply H2.
    + left. apply H3. lra.
Qed.

(* ---------------------------------------------------------------- the exchange of partial_pivot, on the augmented array *)
Lemma vswap_spec (x : list R) (p k : nat) : (p < length x)%nat -> (k < length x)%nat ->
  exists x', vswap (A := AR) x p k = Ok x' /\ length x' = length x /\
    forall i, nth i x' 0 = nth (tr p k i) x 0.
Proof. exact (vswap_spec_gen (A := AR) x p k). Qed.

(* ---------------------------------------------------------------- one row operation *)
Definition grow (k : nat) : nat -> matrix AR * list R -> res (matrix AR * list R) :=
  fun i s => let '(m, x) := s in
    let* aik := mget m i k in
    let* akk := mget m k k in
    let* elem := div (a := AR) aik akk in
    let* m := for_ k (rows m) (fun j m =>
                let* kj := mget m k j in
                let* ij := mget m i j in
                mset m i j (sub (a := AR) ij (mul (a := AR) elem kj))) m in
    let* xk := rd x k in
    let* xi := rd x i in
    let* x := upd x i (sub (a := AR) xi (mul (a := AR) elem xk)) in
    Ok (m, x).

(* its effect on the augmented array *)
Definition growf (E : nat -> nat -> R) (k i r c : nat) : R :=
  if (r =? i)%nat then
    (if (c <? k)%nat then E i c else fsub (E i c) (fmul (fdiv (E i k) (E k k)) (E k c)))
  else E r c.

Lemma grow_spec (m : matrix AR) (x : list R) (n k i : nat) :
  shape m n n -> length x = n -> (k < i)%nat -> (i < n)%nat ->
  exists m' x', grow k i (m, x) = Ok (m', x') /\ shape m' n n /\ length x' = n /\
    forall r c, (r < n)%nat -> (c <= n)%nat -> aug n m' x' r c = growf (aug n m x) k i r c.
Proof.
  intros SH Lx Hk Hi. unfold grow.
  rewrite (mget_ok (A := AR) m n n i k SH) by lia. cbn [bind].
  rewrite (mget_ok (A := AR) m n n k k SH) by lia. cbn [bind].
  set (el := fdiv (ent (A := AR) m i k) (ent (A := AR) m k k)).
  change (div (a := AR) (ent (A := AR) m i k) (ent (A := AR) m k k)) with (Ok el). cbn [bind].
  destruct (SH) as (_ & Rm & _). rewrite Rm.
  destruct (for_inv (fun j (mj : matrix AR) => shape mj n n /\
              forall r c, (r < n)%nat -> (c < n)%nat ->
                ent (A := AR) mj r c
                = if ((r =? i) && (k <=? c) && (c <? j))%nat
                  then fsub (ent (A := AR) m i c) (fmul el (ent (A := AR) m k c))
                  else ent (A := AR) m r c)
            k n
            (fun j mj => let* kj := mget mj k j in let* ij := mget mj i j in
                         mset mj i j (sub (a := AR) ij (mul (a := AR) el kj))) m) as (m' & Em & S' & G').
  - lia.
  - split; [exact SH|]. intros r c Hr Hc.
    destruct (Nat.leb_spec k c), (Nat.ltb_spec c k); try lia; now rewrite ?andb_false_r.
  - intros j mj Hj (Sj & Gj).
    rewrite (mget_ok (A := AR) mj n n k j Sj) by lia. cbn [bind].
    rewrite (mget_ok (A := AR) mj n n i j Sj) by lia. cbn [bind].
    destruct (mset_ok (A := AR) mj n n i j
                (sub (a := AR) (ent (A := AR) mj i j) (mul (a := AR) el (ent (A := AR) mj k j)))
                Sj ltac:(lia) ltac:(lia)) as (mj' & Ej' & Sj' & Gj').
    exists mj'. split; [exact Ej'|]. split; [exact Sj'|].
    intros r c Hr Hc. rewrite Gj' by exact Hc.
    destruct (Nat.eqb_spec r i) as [->|Nr]; cbn [andb].
    + destruct (Nat.eqb_spec c j) as [->|Nc]; cbn [andb].
      * destruct (Nat.leb_spec k j); [|lia]. destruct (Nat.ltb_spec j (S j)); [|lia]. cbn [andb].
        assert (A1 : ent (A := AR) mj i j = ent (A := AR) m i j).
        { rewrite (Gj i j) by lia. rewrite Nat.ltb_irrefl, andb_false_r. reflexivity. }
        assert (A2 : ent (A := AR) mj k j = ent (A := AR) m k j).
        { rewrite (Gj k j) by lia. destruct (Nat.eqb_spec k i); [lia|]. reflexivity. }
        rewrite A1, A2. reflexivity.
      * rewrite (Gj i c) by lia. rewrite Nat.eqb_refl. cbn [andb].
        destruct (Nat.leb_spec k c); cbn [andb]; [|reflexivity].
        destruct (Nat.ltb_spec c j), (Nat.ltb_spec c (S j)); try reflexivity; lia.
    + rewrite (Gj r c) by assumption. destruct (Nat.eqb_spec r i); [lia|]. reflexivity.
  - rewrite Em. cbn [bind].
    rewrite (rd_ok x k 0) by lia. cbn [bind]. rewrite (rd_ok x i 0) by lia. cbn [bind].
    rewrite upd_ok by lia. cbn [bind].
    eexists; eexists. split; [reflexivity|]. split; [exact S'|]. split; [rewrite upd_list_length; exact Lx|].
    intros r c Hr Hc. unfold aug, growf.
    destruct (Nat.ltb_spec c n) as [Lc|Lc].
    + rewrite (G' r c Hr Lc). destruct (Nat.eqb_spec r i) as [->|Nr]; cbn [andb]; [|reflexivity].
      destruct (Nat.ltb_spec k n); [|lia].
      destruct (Nat.ltb_spec c k) as [Lk|Lk].
      * destruct (Nat.leb_spec k c); [lia|]. reflexivity.
      * destruct (Nat.leb_spec k c); [|lia]. destruct (Nat.ltb_spec c n); [|lia]. reflexivity.
    + rewrite nth_upd_list by lia. destruct (Nat.eqb_spec r i) as [->|Nr]; [|reflexivity].
      destruct (Nat.ltb_spec c k); [lia|]. destruct (Nat.ltb_spec k n); [|lia]. reflexivity.
Qed.

(* ---------------------------------------------------------------- all rows below k *)
Definition gstepf (E : nat -> nat -> R) (s r c : nat) : R :=
  if (s <? r)%nat then
    (if (c <? s)%nat then E r c else fsub (E r c) (fmul (fdiv (E r s) (E s s)) (E s c)))
  else E r c.

Lemma gelim_spec (m : matrix AR) (x : list R) (n k : nat) : shape m n n -> length x = n -> (k < n)%nat ->
  exists m' x', for_ (k + 1) n (grow k) (m, x) = Ok (m', x') /\ shape m' n n /\ length x' = n /\
    forall r c, (r < n)%nat -> (c <= n)%nat -> aug n m' x' r c = gstepf (aug n m x) k r c.
Proof.
  intros SH Lx Hk.
  destruct (for_inv (fun i1 (st : matrix AR * list R) => shape (fst st) n n /\ length (snd st) = n /\
              forall r c, (r < n)%nat -> (c <= n)%nat ->
                aug n (fst st) (snd st) r c = if (r <? i1)%nat then gstepf (aug n m x) k r c else aug n m x r c)
            (k + 1)%nat n (grow k) (m, x)) as ([m' x'] & E & S' & L' & G').
  - lia.
  - cbn [fst snd]. split; [exact SH|]. split; [exact Lx|]. intros r c Hr Hc.
    destruct (Nat.ltb_spec r (k + 1)); [|reflexivity]. unfold gstepf.
    destruct (Nat.ltb_spec k r); [lia|reflexivity].
  - intros i1 [m1 x1] Hi1 (S1 & L1 & G1). cbn [fst snd] in *.
    destruct (grow_spec m1 x1 n k i1 S1 L1 ltac:(lia) ltac:(lia)) as (m2 & x2 & E2 & S2 & L2 & G2).
    exists (m2, x2). split; [exact E2|]. cbn [fst snd]. split; [exact S2|]. split; [exact L2|].
    intros r c Hr Hc. rewrite (G2 r c Hr Hc). unfold growf.
    destruct (Nat.eqb_spec r i1) as [->|Nr].
    + destruct (Nat.ltb_spec i1 (S i1)); [|lia].
      rewrite (G1 i1 c) by lia. rewrite (G1 i1 k) by lia. rewrite (G1 k k) by lia. rewrite (G1 k c) by lia.
      destruct (Nat.ltb_spec i1 i1); [lia|]. destruct (Nat.ltb_spec k i1) as [_|]; [|lia].
      unfold gstepf. destruct (Nat.ltb_spec k k); [lia|]. destruct (Nat.ltb_spec k i1); [|lia]. reflexivity.
    + rewrite (G1 r c) by assumption.
      destruct (Nat.ltb_spec r i1), (Nat.ltb_spec r (S i1)); try reflexivity; lia.
  - exists m', x'. split; [exact E|]. cbn [fst snd] in *. split; [exact S'|]. split; [exact L'|].
    intros r c Hr Hc. rewrite (G' r c Hr Hc). destruct (Nat.ltb_spec r n); [reflexivity|lia].
Qed.

(* ---------------------------------------------------------------- one step of the outer loop *)
Definition gbody : nat -> matrix AR * list R -> res (matrix AR * list R) :=
  fun k s => let '(m, x) := s in
    let* s := partial_pivot m x k in
    for_ (k + 1) (rows (fst s)) (grow k) s.

Lemma gauss_unfold (m : matrix AR) (x : list R) :
  gauss_with_pivot m x = (let* hi := usub (rows m) 1 in for_ 0 hi gbody (m, x)).
Proof. reflexivity. Qed.

Lemma gbody_spec (m : matrix AR) (x : list R) (n k : nat) : shape m n n -> length x = n -> (k < n)%nat ->
  exists m' x', gbody k (m, x) = Ok (m', x') /\ shape m' n n /\ length x' = n /\
    ((exists p, (k <= p)%nat /\ (p < n)%nat /\
        forall r c, (r < n)%nat -> (c <= n)%nat ->
          aug n m' x' r c = gstepf (fun r c => aug n m x (tr k p r) c) k r c) \/
     (forall r, (k <= r)%nat -> (r < n)%nat -> ent (A := AR) m r k = 0)).
Proof.
  intros SH Lx Hk. unfold gbody, partial_pivot.
  destruct (msearch_spec m n k SH Hk) as (p & Ep & Hp). rewrite Ep. cbn [bind].
  destruct Hp as [(Hp1 & Hp2)|Z].
  - destruct (swap_rows_ok (A := AR) m n n p k SH Hp2 Hk) as (m1 & E1 & S1 & G1). rewrite E1. cbn [bind].
    destruct (vswap_spec x p k ltac:(lia) ltac:(lia)) as (x1 & Ex1 & L1 & Gx1). rewrite Ex1. cbn [bind fst].
    destruct (S1) as (_ & R1 & _). rewrite R1.
    destruct (gelim_spec m1 x1 n k S1 (eq_trans L1 Lx) Hk) as (m' & x' & E' & S' & L' & G').
    exists m', x'. split; [exact E'|]. split; [exact S'|]. split; [exact L'|]. left.
    exists p. split; [exact Hp1|]. split; [exact Hp2|].
    intros r c Hr Hc. rewrite (G' r c Hr Hc).
    assert (EA : forall r c, (r < n)%nat -> (c <= n)%nat -> aug n m1 x1 r c = aug n m x (tr k p r) c).
    { assert (TS : forall a b i, tr a b i = tr b a i).
      { intros a b i. unfold tr. destruct (Nat.eqb_spec i a), (Nat.eqb_spec i b); congruence. }
      intros r0 c0 Hr0 Hc0. unfold aug. destruct (Nat.ltb_spec c0 n).
      + rewrite G1 by assumption. now rewrite TS.
      + rewrite Gx1. now rewrite TS. }
    unfold gstepf. rewrite !EA by lia. reflexivity.
  - (* an all-zero pivot column: nothing is claimed about what follows, but the run goes on *)
    assert (P0 : (p < n)%nat \/ (n <= p)%nat) by lia.
    destruct (Nat.lt_ge_cases p n) as [Hp2|Hp2].
    + destruct (swap_rows_ok (A := AR) m n n p k SH Hp2 Hk) as (m1 & E1 & S1 & G1). rewrite E1. cbn [bind].
      destruct (vswap_spec x p k ltac:(lia) ltac:(lia)) as (x1 & Ex1 & L1 & Gx1). rewrite Ex1. cbn [bind fst].
      destruct (S1) as (_ & R1 & _). rewrite R1.
      destruct (gelim_spec m1 x1 n k S1 (eq_trans L1 Lx) Hk) as (m' & x' & E' & S' & L' & G').
      exists m', x'. split; [exact E'|]. split; [exact S'|]. split; [exact L'|]. right. exact Z.
    + (* cannot happen: the search starts from index 0 and only moves to scanned rows *)
      exfalso. clear P0. revert Ep. rewrite max_abs_unfold. destruct (SH) as (_ & Rm & _). rewrite Rm.
      destruct (for_inv (fun i (st : nat * R) => (fst st < n)%nat)
                  k n (msearch_body m k) (0%nat, 0)) as ([p' mx] & E & H1).
      * lia.
      * cbn [fst]. lia.
      * intros i [mi mx] Hi H1. cbn [fst] in *. unfold msearch_body.
        rewrite (mget_ok (A := AR) m n n i k SH) by lia. cbn [bind].
        destruct (ltb (a := AR) mx (abs (a := AR) (ent (A := AR) m i k))); eexists; split; try reflexivity; cbn [fst]; lia.
      * rewrite E. cbn [bind fst]. intros Ep. injection Ep as <-. cbn [fst] in H1. lia.
Qed.

(* ---------------------------------------------------------------- the ghost array *)
Definition Rel (n s : nat) (E H : nat -> nat -> R) : Prop :=
  forall r c, (r < n)%nat -> (c <= n)%nat -> ((r <= c)%nat \/ (s <= c)%nat) -> E r c = H r c.

Lemma rel_step (n s p : nat) (E E' H : nat -> nat -> R) :
  (s < n)%nat -> (s <= p)%nat -> (p < n)%nat -> Rel n s E H ->
  (forall r c, (r < n)%nat -> (c <= n)%nat -> E' r c = gstepf (fun r c => E (tr s p r) c) s r c) ->
  Rel n (S s) E' (stepf (fun r c => H (tr s p r) c) s).
Proof.
  intros Hs Hsp Hp RL HE' r c Hr Hc Hor. rewrite (HE' r c Hr Hc). unfold gstepf, RoundLUFun.stepf.
  assert (Tr : forall q, (q < n)%nat -> (tr s p q < n)%nat) by (intros q Hq; apply tr_lt; lia).
  destruct (Nat.ltb_spec s r) as [L|L].
  - assert (Hc' : (s < c)%nat) by lia.
    destruct (Nat.ltb_spec c s); [lia|]. destruct (Nat.eqb_spec c s); [lia|].
    rewrite (RL (tr s p r) c) by (auto; lia). rewrite (RL (tr s p r) s) by (auto; lia).
    rewrite (RL (tr s p s) s) by (auto; lia). rewrite (RL (tr s p s) c) by (auto; lia). reflexivity.
  - destruct (Nat.le_gt_cases s c) as [Lc|Lc].
    + apply RL; auto; lia.
    + assert (r < s)%nat by lia. rewrite tr_other by lia. apply RL; auto; lia.
Qed.

Lemma for_from_snoc {S} n lo (body : nat -> S -> res S) (s : S) :
  for_from (Datatypes.S n) lo body s = (let* s' := for_from n lo body s in body (lo + n)%nat s').
Proof.
  revert lo s. induction n as [|n IH]; intros lo s.
  - cbn. rewrite Nat.add_0_r. destruct (body lo s); reflexivity.
  - change (for_from (Datatypes.S (Datatypes.S n)) lo body s)
      with (let* s1 := body lo s in for_from (Datatypes.S n) (Datatypes.S lo) body s1).
    change (for_from (Datatypes.S n) lo body s) with (let* s1 := body lo s in for_from n (Datatypes.S lo) body s1).
    destruct (body lo s) as [s1|]; cbn [bind]; [|reflexivity].
    rewrite IH. replace (Datatypes.S lo + n)%nat with (lo + Datatypes.S n)%nat by lia. reflexivity.
Qed.

Lemma for_snoc {S} hi (body : nat -> S -> res S) (s : S) :
  for_ 0 (Datatypes.S hi) body s = (let* s' := for_ 0 hi body s in body hi s').
Proof. unfold for_. rewrite !Nat.sub_0_r. apply for_from_snoc. Qed.

(* a pivot search of the run met an all-zero column *)
Definition BadRun (m : matrix AR) (b : list R) (n s : nat) : Prop :=
  exists k mk bk, (k < s)%nat /\ for_ 0 k gbody (m, b) = Ok (mk, bk) /\
    forall r, (k <= r)%nat -> (r < n)%nat -> ent (A := AR) mk r k = 0.

Theorem gauss_trace (m m' : matrix AR) (b b' : list R) :
  wf m -> rows m = cols m -> length b = rows m -> gauss_with_pivot m b = Ok (m', b') ->
  shape m' (rows m) (rows m) /\ length b' = rows m /\
  (BadRun m b (rows m) (rows m - 1) \/
   exists (tau : nat -> nat) (H : nat -> nat -> R),
     (forall r, (r < rows m)%nat -> (tau r < rows m)%nat) /\
     (forall r r', (r < rows m)%nat -> (r' < rows m)%nat -> tau r = tau r' -> r = r') /\
     Rel (rows m) (rows m - 1) (aug (rows m) m' b') H /\
     GoodF (S (rows m)) (rows m - 1) (fun r c => aug (rows m) m b (tau r) c) H).
Proof.
  intros W Sq Lb E. set (n := rows m) in *.
  assert (SM : shape m n n) by (split; [exact W|split; [reflexivity|symmetry; exact Sq]]).
  rewrite gauss_unfold in E. fold n in E. apply bind_ok in E as (hi & Eh & E).
  unfold usub in Eh. destruct (Nat.leb_spec 1 n) as [Hn|]; [|discriminate]. injection Eh as <-.
  destruct (for_inv (fun s (st : matrix AR * list R) =>
              for_ 0 s gbody (m, b) = Ok st /\ shape (fst st) n n /\ length (snd st) = n /\
              (BadRun m b n s \/
               exists (tau : nat -> nat) (H : nat -> nat -> R),
                 (forall r, (r < n)%nat -> (tau r < n)%nat) /\
                 (forall r r', (r < n)%nat -> (r' < n)%nat -> tau r = tau r' -> r = r') /\
                 Rel n s (aug n (fst st) (snd st)) H /\
                 GoodF (S n) s (fun r c => aug n m b (tau r) c) H))
            0%nat (n - 1)%nat gbody (m, b)) as ([m2 b2] & E2 & _ & S2 & L2 & G2).
  - lia.
  - cbn [fst snd]. split; [reflexivity|]. split; [exact SM|]. split; [exact Lb|]. right.
    exists (fun r => r), (aug n m b). split; [auto|]. split; [auto|]. split.
    + intros r c _ _ _. reflexivity.
    + apply goodF_0.
  - intros s [m1 b1] Hs (Run & S1 & L1 & G1). cbn [fst snd] in *.
    destruct (gbody_spec m1 b1 n s S1 L1 ltac:(lia)) as (m3 & b3 & E3 & S3 & L3 & G3).
    exists (m3, b3). split; [exact E3|]. cbn [fst snd].
    split; [rewrite for_snoc, Run; exact E3|]. split; [exact S3|]. split; [exact L3|].
    destruct G1 as [(k & mk & bk & Hk & Rk & Zk)|(tau & H & T1 & T2 & RL & GD)].
    + left. exists k, mk, bk. split; [lia|]. split; assumption.
    + destruct G3 as [(p & Hp1 & Hp2 & GE)|Z].
      * right. exists (fun r => tau (tr s p r)), (stepf (fun r c => H (tr s p r) c) s).
        split; [intros r Hr; apply T1; apply tr_lt; lia|]. split.
        { intros r r' Hr Hr' Et. apply T2 in Et; [|apply tr_lt; lia|apply tr_lt; lia].
          rewrite <- (tr_invol s p r), Et. apply tr_invol. }
        split; [apply (rel_step n s p (aug n m1 b1)); auto; lia|].
        apply goodF_step; [lia|].
        apply (goodF_swap fsub fmul fdiv (S n) s p (fun r c => aug n m b (tau r) c) H); [lia|lia|exact GD].
      * left. exists s, m1, b1. split; [lia|]. split; [exact Run|exact Z].
  - rewrite E2 in E. injection E as <- <-. cbn [fst snd] in *.
    split; [exact S2|]. split; [exact L2|]. exact G2.
Qed.

End GaussTrace.
