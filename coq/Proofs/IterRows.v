(* Proofs/IterRows.v -- the hypothesis LinOp of Proofs/IterField.v discharged for EVERY square matrix
   of EVERY order, given as its list of rows: the product  rmul rs v = [ <r, v> | r in rs ]  (each entry
   the code's own dot product, with its size guard) is total and linear on vectors of length n.
   Hence ok_means_solved holds unconditionally for this product (Props/C08.v: ok_means_solved_rows). *)
From Coq Require Import List Arith Lia Bool Ring Field.
From OV Require Import Base.Panic Base.Arith Model.Vector Model.Iter Proofs.Iter Proofs.IterField.
Import ListNotations.

Definition rmul {A : Arith} (rs : list (list A)) (v : list A) : res (list A) := mapM (fun r => dot r v) rs.
(* the textbook product: entry i is  sum_j rs[i][j] * v[j]  (left fold from zero, in index order) *)
Definition rprod {A : Arith} (rs : list (list A)) (v : list A) : list A := map (fun r => dot_raw r v) rs.

Section Rows.
Context {A : SArith}.
Notation F := (T (SA A)).
Variable FL : FieldLaws (SA A).
Add Field FF4 : (fl_field (SA A) FL).

Lemma fold_dot_add (r u v : list F) (a b : F) :
  length u = length r -> length v = length r ->
  fold_left (fun acc p => add acc (mul (fst p) (snd p))) (combine r (zipw add u v)) (add a b) =
  add (fold_left (fun acc p => add acc (mul (fst p) (snd p))) (combine r u) a)
      (fold_left (fun acc p => add acc (mul (fst p) (snd p))) (combine r v) b).
Proof.
  revert u v a b; induction r as [|x r IH]; intros [|y u] [|z v] a b Hu Hv; cbn in *; try discriminate; auto.
  rewrite <- IH by lia. f_equal. ring.
Qed.

Lemma fold_dot_scale (r v : list F) (a c : F) :
  fold_left (fun acc p => add acc (mul (fst p) (snd p))) (combine r (vscale v c)) (mul a c) =
  mul (fold_left (fun acc p => add acc (mul (fst p) (snd p))) (combine r v) a) c.
Proof.
  revert v a; induction r as [|x r IH]; intros [|y v] a; cbn; auto.
  rewrite <- IH. f_equal. ring.
Qed.

Lemma dot_raw_add (r u v : list F) : length u = length r -> length v = length r ->
  dot_raw r (zipw add u v) = add (dot_raw r u) (dot_raw r v).
Proof.
  intros Hu Hv. unfold dot_raw. rewrite <- fold_dot_add by auto. f_equal. ring.
Qed.

Lemma dot_raw_scale (r v : list F) c : dot_raw r (vscale v c) = mul (dot_raw r v) c.
Proof.
  unfold dot_raw. rewrite <- fold_dot_scale. f_equal. ring.
Qed.

Lemma rmul_ok n (rs : list (list F)) (v : list F) :
  Forall (fun r => length r = n) rs -> length v = n -> rmul rs v = Ok (rprod rs v).
Proof.
  intros Hrs Hv. unfold rmul, rprod. induction Hrs as [|r rs Hr _ IH]; cbn; auto.
  unfold dot at 1. rewrite Hr, Hv, Nat.eqb_refl. cbn [bind]. rewrite IH. reflexivity.
Qed.

Lemma rmul_Ok_inv (rs : list (list F)) (v w : list F) : rmul rs v = Ok w -> w = rprod rs v.
Proof.
  unfold rmul, rprod. revert w; induction rs as [|r rs IH]; cbn; intros w E.
  - now injection E as <-.
  - apply bind_ok in E as (d & Ed & E). apply bind_ok in E as (t & Et & E). injection E as <-.
    unfold dot in Ed. destruct (length r =? length v); [|discriminate]. injection Ed as <-.
    f_equal. now apply IH.
Qed.

Lemma rprod_add n (rs : list (list F)) (u v : list F) :
  Forall (fun r => length r = n) rs -> length u = n -> length v = n ->
  rprod rs (zipw add u v) = zipw add (rprod rs u) (rprod rs v).
Proof.
  intros Hrs Hu Hv. unfold rprod. induction Hrs as [|r rs Hr _ IH]; cbn; auto.
  unfold zipw in *. cbn. f_equal; [|exact IH]. apply dot_raw_add; lia.
Qed.

Lemma rprod_scale (rs : list (list F)) (v : list F) c :
  rprod rs (vscale v c) = vscale (rprod rs v) c.
Proof.
  unfold rprod, vscale. rewrite map_map. apply map_ext. intros r. apply dot_raw_scale.
Qed.

Theorem rmul_LinOp n (rs : list (list F)) :
  length rs = n -> Forall (fun r => length r = n) rs -> LinOp n (rmul rs).
Proof.
  intros Hn Hrs. split.
  - intros v Hv. exists (rprod rs v). split; [now apply (rmul_ok n)|]. unfold rprod. now rewrite map_length.
  - intros u v a b Hu Hv Ea Eb.
    rewrite (rmul_ok n) in Ea, Eb by auto. injection Ea as <-. injection Eb as <-.
    rewrite (rmul_ok n) by (auto; rewrite zipw_length; lia). f_equal. now apply (rprod_add n).
  - intros c v a Hv Ea.
    rewrite (rmul_ok n) in Ea by auto. injection Ea as <-.
    rewrite (rmul_ok n) by (auto; now rewrite vscale_length). f_equal. apply rprod_scale.
Qed.

(* every square matrix, every order: Ok k means the true residual b - M x passes the code's test *)
Theorem run_ok_solved_rows n (rs : list (list F)) (mulAT : list F -> res (list F)) cols sv b x0 max tol k x g :
  length rs = n -> Forall (fun r => length r = n) rs ->
  run (rmul rs) mulAT n cols sv b x0 max tol = Ok (IOk k, x, g) ->
  exists resid, div (norm2 (zipw sub b (rprod rs x))) (nz (norm2 b)) = Ok resid /\
                (leb resid tol = true \/ ltb resid tol = true).
Proof.
  intros Hn Hrs H.
  destruct (run_ok_solved FL n (rmul rs) mulAT (rmul_LinOp n rs Hn Hrs) cols sv b x0 max tol k x g H)
    as (ax & resid & Eax & Ed & Ht).
  apply rmul_Ok_inv in Eax as ->. eauto.
Qed.

(* every square matrix, every order: a guess with M x0 = b (entrywise, as b - M x0 = 0) is accepted at once *)
Theorem run_exact_guess_rows (SL : SqrtLaws A) n (rs : list (list F)) (mulAT : list F -> res (list F)) sv b x0 max tol :
  length rs = n -> Forall (fun r => length r = n) rs ->
  (forall itol, sv = BiCG itol -> itol = 1 \/ itol = 2) ->
  length b = n -> length x0 = n -> zipw sub b (rprod rs x0) = repeat zero n ->
  leb zero tol = true ->
  exists g, run (rmul rs) mulAT n n sv b x0 max tol = Ok (IOk 0, x0, g).
Proof.
  intros Hn Hrs Hit Hb Hx Er Htol.
  apply (run_exact_guess FL SL n (rmul rs) mulAT (rmul_LinOp n rs Hn Hrs) sv b x0 max tol (rprod rs x0)); auto.
  now apply (rmul_ok n).
Qed.

End Rows.
