(* Proofs/RootsField.v -- the closed forms of Model/Roots.v over an ABSTRACT FIELD.
   [FieldRA] instantiates the two-sorted arithmetic of the model with RR = KK = a field A
   (FieldLaws A); the libm-backed primitives (complex square root, the power z^(1/3)), the real/imaginary
   parts, conjugation, absolute values, comparisons (hence every sign choice) are ARBITRARY functions
   (Section variables); the only things assumed of them are stated as hypotheses of each lemma:
   [s z * s z = z], [cube (cb z w) = z], [u*u + u + 1 = 0] for the constant the code builds for the
   primitive cube root of unity, and 2 <> 0, 3 <> 0 in A. *)
From Coq Require Import List Arith Bool Lia Ring Field.
From OV Require Import Base.Panic Base.Arith Model.Complex gen.Params Model.Roots.
Import ListNotations.

(* everything of the model's arithmetic that the theorems leave arbitrary *)
Record FieldOps (A : Arith) := {
  f_sqrt : A -> A;              (* Complex::sqrt *)
  f_pow : A -> A -> A;          (* Complex::pow *)
  f_polar : A -> A -> A;        (* Complex::polar *)
  f_mk : A -> A -> A;           (* Cmplx::new *)
  f_conj : A -> A; f_re : A -> A; f_im : A -> A; f_abs : A -> A; f_rabs : A -> A;
  f_rsqrt : A -> A;             (* f64::sqrt *)
  f_max : A -> A -> A; f_eps : A; f_frac : list A }.

Section Field.
Context (A : Arith) (FL : FieldLaws A) (O : FieldOps A).
Notation inv := (fl_inv A FL).
Local Open Scope arith_scope.

Lemma Aft : field_theory (@zero A) one add mul sub neg (fun x y => mul x (inv y)) inv eq.
Proof. exact (fl_field A FL). Qed.
Add Field Afield : Aft.

(* `n as f64`, and the literals 2. 3. 4. 9. 18. 27. : n times one *)
Fixpoint natA (n : nat) : A := match n with 0 => zero | S k => natA k + one end.

Notation s := (f_sqrt A O). Notation cb := (f_pow A O). Notation pol := (f_polar A O).
Notation mk := (f_mk A O). Notation cj := (f_conj A O). Notation re_ := (f_re A O).
Notation im_ := (f_im A O). Notation ab := (f_abs A O). Notation rab := (f_rabs A O).
Notation rsq := (f_rsqrt A O). Notation mx := (f_max A O). Notation eps := (f_eps A O).
Notation fr := (f_frac A O).

Definition FieldRA : RootArith := {|
  RR := {| SA := A; sqrt := rsq; of_nat := natA |};
  KK := A;
  mkk := mk; kre := re_; kim := im_; kabs := ab; kconj := cj;
  kmulr := @mul A; kdivr := @div A;
  rfabs := rab; rmax := mx; rhalf := inv (one + one); reps := eps; rfrac := fr;
  kfinite := fun _ => true; rfinite := fun _ => true;
  osqrt := fun z => Ok (s z); opow := fun z w => Ok (cb z w); opolar := fun r th => Ok (pol r th) |}.

(* ---------- small field facts ---------- *)
Lemma eqb_false_neq (x y : A) : eqb x y = false <-> x <> y.
Proof.
  split.
  - intros E H. apply (fl_eqb A FL) in H. congruence.
  - intros H. destruct (eqb x y) eqn:E; [|reflexivity]. apply (fl_eqb A FL) in E. contradiction.
Qed.

Lemma div_ok (x y : A) : y <> zero -> div x y = Ok (x * inv y).
Proof. intros H. rewrite (fl_div A FL). apply eqb_false_neq in H. now rewrite H. Qed.

Lemma div_Ok_inv (x y z : A) : div x y = Ok z -> y <> zero /\ z = x * inv y.
Proof.
  rewrite (fl_div A FL). destruct (eqb y zero) eqn:E; [discriminate|].
  intros H; injection H as <-. split; [now apply eqb_false_neq | reflexivity].
Qed.

Lemma mul_zero_r (x y : A) : x * y = zero -> x <> zero -> y = zero.
Proof. intros H Hx. transitivity (inv x * (x * y)); [field; exact Hx | rewrite H; ring]. Qed.

Lemma mul_cancel_l (x y z : A) : x <> zero -> x * y = x * z -> y = z.
Proof.
  intros Hx H. assert (E : x * (y - z) = zero) by (transitivity (x * y - x * z); [ring | rewrite H; ring]).
  apply mul_zero_r in E; [|exact Hx]. transitivity ((y - z) + z); [ring | rewrite E; ring].
Qed.

Lemma mul_neq0 (x y : A) : x <> zero -> y <> zero -> x * y <> zero.
Proof. intros Hx Hy H. apply mul_zero_r in H; auto. Qed.

Lemma div_mul_cancel (x y : A) : y <> zero -> x * inv y * y = x.
Proof. intros H. field. exact H. Qed.

Lemma one_neq0 : (one : A) <> zero.
Proof. exact (F_1_neq_0 Aft). Qed.

(* notations, not definitions: `ring` does not see through constants that unfold to ring operations *)
Notation two := (@add A one one).
Notation three := (@add A (@add A one one) one).

Lemma natA2 : natA 2 = two. Proof. cbn [natA]. ring. Qed.
Lemma natA3 : natA 3 = three. Proof. cbn [natA]. ring. Qed.

(* ---------- linear ---------- *)
Lemma linear_root_lemma (c0 c1 : A) refine : c1 <> zero -> refine = false ->
  exists r, poly_solve FieldRA [c0; c1] refine = Ok ([r], []) /\ c1 * r + c0 = zero.
Proof.
  intros H1 ->. exists (- c0 * inv c1). split.
  - unfold poly_solve. cbn [length usub Nat.leb Nat.sub bind Nat.eqb repeat rd nth_error KK FieldRA].
    rewrite (div_ok _ _ H1). reflexivity.
  - field. exact H1.
Qed.

(* ---------- quadratic ---------- *)
(* the algebra: with s*s = b*b - 4ac, e*e = 1 and q = -(b + s e)/2 :  q*q + b*q + a*c = 0 *)
Lemma quad_q_eq (a b c S e h q : A) :
  two <> zero -> h * two = one -> S * S = b * b - (a * (natA 4)) * c -> e * e = one ->
  q = (b + S * e) * (- h) -> q * q + b * q + a * c = zero.
Proof.
  intros H2 Hh HS He Hq.
  assert (H2q : two * q = - (b + S * e)).
  { rewrite Hq. transitivity (- (b + S * e) * (h * two)); [ring | rewrite Hh; ring]. }
  assert (H4 : (two * two) * (q * q + b * q + a * c) = zero).
  { transitivity ((two * q + b) * (two * q + b) - (b * b - (a * (natA 4)) * c)).
    - cbn [natA]. ring.
    - rewrite H2q, <- HS. transitivity (S * S * (e * e - one)); [ring | rewrite He; ring]. }
  apply mul_zero_r in H4; [exact H4 | now apply mul_neq0].
Qed.

Lemma quad_factor (a b c q x : A) : a <> zero -> q <> zero -> q * q + b * q + a * c = zero ->
  a * x * x + b * x + c = a * (x - q * inv a) * (x - c * inv q).
Proof.
  intros Ha Hq H.
  assert (Hc : c = - (q * q + b * q) * inv a).
  { transitivity ((q * q + b * q + a * c - (q * q + b * q)) * inv a); [field; exact Ha | rewrite H; ring]. }
  rewrite Hc. field. split; assumption.
Qed.

Lemma quadratic_factors_lemma (a b c r0 r1 : A) :
  s (b * b - a * natA 4 * c) * s (b * b - a * natA 4 * c) = b * b - a * natA 4 * c ->
  natA 2 <> zero -> a <> zero ->
  quadratic_solve FieldRA a b c = Ok [r0; r1] -> r0 <> zero ->
  forall x, a * x * x + b * x + c = a * (x - r0) * (x - r1).
Proof.
  intros Hs H2 Ha E Hr0 x. rewrite natA2 in H2.
  unfold quadratic_solve, quadratic_solve_gen in E.
  cbn [osqrt FieldRA bind kmulr kre kconj rhalf KK RR SA rlit of_nat andb] in E.
  set (disc := b * b - a * natA 4 * c) in E.
  set (e := if leb zero (re_ (cj b * s disc)) then one else - one) in E.
  set (q := (b + s disc * e) * - inv (one + one)) in E.
  rewrite (div_ok _ _ Ha) in E. cbn [bind] in E.
  assert (He : e * e = one) by (unfold e; destruct (leb _ _); ring).
  assert (Hq : q * q + b * q + a * c = zero).
  { apply (quad_q_eq a b c (s disc) e (inv (one + one)) q); [exact H2 | | apply Hs | exact He | reflexivity].
    field. exact H2. }
  destruct (eqb q zero) eqn:Eq.
  - apply (fl_eqb A FL) in Eq. injection E as E0 E1. exfalso. apply Hr0. rewrite <- E0, Eq. ring.
  - apply eqb_false_neq in Eq. rewrite (div_ok _ _ Eq) in E. cbn [bind] in E.
    injection E as <- <-. now apply quad_factor.
Qed.

(* the repaired branch: b = c = 0 gives q = 0 and the double root 0 (the legacy code divides 0 by 0) *)
Lemma quadratic_q0_lemma (a : A) :
  s zero * s zero = zero -> natA 2 <> zero -> a <> zero ->
  quadratic_solve FieldRA a zero zero = Ok [zero; zero] /\
  quadratic_solve_gen FieldRA false a zero zero = Panic DivZero.
Proof.
  intros Hs H2 Ha. rewrite natA2 in H2.
  unfold quadratic_solve, quadratic_solve_gen.
  cbn [osqrt FieldRA bind kmulr kre kconj rhalf KK RR SA rlit of_nat andb].
  set (disc := zero * zero - a * natA 4 * zero).
  assert (Hd : disc = zero) by (unfold disc; ring).
  assert (Hs0 : s disc = zero).
  { rewrite Hd in *. destruct (eqb (s zero) zero) eqn:E0.
    - now apply (fl_eqb A FL).
    - apply eqb_false_neq in E0. apply mul_zero_r in Hs; [exact Hs | exact E0]. }
  set (e := if leb zero (re_ (cj zero * s disc)) then one else - one).
  assert (Hq : (zero + s disc * e) * - inv (one + one) = zero) by (rewrite Hs0; ring).
  rewrite Hq. rewrite (div_ok _ _ Ha). cbn [bind].
  assert (Ez : eqb (zero : A) zero = true) by now apply (fl_eqb A FL).
  rewrite Ez. rewrite (fl_div A FL), Ez.
  replace (zero * inv a) with (zero : A) by ring. split; reflexivity.
Qed.

(* never panics on a nonzero leading coefficient (thanks to the repaired branch) *)
Lemma quadratic_total_lemma (a b c : A) : a <> zero ->
  exists r0 r1, quadratic_solve FieldRA a b c = Ok [r0; r1].
Proof.
  intros Ha. unfold quadratic_solve, quadratic_solve_gen.
  cbn [osqrt FieldRA bind kmulr kre kconj rhalf KK RR SA rlit of_nat andb].
  rewrite (div_ok _ _ Ha). cbn [bind].
  match goal with |- context [eqb ?q zero] => destruct (eqb q zero) eqn:Eq end.
  - do 2 eexists; reflexivity.
  - apply eqb_false_neq in Eq. rewrite (div_ok _ _ Eq). cbn [bind]. do 2 eexists; reflexivity.
Qed.


(* ---------- cubic ---------- *)
Definition cube (z : A) : A := z * z * z.

(* (t + y0)(t + y1)(t + y2) for the three Cardano combinations, u a primitive cube root of unity *)
Lemma cardano_sym (u k q t : A) : u * u + u + one = zero ->
  (t + (k + q)) * (t + (u * k + u * u * q)) * (t + (u * u * k + u * q)) =
  t * t * t - three * (k * q) * t + (cube k + cube q).
Proof.
  intros Hu. unfold cube.
  assert (E : (t + (k + q)) * (t + (u * k + u * u * q)) * (t + (u * u * k + u * q))
              - (t * t * t - (one + one + one) * (k * q) * t + (k * k * k + q * q * q))
            = (u * u + u + one) *
              (k*k*k*u - k*k*k + k*k*q*(u*u) + k*k*t*u + k*(q*q)*(u*u) + k*q*t*(u*u) - k*q*t*u
               + (one+one+one)*(k*q*t) + k*(t*t) + q*q*q*u - q*q*q + q*q*t*u + q*(t*t))) by ring.
  rewrite Hu in E.
  transitivity (((t + (k + q)) * (t + (u * k + u * u * q)) * (t + (u * u * k + u * q))
              - (t * t * t - (one + one + one) * (k * q) * t + (k * k * k + q * q * q)))
              + (t * t * t - (one + one + one) * (k * q) * t + (k * k * k + q * q * q))); [ring|].
  rewrite E. ring.
Qed.

Lemma cardano (a b c d x k u q0 q1 q2 r0 r1 r2 sq e d0 d1 : A) :
  a <> zero -> two <> zero -> three <> zero ->
  d0 = b * b - three * a * c ->
  d1 = two * (b * b * b) - three * three * a * b * c + three * three * three * (a * a) * d ->
  sq * sq = d1 * d1 - two * two * cube d0 -> e * e = one -> two * cube k = d1 + e * sq ->
  k <> zero -> u * u + u + one = zero ->
  q0 * k = d0 -> q1 * (u * k) = d0 -> q2 * (u * u * k) = d0 ->
  r0 * (three * a) = - (b + k + q0) -> r1 * (three * a) = - (b + u * k + q1) ->
  r2 * (three * a) = - (b + u * u * k + q2) ->
  a * x * x * x + b * x * x + c * x + d = a * (x - r0) * (x - r1) * (x - r2).
Proof.
  intros Ha H2 H3 Hd0 Hd1 Hsq He Hk3 Hk Hu Hq0 Hq1 Hq2 Hr0 Hr1 Hr2.
  (* 1. k^6 - d1 k^3 + d0^3 = 0 *)
  assert (Hk6 : cube k * cube k - d1 * cube k + cube d0 = zero).
  { assert (H4 : (two * two) * (cube k * cube k - d1 * cube k + cube d0) = zero).
    { transitivity ((two * cube k - d1) * (two * cube k - d1) - (d1 * d1 - two * two * cube d0)); [ring|].
      rewrite Hk3, <- Hsq. transitivity (sq * sq * (e * e - one)); [ring | rewrite He; ring]. }
    apply mul_zero_r in H4; [exact H4 | now apply mul_neq0]. }
  (* 2. u^3 = 1, u <> 0 *)
  assert (Hu3 : u * u * u = one).
  { transitivity ((u - one) * (u * u + u + one) + one); [ring | rewrite Hu; ring]. }
  assert (Hu0 : u <> zero).
  { intros E. apply one_neq0. rewrite <- Hu3, E. ring. }
  (* 3. q1 = u u q0 ; q2 = u q0 *)
  assert (Hq1' : q1 = u * u * q0).
  { assert (E : q1 * u = q0).
    { apply (mul_cancel_l k); [exact Hk|]. transitivity (q1 * (u * k)); [ring|]. rewrite Hq1, <- Hq0. ring. }
    transitivity (q1 * (u * u * u)); [rewrite Hu3; ring|]. rewrite <- E. ring. }
  assert (Hq2' : q2 = u * q0).
  { assert (E : q2 * (u * u) = q0).
    { apply (mul_cancel_l k); [exact Hk|]. transitivity (q2 * (u * u * k)); [ring|]. rewrite Hq2, <- Hq0. ring. }
    transitivity (q2 * (u * u * u)); [rewrite Hu3; ring|]. rewrite <- E. ring. }
  (* 5. k^3 + q0^3 = d1 *)
  assert (Hk30 : cube k <> zero) by (unfold cube; repeat apply mul_neq0; exact Hk).
  assert (Hs3 : cube k + cube q0 = d1).
  { apply (mul_cancel_l (cube k)); [exact Hk30|].
    transitivity (cube k * cube k + cube (q0 * k)); [unfold cube; ring|]. rewrite Hq0.
    transitivity ((cube k * cube k - d1 * cube k + cube d0) + d1 * cube k); [ring | rewrite Hk6; ring]. }
  (* 4,6. the product of the three shifted factors *)
  set (t := three * a * x + b).
  assert (Hprod : (t + (k + q0)) * (t + (u * k + q1)) * (t + (u * u * k + q2)) = t * t * t - three * d0 * t + d1).
  { rewrite Hq1', Hq2'. rewrite (cardano_sym u k q0 t Hu). rewrite Hs3.
    replace (k * q0) with d0 by (rewrite <- Hq0; ring). ring. }
  (* 7. t^3 - 3 d0 t + d1 = 27 a^2 p(x) *)
  assert (Hp : t * t * t - three * d0 * t + d1
               = three * three * three * (a * a) * (a * x * x * x + b * x * x + c * x + d)).
  { unfold t. rewrite Hd0, Hd1. ring. }
  (* 8. (3a)(x - r_j) = t + y_j *)
  assert (E0 : three * a * (x - r0) = t + (k + q0)).
  { transitivity (three * a * x - r0 * (three * a)); [ring | rewrite Hr0; unfold t; ring]. }
  assert (E1 : three * a * (x - r1) = t + (u * k + q1)).
  { transitivity (three * a * x - r1 * (three * a)); [ring | rewrite Hr1; unfold t; ring]. }
  assert (E2 : three * a * (x - r2) = t + (u * u * k + q2)).
  { transitivity (three * a * x - r2 * (three * a)); [ring | rewrite Hr2; unfold t; ring]. }
  apply (mul_cancel_l (three * three * three * (a * a))).
  { repeat apply mul_neq0; assumption. }
  rewrite <- Hp, <- Hprod, <- E0, <- E1, <- E2. ring.
Qed.

(* triple root: d0 = d1 = 0 *)
Lemma cardano_triple (a b c d x r : A) :
  a <> zero -> three <> zero ->
  b * b - three * a * c = zero ->
  two * (b * b * b) - three * three * a * b * c + three * three * three * (a * a) * d = zero ->
  r * (three * a) = - b ->
  a * x * x * x + b * x * x + c * x + d = a * (x - r) * (x - r) * (x - r).
Proof.
  intros Ha H3 Hd0 Hd1 Hr.
  set (t := three * a * x + b).
  assert (E : three * a * (x - r) = t).
  { transitivity (three * a * x - r * (three * a)); [ring | rewrite Hr; unfold t; ring]. }
  apply (mul_cancel_l (three * three * three * (a * a))).
  { repeat apply mul_neq0; assumption. }
  transitivity (t * t * t - three * (b * b - three * a * c) * t
                + (two * (b * b * b) - three * three * a * b * c + three * three * three * (a * a) * d)).
  { unfold t. ring. }
  rewrite Hd0, Hd1, <- E. ring.
Qed.

(* the model's constants in product form *)
Lemma natA4 : natA 4 = two * two. Proof. cbn [natA]. ring. Qed.
Lemma natA9 : natA 9 = three * three. Proof. cbn [natA]. ring. Qed.
Lemma natA18 : natA 18 = two * (three * three). Proof. cbn [natA]. ring. Qed.
Lemma natA27 : natA 27 = three * three * three. Proof. cbn [natA]. ring. Qed.

Lemma cubic_disc_spec (a b c d : A) :
  let d0 := b * b - three * a * c in
  let d1 := two * (b * b * b) - three * three * a * b * c + three * three * three * (a * a) * d in
  exists rad, cubic_disc FieldRA a b c d = (d0, d1, rad) /\ rad = d1 * d1 - two * two * cube d0.
Proof.
  intros d0 d1. unfold cubic_disc. cbn [kmulr FieldRA KK RR SA rlit of_nat].
  rewrite natA3, natA4, natA9, natA18, natA27, natA2.
  eexists. split.
  - apply f_equal2; [apply f_equal2|]; [unfold d0; ring | unfold d1; ring | reflexivity].
  - unfold d0, d1, cube. ring.
Qed.

(* the radicand and the `base` whose cube root the code takes, as the model computes them *)
Definition cubic_rad (a b c d : A) : A := snd (cubic_disc FieldRA a b c d).
Definition cubic_base (cs : bool) (a b c d : A) : A :=
  let d1 := snd (fst (cubic_disc FieldRA a b c d)) in
  let sq := s (cubic_rad a b c d) in
  (if cubic_minus FieldRA cs d1 sq then d1 - sq else d1 + sq) * inv (natA 2).

Lemma cubic_factors_lemma (cs : bool) (a b c d r0 r1 r2 : A) :
  s (cubic_rad a b c d) * s (cubic_rad a b c d) = cubic_rad a b c d ->
  cube (cb (cubic_base cs a b c d) (mk (one * inv (natA 3)) zero)) = cubic_base cs a b c d ->
  (let u := mk (- inv (one + one)) (rsq (natA 3) * inv (natA 2)) in u * u + u + one = zero) ->
  natA 2 <> zero -> natA 3 <> zero -> a <> zero ->
  cubic_solve_gen FieldRA cs a b c d = Ok [r0; r1; r2] ->
  forall x, a * x * x * x + b * x * x + c * x + d = a * (x - r0) * (x - r1) * (x - r2).
Proof.
  intros Hs Hcb Hu H2 H3 Ha E x.
  unfold cubic_solve_gen in E.
  destruct (cubic_disc_spec a b c d) as (rad & Ed & Hrad). cbv zeta in Ed, Hrad.
  rewrite Ed in E.
  unfold cubic_base, cubic_rad in Hs, Hcb. rewrite Ed in Hs, Hcb. cbn [fst snd] in Hs, Hcb. clear Ed.
  set (d0 := b * b - three * a * c) in *.
  set (d1 := two * (b * b * b) - three * three * a * b * c + three * three * three * (a * a) * d) in *.
  cbn [kmulr FieldRA KK RR SA rlit of_nat kdivr osqrt opow mkk rhalf sqrt bind kre kconj] in E.
  pose proof H2 as H2'. pose proof H3 as H3'. rewrite natA2 in H2'. rewrite natA3 in H3'.
  assert (H3a : a * natA 3 <> zero) by (apply mul_neq0; assumption).
  assert (H3n : zero + one + one + one <> (zero : A)) by exact H3.
  assert (H2n : zero + one + one <> (zero : A)) by exact H2.
  destruct (eqb d0 zero && eqb d1 zero) eqn:Et.
  - (* triple root *)
    apply andb_prop in Et as (E0 & E1). apply (fl_eqb A FL) in E0, E1.
    rewrite (div_ok _ _ H3a) in E. cbn [bind] in E. injection E as <- <- <-.
    apply cardano_triple; auto.
    replace (three * a) with (a * (zero + one + one + one)) by ring. now apply div_mul_cancel.
  - clear Et.
    set (sq := s rad) in E.
    set (minus := cubic_minus FieldRA cs d1 sq) in E.
    rewrite (div_ok _ _ H2) in E. cbn [bind] in E.
    rewrite (div_ok _ _ H3) in E. cbn [bind] in E.
    set (base := (if minus then d1 - sq else d1 + sq) * inv (natA 2)) in E.
    set (k := cb base (mk (one * inv (natA 3)) zero)) in E.
    apply bind_ok in E as (q0 & Eq0 & E). apply div_Ok_inv in Eq0 as (Hk & Hq0).
    rewrite (div_ok _ _ H3a) in E. cbn [bind] in E.
    rewrite (div_ok _ _ H2) in E. cbn [bind] in E.
    set (u := mk (- inv (one + one)) (rsq (natA 3) * inv (natA 2))) in *.
    apply bind_ok in E as (q1 & Eq1 & E). apply div_Ok_inv in Eq1 as (Huk & Hq1).
    rewrite (div_ok _ _ H3a) in E. cbn [bind] in E.
    apply bind_ok in E as (q2 & Eq2 & E). apply div_Ok_inv in Eq2 as (Huuk & Hq2).
    rewrite (div_ok _ _ H3a) in E. cbn [bind] in E.
    injection E as <- <- <-.
    set (e := if minus then - one else one : A).
    assert (He : e * e = one) by (unfold e; destruct minus; ring).
    assert (Hk3 : two * cube k = d1 + e * sq).
    { rewrite (Hcb : cube k = base).
      unfold base, e. rewrite natA2. destruct minus; field; exact H2'. }
    apply (cardano a b c d x k u q0 q1 q2 _ _ _ sq e d0 d1); auto.
    + rewrite <- Hrad. exact Hs.
    + rewrite Hq0. now apply div_mul_cancel.
    + rewrite Hq1. now apply div_mul_cancel.
    + rewrite Hq2. now apply div_mul_cancel.
    + replace (three * a) with (a * (zero + one + one + one)) by ring. now apply div_mul_cancel.
    + replace (three * a) with (a * (zero + one + one + one)) by ring. now apply div_mul_cancel.
    + replace (three * a) with (a * (zero + one + one + one)) by ring. now apply div_mul_cancel.
Qed.

End Field.
