(* Proofs/VectorR.v -- the real-number instance of the vector model (C15, P2): the norm laws
   (non-negativity, homogeneity, triangle inequality, norm_inf <= norm_2 <= norm_1) for the very definitions
   of Model/Vector.v instantiated at R, and strict monotonicity of linspace.  Over R the inherent f64::abs
   and Signed::abs are both Rabs. *)
From Coq Require Import Reals Lra Lia List Psatz Arith.
From OV Require Import Base.Panic Base.Arith Model.Complex Model.Vector Proofs.Vector.
Import ListNotations.
Local Open Scope R_scope.

(* ------------------------------------------------------------------ the instance *)
Definition R_eqb (x y : R) : bool := if Req_EM_T x y then true else false.
Definition R_ltb (x y : R) : bool := if Rlt_dec x y then true else false.
Definition R_leb (x y : R) : bool := if Rle_dec x y then true else false.
Definition R_div (x y : R) : res R := if R_eqb y 0 then Panic DivZero else Ok (x * / y).

Definition AR : Arith := {|
  T := R; zero := 0; one := 1; add := Rplus; sub := Rminus; mul := Rmult; neg := Ropp;
  abs := Rabs; div := R_div; eqb := R_eqb; ltb := R_ltb; leb := R_leb |}.
Definition SAR : SArith := {| SA := AR; sqrt := R_sqrt.sqrt; of_nat := INR |}.

Lemma AR_field : field_theory (@zero AR) one add mul sub neg (fun x y => mul x (Rinv y)) Rinv eq.
Proof. exact Rfield. Qed.

Definition AR_FieldLaws : FieldLaws AR.
Proof.
  refine {| fl_inv := Rinv : AR -> AR; fl_field := AR_field |}.
  - intros x y. unfold eqb; cbn. unfold R_eqb. destruct (Req_EM_T x y); split; auto; discriminate.
  - intros x y. reflexivity.
Defined.

Lemma AR_RingLaws : RingLaws AR.
Proof. constructor. exact RTheory. Qed.

Lemma SAR_OfNatLaws : OfNatLaws SAR.
Proof.
  constructor.
  - reflexivity.
  - intros n. exact (S_INR n).
  - intros n. change (INR (S n) <> 0). apply not_0_INR. lia.
Qed.

(* ------------------------------------------------------------------ sums *)
Fixpoint Rsum (l : list R) : R := match l with [] => 0 | x :: t => x + Rsum t end.

Lemma fold_add_shift (f : R -> R) (l : list R) z :
  fold_left (fun acc x => acc + f x) l z = z + Rsum (map f l).
Proof.
  revert z; induction l as [|x t IH]; intros z; cbn [fold_left map Rsum]; [lra|]. rewrite IH. lra.
Qed.

Lemma Rsum_nonneg (l : list R) : (forall x, In x l -> 0 <= x) -> 0 <= Rsum l.
Proof.
  induction l as [|x t IH]; intros H; cbn; [lra|].
  assert (0 <= x) by (apply H; now left). assert (0 <= Rsum t) by (apply IH; intros; apply H; now right). lra.
Qed.

Lemma Rsum_in_le (l : list R) y : (forall x, In x l -> 0 <= x) -> In y l -> y <= Rsum l.
Proof.
  induction l as [|x t IH]; intros H Hy; [contradiction|]. cbn.
  assert (0 <= x) by (apply H; now left).
  assert (0 <= Rsum t) by (apply Rsum_nonneg; intros; apply H; now right).
  destruct Hy as [->|Hy]; [lra|]. assert (y <= Rsum t) by (apply IH; auto; intros; apply H; now right). lra.
Qed.

Definition sumabs (v : list R) : R := Rsum (map Rabs v).
Definition sumsq (v : list R) : R := Rsum (map (fun x => x * x) v).

Lemma abs_sq (x : R) : Rabs x * Rabs x = x * x.
Proof. rewrite <- Rabs_mult. apply Rabs_pos_eq. nra. Qed.

Lemma norm_1_R (v : list R) : norm_1 (A := AR) v = sumabs v.
Proof. unfold norm_1, sumabs. cbn. rewrite (fold_add_shift Rabs). lra. Qed.

Lemma norm_2_R (v : list R) : norm_2 (F := SAR) Rabs v = R_sqrt.sqrt (sumsq v).
Proof.
  unfold norm_2, sumsq. cbn. rewrite (fold_add_shift (fun x => Rabs x * Rabs x)). f_equal.
  rewrite Rplus_0_l. f_equal. apply map_ext. intros x. apply abs_sq.
Qed.

Lemma sumabs_nonneg v : 0 <= sumabs v.
Proof. apply Rsum_nonneg. intros x Hx. apply in_map_iff in Hx as (y & <- & _). apply Rabs_pos. Qed.

Lemma sumsq_nonneg v : 0 <= sumsq v.
Proof. apply Rsum_nonneg. intros x Hx. apply in_map_iff in Hx as (y & <- & _). nra. Qed.

(* ------------------------------------------------------------------ norm_1 *)
Lemma norm1_nonneg_lemma (v : list R) : 0 <= norm_1 (A := AR) v.
Proof. rewrite norm_1_R. apply sumabs_nonneg. Qed.

Lemma sumabs_scale v c : sumabs (vscale (A := AR) v c) = Rabs c * sumabs v.
Proof.
  unfold sumabs, vscale. induction v as [|x t IH]; cbn [map Rsum]; [lra|].
  rewrite IH. cbn. rewrite Rabs_mult. lra.
Qed.

Lemma norm1_homog_lemma (v : list R) c : norm_1 (A := AR) (vscale (A := AR) v c) = Rabs c * norm_1 (A := AR) v.
Proof. rewrite !norm_1_R. apply sumabs_scale. Qed.

Lemma zipw_cons (f : R -> R -> R) x u y v : zipw (A := AR) f (x :: u) (y :: v) = f x y :: zipw (A := AR) f u v.
Proof. reflexivity. Qed.

Lemma sumabs_add u v : length u = length v -> sumabs (zipw (A := AR) Rplus u v) <= sumabs u + sumabs v.
Proof.
  revert v; induction u as [|x u IH]; intros [|y v] H; cbn in H; try discriminate.
  - unfold sumabs; cbn. lra.
  - rewrite zipw_cons. unfold sumabs in *. cbn [map Rsum].
    injection H as H. specialize (IH v H). pose proof (Rabs_triang x y). lra.
Qed.

Lemma vadd_R_inv (u v s : list R) : vadd (A := AR) u v = Ok s -> length u = length v /\ s = zipw (A := AR) Rplus u v.
Proof. exact (vadd_inv (A := AR) u v s). Qed.

Lemma norm1_triangle_lemma (u v s : list R) : vadd (A := AR) u v = Ok s ->
  norm_1 (A := AR) s <= norm_1 (A := AR) u + norm_1 (A := AR) v.
Proof. intros E. apply vadd_R_inv in E as [L ->]. rewrite !norm_1_R. now apply sumabs_add. Qed.

(* ------------------------------------------------------------------ norm_2 (Cauchy-Schwarz) *)
Lemma norm2_nonneg_lemma (v : list R) : 0 <= norm_2 (F := SAR) Rabs v.
Proof. rewrite norm_2_R. apply sqrt_pos. Qed.

Lemma sumsq_scale v c : sumsq (vscale (A := AR) v c) = (c * c) * sumsq v.
Proof.
  unfold sumsq, vscale. induction v as [|x t IH]; cbn [map Rsum]; [lra|]. rewrite IH. cbn. lra.
Qed.

Lemma norm2_homog_lemma (v : list R) c :
  norm_2 (F := SAR) Rabs (vscale (A := AR) v c) = Rabs c * norm_2 (F := SAR) Rabs v.
Proof.
  rewrite !norm_2_R, sumsq_scale. rewrite sqrt_mult; [|nra|apply sumsq_nonneg].
  f_equal. change (c * c) with (Rsqr c). apply sqrt_Rsqr_abs.
Qed.

Fixpoint dotR (u v : list R) : R :=
  match u, v with x :: u', y :: v' => x * y + dotR u' v' | _, _ => 0 end.

Lemma sumsq_cons x u : sumsq (x :: u) = x * x + sumsq u.
Proof. reflexivity. Qed.
Lemma sumsq_nil : sumsq [] = 0.
Proof. reflexivity. Qed.

Lemma cs_step (A B C x y : R) : 0 <= A -> 0 <= B -> C * C <= A * B ->
  (x * y + C) * (x * y + C) <= (x * x + A) * (y * y + B).
Proof.
  intros HA HB IH.
  (* 2 C x y <= A y^2 + B x^2 *)
  assert (Hk : 2 * C * (x * y) <= A * (y * y) + B * (x * x)).
  { destruct (Req_dec A 0) as [HA0|HA0].
    - subst A. assert (HC : C * C <= 0) by lra. pose proof (Rle_0_sqr C) as H0. unfold Rsqr in H0.
      assert (C * C = 0) by lra. assert (C = 0) by (apply Rsqr_0_uniq; exact H). subst C.
      pose proof (Rle_0_sqr x) as Hx. unfold Rsqr in Hx. nra.
    - assert (HA1 : 0 < A) by lra.
      assert (Hm : 0 <= A * (A * (y * y) + B * (x * x) - 2 * C * (x * y))).
      { replace (A * (A * (y * y) + B * (x * x) - 2 * C * (x * y)))
          with ((A * y - C * x) * (A * y - C * x) + (A * B - C * C) * (x * x)) by ring.
        pose proof (Rle_0_sqr (A * y - C * x)) as H1. unfold Rsqr in H1.
        pose proof (Rle_0_sqr x) as H2. unfold Rsqr in H2.
        assert (0 <= (A * B - C * C) * (x * x)) by (apply Rmult_le_pos; lra). lra. }
      assert (0 <= A * (y * y) + B * (x * x) - 2 * C * (x * y)).
      { apply (Rmult_le_reg_l A); [exact HA1|]. lra. }
      lra. }
  replace ((x * y + C) * (x * y + C)) with (x * x * (y * y) + 2 * C * (x * y) + C * C) by ring.
  replace ((x * x + A) * (y * y + B)) with (x * x * (y * y) + (A * (y * y) + B * (x * x)) + A * B) by ring.
  lra.
Qed.

Lemma cauchy_schwarz (u v : list R) : dotR u v * dotR u v <= sumsq u * sumsq v.
Proof.
  revert v; induction u as [|x u IH]; intros [|y v]; cbn [dotR].
  - rewrite sumsq_nil. lra.
  - rewrite sumsq_nil. lra.
  - rewrite sumsq_nil. lra.
  - rewrite !sumsq_cons. apply cs_step; [apply sumsq_nonneg|apply sumsq_nonneg|apply IH].
Qed.

Lemma sumsq_add u v : length u = length v ->
  sumsq (zipw (A := AR) Rplus u v) = sumsq u + 2 * dotR u v + sumsq v.
Proof.
  revert v; induction u as [|x u IH]; intros [|y v] H; cbn in H; try discriminate.
  - unfold sumsq; cbn. lra.
  - rewrite zipw_cons. unfold sumsq in *. cbn [map Rsum dotR]. injection H as H. rewrite (IH v H). lra.
Qed.

Lemma norm2_triangle_lemma (u v s : list R) : vadd (A := AR) u v = Ok s ->
  norm_2 (F := SAR) Rabs s <= norm_2 (F := SAR) Rabs u + norm_2 (F := SAR) Rabs v.
Proof.
  intros E. apply vadd_R_inv in E as [L ->]. rewrite !norm_2_R, sumsq_add by exact L.
  pose proof (sumsq_nonneg u) as HA. pose proof (sumsq_nonneg v) as HB.
  pose proof (cauchy_schwarz u v) as CS.
  set (A := sumsq u) in *. set (B := sumsq v) in *. set (C := dotR u v) in *.
  pose proof (sqrt_pos A) as HP. pose proof (sqrt_pos B) as HQ.
  pose proof (sqrt_sqrt A HA) as EP. pose proof (sqrt_sqrt B HB) as EQ.
  set (P := R_sqrt.sqrt A) in *. set (Q := R_sqrt.sqrt B) in *.
  assert (HC : C <= P * Q).
  { destruct (Rle_dec C (P * Q)) as [|Hn]; auto. exfalso.
    assert (P * Q < C) by lra. assert (0 <= P * Q) by nra.
    assert ((P * Q) * (P * Q) < C * C) by nra.
    replace ((P * Q) * (P * Q)) with ((P * P) * (Q * Q)) in * by ring. rewrite EP, EQ in *. lra. }
  rewrite <- (sqrt_square (P + Q)) by lra.
  apply sqrt_le_1_alt. nra.
Qed.

(* ------------------------------------------------------------------ norm_inf *)
Definition maxl (r : R) (l : list R) : R := fold_left Rmax l r.

Lemma ltb_step_max (r y : R) : (if @ltb AR r y then y else r) = Rmax r y.
Proof.
  cbn. unfold R_ltb, Rmax. destruct (Rlt_dec r y), (Rle_dec r y); auto; lra.
Qed.

Lemma fold_ltb_max (l : list R) r :
  fold_left (fun r x => if @ltb AR r (Rabs x) then Rabs x else r) l r = maxl r (map Rabs l).
Proof.
  unfold maxl. revert r; induction l as [|x t IH]; intros r; cbn [fold_left map]; auto.
  rewrite ltb_step_max. apply IH.
Qed.

Lemma norm_inf_R (x0 : R) (t : list R) :
  norm_inf (F := SAR) Rabs (x0 :: t) = Ok (maxl (Rabs x0) (map Rabs t)).
Proof. unfold norm_inf. cbn [rd nth_error bind skipn]. f_equal. apply fold_ltb_max. Qed.

Lemma norm_inf_R_nil : norm_inf (F := SAR) Rabs [] = Panic Index.
Proof. reflexivity. Qed.

Lemma maxl_ge_init r l : r <= maxl r l.
Proof.
  unfold maxl. revert r; induction l as [|y t IH]; intros r; cbn; [lra|].
  pose proof (IH (Rmax r y)). pose proof (Rmax_l r y). lra.
Qed.

Lemma maxl_ge_in r l y : In y l -> y <= maxl r l.
Proof.
  unfold maxl. revert r; induction l as [|z t IH]; intros r H; [contradiction|]. cbn.
  destruct H as [->|H].
  - pose proof (maxl_ge_init (Rmax r y) t). unfold maxl in *. pose proof (Rmax_r r y). lra.
  - now apply IH.
Qed.

Lemma maxl_attained r l : maxl r l = r \/ In (maxl r l) l.
Proof.
  unfold maxl. revert r; induction l as [|z t IH]; intros r; cbn; auto.
  destruct (IH (Rmax r z)) as [E|E].
  - rewrite E. unfold Rmax. destruct (Rle_dec r z); auto.
  - auto.
Qed.

Lemma maxl_le_bound r l B : r <= B -> (forall y, In y l -> y <= B) -> maxl r l <= B.
Proof.
  intros Hr Hl. destruct (maxl_attained r l) as [->|H]; auto.
Qed.

Lemma maxl_scale k r l : 0 <= k -> maxl (k * r) (map (fun y => k * y) l) = k * maxl r l.
Proof.
  intros Hk. unfold maxl. revert r; induction l as [|y t IH]; intros r; cbn; auto.
  rewrite RmaxRmult by exact Hk. apply IH.
Qed.

Lemma norm_inf_nonneg_lemma (v : list R) m : norm_inf (F := SAR) Rabs v = Ok m -> 0 <= m.
Proof.
  destruct v as [|x0 t]; [discriminate|]. rewrite norm_inf_R. intros E; injection E as <-.
  pose proof (maxl_ge_init (Rabs x0) (map Rabs t)). pose proof (Rabs_pos x0). lra.
Qed.

Lemma norm_inf_homog_lemma (v : list R) c m : norm_inf (F := SAR) Rabs v = Ok m ->
  norm_inf (F := SAR) Rabs (vscale (A := AR) v c) = Ok (Rabs c * m).
Proof.
  destruct v as [|x0 t]; [discriminate|]. rewrite norm_inf_R. intros E; injection E as <-.
  unfold vscale. cbn [map]. rewrite norm_inf_R. f_equal.
  rewrite <- maxl_scale by apply Rabs_pos. f_equal.
  - cbn. rewrite Rabs_mult. lra.
  - rewrite !map_map. apply map_ext. intros x. cbn. rewrite Rabs_mult. lra.
Qed.

Lemma in_zipw_add (u v : list R) z : In z (zipw (A := AR) Rplus u v) -> exists x y, In x u /\ In y v /\ z = x + y.
Proof.
  unfold zipw. intros H. apply in_map_iff in H as ([x y] & <- & Hin).
  exists x, y. split; [eapply in_combine_l; eauto|]. split; [eapply in_combine_r; eauto|reflexivity].
Qed.

Lemma norm_inf_triangle_lemma (u v s : list R) a b : vadd (A := AR) u v = Ok s ->
  norm_inf (F := SAR) Rabs u = Ok a -> norm_inf (F := SAR) Rabs v = Ok b ->
  exists m, norm_inf (F := SAR) Rabs s = Ok m /\ m <= a + b.
Proof.
  intros E Ea Eb. apply vadd_R_inv in E as [L ->].
  destruct u as [|x0 tu]; [discriminate|]. destruct v as [|y0 tv]; [discriminate|].
  rewrite norm_inf_R in Ea, Eb. injection Ea as <-. injection Eb as <-.
  rewrite zipw_cons, norm_inf_R. eexists; split; [reflexivity|].
  pose proof (maxl_ge_init (Rabs x0) (map Rabs tu)) as Hx0.
  pose proof (maxl_ge_init (Rabs y0) (map Rabs tv)) as Hy0.
  apply maxl_le_bound.
  - pose proof (Rabs_triang x0 y0). cbn. lra.
  - intros z Hz. apply in_map_iff in Hz as (w & <- & Hw). apply in_zipw_add in Hw as (x & y & Hx & Hy & ->).
    pose proof (Rabs_triang x y).
    pose proof (maxl_ge_in (Rabs x0) (map Rabs tu) (Rabs x) (in_map Rabs _ _ Hx)).
    pose proof (maxl_ge_in (Rabs y0) (map Rabs tv) (Rabs y) (in_map Rabs _ _ Hy)). lra.
Qed.

(* ------------------------------------------------------------------ the chain *)
Lemma sumsq_le_sumabs_sq v : sumsq v <= sumabs v * sumabs v.
Proof.
  induction v as [|x t IH]; unfold sumsq, sumabs in *; cbn [map Rsum]; [lra|].
  fold (sumabs t) in *. pose proof (sumabs_nonneg t). pose proof (Rabs_pos x). pose proof (abs_sq x).
  unfold sumabs in *. nra.
Qed.

Lemma norm_chain_lemma (v : list R) : v <> [] ->
  exists m, norm_inf (F := SAR) Rabs v = Ok m /\
            m <= norm_2 (F := SAR) Rabs v /\ norm_2 (F := SAR) Rabs v <= norm_1 (A := AR) v.
Proof.
  intros Hne. destruct v as [|x0 t]; [congruence|]. rewrite norm_inf_R. eexists; split; [reflexivity|].
  rewrite norm_2_R, norm_1_R. split.
  - (* the maximum is |x_k| for some k, and x_k^2 <= sum of squares *)
    assert (Hin : In (maxl (Rabs x0) (map Rabs t)) (map Rabs (x0 :: t))).
    { destruct (maxl_attained (Rabs x0) (map Rabs t)) as [->|H]; [now left|now right]. }
    apply in_map_iff in Hin as (xk & <- & Hk).
    rewrite <- (sqrt_Rsqr_abs xk). apply sqrt_le_1_alt. unfold Rsqr.
    apply Rsum_in_le.
    + intros y Hy. apply in_map_iff in Hy as (w & <- & _). nra.
    + apply in_map_iff. exists xk. auto.
  - rewrite <- (sqrt_square (sumabs (x0 :: t))) by apply sumabs_nonneg.
    apply sqrt_le_1_alt. apply sumsq_le_sumabs_sq.
Qed.

(* ------------------------------------------------------------------ linspace over R *)
Lemma nth_map_seq {X} (f : nat -> X) n i d : (i < n)%nat -> nth i (map f (seq 0 n)) d = f i.
Proof.
  intros H. rewrite (nth_indep _ d (f 0%nat)) by (now rewrite map_length, seq_length).
  rewrite map_nth. now rewrite seq_nth.
Qed.

Lemma linspace_ends_R (a b : R) n : (2 <= n)%nat ->
  exists l, linspace (F := SAR) a b n = Ok l /\ length l = n /\ hd 0 l = a /\ last l 0 = b.
Proof. intros H. exact (linspace_ends_lemma (F := SAR) AR_FieldLaws SAR_OfNatLaws a b n H). Qed.

Lemma linspace_monotone_lemma (a b : R) n : a < b -> (2 <= n)%nat ->
  exists l, linspace (F := SAR) a b n = Ok l /\ length l = n /\
            forall i j, (i < j < n)%nat -> nth i l 0 < nth j l 0.
Proof.
  intros Hab Hn. rewrite (linspace_ok (F := SAR) AR_FieldLaws SAR_OfNatLaws a b n Hn).
  eexists; split; [reflexivity|]. split; [now rewrite map_length, seq_length|].
  intros i j Hij. rewrite !nth_map_seq by lia. cbn.
  assert (Hk : 0 < INR (n - 1)) by (apply lt_0_INR; lia).
  assert (Hh : 0 < (b - a) * / INR (n - 1)) by (apply Rmult_lt_0_compat; [lra|now apply Rinv_0_lt_compat]).
  assert (INR i < INR j) by (apply lt_INR; lia).
  nra.
Qed.
