(* Proofs/SparseBase.v -- foundations shared by the C06/C07 proofs about Model/Sparse.v:
   loops as folds over the list of visited indices, the column walk [for_cols] as a fold over the
   list of (column, storage index) pairs it visits, the well-formedness predicate [wfS], and the
   abstract entry [sp_entry] of a compressed-column matrix. *)
From Coq Require Import List Arith Lia Bool Permutation.
From OV Require Import Base.Panic Base.Arith Model.Vector Model.Matrix Model.Sparse.
Import ListNotations.

(* ---------- foldM / for_ ---------- *)

Lemma foldM_app {S X} (f : S -> X -> res S) l1 l2 s :
  foldM f (l1 ++ l2) s = let* s' := foldM f l1 s in foldM f l2 s'.
Proof.
  revert s; induction l1 as [|x t IH]; intros s; cbn; auto.
  destruct (f s x); cbn; auto.
Qed.

Lemma foldM_map {S X Y} (f : S -> Y -> res S) (g : X -> Y) l s :
  foldM f (map g l) s = foldM (fun s x => f s (g x)) l s.
Proof.
  revert s; induction l as [|x t IH]; intros s; cbn; auto.
  destruct (f s (g x)); cbn; auto.
Qed.

Lemma foldM_ext_in {S X} (f g : S -> X -> res S) l s :
  (forall s x, In x l -> f s x = g s x) -> foldM f l s = foldM g l s.
Proof.
  revert s; induction l as [|x t IH]; intros s H; cbn; auto.
  rewrite (H s x) by (left; auto). destruct (g s x); cbn; auto.
  apply IH. intros; apply H; right; auto.
Qed.

Lemma for_from_foldM {S} n lo (body : nat -> S -> res S) s :
  for_from n lo body s = foldM (fun s i => body i s) (seq lo n) s.
Proof.
  revert lo s; induction n as [|n IH]; intros lo s; cbn; auto.
  destruct (body lo s); cbn; auto.
Qed.

Lemma for_foldM {S} lo hi (body : nat -> S -> res S) s :
  for_ lo hi body s = foldM (fun s i => body i s) (seq lo (hi - lo)) s.
Proof. apply for_from_foldM. Qed.

(* a fold whose steps never panic is a pure fold *)
Lemma foldM_pure {S X} (I : S -> Prop) (f : S -> X -> res S) (g : S -> X -> S) l s :
  I s ->
  (forall s x, I s -> In x l -> f s x = Ok (g s x) /\ I (g s x)) ->
  foldM f l s = Ok (fold_left g l s) /\ I (fold_left g l s).
Proof.
  revert s; induction l as [|x t IH]; intros s Hs H; cbn; auto.
  destruct (H s x Hs) as [E Hg]; [left; auto|]. rewrite E; cbn.
  apply IH; auto. intros; apply H; auto. right; auto.
Qed.

(* ---------- the column walk ---------- *)

(* the (column, storage index) pairs visited by  for j in 0..n { for k in cs[j]..cs[j+1] } *)
Definition seg (cs : list nat) (j : nat) : list nat := seq (nth j cs 0) (nth (j + 1) cs 0 - nth j cs 0).
Definition visits (cs : list nat) (n : nat) : list (nat * nat) :=
  flat_map (fun j => map (pair j) (seg cs j)) (seq 0 n).

Lemma visits_S cs n : visits cs (S n) = visits cs n ++ map (pair n) (seg cs n).
Proof. unfold visits. rewrite seq_S, flat_map_app. cbn. now rewrite app_nil_r. Qed.

Lemma for_cols_foldM {S P} cs n (pre : nat -> res P) (p : nat -> P) (body : nat -> P -> nat -> S -> res S) s :
  n + 1 <= length cs ->
  (forall j, j < n -> pre j = Ok (p j)) ->
  for_cols cs n pre body s = foldM (fun s jk => body (fst jk) (p (fst jk)) (snd jk) s) (visits cs n) s.
Proof.
  intros Hlen Hpre. unfold for_cols, visits. rewrite for_foldM, Nat.sub_0_r.
  assert (Hall : forall j, In j (seq 0 n) -> j < n) by (intros j Hj; apply in_seq in Hj; lia).
  revert s Hall. generalize (seq 0 n) as js.
  induction js as [|j js IH]; intros s Hall; cbn; auto.
  assert (Hj : j < n) by (apply Hall; left; auto).
  rewrite (Hpre j Hj); cbn.
  rewrite (rd_ok cs j 0) by lia. cbn.
  rewrite (rd_ok cs (j + 1) 0) by lia. cbn.
  rewrite foldM_app, foldM_map. cbn. rewrite for_foldM. fold (seg cs j).
  destruct (foldM _ (seg cs j) s); cbn; auto.
  apply IH. intros; apply Hall; right; auto.
Qed.

Section Base.
Context {A : Arith}.
Notation T := (T A).
Notation sparse := (sparse A).

(* ---------- well-formed compressed-column storage (the structural half of C06) ---------- *)
Definition wfS (s : sparse) : Prop :=
  length (sp_col_start s) = sp_cols s + 1 /\
  nth 0 (sp_col_start s) 0 = 0 /\
  (forall j, j < sp_cols s -> nth j (sp_col_start s) 0 <= nth (j + 1) (sp_col_start s) 0) /\
  nth (sp_cols s) (sp_col_start s) 0 = sp_nonzero s /\
  length (sp_val s) = sp_nonzero s /\
  length (sp_row_index s) = sp_nonzero s /\
  (forall k, k < sp_nonzero s -> nth k (sp_row_index s) 0 < sp_rows s).

(* the entries as the column walk lists them: (row_index[k], j, val[k]) *)
Definition ent (s : sparse) (jk : nat * nat) : triplet A :=
  (nth (snd jk) (sp_row_index s) 0, fst jk, nth (snd jk) (sp_val s) zero).
Definition ents (s : sparse) : list (triplet A) := map (ent s) (visits (sp_col_start s) (sp_cols s)).

(* no position stored twice *)
Definition NoDupKeys (s : sparse) : Prop := NoDup (map (fun t => (trow t, tcol t)) (ents s)).

End Base.

(* ---------- monotone column starts: the walk visits 0, 1, ..., nonzero-1 in order ---------- *)

Lemma mono_le cs n : (forall j, j < n -> nth j cs 0 <= nth (j + 1) cs 0) ->
  forall a b, a <= b -> b <= n -> nth a cs 0 <= nth b cs 0.
Proof.
  intros H a b Hab Hb. induction b as [|b IH].
  - replace a with 0 by lia. lia.
  - destruct (Nat.eq_dec a (S b)) as [->|Hne]; [lia|].
    specialize (H b ltac:(lia)). replace (b + 1) with (S b) in H by lia.
    assert (nth a cs 0 <= nth b cs 0) by (apply IH; lia). lia.
Qed.

Lemma visits_snd cs n :
  (forall j, j < n -> nth j cs 0 <= nth (j + 1) cs 0) ->
  map snd (visits cs n) = seq (nth 0 cs 0) (nth n cs 0 - nth 0 cs 0).
Proof.
  induction n as [|n IH]; intros H.
  - cbn. now rewrite Nat.sub_diag.
  - rewrite visits_S, map_app, IH by (intros; apply H; lia).
    rewrite map_map. cbn. rewrite map_id. unfold seg.
    assert (H0 : nth 0 cs 0 <= nth n cs 0) by (apply (mono_le cs (S n)); auto; lia).
    assert (H1 := H n ltac:(lia)). replace (n + 1) with (S n) in * by lia.
    replace (nth n cs 0) with (nth 0 cs 0 + (nth n cs 0 - nth 0 cs 0)) at 2 by lia.
    rewrite <- seq_app. f_equal. lia.
Qed.

Lemma visits_in cs n j k : In (j, k) (visits cs n) <-> j < n /\ nth j cs 0 <= k < nth (j + 1) cs 0.
Proof.
  unfold visits. rewrite in_flat_map. split.
  - intros (j' & Hj' & Hin). apply in_map_iff in Hin as (k' & E & Hk'). injection E as <- <-.
    apply in_seq in Hj'. unfold seg in Hk'. apply in_seq in Hk'. lia.
  - intros (Hj & Hk). exists j. split; [apply in_seq; lia|].
    apply in_map. unfold seg. apply in_seq. lia.
Qed.

Lemma visits_fst_lt cs n jk : In jk (visits cs n) -> fst jk < n.
Proof. destruct jk as [j k]. intros H. apply visits_in in H. cbn. lia. Qed.

Section BaseWf.
Context {A : Arith}.
Notation sparse := (sparse A).

Lemma wf_visits_snd (s : sparse) : wfS s ->
  map snd (visits (sp_col_start s) (sp_cols s)) = seq 0 (sp_nonzero s).
Proof.
  intros (Hl & H0 & Hm & Hn & _). rewrite visits_snd by auto. rewrite H0, Hn. f_equal. lia.
Qed.

Lemma wf_visit_lt (s : sparse) jk : wfS s -> In jk (visits (sp_col_start s) (sp_cols s)) ->
  fst jk < sp_cols s /\ snd jk < sp_nonzero s.
Proof.
  intros Hwf Hin. split; [eapply visits_fst_lt; eauto|].
  assert (H : In (snd jk) (map snd (visits (sp_col_start s) (sp_cols s)))) by (apply in_map; auto).
  rewrite wf_visits_snd in H by auto. apply in_seq in H. lia.
Qed.

Lemma wf_row_lt (s : sparse) jk : wfS s -> In jk (visits (sp_col_start s) (sp_cols s)) ->
  nth (snd jk) (sp_row_index s) 0 < sp_rows s.
Proof.
  intros Hwf Hin. destruct (wf_visit_lt s jk Hwf Hin) as [_ Hk].
  destruct Hwf as (_ & _ & _ & _ & _ & _ & Hr). auto.
Qed.

Lemma wf_length_cs (s : sparse) : wfS s -> sp_cols s + 1 <= length (sp_col_start s).
Proof. intros (Hl & _). lia. Qed.

End BaseWf.
