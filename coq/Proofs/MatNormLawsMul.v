(* Proofs/MatNormLawsMul.v -- the norms of Model/MatNorms.v and the model's products, over R (package matnorm, item 3):
     - submultiplicativity  ||A B|| <= ||A|| ||B||  under [mat_mul] (all conformable shapes) for norm_1, norm_inf,
       norm_frob;  norm_max is NOT submultiplicative: the 2x2 matrix of ones is the witness ([..._refuted]);
     - consistency with the vector norms of Model/Vector.v under the matrix-vector product [multiply]:
       ||A x||_inf <= ||A||_inf ||x||_inf,  ||A x||_1 <= ||A||_1 ||x||_1,  ||A x||_2 <= ||A||_frob ||x||_2.
   Every statement also says that the operations involved return Ok. *)
From Coq Require Import List Arith Lia Reals Lra Bool.
From OV Require Import Base.Panic Base.Arith Model.Vector Model.Matrix Model.MatNorms.
From OV Require Import Proofs.Matrix Proofs.MatrixArith Proofs.MatNorms Proofs.MatNormsR.
From OV Require Import Proofs.MatNormLawsBase.
Import ListNotations.
Local Open Scope R_scope.

(* ------------------------------------------------------------------ on entries *)
Section EntriesMul.
Variables (r k c : nat) (f g : nat -> nat -> R).
Let h := fun i j => Rs k (fun q => f i q * g q j).

Lemma abs_h_le i j : Rabs (h i j) <= Rs k (fun q => Rabs (f i q) * Rabs (g q j)).
Proof.
  unfold h. eapply Rle_trans; [apply Rs_abs|]. apply Req_le. apply Rs_ext. intros q _. apply Rabs_mult.
Qed.

Lemma csum_mul Na j : (forall q, (q < k)%nat -> csum r f q <= Na) -> csum r h j <= Na * csum k g j.
Proof.
  intros HNa. unfold csum at 1.
  apply Rle_trans with (Rs r (fun i => Rs k (fun q => Rabs (f i q) * Rabs (g q j)))).
  - apply Rs_le. intros i _. apply abs_h_le.
  - rewrite Rs_swap. unfold csum. rewrite <- Rs_scal. apply Rs_le. intros q Hq.
    rewrite Rs_scal_r. fold (csum r f q).
    apply Rmult_le_compat_r; [apply Rabs_pos|auto].
Qed.

Lemma rsum_mul Nb i : (forall q, (q < k)%nat -> rsum c g q <= Nb) -> rsum c h i <= rsum k f i * Nb.
Proof.
  intros HNb. unfold rsum at 1.
  apply Rle_trans with (Rs c (fun j => Rs k (fun q => Rabs (f i q) * Rabs (g q j)))).
  - apply Rs_le. intros j _. apply abs_h_le.
  - rewrite Rs_swap. unfold rsum. rewrite <- Rs_scal_r. apply Rs_le. intros q Hq.
    rewrite Rs_scal. fold (rsum c g q).
    apply Rmult_le_compat_l; [apply Rabs_pos|auto].
Qed.

Lemma n1_mul Na Nb Nh : ismax (P1 r k f) Na -> ismax (P1 k c g) Nb -> ismax (P1 r c h) Nh -> Nh <= Na * Nb.
Proof.
  intros Ha Hb Hh.
  pose proof (ismax_nonneg _ _ Ha (P1_nonneg r k f)) as Pa. pose proof (ismax_nonneg _ _ Hb (P1_nonneg k c g)) as Pb.
  apply (ismax_le _ _ _ Hh); [apply Rmult_le_pos; auto|]. intros x (j & Hj & ->).
  apply Rle_trans with (Na * csum k g j).
  - apply csum_mul. intros q Hq. apply (proj1 Ha). exists q; auto.
  - apply Rmult_le_compat_l; auto. apply (proj1 Hb). exists j; auto.
Qed.

Lemma ninf_mul Na Nb Nh : ismax (Pinf r k f) Na -> ismax (Pinf k c g) Nb -> ismax (Pinf r c h) Nh -> Nh <= Na * Nb.
Proof.
  intros Ha Hb Hh.
  pose proof (ismax_nonneg _ _ Ha (Pinf_nonneg r k f)) as Pa. pose proof (ismax_nonneg _ _ Hb (Pinf_nonneg k c g)) as Pb.
  apply (ismax_le _ _ _ Hh); [apply Rmult_le_pos; auto|]. intros x (i & Hi & ->).
  apply Rle_trans with (rsum k f i * Nb).
  - apply rsum_mul. intros q Hq. apply (proj1 Hb). exists q; auto.
  - apply Rmult_le_compat_r; auto. apply (proj1 Ha). exists i; auto.
Qed.

Lemma frob_mul :
  R_sqrt.sqrt (sum2 r c (fun i j => h i j * h i j)) <=
  R_sqrt.sqrt (sum2 r k (fun i q => f i q * f i q)) * R_sqrt.sqrt (sum2 k c (fun q j => g q j * g q j)).
Proof.
  assert (HA : 0 <= sum2 r k (fun i q => f i q * f i q)).
  { apply sum2_nonneg. intros i q _ _. pose proof (Rle_0_sqr (f i q)) as H. exact H. }
  assert (HB : 0 <= sum2 k c (fun q j => g q j * g q j)).
  { apply sum2_nonneg. intros q j _ _. pose proof (Rle_0_sqr (g q j)) as H. exact H. }
  rewrite <- sqrt_mult by assumption. apply sqrt_le_1_alt.
  apply Rle_trans with (sum2 r c (fun i j => Rs k (fun q => f i q * f i q) * Rs k (fun q => g q j * g q j))).
  - apply sum2_le. intros i j _ _. apply (Rs_cs k (fun q => f i q) (fun q => g q j)).
  - apply Req_le. unfold sum2.
    rewrite (Rs_swap k c (fun q j => g q j * g q j)).
    rewrite (Rs_mul r c (fun i => Rs k (fun q => f i q * f i q)) (fun j => Rs k (fun q => g q j * g q j))).
    reflexivity.
Qed.

End EntriesMul.

(* ------------------------------------------------------------------ submultiplicativity under mat_mul *)
Lemma matnorm_submult_lemma (a b : matrix AR) : wf a -> wf b -> cols a = rows b ->
  exists p a1 ai af b1 bi bf p1 pi pf, mat_mul (A:=AR) a b = Ok p /\
    mnorm_1 (S:=SAR) a = Ok a1 /\ mnorm_inf (S:=SAR) a = Ok ai /\ mnorm_frob (S:=SAR) a = Ok af /\
    mnorm_1 (S:=SAR) b = Ok b1 /\ mnorm_inf (S:=SAR) b = Ok bi /\ mnorm_frob (S:=SAR) b = Ok bf /\
    mnorm_1 (S:=SAR) p = Ok p1 /\ mnorm_inf (S:=SAR) p = Ok pi /\ mnorm_frob (S:=SAR) p = Ok pf /\
    p1 <= a1 * b1 /\ pi <= ai * bi /\ pf <= af * bf.
Proof.
  intros Hwa Hwb Hk. pose proof (msp_self a Hwa) as Ha. pose proof (msp_self b Hwb) as Hb.
  rewrite Hk in Ha.
  destruct (mat_mul_msp _ _ _ _ _ a b Ha Hb) as (p & Ep & Hp).
  change (msp (A:=AR) (rows a) (cols b)
            (fun i j => Rs (rows b) (fun q => entry (A:=AR) a i q * entry (A:=AR) b q j)) p) in Hp.
  destruct (n1_msp _ _ _ a Ha) as (a1 & Ea1 & Ha1). destruct (ninf_msp _ _ _ a Ha) as (ai & Eai & Hai).
  destruct (n1_msp _ _ _ b Hb) as (b1 & Eb1 & Hb1). destruct (ninf_msp _ _ _ b Hb) as (bi & Ebi & Hbi).
  destruct (n1_msp _ _ _ p Hp) as (p1 & Ep1 & Hp1). destruct (ninf_msp _ _ _ p Hp) as (pi & Epi & Hpi).
  exists p, a1, ai. eexists. exists b1, bi. eexists. exists p1, pi. eexists.
  split; [exact Ep|]. split; [exact Ea1|]. split; [exact Eai|]. split; [apply (nfrob_msp _ _ _ a Ha)|].
  split; [exact Eb1|]. split; [exact Ebi|]. split; [apply (nfrob_msp _ _ _ b Hb)|].
  split; [exact Ep1|]. split; [exact Epi|]. split; [apply (nfrob_msp _ _ _ p Hp)|].
  split; [|split].
  - apply (n1_mul _ _ _ _ _ _ _ _ Ha1 Hb1 Hp1).
  - apply (ninf_mul _ _ _ _ _ _ _ _ Hai Hbi Hpi).
  - apply (frob_mul (rows a) (rows b) (cols b) (entry a) (entry b)).
Qed.

(* norm_max is not submultiplicative: ones(2,2) * ones(2,2) = 2 ones(2,2) *)
Lemma nmax_const r c x (m : matrix AR) : msp (A:=AR) r c (fun _ _ => x) m -> (1 <= r)%nat -> (1 <= c)%nat ->
  mnorm_max (S:=SAR) m = Ok (Rabs x).
Proof.
  intros Hm Hr Hc. destruct (nmax_msp _ _ _ m Hm) as (N & E & Hub & Hmem). rewrite E. apply f_equal.
  assert (Rabs x <= N) by (apply Hub; exists 0%nat, 0%nat; repeat split; auto; lia).
  destruct Hmem as [->|(i & j & _ & _ & ->)]; [|reflexivity].
  pose proof (Rabs_pos x). lra.
Qed.

Lemma matnorm_max_submult_refuted_lemma :
  exists a b p na nb np, wf a /\ wf b /\ cols a = rows b /\ mat_mul (A:=AR) a b = Ok p /\
    mnorm_max (S:=SAR) a = Ok na /\ mnorm_max (S:=SAR) b = Ok nb /\ mnorm_max (S:=SAR) p = Ok np /\
    na * nb < np.
Proof.
  pose proof (msp_new (A:=AR) 2 2 1) as Ho.
  destruct (mat_mul_msp _ _ _ _ _ _ _ Ho Ho) as (p & Ep & Hp).
  assert (Hp2 : msp (A:=AR) 2 2 (fun _ _ => 2) p).
  { eapply msp_ext; [exact Hp|]. intros i j _ _. cbn. ring. }
  exists (mat_new (A:=AR) 2 2 1), (mat_new (A:=AR) 2 2 1), p, (Rabs 1), (Rabs 1), (Rabs 2).
  split; [reflexivity|]. split; [reflexivity|]. split; [reflexivity|]. split; [exact Ep|].
  split; [apply (nmax_const 2 2 1 _ Ho); lia|]. split; [apply (nmax_const 2 2 1 _ Ho); lia|].
  split; [apply (nmax_const 2 2 2 _ Hp2); lia|].
  rewrite Rabs_R1, (Rabs_pos_eq 2) by lra. lra.
Qed.

(* ------------------------------------------------------------------ consistency with the vector norms *)
Section MatVec.
Variables (m : matrix AR) (v : list R).
Hypothesis Hw : wf m.
Hypothesis Hv : length v = cols m.

Let f := entry (A:=AR) m.
Let x := fun q => nth q v 0.
Let y := fun i => Rs (cols m) (fun q => f i q * x q).

Lemma multiply_R : exists w : list R, multiply (A:=AR) m v = Ok w /\ length w = rows m /\
  forall i, (i < rows m)%nat -> nth i w 0 = y i.
Proof.
  destruct (multiply_msp _ _ _ m v (msp_self m Hw) Hv) as (w & E & Hl & He).
  exists w. split; [exact E|]. split; [exact Hl|]. intros i Hi. exact (He i Hi).
Qed.

Lemma abs_y_le i : Rabs (y i) <= Rs (cols m) (fun q => Rabs (f i q) * Rabs (x q)).
Proof.
  unfold y. eapply Rle_trans; [apply Rs_abs|]. apply Req_le. apply Rs_ext. intros q _. apply Rabs_mult.
Qed.

Lemma matvec_norm_inf_lemma : (1 <= rows m)%nat -> (1 <= cols m)%nat ->
  exists w nw nm nv, multiply (A:=AR) m v = Ok w /\ norm_inf (F:=SAR) Rabs w = Ok nw /\
    mnorm_inf (S:=SAR) m = Ok nm /\ norm_inf (F:=SAR) Rabs v = Ok nv /\ nw <= nm * nv.
Proof.
  intros Hr Hc. destruct multiply_R as (w & Ew & Hl & He).
  assert (Hwn : w <> []) by (intros ->; cbn in Hl; lia).
  assert (Hvn : v <> []) by (intros ->; cbn in Hv; lia).
  destruct (vnorm_inf_char w Hwn) as (nw & Enw & _ & (i & Hi & ->)).
  destruct (vnorm_inf_char v Hvn) as (nv & Env & Hubv & (q0 & _ & Eq0)).
  destruct (ninf_msp _ _ _ m (msp_self m Hw)) as (nm & Enm & Hnm).
  exists w. eexists. exists nm, nv. split; [exact Ew|]. split; [exact Enw|]. split; [exact Enm|]. split; [exact Env|].
  rewrite Hl in Hi. rewrite (He i Hi).
  assert (Pnv : 0 <= nv) by (rewrite Eq0; apply Rabs_pos).
  apply Rle_trans with (rsum (cols m) f i * nv).
  - eapply Rle_trans; [apply abs_y_le|]. unfold rsum. rewrite <- Rs_scal_r. apply Rs_le. intros q Hq.
    apply Rmult_le_compat_l; [apply Rabs_pos|]. apply Hubv. now rewrite Hv.
  - apply Rmult_le_compat_r; auto. apply (proj1 Hnm). exists i; auto.
Qed.

Lemma matvec_norm_1_lemma :
  exists w nm, multiply (A:=AR) m v = Ok w /\ mnorm_1 (S:=SAR) m = Ok nm /\
    norm_1 (A:=AR) w <= nm * norm_1 (A:=AR) v.
Proof.
  destruct multiply_R as (w & Ew & Hl & He).
  destruct (n1_msp _ _ _ m (msp_self m Hw)) as (nm & Enm & Hnm).
  exists w, nm. split; [exact Ew|]. split; [exact Enm|].
  rewrite !vnorm_1_sum, Hl, Hv.
  rewrite (Rs_ext (rows m) (fun k => Rabs (nth k w 0)) (fun i => Rabs (y i))) by (intros i Hi; now rewrite He).
  apply Rle_trans with (Rs (rows m) (fun i => Rs (cols m) (fun q => Rabs (f i q) * Rabs (x q)))).
  - apply Rs_le. intros i _. apply abs_y_le.
  - rewrite Rs_swap, <- Rs_scal. apply Rs_le. intros q Hq. rewrite Rs_scal_r. fold (csum (rows m) f q).
    apply Rmult_le_compat_r; [apply Rabs_pos|]. apply (proj1 Hnm). exists q; auto.
Qed.

Lemma matvec_norm_2_lemma :
  exists w nf, multiply (A:=AR) m v = Ok w /\ mnorm_frob (S:=SAR) m = Ok nf /\
    norm_2 (F:=SAR) Rabs w <= nf * norm_2 (F:=SAR) Rabs v.
Proof.
  destruct multiply_R as (w & Ew & Hl & He).
  exists w. eexists. split; [exact Ew|]. split; [apply (nfrob_msp _ _ _ m (msp_self m Hw))|].
  rewrite !vnorm_2_sum, Hl, Hv.
  rewrite (Rs_ext (rows m) (fun k => nth k w 0 * nth k w 0) (fun i => y i * y i)) by (intros i Hi; now rewrite He).
  assert (HA : 0 <= sum2 (rows m) (cols m) (fun i q => f i q * f i q)).
  { apply sum2_nonneg. intros i q _ _. pose proof (Rle_0_sqr (f i q)) as H. exact H. }
  rewrite <- sqrt_mult; [|exact HA|apply Rs_sq_nonneg]. apply sqrt_le_1_alt.
  unfold sum2. rewrite <- Rs_scal_r. apply Rs_le. intros i _.
  apply (Rs_cs (cols m) (fun q => f i q) x).
Qed.

End MatVec.

(* ------------------------------------------------------------------ what norm_max does satisfy under the product *)
Section EntriesMaxMul.
Variables (r k c : nat) (f g : nat -> nat -> R).
Let h := fun i j => Rs k (fun q => f i q * g q j).

Lemma nmax_mul Ax Ai Bx B1 Hx :
  ismax (Pmax r k f) Ax -> ismax (Pinf r k f) Ai -> ismax (Pmax k c g) Bx -> ismax (P1 k c g) B1 ->
  ismax (Pmax r c h) Hx ->
  Hx <= INR k * Ax * Bx /\ Hx <= Ai * Bx /\ Hx <= Ax * B1.
Proof.
  intros HAx HAi HBx HB1 HHx.
  pose proof (ismax_nonneg _ _ HAx (Pmax_nonneg r k f)) as PAx. pose proof (ismax_nonneg _ _ HAi (Pinf_nonneg r k f)) as PAi.
  pose proof (ismax_nonneg _ _ HBx (Pmax_nonneg k c g)) as PBx. pose proof (ismax_nonneg _ _ HB1 (P1_nonneg k c g)) as PB1.
  assert (Hf : forall i q, (i < r)%nat -> (q < k)%nat -> Rabs (f i q) <= Ax) by (intros i q Hi Hq; apply (proj1 HAx); exists i, q; auto).
  assert (Hg : forall q j, (q < k)%nat -> (j < c)%nat -> Rabs (g q j) <= Bx) by (intros q j Hq Hj; apply (proj1 HBx); exists q, j; auto).
  split; [|split].
  - apply (ismax_le _ _ _ HHx); [apply Rmult_le_pos; [apply Rmult_le_pos; [apply pos_INR|]|]; auto|].
    intros x (i & j & Hi & Hj & ->). eapply Rle_trans; [apply (abs_h_le k f g i j)|].
    rewrite Rmult_assoc, <- Rs_const. apply Rs_le. intros q Hq.
    apply Rmult_le_compat; try apply Rabs_pos; auto.
  - apply (ismax_le _ _ _ HHx); [apply Rmult_le_pos; auto|].
    intros x (i & j & Hi & Hj & ->). eapply Rle_trans; [apply (abs_h_le k f g i j)|].
    apply Rle_trans with (rsum k f i * Bx).
    + unfold rsum. rewrite <- Rs_scal_r. apply Rs_le. intros q Hq. apply Rmult_le_compat_l; [apply Rabs_pos|auto].
    + apply Rmult_le_compat_r; auto. apply (proj1 HAi). exists i; auto.
  - apply (ismax_le _ _ _ HHx); [apply Rmult_le_pos; auto|].
    intros x (i & j & Hi & Hj & ->). eapply Rle_trans; [apply (abs_h_le k f g i j)|].
    apply Rle_trans with (Ax * csum k g j).
    + unfold csum. rewrite <- Rs_scal. apply Rs_le. intros q Hq. apply Rmult_le_compat_r; [apply Rabs_pos|auto].
    + apply Rmult_le_compat_l; auto. apply (proj1 HB1). exists j; auto.
Qed.
End EntriesMaxMul.

Lemma matnorm_max_mul_lemma (a b : matrix AR) : wf a -> wf b -> cols a = rows b ->
  exists p ax ai bx b1 px, mat_mul (A:=AR) a b = Ok p /\
    mnorm_max (S:=SAR) a = Ok ax /\ mnorm_inf (S:=SAR) a = Ok ai /\
    mnorm_max (S:=SAR) b = Ok bx /\ mnorm_1 (S:=SAR) b = Ok b1 /\ mnorm_max (S:=SAR) p = Ok px /\
    px <= INR (cols a) * ax * bx /\ px <= ai * bx /\ px <= ax * b1.
Proof.
  intros Hwa Hwb Hk. pose proof (msp_self a Hwa) as Ha. pose proof (msp_self b Hwb) as Hb.
  rewrite Hk in *.
  destruct (mat_mul_msp _ _ _ _ _ a b Ha Hb) as (p & Ep & Hp).
  change (msp (A:=AR) (rows a) (cols b)
            (fun i j => Rs (rows b) (fun q => entry (A:=AR) a i q * entry (A:=AR) b q j)) p) in Hp.
  destruct (nmax_msp _ _ _ a Ha) as (ax & Eax & Hax). destruct (ninf_msp _ _ _ a Ha) as (ai & Eai & Hai).
  destruct (nmax_msp _ _ _ b Hb) as (bx & Ebx & Hbx). destruct (n1_msp _ _ _ b Hb) as (b1 & Eb1 & Hb1).
  destruct (nmax_msp _ _ _ p Hp) as (px & Epx & Hpx).
  exists p, ax, ai, bx, b1, px. split; [exact Ep|]. split; [exact Eax|]. split; [exact Eai|].
  split; [exact Ebx|]. split; [exact Eb1|]. split; [exact Epx|].
  exact (nmax_mul _ _ _ _ _ _ _ _ _ _ Hax Hai Hbx Hb1 Hpx).
Qed.
