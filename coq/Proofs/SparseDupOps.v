(* Proofs/SparseDupOps.v -- C06 with duplicate positions: what the constructing and modifying operations do
   to the list [dvals s i j] of the values stored for a position (Proofs/SparseDup.v).
   * from_triplets: the stored order of the duplicates of a position is their order in the INPUT list
     (Vec::sort_by_key is stable): get then returns the value of the first input triplet with that
     (row, col), to_dense that of the last, the products their sum;
   * insert: overwrites the FIRST stored duplicate and leaves the others (rebuilds with one more triplet
     when the position is not stored): [dvals] of the target becomes  v :: tl (dvals s i j), all other
     positions keep their lists;
   * transpose: a stable counting sort by row -- the list stored for (j,i) in the result is the list stored
     for (i,j) in the argument, in the same order. *)
From Coq Require Import List Arith Lia Bool Permutation Sorted.
From OV Require Import Base.Panic Base.Arith Model.Vector Model.Matrix Model.Sparse
                       Proofs.SparseBase Proofs.SparseMul Proofs.SparseWf Proofs.SparseHist Proofs.SparseViews
                       Proofs.SparseRefine Proofs.SparseTranspose Proofs.SparseFinal Proofs.SparseDup.
Import ListNotations.

(* ---------- strictly increasing lists ---------- *)
Lemma ssorted_ext (l1 l2 : list nat) :
  StronglySorted lt l1 -> StronglySorted lt l2 -> (forall x, In x l1 <-> In x l2) -> l1 = l2.
Proof.
  revert l2; induction l1 as [|a t1 IH]; intros l2 S1 S2 H.
  - destruct l2 as [|b t2]; auto. exfalso. apply (H b). left; auto.
  - destruct l2 as [|b t2]; [exfalso; apply (H a); left; auto|].
    apply StronglySorted_inv in S1 as [S1 F1]. apply StronglySorted_inv in S2 as [S2 F2].
    rewrite Forall_forall in F1, F2.
    assert (a = b).
    { destruct (proj1 (H a) (or_introl eq_refl)) as [E|Ha]; auto.
      destruct (proj2 (H b) (or_introl eq_refl)) as [E|Hb]; auto.
      specialize (F1 b Hb). specialize (F2 a Ha). lia. }
    subst b. f_equal. apply IH; auto. intros x. split; intros Hx.
    + destruct (proj1 (H x) (or_intror Hx)) as [E|Hx']; auto. specialize (F1 x Hx). lia.
    + destruct (proj2 (H x) (or_intror Hx)) as [E|Hx']; auto. specialize (F2 x Hx). lia.
Qed.

Lemma ssorted_seq a n : StronglySorted lt (seq a n).
Proof.
  revert a; induction n as [|n IH]; intros a; cbn [seq]; constructor; auto.
  apply Forall_forall. intros x Hx. apply in_seq in Hx. lia.
Qed.

Lemma ssorted_filter (f : nat -> bool) l : StronglySorted lt l -> StronglySorted lt (filter f l).
Proof.
  induction l as [|a t IH]; intros S; cbn [filter]; [constructor|].
  apply StronglySorted_inv in S as [S F]. destruct (f a); auto. constructor; auto.
  rewrite Forall_forall in *. intros x Hx. apply filter_In in Hx as [Hx _]. auto.
Qed.

Lemma ssorted_map (f : nat -> nat) l : StronglySorted lt l ->
  (forall a b, In a l -> In b l -> a < b -> f a < f b) -> StronglySorted lt (map f l).
Proof.
  induction l as [|a t IH]; intros S H; cbn [map]; [constructor|].
  apply StronglySorted_inv in S as [S F]. constructor.
  - apply IH; auto. intros x y Hx Hy. apply H; right; auto.
  - rewrite Forall_forall in *. intros y Hy. apply in_map_iff in Hy as (x & <- & Hx).
    apply H; [left; auto|right; auto|auto].
Qed.

Section DupOps.
Context {A : Arith}.
Notation T := (T A).
Notation sparse := (sparse A).
Notation triplet := (triplet A).

(* ---------- the stable sort keeps the order of the triplets of one column ---------- *)
Lemma ins_by_col_filter (P : triplet -> bool) j (t : triplet) l :
  (forall x, P x = true -> tcol x = j) -> filter P (ins_by_col t l) = filter P (t :: l).
Proof.
  intros HP. induction l as [|u r IH]; [reflexivity|]. cbn [ins_by_col].
  destruct (Nat.leb_spec (tcol t) (tcol u)) as [Hle|Hgt]; [reflexivity|].
  cbn [filter] in *. rewrite IH.
  destruct (P t) eqn:Et, (P u) eqn:Eu; try reflexivity.
  apply HP in Et, Eu. lia.
Qed.

Lemma sort_by_col_filter (P : triplet -> bool) j l :
  (forall x, P x = true -> tcol x = j) -> filter P (sort_by_col l) = filter P l.
Proof.
  intros HP. induction l as [|t l IH]; [reflexivity|].
  cbn [sort_by_col fold_right]. fold (sort_by_col l). rewrite (ins_by_col_filter P j) by auto.
  cbn [filter]. now rewrite IH.
Qed.

Lemma tmatch_col i j (x : triplet) : tmatch i j x = true -> tcol x = j.
Proof. unfold tmatch. intros H. apply andb_true_iff in H as [_ H]. now apply Nat.eqb_eq in H. Qed.

(* ---------- from_triplets: duplicates are stored in input order ---------- *)
Theorem from_triplets_duplicates_lemma r c (ts : list triplet) :
  (forall t, In t ts -> trow t < r /\ tcol t < c) ->
  exists s D, sp_from_triplets r c ts = Ok s /\ wfS s /\ sp_rows s = r /\ sp_cols s = c /\
    sp_to_dense s = Ok D /\
    forall i j, i < r -> j < c ->
      dvals s i j = map (@tval A) (filter (tmatch i j) ts) /\
      sp_get s i j = Ok (hd_error (map (@tval A) (filter (tmatch i j) ts))) /\
      mget D i j = Ok (last (map (@tval A) (filter (tmatch i j) ts)) zero) /\
      sp_entry s i j = suml (map (@tval A) (filter (tmatch i j) ts)).
Proof.
  intros Hin. destruct (from_triplets_wf_lemma r c ts Hin) as (s & E & _).
  destruct (from_triplets_ents r c ts s Hin E) as (Hwf & Hr & Hc & He).
  destruct (to_dense_last_duplicate_lemma s Hwf) as (D & ED & _ & _ & HD).
  exists s, D. split; auto. split; auto. split; auto. split; auto. split; auto.
  intros i j Hi Hj.
  assert (Hd : dvals s i j = map (@tval A) (filter (tmatch i j) ts)).
  { rewrite dvals_ents by lia. rewrite He. now rewrite (sort_by_col_filter _ j) by (apply tmatch_col). }
  split; auto. rewrite <- Hd. split; [apply get_first_duplicate_lemma; auto; lia|].
  split; [apply HD; lia|reflexivity].
Qed.

(* ---------- insert ---------- *)
Lemma dvals_with_val (s : sparse) v i j : dvals (with_val s v) i j = map (fun k => nth k v zero) (dupk s i j).
Proof. reflexivity. Qed.

Theorem insert_with_duplicates_lemma (s : sparse) i j (v : T) : wfS s -> i < sp_rows s -> j < sp_cols s ->
  exists s', sp_insert s i j v = Ok s' /\ wfS s' /\ sp_rows s' = sp_rows s /\ sp_cols s' = sp_cols s /\
    forall i' j', i' < sp_rows s -> j' < sp_cols s ->
      dvals s' i' j' = if (i' =? i) && (j' =? j) then v :: tl (dvals s i j) else dvals s i' j'.
Proof.
  intros Hwf Hi Hj. unfold sp_insert.
  destruct (Nat.leb_spec (sp_rows s) i); [lia|]. destruct (Nat.leb_spec (sp_cols s) j); [lia|].
  assert (Hl : length (sp_col_start s) = sp_cols s + 1) by (destruct Hwf; auto).
  destruct (Nat.leb_spec (length (sp_col_start s)) j); [lia|].
  rewrite sp_col_index_ok by auto. cbn [bind].
  destruct (sp_scan_spec s i j Hwf) as [(k & E & Hk & HP & Hmin)|(E & Hn)]; rewrite E; cbn [bind].
  - (* overwrite the first stored duplicate *)
    assert (Hv : length (sp_val s) = sp_nonzero s) by (destruct Hwf as (_ & _ & _ & _ & Hv & _); auto).
    rewrite upd_ok by lia. cbn [bind]. fold (with_val s (upd_list (sp_val s) k v)).
    assert (Hlen : length (upd_list (sp_val s) k v) = length (sp_val s)) by apply upd_list_length.
    eexists. split; [reflexivity|]. split; [now apply with_val_wf|]. split; [reflexivity|]. split; [reflexivity|].
    intros i' j' Hi' Hj'. rewrite dvals_with_val.
    destruct (Nat.eqb_spec i' i) as [->|Hni]; [destruct (Nat.eqb_spec j' j) as [->|Hnj]|]; cbn [andb].
    + unfold dvals. rewrite dupk_hits by auto. rewrite (filter_seq_first (hit s i j) _ k) by auto.
      cbn [map tl]. rewrite nth_upd_list by lia. rewrite Nat.eqb_refl. f_equal.
      apply map_ext_in. intros k' Hk'. apply filter_In in Hk' as [Hk' _]. apply in_seq in Hk'.
      rewrite nth_upd_list by lia. destruct (Nat.eqb_spec k' k); [lia|reflexivity].
    + unfold dvals. apply map_ext_in. intros k' Hk'. apply (dupk_lt s i j' k' Hwf Hj') in Hk' as [Hk' Hh].
      rewrite nth_upd_list by lia. destruct (Nat.eqb_spec k' k) as [->|]; [|reflexivity].
      apply hit_true in HP as [_ P2]. apply hit_true in Hh as [_ P2']. congruence.
    + unfold dvals. apply map_ext_in. intros k' Hk'. apply (dupk_lt s i' j' k' Hwf Hj') in Hk' as [Hk' Hh].
      rewrite nth_upd_list by lia. destruct (Nat.eqb_spec k' k) as [->|]; [|reflexivity].
      apply hit_true in HP as [P1 _]. apply hit_true in Hh as [P1' _]. congruence.
  - (* the position is not stored: rebuild from the triplets with the new one appended *)
    rewrite sp_to_triplets_ok by auto. cbn [bind].
    assert (Hrange : forall t, In t (ents s ++ [(i, j, v)]) -> trow t < sp_rows s /\ tcol t < sp_cols s).
    { intros t Ht. apply in_app_or in Ht as [Ht|[<-|[]]].
      - now apply ents_in_range.
      - unfold trow, tcol; cbn; lia. }
    destruct (from_triplets_duplicates_lemma _ _ _ Hrange) as (s' & D & E' & Hwf' & Hr' & Hc' & _ & Hd).
    exists s'. split; auto. split; auto. split; auto. split; auto.
    intros i' j' Hi' Hj'. destruct (Hd i' j' Hi' Hj') as (Hd' & _). rewrite Hd'.
    rewrite filter_app, map_app, <- dvals_ents by auto. cbn [filter].
    assert (Hnone : dvals s i j = []).
    { unfold dvals. rewrite dupk_hits by auto. rewrite filter_nil_all; [reflexivity|].
      intros k Hk. apply in_seq in Hk. apply Hn. lia. }
    unfold tmatch at 1, trow, tcol. cbn [fst snd]. rewrite (Nat.eqb_sym i i'), (Nat.eqb_sym j j').
    destruct (Nat.eqb_spec i' i) as [->|Hni]; [destruct (Nat.eqb_spec j' j) as [->|Hnj]|]; cbn [andb map].
    + rewrite Hnone. reflexivity.
    + apply app_nil_r.
    + apply app_nil_r.
Qed.

(* ---------- transpose: where every stored entry goes ---------- *)
Lemma transpose_positions (s : sparse) : wfS s ->
  exists s', sp_transpose s = Ok s' /\ wfS s' /\ sp_rows s' = sp_cols s /\ sp_cols s' = sp_rows s /\
    sp_nonzero s' = sp_nonzero s /\
    forall p, p < sp_nonzero s ->
      nth (tpos (sp_row_index s) p) (sp_row_index s') 0 = nth p (cidx s) 0 /\
      nth (tpos (sp_row_index s) p) (sp_val s') zero = nth p (sp_val s) zero /\
      nth (tpos (sp_row_index s) p) (cidx s') 0 = nth p (sp_row_index s) 0.
Proof.
  intros Hwf. unfold sp_transpose.
  destruct (transpose_count_loop s Hwf) as (count & Ec & Hcl & Hcn). rewrite Ec. cbn [bind].
  destruct (transpose_starts_loop (sp_row_index s) (sp_rows s) count Hcl Hcn) as (acs & Ea & Hal & Han).
  rewrite Ea. cbn [bind].
  destruct (transpose_scatter_loop s acs Hwf Hal Han) as (st & Est & Hl1 & Hl2 & Hst).
  rewrite Est. cbn [bind].
  set (s' := mkS (sp_cols s) (sp_rows s) (sp_nonzero s) (t_val st) (t_ri st) acs).
  assert (E' : sp_transpose s = Ok s').
  { unfold sp_transpose. rewrite Ec. cbn [bind]. rewrite Ea. cbn [bind]. rewrite Est. reflexivity. }
  destruct (sp_transpose_wf s s' Hwf E') as (Hwf' & Hr' & Hc').
  exists s'. split; auto. split; auto. split; auto. split; auto. split; [reflexivity|].
  assert (Hri : length (sp_row_index s) = sp_nonzero s) by (destruct Hwf as (_ & _ & _ & _ & _ & Hri & _); auto).
  intros p Hp. destruct (Hst p Hp) as [E1 E2]. split; [exact E1|]. split; [exact E2|].
  pose proof (tpos_lt (sp_row_index s) p ltac:(lia)) as Hq. rewrite Hri in Hq.
  assert (Hin : In (nth (tpos (sp_row_index s) p) (cidx s') 0, tpos (sp_row_index s) p) (visits (sp_col_start s') (sp_cols s'))).
  { rewrite visits_indexed by auto. apply in_map_iff. exists (tpos (sp_row_index s) p). split; auto.
    apply in_seq. cbn [sp_nonzero s']. lia. }
  apply visits_in in Hin as (Hc & Hb). cbn [sp_col_start sp_cols s'] in Hc, Hb.
  rewrite !Han in Hb by lia.
  apply (interval_unique (sp_row_index s) _ _ (tpos (sp_row_index s) p)); auto.
  apply tpos_bounds. lia.
Qed.

Lemma tpos_mono_row ri p m : p < m -> m < length ri -> nth p ri 0 = nth m ri 0 -> tpos ri p < tpos ri m.
Proof.
  intros Hpm Hm E. unfold tpos. rewrite E.
  pose proof (cnt_firstn_lt ri p m (nth m ri 0) Hpm ltac:(lia) E). lia.
Qed.

Lemma tpos_onto ri q : q < length ri -> exists p, p < length ri /\ tpos ri p = q.
Proof.
  intros Hq. assert (Hin : In q (map (tpos ri) (seq 0 (length ri)))).
  { eapply Permutation_in; [apply Permutation_sym, tpos_perm|]. apply in_seq. lia. }
  apply in_map_iff in Hin as (p & E & Hp). apply in_seq in Hp. exists p. split; [lia|auto].
Qed.

(* ---------- transpose: duplicates keep their relative order ---------- *)
Theorem transpose_duplicates_lemma (s : sparse) : wfS s ->
  exists s', sp_transpose s = Ok s' /\ wfS s' /\ sp_rows s' = sp_cols s /\ sp_cols s' = sp_rows s /\
    Permutation (ents s') (map tswap (ents s)) /\
    forall i j, i < sp_rows s -> j < sp_cols s -> dvals s' j i = dvals s i j.
Proof.
  intros Hwf. destruct (transpose_positions s Hwf) as (s' & E & Hwf' & Hr & Hc & Hnz & Hpos).
  exists s'. split; auto. split; auto. split; auto. split; auto. split.
  { destruct (sp_transpose_spec_lemma s Hwf) as (s2 & E2 & _ & _ & _ & HP). congruence. }
  assert (Hri : length (sp_row_index s) = sp_nonzero s) by (destruct Hwf as (_ & _ & _ & _ & _ & Hri & _); auto).
  set (ri := sp_row_index s) in *.
  intros i j Hi Hj. unfold dvals. rewrite !dupk_hits by (auto; lia). rewrite Hnz.
  (* the storage indices of (j,i) in the transposed storage are the images of those of (i,j), in the same order *)
  assert (Hk : filter (hit s' j i) (seq 0 (sp_nonzero s)) = map (tpos ri) (filter (hit s i j) (seq 0 (sp_nonzero s)))).
  { apply ssorted_ext.
    - apply ssorted_filter, ssorted_seq.
    - apply ssorted_map; [apply ssorted_filter, ssorted_seq|].
      intros a b Ha Hb Hab. apply filter_In in Ha as [Ha Pa]. apply filter_In in Hb as [Hb Pb].
      apply in_seq in Ha, Hb. apply hit_true in Pa as [Ra _]. apply hit_true in Pb as [Rb _].
      apply tpos_mono_row; auto; try lia. unfold ri. congruence.
    - intros q. rewrite filter_In, in_map_iff, in_seq. split.
      + intros [Hq Hh]. destruct (tpos_onto ri q ltac:(lia)) as (p & Hp & <-). rewrite Hri in Hp.
        exists p. split; auto. apply filter_In. split; [apply in_seq; lia|].
        destruct (Hpos p Hp) as (P1 & _ & P3). apply hit_true in Hh as [H1 H2]. apply hit_true. subst ri. split; congruence.
      + intros (p & <- & Hp). apply filter_In in Hp as [Hp Hh]. apply in_seq in Hp.
        pose proof (tpos_lt ri p ltac:(lia)) as Hq. split; [lia|].
        destruct (Hpos p ltac:(lia)) as (P1 & _ & P3). apply hit_true in Hh as [H1 H2]. apply hit_true. subst ri. split; congruence. }
  rewrite Hk, map_map. apply map_ext_in. intros p Hp. apply filter_In in Hp as [Hp _]. apply in_seq in Hp.
  destruct (Hpos p ltac:(lia)) as (_ & P2 & _). exact P2.
Qed.

End DupOps.
