(* Proofs/IterCGDim.v -- round two, package iter2: the dimension argument behind the finite termination
   of conjugate gradients, over any field: a family of pairwise orthogonal vectors of F^n none of which is
   isotropic (<v,v> <> 0) has at most n members.
   Route: such a family is linearly independent ([orth_indep]); a linearly independent family of F^n has at
   most n members ([indep_bound], Gaussian elimination on the first coordinate, induction on n).
   Linear combinations are handled coordinate-wise through the scalar sums [csum g cs vs] = sum_i g(v_i) c_i. *)
From Coq Require Import List Arith Lia Bool Ring Field.
From OV Require Import Base.Panic Base.Arith Model.Vector Model.Iter Proofs.Iter Proofs.IterField
  Proofs.SparseMul Proofs.IterSparse Proofs.IterCGVec.
Import ListNotations.

Section Dim.
Context {A : SArith}.
Notation F := (T (SA A)).
Variable FL : FieldLaws (SA A).
Add Field FFd : (fl_field (SA A) FL).
Notation finv := (fl_inv (SA A) FL).
Let RL : RingLaws (SA A) := FL_RingLaws FL.

Definition nthz (j : nat) (v : list F) : F := nth j v zero.

(* sum_i g(v_i) * c_i over the paired lists *)
Definition csum (g : list F -> F) (cs : list F) (vs : list (list F)) : F :=
  fold_right (fun cv acc => add (mul (g (snd cv)) (fst cv)) acc) zero (combine cs vs).

Lemma csum_nil_l g vs : csum g [] vs = zero.
Proof. reflexivity. Qed.
Lemma csum_cons g c cs v vs : csum g (c :: cs) (v :: vs) = add (mul (g v) c) (csum g cs vs).
Proof. reflexivity. Qed.

Lemma csum_app g c1 c2 u1 u2 : length c1 = length u1 ->
  csum g (c1 ++ c2) (u1 ++ u2) = add (csum g c1 u1) (csum g c2 u2).
Proof.
  revert u1; induction c1 as [|c c1 IH]; intros [|u u1] Hl; cbn in Hl; try discriminate.
  - cbn [app]. rewrite csum_nil_l. ring.
  - cbn [app]. rewrite !csum_cons, IH by lia. ring.
Qed.

Lemma csum_ext g h cs vs : (forall v, In v vs -> g v = h v) -> csum g cs vs = csum h cs vs.
Proof.
  revert cs; induction vs as [|v vs IH]; intros [|c cs] H; try reflexivity.
  rewrite !csum_cons, IH by (intros; apply H; now right). rewrite H by now left. reflexivity.
Qed.

Lemma csum_zero g cs vs : (forall v, In v vs -> g v = zero) -> csum g cs vs = zero.
Proof.
  revert cs; induction vs as [|v vs IH]; intros [|c cs] H; try reflexivity.
  rewrite csum_cons, IH by (intros; apply H; now right). rewrite H by now left. ring.
Qed.

Lemma csum_zero_coeffs g cs vs : Forall (fun c => c = zero) cs -> csum g cs vs = zero.
Proof.
  revert vs; induction cs as [|c cs IH]; intros [|v vs] H; try reflexivity.
  rewrite csum_cons, IH by (now inversion H). inversion H as [|a l Hc _]; subst. ring.
Qed.

Lemma csum_map g (h : list F -> list F) cs vs : csum g cs (map h vs) = csum (fun v => g (h v)) cs vs.
Proof.
  revert cs; induction vs as [|v vs IH]; intros [|c cs]; try reflexivity.
  cbn [map]. now rewrite !csum_cons, IH.
Qed.

(* linear in g *)
Lemma csum_lin g1 g2 k cs vs :
  csum (fun v => sub (g1 v) (mul k (g2 v))) cs vs = sub (csum g1 cs vs) (mul k (csum g2 cs vs)).
Proof.
  revert cs; induction vs as [|v vs IH]; intros [|c cs]; try (cbn; ring).
  rewrite !csum_cons, IH. ring.
Qed.

Lemma csum_add g1 g2 cs vs :
  csum (fun v => add (g1 v) (g2 v)) cs vs = add (csum g1 cs vs) (csum g2 cs vs).
Proof.
  revert cs; induction vs as [|v vs IH]; intros [|c cs]; try (cbn; ring).
  rewrite !csum_cons, IH. ring.
Qed.
Lemma csum_scale g k cs vs : csum (fun v => mul k (g v)) cs vs = mul k (csum g cs vs).
Proof.
  revert cs; induction vs as [|v vs IH]; intros [|c cs]; try (cbn; ring).
  rewrite !csum_cons, IH. ring.
Qed.

Lemma csum_sum_n (w : nat -> F) cs vs m :
  csum (fun v => sum_n m (fun j => mul (w j) (nthz j v))) cs vs
  = sum_n m (fun j => mul (w j) (csum (nthz j) cs vs)).
Proof.
  induction m as [|m IH].
  - cbn [sum_n]. apply csum_zero. reflexivity.
  - cbn [sum_n]. rewrite <- IH, <- csum_scale, <- csum_add. reflexivity.
Qed.

(* ---- linear independence, coordinate-wise ---- *)
Definition indep (n : nat) (vs : list (list F)) : Prop :=
  forall cs, length cs = length vs -> (forall j, j < n -> csum (nthz j) cs vs = zero) ->
             Forall (fun c => c = zero) cs.

Definition lenis (n : nat) (v : list F) : Prop := length v = n.

(* a vanishing combination is orthogonal to everything *)
Lemma csum_dot n (w : list F) cs vs : length w = n -> Forall (lenis n) vs ->
  (forall j, j < n -> csum (nthz j) cs vs = zero) -> csum (dot_raw w) cs vs = zero.
Proof.
  intros Hw Hvs H.
  rewrite (csum_ext _ (fun v => sum_n n (fun j => mul (nth j w zero) (nthz j v)))).
  - rewrite csum_sum_n. rewrite (sum_n_ext n _ (fun _ => zero)).
    + apply (sum_n_zero RL).
    + intros j Hj. rewrite H by auto. ring.
  - intros v Hv. rewrite Forall_forall in Hvs. specialize (Hvs v Hv). unfold lenis in Hvs.
    rewrite (dot_raw_sum RL) by lia. now rewrite Hw.
Qed.

Theorem orth_indep n (vs : list (list F)) :
  Forall (lenis n) vs -> ForallOrdPairs (fun u v => dot_raw u v = zero) vs ->
  Forall (fun v => dot_raw v v <> zero) vs -> indep n vs.
Proof.
  induction vs as [|v vs IH]; intros Hl Ho Ha cs Hcs H.
  - destruct cs; [constructor | discriminate].
  - destruct cs as [|c cs]; [discriminate|].
    inversion Hl as [|a l Hv Hl']; subst. inversion Ho as [|a l Hov Ho']; subst.
    inversion Ha as [|a l Hav Ha']; subst.
    assert (Hc : c = zero).
    { pose proof (csum_dot n v (c :: cs) (v :: vs) Hv Hl H) as E.
      rewrite csum_cons in E. rewrite (csum_zero (dot_raw v) cs vs) in E.
      - apply (mul_zero_inv FL (dot_raw v v)); auto. rewrite <- E. ring.
      - intros u Hu. rewrite Forall_forall in Hov. auto. }
    constructor; auto. apply IH; auto.
    intros j Hj. specialize (H j Hj). rewrite csum_cons, Hc in H. rewrite <- H. ring.
Qed.

(* ---- the bound ---- *)
Lemma nthz_tl j (v : list F) : nthz j (tl v) = nthz (S j) v.
Proof. destruct v; [destruct j|]; reflexivity. Qed.

Lemma heads_split (vs : list (list F)) :
  (forall v, In v vs -> nthz 0 v = zero) \/
  (exists l1 v l2, vs = l1 ++ v :: l2 /\ nthz 0 v <> zero).
Proof.
  induction vs as [|v vs [IH|(l1 & u & l2 & -> & Hu)]].
  - left. intros v [].
  - destruct (eqb (nthz 0 v) zero) eqn:E.
    + apply (fl_eqb (SA A) FL) in E. left. intros u [<-|Hu]; auto.
    + right. exists [], v, vs. split; auto. intros E'. apply (fl_eqb (SA A) FL) in E'. congruence.
  - right. exists (v :: l1), u, l2. auto.
Qed.

Lemma nthz_sub (u w : list F) j : length u = length w -> nthz j (zipw sub u w) = sub (nthz j u) (nthz j w).
Proof.
  unfold nthz. revert w j; induction u as [|a u IH]; intros [|b w] j Hl; cbn in Hl; try discriminate.
  - destruct j; cbn; ring.
  - destruct j; cbn; [reflexivity|]. apply IH. lia.
Qed.

Theorem indep_bound n : forall vs : list (list F), Forall (lenis n) vs -> indep n vs -> length vs <= n.
Proof.
  induction n as [|n IHn]; intros vs Hl Hind.
  - destruct vs as [|v vs]; [auto|]. exfalso.
    assert (H : Forall (fun c : F => c = zero) (one :: repeat zero (length vs))).
    { apply Hind; [cbn; now rewrite repeat_length | intros j Hj; lia]. }
    inversion H as [|a l H1 _]; subst. exact (F_1_neq_0 (fl_field (SA A) FL) H1).
  - destruct (heads_split vs) as [Hz|(l1 & v & l2 & -> & Ha)].
    + (* every first coordinate vanishes: drop it *)
      assert (Hb : length (map (@tl F) vs) <= n).
      { apply IHn.
        - rewrite Forall_forall in *. intros t Ht. apply in_map_iff in Ht as (v & <- & Hv).
          specialize (Hl v Hv). unfold lenis in *. destruct v; cbn in *; lia.
        - intros cs Hcs H. apply Hind; [now rewrite map_length in Hcs|].
          intros [|j] Hj.
          + now apply csum_zero.
          + rewrite <- (H j) by lia. rewrite csum_map. apply csum_ext. intros v _. now rewrite nthz_tl. }
      rewrite map_length in Hb. lia.
    + (* eliminate the first coordinate of the others with v *)
      set (a := nthz 0 v) in *.
      set (g := fun w : list F => tl (zipw sub w (vscale v (mul (nthz 0 w) (finv a))))).
      assert (Hlv : length v = S n).
      { rewrite Forall_forall in Hl. apply Hl. apply in_or_app. right. now left. }
      assert (Hl12 : forall w, In w (l1 ++ l2) -> length w = S n).
      { intros w Hw. rewrite Forall_forall in Hl. apply Hl. apply in_app_or in Hw as [Hw|Hw]; apply in_or_app; [now left | right; now right]. }
      assert (Hb : length (map g (l1 ++ l2)) <= n).
      { apply IHn.
        - apply Forall_forall. intros t Ht. apply in_map_iff in Ht as (w & <- & Hw).
          unfold lenis, g. specialize (Hl12 w Hw).
          assert (E : length (zipw sub w (vscale v (mul (nthz 0 w) (finv a)))) = S n).
          { rewrite zipw_length; auto. rewrite vscale_length. lia. }
          destruct (zipw sub w (vscale v (mul (nthz 0 w) (finv a)))); cbn in *; lia.
        - intros ds Hds H. rewrite map_length in Hds.
          set (Hsum := csum (nthz 0) ds (l1 ++ l2)).
          set (cv := neg (mul Hsum (finv a))).
          set (d1 := firstn (length l1) ds). set (d2 := skipn (length l1) ds).
          assert (Hd : ds = d1 ++ d2) by (symmetry; apply firstn_skipn).
          assert (Hd1 : length d1 = length l1).
          { unfold d1. rewrite firstn_length. rewrite app_length in Hds. lia. }
          assert (Hcs : Forall (fun c : F => c = zero) (d1 ++ cv :: d2)).
          { apply Hind.
            - rewrite !app_length. cbn [length]. rewrite app_length in Hds.
              assert (length ds = length d1 + length d2) by (rewrite Hd at 1; apply app_length). lia.
            - intros j Hj.
              rewrite csum_app by auto. rewrite csum_cons.
              replace (add (csum (nthz j) d1 l1) (add (mul (nthz j v) cv) (csum (nthz j) d2 l2)))
                with (add (csum (nthz j) ds (l1 ++ l2)) (mul (nthz j v) cv))
                by (rewrite Hd at 1; rewrite csum_app by auto; ring).
              destruct j as [|j].
              + fold Hsum. fold a. unfold cv. field. exact Ha.
              + rewrite <- (H j) by lia. rewrite csum_map.
                rewrite (csum_ext (fun w => nthz j (g w))
                           (fun w => sub (nthz (S j) w) (mul (mul (nthz (S j) v) (finv a)) (nthz 0 w)))).
                * rewrite csum_lin. fold Hsum. unfold cv. field. exact Ha.
                * intros w Hw. unfold g. rewrite nthz_tl, nthz_sub by (rewrite vscale_length; rewrite Hl12; auto).
                  unfold nthz at 2. rewrite (nth_vscale RL). fold (nthz (S j) v). ring. }
          rewrite Hd. apply Forall_app in Hcs as (H1 & H2). apply Forall_app. split; auto. now inversion H2. }
      rewrite map_length in Hb. rewrite !app_length in *. cbn [length]. lia.
Qed.

(* pairwise orthogonal, none isotropic: at most n of them in F^n *)
Theorem orth_family_bound n (vs : list (list F)) :
  Forall (lenis n) vs -> ForallOrdPairs (fun u v => dot_raw u v = zero) vs ->
  Forall (fun v => dot_raw v v <> zero) vs -> length vs <= n.
Proof. intros Hl Ho Ha. apply indep_bound; auto. now apply orth_indep. Qed.

End Dim.
