(* Proofs/RoundNorm2.v -- the Euclidean norm of Model/Vector.v ([norm_2]: sqrt of the running sum of |x_i| * |x_i|) in the
   STANDARD MODEL of floating-point arithmetic extended by a rounded square root
        fsqrt x = sqrt x (1 + d),  |d| <= u        (x >= 0),
   the same Gallina [norm_2] instantiated at the SArith [SARm] (|.| exact, as in IEEE arithmetic):

     norm_2_relative_error_lemma :   fl(|x|_2) = |x|_2 (1 + th),  |th| <= gam (n + 1)

   for every length n with (n+1) u < 1: the Euclidean norm is computed to high RELATIVE accuracy (sums of squares do
   not cancel).  Higham's count is n/2 + 1; the square root of the n accumulated factors is bounded here by the factors
   themselves.  Overflow/underflow of the squares -- the reason careful codes scale -- is outside the standard model
   and not covered. *)
From Coq Require Import List Arith Lia Reals Lra Psatz.
From OV Require Import Base.Panic Base.Arith Base.RoundModel Model.Vector Model.Matrix Proofs.Matrix Proofs.RoundDot.
Import ListNotations.
Local Open Scope R_scope.

(* a nonnegative combination of factors between lo and hi is the plain sum times a factor between lo and hi *)
Lemma Rsum_weighted n (a W : nat -> R) lo hi :
  (forall k, (k < n)%nat -> 0 <= a k) -> (forall k, (k < n)%nat -> lo <= W k <= hi) ->
  lo * Rsum n a <= Rsum n (fun k => a k * W k) <= hi * Rsum n a.
Proof.
  intros Ha HW. induction n as [|n IH]; cbn [Rsum]; [lra|].
  specialize (IH ltac:(intros; apply Ha; lia) ltac:(intros; apply HW; lia)).
  specialize (Ha n ltac:(lia)). specialize (HW n ltac:(lia)). nra.
Qed.

Notation rsqrt := R_sqrt.sqrt.

Section RoundNorm2.
Variable u : R.
Hypothesis u_range : 0 <= u < 1.
Variables fadd fsub fmul fdiv : R -> R -> R.
Variable fsqrt : R -> R.
Hypothesis fadd_ok : forall x y, exists d, Rabs d <= u /\ fadd x y = (x + y) * (1 + d).
Hypothesis fmul_ok : forall x y, exists d, Rabs d <= u /\ fmul x y = x * y * (1 + d).
Hypothesis fadd_0_mul : forall a b, fadd 0 (fmul a b) = fmul a b.
Hypothesis fsqrt_ok : forall x, 0 <= x -> exists d, Rabs d <= u /\ fsqrt x = rsqrt x * (1 + d).

Notation AR := (ARm fadd fsub fmul fdiv).
Notation bnd := (bnd u).
Notation gam := (gam u).

Definition SARm : SArith := {| SA := AR; Arith.sqrt := fsqrt; of_nat := INR |}.

(* the square root of a product of rounding factors is within the same bounds *)
Lemma bnd_sqrt n p : bnd n p -> bnd n (rsqrt p).
Proof using u_range.
  intros [H1 H2]. pose proof (pow1u_pos u u_range n) as P. pose proof (pow1u_le1 u u_range n) as L.
  unfold RoundModel.bnd. generalize dependent ((1 - u) ^ n). intros t H1 H2 P L. split.
  - (* t <= rsqrt t <= rsqrt p  for 0 < t <= 1 *)
    apply Rle_trans with (rsqrt t); [|apply sqrt_le_1_alt; exact H1].
    pose proof (sqrt_sqrt t ltac:(lra)) as Q. pose proof (sqrt_pos t) as S0.
    assert (rsqrt t <= 1) by nra. nra.
  - assert (Pi : 0 < / t) by now apply Rinv_0_lt_compat.
    assert (Li : 1 <= / t) by (rewrite <- Rinv_1; apply Rinv_le_contravar; lra).
    apply Rle_trans with (rsqrt (/ t)); [apply sqrt_le_1_alt; exact H2|].
    pose proof (sqrt_sqrt (/ t) ltac:(lra)) as Q. pose proof (sqrt_pos (/ t)) as S0.
    assert (1 <= rsqrt (/ t)) by nra. nra.
Qed.

Lemma norm_2_sum (v : list R) :
  (norm_2 (F := SARm) Rabs v : R)
  = fsqrt (sum_n (A := AR) (length v) (fun k => fmul (Rabs (nth k v 0)) (Rabs (nth k v 0)))).
Proof.
  unfold norm_2. change (@Arith.sqrt SARm) with fsqrt. f_equal.
  change (@zero SARm) with 0.
  assert (G : forall (l : list R) (a : R),
            fold_left (fun acc x : R => fadd acc (fmul (Rabs x) (Rabs x))) l a
            = sum_acc (A := AR) a (length l) (fun k => fmul (Rabs (nth k l 0)) (Rabs (nth k l 0)))).
  { induction l as [|x l IH]; intros a; [reflexivity|].
    cbn [fold_left length]. rewrite (sum_acc_shift (A := AR)). cbn [nth]. apply IH. }
  etransitivity; [exact (G v 0)|]. apply (sum_acc_zero (A := AR)).
Qed.

Theorem norm_2_relative_error_lemma (v : list R) :
  INR (length v + 1) * u < 1 ->
  exists th, Rabs th <= gam (length v + 1) /\
    (norm_2 (F := SARm) Rabs v : R) = rsqrt (Rsum (length v) (fun k => nth k v 0 * nth k v 0)) * (1 + th).
Proof using u_range fadd_ok fmul_ok fadd_0_mul fsqrt_ok.
  intros Hn. rewrite norm_2_sum. set (n := length v) in *.
  destruct (sum_prod_round u u_range fadd fsub fmul fdiv fadd_ok fmul_ok fadd_0_mul n
              (fun k => Rabs (nth k v 0)) (fun k => Rabs (nth k v 0))) as (W & HW & EW).
  set (a := fun k => Rabs (nth k v 0) * Rabs (nth k v 0)).
  assert (Ha : forall k, (k < n)%nat -> 0 <= a k) by (intros k _; unfold a; apply Rle_0_sqr).
  pose proof (Rsum_weighted n a W ((1 - u) ^ n) (/ (1 - u) ^ n) Ha HW) as Hc.
  pose proof (Rsum_nonneg n a Ha) as HS.
  assert (Ea : Rsum n (fun k => nth k v 0 * nth k v 0) = Rsum n a).
  { apply Rsum_ext. intros k Hk. unfold a. rewrite <- Rabs_mult. symmetry. apply Rabs_pos_eq. apply Rle_0_sqr. }
  assert (Es : sum_n (A := AR) n (fun k => fmul (Rabs (nth k v 0)) (Rabs (nth k v 0))) = Rsum n (fun k => a k * W k))
    by exact EW.
  rewrite Es, Ea.
  assert (Hpos : 0 <= Rsum n (fun k => a k * W k)).
  { pose proof (pow1u_pos u u_range n). destruct Hc as [Hc _]. nra. }
  destruct (fsqrt_ok _ Hpos) as (d & Hd & Eq). rewrite Eq.
  destruct (Req_dec (Rsum n a) 0) as [Z|NZ].
  - (* the zero vector: the result is zero *)
    assert (Z' : Rsum n (fun k => a k * W k) = 0).
    { pose proof (pow1u_pos u u_range n) as P.
      assert (0 < / (1 - u) ^ n) by now apply Rinv_0_lt_compat. rewrite Z in Hc. lra. }
    rewrite Z, Z', sqrt_0. exists 0. rewrite Rabs_R0. split; [|ring].
    apply (gam_nonneg u u_range). exact Hn.
  - assert (Sp : 0 < Rsum n a) by lra.
    set (Wb := Rsum n (fun k => a k * W k) / Rsum n a).
    assert (HWb : bnd n Wb).
    { unfold Wb. destruct Hc as [Hc1 Hc2]. split.
      - apply (Rmult_le_reg_r (Rsum n a)); [exact Sp|]. unfold Rdiv. rewrite Rmult_assoc, Rinv_l by lra. lra.
      - apply (Rmult_le_reg_r (Rsum n a)); [exact Sp|]. unfold Rdiv. rewrite Rmult_assoc, Rinv_l by lra. lra. }
    assert (Esq : rsqrt (Rsum n (fun k => a k * W k)) = rsqrt (Rsum n a) * rsqrt Wb).
    { rewrite <- sqrt_mult_alt by lra. f_equal. unfold Wb. field. lra. }
    exists (rsqrt Wb * (1 + d) - 1). split.
    + apply (bnd_gam u u_range); [|exact Hn].
      apply bnd_mul; [exact u_range|now apply bnd_sqrt|now apply bnd_1pd].
    + rewrite Esq. ring.
Qed.

End RoundNorm2.
