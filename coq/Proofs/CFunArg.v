(* Proofs/CFunArg.v -- the piecewise [atan2] of Model/CFun.v by region (used by the proofs and by the
   certificate tactic). *)
From Coq Require Import Reals Lra.
From OV Require Import Model.CFun.
Local Open Scope R_scope.

(* ---------- atan2 by region ---------- *)
Lemma atan2_xpos y x : 0 < x -> atan2 y x = atan (y / x).
Proof. intros H. unfold atan2. destruct (Rlt_dec 0 x); [reflexivity | contradiction]. Qed.

Lemma atan2_xneg_ynonneg y x : x < 0 -> 0 <= y -> atan2 y x = atan (y / x) + PI.
Proof.
  intros Hx Hy. unfold atan2.
  destruct (Rlt_dec 0 x); [lra|]. destruct (Rlt_dec x 0); [|lra].
  destruct (Rle_dec 0 y); [reflexivity | contradiction].
Qed.

Lemma atan2_xneg_yneg y x : x < 0 -> y < 0 -> atan2 y x = atan (y / x) - PI.
Proof.
  intros Hx Hy. unfold atan2.
  destruct (Rlt_dec 0 x); [lra|]. destruct (Rlt_dec x 0); [|lra].
  destruct (Rle_dec 0 y); [lra | reflexivity].
Qed.

Lemma atan2_x0_ypos y x : x = 0 -> 0 < y -> atan2 y x = PI / 2.
Proof.
  intros Hx Hy. unfold atan2.
  destruct (Rlt_dec 0 x); [lra|]. destruct (Rlt_dec x 0); [lra|].
  destruct (Rlt_dec 0 y); [reflexivity | contradiction].
Qed.

Lemma atan2_x0_yneg y x : x = 0 -> y < 0 -> atan2 y x = - (PI / 2).
Proof.
  intros Hx Hy. unfold atan2.
  destruct (Rlt_dec 0 x); [lra|]. destruct (Rlt_dec x 0); [lra|].
  destruct (Rlt_dec 0 y); [lra|]. destruct (Rlt_dec y 0); [reflexivity | contradiction].
Qed.

Lemma atan2_0_0 : atan2 0 0 = 0.
Proof.
  unfold atan2. destruct (Rlt_dec 0 0); [lra|]. destruct (Rlt_dec 0 0); [lra|]. reflexivity.
Qed.

(* atan (y/x) in terms of atan (x/y) *)
Lemma atan_div_swap_pos x y : 0 < x -> 0 < y -> atan (y / x) = PI / 2 - atan (x / y).
Proof.
  intros Hx Hy.
  replace (y / x) with (/ (x / y)) by (field; split; lra).
  apply atan_inv. apply Rdiv_lt_0_compat; assumption.
Qed.

Lemma atan2_ypos y x : 0 < y -> atan2 y x = PI / 2 - atan (x / y).
Proof.
  intros Hy.
  destruct (Rtotal_order x 0) as [Hx | [Hx | Hx]].
  - rewrite atan2_xneg_ynonneg by lra.
    replace (y / x) with (- (y / - x)) by (field; lra).
    rewrite atan_opp, (atan_div_swap_pos (- x) y) by lra.
    replace (- x / y) with (- (x / y)) by (field; lra).
    rewrite atan_opp. lra.
  - rewrite atan2_x0_ypos by assumption. subst x.
    replace (0 / y) with 0 by (field; lra). rewrite atan_0. lra.
  - rewrite atan2_xpos by lra. apply atan_div_swap_pos; lra.
Qed.

Lemma atan2_yneg y x : y < 0 -> atan2 y x = - (PI / 2) - atan (x / y).
Proof.
  intros Hy.
  destruct (Rtotal_order x 0) as [Hx | [Hx | Hx]].
  - rewrite atan2_xneg_yneg by lra.
    replace (y / x) with (- y / - x) by (field; lra).
    rewrite (atan_div_swap_pos (- x) (- y)) by lra.
    replace (- x / - y) with (x / y) by (field; lra). lra.
  - rewrite atan2_x0_yneg by assumption. subst x.
    replace (0 / y) with 0 by (field; lra). rewrite atan_0. lra.
  - rewrite atan2_xpos by lra.
    replace (y / x) with (- (- y / x)) by (field; lra).
    rewrite atan_opp, (atan_div_swap_pos x (- y)) by lra.
    replace (x / - y) with (- (x / y)) by (field; lra).
    rewrite atan_opp. lra.
Qed.

