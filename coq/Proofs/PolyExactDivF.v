(* Proofs/PolyExactDivF.v -- C12 at IEEE binary64, exactly representable coefficients: [polydiv] at the float instance
   AF returns the float images of the integer quotient and remainder (generic transfer: Proofs/PolyExactDiv.v).
   The two extra one-operation facts: == against zero does not see the sign of a zero, and a division whose divisor
   divides exactly does not round (Bdiv_correct). *)
From Coq Require Import ZArith Reals Floats Lia Lra List Bool Arith.
From Flocq Require Import Core.Core IEEE754.BinarySingleNaN IEEE754.PrimFloat.
From OV Require Import Base.Panic Base.Arith gen.Params Model.Poly Proofs.Poly Proofs.PolyDiv Proofs.ParDotFloat
                       Proofs.VectorFloat2 Inst.FloatInst Proofs.PolyExact Proofs.PolyExactF Proofs.PolyExactDiv.
Import ListNotations.
Local Open Scope Z_scope.

Lemma ExactW_eqb0 (x : AF) (a : AZ) : ExactW x a -> eqb x zero = eqb a zero.
Proof. intros H. exact (ExactW_eqb x 0%float a 0 H (proj1 Exact_zero)). Qed.

Lemma z_div_Ok a b c : z_div a b = Ok c -> b <> 0 /\ a = b * c.
Proof.
  unfold z_div. destruct (Z.eqb_spec b 0) as [|Hb]; [discriminate|].
  destruct (Z.eqb_spec (a mod b) 0) as [Hm|]; [|discriminate]. intros E; injection E as <-.
  split; auto. rewrite (Z.div_mod a b Hb) at 1. lia.
Qed.

Lemma ExactW_zdiv (x y : AF) (a b c : AZ) : ExactW x a -> ExactW y b -> div a b = Ok c -> Z.abs c < 2 ^ 53 ->
  exists z, div x y = Ok z /\ ExactW z c.
Proof.
  intros Hx Hy E Hc. apply z_div_Ok in E as [Hb Ha]. eexists; split; [reflexivity|].
  exact (ExactW_div x y a b c Hx Hy Hb Ha Hc).
Qed.

(* the run over the integers goes through (every division by the leading coefficient is exact) and every pass fits
   (polydiv_fits: Proofs/PolyExactDiv.v) -> the float run returns the images of the integer quotient and remainder *)
Lemma polydiv_exact_float_run_lemma (u v : list PrimFloat.float) (uz vz q0 r0 : list Z) :
  Forall2 ExactW u uz -> Forall2 ExactW v vz -> polydiv_fits (ZA := AZ) Z.abs uz vz ->
  polydiv (A := AZ) uz vz = Ok (inl (q0, r0)) ->
  exists q r, polydiv (A := AF) u v = Ok (inl (q, r)) /\ Forall2 ExactW q q0 /\ Forall2 ExactW r r0.
Proof.
  intros Hu Hv Hf E.
  destruct (gen_polydiv _ _ EL_weak ExactW_eqb0 ExactW_zdiv u v uz vz _ Hu Hv Hf E) as (o & Eo & Ro).
  destruct o as [[q r]|e]; [|contradiction]. exists q, r. split; [exact Eo|]. exact Ro.
Qed.
