(* Proofs/PolyExactDivF.v -- C12 at IEEE binary64, exactly representable coefficients: [polydiv] at the float instance
   AF returns the float images of the integer quotient and remainder (generic transfer: Proofs/PolyExactDiv.v).
   The two extra one-operation facts: == against zero does not see the sign of a zero, and a division whose divisor
   divides exactly does not round (Bdiv_correct). *)
From Coq Require Import ZArith Reals Floats Lia Lra List Bool Arith.
From Flocq Require Import Core.Core IEEE754.BinarySingleNaN IEEE754.PrimFloat.
From OV Require Import Base.Panic Base.Arith gen.Params Model.Poly Proofs.Poly Proofs.PolyDiv Proofs.ParDotFloat
                       Proofs.VectorFloat2 Inst.FloatInst Proofs.PolyExtra Proofs.PolyExact Proofs.PolyExactF Proofs.PolyExactDiv Proofs.PolyExactDivZ.
Import ListNotations.
Local Open Scope Z_scope.

Lemma ExactW_eqb0 (x : AF) (a : AZ) : ExactW x a -> eqb x zero = eqb a zero.
Proof. intros H. exact (ExactW_eqb x 0%float a 0 H (proj1 Exact_zero)). Qed.

Lemma ExactW_zdiv (x y : AF) (a b c : AZ) : ExactW x a -> ExactW y b -> True -> div a b = Ok c -> Z.abs c < 2 ^ 53 ->
  exists z, div x y = Ok z /\ ExactW z c.
Proof.
  intros Hx Hy _ E Hc. apply z_div_Ok in E as [Hb Ha]. eexists; split; [reflexivity|].
  exact (ExactW_div x y a b c Hx Hy Hb Ha Hc).
Qed.

(* the run over the integers goes through (every division by the leading coefficient is exact) and every pass fits
   (polydiv_fits: Proofs/PolyExactDiv.v) -> the float run returns the images of the integer quotient and remainder *)
Lemma polydiv_exact_float_run_lemma (u v : list PrimFloat.float) (uz vz q0 r0 : list Z) :
  Forall2 ExactW u uz -> Forall2 ExactW v vz -> polydiv_fits (ZA := AZ) Z.abs (fun _ _ => True) uz vz ->
  polydiv (A := AZ) uz vz = Ok (inl (q0, r0)) ->
  exists q r, polydiv (A := AF) u v = Ok (inl (q, r)) /\ Forall2 ExactW q q0 /\ Forall2 ExactW r r0.
Proof.
  intros Hu Hv Hf E.
  destruct (gen_polydiv _ _ _ EL_weak ExactW_eqb0 ExactW_zdiv u v uz vz _ Hu Hv Hf E) as (o & Eo & Ro).
  destruct o as [[q r]|e]; [|contradiction]. exists q, r. split; [exact Eo|]. exact Ro.
Qed.

(* the headline: a divisor with leading coefficient +1 or -1.  The integer division always goes through, the float
   division returns its images, and that pair is THE quotient and remainder of u by v over the integers.
   Sufficient size condition in terms of the inputs: |u_i| <= U, |v_j| <= V, U (1+V)^(len u - len v + 1) < 2^53. *)
Lemma polydiv_exact_float_monic_lemma (u v : list PrimFloat.float) (uz vz : list Z) (U V : Z) :
  Forall2 ExactW u uz -> Forall2 ExactW v vz -> vz <> [] -> (last vz 0 = 1 \/ last vz 0 = -1) ->
  0 <= U -> Forall (fun a => Z.abs a <= U) uz -> Forall (fun b => Z.abs b <= V) vz ->
  (length uz <= POLYDIV_MAX)%nat ->
  U * (1 + V) ^ Z.of_nat (length uz - length vz + 1) < 2 ^ 53 ->
  exists q r q0 r0, polydiv (A := AF) u v = Ok (inl (q, r)) /\ Forall2 ExactW q q0 /\ Forall2 ExactW r r0 /\
    polydiv (A := AZ) uz vz = Ok (inl (q0, r0)) /\
    (forall k, nth k uz 0 = nth k (padd (A := AZ) (pmul (A := AZ) q0 vz) r0) 0) /\
    (is_zero (A := AZ) r0 = true \/ (length r0 < length vz)%nat) /\
    (forall q1 r1 : list Z,
       (forall k, nth k uz 0 = nth k (padd (A := AZ) (pmul (A := AZ) q1 vz) r1) 0) ->
       (is_zero (A := AZ) r1 = true \/ (length r1 < length vz)%nat) ->
       (forall k, nth k q0 0 = nth k q1 0) /\ (forall k, nth k r0 0 = nth k r1 0)).
Proof.
  intros Hu Hv Nv Lead U0 HU HV Lu HB.
  assert (V0 : 0 <= V).
  { destruct vz as [|b t]; [congruence|]. inversion HV; subst. pose proof (Z.abs_nonneg b). lia. }
  assert (Lnz : last vz 0 <> 0) by (destruct Lead as [E|E]; rewrite E; discriminate).
  assert (Zv : is_zero (A := AZ) vz = false).
  { destruct (is_zero (A := AZ) vz) eqn:Z; [|reflexivity]. exfalso. apply Lnz.
    rewrite <- nth_last_idx. exact (proj1 (is_zero_spec_lemma AZ_eqb_spec vz) Z _). }
  pose proof (Forall_cb V vz V0 HV) as CV. pose proof (Forall_cb U uz U0 HU) as CU.
  destruct (polydiv_total_gen (A := AZ) eq_refl uz vz Nv Zv (monic_div_lead vz Lead) Lu) as (q0 & r0 & E0 & Hr0).
  pose proof (polydiv_fits_of_bounds vz Nv Lnz V CV uz U U0 CU HB) as Hf.
  destruct (polydiv_exact_float_run_lemma u v uz vz q0 r0 Hu Hv Hf E0) as (q & r & E & Hq & Hr).
  destruct (polydiv_Z_identity_lemma uz vz q0 r0 E0) as [Id Sm].
  exists q, r, q0, r0. repeat (split; [assumption|]).
  intros q1 r1 Id1 Sm1. exact (polydiv_Z_unique_lemma uz vz q0 r0 q1 r1 Nv Lnz Id Sm Id1 Sm1).
Qed.

(* any nonzero leading coefficient (e.g. a power of two): IF the integer division goes through -- every quotient term is an
   exact integer division -- the same size condition suffices, and the float division returns the images of the integer
   quotient and remainder, which are the unique pair with u = q0 v + r0 and r0 zero or shorter than v *)
Lemma polydiv_exact_float_exactdiv_lemma (u v : list PrimFloat.float) (uz vz q0 r0 : list Z) (U V : Z) :
  Forall2 ExactW u uz -> Forall2 ExactW v vz -> vz <> [] -> last vz 0 <> 0 ->
  0 <= U -> Forall (fun a => Z.abs a <= U) uz -> Forall (fun b => Z.abs b <= V) vz ->
  U * (1 + V) ^ Z.of_nat (length uz - length vz + 1) < 2 ^ 53 ->
  polydiv (A := AZ) uz vz = Ok (inl (q0, r0)) ->
  exists q r, polydiv (A := AF) u v = Ok (inl (q, r)) /\ Forall2 ExactW q q0 /\ Forall2 ExactW r r0 /\
    (forall k, nth k uz 0 = nth k (padd (A := AZ) (pmul (A := AZ) q0 vz) r0) 0) /\
    (is_zero (A := AZ) r0 = true \/ (length r0 < length vz)%nat) /\
    (forall q1 r1 : list Z,
       (forall k, nth k uz 0 = nth k (padd (A := AZ) (pmul (A := AZ) q1 vz) r1) 0) ->
       (is_zero (A := AZ) r1 = true \/ (length r1 < length vz)%nat) ->
       (forall k, nth k q0 0 = nth k q1 0) /\ (forall k, nth k r0 0 = nth k r1 0)).
Proof.
  intros Hu Hv Nv Lnz U0 HU HV HB E0.
  assert (V0 : 0 <= V).
  { destruct vz as [|b t]; [congruence|]. inversion HV; subst. pose proof (Z.abs_nonneg b). lia. }
  pose proof (Forall_cb V vz V0 HV) as CV. pose proof (Forall_cb U uz U0 HU) as CU.
  pose proof (polydiv_fits_of_bounds vz Nv Lnz V CV uz U U0 CU HB) as Hf.
  destruct (polydiv_exact_float_run_lemma u v uz vz q0 r0 Hu Hv Hf E0) as (q & r & E & Hq & Hr).
  destruct (polydiv_Z_identity_lemma uz vz q0 r0 E0) as [Id Sm].
  exists q, r. repeat (split; [assumption|]).
  intros q1 r1 Id1 Sm1. exact (polydiv_Z_unique_lemma uz vz q0 r0 q1 r1 Nv Lnz Id Sm Id1 Sm1).
Qed.
