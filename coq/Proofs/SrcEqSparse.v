(* Proofs/SrcEqSparse.v -- the hand-written model of src/sparse.rs lines 1-300 (Model/Sparse.v, packages C06/C07) IS the
   code for the functions the translator covers: every definition s_<f> of gen/SrcSparse.v (regenerated from the Rust
   source by driver/rust2coq.py on this run) equals its hand-written counterpart, for every arithmetic and every value of
   the six public fields (well-formed or not; no hypothesis).
   from_triplets (round two): sort_by_key with the closure |t| t.1 is mapped by the call table to sort_by_col. *)
From Coq Require Import List Arith ZArith Lia Bool.
From OV Require Import Base.Panic Base.Arith Model.Vector Model.Matrix Model.Sparse Model.Iter gen.SrcPrelude gen.SrcSparse Proofs.SrcEqBase.
Import ListNotations.

Section SrcEqSparse.
Context {A : Arith}.
Implicit Types (s : sparse A) (v b : list (T A)) (n i j : nat).

Lemma src_sp_new_nonzero (r c nz : nat) :
  @s_sp_new_nonzero A r c nz = Ok (mkS r c nz (repeat zero nz) (repeat 0 nz) (repeat 0 (c + 1))).
Proof. reflexivity. Qed.
Lemma src_sp_from_vecs (r c : nat) v (ri cs : list nat) : s_sp_from_vecs r c v ri cs = sp_from_vecs r c v ri cs.
Proof. reflexivity. Qed.

(* the model threads (col_start, sum) as fst/snd of a pair *)
Lemma src_sp_col_start_from_index s (ci : list nat) : s_sp_col_start_from_index s ci = sp_col_start_from_index s ci.
Proof. unfold s_sp_col_start_from_index, sp_col_start_from_index. src_eq. Qed.

(* scale: the source threads the whole record through the loop, the model only the field `val` *)
Lemma src_sp_scale s x : s_sp_scale s x = sp_scale s x.
Proof.
  unfold s_sp_scale, sp_scale.
  match goal with |- ?L = _ => transitivity (bind L Ok); [symmetry; apply bind_ret|] end.
  apply (res_rel_bind (fun self v => self = mkS (sp_rows s) (sp_cols s) (sp_nonzero s) v (sp_row_index s) (sp_col_start s))).
  - apply for_sim; [destruct s; reflexivity|].
    intros i s1 v Hi ->. cbn [sp_rows sp_cols sp_nonzero sp_val sp_row_index sp_col_start].
    destruct (rd v i); cbn; [|reflexivity]. destruct (upd v i _); cbn; reflexivity.
  - intros s1 v ->. reflexivity.
Qed.

Lemma push_const_loop {X} (k : X) n lo (t : list X) :
  for_from n lo (fun _ t => Ok (t ++ [k])) t = Ok (t ++ repeat k n).
Proof.
  revert lo t; induction n as [|n IH]; intros lo t; cbn [for_from repeat bind]; [now rewrite app_nil_r|].
  rewrite IH, <- app_assoc. reflexivity.
Qed.

(* col_index: the source keeps the local vector `gaps` (written and read back at the same index); the model does not *)
Lemma src_sp_col_index s : s_sp_col_index s = sp_col_index s.
Proof.
  unfold s_sp_col_index, sp_col_index.
  destruct (sp_nonzero s =? 0); [reflexivity|].
  destruct (length (sp_col_start s) <? sp_cols s + 1); [reflexivity|].
  apply bind_ext; intros ng. rewrite repeat_length.
  match goal with |- bind ?L _ = ?R => transitivity (bind L (fun r => Ok (fst r))); [apply bind_ext; intros [? ?]; reflexivity|] end.
  match goal with |- _ = ?R => transitivity (bind R Ok); [|apply bind_ret] end.
  apply (res_rel_bind (fun (p : list nat * list nat) (t : list nat) => fst p = t /\ length (snd p) = ng)).
  - apply for_sim; [split; [reflexivity|apply repeat_length]|].
    intros k [t g] t' Hk [E L]. cbn [fst snd] in E, L. subst t'.
    destruct (rd (sp_col_start s) (k + 1)) as [hi|]; cbn [bind res_rel]; [|reflexivity].
    destruct (rd (sp_col_start s) k) as [lo|]; cbn [bind res_rel]; [|reflexivity].
    destruct (usub hi lo) as [gk|]; cbn [bind res_rel]; [|reflexivity].
    rewrite upd_ok by lia. cbn [bind]. rewrite (rd_ok _ _ 0) by (rewrite upd_list_length; lia). cbn [bind].
    rewrite nth_upd_list by lia. rewrite Nat.eqb_refl.
    unfold for_. rewrite Nat.sub_0_r, push_const_loop. cbn [bind res_rel fst snd].
    split; [reflexivity|now rewrite upd_list_length].
  - intros [t g] t' [E _]. cbn [fst] in *. now subst.
Qed.

(* multiply / transpose_multiply: `result[..] += val[k] * ..` reads the place before the right operand in the source,
   the model reads the old value last (index-checked reads only: src_eq_swap) *)
Lemma src_sp_mul s v : s_sp_mul s v = sp_mul s v.
Proof. unfold s_sp_mul, sp_mul, for_cols. src_eq_swap. Qed.
Lemma src_sp_tmul s v : s_sp_tmul s v = sp_tmul s v.
Proof. unfold s_sp_tmul, sp_tmul, for_cols. src_eq_swap. Qed.
Lemma src_sp_to_triplets s : s_sp_to_triplets s = sp_to_triplets s.
Proof. reflexivity. Qed.
Lemma src_sp_to_dense s : s_sp_to_dense s = sp_to_dense s.
Proof. reflexivity. Qed.

(* transpose: the source updates the fields of the record `at` in place and keeps `count`; the model keeps the three
   lists it writes in a separate state record (simulation for_sim) *)
Ltac rr_step :=
  match goal with
  | H : ?e = Ok _ |- context [bind ?e _] => rewrite H; cbn [bind]
  | |- res_rel _ (bind ?e _) (bind ?e _) => destruct e eqn:?; cbn [bind res_rel]; [|reflexivity]
  | |- res_rel _ (bind ?e _) (bind ?e' _) => unify e e'; destruct e eqn:?; cbn [bind res_rel]; [|reflexivity]
  end.

Lemma src_sp_transpose s : s_sp_transpose s = sp_transpose s.
Proof.
  unfold s_sp_transpose, sp_transpose, for_cols.
  (* first pass: the row counts *)
  apply bind_ext2; [src_eq|]. intros count _.
  (* second pass: prefix sums into at.col_start *)
  set (R2 := fun (at_ : sparse A) (acs : list nat) =>
               at_ = mkS (sp_cols s) (sp_rows s) (sp_nonzero s) (repeat zero (sp_nonzero s)) (repeat 0 (sp_nonzero s)) acs).
  apply (res_rel_bind R2).
  { apply for_sim; [unfold R2; reflexivity|]. unfold R2. intros j a acs Hj ->. cbn [sp_rows sp_cols sp_nonzero sp_val sp_row_index sp_col_start].
    repeat rr_step. destruct (upd acs (j + 1) _); cbn [bind res_rel]; reflexivity. }
  unfold R2. intros at0 at_cs ->. clear R2.
  (* third pass: scatter with a running count *)
  set (R3 := fun (p : sparse A * list nat) (st : tstate) =>
               fst p = mkS (sp_cols s) (sp_rows s) (sp_nonzero s) (t_val st) (t_ri st) at_cs /\ snd p = t_count st).
  apply (res_rel_bind R3).
  { unfold R3. apply for_sim; [split; reflexivity|]. intros i [a c] st Hi [Ea Ec]. cbn [fst snd] in Ea, Ec. subst a c.
    cbn [bind]. repeat rr_step.
    apply for_sim; [split; reflexivity|]. intros j [a c] st' Hj [Ea Ec]. cbn [fst snd] in Ea, Ec. subst a c.
    cbn [sp_rows sp_cols sp_nonzero sp_val sp_row_index sp_col_start].
    repeat rr_step.
    split; reflexivity. }
  unfold R3. intros [a c] st [Ea _]. cbn [fst] in Ea. subst a. reflexivity.
Qed.

(* a search loop that returns from inside (`for k .. { if test { ..; return } }  rest`) against the model's
   find-then-finish formulation (for_find); the state is not changed by the passes that do not return *)
Lemma for_ret_find {S X R} n lo (test : nat -> res (option X)) (fin : X -> res R) (K : S -> res R)
      (body : nat -> S -> res (S + R)) (s0 : S) :
  (forall i, body i s0 = let* o := test i in
                         match o with Some x => let* r := fin x in Ok (inr r) | None => Ok (inl s0) end) ->
  (let* o := for_ret_from n lo body s0 in match o with inl st => K st | inr r => Ok r end)
  = (let* hit := find_from n lo test in match hit with Some x => fin x | None => K s0 end).
Proof.
  intros Hb. revert lo; induction n as [|n IH]; intros lo; cbn [for_ret_from find_from bind]; [reflexivity|].
  rewrite Hb, !bind_assoc. destruct (test lo) as [[x|]|k]; cbn [bind]; [|apply IH|reflexivity].
  destruct (fin x); reflexivity.
Qed.

Lemma src_sp_get (s : sparse A) (row col : nat) : s_sp_get s row col = sp_get s row col.
Proof.
  unfold s_sp_get, sp_get, sp_scan, for_find, for_ret.
  destruct (sp_rows s <=? row); [reflexivity|]. destruct (sp_cols s <=? col); [reflexivity|].
  destruct (length (sp_col_start s) <=? col); [reflexivity|].
  apply bind_ext; intros ci.
  apply (for_ret_find _ _ _ (fun k => let* w := rd (sp_val s) k in Ok (Some w)) (fun _ => Ok None)).
  intros k. destruct (rd (sp_row_index s) k) as [r|]; cbn [bind]; [|reflexivity].
  destruct (r =? row); cbn [bind]; [|reflexivity].
  destruct (rd ci k) as [c|]; cbn [bind]; [|reflexivity].
  destruct (c =? col); cbn [bind]; [|reflexivity].
  destruct (rd (sp_val s) k); reflexivity.
Qed.

Lemma src_sp_insert (s : sparse A) (row col : nat) (x : T A) : s_sp_insert s row col x = sp_insert s row col x.
Proof.
  unfold s_sp_insert, sp_insert, sp_scan, for_find, for_ret.
  destruct (sp_rows s <=? row); [reflexivity|]. destruct (sp_cols s <=? col); [reflexivity|].
  destruct (length (sp_col_start s) <=? col); [reflexivity|].
  apply bind_ext; intros ci.
  apply (for_ret_find _ _ _
           (fun k => let* w := upd (sp_val s) k x in
                     Ok (mkS (sp_rows s) (sp_cols s) (sp_nonzero s) w (sp_row_index s) (sp_col_start s)))
           (fun s' => let* ts := sp_to_triplets s' in sp_from_triplets (sp_rows s') (sp_cols s') (ts ++ [(row, col, x)]))).
  intros k. destruct (rd (sp_row_index s) k) as [r|]; cbn [bind]; [|reflexivity].
  destruct (r =? row); cbn [bind]; [|reflexivity].
  destruct (rd ci k) as [c|]; cbn [bind]; [|reflexivity].
  destruct (c =? col); cbn [bind]; [|reflexivity].
  destruct (upd (sp_val s) k x); reflexivity.
Qed.
(* ---- from_triplets (round two): `sort_by_key(|t| t.1)` is the stable insertion sort sort_by_col (call table), the loop over
   `triplets.drain(..)` is for_in over the sorted list against the model's foldM drain_step; the source also returns the
   drained (now empty) `&mut` vector *)
Lemma for_in_foldM_sim {S1 S2 X} (R : S1 -> S2 -> Prop) (l : list X) (b1 : X -> S1 -> res S1) (b2 : S2 -> X -> res S2) (a1 : S1) (a2 : S2) :
  R a1 a2 -> (forall x (p1 : S1) (p2 : S2), R p1 p2 -> res_rel R (b1 x p1) (b2 p2 x)) ->
  res_rel R (for_in l b1 a1) (foldM b2 l a2).
Proof.
  revert a1 a2; induction l as [|x t IH]; intros a1 a2 H0 H; cbn [for_in foldM]; [exact H0|].
  apply (res_rel_bind2 R R); [apply H; exact H0|]. intros a b Hab. apply IH; assumption.
Qed.

Lemma src_sp_from_triplets (r c : nat) (ts : list (triplet A)) :
  s_sp_from_triplets r c ts = let* s := sp_from_triplets r c ts in Ok (@nil (triplet A), s).
Proof.
  unfold s_sp_from_triplets, sp_from_triplets. rewrite bind_assoc.
  apply (res_rel_bind (fun (p : list nat * list nat * list (T A) * nat) (d : drained) =>
                         p = (d_ri d, d_ci d, d_val d, d_nz d))).
  - apply for_in_foldM_sim; [reflexivity|].
    intros t [[[ri ci] vl] nz] d E. injection E as -> -> -> ->. unfold drain_step, trow, tcol, tval.
    destruct (r <=? fst (fst t)); cbn [res_rel]; [reflexivity|].
    destruct (c <=? snd (fst t)); cbn [res_rel]; reflexivity.
  - intros [[[ri ci] vl] nz] d E. injection E as -> -> -> ->.
    cbn [sp_rows sp_cols sp_nonzero sp_val sp_row_index sp_col_start]. rewrite bind_assoc.
    apply bind_ext; intros cs. reflexivity.
Qed.

(* all of them at once: what a Props file pins as  model_is_source_<property>  *)
Definition model_is_source_Sparse : Prop :=
  (forall (r c nz : nat), @s_sp_new_nonzero A r c nz = Ok (mkS r c nz (repeat zero nz) (repeat 0 nz) (repeat 0 (c + 1)))) /\
  (forall (r c : nat) v (ri cs : list nat), s_sp_from_vecs r c v ri cs = sp_from_vecs r c v ri cs) /\
  (forall s (ci : list nat), s_sp_col_start_from_index s ci = sp_col_start_from_index s ci) /\
  (forall s x, s_sp_scale s x = sp_scale s x) /\
  (forall s, s_sp_col_index s = sp_col_index s) /\
  (forall s v, s_sp_mul s v = sp_mul s v) /\
  (forall s v, s_sp_tmul s v = sp_tmul s v) /\
  (forall s, s_sp_to_triplets s = sp_to_triplets s) /\
  (forall s, s_sp_to_dense s = sp_to_dense s) /\
  (forall s, s_sp_transpose s = sp_transpose s) /\
  (forall (s : sparse A) (row col : nat), s_sp_get s row col = sp_get s row col) /\
  (forall (s : sparse A) (row col : nat) (x : T A), s_sp_insert s row col x = sp_insert s row col x) /\
  (forall (r c : nat) (ts : list (triplet A)), s_sp_from_triplets r c ts = let* s := sp_from_triplets r c ts in Ok (@nil (triplet A), s)).
Lemma model_is_source_Sparse_lemma : model_is_source_Sparse.
Proof. exact (conj src_sp_new_nonzero (conj src_sp_from_vecs (conj src_sp_col_start_from_index (conj src_sp_scale (conj src_sp_col_index (conj src_sp_mul (conj src_sp_tmul (conj src_sp_to_triplets (conj src_sp_to_dense (conj src_sp_transpose (conj src_sp_get (conj src_sp_insert src_sp_from_triplets)))))))))))). Qed.

End SrcEqSparse.

(* identity_preconditioner is modelled in Model/Iter.v (package C08), over an arithmetic with a square root *)
Lemma src_sp_ident_pre {A : SArith} (s : sparse (SA A)) (b x : list (T (SA A))) :
  s_sp_ident_pre s b x = ident_pre (sp_rows s) b x.
Proof. reflexivity. Qed.
