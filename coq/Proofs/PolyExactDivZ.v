(* Proofs/PolyExactDivZ.v -- the integer side of C12's "exactly over exact coefficients":
   1. over any INTEGRAL DOMAIN whose div answers only when the divisor divides (div a b = Ok c -> c * b = a), the long
      division of Model/Poly.v keeps u = q*v + r, and (q, r) is THE pair with r zero or shorter than v
      (the proofs of Proofs/PolyDiv.v / PolyDivUnique.v, which assume a field, with the inverse replaced by the exact
      quotient) -- instantiated at the integers AZ;
   2. every size met on the way of the integer run is at most  U * (1 + V)^(len u - len v + 1)  (U, V bounds of |u_i|,
      |v_j|; the leading coefficient of v nonzero): the closed-form sufficient condition for polydiv_fits
      (Proofs/PolyExactDiv.v); for a leading coefficient +1 or -1 the integer division always goes through. *)
From Coq Require Import ZArith Lia List Bool Arith Ring Ring_theory.
From OV Require Import Base.Panic Base.Arith gen.Params Model.Poly Proofs.Poly Proofs.PolyExtra Proofs.PolyDiv
                       Proofs.PolyExact Proofs.PolyExactDiv.
Import ListNotations.

(* ------------------------------------------------------------------ 1. integral domains with exact division *)
Local Open Scope arith_scope.
Section IntDom.
Context {A : Arith} (RL : RingLaws A).
Notation coef p k := (nth k p (@zero A)).
Add Ring Aid_ring : (rl_ring A RL).
Hypothesis eqb_spec : forall x y : A, eqb x y = true <-> x = y.
Hypothesis div_spec : forall a b c : A, div a b = Ok c -> c * b = a.
Hypothesis nzd : forall a b : A, a * b = zero -> b <> zero -> a = zero.

Lemma id_ptrim_coef (p p' : list A) : ptrim p = Ok p' -> forall k, coef p' k = coef p k.
Proof.
  intros E. destruct (ptrim_spec_lemma eqb_spec p) as [H0 H1].
  destruct p as [|a t]; [discriminate|].
  destruct (H1 ltac:(discriminate)) as (p'' & n & E' & _ & _ & Hc & _). rewrite E in E'. injection E' as <-. exact Hc.
Qed.

Lemma id_ptrim_prefix (p p' : list A) : ptrim p = Ok p' -> exists n, p = p' ++ repeat zero n.
Proof.
  intros E. destruct (ptrim_spec_lemma eqb_spec p) as [H0 H1].
  destruct p as [|a t]; [discriminate|].
  destruct (H1 ltac:(discriminate)) as (p'' & n & E' & Hp & _). rewrite E in E'. injection E' as <-. eauto.
Qed.

Lemma id_coef_monomial n (c : A) i : coef (repeat zero n ++ [c]) i = if i =? n then c else zero.
Proof.
  destruct (Nat.lt_ge_cases i n) as [H|H].
  - rewrite app_nth1 by (now rewrite repeat_length). rewrite nth_repeat.
    destruct (Nat.eqb_spec i n); [lia|reflexivity].
  - rewrite app_nth2 by (now rewrite repeat_length). rewrite repeat_length.
    destruct (Nat.eqb_spec i n) as [->|Hne].
    + now rewrite Nat.sub_diag.
    + destruct (i - n)%nat as [|m] eqn:E; [lia|]. cbn. now destruct m.
Qed.

(* the product of a monomial c x^n with v *)
Lemma id_conv_monomial n (c : A) (v : list A) k :
  conv (repeat zero n ++ [c]) v k = if n <=? k then c * coef v (k - n) else zero.
Proof.
  unfold conv. destruct (Nat.leb_spec n k) as [H|H].
  - rewrite (sum_n_single RL _ n).
    + cbv beta. now rewrite id_coef_monomial, Nat.eqb_refl.
    + lia.
    + intros i _ Hi. rewrite id_coef_monomial. destruct (Nat.eqb_spec i n); [congruence|ring].
  - apply (sum_n_zero RL). intros i Hi. rewrite id_coef_monomial. destruct (Nat.eqb_spec i n); [lia|ring].
Qed.

Lemma id_conv_add_l (p t v : list A) k : conv (padd p t) v k = conv p v k + conv t v k.
Proof.
  unfold conv. rewrite <- sum_n_add by exact RL. apply sum_n_ext. intros i _.
  rewrite (nth_padd RL). ring.
Qed.
Lemma id_conv_ext_l (p p' v : list A) k : (forall i, coef p i = coef p' i) -> conv p v k = conv p' v k.
Proof. intros H. unfold conv. apply sum_n_ext. intros i _. now rewrite H. Qed.

Section Identity.
Variable u v : list A.
Definition id_inv (q r : list A) : Prop := forall k, coef u k = coef (pmul q v) k + coef r k.

Lemma id_body_inv (q r q1 r1 : list A) : v <> [] -> r <> [] -> length v <= length r ->
  polydiv_body q r v = Ok (q1, r1) -> id_inv q r -> id_inv q1 r1.
Proof.
  intros Nv Nr Hlen E Inv. unfold polydiv_body in E. cbv zeta in E.
  assert (Lr : 0 < length r) by (destruct r; [congruence|cbn; lia]).
  assert (Lv : 0 < length v) by (destruct v; [congruence|cbn; lia]).
  apply bind_ok in E as (rl & E1 & E). apply (rd_Ok_inv _ _ _ zero) in E1 as (_ & ->).
  apply bind_ok in E as (vl & E2 & E). apply (rd_Ok_inv _ _ _ zero) in E2 as (_ & ->).
  apply bind_ok in E as (c & Ec & E).
  pose proof (div_spec _ _ _ Ec) as Hc.
  set (rl := nth (length r - 1) r zero) in *. set (vl := nth (length v - 1) v zero) in *.
  set (n := (length r - 1 - (length v - 1))%nat) in *.
  set (t := repeat zero n ++ [c]) in *.
  assert (Lt : length t = (length r - length v + 1)%nat).
  { unfold t. rewrite app_length, repeat_length. cbn [length]. unfold n. lia. }
  assert (Nt : t <> []) by (intros Z; rewrite Z in Lt; cbn in Lt; lia).
  assert (Lm : length (pmul t v) = length r) by (rewrite length_pmul by auto; lia).
  set (r0 := psub r (pmul t v)) in *.
  assert (L0 : length r0 = length r) by (unfold r0; rewrite length_psub; lia).
  apply bind_ok in E as (l & El & E). unfold usub in El.
  destruct (1 <=? length r0); [|discriminate]. injection El as <-.
  apply bind_ok in E as (r2 & E2 & E). apply upd_Ok_inv in E2 as (Hl & ->).
  apply bind_ok in E as (r3 & E3 & E).
  apply bind_ok in E as (q3 & E4 & E). injection E as <- <-.
  (* the leading coefficient of r - t*v is zero: the division was exact *)
  assert (Lead : coef r0 (length r0 - 1) = zero).
  { rewrite L0. unfold r0. rewrite (nth_psub RL), (nth_pmul RL). fold rl.
    unfold t. rewrite id_conv_monomial.
    replace (n <=? length r - 1) with true by (symmetry; apply Nat.leb_le; unfold n; lia).
    replace (length r - 1 - n)%nat with (length v - 1)%nat by (unfold n; lia). fold vl.
    rewrite Hc. ring. }
  intros k.
  rewrite (nth_pmul RL), (id_conv_ext_l q3 (padd q t) v k (id_ptrim_coef _ _ E4)), id_conv_add_l.
  rewrite (id_ptrim_coef _ _ E3 k), nth_upd_list by auto.
  assert (R0 : coef r0 k = coef r k - conv t v k) by (unfold r0; now rewrite (nth_psub RL), (nth_pmul RL)).
  specialize (Inv k). rewrite (nth_pmul RL) in Inv.
  destruct (Nat.eqb_spec k (length r0 - 1)) as [->|_].
  - rewrite Lead in R0. rewrite Inv.
    transitivity (conv q v (length r0 - 1) + conv t v (length r0 - 1) + (coef r (length r0 - 1) - conv t v (length r0 - 1))); [ring|].
    rewrite <- R0. ring.
  - rewrite R0, Inv. ring.
Qed.

Lemma id_loop_inv (fuel : nat) : forall count (q0 r0 q r : list A), v <> [] ->
  polydiv_loop fuel count q0 r0 v = Ok (inl (q, r)) -> id_inv q0 r0 -> id_inv q r.
Proof.
  induction fuel as [|fuel IH]; intros count q0 r0 q r Nv; cbn [polydiv_loop];
    destruct (is_zero r0 || (length r0 <? length v)) eqn:C.
  - intros E; injection E as <- <-. auto.
  - discriminate.
  - intros E; injection E as <- <-. auto.
  - intros E Inv. apply orb_false_iff in C as (Cz & Cl). apply Nat.ltb_ge in Cl.
    assert (Nr : r0 <> []) by (intros ->; discriminate Cz).
    apply bind_ok in E as ((q1 & r1) & Eb & E). destruct (POLYDIV_MAX <? S count); [discriminate|].
    cbn [fst snd] in E. apply (IH _ _ _ _ _ Nv E). exact (id_body_inv q0 r0 q1 r1 Nv Nr Cl Eb Inv).
Qed.

Lemma id_polydiv_identity (q r : list A) : polydiv u v = Ok (inl (q, r)) ->
  forall k, coef u k = coef (padd (pmul q v) r) k.
Proof.
  unfold polydiv. destruct (length v =? 0) eqn:Ev; [discriminate|]. destruct (is_zero v); [discriminate|].
  intros E k. rewrite (nth_padd RL).
  assert (Nv : v <> []) by (intros ->; discriminate Ev).
  apply (id_loop_inv _ _ _ _ _ _ Nv E). intros j. rewrite pmul_nil_l, coef_nil. ring.
Qed.
End Identity.

(* ---- uniqueness *)
Lemma id_small_remainder (r v : list A) : (is_zero r = true \/ length r < length v) ->
  forall k, (length v - 1 <= k)%nat -> coef r k = zero.
Proof.
  intros [Z|L] k Hk.
  - now apply (is_zero_spec_lemma eqb_spec r).
  - apply nth_overflow. lia.
Qed.

Section Unique.
Variable v : list A.
Hypothesis v_nonempty : v <> [].
Hypothesis v_lead : last v zero <> zero.

Lemma id_conv_small_zero (d : list A) :
  (forall k, (length v - 1 <= k)%nat -> conv d v k = zero) -> forall m, coef d m = zero.
Proof.
  intros H.
  assert (Down : forall n m, (length d <= m + n)%nat -> coef d m = zero).
  { induction n as [|n IH]; intros m Hm.
    - apply nth_overflow. lia.
    - assert (Above : forall i, (m < i)%nat -> coef d i = zero) by (intros i Hi; apply IH; lia).
      set (dv := (length v - 1)%nat).
      assert (E : conv d v (m + dv) = coef d m * coef v dv).
      { unfold conv. rewrite (sum_n_single RL _ m).
        - replace (m + dv - m)%nat with dv by lia. reflexivity.
        - lia.
        - intros i Hi Hne. destruct (Nat.lt_ge_cases m i) as [Hgt|Hle].
          + rewrite (Above i Hgt). ring.
          + rewrite (nth_overflow v) by (unfold dv; destruct v; [congruence|cbn [length]; lia]). ring. }
      rewrite H in E by (unfold dv; lia).
      apply (nzd _ (coef v dv)); [now symmetry|].
      unfold dv. now rewrite nth_last_idx. }
  intros m. apply (Down (length d) m). lia.
Qed.

Lemma id_polydiv_unique (u q r q' r' : list A) :
  (forall k, coef u k = coef (padd (pmul q v) r) k) -> (is_zero r = true \/ length r < length v) ->
  (forall k, coef u k = coef (padd (pmul q' v) r') k) -> (is_zero r' = true \/ length r' < length v) ->
  (forall k, coef q k = coef q' k) /\ (forall k, coef r k = coef r' k).
Proof.
  intros I1 S1 I2 S2.
  assert (D : forall k, conv (psub q q') v k = coef r' k - coef r k).
  { intros k. specialize (I1 k). specialize (I2 k).
    rewrite (nth_padd RL), (nth_pmul RL) in I1, I2.
    assert (L : conv q v k = conv (psub q q') v k + conv q' v k).
    { unfold conv. rewrite <- (sum_n_add RL). apply sum_n_ext. intros i _. rewrite (nth_psub RL). ring. }
    transitivity (conv q v k - conv q' v k); [rewrite L; ring|].
    transitivity ((conv q v k + coef r k) - (conv q' v k + coef r' k) + (coef r' k - coef r k)); [ring|].
    rewrite <- I1, <- I2. ring. }
  assert (Z : forall m, coef (psub q q') m = zero).
  { apply id_conv_small_zero. intros k Hk. rewrite D.
    rewrite (id_small_remainder r v S1 k Hk), (id_small_remainder r' v S2 k Hk). ring. }
  split; intros k.
  - specialize (Z k). rewrite (nth_psub RL) in Z.
    transitivity (coef q k - coef q' k + coef q' k); [ring|]. rewrite Z. ring.
  - specialize (D k). unfold conv in D. rewrite (sum_n_zero RL) in D by (intros i _; rewrite Z; ring).
    transitivity (coef r' k - (coef r' k - coef r k)); [ring|]. rewrite <- D. ring.
Qed.
End Unique.

End IntDom.

(* ------------------------------------------------------------------ the integers *)
Local Open Scope Z_scope.

Lemma z_div_Ok a b c : z_div a b = Ok c -> b <> 0 /\ a = b * c.
Proof.
  unfold z_div. destruct (Z.eqb_spec b 0) as [|Hb]; [discriminate|].
  destruct (Z.eqb_spec (a mod b) 0) as [Hm|]; [|discriminate]. intros E; injection E as <-.
  split; auto. rewrite (Z.div_mod a b Hb) at 1. lia.
Qed.

Lemma AZ_eqb_spec : forall x y : AZ, eqb x y = true <-> x = y.
Proof. exact Z.eqb_eq. Qed.
Lemma AZ_div_spec : forall a b c : AZ, div a b = Ok c -> (c * b)%A = a.
Proof. intros a b c E. apply z_div_Ok in E as [_ ->]. cbn. lia. Qed.
Lemma AZ_nzd : forall a b : AZ, (a * b)%A = zero -> b <> zero -> a = zero.
Proof. cbn. intros a b H Hb. apply Z.mul_eq_0 in H as [H|H]; [exact H|contradiction]. Qed.

(* u = q*v + r for the integer long division, and (q, r) is the only such pair with r zero or shorter than v *)
Lemma polydiv_Z_identity_lemma (u v q r : list Z) : polydiv (A := AZ) u v = Ok (inl (q, r)) ->
  (forall k, nth k u 0 = nth k (padd (A := AZ) (pmul (A := AZ) q v) r) 0) /\
  (is_zero (A := AZ) r = true \/ (length r < length v)%nat).
Proof.
  intros E. split.
  - exact (id_polydiv_identity AZ_ring AZ_eqb_spec AZ_div_spec u v q r E).
  - exact (polydiv_exit (A := AZ) u v q r E).
Qed.

Lemma polydiv_Z_unique_lemma (u v q r q' r' : list Z) : v <> [] -> last v 0 <> 0 ->
  (forall k, nth k u 0 = nth k (padd (A := AZ) (pmul (A := AZ) q v) r) 0) ->
  (is_zero (A := AZ) r = true \/ (length r < length v)%nat) ->
  (forall k, nth k u 0 = nth k (padd (A := AZ) (pmul (A := AZ) q' v) r') 0) ->
  (is_zero (A := AZ) r' = true \/ (length r' < length v)%nat) ->
  (forall k, nth k q 0 = nth k q' 0) /\ (forall k, nth k r 0 = nth k r' 0).
Proof. intros Nv Lv. exact (id_polydiv_unique AZ_ring AZ_eqb_spec AZ_nzd v Nv Lv u q r q' r'). Qed.

(* ------------------------------------------------------------------ 2. unit leading coefficient: sizes *)
Definition cb (M : Z) (l : list Z) : Prop := forall k, Z.abs (nth k l 0) <= M.

Lemma cb_Forall M l : cb M l -> Forall (fun a => Z.abs a <= M) l.
Proof. intros H. apply Forall_forall. intros a Ha. apply (In_nth _ _ 0) in Ha as (k & _ & <-). apply H. Qed.
Lemma Forall_cb M l : 0 <= M -> Forall (fun a => Z.abs a <= M) l -> cb M l.
Proof.
  intros HM H k. destruct (Nat.lt_ge_cases k (length l)).
  - rewrite Forall_forall in H. now apply H, nth_In.
  - rewrite nth_overflow by auto. cbn. lia.
Qed.
Lemma cb_fits M l : M < 2 ^ 53 -> cb M l -> Forall (fun a => Z.abs a < 2 ^ 53) l.
Proof. intros HM H. eapply Forall_impl; [|apply cb_Forall; exact H]. cbv beta. intros; lia. Qed.
Lemma cb_mono M M' l : M <= M' -> cb M l -> cb M' l.
Proof. intros HM H k. specialize (H k). lia. Qed.

Lemma AZ_coef_monomial n (c : Z) i : nth i (repeat 0 n ++ [c]) 0 = if (i =? n)%nat then c else 0.
Proof. exact (id_coef_monomial (A := AZ) n c i). Qed.
Lemma AZ_conv_monomial n (c : Z) (v : list Z) k :
  conv (A := AZ) (repeat 0 n ++ [c]) v k = if (n <=? k)%nat then c * nth (k - n) v 0 else 0.
Proof. exact (id_conv_monomial AZ_ring n c v k). Qed.

Lemma AZ_nth_padd (p q : list Z) k : nth k (padd (A := AZ) p q) 0 = nth k p 0 + nth k q 0.
Proof. exact (nth_padd AZ_ring p q k). Qed.
Lemma AZ_nth_psub_pmul (r t v : list Z) k :
  nth k (psub (A := AZ) r (pmul (A := AZ) t v)) 0 = nth k r 0 - conv (A := AZ) t v k.
Proof. pose proof (nth_psub AZ_ring r (pmul (A := AZ) t v) k) as E. rewrite (nth_pmul AZ_ring) in E. exact E. Qed.
Lemma AZ_ptrim_coef (p p' : list Z) k : ptrim (A := AZ) p = Ok p' -> nth k p' 0 = nth k p 0.
Proof. intros E. exact (id_ptrim_coef AZ_eqb_spec p p' E k). Qed.

Lemma map_abs_monomial n c : map Z.abs (repeat 0 n ++ [c]) = repeat 0 n ++ [Z.abs c].
Proof. rewrite map_app. cbn [map]. f_equal. induction n; cbn; congruence. Qed.

Lemma nth_map_abs l k : nth k (map Z.abs l) 0 = Z.abs (nth k l 0).
Proof. change 0 with (Z.abs 0) at 1. apply map_nth. Qed.

(* a leading coefficient +1 or -1 divides everything *)
Lemma monic_div_lead (vz : list Z) : last vz 0 = 1 \/ last vz 0 = -1 ->
  forall x : AZ, exists z, div x (last vz (@zero AZ)) = Ok z.
Proof.
  intros Lead x. change (@zero AZ) with 0. cbn. unfold z_div.
  destruct Lead as [-> | ->]; cbn [Z.eqb].
  - rewrite Z.mod_1_r. cbn. eauto.
  - replace (x mod -1) with 0; [cbn; eauto|]. symmetry. apply Z.mod_divide; [lia|]. exists (- x). lia.
Qed.

(* Sizes along the integer run.  Only  lead(v) <> 0  is used: a quotient term c with c * lead(v) = lead(r) satisfies
   |c| <= |lead(r)|.  (Whether the divisions go through is a separate matter: always for lead(v) = +-1.) *)
Section Monic.
Variable vz : list Z.
Hypothesis Nv : vz <> [].
Hypothesis Lnz : last vz 0 <> 0.
Variable V : Z.
Hypothesis HV : cb V vz.

Lemma monic_V1 : 1 <= V.
Proof. specialize (HV (length vz - 1)%nat). rewrite nth_last_idx in HV. lia. Qed.

Lemma monic_body (qz rz : list Z) (M Q : Z) : cb Q qz -> cb M rz -> 0 <= M -> 0 <= Q ->
  rz <> [] -> (length vz <= length rz)%nat -> M * (1 + V) < 2 ^ 53 -> Q + M < 2 ^ 53 ->
  body_fits (ZA := AZ) Z.abs (fun _ _ => True) qz rz vz /\
  forall q' r', polydiv_body (A := AZ) qz rz vz = Ok (q', r') ->
    cb (Q + M) q' /\ cb (M * (1 + V)) r' /\ ((length r' < length rz)%nat \/ is_zero (A := AZ) r' = true).
Proof.
  intros HQ HM M0 Q0 Nr Hlen B1 B2. pose proof monic_V1 as V1.
  assert (Lr : (0 < length rz)%nat) by (destruct rz; [congruence|cbn; lia]).
  assert (Lv : (0 < length vz)%nat) by (destruct vz; [congruence|cbn; lia]).
  set (n := (length rz - 1 - (length vz - 1))%nat).
  (* facts about any quotient term c the division by the leading coefficient returns *)
  assert (Hc : forall c, div (nth (length rz - 1) rz 0 : AZ) (nth (length vz - 1) vz 0) = Ok c -> Z.abs c <= M).
  { intros c Ec. apply z_div_Ok in Ec as [_ Ec]. rewrite (nth_last_idx vz) in Ec. specialize (HM (length rz - 1)%nat).
    rewrite Ec, Z.abs_mul in HM. assert (1 <= Z.abs (last vz 0)) by lia. pose proof (Z.abs_nonneg c). nia. }
  assert (Hq : forall c, Z.abs c <= M -> cb (Q + M) (padd (A := AZ) qz (repeat 0 n ++ [c]))).
  { intros c Hc' k. rewrite AZ_nth_padd, AZ_coef_monomial. specialize (HQ k). cbn. destruct (k =? n)%nat; lia. }
  assert (Hm : forall c k, Z.abs c <= M -> Z.abs (conv (A := AZ) (repeat 0 n ++ [c]) vz k) <= M * V).
  { intros c k Hc'. rewrite AZ_conv_monomial. destruct (n <=? k)%nat; [|cbn; nia].
    rewrite Z.abs_mul. specialize (HV (k - n)%nat). pose proof (Z.abs_nonneg c). pose proof (Z.abs_nonneg (nth (k - n) vz 0)). nia. }
  assert (Hr : forall c, Z.abs c <= M -> cb (M * (1 + V)) (psub (A := AZ) rz (pmul (A := AZ) (repeat 0 n ++ [c]) vz))).
  { intros c Hc' k. rewrite AZ_nth_psub_pmul.
    specialize (HM k). specialize (Hm c k Hc'). lia. }
  split.
  - (* body_fits *)
    intros rl vl c E1 E2 Ec. change (T AZ) with Z in E1, E2.
    rewrite (rd_ok rz (length rz - 1) 0) in E1 by lia. rewrite (rd_ok vz (length vz - 1) 0) in E2 by lia.
    injection E1 as <-. injection E2 as <-.
    pose proof (Hc c Ec) as Hc'. fold n. cbv zeta. change (@zero AZ) with 0.
    split; [exact I|]. split; [nia|]. split; [apply (cb_fits (Q + M)); auto|]. split.
    + intros _ _ k _. unfold nconv. rewrite (pmul_coeff_conv AZ_ring), map_abs_monomial, AZ_conv_monomial.
      match goal with |- context [(?a <=? k)%nat] => destruct (a <=? k)%nat end; [|reflexivity].
      rewrite nth_map_abs. pose proof (HV (k - n)%nat) as HVk. unfold n in HVk.
      match goal with |- Z.abs c * Z.abs ?x < _ =>
        pose proof (Z.mul_le_mono_nonneg (Z.abs c) M (Z.abs x) V (Z.abs_nonneg c) Hc' (Z.abs_nonneg x) HVk) end.
      lia.
    + apply (cb_fits (M * (1 + V))); auto.
  - (* the result of the pass *)
    intros q' r' E.
    unfold polydiv_body in E. cbv zeta in E. change (T AZ) with Z in E.
    rewrite (rd_ok rz (length rz - 1) 0) in E by lia. cbn [bind] in E.
    rewrite (rd_ok vz (length vz - 1) 0) in E by lia. cbn [bind] in E.
    apply bind_ok in E as (c & Ec & E). pose proof (Hc c Ec) as Hc'. fold n in E. change (@zero AZ) with 0 in E.
    apply bind_ok in E as (l & El & E). unfold usub in El.
    match type of El with (if ?b then _ else _) = _ => destruct b; [|discriminate] end. injection El as <-.
    apply bind_ok in E as (r2 & E2 & E). apply upd_Ok_inv in E2 as (Hl & ->).
    apply bind_ok in E as (r3 & E3 & E). apply bind_ok in E as (q3 & E4 & E). injection E as <- <-.
    split; [|split].
    + intros k. rewrite (AZ_ptrim_coef _ _ k E4). apply Hq; auto.
    + intros k. rewrite (AZ_ptrim_coef _ _ k E3).
      rewrite nth_upd_list by auto. match goal with |- context [(k =? ?i)%nat] => destruct (k =? i)%nat end; [|apply Hr; auto].
      pose proof (Z.mul_nonneg_nonneg M (1 + V) M0 ltac:(lia)). change (Z.abs 0) with 0. lia.
    + match type of E3 with ptrim (upd_list (psub _ (pmul ?t _)) _ _) = _ =>
        assert (Lt : length t = (length rz - length vz + 1)%nat)
          by (rewrite app_length, repeat_length; cbn [length]; unfold n; lia);
        assert (Nt : t <> []) by (intros Z; rewrite Z in Lt; cbn in Lt; lia);
        assert (L1 : length (psub (A := AZ) rz (pmul (A := AZ) t vz)) = length rz)
          by (pose proof (length_psub (A := AZ) rz (pmul (A := AZ) t vz)) as L;
              pose proof (length_pmul (A := AZ) t vz Nt Nv) as L'; change (@length (T AZ)) with (@length Z) in *; lia);
        assert (N1 : psub (A := AZ) rz (pmul (A := AZ) t vz) <> []) by (intros Z; rewrite Z in L1; cbn in L1; lia);
        destruct (ptrim_zeroed_lead (A := AZ) eq_refl _ N1) as (r'' & Er & Hr'');
        assert (Er3 : Ok r3 = Ok r'') by (rewrite <- E3; exact Er); injection Er3 as ->;
        destruct Hr'' as [Hlt|Hz]; [left; change (@length (T AZ)) with (@length Z) in *; lia | right; exact Hz]
      end.
Qed.

Lemma loop_fits_zero fuel count (qz rz : list Z) : is_zero (A := AZ) rz = true ->
  loop_fits (ZA := AZ) Z.abs (fun _ _ => True) fuel count qz rz vz.
Proof. intros H. destruct fuel; cbn [loop_fits]; rewrite H; exact I. Qed.

Section Loop.
Variables (Lu : nat) (U : Z).
Hypothesis U0 : 0 <= U.
Hypothesis HB : U * (1 + V) ^ Z.of_nat (Lu - length vz + 1) < 2 ^ 53.
Let K (j : nat) : Z := U * (1 + V) ^ Z.of_nat j.

Lemma K_S j : K (S j) = K j * (1 + V).
Proof. unfold K. rewrite Nat2Z.inj_succ, Z.pow_succ_r by lia. ring. Qed.
Lemma K_nonneg j : 0 <= K j.
Proof. unfold K. pose proof monic_V1. apply Z.mul_nonneg_nonneg; [exact U0|]. apply Z.pow_nonneg. lia. Qed.
Lemma K_le j : (j <= Lu - length vz + 1)%nat -> K j < 2 ^ 53.
Proof.
  intros Hj. unfold K. pose proof monic_V1. eapply Z.le_lt_trans; [|exact HB].
  apply Z.mul_le_mono_nonneg_l; [exact U0|]. apply Z.pow_le_mono_r; lia.
Qed.

Lemma monic_loop (fuel : nat) : forall count (qz rz : list Z), (count + length rz <= Lu)%nat ->
  cb (K count) qz -> cb (K count) rz -> loop_fits (ZA := AZ) Z.abs (fun _ _ => True) fuel count qz rz vz.
Proof.
  induction fuel as [|fuel IH]; intros count qz rz Hc HQ HM; cbn [loop_fits];
    match goal with |- context [if ?b then _ else _] => destruct b eqn:C end; try exact I.
  apply orb_false_iff in C as (Cz & Cl). apply Nat.ltb_ge in Cl. change (@length (T AZ)) with (@length Z) in *.
  assert (Nr : rz <> []) by (intros ->; discriminate Cz).
  pose proof monic_V1 as V1. pose proof (K_nonneg count) as K0.
  pose proof (K_le (S count) ltac:(lia)) as KS. rewrite K_S in KS.
  destruct (monic_body qz rz (K count) (K count) HQ HM K0 K0 Nr Cl KS ltac:(nia)) as [Hb Hres].
  split; [exact Hb|]. intros [q' r'] E. destruct (POLYDIV_MAX <? S count)%nat; [exact I|]. cbn [fst snd].
  destruct (Hres q' r' E) as (Hq' & Hr' & [Hlt|Hz]).
  - change (@length (T AZ)) with (@length Z) in *. apply IH; [lia| |].
    + apply (cb_mono (K count + K count)); auto. rewrite K_S. nia.
    + now rewrite K_S.
  - now apply loop_fits_zero.
Qed.
End Loop.

(* the closed form: |u_i| <= U, |v_j| <= V, leading coefficient of v nonzero, U (1+V)^(len u - len v + 1) < 2^53 *)
Lemma polydiv_fits_of_bounds (uz : list Z) (U : Z) : 0 <= U -> cb U uz ->
  U * (1 + V) ^ Z.of_nat (length uz - length vz + 1) < 2 ^ 53 -> polydiv_fits (ZA := AZ) Z.abs (fun _ _ => True) uz vz.
Proof.
  intros U0 HU HB. unfold polydiv_fits.
  apply (monic_loop (length uz) U U0 HB); [lia| |].
  - intros k. destruct k; cbn; rewrite Z.mul_1_r; exact U0.
  - cbn. rewrite Z.mul_1_r. exact HU.
Qed.

End Monic.
