(* Proofs/PinTest_series.v -- compiled copy of coq/Props/pending/C14_series.v.txt (package series): the header below
   reproduces the imports and scope of Props/C14.v, the rest is the pending block verbatim. *)
From Coq Require Import Reals Lra.
From OV Require Import Model.CFun Proofs.CFun Proofs.CFunAlg Proofs.CFunInv Proofs.CFunReal.
Local Open Scope R_scope.

(* ---- series half of C14 (package series): the model's exp / sinh / cosh / sin / cos ARE the sums of their defining
   power series, for every complex argument.  Vocabulary (Proofs/CFunSeries.v; pinned by series_vocabulary below):
   cpown z n = z^n and csum f N = sum_{n<=N} f n with the model's cmul / cadd (the formulas of src/complex/mod.rs),
   cpsum a z N = sum_{n<=N} a_n z^n, cconv s l = both components of s N converge (Un_cv) to those of l, which is the
   same as |s N - l| -> 0.  RtoC r = (r, 0).  Proof route: scaled binomial theorem in the ring C, the standard
   library's defining series of exp / cos / sin on the two axes, Mertens' theorem for the Cauchy product of absolutely
   convergent real series (Coquelicot is_series_mult), parity splitting, the rotation z |-> i z. *)
From OV Require Import Proofs.CFunSeries Proofs.CFunSeriesTrig Proofs.CFunSeriesAbs Proofs.CFunSeriesAll.

Theorem series_vocabulary :
  (forall z : C, cpown z 0 = cone) /\
  (forall (z : C) (n : nat), cpown z (S n) = cmul z (cpown z n)) /\
  (forall f : nat -> C, csum f 0 = f 0%nat) /\
  (forall (f : nat -> C) (N : nat), csum f (S N) = cadd (csum f N) (f (S N))) /\
  (forall (a : nat -> C) (z : C) (N : nat), cpsum a z N = csum (fun n => cmul (a n) (cpown z n)) N) /\
  (forall (s : nat -> C) (l : C),
     cconv s l <-> Un_cv (fun N => re (s N)) (re l) /\ Un_cv (fun N => im (s N)) (im l)) /\
  (forall (s : nat -> C) (l : C), cconv s l <-> Un_cv (fun N => cabs (csub (s N) l)) 0) /\
  (forall (s : nat -> C) (l l' : C), cconv s l -> cconv s l' -> l = l').
Proof. exact series_vocabulary_lemma. Qed.
Check series_vocabulary :
  (forall z : C, cpown z 0 = cone) /\
  (forall (z : C) (n : nat), cpown z (S n) = cmul z (cpown z n)) /\
  (forall f : nat -> C, csum f 0 = f 0%nat) /\
  (forall (f : nat -> C) (N : nat), csum f (S N) = cadd (csum f N) (f (S N))) /\
  (forall (a : nat -> C) (z : C) (N : nat), cpsum a z N = csum (fun n => cmul (a n) (cpown z n)) N) /\
  (forall (s : nat -> C) (l : C),
     cconv s l <-> Un_cv (fun N => re (s N)) (re l) /\ Un_cv (fun N => im (s N)) (im l)) /\
  (forall (s : nat -> C) (l : C), cconv s l <-> Un_cv (fun N => cabs (csub (s N) l)) 0) /\
  (forall (s : nat -> C) (l l' : C), cconv s l -> cconv s l' -> l = l').
Print Assumptions series_vocabulary.
(* non-vacuity of the uniqueness clause: a sequence that does converge (the exponential series at 1 + i), and the
   vocabulary computes what it should: the partial sum to N = 2 is 1 + z + z^2/2 *)
Example series_vocabulary_nonvacuous :
  cconv (cpsum (fun n => RtoC (/ INR (fact n))) (1, 1)) (cexp (1, 1)) /\
  forall z : C, cpsum (fun n => RtoC (/ INR (fact n))) z 2 = cadd (cadd cone z) (cmul (RtoC (1 / 2)) (cmul z z)).
Proof. exact (conj (proj1 (exp_series_lemma (1, 1))) exp_partial_sum_2). Qed.

(* exp z = sum_n z^n / n!  for every complex z, and the sum is nothing else *)
Theorem exp_series : forall z : C,
  cconv (cpsum (fun n => RtoC (/ INR (fact n))) z) (cexp z) /\
  (forall l : C, cconv (cpsum (fun n => RtoC (/ INR (fact n))) z) l -> l = cexp z).
Proof. exact exp_series_lemma. Qed.
Check exp_series : forall z : C,
  cconv (cpsum (fun n => RtoC (/ INR (fact n))) z) (cexp z) /\
  (forall l : C, cconv (cpsum (fun n => RtoC (/ INR (fact n))) z) l -> l = cexp z).
Print Assumptions exp_series.

(* the exponential series converges absolutely (sum |z^n/n!| = exp |z|); the truncation error after the term N is at most
   the tail of the real series at |z|, which is at most |z|^(N+1)/(N+1)! * exp |z|, which tends to 0 *)
Theorem exp_series_absolute : forall z : C,
  infinite_sum (fun n => cabs (cmul (RtoC (/ INR (fact n))) (cpown z n))) (exp (cabs z)) /\
  (forall N : nat,
     cabs (csub (cexp z) (cpsum (fun n => RtoC (/ INR (fact n))) z N))
     <= exp (cabs z) - sum_f_R0 (fun n => / INR (fact n) * cabs z ^ n) N
     <= cabs z ^ S N / INR (fact (S N)) * exp (cabs z)) /\
  Un_cv (fun N => cabs z ^ S N / INR (fact (S N)) * exp (cabs z)) 0.
Proof. exact exp_series_absolute_lemma. Qed.
Check exp_series_absolute : forall z : C,
  infinite_sum (fun n => cabs (cmul (RtoC (/ INR (fact n))) (cpown z n))) (exp (cabs z)) /\
  (forall N : nat,
     cabs (csub (cexp z) (cpsum (fun n => RtoC (/ INR (fact n))) z N))
     <= exp (cabs z) - sum_f_R0 (fun n => / INR (fact n) * cabs z ^ n) N
     <= cabs z ^ S N / INR (fact (S N)) * exp (cabs z)) /\
  Un_cv (fun N => cabs z ^ S N / INR (fact (S N)) * exp (cabs z)) 0.
Print Assumptions exp_series_absolute.

(* sinh z = sum_n z^(2n+1)/(2n+1)!,  cosh z = sum_n z^(2n)/(2n)! *)
Theorem hyperbolic_series : forall z : C,
  cconv (fun N => csum (fun n => cmul (RtoC (/ INR (fact (2 * n + 1)))) (cpown z (2 * n + 1))) N) (csinh z) /\
  cconv (fun N => csum (fun n => cmul (RtoC (/ INR (fact (2 * n)))) (cpown z (2 * n))) N) (ccosh z).
Proof. exact hyperbolic_series_lemma. Qed.
Check hyperbolic_series : forall z : C,
  cconv (fun N => csum (fun n => cmul (RtoC (/ INR (fact (2 * n + 1)))) (cpown z (2 * n + 1))) N) (csinh z) /\
  cconv (fun N => csum (fun n => cmul (RtoC (/ INR (fact (2 * n)))) (cpown z (2 * n))) N) (ccosh z).
Print Assumptions hyperbolic_series.

(* sin z = sum_n (-1)^n z^(2n+1)/(2n+1)!,  cos z = sum_n (-1)^n z^(2n)/(2n)! *)
Theorem trig_series : forall z : C,
  cconv (fun N => csum (fun n => cmul (RtoC ((-1) ^ n / INR (fact (2 * n + 1)))) (cpown z (2 * n + 1))) N) (csin z) /\
  cconv (fun N => csum (fun n => cmul (RtoC ((-1) ^ n / INR (fact (2 * n)))) (cpown z (2 * n))) N) (ccos z).
Proof. exact trig_series_lemma. Qed.
Check trig_series : forall z : C,
  cconv (fun N => csum (fun n => cmul (RtoC ((-1) ^ n / INR (fact (2 * n + 1)))) (cpown z (2 * n + 1))) N) (csin z) /\
  cconv (fun N => csum (fun n => cmul (RtoC ((-1) ^ n / INR (fact (2 * n)))) (cpown z (2 * n))) N) (ccos z).
Print Assumptions trig_series.

(* the same four as power series sum_n a_n z^n over every n (a_n = 0 at the other parity; Nat.div2 n = floor (n/2)):
   the whole sequence of partial sums converges *)
Theorem power_series_forms : forall z : C,
  cconv (cpsum (fun n => RtoC (if Nat.odd n then / INR (fact n) else 0)) z) (csinh z) /\
  cconv (cpsum (fun n => RtoC (if Nat.even n then / INR (fact n) else 0)) z) (ccosh z) /\
  cconv (cpsum (fun n => RtoC (if Nat.odd n then (-1) ^ Nat.div2 n / INR (fact n) else 0)) z) (csin z) /\
  cconv (cpsum (fun n => RtoC (if Nat.even n then (-1) ^ Nat.div2 n / INR (fact n) else 0)) z) (ccos z).
Proof. exact power_series_forms_lemma. Qed.
Check power_series_forms : forall z : C,
  cconv (cpsum (fun n => RtoC (if Nat.odd n then / INR (fact n) else 0)) z) (csinh z) /\
  cconv (cpsum (fun n => RtoC (if Nat.even n then / INR (fact n) else 0)) z) (ccosh z) /\
  cconv (cpsum (fun n => RtoC (if Nat.odd n then (-1) ^ Nat.div2 n / INR (fact n) else 0)) z) (csin z) /\
  cconv (cpsum (fun n => RtoC (if Nat.even n then (-1) ^ Nat.div2 n / INR (fact n) else 0)) z) (ccos z).
Print Assumptions power_series_forms.
