(* Proofs/Newton2Sqrt.v -- C17 over the reals: the x^2 - c family, the half that Proofs/NewtonReal.v
   leaves open (package newton2).  NewtonReal.newton_sqrt_lemma: an Ok answer is within tol of sqrt c.
   Here: from ANY x0 > 0 the run never panics and DOES answer Ok as soon as
        (max_iter - 1) * tol  >  (x0 + c/x0)/2 - sqrt c
   (the central difference of a quadratic is exact, so the pass is Heron's x -> (x + c/x)/2; after the
   first pass the iterates decrease towards sqrt c and every failed test |dx| > tol consumes more than
   tol of the distance (x0 + c/x0)/2 - sqrt c).  The basin is the whole half line x0 > 0. *)
From Coq Require Import List Arith Lia Reals Lra Psatz.
From OV Require Import Base.Panic Base.Arith Model.Newton
  Proofs.NewtonLoop Proofs.Newton Proofs.NewtonReal Proofs.Newton2Real Proofs.Newton2Scalar.
Import ListNotations.
Local Open Scope R_scope.

Section Sqrt2.
Variables c tl dl : R.
Hypothesis Hc : 0 < c.
Hypothesis Hd : dl <> 0.
Let f (x : R) : res R := Ok (x * x - c).
Let s := R_sqrt.sqrt c.
Definition heron (x : R) : R := (x + c / x) / 2.

Lemma s_pos : 0 < s.
Proof. apply sqrt_lt_R0; exact Hc. Qed.
Lemma s_sqr : s * s = c.
Proof. apply sqrt_sqrt; lra. Qed.

Lemma heron_ge x : 0 < x -> s <= heron x.
Proof.
  intros Hx. pose proof s_pos as Hs. pose proof s_sqr as Hss. unfold heron.
  assert (Hw : c / x * x = c) by (field; lra).
  assert (Hwp : 0 < c / x) by (apply Rdiv_lt_0_compat; lra).
  set (w := c / x) in *.
  assert (Heq : x * ((x + w) / 2 - s) = (x - s) * (x - s) / 2).
  { replace (x * ((x + w) / 2 - s)) with ((x * x + w * x) / 2 - s * x) by field.
    rewrite Hw, <- Hss. field. }
  assert (0 <= (x - s) * (x - s)) by (apply Rle_0_sqr).
  destruct (Rle_dec s ((x + w) / 2)); auto. exfalso. nra.
Qed.

Lemma heron_le x : s <= x -> heron x <= x.
Proof.
  intros Hx. pose proof s_pos as Hs. pose proof s_sqr as Hss. unfold heron.
  assert (Hw : c / x * x = c) by (field; lra).
  assert (c / x <= x); [|lra].
  apply (Rmult_le_reg_r x); [lra|]. rewrite Hw. nra.
Qed.

Let step := scalar_step NRl tl dl f.

Lemma sqrt_pass x : 0 < x ->
  step x = Ok (heron x, R_leb (Rabs (x - heron x)) tl, [x + dl; x - dl; x]).
Proof. intros Hx. exact (sqrt_step c tl dl Hd x Hx). Qed.

(* no panic from a positive start *)
Lemma newton_sqrt_total n x0 : 0 < x0 ->
  exists res evs, newton_scalar NRl (mkCfg tl dl n x0) f = Ok (res, evs).
Proof.
  intros H0. unfold newton_scalar. cbn [tol delta max_iter guess].
  apply (nloop_total _ (fun y => 0 < y)); [|exact H0].
  intros y Hy. fold step. rewrite (sqrt_pass y Hy). do 3 eexists. split; [reflexivity|].
  pose proof (heron_ge y Hy). pose proof s_pos. lra.
Qed.

(* failed passes started at or above sqrt c *)
Lemma sqrt_run k y z es : run step k y z es -> s <= y ->
  s <= z <= y /\ INR k * tl <= y - z.
Proof.
  induction 1 as [x|k x x1 xk e es P Rn IH]; intros Hy.
  - cbn. lra.
  - pose proof s_pos as Hs. assert (Hx : 0 < x) by lra.
    pose proof (sqrt_pass x Hx) as Es. unfold step in Es. unfold pass in P. unfold step in P.
    pose proof (eq_trans (eq_sym Es) P) as Q. injection Q as E1 Hb _. subst x1.
    pose proof (heron_ge x Hx) as H1. pose proof (heron_le x Hy) as H2.
    destruct (IH H1) as [H3 H4]. split; [lra|].
    apply R_leb_false in Hb. rewrite Rabs_right in Hb by lra. rewrite S_INR. lra.
Qed.

Lemma newton_sqrt_converges_lemma n x0 : 0 < x0 ->
  heron x0 - s < INR (n - 1) * tl ->
  exists x evs, newton_scalar NRl (mkCfg tl dl n x0) f = Ok (NOk x, evs) /\ Rabs (x - s) <= tl.
Proof.
  intros H0 Hn. destruct (newton_sqrt_total n x0 H0) as (res & evs & H).
  destruct res as [x|x].
  - exists x, evs. split; [exact H|]. exact (newton_sqrt_lemma c tl dl Hc Hd n x0 x evs H0 H).
  - exfalso. unfold newton_scalar in H. cbn [tol delta max_iter guess] in H.
    apply nloop_spec in H as [(es & x' & _ & Rn & _)|(k & es & xk & x' & e & Hx & _)]; [|discriminate].
    pose proof (heron_ge x0 H0) as Hg.
    inversion Rn as [|k y y1 yk e es' P Rn' Ek]; subst.
    + cbn in Hn. lra.
    + pose proof (sqrt_pass x0 H0) as Es. unfold step in Es. unfold pass in P.
      pose proof (eq_trans (eq_sym Es) P) as Q. injection Q as E1 _ _. subst y1.
      destruct (sqrt_run _ _ _ _ Rn' Hg) as [H1 H2].
      replace (S k - 1)%nat with k in Hn by lia. lra.
Qed.

End Sqrt2.
