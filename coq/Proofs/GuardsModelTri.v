(* Proofs/GuardsModelTri.v -- C20 entry contracts of the tridiagonal family (9 entries of src/tridiagonal.rs) on the
   model functions of Model/Tridiag.v.  Every accepts_* is over ANY arithmetic (no ring law): the index arithmetic of
   the three diagonals never leaves its vectors for any n >= 1.
   Peculiarities, all stated:
     with_vectors / with_vecs : `n - 1` (usize) is evaluated before the comparison: an empty main diagonal is refused by
                                the checked subtraction (Panic Underflow, debug profile), every other mismatch by the
                                guard (Panic Guard).  In both cases no matrix is returned.
     solve                    : the zero-pivot refusals of the Thomas algorithm carry the same panic class as the size
                                guard (they are `panic!`s in the source): accepted sizes give `Ok u` with |u| = n or that
                                data-dependent refusal, never an index / underflow / division panic -- over every
                                arithmetic whose division answers for a divisor that is not == 0 (exact fields, f64,
                                Complex<f64>); over a field the refusal happens exactly at a zero pivot.
                                n = 0 (main[0] does not exist) is the dontcare tuple of driver/guardtable.py.
     mul (matrix * vector)    : n >= 1 (the table enumerates n from 1: Tridiagonal::new(0) itself underflows). *)
From Coq Require Import ZArith Bool Lia ZifyBool List Arith.
From OV Require Import Base.Panic Base.Arith Model.Vector Model.Matrix Model.Tridiag gen.GuardTable Model.Guards
  Proofs.Guards Proofs.GuardsModelBase Proofs.Tridiag.
From OV Require Proofs.TridiagTotal Proofs.TridiagSolve.
Import ListNotations.

Section TriContracts.
Context {A : Arith}.
Notation T := (T A).
Notation tridiag := (tridiag A).
Implicit Types t a b : tridiag.

Notation Zn n := (Z.of_nat n).
Notation Zl l := (Z.of_nat (length l)).

Ltac ndestr :=
  repeat match goal with
  | |- context [Nat.eqb ?a ?b] => destruct (Nat.eqb_spec a b)
  | |- context [Nat.ltb ?a ?b] => destruct (Nat.ltb_spec a b)
  | |- context [Nat.leb ?a ?b] => destruct (Nat.leb_spec a b)
  end; cbn [andb orb negb bind]; try reflexivity; try (exfalso; lia).

(* ---------------- constructors from three vectors ---------------- *)
Lemma rejects_tri_with_vecs (sub main sup : list T) :
  g_tri_with_vecs (Zl sub) (Zl main) (Zl sup) = true ->
  with_vecs sub main sup = Panic (if length main =? 0 then Underflow else Guard).
Proof.
  intros H. g_true H guard_tri_with_vecs_lemma ok_tri_with_vecs.
  destruct (Nat.eqb_spec (length main) 0) as [E|E].
  - unfold with_vecs, usub. rewrite E. reflexivity.
  - apply with_vecs_rejects; lia.
Qed.
Lemma accepts_tri_with_vecs (sub main sup : list T) :
  g_tri_with_vecs (Zl sub) (Zl main) (Zl sup) = false ->
  exists t, with_vecs sub main sup = Ok t /\ wfT t /\ tn t = length main.
Proof.
  intros H. g_false H guard_tri_with_vecs_lemma ok_tri_with_vecs.
  destruct (with_vecs_spec sub main sup) as (t & E & W & N & _); [lia..|]. eauto.
Qed.
Lemma rejects_tri_with_vectors (sub main sup : list T) :
  g_tri_with_vectors (Zl sub) (Zl main) (Zl sup) = true ->
  with_vectors sub main sup = Panic (if length main =? 0 then Underflow else Guard).
Proof.
  intros H. g_true H guard_tri_with_vectors_lemma ok_tri_with_vectors.
  destruct (Nat.eqb_spec (length main) 0) as [E|E].
  - unfold with_vectors, with_vecs, usub. rewrite E. reflexivity.
  - apply with_vecs_rejects; lia.
Qed.
Lemma accepts_tri_with_vectors (sub main sup : list T) :
  g_tri_with_vectors (Zl sub) (Zl main) (Zl sup) = false ->
  exists t, with_vectors sub main sup = Ok t /\ wfT t /\ tn t = length main.
Proof.
  intros H. g_false H guard_tri_with_vectors_lemma ok_tri_with_vectors.
  destruct (with_vecs_spec sub main sup) as (t & E & W & N & _); [lia..|]. eauto.
Qed.

(* ---------------- convert ---------------- *)
Lemma rejects_tri_convert t : g_tri_convert (Zn (tn t)) = true -> tconvert t = Panic Guard.
Proof.
  intros H. g_true H guard_tri_convert_lemma ok_tri_convert. unfold tconvert. ndestr.
Qed.
Lemma accepts_tri_convert t : wfT t -> g_tri_convert (Zn (tn t)) = false ->
  exists m, tconvert t = Ok m /\ wfM m /\ rows m = tn t /\ cols m = tn t.
Proof.
  intros W H. g_false H guard_tri_convert_lemma ok_tri_convert.
  destruct (tconvert_spec t W) as (m & E & Wm & R & C & _); [lia|]. eauto.
Qed.

(* ---------------- index / index_mut ---------------- *)
Lemma rejects_tri_index t i j : g_tri_index (Zn (tn t)) (Zn i) (Zn j) = true -> tindex t i j = Panic Guard.
Proof.
  intros H. g_true H guard_tri_index_lemma ok_tri_index. apply tindex_refuses. unfold in_band. lia.
Qed.
Lemma accepts_tri_index t i j : wfT t -> g_tri_index (Zn (tn t)) (Zn i) (Zn j) = false ->
  exists x, tindex t i j = Ok x.
Proof.
  intros W H. g_false H guard_tri_index_lemma ok_tri_index.
  rewrite (tindex_in_band t i j W); [eauto | lia | lia | unfold in_band; lia].
Qed.

Lemma rejects_tri_index_mut t i j x : g_tri_index_mut (Zn (tn t)) (Zn i) (Zn j) = true -> tset t i j x = Panic Guard.
Proof.
  intros H. g_true H guard_tri_index_mut_lemma ok_tri_index_mut. apply tset_refuses. unfold in_band. lia.
Qed.
Lemma accepts_tri_index_mut t i j x : wfT t -> g_tri_index_mut (Zn (tn t)) (Zn i) (Zn j) = false ->
  exists t', tset t i j x = Ok t'.
Proof.
  intros W H. g_false H guard_tri_index_mut_lemma ok_tri_index_mut.
  destruct (tset_in_band t i j x W) as (t' & E & _); [lia | lia | unfold in_band; lia |]. eauto.
Qed.
(* an accepted write changes exactly the addressed entry of the matrix: every other entry (i', j') of the n x n
   matrix -- on or off the three diagonals -- reads as before, and the size is kept *)
Lemma frame_tri_index_mut t i j x t' : wfT t -> tset t i j x = Ok t' ->
  wfT t' /\ tn t' = tn t /\
  forall p q, p < tn t -> q < tn t -> (p, q) <> (i, j) -> dense t' p q = dense t p q.
Proof.
  intros W E. destruct (tridiag_writes_lemma t i j x W) as [Hok Hrej].
  destruct (Nat.lt_ge_cases i (tn t)) as [Hi|Hi]; [|rewrite Hrej in E by auto; discriminate].
  destruct (Nat.lt_ge_cases j (tn t)) as [Hj|Hj]; [|rewrite Hrej in E by auto; discriminate].
  assert (Hb : in_band i j \/ ~ in_band i j) by (unfold in_band; lia).
  destruct Hb as [Hb|Hb]; [|rewrite Hrej in E by auto; discriminate].
  destruct (Hok Hi Hj Hb) as (t1 & E1 & W1 & N1 & F). rewrite E1 in E. injection E as <-.
  split; [exact W1|]. split; [exact N1|]. intros p q Ha Hb' Hne. rewrite F by auto.
  destruct (Nat.eqb_spec p i); destruct (Nat.eqb_spec q j); cbn [andb]; try reflexivity. subst; contradiction.
Qed.

(* ---------------- + - ---------------- *)
Lemma rejects_tri_add a b : g_tri_add (Zn (tn a)) (Zn (tn b)) = true -> tadd a b = Panic Guard.
Proof. intros H. g_true H guard_tri_add_lemma ok_tri_add. unfold tadd, tsize. ndestr. Qed.
Lemma rejects_tri_sub a b : g_tri_sub (Zn (tn a)) (Zn (tn b)) = true -> tminus a b = Panic Guard.
Proof. intros H. g_true H guard_tri_sub_lemma ok_tri_sub. unfold tminus, tsize. ndestr. Qed.

Lemma zipw_len (f : T -> T -> T) (u v : list T) : length u = length v -> length (zipw f u v) = length u.
Proof. intros E. unfold zipw. rewrite map_length, combine_length. lia. Qed.

Lemma accepts_tri_add a b : wfT a -> wfT b -> g_tri_add (Zn (tn a)) (Zn (tn b)) = false ->
  exists c, tadd a b = Ok c /\ wfT c /\ tn c = tn a.
Proof.
  intros (Ma & Sa & Pa) (Mb & Sb & Pb) H. g_false H guard_tri_add_lemma ok_tri_add.
  assert (E : tn a = tn b) by lia.
  unfold tadd, tsize, vadd. rewrite E, Nat.eqb_refl. cbn [negb].
  rewrite Sa, Sb, Ma, Mb, Pa, Pb, E, !Nat.eqb_refl. cbn [bind].
  eexists; split; [reflexivity|]. unfold wfT; cbn. rewrite !zipw_len by congruence. repeat split; congruence.
Qed.
Lemma accepts_tri_sub a b : wfT a -> wfT b -> g_tri_sub (Zn (tn a)) (Zn (tn b)) = false ->
  exists c, tminus a b = Ok c /\ wfT c /\ tn c = tn a.
Proof.
  intros (Ma & Sa & Pa) (Mb & Sb & Pb) H. g_false H guard_tri_sub_lemma ok_tri_sub.
  assert (E : tn a = tn b) by lia.
  unfold tminus, tsize, vsub. rewrite E, Nat.eqb_refl. cbn [negb].
  rewrite Sa, Sb, Ma, Mb, Pa, Pb, E, !Nat.eqb_refl. cbn [bind].
  eexists; split; [reflexivity|]. unfold wfT; cbn. rewrite !zipw_len by congruence. repeat split; congruence.
Qed.

(* ---------------- &T * &v ---------------- *)
Lemma rejects_tri_mul_vec t (v : list T) : g_tri_mul_vec (Zn (tn t)) (Zl v) = true -> tmul t v = Panic Guard.
Proof. intros H. g_true H guard_tri_mul_vec_lemma ok_tri_mul_vec. apply tmul_rejects. lia. Qed.

Lemma accepts_tri_mul_vec t (v : list T) : wfT t -> 1 <= tn t -> g_tri_mul_vec (Zn (tn t)) (Zl v) = false ->
  exists w, tmul t v = Ok w /\ length w = tn t.
Proof.
  intros (Hm & Hs & Hp) Hn H. g_false H guard_tri_mul_vec_lemma ok_tri_mul_vec.
  assert (Hv : length v = tn t) by lia.
  unfold tmul, tmul_gen, tsize. rewrite Hv, Nat.eqb_refl. cbn [negb andb].
  set (n := tn t) in *.
  destruct (Nat.eqb_spec n 1) as [N1|N1].
  - rewrite !(rd_ok _ _ zero) by lia. cbn [bind]. rewrite upd_ok by (rewrite repeat_length; lia).
    eexists; split; [reflexivity|]. now rewrite upd_list_length, repeat_length.
  - rewrite !(rd_ok _ _ zero) by lia. cbn [bind]. rewrite upd_ok by (rewrite repeat_length; lia). cbn [bind].
    unfold usub. destruct (Nat.leb_spec 1 n); [|lia]. cbn [bind].
    match goal with |- context [for_ 1 (n - 1) ?body ?s0] =>
      destruct (for_inv (fun (_ : nat) (w : list T) => length w = n) 1 (n - 1) body s0) as (w & Ew & Lw) end.
    { lia. }
    { now rewrite upd_list_length, repeat_length. }
    { intros i w Hi Lw. rewrite !(rd_ok _ _ zero) by lia. cbn [bind]. rewrite upd_ok by lia.
      eexists; split; [reflexivity|]. now rewrite upd_list_length. }
    rewrite Ew. cbn [bind]. destruct (Nat.leb_spec 2 n); [|lia]. cbn [bind].
    rewrite !(rd_ok _ _ zero) by lia. cbn [bind]. rewrite upd_ok by lia.
    eexists; split; [reflexivity|]. now rewrite upd_list_length.
Qed.

(* ---------------- solve ---------------- *)
Lemma rejects_tri_solve t (r : list T) : g_tri_solve (Zn (tn t)) (Zl r) = true -> tsolve t r = Panic Guard.
Proof. intros H. g_true H guard_tri_solve_lemma ok_tri_solve. unfold tsolve. ndestr. Qed.

Lemma accepts_tri_solve t (r : list T) :
  (forall x y : T, eqb y zero = false -> exists z, div x y = Ok z) ->
  wfT t -> 1 <= tn t -> g_tri_solve (Zn (tn t)) (Zl r) = false ->
  (exists u, tsolve t r = Ok u /\ length u = tn t) \/ tsolve t r = Panic Guard.
Proof.
  intros Hdiv W Hn H. g_false H guard_tri_solve_lemma ok_tri_solve.
  apply (TridiagTotal.thomas_shape_lemma Hdiv t r W Hn). lia.
Qed.

Lemma accepts_tri_solve_field (FL : FieldLaws A) t (r : list T) :
  wfT t -> 1 <= tn t -> g_tri_solve (Zn (tn t)) (Zl r) = false ->
  (exists u, tsolve t r = Ok u /\ length u = tn t /\
     forall k, k < tn t -> exists p, thomas_pivot t k = Ok p /\ p <> zero) \/
  (tsolve t r = Panic Guard /\ exists k, k < tn t /\ thomas_pivot t k = Ok zero).
Proof.
  intros W Hn H. g_false H guard_tri_solve_lemma ok_tri_solve.
  destruct (TridiagSolve.thomas_lemma FL t r W Hn) as [(u & E & L & _ & P)|R]; [lia|left; eauto|right; exact R].
Qed.

End TriContracts.
