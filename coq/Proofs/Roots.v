(* Proofs/Roots.v -- lemmas about Model/Roots.v.
   Part 1 (this file): statements that hold for EVERY RootArith (any arithmetic, floats included):
   the iteration bound of laguer, the number of values returned by poly_solve, degree-0 rejection. *)
From Coq Require Import List Arith Bool Lia.
From OV Require Import Base.Panic Base.Arith Model.Complex gen.Params Model.Roots.
Import ListNotations.

Section AnyArith.
Context (RA : RootArith).
Notation K := (T (KK RA)).

(* ---------- laguer: at most MAXIT - 1 passes through the loop ---------- *)
Lemma laguer_loop_iters a m x0 fin0 fuel : forall iter x l,
  laguer_loop RA a m x0 fin0 fuel iter x = Ok l -> 1 <= iter -> liters l <= iter + fuel - 1.
Proof.
  induction fuel as [|fuel IH]; intros iter x l E Hi; cbn [laguer_loop] in E.
  - injection E as <-. cbn [liters]. lia.
  - apply bind_ok in E as (o & Eo & E). destruct o as [[why tok]|x'].
    + injection E as <-. cbn [liters]. lia.
    + apply IH in E; lia.
Qed.

Lemma laguer_bounded_lemma a x l : laguer RA a x = Ok l -> liters l <= MAXIT - 1.
Proof.
  unfold laguer. intros E. apply bind_ok in E as (m & _ & E).
  apply laguer_loop_iters in E; lia.
Qed.

(* an Exhausted exit has used every pass *)
Lemma laguer_loop_exhausted a m x0 fin0 fuel : forall iter x l,
  laguer_loop RA a m x0 fin0 fuel iter x = Ok l -> 1 <= iter -> lwhy l = Exhausted -> liters l = iter + fuel - 1.
Proof.
  induction fuel as [|fuel IH]; intros iter x l E Hi Hw; cbn [laguer_loop] in E.
  - injection E as <-. cbn [liters]. lia.
  - apply bind_ok in E as (o & Eo & E). destruct o as [[why tok]|x'].
    + injection E as <-. cbn [lwhy] in Hw. subst why.
      unfold laguer_step in Eo.
      apply bind_ok in Eo as (st & _ & Eo). destruct st as [[[b err] d] f].
      destruct (leb _ _); [discriminate|].
      apply bind_ok in Eo as (g & _ & Eo). apply bind_ok in Eo as (fb & _ & Eo).
      apply bind_ok in Eo as (m1 & _ & Eo). apply bind_ok in Eo as (sq & _ & Eo).
      apply bind_ok in Eo as (dx & _ & Eo).
      destruct (eqb _ _); [discriminate|].
      destruct (negb _); [discriminate|].
      apply bind_ok in Eo as (fr & _ & Eo). discriminate.
    + apply IH in E; [lia | lia | assumption].
Qed.

Lemma laguer_exhausted_lemma a x l :
  laguer RA a x = Ok l -> lwhy l = Exhausted -> liters l = MAXIT - 1.
Proof.
  unfold laguer. intros E Hw. apply bind_ok in E as (m & _ & E).
  apply laguer_loop_exhausted in E; [lia | lia | exact Hw].
Qed.

(* ---------- poly_solve: exactly n values ---------- *)
Lemma quadratic_solve_gen_length fixed a b c rs :
  quadratic_solve_gen RA fixed a b c = Ok rs -> length rs = 2.
Proof.
  unfold quadratic_solve_gen. intros E.
  apply bind_ok in E as (s1 & _ & E). apply bind_ok in E as (s2 & _ & E).
  apply bind_ok in E as (r0 & _ & E). apply bind_ok in E as (r1 & _ & E).
  now injection E as <-.
Qed.

Lemma cubic_solve_gen_length cs a b c d rs :
  cubic_solve_gen RA cs a b c d = Ok rs -> length rs = 3.
Proof.
  unfold cubic_solve_gen. destruct (cubic_disc RA a b c d) as [[d0 d1] rad]. intros E.
  destruct (eqb d0 zero && eqb d1 zero).
  - apply bind_ok in E as (r & _ & E). now injection E as <-.
  - repeat (apply bind_ok in E as (? & _ & E)). now injection E as <-.
Qed.

Lemma solve_body_length j ad roots tr ad' roots' tr' :
  solve_body RA j (ad, roots, tr) = Ok (ad', roots', tr') -> length roots' = length roots.
Proof.
  unfold solve_body. intros E.
  apply bind_ok in E as (adv & _ & E). apply bind_ok in E as (l & _ & E).
  apply bind_ok in E as (r' & Er & E). apply bind_ok in E as (db & _ & E).
  injection E as _ <- _. apply upd_Ok_inv in Er as (_ & ->). apply upd_list_length.
Qed.

Lemma polish_body_length a j roots tr roots' tr' :
  polish_body RA a j (roots, tr) = Ok (roots', tr') -> length roots' = length roots.
Proof.
  unfold polish_body. intros E.
  apply bind_ok in E as (x & _ & E). apply bind_ok in E as (l & _ & E).
  apply bind_ok in E as (r' & Er & E). injection E as <- _.
  apply upd_Ok_inv in Er as (_ & ->). apply upd_list_length.
Qed.

Lemma roots_length_lemma coeffs refine rs tr :
  poly_solve RA coeffs refine = Ok (rs, tr) -> length rs = length coeffs - 1.
Proof.
  unfold poly_solve. intros E.
  apply bind_ok in E as (degree & Ed & E).
  unfold usub in Ed. destruct (1 <=? length coeffs) eqn:H1; [|discriminate]. injection Ed as <-.
  set (n := length coeffs - 1) in *.
  destruct (n =? 0) eqn:H0; [discriminate|].
  apply bind_ok in E as (r1 & E1 & E).
  assert (L1 : length r1 = n).
  { destruct (n =? 1).
    - apply bind_ok in E1 as (c0 & _ & E1). apply bind_ok in E1 as (c1 & _ & E1).
      apply bind_ok in E1 as (r & _ & E1). apply upd_Ok_inv in E1 as (_ & ->).
      rewrite upd_list_length. apply repeat_length.
    - injection E1 as <-. apply repeat_length. }
  apply bind_ok in E as (r2 & E2 & E).
  assert (L2 : length r2 = n).
  { destruct (n =? 2) eqn:H2.
    - apply Nat.eqb_eq in H2. rewrite H2.
      apply bind_ok in E2 as (a & _ & E2). apply bind_ok in E2 as (b & _ & E2).
      apply bind_ok in E2 as (c & _ & E2). now apply quadratic_solve_gen_length in E2.
    - now injection E2 as <-. }
  apply bind_ok in E as (r3 & E3 & E).
  assert (L3 : length r3 = n).
  { destruct (n =? 3) eqn:H3.
    - apply Nat.eqb_eq in H3. rewrite H3.
      apply bind_ok in E3 as (a & _ & E3). apply bind_ok in E3 as (b & _ & E3).
      apply bind_ok in E3 as (c & _ & E3). apply bind_ok in E3 as (d & _ & E3).
      now apply cubic_solve_gen_length in E3.
    - now injection E3 as <-. }
  apply bind_ok in E as ([r4 t4] & E4 & E).
  assert (L4 : length r4 = n).
  { destruct (3 <? n).
    - apply bind_ok in E4 as ([[ad rr] tt] & Ef & E4). injection E4 as <- _. cbn [fst snd].
      unfold for_rev in Ef.
      pose (I := fun (_ : nat) (s : list K * list K * list (lres K)) => length (snd (fst s)) = n).
      apply (for_rev_from_inv_partial I) in Ef; [exact Ef | exact L3 |].
      intros k [[ad0 rr0] tt0] [[ad1 rr1] tt1] _ HI Eb. unfold I in *; cbn [fst snd] in *.
      apply solve_body_length in Eb. congruence.
    - now injection E4 as <- _. }
  destruct refine.
  - unfold for_ in E.
    pose (I := fun (_ : nat) (s : list K * list (lres K)) => length (fst s) = n).
    apply (for_from_inv_partial I) in E; [exact E | exact L4 |].
    intros i [rr0 tt0] [rr1 tt1] _ HI Eb. unfold I in *; cbn [fst] in *.
    apply polish_body_length in Eb. congruence.
  - now injection E as <- _.
Qed.

Lemma degree0_rejected_lemma (c : K) refine : poly_solve RA [c] refine = Panic Guard.
Proof. reflexivity. Qed.

Lemma empty_rejected_lemma refine : poly_solve RA [] refine = Panic Underflow.
Proof. reflexivity. Qed.

(* the trace: one laguer call per root in the deflation phase (degree >= 4), one more per root when polishing *)
End AnyArith.
