(* Proofs/PolyExactDiv.v -- C12 "exactly over exact coefficients", at IEEE binary64: the long division [polydiv] of
   Model/Poly.v at the float instance AF returns the float images of the integer quotient and remainder whenever the
   integer long division goes through (every leading-coefficient division is exact: AZ's div) and the sizes met on
   the way stay below 2^53.

   First generically (two arithmetics FA, ZA related by R, as in Proofs/PolyExact.v), then for binary64. *)
From Coq Require Import ZArith Lia List Bool Arith.
From OV Require Import Base.Panic Base.Arith gen.Params Model.Poly Proofs.Poly Proofs.PolyDiv Proofs.PolyExact.
Import ListNotations.
Local Open Scope Z_scope.

Section GenDiv.
Context {FA ZA : Arith}.
Variables (R : FA -> ZA -> Prop) (N : ZA -> Z).
(* Dfit a b: what the division a / b needs beyond an exact quotient smaller than 2^53 (nothing for a real division;
   for the complex one, the sizes of the products it forms) *)
Variable Dfit : ZA -> ZA -> Prop.
Hypothesis EL : ExactLaws R R N.
Hypothesis R_eqb0 : forall x a, R x a -> eqb x zero = eqb a zero.
Hypothesis R_div : forall x y a b c, R x a -> R y b -> Dfit a b -> div a b = Ok c -> N c < B53 ->
  exists z, div x y = Ok z /\ R z c.
Let R_zero : R zero zero := el_Rs_zero _ _ _ EL.

Notation fitsN := (fun a => N a < B53).

Lemma gen_rd l m : Forall2 R l m -> forall i a, rd m i = Ok a -> exists x, rd l i = Ok x /\ R x a.
Proof.
  intros H i a E. unfold rd in *. pose proof (F2_nth_error _ _ _ H i) as Hi.
  destruct (nth_error l i) as [x|], (nth_error m i) as [a'|]; try contradiction; try discriminate.
  injection E as <-. eauto.
Qed.

Lemma gen_upd_list l m x a : Forall2 R l m -> R x a -> forall i, Forall2 R (upd_list l i x) (upd_list m i a).
Proof. intros H Hx. induction H as [|y b l m Hy H IH]; intros [|i]; cbn; constructor; auto. Qed.

Lemma gen_upd l m x a i m' : Forall2 R l m -> R x a -> upd m i a = Ok m' ->
  exists l', upd l i x = Ok l' /\ Forall2 R l' m'.
Proof.
  intros H Hx E. unfold upd in *. rewrite (F2_length _ _ _ H).
  destruct (i <? length m)%nat; [|discriminate]. injection E as <-. eexists; split; [reflexivity|].
  now apply gen_upd_list.
Qed.

Lemma gen_trim_rev l m : Forall2 R l m -> Forall2 R (trim_rev l) (trim_rev m).
Proof.
  intros H. induction H as [|c cz l m Hc H IH]; [constructor|].
  destruct H as [|b bz l m Hb H].
  - cbn. constructor; auto.
  - rewrite !trim_rev_cons2. rewrite (R_eqb0 _ _ Hc). destruct (eqb cz zero); auto.
Qed.

Lemma gen_ptrim l m m' : Forall2 R l m -> ptrim m = Ok m' -> exists l', ptrim l = Ok l' /\ Forall2 R l' m'.
Proof.
  intros H E. unfold ptrim in *. destruct m as [|cz m0]; [discriminate|].
  assert (E' : m' = rev (trim_rev (rev (cz :: m0)))) by (now injection E). subst m'. clear E.
  destruct l as [|c l0]; [inversion H|]. eexists; split; [reflexivity|].
  apply F2_rev, gen_trim_rev, F2_rev. exact H.
Qed.

Lemma gen_is_zero l m : Forall2 R l m -> is_zero l = is_zero m.
Proof. intros H. unfold is_zero. induction H as [|c cz l m Hc H IH]; cbn; auto. now rewrite (R_eqb0 _ _ Hc), IH. Qed.

Lemma gen_repeat_zero n : Forall2 R (repeat zero n) (repeat zero n).
Proof. induction n; cbn; constructor; auto. Qed.

(* what one pass of the loop must satisfy, on the integer side: the quotient term c, the updated quotient, the
   products c * v_j and the updated remainder are all smaller than 2^53 *)
Definition body_fits (qz rz vz : list ZA) : Prop :=
  forall rl vl c, rd rz (length rz - 1) = Ok rl -> rd vz (length vz - 1) = Ok vl -> div rl vl = Ok c ->
    let t := repeat zero ((length rz - 1) - (length vz - 1)) ++ [c] in
    Dfit rl vl /\ N c < B53 /\ Forall fitsN (padd qz t) /\ conv_fits N t vz /\ Forall fitsN (psub rz (pmul t vz)).

Lemma gen_body q r v qz rz vz qz' rz' : Forall2 R q qz -> Forall2 R r rz -> Forall2 R v vz ->
  body_fits qz rz vz -> polydiv_body qz rz vz = Ok (qz', rz') ->
  exists q' r', polydiv_body q r v = Ok (q', r') /\ Forall2 R q' qz' /\ Forall2 R r' rz'.
Proof.
  intros Hq Hr Hv Hf E. unfold polydiv_body in *. unfold body_fits in Hf.
  rewrite (F2_length _ _ _ Hr), (F2_length _ _ _ Hv).
  destruct (rd rz (length rz - 1)) as [rl|] eqn:E1; [|discriminate]. cbn [bind] in E.
  destruct (rd vz (length vz - 1)) as [vl|] eqn:E2; [|discriminate]. cbn [bind] in E.
  destruct (div rl vl) as [c|] eqn:E3; [|discriminate]. cbn [bind] in E.
  destruct (Hf rl vl c eq_refl eq_refl E3) as (Fd & Fc & Fq & Fm & Fr). clear Hf.
  destruct (gen_rd _ _ Hr _ _ E1) as (xl & -> & Rl). destruct (gen_rd _ _ Hv _ _ E2) as (yl & -> & Rv). cbn [bind].
  destruct (R_div _ _ _ _ _ Rl Rv Fd E3 Fc) as (z & -> & Rz). cbn [bind].
  set (n := (length rz - 1 - (length vz - 1))%nat) in *.
  assert (Ht : Forall2 R (repeat zero n ++ [z]) (repeat zero n ++ [c])).
  { apply Forall2_app; [apply gen_repeat_zero|]. constructor; auto. }
  pose proof (gen_padd_w _ _ _ EL _ _ _ _ Hq Ht Fq) as Hq1.
  pose proof (gen_pmul _ _ _ EL _ _ _ _ Ht Hv Fm) as Hm.
  pose proof (gen_psub_w _ _ _ EL _ _ _ _ Hr Hm Fr) as Hr1.
  rewrite (F2_length _ _ _ Hr1).
  destruct (usub _ 1) as [l|] eqn:E4; [|discriminate]. cbn [bind] in *.
  destruct (upd (psub rz _) l zero) as [r2|] eqn:E5; [|discriminate]. cbn [bind] in E.
  destruct (gen_upd _ _ _ _ _ _ Hr1 R_zero E5) as (r2' & -> & Hr2). cbn [bind].
  destruct (ptrim r2) as [r3|] eqn:E6; [|discriminate]. cbn [bind] in E.
  destruct (gen_ptrim _ _ _ Hr2 E6) as (r3' & -> & Hr3). cbn [bind].
  destruct (ptrim (padd qz _)) as [q3|] eqn:E7; [|discriminate]. cbn [bind] in E.
  destruct (gen_ptrim _ _ _ Hq1 E7) as (q3' & -> & Hq3). cbn [bind].
  injection E as <- <-. eauto.
Qed.

(* the whole run: every pass fits *)
Fixpoint loop_fits (fuel count : nat) (qz rz vz : list ZA) : Prop :=
  if is_zero rz || (length rz <? length vz)%nat then True else
  match fuel with
  | O => True
  | S fuel' =>
      body_fits qz rz vz /\
      forall qr, polydiv_body qz rz vz = Ok qr ->
        if (POLYDIV_MAX <? S count)%nat then True else loop_fits fuel' (S count) (fst qr) (snd qr) vz
  end.

(* stepping lemmas (to establish loop_fits on concrete data without unfolding the fuel) *)
Lemma loop_fits_0 count qz rz vz : loop_fits 0 count qz rz vz.
Proof. cbn [loop_fits]. now destruct (is_zero rz || (length rz <? length vz)%nat). Qed.
Lemma loop_fits_stop fuel count qz rz vz : is_zero rz || (length rz <? length vz)%nat = true ->
  loop_fits fuel count qz rz vz.
Proof. intros H. destruct fuel; cbn [loop_fits]; rewrite H; exact I. Qed.
Lemma loop_fits_step fuel count qz rz vz : body_fits qz rz vz ->
  (forall qr, polydiv_body qz rz vz = Ok qr -> loop_fits fuel (S count) (fst qr) (snd qr) vz) ->
  loop_fits (S fuel) count qz rz vz.
Proof.
  intros Hb Hn. cbn [loop_fits]. destruct (is_zero rz || (length rz <? length vz)%nat); [exact I|].
  split; [exact Hb|]. intros qr E. destruct (POLYDIV_MAX <? S count)%nat; [exact I|]. now apply Hn.
Qed.

Definition rel_out (o : list FA * list FA + pderr) (oz : list ZA * list ZA + pderr) : Prop :=
  match o, oz with
  | inl (q, r), inl (qz, rz) => Forall2 R q qz /\ Forall2 R r rz
  | inr e, inr ez => e = ez
  | _, _ => False
  end.

Lemma gen_loop v vz : Forall2 R v vz -> forall fuel count q r qz rz oz,
  Forall2 R q qz -> Forall2 R r rz -> loop_fits fuel count qz rz vz ->
  polydiv_loop fuel count qz rz vz = Ok oz ->
  exists o, polydiv_loop fuel count q r v = Ok o /\ rel_out o oz.
Proof.
  intros Hv. induction fuel as [|fuel IH]; intros count q r qz rz oz Hq Hr Hf E.
  - cbn [polydiv_loop loop_fits] in *. rewrite (gen_is_zero _ _ Hr), (F2_length _ _ _ Hr), (F2_length _ _ _ Hv).
    destruct (is_zero rz || (length rz <? length vz)%nat); injection E as <-; eexists; (split; [reflexivity|]); cbn; auto.
  - cbn [polydiv_loop loop_fits] in *. rewrite (gen_is_zero _ _ Hr), (F2_length _ _ _ Hr), (F2_length _ _ _ Hv).
    destruct (is_zero rz || (length rz <? length vz)%nat).
    + injection E as <-; eexists; (split; [reflexivity|]); cbn; auto.
    + destruct Hf as [Hb Hn]. destruct (polydiv_body qz rz vz) as [[qz' rz']|] eqn:Eb; [|discriminate].
      cbn [bind] in E. destruct (gen_body _ _ _ _ _ _ _ _ Hq Hr Hv Hb Eb) as (q' & r' & -> & Hq' & Hr'). cbn [bind].
      specialize (Hn _ eq_refl). destruct (POLYDIV_MAX <? S count)%nat.
      * injection E as <-; eexists; (split; [reflexivity|]); cbn; auto.
      * cbn [fst snd] in *. eapply IH; eauto.
Qed.

Definition polydiv_fits (uz vz : list ZA) : Prop := loop_fits (S POLYDIV_MAX) 0 [] uz vz.

Lemma gen_polydiv u v uz vz oz : Forall2 R u uz -> Forall2 R v vz -> polydiv_fits uz vz ->
  polydiv uz vz = Ok oz -> exists o, polydiv u v = Ok o /\ rel_out o oz.
Proof.
  intros Hu Hv Hf E. unfold polydiv in *. rewrite (F2_length _ _ _ Hv), (gen_is_zero _ _ Hv).
  destruct (length vz =? 0)%nat; [injection E as <-; eexists; (split; [reflexivity|]); cbn; auto|].
  destruct (is_zero vz); [injection E as <-; eexists; (split; [reflexivity|]); cbn; auto|].
  eapply gen_loop; eauto.
Qed.

End GenDiv.
