(* Proofs/TridiagRound.v -- rounding-error analysis of Thomas solve in the STANDARD MODEL of floating-point
   arithmetic: the operations are arbitrary functions on the reals with
        fsub x y = (x - y)(1 + d),   fmul x y = (x y)(1 + d),   fdiv x y = (x / y)(1 + d),   |d| <= u
   (no underflow/overflow; u <= 1/64).  [ARnd] is the Arith with these operations, so [tsolve] below is the SAME
   Gallina function that the correspondence check runs at Qc and at the IEEE primitive floats.
   Result (componentwise backward error, the form of Higham, Accuracy and Stability, sec. 9.6): whenever
   [tsolve t r = Ok x] the computed x solves a nearby tridiagonal system EXACTLY, row by row:
        a_i (1+ea) x_{i-1} + ( b_i (1+eb) + a_i g_i eg ) x_i + c_i (1+ec) x_{i+1} = r_i
        |ea| <= 3u   |eb| <= 5u   |ec| <= 5u   |eg| <= 9u
   where g_i is the computed multiplier gamma_i = fdiv sup_{i-1} beta_{i-1}  (|g_i| <= about 1 for a diagonally
   dominant matrix, so that the perturbation is then of order u |T|). *)
From Coq Require Import List Arith Lia Bool Reals Lra Psatz.
From OV Require Import Base.Panic Base.Arith Model.Vector Model.Matrix Model.Tridiag Proofs.Tridiag Proofs.TridiagTrace Proofs.TridiagTotal.
Import ListNotations.
Local Open Scope R_scope.

(* ---------- real-number lemmas: products and quotients of (1 + d) factors ---------- *)
Section Bounds.
Variable u : R.
Hypothesis u_range : 0 <= u <= 1 / 64.

Lemma pm1 d : Rabs d <= u -> 1 - u <= 1 + d <= 1 + u.
Proof. intros H. unfold Rabs in H. destruct (Rcase_abs d); lra. Qed.

Lemma pm_mul lo1 hi1 lo2 hi2 x y : 0 <= lo1 -> 0 <= lo2 -> lo1 <= x <= hi1 -> lo2 <= y <= hi2 ->
  lo1 * lo2 <= x * y <= hi1 * hi2.
Proof. intros. split; nra. Qed.

(* p/q is within K of 1 as soon as |p - q| <= K q *)
Lemma quot_close p q K : 0 < q -> - (K * q) <= p - q <= K * q -> Rabs (p / q - 1) <= K.
Proof.
  intros Hq H. replace (p / q - 1) with ((p - q) * / q) by (field; lra).
  assert (Hi : 0 < / q) by now apply Rinv_0_lt_compat.
  apply Rabs_le. split.
  - apply (Rmult_le_reg_r q); [exact Hq|]. rewrite Rmult_assoc, Rinv_l by lra. lra.
  - apply (Rmult_le_reg_r q); [exact Hq|]. rewrite Rmult_assoc, Rinv_l by lra. lra.
Qed.

Definition Ea (d4 d8' : R) : R := (1 + d4) / (1 + d8') - 1.
Definition Ec (d1 d7 d5 d6 : R) : R := (1 + d1) * (1 + d7) / ((1 + d5) * (1 + d6)) - 1.
Definition Eb (d3 d5 d6 d8 : R) : R := (1 + d3) / ((1 + d5) * (1 + d6) * (1 + d8)) - 1.
Definition Eg (d4 d7' d2 d3 d5 d6 d8 : R) : R :=
  (1 + d4) * (1 + d7') - (1 + d2) * (1 + d3) / ((1 + d5) * (1 + d6) * (1 + d8)).

Lemma Ea_bound d4 d8' : Rabs d4 <= u -> Rabs d8' <= u -> Rabs (Ea d4 d8') <= 3 * u.
Proof.
  intros H4 H8. apply pm1 in H4, H8. unfold Ea. apply quot_close; [lra|]. nra.
Qed.

Lemma Ec_bound d1 d7 d5 d6 : Rabs d1 <= u -> Rabs d7 <= u -> Rabs d5 <= u -> Rabs d6 <= u ->
  Rabs (Ec d1 d7 d5 d6) <= 5 * u.
Proof.
  intros H1 H7 H5 H6. apply pm1 in H1, H7, H5, H6. unfold Ec.
  assert (Hp := pm_mul (1 - u) (1 + u) (1 - u) (1 + u) (1 + d1) (1 + d7)).
  assert (Hq := pm_mul (1 - u) (1 + u) (1 - u) (1 + u) (1 + d5) (1 + d6)).
  specialize (Hp ltac:(lra) ltac:(lra) H1 H7). specialize (Hq ltac:(lra) ltac:(lra) H5 H6).
  set (p := (1 + d1) * (1 + d7)) in *. set (q := (1 + d5) * (1 + d6)) in *.
  apply quot_close; [nra|]. split; nra.
Qed.

Lemma Eb_bound d3 d5 d6 d8 : Rabs d3 <= u -> Rabs d5 <= u -> Rabs d6 <= u -> Rabs d8 <= u ->
  Rabs (Eb d3 d5 d6 d8) <= 5 * u.
Proof.
  intros H3 H5 H6 H8. apply pm1 in H3, H5, H6, H8. unfold Eb.
  assert (Hq1 := pm_mul (1 - u) (1 + u) (1 - u) (1 + u) (1 + d5) (1 + d6) ltac:(lra) ltac:(lra) H5 H6).
  assert (Hq := pm_mul ((1 - u) * (1 - u)) ((1 + u) * (1 + u)) (1 - u) (1 + u)
                  ((1 + d5) * (1 + d6)) (1 + d8) ltac:(nra) ltac:(lra) Hq1 H8).
  set (q := (1 + d5) * (1 + d6) * (1 + d8)) in *. set (p := 1 + d3) in *.
  apply quot_close; [nra|]. split; nra.
Qed.

Lemma Eg_bound d4 d7' d2 d3 d5 d6 d8 :
  Rabs d4 <= u -> Rabs d7' <= u -> Rabs d2 <= u -> Rabs d3 <= u -> Rabs d5 <= u -> Rabs d6 <= u -> Rabs d8 <= u ->
  Rabs (Eg d4 d7' d2 d3 d5 d6 d8) <= 9 * u.
Proof.
  intros H4 H7 H2 H3 H5 H6 H8.
  (* Eg = [(1+d4)(1+d7') - 1] - [(1+d2)(1+d3)/((1+d5)(1+d6)(1+d8)) - 1] *)
  assert (B1 : Rabs ((1 + d4) * (1 + d7') - 1) <= 3 * u).
  { apply pm1 in H4, H7.
    assert (Hp := pm_mul (1 - u) (1 + u) (1 - u) (1 + u) (1 + d4) (1 + d7') ltac:(lra) ltac:(lra) H4 H7).
    apply Rabs_le. split; nra. }
  assert (B2 : Rabs ((1 + d2) * (1 + d3) / ((1 + d5) * (1 + d6) * (1 + d8)) - 1) <= 6 * u).
  { apply pm1 in H2, H3, H5, H6, H8.
    assert (Hp := pm_mul (1 - u) (1 + u) (1 - u) (1 + u) (1 + d2) (1 + d3) ltac:(lra) ltac:(lra) H2 H3).
    assert (Hq1 := pm_mul (1 - u) (1 + u) (1 - u) (1 + u) (1 + d5) (1 + d6) ltac:(lra) ltac:(lra) H5 H6).
    assert (Hq := pm_mul ((1 - u) * (1 - u)) ((1 + u) * (1 + u)) (1 - u) (1 + u)
                    ((1 + d5) * (1 + d6)) (1 + d8) ltac:(nra) ltac:(lra) Hq1 H8).
    set (q := (1 + d5) * (1 + d6) * (1 + d8)) in *. set (p := (1 + d2) * (1 + d3)) in *.
    apply quot_close; [nra|]. split; nra. }
  unfold Eg.
  replace ((1 + d4) * (1 + d7') - (1 + d2) * (1 + d3) / ((1 + d5) * (1 + d6) * (1 + d8)))
    with (((1 + d4) * (1 + d7') - 1) - ((1 + d2) * (1 + d3) / ((1 + d5) * (1 + d6) * (1 + d8)) - 1)) by ring.
  eapply Rle_trans; [apply Rabs_triang|]. rewrite Rabs_Ropp. lra.
Qed.

(* the row identity: pure field algebra on the local relations of the trace *)
Lemma row_identity (a b c r' beta gam gamn y yprev x xprev xn d1 d2 d3 d4 d5 d6 d7 d8 d7' d8' : R) :
  beta <> 0 -> 1 + d5 <> 0 -> 1 + d6 <> 0 -> 1 + d8 <> 0 -> 1 + d8' <> 0 ->
  xprev = (yprev - gam * x * (1 + d7')) * (1 + d8') ->
  x = (y - gamn * xn * (1 + d7)) * (1 + d8) ->
  y = (r' - a * yprev * (1 + d4)) * (1 + d5) / beta * (1 + d6) ->
  beta = (b - a * gam * (1 + d2)) * (1 + d3) ->
  gamn = c / beta * (1 + d1) ->
  a * (1 + Ea d4 d8') * xprev + (b * (1 + Eb d3 d5 d6 d8) + a * gam * Eg d4 d7' d2 d3 d5 d6 d8) * x
    + c * (1 + Ec d1 d7 d5 d6) * xn = r'.
Proof.
  intros Hb H5 H6 H8 H8' R1 R2 R3 R4 R5.
  assert (Hy : r' = y * beta / ((1 + d5) * (1 + d6)) + a * yprev * (1 + d4)).
  { rewrite R3. field. repeat split; assumption. }
  assert (Hyp : yprev = xprev / (1 + d8') + gam * x * (1 + d7')) by (rewrite R1; field; assumption).
  assert (Hyy : y = x / (1 + d8) + gamn * xn * (1 + d7)) by (rewrite R2; field; assumption).
  assert (Hbg : beta * gamn = c * (1 + d1)) by (rewrite R5; field; assumption).
  rewrite Hy, Hyy, Hyp. unfold Ea, Eb, Ec, Eg.
  replace ((x / (1 + d8) + gamn * xn * (1 + d7)) * beta / ((1 + d5) * (1 + d6)))
    with (beta * x / ((1 + d5) * (1 + d6) * (1 + d8)) + (beta * gamn) * xn * (1 + d7) / ((1 + d5) * (1 + d6)))
    by (field; repeat split; assumption).
  rewrite Hbg. rewrite R4 at 1. field. repeat split; assumption.
Qed.

Lemma dom_step_alg (ab aa ac X a3 : R) :
  0 <= aa -> 0 <= ac -> 0 <= ab -> (aa + ac) * (1 + u) <= ab * (1 - u) ->
  X >= ab - aa * (1 + u) -> 1 - u <= a3 -> ac * (1 + u) <= X * a3.
Proof.
  intros Ha Hc Hb D HX H3.
  assert (L0 : 0 <= ab - aa * (1 + u)) by nra.
  assert (P2 : (ab - aa * (1 + u)) * (1 - u) <= X * a3) by nra.
  nra.
Qed.

End Bounds.

(* ---------- the standard-model arithmetic and the backward-error theorem ---------- *)
Section Round.
Variable u : R.
Hypothesis u_range : 0 <= u <= 1 / 64.
Variables fadd fsub fmul fdiv : R -> R -> R.
Hypothesis fsub_ok : forall x y, exists d, Rabs d <= u /\ fsub x y = (x - y) * (1 + d).
Hypothesis fmul_ok : forall x y, exists d, Rabs d <= u /\ fmul x y = x * y * (1 + d).
Hypothesis fdiv_ok : forall x y, y <> 0 -> exists d, Rabs d <= u /\ fdiv x y = x / y * (1 + d).

Definition ARnd : Arith := {|
  T := R; zero := 0; one := 1;
  add := fadd; sub := fsub; mul := fmul; neg := Ropp; abs := Rabs;
  div := fun x y => Ok (fdiv x y);
  eqb := fun x y => if Req_EM_T x y then true else false;
  ltb := fun x y => if Rlt_dec x y then true else false;
  leb := fun x y => if Rle_dec x y then true else false |}.

Lemma one_plus_nz d : Rabs d <= u -> 1 + d <> 0.
Proof using u_range. intros H. unfold Rabs in H. destruct (Rcase_abs d); lra. Qed.

Lemma abs0 : Rabs 0 <= u.
Proof using u_range. rewrite Rabs_R0. lra. Qed.

Lemma sub_mul_form a b c : exists dm ds, Rabs dm <= u /\ Rabs ds <= u /\
  fsub a (fmul b c) = (a - b * c * (1 + dm)) * (1 + ds).
Proof using fsub_ok fmul_ok.
  destruct (fmul_ok b c) as (dm & Hm & Em). destruct (fsub_ok a (fmul b c)) as (ds & Hs & Es).
  exists dm, ds. rewrite Es, Em. auto.
Qed.

Lemma div_sub_mul_form r' a yp beta : beta <> 0 -> exists d4 d5 d6, Rabs d4 <= u /\ Rabs d5 <= u /\ Rabs d6 <= u /\
  fdiv (fsub r' (fmul a yp)) beta = (r' - a * yp * (1 + d4)) * (1 + d5) / beta * (1 + d6).
Proof using fsub_ok fmul_ok fdiv_ok.
  intros Hb. destruct (sub_mul_form r' a yp) as (d4 & d5 & H4 & H5 & E).
  destruct (fdiv_ok (fsub r' (fmul a yp)) beta Hb) as (d6 & H6 & E6).
  exists d4, d5, d6. rewrite E6, E. auto.
Qed.

Lemma eqb_false_nz (x : ARnd) : eqb x zero = false -> x <> 0.
Proof. cbn. destruct (Req_EM_T x 0); [discriminate|auto]. Qed.

Lemma backward_rows (t : tridiag ARnd) (r x bl gl yl : list ARnd) :
  wfT t -> (1 <= tn t)%nat -> length r = tn t ->
  length x = tn t -> length bl = tn t -> length gl = tn t -> length yl = tn t ->
  fwd_rel t r (tn t) bl gl yl ->
  nth (tn t - 1) x zero = nth (tn t - 1) yl zero ->
  (forall i, (i + 1 < tn t)%nat -> nth i x zero = (nth i yl zero - nth (i + 1) gl zero * nth (i + 1) x zero)%A) ->
  forall i, (i < tn t)%nat -> exists ea eb ec eg,
    Rabs ea <= 3 * u /\ Rabs eb <= 5 * u /\ Rabs ec <= 5 * u /\ Rabs eg <= 9 * u /\
    nth i (0 :: tsub t) 0 * (1 + ea) * nth i (0 :: x) 0
    + (nth i (tmain t) 0 * (1 + eb) + nth i (0 :: tsub t) 0 * nth i gl 0 * eg) * nth i x 0
    + nth i (tsup t) 0 * (1 + ec) * nth (i + 1) x 0 = nth i r 0.
Proof using u_range fsub_ok fmul_ok fdiv_ok.
  intros W Hn Hr Lx Lb Lg Ly Rel Vlast Vback. pose proof W as (Hm & Hs & Hp).
  destruct Rel as (B0 & Z0 & D0 & RelS).
  change (@zero ARnd) with 0 in *. change (T ARnd) with R in *.
  (* the right-hand part of a row: either the last row, or the two relations that involve the next unknown *)
  assert (Right : forall i, (i < tn t)%nat -> nth i bl 0 <> 0 ->
            exists gamn xn d1 d7 d8, Rabs d1 <= u /\ Rabs d7 <= u /\ Rabs d8 <= u /\
              xn = nth (i + 1) x 0 /\
              nth i x 0 = (nth i yl 0 - gamn * xn * (1 + d7)) * (1 + d8) /\
              gamn = nth i (tsup t) 0 / nth i bl 0 * (1 + d1)).
  { intros i Hi Hb. destruct (Nat.lt_ge_cases (i + 1) (tn t)) as [L|L].
    - specialize (Vback i L). cbn in Vback.
      destruct (sub_mul_form (nth i yl 0) (nth (i + 1) gl 0) (nth (i + 1) x 0)) as (d7 & d8 & H7 & H8 & E78).
      destruct (RelS (i + 1)%nat ltac:(lia)) as (Dg & _). replace (i + 1 - 1)%nat with i in Dg by lia.
      cbn in Dg. injection Dg as Dg.
      destruct (fdiv_ok (nth i (tsup t) 0) (nth i bl 0) Hb) as (d1 & H1 & E1).
      exists (nth (i + 1) gl 0), (nth (i + 1) x 0), d1, d7, d8. repeat split; auto.
      + exact (eq_trans Vback E78).
      + exact (eq_trans (eq_sym Dg) E1).
    - assert (i = tn t - 1)%nat as -> by lia.
      exists 0, (nth (tn t - 1 + 1) x 0), 0, 0, 0. repeat split; try apply abs0.
      + transitivity (nth (tn t - 1) yl 0); [exact Vlast|change (T ARnd) with R; ring].
      + rewrite (nth_overflow (tsup t)) by (change (T ARnd) with R; lia). unfold Rdiv. ring. }
  intros i Hi. destruct i as [|k].
  - (* first row: no left neighbour *)
    cbn [nth]. assert (Hb : nth 0 bl 0 <> 0) by (apply eqb_false_nz; exact Z0).
    destruct (Right 0%nat Hi Hb) as (gamn & xn & d1 & d7 & d8 & H1 & H7 & H8 & Exn & R2 & R5).
    cbn in D0. injection D0 as D0.
    destruct (fdiv_ok (nth 0 r 0) (nth 0 bl 0) Hb) as (d6 & H6 & E6).
    exists (Ea 0 0), (Eb 0 0 d6 d8), (Ec d1 d7 0 d6), (Eg 0 0 0 0 0 d6 d8).
    split; [apply Ea_bound; auto using abs0|]. split; [apply Eb_bound; auto using abs0|].
    split; [apply Ec_bound; auto using abs0|]. split; [apply Eg_bound; auto using abs0|].
    subst xn.
    assert (Hid : 0 * (1 + Ea 0 0) * 0
                  + (nth 0 (tmain t) 0 * (1 + Eb 0 0 d6 d8) + 0 * 0 * Eg 0 0 0 0 0 d6 d8) * nth 0 x 0
                  + nth 0 (tsup t) 0 * (1 + Ec d1 d7 0 d6) * nth (0 + 1) x 0 = nth 0 r 0).
    { apply (row_identity 0 (nth 0 (tmain t) 0) (nth 0 (tsup t) 0) (nth 0 r 0) (nth 0 bl 0) 0 gamn
               (nth 0 yl 0) 0 (nth 0 x 0) 0 (nth (0 + 1) x 0) d1 0 0 0 0 d6 d7 d8 0 0 Hb).
      - lra.
      - now apply one_plus_nz.
      - now apply one_plus_nz.
      - lra.
      - change (T ARnd) with R; ring.
      - exact R2.
      - transitivity (nth 0 r 0 / nth 0 bl 0 * (1 + d6)); [exact (eq_trans (eq_sym D0) E6)|change (T ARnd) with R; field; exact Hb].
      - transitivity (nth 0 (tmain t) 0); [exact B0|change (T ARnd) with R; ring].
      - exact R5. }
    etransitivity; [|exact Hid]. change (T ARnd) with R. ring.
  - (* a row with a left neighbour *)
    cbn [nth]. destruct (RelS (S k) ltac:(lia)) as (_ & Eb' & Zb & Dy).
    replace (S k - 1)%nat with k in * by lia.
    assert (Hb : nth (S k) bl 0 <> 0) by (apply eqb_false_nz; exact Zb).
    destruct (Right (S k) Hi Hb) as (gamn & xn & d1 & d7 & d8 & H1 & H7 & H8 & Exn & R2 & R5).
    cbn in Dy. injection Dy as Dy. cbn in Eb'.
    destruct (div_sub_mul_form (nth (S k) r 0) (nth k (tsub t) 0) (nth k yl 0) (nth (S k) bl 0) Hb)
      as (d4 & d5 & d6 & H4 & H5 & H6 & E456).
    destruct (sub_mul_form (nth (S k) (tmain t) 0) (nth k (tsub t) 0) (nth (S k) gl 0)) as (d2 & d3 & H2 & H3 & E23).
    pose proof (Vback k ltac:(lia)) as R1. cbn in R1. replace (k + 1)%nat with (S k) in R1 by lia.
    destruct (sub_mul_form (nth k yl 0) (nth (S k) gl 0) (nth (S k) x 0)) as (d7' & d8' & H7' & H8' & E78').
    exists (Ea d4 d8'), (Eb d3 d5 d6 d8), (Ec d1 d7 d5 d6), (Eg d4 d7' d2 d3 d5 d6 d8).
    split; [now apply Ea_bound|]. split; [now apply Eb_bound|].
    split; [now apply Ec_bound|]. split; [now apply Eg_bound|].
    subst xn.
    apply (row_identity (nth k (tsub t) 0) (nth (S k) (tmain t) 0) (nth (S k) (tsup t) 0) (nth (S k) r 0)
             (nth (S k) bl 0) (nth (S k) gl 0) gamn (nth (S k) yl 0) (nth k yl 0) (nth (S k) x 0) (nth k x 0) (nth (S k + 1) x 0)
             d1 d2 d3 d4 d5 d6 d7 d8 d7' d8' Hb); try (now apply one_plus_nz).
    + exact (eq_trans R1 E78').
    + exact R2.
    + exact (eq_trans (eq_sym Dy) E456).
    + exact (eq_trans Eb' E23).
    + exact R5.
Qed.

Theorem thomas_backward_error_lemma (t : tridiag ARnd) (r x : list ARnd) :
  wfT t -> (1 <= tn t)%nat -> length r = tn t -> tsolve t r = Ok x ->
  length x = tn t /\
  exists gl : list R, length gl = tn t /\
  forall i, (i < tn t)%nat -> exists ea eb ec eg,
    Rabs ea <= 3 * u /\ Rabs eb <= 5 * u /\ Rabs ec <= 5 * u /\ Rabs eg <= 9 * u /\
    nth i (0 :: tsub t) 0 * (1 + ea) * nth i (0 :: x) 0
    + (nth i (tmain t) 0 * (1 + eb) + nth i (0 :: tsub t) 0 * nth i gl 0 * eg) * nth i x 0
    + nth i (tsup t) 0 * (1 + ec) * nth (i + 1) x 0 = nth i r 0.
Proof using u_range fsub_ok fmul_ok fdiv_ok.
  intros W Hn Hr E.
  destruct (thomas_trace_lemma t r W Hn Hr x E) as (bl & gl & yl & Lx & Lb & Lg & Ly & Rel & Vlast & Vback).
  split; [exact Lx|]. exists gl. split; [exact Lg|].
  now apply (backward_rows t r x bl gl yl).
Qed.

(* ---------- diagonally dominant systems: the computed multipliers are at most 1 in magnitude ---------- *)
(* dominance with the margin the rounding needs:  (|sub_{i-1}| + |sup_i|)(1+u) <= |main_i|(1-u),  main_i /= 0 *)
Definition dominant_u (t : tridiag ARnd) : Prop :=
  forall i, (i < tn t)%nat ->
    nth i (tmain t) 0 <> 0 /\
    (Rabs (nth i (0 :: tsub t) 0) + Rabs (nth i (tsup t) 0)) * (1 + u) <= Rabs (nth i (tmain t) 0) * (1 - u).

Lemma abs_one_plus d : Rabs d <= u -> 1 - u <= Rabs (1 + d) <= 1 + u.
Proof using u_range.
  intros H. assert (H' := pm1 u u_range d H). rewrite Rabs_right by lra. exact H'.
Qed.

Lemma multipliers_bounded (t : tridiag ARnd) (r bl gl yl : list ARnd) (m : nat) :
  wfT t -> dominant_u t -> (m <= tn t)%nat -> fwd_rel t r m bl gl yl ->
  forall k, (k < m)%nat ->
    Rabs (nth k (tsup t) 0) * (1 + u) <= Rabs (nth k bl 0) /\ ((1 <= k)%nat -> Rabs (nth k gl 0) <= 1).
Proof using u_range fsub_ok fmul_ok fdiv_ok.
  intros W D Lm (B0 & Z0 & D0 & RelS). pose proof W as (Hm & Hs & Hp).
  change (@zero ARnd) with 0 in *. change (T ARnd) with R in *.
  induction k as [|k IH]; intros Hk.
  - split; [|lia]. destruct (D 0%nat ltac:(lia)) as (Nz & Dk). change (T ARnd) with R in *. cbn [nth] in Dk. rewrite Rabs_R0 in Dk.
    replace (nth 0 bl 0) with (nth 0 (tmain t) 0) by (symmetry; exact B0).
    pose proof (Rabs_pos (nth 0 (tmain t) 0)). pose proof (Rabs_pos (nth 0 (tsup t) 0)). change (T ARnd) with R in *; nra.
  - destruct (IH ltac:(lia)) as (Qk & _).
    destruct (RelS (S k) ltac:(lia)) as (Dg & Eb' & Zb & _). replace (S k - 1)%nat with k in * by lia.
    cbn in Dg. injection Dg as Dg. cbn in Eb'.
    assert (Hbk : nth k bl 0 <> 0).
    { destruct k as [|k']; [apply eqb_false_nz; exact Z0|].
      destruct (RelS (S k') ltac:(lia)) as (_ & _ & Zk & _). apply eqb_false_nz; exact Zk. }
    (* |gamma_{k+1}| <= 1 *)
    destruct (fdiv_ok (nth k (tsup t) 0) (nth k bl 0) Hbk) as (d1 & H1 & E1).
    assert (Hg : Rabs (nth (S k) gl 0) <= 1).
    { replace (nth (S k) gl 0) with (nth k (tsup t) 0 / nth k bl 0 * (1 + d1)) by (rewrite <- E1; exact Dg).
      unfold Rdiv. rewrite !Rabs_mult, Rabs_inv.
      pose proof (abs_one_plus d1 H1) as H1'. pose proof (Rabs_pos (nth k (tsup t) 0)) as Pc.
      assert (Pb : 0 < Rabs (nth k bl 0)) by now apply Rabs_pos_lt.
      assert (Pi : 0 < / Rabs (nth k bl 0)) by now apply Rinv_0_lt_compat.
      apply (Rmult_le_reg_r (Rabs (nth k bl 0))); [exact Pb|].
      replace (Rabs (nth k (tsup t) 0) * / Rabs (nth k bl 0) * Rabs (1 + d1) * Rabs (nth k bl 0))
        with (Rabs (nth k (tsup t) 0) * Rabs (1 + d1)) by (change (T ARnd) with R; field; change (T ARnd) with R in *; lra).
      change (T ARnd) with R in *; nra. }
    split; [|intros _; exact Hg].
    (* |beta_{k+1}| >= |sup_{k+1}| (1+u) *)
    destruct (sub_mul_form (nth (S k) (tmain t) 0) (nth k (tsub t) 0) (nth (S k) gl 0)) as (d2 & d3 & H2 & H3 & E23).
    replace (nth (S k) bl 0) with ((nth (S k) (tmain t) 0 - nth k (tsub t) 0 * nth (S k) gl 0 * (1 + d2)) * (1 + d3))
      by (rewrite <- E23; symmetry; exact Eb').
    destruct (D (S k) ltac:(lia)) as (Nz & Dk). change (T ARnd) with R in *. cbn [nth] in Dk.
    rewrite Rabs_mult.
    pose proof (abs_one_plus d2 H2) as H2'. pose proof (abs_one_plus d3 H3) as H3'.
    assert (Ht : Rabs (nth (S k) (tmain t) 0 - nth k (tsub t) 0 * nth (S k) gl 0 * (1 + d2))
                 >= Rabs (nth (S k) (tmain t) 0) - Rabs (nth k (tsub t) 0) * (1 + u)).
    { eapply Rge_trans; [apply Rle_ge, Rabs_triang_inv|]. rewrite !Rabs_mult.
      pose proof (Rabs_pos (nth k (tsub t) 0)). pose proof (Rabs_pos (nth (S k) gl 0)).
      change (T ARnd) with R in *.
      assert (P1 : Rabs (nth (S k) gl 0) * Rabs (1 + d2) <= 1 + u) by nra.
      nra. }
    destruct H3' as (H3' & _).
    apply (dom_step_alg u u_range (Rabs (nth (S k) (tmain t) 0)) (Rabs (nth k (tsub t) 0)) (Rabs (nth (S k) (tsup t) 0)));
      [apply Rabs_pos|apply Rabs_pos|apply Rabs_pos|exact Dk|exact Ht|exact H3'].
Qed.

(* backward stability for diagonally dominant systems, standard model: (T + dT) x = r with
   |da_i| <= 3u |a_i|,  |db_i| <= 5u |b_i| + 9u |a_i|,  |dc_i| <= 5u |c_i| *)
Theorem thomas_dominant_backward_stable_lemma (t : tridiag ARnd) (r x : list ARnd) :
  wfT t -> (1 <= tn t)%nat -> length r = tn t -> dominant_u t -> tsolve t r = Ok x ->
  length x = tn t /\
  forall i, (i < tn t)%nat -> exists da db dc,
    Rabs da <= 3 * u * Rabs (nth i (0 :: tsub t) 0) /\
    Rabs db <= 5 * u * Rabs (nth i (tmain t) 0) + 9 * u * Rabs (nth i (0 :: tsub t) 0) /\
    Rabs dc <= 5 * u * Rabs (nth i (tsup t) 0) /\
    (nth i (0 :: tsub t) 0 + da) * nth i (0 :: x) 0 + (nth i (tmain t) 0 + db) * nth i x 0
    + (nth i (tsup t) 0 + dc) * nth (i + 1) x 0 = nth i r 0.
Proof using u_range fsub_ok fmul_ok fdiv_ok.
  intros W Hn Hr D E.
  destruct (thomas_trace_lemma t r W Hn Hr x E) as (bl & gl & yl & Lx & Lb & Lg & Ly & Rel & Vlast & Vback).
  split; [exact Lx|]. intros i Hi.
  destruct (backward_rows t r x bl gl yl W Hn Hr Lx Lb Lg Ly Rel Vlast Vback i Hi)
    as (ea & eb & ec & eg & Ha & Hb & Hc & Hg & Eq).
  assert (Gi : Rabs (nth i (0 :: tsub t) 0 * nth i gl 0) <= Rabs (nth i (0 :: tsub t) 0)).
  { destruct i as [|k].
    - cbn [nth]. rewrite Rmult_0_l. lra.
    - destruct (multipliers_bounded t r bl gl yl (tn t) W D (le_n _) Rel (S k) Hi) as (_ & G). specialize (G ltac:(lia)).
      rewrite Rabs_mult. pose proof (Rabs_pos (nth (S k) (0 :: tsub t) 0)). change (T ARnd) with R in *; nra. }
  exists (nth i (0 :: tsub t) 0 * ea), (nth i (tmain t) 0 * eb + nth i (0 :: tsub t) 0 * nth i gl 0 * eg),
         (nth i (tsup t) 0 * ec).
  split; [rewrite Rabs_mult; pose proof (Rabs_pos (nth i (0 :: tsub t) 0)); change (T ARnd) with R in *; nra|].
  split.
  { eapply Rle_trans; [apply Rabs_triang|]. rewrite (Rabs_mult _ eb), (Rabs_mult _ eg).
    pose proof (Rabs_pos (nth i (tmain t) 0)). pose proof (Rabs_pos (nth i (0 :: tsub t) 0 * nth i gl 0)).
    pose proof (Rabs_pos eb). pose proof (Rabs_pos eg). change (T ARnd) with R in *; nra. }
  split; [rewrite Rabs_mult; pose proof (Rabs_pos (nth i (tsup t) 0)); change (T ARnd) with R in *; nra|].
  rewrite <- Eq. ring.
Qed.

(* ---------- strictly dominant systems are never refused in the standard model ---------- *)
Definition dominant_su (t : tridiag ARnd) : Prop :=
  forall i, (i < tn t)%nat ->
    (Rabs (nth i (0 :: tsub t) 0) + Rabs (nth i (tsup t) 0)) * (1 + u) < Rabs (nth i (tmain t) 0) * (1 - u).

Lemma dominant_su_u (t : tridiag ARnd) : dominant_su t -> dominant_u t.
Proof using u_range.
  intros D i Hi. specialize (D i Hi). split; [|lra].
  intros E. rewrite E, Rabs_R0 in D.
  pose proof (Rabs_pos (nth i (0 :: tsub t) 0)). pose proof (Rabs_pos (nth i (tsup t) 0)). nra.
Qed.

Lemma mult_le_1 (c beta d1 : R) : beta <> 0 -> Rabs c * (1 + u) <= Rabs beta -> Rabs d1 <= u ->
  Rabs (c / beta * (1 + d1)) <= 1.
Proof using u_range.
  intros Hb Q H1. unfold Rdiv. rewrite !Rabs_mult, Rabs_inv.
  pose proof (abs_one_plus d1 H1) as H1'. pose proof (Rabs_pos c) as Pc.
  assert (Pb : 0 < Rabs beta) by now apply Rabs_pos_lt.
  apply (Rmult_le_reg_r (Rabs beta)); [exact Pb|].
  replace (Rabs c * / Rabs beta * Rabs (1 + d1) * Rabs beta) with (Rabs c * Rabs (1 + d1)) by (field; lra).
  nra.
Qed.

Lemma candidate_nz (a b c g d2 d3 : R) : Rabs g <= 1 -> Rabs d2 <= u -> Rabs d3 <= u ->
  (Rabs a + Rabs c) * (1 + u) < Rabs b * (1 - u) ->
  (b - a * g * (1 + d2)) * (1 + d3) <> 0.
Proof using u_range.
  intros Hg H2 H3 D E.
  apply Rmult_integral in E. destruct E as [E|E]; [|apply (one_plus_nz d3 H3); exact E].
  assert (Ht : Rabs (b - a * g * (1 + d2)) >= Rabs b - Rabs a * (1 + u)).
  { eapply Rge_trans; [apply Rle_ge, Rabs_triang_inv|]. rewrite !Rabs_mult.
    pose proof (abs_one_plus d2 H2). pose proof (Rabs_pos a). pose proof (Rabs_pos g).
    assert (P1 : Rabs g * Rabs (1 + d2) <= 1 + u) by nra. nra. }
  rewrite E, Rabs_R0 in Ht. pose proof (Rabs_pos a). pose proof (Rabs_pos c). pose proof (Rabs_pos b). nra.
Qed.

Theorem thomas_dominant_solved_lemma (t : tridiag ARnd) (r : list ARnd) :
  wfT t -> (1 <= tn t)%nat -> length r = tn t -> dominant_su t -> exists x, tsolve t r = Ok x.
Proof using u_range fsub_ok fmul_ok fdiv_ok.
  intros W Hn Hr D. pose proof W as (Hm & Hs & Hp).
  assert (DA : forall x y : ARnd, eqb y zero = false -> exists z, div x y = Ok z)
    by (intros x y _; eexists; reflexivity).
  destruct (Proofs.TridiagTotal.thomas_shape_lemma DA t r W Hn Hr) as [(x & E & _)|E]; [now exists x|].
  exfalso.
  destruct (thomas_refusal_trace_lemma t r W Hn Hr DA E) as [Z|(k & bl & gl & yl & g & Hk & Lb & Rel & Eg & Ez)].
  - (* leading diagonal *)
    specialize (D 0%nat ltac:(lia)). cbn in Z.
    match type of Z with (if Req_EM_T ?v ?w then _ else _) = _ => destruct (Req_EM_T v w) as [E0|]; [|discriminate] end.
    change (@zero ARnd) with 0 in *. change (T ARnd) with R in *. rewrite E0, Rabs_R0 in D.
    pose proof (Rabs_pos (nth 0 (0 :: tsub t) 0)). pose proof (Rabs_pos (nth 0 (tsup t) 0)).
    change (T ARnd) with R in *. nra.
  - (* a later step: the candidate pivot cannot vanish *)
    destruct (multipliers_bounded t r bl gl yl k W (dominant_su_u t D) ltac:(lia) Rel (k - 1)%nat ltac:(lia)) as (Q & _).
    pose proof (fwd_rel_nz t r Hn Hr k bl gl yl (k - 1)%nat Rel ltac:(lia)) as Zb. apply eqb_false_nz in Zb.
    change (@zero ARnd) with 0 in *. change (T ARnd) with R in *.
    cbn in Eg. injection Eg as Eg.
    destruct (fdiv_ok (nth (k - 1) (tsup t) 0) (nth (k - 1) bl 0) Zb) as (d1 & H1 & E1).
    assert (Hg : Rabs g <= 1).
    { rewrite <- Eg. change (T ARnd) with R in *. rewrite E1. now apply mult_le_1. }
    destruct (sub_mul_form (nth k (tmain t) 0) (nth (k - 1) (tsub t) 0) g) as (d2 & d3 & H2 & H3 & E23).
    cbn in Ez. change (T ARnd) with R in *. rewrite E23 in Ez.
    match type of Ez with (if Req_EM_T ?v ?w then _ else _) = _ => destruct (Req_EM_T v w) as [E0|]; [|discriminate] end.
    specialize (D k ltac:(lia)).
    replace (nth k (0 :: tsub t) 0) with (nth (k - 1) (tsub t) 0) in D
      by (destruct k as [|k']; [lia|]; cbn [nth]; now replace (S k' - 1)%nat with k' by lia).
    change (T ARnd) with R in *.
    exact (candidate_nz (nth (k - 1) (tsub t) 0) (nth k (tmain t) 0) (nth k (tsup t) 0) g d2 d3 Hg H2 H3 D E0).
Qed.

(* both halves: a strictly dominant system (with margin) is solved, and the answer is backward stable *)
Theorem thomas_dominant_solved_and_stable_lemma (t : tridiag ARnd) (r : list ARnd) :
  wfT t -> (1 <= tn t)%nat -> length r = tn t -> dominant_su t ->
  exists x, tsolve t r = Ok x /\ length x = tn t /\
  forall i, (i < tn t)%nat -> exists da db dc,
    Rabs da <= 3 * u * Rabs (nth i (0 :: tsub t) 0) /\
    Rabs db <= 5 * u * Rabs (nth i (tmain t) 0) + 9 * u * Rabs (nth i (0 :: tsub t) 0) /\
    Rabs dc <= 5 * u * Rabs (nth i (tsup t) 0) /\
    (nth i (0 :: tsub t) 0 + da) * nth i (0 :: x) 0 + (nth i (tmain t) 0 + db) * nth i x 0
    + (nth i (tsup t) 0 + dc) * nth (i + 1) x 0 = nth i r 0.
Proof using u_range fsub_ok fmul_ok fdiv_ok.
  intros W Hn Hr D. destruct (thomas_dominant_solved_lemma t r W Hn Hr D) as (x & E).
  exists x. split; [exact E|].
  exact (thomas_dominant_backward_stable_lemma t r x W Hn Hr (dominant_su_u t D) E).
Qed.

End Round.
