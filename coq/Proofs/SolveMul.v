(* Proofs/SolveMul.v -- the code's own matrix-vector product (Model/Matrix.v: multiply = get_row + dot)
   computes the textbook sums, hence the solution returned by solve_basic reproduces the right-hand side
   under Matrix::multiply itself:  solve_basic M b = Ok x -> multiply M x = Ok b.  Package c01. *)
From Coq Require Import List Arith Lia Bool.
From OV Require Import Base.Panic Base.Arith Model.Vector Model.Matrix Model.Solve
  Proofs.Matrix Proofs.SolveBase Proofs.SolveBack Proofs.SolveGauss Proofs.Solve.
Import ListNotations.
Local Open Scope arith_scope.

Section Mul.
Context {A : Arith}.

Lemma combine_app_eq {X Y} (l1 l2 : list X) (k1 k2 : list Y) : length l1 = length k1 ->
  combine (l1 ++ l2) (k1 ++ k2) = combine l1 k1 ++ combine l2 k2.
Proof.
  revert k1. induction l1 as [|a l1 IH]; intros [|c k1] L; cbn in *; try lia; auto.
  f_equal. apply IH. lia.
Qed.

(* dot_raw adds the products in index order starting from zero: exactly sum_n (no ring law needed) *)
Lemma dot_raw_sum (r v : list A) : length r = length v ->
  dot_raw r v = sum_n (length r) (fun k => nth k r zero * nth k v zero).
Proof.
  revert v. induction r as [|x r' IH] using rev_ind; intros v L.
  - destruct v; [reflexivity|discriminate].
  - destruct v as [|y0 v0] using rev_ind.
    { rewrite app_length in L. cbn in L. lia. }
    clear IHv0. rename v0 into v'. rename y0 into y.
    rewrite !app_length in L. cbn [length] in L.
    assert (L' : length r' = length v') by lia.
    unfold dot_raw. rewrite combine_app_eq by exact L'. cbn [combine]. rewrite fold_left_app. cbn [fold_left fst snd].
    fold (dot_raw r' v'). rewrite (IH v' L').
    rewrite app_length. cbn [length]. rewrite Nat.add_1_r. cbn [sum_n].
    f_equal.
    + apply sum_n_ext. intros k Hk. rewrite !app_nth1 by lia. reflexivity.
    + rewrite (nth_middle r' [] x zero). rewrite L'. rewrite (nth_middle v' [] y zero). reflexivity.
Qed.

Lemma get_row_ok (m : matrix A) row : wf m -> (row < rows m)%nat ->
  exists r, get_row m row = Ok r /\ length r = cols m /\
    forall j, (j < cols m)%nat -> nth j r zero = ent m row j.
Proof.
  intros W Hr. unfold get_row. destruct (Nat.leb_spec (rows m) row); [lia|].
  destruct (for_inv (fun j0 (v : list A) => length v = cols m /\
              forall j, (j < j0)%nat -> nth j v zero = ent m row j)
            0%nat (cols m) (fun j v => let* x := rd (buf m) (row * cols m + j) in upd v j x)
            (repeat zero (cols m))) as (r & E & L & S).
  - lia.
  - split; [apply repeat_length|]. intros j Hj. lia.
  - intros j v Hj (L & S).
    rewrite (rd_ok (buf m) (row * cols m + j) zero) by (rewrite W; apply idx_lt; lia). cbn [bind].
    rewrite upd_ok by lia. eexists. split; [reflexivity|]. rewrite upd_list_length. split; auto.
    intros j' Hj'. rewrite nth_upd_list by lia. destruct (Nat.eqb_spec j' j) as [->|]; [reflexivity|].
    apply S. lia.
  - exists r. auto.
Qed.

Lemma multiply_ok (m : matrix A) (v : list A) : wf m -> length v = cols m ->
  multiply m v = Ok (map (fun i => mvprod (cols m) (ent m) (fun k => nth k v zero) i) (seq 0 (rows m))).
Proof.
  intros W L. unfold multiply. rewrite L, Nat.eqb_refl. cbn [negb].
  destruct (for_inv (fun i0 (acc : list A) =>
              acc = map (fun i => mvprod (cols m) (ent m) (fun k => nth k v zero) i) (seq 0 i0))
            0%nat (rows m) (fun row acc => let* r := get_row m row in let* d := dot r v in Ok (acc ++ [d])) [])
    as (r & E & S).
  - lia.
  - reflexivity.
  - intros i acc Hi ->.
    destruct (get_row_ok m i W) as (r & Er & Lr & Sr); [lia|].
    rewrite Er. cbn [bind]. unfold dot. rewrite Lr, L, Nat.eqb_refl. cbn [bind].
    eexists. split; [reflexivity|].
    rewrite seq_S, map_app. cbn [map]. f_equal. f_equal.
    rewrite dot_raw_sum by lia. rewrite Lr. unfold mvprod. apply sum_n_ext.
    intros k Hk. now rewrite Sr.
  - now rewrite E, S.
Qed.

(* the answer of solve_basic, multiplied by the matrix with the code's own product, is the right-hand side *)
Lemma solve_basic_multiply_lemma (FL : FieldLaws A) (M : matrix A) (b x : list A) :
  wf M -> rows M = cols M -> length b = rows M -> solve_basic M b = Ok x -> multiply M x = Ok b.
Proof.
  intros W Hsq Lb E.
  destruct (solve_basic_sound_lemma FL M b x W Hsq Lb E) as (Lx & S).
  rewrite multiply_ok by (auto; lia). f_equal.
  apply (nth_ext _ _ zero zero).
  - rewrite map_length, seq_length. lia.
  - intros i Hi. rewrite map_length, seq_length in Hi.
    rewrite (nth_indep _ zero (mvprod (cols M) (ent M) (fun k => nth k x zero) 0)) by (rewrite map_length, seq_length; lia).
    rewrite (map_nth (fun i => mvprod (cols M) (ent M) (fun k => nth k x zero) i)).
    rewrite seq_nth by lia. cbn [plus]. rewrite <- Hsq. apply S. lia.
Qed.

End Mul.
