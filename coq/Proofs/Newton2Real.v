(* Proofs/Newton2Real.v -- C17 over the reals, beyond the two families of Proofs/NewtonReal.v
   (package newton2).

   1. the real instance AR of Proofs/NewtonReal.v satisfies FieldLaws and PivLaws, hence the
      affine-systems theorems of Proofs/Newton2Sys.v hold at NRl;
   2. calculus of one Newton pass for a differentiable f on an interval [a, b] with
      0 < m <= |f'| <= Mb and f' Lipschitz with constant L (a bound on |f''|), root r in [a, b]:
        - the central difference quotient is a value f'(c) with |c - y| <= |delta| (mean value theorem);
        - finite-difference pass:   |x' - r| <= (L/m) |y - r| (|y - r| + |delta|),
                                    (m/Mb) |y - r| <= |dx| <= (Mb/m) |y - r|;
        - exact-derivative pass:    |x' - r| <= (L/m) |y - r|^2          (quadratic convergence);
   3. newton_scalar (the code's finite-difference solve): if it answers Ok x and its last pass
      started at y with [y - |delta|, y + |delta|] inside [a, b], then
        |y - r| <= (Mb/m) tol   and   |x - r| <= (L/m) ((Mb/m) tol) ((Mb/m) tol + |delta|);
   4. the basin: from any x0 with |x0 - r| <= rho, where [r - rho - |delta|, r + rho + |delta|]
      lies in [a, b] and q = (L/m)(rho + |delta|) < 1, newton_scalar never panics, every iterate
      stays within rho of r, and as soon as max_iter exceeds an N that depends only on
      (q, rho, Mb/m, tol) the answer is Ok x with the bound of 3. *)
From Coq Require Import List Arith Lia Reals Lra Psatz.
From OV Require Import Base.Panic Base.Arith Model.Vector Model.Matrix Model.Solve Model.Newton
  Proofs.Matrix Proofs.SolveBase Proofs.Solve Proofs.SolveComplete
  Proofs.NewtonLoop Proofs.Newton Proofs.NewtonJac Proofs.NewtonSys Proofs.NewtonReal Proofs.Newton2Sys.
Import ListNotations.
Local Open Scope R_scope.

(* ====================================================================================== *)
(* 1. laws of the real instance                                                            *)
(* ====================================================================================== *)
Lemma ARn_field : field_theory (@zero AR) one add mul sub neg (fun x y => mul x (Rinv y)) Rinv eq.
Proof. exact RealField.Rfield. Qed.

Lemma R_eqb_true x y : R_eqb x y = true <-> x = y.
Proof. unfold R_eqb. destruct (Req_EM_T x y); split; congruence. Qed.

Definition ARn_FieldLaws : FieldLaws AR.
Proof.
  refine {| fl_inv := Rinv : AR -> AR; fl_field := ARn_field |}.
  - exact R_eqb_true.
  - intros x y. cbn. unfold R_div, R_eqb. destruct (Req_EM_T y 0); reflexivity.
Defined.

Lemma ARn_PivLaws : PivLaws AR.
Proof.
  split; cbn.
  - intros x. split.
    + intros H. destruct (Req_dec x 0) as [|N]; auto. exfalso. exact (Rabs_no_R0 x N H).
    + intros ->. apply Rabs_R0.
  - intros x Hx. unfold R_ltb. destruct (Rlt_dec 0 (Rabs x)) as [|N]; auto.
    exfalso. apply N. now apply Rabs_pos_lt.
  - intros x. unfold R_ltb. destruct (Rlt_dec (Rabs x) 0) as [Lt|]; auto.
    pose proof (Rabs_pos x). lra.
Qed.

Lemma R_ltb_true x y : R_ltb x y = true <-> x < y.
Proof. unfold R_ltb. destruct (Rlt_dec x y); split; auto; discriminate. Qed.

Lemma R_leb_false x y : R_leb x y = false <-> y < x.
Proof. unfold R_leb. destruct (Rle_dec x y); split; auto; try discriminate; lra. Qed.

Lemma NRl_lt0 : ltb (mag NRl zero) (mag NRl zero) = false.
Proof. cbn. rewrite Rabs_R0. unfold R_ltb. destruct (Rlt_dec 0 0); auto; lra. Qed.

Lemma NRl_le0 tl : 0 <= tl -> @leb (NR NRl) (mag NRl zero) tl = true.
Proof. intros H. cbn. rewrite Rabs_R0. now apply R_leb_true. Qed.

Lemma newton_sys_affine_R_lemma (M : matrix AR) (c0 : list AR) (tl dl : R) n x0 :
  wf M -> rows M = cols M -> (1 <= rows M)%nat -> dl <> 0 -> 0 <= tl ->
  (exists N : nat -> nat -> AR, left_inverse (rows M) N (ent M)) ->
  length x0 = cols M -> (2 <= n)%nat ->
  exists x evs, newton_sys NRl (mkCfg tl dl n x0) (fun p => Ok (aff NRl M c0 p)) = Ok (NOk x, evs) /\
    length x = cols M /\ is_root NRl M c0 x /\
    (forall y, length y = cols M -> is_root NRl M c0 y -> y = x) /\
    (length evs <= 2 * (cols M + 2))%nat.
Proof.
  intros W Hsq Hne Hd Ht Hinv L0 Hn.
  exact (newton_sys_affine_full NRl ARn_FieldLaws ARn_PivLaws M c0 tl dl W Hsq Hne Hd NRl_lt0
           (NRl_le0 tl Ht) Hinv n x0 L0 Hn).
Qed.

Lemma newton_sysjac_affine_R_lemma (M : matrix AR) (c0 : list AR) (tl dl : R) n x0 :
  wf M -> rows M = cols M -> (1 <= rows M)%nat -> 0 <= tl ->
  (exists N : nat -> nat -> AR, left_inverse (rows M) N (ent M)) ->
  length x0 = cols M -> (2 <= n)%nat ->
  exists x evs, newton_sysjac NRl (mkCfg tl dl n x0) (fun p => Ok (aff NRl M c0 p)) (fun _ => Ok M) = Ok (NOk x, evs) /\
    length x = cols M /\ is_root NRl M c0 x /\
    (forall y, length y = cols M -> is_root NRl M c0 y -> y = x) /\
    (length evs <= 4)%nat.
Proof.
  intros W Hsq Hne Ht Hinv L0 Hn.
  exact (newton_sysjac_affine_full NRl ARn_FieldLaws ARn_PivLaws M c0 tl dl W Hsq Hne NRl_lt0
           (NRl_le0 tl Ht) Hinv n x0 L0 Hn).
Qed.

(* ====================================================================================== *)
(* 2. calculus of one pass                                                                 *)
(* ====================================================================================== *)
Section Calculus.
Variables (f f' : R -> R) (a b : R).
Hypothesis Hder : forall c, a <= c <= b -> derivable_pt_lim f c (f' c).

(* mean value theorem between two points of [a, b], in either order *)
Lemma mvt_between u v : a <= u <= b -> a <= v <= b ->
  exists c, Rmin u v <= c <= Rmax u v /\ f u - f v = f' c * (u - v).
Proof.
  intros Hu Hv. destruct (Rtotal_order u v) as [Hlt|[->|Hgt]].
  - destruct (MVT_cor2 f f' u v Hlt) as (c & E & Hc).
    { intros c Hc. apply Hder. lra. }
    exists c. rewrite Rmin_left, Rmax_right by lra. split; lra.
  - exists v. rewrite Rmin_left, Rmax_left by lra. split; [lra|ring].
  - destruct (MVT_cor2 f f' v u Hgt) as (c & E & Hc).
    { intros c Hc. apply Hder. lra. }
    exists c. rewrite Rmin_right, Rmax_left by lra. split; lra.
Qed.

(* the central difference quotient of the scalar solve is a value of the derivative nearby *)
Lemma central_diff_mvt y d : d <> 0 -> a <= y - Rabs d -> y + Rabs d <= b ->
  exists c, Rabs (c - y) <= Rabs d /\ a <= c <= b /\ (f (y + d) - f (y - d)) / (2 * d) = f' c.
Proof.
  intros Hd Ha Hb.
  assert (Hp : a <= y + d <= b) by (unfold Rabs in *; destruct (Rcase_abs d); lra).
  assert (Hm : a <= y - d <= b) by (unfold Rabs in *; destruct (Rcase_abs d); lra).
  destruct (mvt_between (y + d) (y - d) Hp Hm) as (c & Hc & E).
  exists c. split; [|split].
  - unfold Rabs, Rmin, Rmax in *.
    destruct (Rcase_abs d), (Rcase_abs (c - y)), (Rle_dec (y + d) (y - d)); lra.
  - unfold Rabs, Rmin, Rmax in *.
    destruct (Rcase_abs d), (Rle_dec (y + d) (y - d)); lra.
  - rewrite E. field. exact Hd.
Qed.

Variables (m Mb L r : R).
Hypothesis Hm : 0 < m.
Hypothesis HL : 0 <= L.
Hypothesis Hlo : forall c, a <= c <= b -> m <= Rabs (f' c).
Hypothesis Hhi : forall c, a <= c <= b -> Rabs (f' c) <= Mb.
Hypothesis Hlip : forall u v, a <= u <= b -> a <= v <= b -> Rabs (f' u - f' v) <= L * Rabs (u - v).
Hypothesis Hr : a <= r <= b.
Hypothesis Hroot : f r = 0.

Lemma Mb_pos : 0 < Mb.
Proof. pose proof (Hlo r Hr). pose proof (Hhi r Hr). lra. Qed.

(* f(y) = f'(xi) (y - r) with xi between y and r *)
Lemma root_mvt y : a <= y <= b ->
  exists xi, a <= xi <= b /\ Rabs (xi - y) <= Rabs (y - r) /\ f y = f' xi * (y - r).
Proof.
  intros Hy. destruct (mvt_between y r Hy Hr) as (xi & Hxi & E).
  rewrite Hroot, Rminus_0_r in E. exists xi. split; [|split]; auto.
  - unfold Rmin, Rmax in *. destruct (Rle_dec y r); lra.
  - unfold Rabs, Rmin, Rmax in *.
    destruct (Rle_dec y r), (Rcase_abs (xi - y)), (Rcase_abs (y - r)); lra.
Qed.

(* a Newton update with ANY slope D = f'(c) taken at distance e of y:
     x' - r = (y - r) (f'(c) - f'(xi)) / f'(c)                                             *)
Lemma newton_update_err y c e : a <= y <= b -> a <= c <= b -> Rabs (c - y) <= e ->
  f' c <> 0 /\
  Rabs (y - f y / f' c - r) <= L / m * (Rabs (y - r) * (Rabs (y - r) + e)) /\
  Rabs (f y / f' c) <= Mb / m * Rabs (y - r) /\
  Rabs (y - r) <= Mb / m * Rabs (f y / f' c).
Proof.
  intros Hy Hc He.
  destruct (root_mvt y Hy) as (xi & Hxi & Hd & E).
  pose proof (Hlo c Hc) as Lc. pose proof (Hhi c Hc) as Uc.
  pose proof (Hlo xi Hxi) as Lx. pose proof (Hhi xi Hxi) as Ux.
  pose proof Mb_pos as HMb.
  assert (Nc : f' c <> 0) by (intros Z; rewrite Z, Rabs_R0 in Lc; lra).
  assert (Pc : 0 < Rabs (f' c)) by lra.
  split; [exact Nc|].
  set (A := Rabs (y - r)). assert (HA : 0 <= A) by apply Rabs_pos.
  assert (Hi : 0 < / Rabs (f' c) <= / m).
  { split; [now apply Rinv_0_lt_compat|]. apply Rinv_le_contravar; lra. }
  assert (Him : 0 < / m) by (now apply Rinv_0_lt_compat).
  split; [|split].
  - replace (y - f y / f' c - r) with ((y - r) * (f' c - f' xi) * / f' c) by (rewrite E; field; exact Nc).
    rewrite !Rabs_mult, Rabs_inv. fold A.
    assert (HB : Rabs (f' c - f' xi) <= L * (A + e)).
    { eapply Rle_trans; [apply Hlip; auto|].
      assert (Hce : Rabs (c - xi) <= A + e).
      { replace (c - xi) with ((c - y) + - (xi - y)) by ring.
        eapply Rle_trans; [apply Rabs_triang|]. rewrite Rabs_Ropp. unfold A. lra. }
      now apply Rmult_le_compat_l. }
    pose proof (Rabs_pos (f' c - f' xi)) as HBp.
    assert (H1 : A * Rabs (f' c - f' xi) <= A * (L * (A + e))) by (now apply Rmult_le_compat_l).
    assert (H2 : 0 <= A * Rabs (f' c - f' xi)) by (now apply Rmult_le_pos).
    eapply Rle_trans; [apply Rmult_le_compat; [exact H2|lra|exact H1|apply Hi]|].
    unfold Rdiv. right. ring.
  - rewrite E. replace (f' xi * (y - r) / f' c) with (f' xi * / f' c * (y - r)) by (field; exact Nc).
    rewrite !Rabs_mult, Rabs_inv. fold A.
    apply Rmult_le_compat_r; [exact HA|]. unfold Rdiv.
    apply Rmult_le_compat; lra.
  - rewrite E. replace (f' xi * (y - r) / f' c) with (f' xi * / f' c * (y - r)) by (field; exact Nc).
    rewrite !Rabs_mult, Rabs_inv. fold A.
    assert (HMi : / Mb <= / Rabs (f' c)) by (apply Rinv_le_contravar; lra).
    assert (HMp : 0 < / Mb) by (now apply Rinv_0_lt_compat).
    assert (H1 : m * / Mb <= Rabs (f' xi) * / Rabs (f' c)) by (apply Rmult_le_compat; lra).
    assert (H2 : Mb / m * (m * / Mb) = 1) by (field; lra).
    assert (H3 : 0 < Mb / m) by (apply Rdiv_lt_0_compat; lra).
    assert (H4 : 1 <= Mb / m * (Rabs (f' xi) * / Rabs (f' c))).
    { rewrite <- H2. apply Rmult_le_compat_l; lra. }
    replace (Mb / m * (Rabs (f' xi) * / Rabs (f' c) * A)) with (Mb / m * (Rabs (f' xi) * / Rabs (f' c)) * A) by ring.
    nra.
Qed.

(* ---- the finite-difference pass of the scalar solve ---- *)
Lemma fd_pass_err y d : d <> 0 -> a <= y - Rabs d -> y + Rabs d <= b ->
  let D := (f (y + d) - f (y - d)) / (2 * d) in
  D <> 0 /\
  Rabs (y - f y / D - r) <= L / m * (Rabs (y - r) * (Rabs (y - r) + Rabs d)) /\
  Rabs (f y / D) <= Mb / m * Rabs (y - r) /\
  Rabs (y - r) <= Mb / m * Rabs (f y / D).
Proof.
  intros Hd Ha Hb D.
  destruct (central_diff_mvt y d Hd Ha Hb) as (c & Hcy & Hc & E).
  unfold D. rewrite E. apply newton_update_err; auto.
  pose proof (Rabs_pos d). lra.
Qed.

(* ---- the exact-derivative pass (solve_jacobian on a 1 x 1 system): quadratic convergence ---- *)
Lemma exact_pass_err y : a <= y <= b ->
  f' y <> 0 /\
  Rabs (y - f y / f' y - r) <= L / m * (Rabs (y - r) * Rabs (y - r)) /\
  Rabs (f y / f' y) <= Mb / m * Rabs (y - r) /\
  Rabs (y - r) <= Mb / m * Rabs (f y / f' y).
Proof.
  intros Hy.
  destruct (newton_update_err y y 0 Hy Hy) as (N & H1 & H2 & H3).
  { rewrite Rminus_diag_eq by reflexivity. rewrite Rabs_R0. lra. }
  rewrite Rplus_0_r in H1. auto.
Qed.

End Calculus.
