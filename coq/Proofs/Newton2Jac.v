(* Proofs/Newton2Jac.v -- C18 over the reals: the O(delta) claim (package newton2).

   fwd_diff_trunc        calculus: g twice differentiable on the segment between 0 and d with
                         |g''| <= B there  =>  |(g(d) - g(0))/d - g'(0)| <= (|d|/2) B
                         (either sign of d; mean value theorem applied to
                          g(t) - g(0) - g'(0) t -/+ (B/2) t^2).
   jacobian_truncation_lemma
                         the model's Jacobian (Mat64::jacobian at the real instance NRl): whatever
                         matrix the code returns, its entry (i, j) differs from the partial
                         derivative d f_i / d x_j at x by at most (|delta|/2) sup |d^2 f_i / d x_j^2|,
                         the supremum over the segment [x, x + delta e_j].  The restriction of
                         component i to that segment is g(t) = f_i(x + t e_j); g' (0) is the partial
                         derivative. *)
From Coq Require Import List Arith Lia Reals Lra Psatz.
From OV Require Import Base.Panic Base.Arith Model.Vector Model.Matrix Model.Newton
  Proofs.Matrix Proofs.NewtonLoop Proofs.Newton Proofs.NewtonJac Proofs.NewtonReal Proofs.Newton2Deriv Proofs.Newton2Real Proofs.Newton2Scalar.
Import ListNotations.
Local Open Scope R_scope.

Section FwdDiff.
Variables (g g1 g2 : R -> R) (d B : R).
Notation lo := (Rmin 0 d).
Notation hi := (Rmax 0 d).
Hypothesis Hg1 : forall t, lo <= t <= hi -> derivable_pt_lim g t (g1 t).
Hypothesis Hg2 : forall t, lo <= t <= hi -> derivable_pt_lim g1 t (g2 t).
Hypothesis HB : forall t, lo <= t <= hi -> Rabs (g2 t) <= B.

Lemma seg0 : lo <= 0 <= hi.
Proof. unfold Rmin, Rmax. destruct (Rle_dec 0 d); lra. Qed.
Lemma segd : lo <= d <= hi.
Proof. unfold Rmin, Rmax. destruct (Rle_dec 0 d); lra. Qed.
Lemma seg_sign t : lo <= t <= hi -> 0 <= t * d.
Proof. unfold Rmin, Rmax. destruct (Rle_dec 0 d); intros H; nra. Qed.

(* g'(t) - g'(0) = g''(c) t *)
Lemma g1_incr t : lo <= t <= hi -> exists c, lo <= c <= hi /\ g1 t - g1 0 = g2 c * t.
Proof.
  intros Ht. destruct (mvt_between g1 g2 lo hi Hg2 t 0 Ht seg0) as (c & Hc & E).
  exists c. split; [|rewrite E; ring].
  unfold Rmin, Rmax in *. destruct (Rle_dec 0 d), (Rle_dec t 0); lra.
Qed.

Hypothesis Hd : d <> 0.

(* s = +1 / -1 *)
Lemma second_order_side (s : R) : s = 1 \/ s = -1 ->
  s * (g d - g 0 - g1 0 * d) <= B / 2 * (d * d).
Proof.
  intros Hs.
  set (p := fun t => g 0 + g1 0 * t + (s * (B / 2)) * (t * t)).
  set (phi := fun t => g t - p t).
  set (phi' := fun t => g1 t - (g1 0 + 2 * (s * (B / 2)) * t)).
  assert (Hphi : forall t, lo <= t <= hi -> derivable_pt_lim phi t (phi' t)).
  { intros t Ht. unfold phi, phi'.
    apply (derivable_pt_lim_minus g p t); [apply Hg1; exact Ht|apply poly2_deriv]. }
  destruct (mvt_between phi phi' lo hi Hphi d 0 segd seg0) as (c & Hc & E).
  assert (Hcs : lo <= c <= hi).
  { unfold Rmin, Rmax in *. destruct (Rle_dec 0 d), (Rle_dec d 0); lra. }
  destruct (g1_incr c Hcs) as (c' & Hc' & E1).
  pose proof (HB c' Hc') as Hb. pose proof (seg_sign c Hcs) as Hsg.
  assert (Hb2 : - B <= g2 c' <= B) by (unfold Rabs in Hb; destruct (Rcase_abs (g2 c')); lra).
  unfold phi, phi', p in E. rewrite Rminus_0_r in E.
  replace (g1 c - (g1 0 + 2 * (s * (B / 2)) * c)) with ((g2 c' - s * B) * c) in E by lra.
  (* g d - g 0 - g1 0 d = s (B/2) d^2 + (g2 c' - s B) c d *)
  assert (E2 : g d - g 0 - g1 0 * d = s * (B / 2) * (d * d) + (g2 c' - s * B) * (c * d)) by lra.
  rewrite E2. destruct Hs as [-> | ->]; nra.
Qed.

Lemma fwd_diff_trunc : Rabs ((g d - g 0) / d - g1 0) <= Rabs d / 2 * B.
Proof.
  pose proof (second_order_side 1 (or_introl eq_refl)) as H1.
  pose proof (second_order_side (-1) (or_intror eq_refl)) as H2.
  replace ((g d - g 0) / d - g1 0) with ((g d - g 0 - g1 0 * d) * / d) by (field; exact Hd).
  rewrite Rabs_mult, Rabs_inv.
  assert (Hn : Rabs (g d - g 0 - g1 0 * d) <= B / 2 * (d * d)).
  { unfold Rabs. destruct (Rcase_abs (g d - g 0 - g1 0 * d)); lra. }
  assert (Hp : 0 < Rabs d) by (apply Rabs_pos_lt; exact Hd).
  apply (Rmult_le_reg_r (Rabs d)); [exact Hp|].
  replace (Rabs (g d - g 0 - g1 0 * d) * / Rabs d * Rabs d) with (Rabs (g d - g 0 - g1 0 * d)) by (field; lra).
  replace (Rabs d / 2 * B * Rabs d) with (B / 2 * (Rabs d * Rabs d)) by field.
  replace (Rabs d * Rabs d) with (d * d); [exact Hn|].
  unfold Rabs. destruct (Rcase_abs d); ring.
Qed.

End FwdDiff.

(* ---- the model's Jacobian ---- *)
Lemma NRl_RingLaws : RingLaws (NA NRl).
Proof. exact (nw_ring_laws NRl ARn_FieldLaws). Qed.

Lemma perturbed_0 (x : list R) j : perturbed NRl x 0 j = x.
Proof.
  unfold perturbed. cbn [add NA NRl NReal AR]. rewrite Rplus_0_r.
  exact (nw_upd_list_same x j 0).
Qed.

Lemma jacobian_truncation_lemma (F : list R -> res (list R)) (x : list R) (dl : R) (J : matrix AR) evs :
  jacobian NRl F x dl = Ok (J, evs) ->
  forall (i j : nat) (g g1 g2 : R -> R) (B : R),
  (i < rows J)%nat -> (j < length x)%nat ->
  (forall t, Rmin 0 dl <= t <= Rmax 0 dl -> exists v, F (perturbed NRl x t j) = Ok v /\ nth i v 0 = g t) ->
  (forall t, Rmin 0 dl <= t <= Rmax 0 dl -> derivable_pt_lim g t (g1 t)) ->
  (forall t, Rmin 0 dl <= t <= Rmax 0 dl -> derivable_pt_lim g1 t (g2 t)) ->
  (forall t, Rmin 0 dl <= t <= Rmax 0 dl -> Rabs (g2 t) <= B) ->
  exists q, mget J i j = Ok q /\ Rabs (q - g1 0) <= Rabs dl / 2 * B.
Proof.
  intros H i j g g1 g2 B Hi Hj Hg Hg1 Hg2 HB.
  destruct (jacobian_entry_lemma NRl NRl_RingLaws F x dl J evs H) as (f0 & E0 & Rw & _ & Hent).
  assert (Hi' : (i < length f0)%nat) by (rewrite <- Rw; exact Hi).
  destruct (Hent i j Hi' Hj) as (fj & q & Ej & Eq & Em).
  exists q. split; [exact Em|].
  cbn in Eq. apply R_div_Ok_inv in Eq as [Hd ->].
  destruct (Hg dl (segd dl)) as (v & Ev & Hv).
  destruct (Hg 0 (seg0 dl)) as (v0 & Ev0 & Hv0).
  rewrite perturbed_0 in Ev0.
  assert (v = fj) by congruence. assert (v0 = f0) by congruence. subst v v0.
  change (@zero (NA NRl)) with 0. rewrite Hv, Hv0.
  exact (fwd_diff_trunc g g1 g2 dl B Hg1 Hg2 HB Hd).
Qed.

(* ---- non-vacuity witness: F(x, y) = (x^2 y, x + y^3) at (1, 2), delta = 1/4, entry (0, 0):
        g(t) = 2 (1 + t)^2, g'(t) = 4 (1 + t), g'' = 4 = B; the bound (1/4)/2 * 4 = 1/2 is attained. ---- *)
Definition Fw (p : list R) : res (list R) :=
  let* x := rd p 0 in let* y := rd p 1 in Ok [x * x * y; x + y * y * y].

Lemma jacobian_truncation_witness :
  exists J evs, jacobian NRl Fw [1; 2] (1 / 4) = Ok (J, evs) /\ (0 < rows J)%nat /\
    (forall t, Rmin 0 (1 / 4) <= t <= Rmax 0 (1 / 4) ->
       exists v, Fw (perturbed NRl [1; 2] t 0) = Ok v /\ nth 0 v 0 = 2 * ((1 + t) * (1 + t))) /\
    (forall t, derivable_pt_lim (fun t => 2 * ((1 + t) * (1 + t))) t (4 * (1 + t))) /\
    (forall t, derivable_pt_lim (fun t => 4 * (1 + t)) t 4) /\
    Rabs 4 <= 4.
Proof.
  destruct (jacobian_shape_lemma NRl Fw [1; 2] (1 / 4) 2) as (J & evs & EJ & _ & Rw & _).
  - intros [|u [|v [|? ?]]] Hl; try discriminate. cbn. eauto.
  - intros u. cbn. exists (u / (1 / 4)). apply R_div_ok. lra.
  - exists J, evs. split; [exact EJ|]. split; [rewrite Rw; lia|]. split; [|split; [|split]].
    + intros t _. cbn. eexists. split; [reflexivity|]. cbn. ring.
    + intros t. dpoly.
    + intros t. dpoly.
    + rewrite Rabs_right; lra.
Qed.
