(* Proofs/PolyExactC.v -- C11 "holds exactly for exactly-representable coefficients", Complex<f64> with Gaussian-integer
   coefficients.  The element type of the float tier is ACF = CArith SAF (Inst/FloatInst.v: Complex<f64> with the operator
   definitions of Model/Complex.v); the exact side is AZC = CArith SAZ, the Gaussian integers with the SAME operator
   definitions.  Size of a Gaussian integer: cn1 g = |re g| + |im g| (submultiplicative: the complex product is
   4 real products and 2 sums, each of size at most cn1 g * cn1 h).  The generic transfer of Proofs/PolyExact.v then
   gives add / sub / neg / mul / eval and the two additive evaluation laws for Complex<f64> polynomials. *)
From Coq Require Import ZArith Reals Floats Lia Lra List Bool Arith.
From Flocq Require Import Core.Core IEEE754.BinarySingleNaN IEEE754.PrimFloat.
From OV Require Import Base.Panic Base.Arith Model.Poly Model.Complex Proofs.Poly Proofs.Complex Proofs.ParDotFloat
                       Proofs.VectorFloat2 Inst.FloatInst Proofs.PolyExact Proofs.PolyExactF.
Import ListNotations.
Local Open Scope Z_scope.

Definition CExactW (z : cplx AF) (g : cplx AZ) : Prop := ExactW (re z) (re g) /\ ExactW (im z) (im g).
Definition CExact (z : cplx AF) (g : cplx AZ) : Prop := Exact (re z) (re g) /\ Exact (im z) (im g).
Definition cn1 (g : cplx AZ) : Z := Z.abs (re g) + Z.abs (im g).

Lemma CExact_unique z w g : CExact z g -> CExact w g -> z = w.
Proof.
  intros [H1 H2] [H3 H4]. destruct z as [a b], w as [c d]. cbn in *.
  f_equal; eapply Exact_unique; eauto.
Qed.

Lemma cn1_mul (g h : cplx AZ) : cn1 (cmul g h) <= cn1 g * cn1 h.
Proof.
  destruct g as [a b], h as [c d]. unfold cn1, cmul. cbn.
  pose proof (Z.abs_triangle (a * c) (- (b * d))). pose proof (Z.abs_triangle (a * d) (b * c)).
  rewrite Z.abs_opp in *. rewrite !Z.abs_mul in *.
  pose proof (Z.mul_nonneg_nonneg _ _ (Z.abs_nonneg a) (Z.abs_nonneg c)).
  pose proof (Z.mul_nonneg_nonneg _ _ (Z.abs_nonneg a) (Z.abs_nonneg d)).
  pose proof (Z.mul_nonneg_nonneg _ _ (Z.abs_nonneg b) (Z.abs_nonneg c)).
  pose proof (Z.mul_nonneg_nonneg _ _ (Z.abs_nonneg b) (Z.abs_nonneg d)).
  replace (a * c - b * d) with (a * c + - (b * d)) by lia. lia.
Qed.

Lemma EL_cplx_strong : ExactLaws (FA := ACF) (ZA := AZC) CExactW CExact cn1.
Proof.
  constructor.
  - exact AZC_ring.
  - intros [a b]; unfold cn1; cbn; lia.
  - intros [a b] H; unfold cn1 in H; cbn in *. assert (a = 0) by lia. assert (b = 0) by lia. subst. reflexivity.
  - reflexivity.
  - intros [a b] [c d]; unfold cn1; cbn; lia.
  - exact cn1_mul.
  - intros x a [[H1 _] [H2 _]]; split; auto.
  - split; exact Exact_zero.
  - intros [x1 x2] [y1 y2] [a1 a2] [b1 b2] [H1 H2] [H3 H4] Hb; unfold cn1 in Hb; cbn in *.
    split; cbn; apply Exact_add; auto; lia.
  - intros [x1 x2] [y1 y2] [a1 a2] [b1 b2] [H1 H2] [H3 H4] Hb; unfold cn1 in Hb; cbn in *.
    split; cbn; apply Exact_add_r; auto; lia.
  - intros [x1 x2] [y1 y2] [a1 a2] [b1 b2] [H1 H2] E [H3 H4]; cbn in *. injection E as -> ->.
    split; cbn; apply Exact_add0_l; auto.
  - intros [x1 x2] [y1 y2] [a1 a2] [b1 b2] [H1 H2] E [H3 H4]; cbn in *. injection E as -> ->.
    split; cbn; apply Exact_add0_r; auto.
  - intros [x1 x2] [y1 y2] [a1 a2] [b1 b2] [H1 H2] [H3 H4] Hb; unfold cn1 in Hb; cbn in *.
    split; cbn; apply Exact_sub; auto; lia.
  - intros [x1 x2] [a1 a2] [H1 H2]; split; cbn in *; now apply ExactW_opp.
  - intros [x1 x2] [y1 y2] [a1 a2] [b1 b2] [H1 H2] [H3 H4] Hb; unfold cn1 in Hb; cbn in *.
    pose proof (Z.abs_mul a1 b1). pose proof (Z.abs_mul a2 b2). pose proof (Z.abs_mul a1 b2). pose proof (Z.abs_mul a2 b1).
    pose proof (Z.mul_nonneg_nonneg _ _ (Z.abs_nonneg a1) (Z.abs_nonneg b1)).
    pose proof (Z.mul_nonneg_nonneg _ _ (Z.abs_nonneg a1) (Z.abs_nonneg b2)).
    pose proof (Z.mul_nonneg_nonneg _ _ (Z.abs_nonneg a2) (Z.abs_nonneg b1)).
    pose proof (Z.mul_nonneg_nonneg _ _ (Z.abs_nonneg a2) (Z.abs_nonneg b2)).
    assert (P1 : ExactW (x1 * y1)%float (a1 * b1)) by (apply ExactW_mul; auto; lia).
    assert (P2 : ExactW (x2 * y2)%float (a2 * b2)) by (apply ExactW_mul; auto; lia).
    assert (P3 : ExactW (x1 * y2)%float (a1 * b2)) by (apply ExactW_mul; auto; lia).
    assert (P4 : ExactW (x2 * y1)%float (a2 * b1)) by (apply ExactW_mul; auto; lia).
    split; cbn.
    + apply ExactW_sub; auto. pose proof (Z.abs_triangle (a1 * b1) (- (a2 * b2))) as T. rewrite Z.abs_opp in T.
      replace (a1 * b1 - a2 * b2) with (a1 * b1 + - (a2 * b2)) by lia. lia.
    + apply ExactW_add; auto. pose proof (Z.abs_triangle (a1 * b2) (a2 * b1)). lia.
Qed.

Lemma EL_cplx_weak : ExactLaws (FA := ACF) (ZA := AZC) CExactW CExactW cn1.
Proof.
  pose proof EL_cplx_strong as S. constructor.
  - apply S.
  - apply S.
  - apply S.
  - apply S.
  - apply S.
  - apply S.
  - auto.
  - split; exact (proj1 Exact_zero).
  - intros [x1 x2] [y1 y2] [a1 a2] [b1 b2] [H1 H2] [H3 H4] Hb; unfold cn1 in Hb; cbn in *.
    split; cbn; apply ExactW_add; auto; lia.
  - intros [x1 x2] [y1 y2] [a1 a2] [b1 b2] [H1 H2] [H3 H4] Hb; unfold cn1 in Hb; cbn in *.
    split; cbn; apply ExactW_add; auto; lia.
  - intros [x1 x2] [y1 y2] [a1 a2] [b1 b2] [H1 H2] E [H3 H4]; cbn in *. injection E as -> ->.
    split; cbn; apply ExactW_add0_l; auto.
  - intros [x1 x2] [y1 y2] [a1 a2] [b1 b2] [H1 H2] E [H3 H4]; cbn in *. injection E as -> ->.
    split; cbn; apply ExactW_add0_l; auto.
  - intros [x1 x2] [y1 y2] [a1 a2] [b1 b2] [H1 H2] [H3 H4] Hb; unfold cn1 in Hb; cbn in *.
    split; cbn; apply ExactW_sub; auto; lia.
  - apply S.
  - apply S.
Qed.

Notation fitsC := (fun g : cplx AZ => cn1 g < 2 ^ 53).

(* ---------------------------------------------------------------- the operations *)
Lemma cpoly_ops_exact_float_lemma (p q : list (cplx AF)) (zs ws : list (cplx AZ)) :
  Forall2 CExactW p zs -> Forall2 CExactW q ws ->
  (Forall fitsC (padd (A := AZC) zs ws) -> Forall2 CExactW (padd (A := ACF) p q) (padd (A := AZC) zs ws)) /\
  (Forall fitsC (psub (A := AZC) zs ws) -> Forall2 CExactW (psub (A := ACF) p q) (psub (A := AZC) zs ws)) /\
  Forall2 CExactW (pneg (A := ACF) p) (pneg (A := AZC) zs) /\
  (Forall (fun c => c < 2 ^ 53) (pmul (A := AZ) (map cn1 zs) (map cn1 ws)) ->
     Forall2 CExact (pmul (A := ACF) p q) (pmul (A := AZC) zs ws)).
Proof.
  intros Hp Hq. split; [|split; [|split]].
  - exact (gen_padd_w _ _ _ EL_cplx_weak p q zs ws Hp Hq).
  - exact (gen_psub_w _ _ _ EL_cplx_weak p q zs ws Hp Hq).
  - exact (gen_pneg _ _ _ EL_cplx_weak p zs Hp).
  - intros Hb. apply (gen_pmul _ _ _ EL_cplx_strong p q zs ws Hp Hq).
    exact (conv_fits_of_pmul (ZA := AZC) cn1 zs ws Hb).
Qed.

(* ---------------------------------------------------------------- Horner and the additive laws *)
(* sum_i cn1 a_i * (cn1 x)^i < 2^53 *)
Definition ceval_fits (zs : list (cplx AZ)) (xz : cplx AZ) : Prop :=
  horner (A := AZ) (map cn1 zs) (cn1 xz) < 2 ^ 53.

Lemma ceval_fits_habs zs xz : zs <> [] -> ceval_fits zs xz -> habs (ZA := AZC) cn1 zs xz < 2 ^ 53.
Proof. intros Nz H. rewrite (habs_horner_gen (ZA := AZC) cn1 zs xz Nz). exact H. Qed.

Lemma cpeval_exact_float_lemma (p : list (cplx AF)) (zs : list (cplx AZ)) x xz :
  Forall2 CExactW p zs -> CExactW x xz -> p <> [] -> ceval_fits zs xz ->
  exists r, peval (A := ACF) p x = Ok r /\ CExactW r (horner (A := AZC) zs xz) /\
            (Forall2 CExact p zs -> CExact r (horner (A := AZC) zs xz)).
Proof.
  intros Hp Hx Np Hb. pose proof (F2_nonempty _ _ _ Hp Np) as Nz.
  apply (ceval_fits_habs zs xz Nz) in Hb.
  destruct (gen_peval _ _ _ EL_cplx_weak p zs x xz Hp Hx Np Hb) as (r & rz & Er & Ez & Rr & Nr).
  rewrite (peval_horner AZC_ring zs xz Nz) in Ez. injection Ez as <-.
  exists r. split; [exact Er|]. split; [exact Rr|].
  intros Hs. destruct (gen_peval _ _ _ EL_cplx_strong p zs x xz Hs Hx Np Hb) as (r' & rz' & Er' & Ez' & Rr' & _).
  rewrite (peval_horner AZC_ring zs xz Nz) in Ez'. injection Ez' as <-. rewrite Er in Er'. injection Er' as <-. exact Rr'.
Qed.

Lemma cpeval_padd_exact_float_lemma (p q : list (cplx AF)) (zs ws : list (cplx AZ)) x xz :
  Forall2 CExact p zs -> Forall2 CExact q ws -> CExactW x xz -> p <> [] -> q <> [] ->
  Forall fitsC (padd (A := AZC) zs ws) -> ceval_fits zs xz -> ceval_fits ws xz -> ceval_fits (padd (A := AZC) zs ws) xz ->
  exists rp rq, peval (A := ACF) p x = Ok rp /\ peval (A := ACF) q x = Ok rq /\
    peval (A := ACF) (padd (A := ACF) p q) x = Ok (cadd rp rq) /\
    CExact rp (horner (A := AZC) zs xz) /\ CExact rq (horner (A := AZC) ws xz).
Proof.
  intros Hp Hq Hx Np Nq Hs Bp Bq Bs.
  pose proof (F2_nonempty _ _ _ Hp Np) as Nz. pose proof (F2_nonempty _ _ _ Hq Nq) as Nw.
  apply ceval_fits_habs in Bp, Bq, Bs; auto using (padd_nonempty (A := AZC)).
  destruct (law_eval_padd _ _ _ EL_cplx_strong CExact_unique p q zs ws x xz Hp Hq Hx Np Nq Hs Bp Bq Bs)
    as (rp & rq & rpz & rqz & Ep & Eq & Es & Rp & Rq & Rs' & Ez & Ew).
  rewrite (peval_horner AZC_ring) in Ez, Ew by auto. injection Ez as <-. injection Ew as <-.
  exists rp, rq. split; [exact Ep|]. split; [exact Eq|]. split; [exact Es|]. split; auto.
Qed.

Lemma cpeval_psub_exact_float_lemma (p q : list (cplx AF)) (zs ws : list (cplx AZ)) x xz :
  Forall2 CExact p zs -> Forall2 CExact q ws -> CExactW x xz -> p <> [] -> q <> [] ->
  Forall fitsC (psub (A := AZC) zs ws) -> ceval_fits zs xz -> ceval_fits ws xz -> ceval_fits (psub (A := AZC) zs ws) xz ->
  exists rp rq, peval (A := ACF) p x = Ok rp /\ peval (A := ACF) q x = Ok rq /\
    peval (A := ACF) (psub (A := ACF) p q) x = Ok (csub rp rq) /\
    CExact rp (horner (A := AZC) zs xz) /\ CExact rq (horner (A := AZC) ws xz).
Proof.
  intros Hp Hq Hx Np Nq Hs Bp Bq Bs.
  pose proof (F2_nonempty _ _ _ Hp Np) as Nz. pose proof (F2_nonempty _ _ _ Hq Nq) as Nw.
  apply ceval_fits_habs in Bp, Bq, Bs; auto using (psub_nonempty (A := AZC)).
  destruct (law_eval_psub _ _ _ EL_cplx_strong CExact_unique p q zs ws x xz Hp Hq Hx Np Nq Hs Bp Bq Bs)
    as (rp & rq & rpz & rqz & Ep & Eq & Es & Rp & Rq & Rs' & Ez & Ew).
  rewrite (peval_horner AZC_ring) in Ez, Ew by auto. injection Ez as <-. injection Ew as <-.
  exists rp, rq. split; [exact Ep|]. split; [exact Eq|]. split; [exact Es|]. split; auto.
Qed.

(* eval (p * q) x and eval p x * eval q x hold the same Gaussian integer *)
Lemma R_Rs_cweak : forall (x : ACF) (a : AZC), CExactW x a -> CExactW x a.
Proof. auto. Qed.

Lemma cpeval_pmul_exact_float_lemma (p q : list (cplx AF)) (zs ws : list (cplx AZ)) x xz :
  Forall2 CExactW p zs -> Forall2 CExactW q ws -> CExactW x xz -> p <> [] -> q <> [] ->
  Forall (fun c => c < 2 ^ 53) (pmul (A := AZ) (map cn1 zs) (map cn1 ws)) ->
  ceval_fits zs xz -> ceval_fits ws xz -> ceval_fits (pmul (A := AZC) zs ws) xz ->
  horner (A := AZ) (map cn1 zs) (cn1 xz) * horner (A := AZ) (map cn1 ws) (cn1 xz) < 2 ^ 53 ->
  exists rp rq r, peval (A := ACF) p x = Ok rp /\ peval (A := ACF) q x = Ok rq /\
    peval (A := ACF) (pmul (A := ACF) p q) x = Ok r /\
    CExactW r (cmul (horner (A := AZC) zs xz) (horner (A := AZC) ws xz)) /\
    CExactW (cmul rp rq) (cmul (horner (A := AZC) zs xz) (horner (A := AZC) ws xz)).
Proof.
  intros Hp Hq Hx Np Nq Hm Bp Bq Bm Bpq.
  pose proof (F2_nonempty _ _ _ Hp Np) as Nz. pose proof (F2_nonempty _ _ _ Hq Nq) as Nw.
  assert (Bpq' : habs (ZA := AZC) cn1 zs xz * habs (ZA := AZC) cn1 ws xz < 2 ^ 53).
  { rewrite (habs_horner_gen (ZA := AZC) cn1 zs xz Nz), (habs_horner_gen (ZA := AZC) cn1 ws xz Nw). exact Bpq. }
  clear Bpq. rename Bpq' into Bpq.
  apply ceval_fits_habs in Bp, Bq, Bm; auto using (pmul_nonempty (A := AZC)).
  destruct (law_eval_pmul _ _ _ EL_cplx_weak R_Rs_cweak p q zs ws x xz Hp Hq Hx Np Nq
              (conv_fits_of_pmul (ZA := AZC) cn1 zs ws Hm) Bp Bq Bm Bpq)
    as (rp & rq & r & rpz & rqz & Ep & Eq & Er & Ez & Ew & Rp & Rq & Rr & Rm).
  rewrite (peval_horner AZC_ring) in Ez, Ew by auto. injection Ez as <-. injection Ew as <-.
  exists rp, rq, r. split; [exact Ep|]. split; [exact Eq|]. split; [exact Er|]. split; auto.
Qed.
