(* Proofs/TridiagDominant.v -- over the reals: a strictly (row) diagonally dominant tridiagonal system is never
   refused by Thomas solve: every pivot satisfies |beta_k| > |sup_k| >= 0, so no pivot vanishes and the
   answer is the exact solution.  (The exact-arithmetic half of the claim the property makes about
   diagonally dominant f64 systems; rounding is not modelled here.) *)
From Coq Require Import List Arith Lia Bool Reals Lra Psatz RealField.
From OV Require Import Base.Panic Base.Arith Model.Vector Model.Matrix Model.Tridiag Proofs.Tridiag Proofs.TridiagSolve.
Import ListNotations.

Definition R_eqb_c05 (x y : R) : bool := if Req_EM_T x y then true else false.
Definition AR_c05 : Arith := {|
  T := R; zero := 0%R; one := 1%R;
  add := Rplus; sub := Rminus; mul := Rmult; neg := Ropp; abs := Rabs;
  div := fun x y => if Req_EM_T y 0%R then Panic DivZero else Ok (x * / y)%R;
  eqb := R_eqb_c05;
  ltb := fun x y => if Rlt_dec x y then true else false;
  leb := fun x y => if Rle_dec x y then true else false |}.

Definition AR_c05_FieldLaws : FieldLaws AR_c05.
Proof.
  refine {| fl_inv := Rinv : AR_c05 -> AR_c05; fl_field := _ |}.
  - exact Rfield.
  - intros x y. cbn. unfold R_eqb_c05. destruct (Req_EM_T x y); split; congruence.
  - intros x y. cbn. unfold R_eqb_c05. destruct (Req_EM_T y 0%R); reflexivity.
Defined.

Local Open Scope R_scope.

(* strict row dominance, on the stored diagonals (a missing neighbour counts as 0) *)
Definition dominant (t : tridiag AR_c05) : Prop :=
  forall i, (i < tn t)%nat ->
    Rabs (nth i (tmain t) 0) > Rabs (nth i (0 :: tsub t) 0) + Rabs (nth i (tsup t) 0).

Lemma nth_app_zero (l : list R) k : nth k (l ++ [0]) 0 = nth k l 0.
Proof.
  destruct (Nat.lt_ge_cases k (length l)) as [H|H].
  - now rewrite app_nth1.
  - rewrite app_nth2 by lia. rewrite (nth_overflow l) by lia.
    destruct (k - length l)%nat as [|[|m]]; reflexivity.
Qed.

Section Dom.
Variable t : tridiag AR_c05.
Hypothesis W : wfT t.
Hypothesis Dm : dominant t.

Notation Bk := (B AR_c05_FieldLaws t).

Lemma ratio_lt_1 (p q : R) : 0 <= p -> p < q -> p * / q < 1.
Proof.
  intros Hp Hq. assert (0 < q) by lra. assert (0 < / q) by now apply Rinv_0_lt_compat.
  replace 1 with (q * / q) by (field; lra). apply Rmult_lt_compat_r; assumption.
Qed.

Lemma pivots_dominate k : (k < tn t)%nat -> Rabs (Bk k) > Rabs (nth k (tsup t) 0).
Proof.
  induction k as [|k IH]; intros Hk.
  - cbn [B]. unfold cb. specialize (Dm 0%nat Hk). cbn [nth] in Dm. rewrite Rabs_R0 in Dm.
    change (@zero AR_c05) with 0. lra.
  - assert (Hk' : (k < tn t)%nat) by lia. specialize (IH Hk').
    cbn [B]. unfold cb, ca, cc, aT, cT, vpush_front, vpush.
    change (@zero AR_c05) with 0. rewrite nth_app_zero.
    change (@sub AR_c05) with Rminus. change (@mul AR_c05) with Rmult. change (fl_inv AR_c05 AR_c05_FieldLaws) with Rinv.
    specialize (Dm (S k) Hk).
    set (b := nth (S k) (tmain t) 0) in *. set (a := nth (S k) (0 :: tsub t) 0) in *.
    set (c := nth (S k) (tsup t) 0) in *. set (ck := nth k (tsup t) 0) in *. set (bk := Bk k) in *.
    assert (Hg : Rabs (ck * / bk) < 1).
    { assert (bk <> 0) by (intros E; rewrite E, Rabs_R0 in IH; pose proof (Rabs_pos ck); lra).
      rewrite Rabs_mult, Rabs_inv. apply ratio_lt_1; [apply Rabs_pos|lra]. }
    assert (H1 : Rabs (b - a * (ck * / bk)) >= Rabs b - Rabs (a * (ck * / bk))).
    { apply Rle_ge. apply Rabs_triang_inv. }
    rewrite Rabs_mult in H1. pose proof (Rabs_pos a). pose proof (Rabs_pos c).
    assert (Rabs a * Rabs (ck * / bk) <= Rabs a) by nra.
    change (Rabs (b - a * (ck * / bk)) > Rabs c). lra.
Qed.

Lemma pivots_nonzero k : (k < tn t)%nat -> Bk k <> 0.
Proof.
  intros Hk E. pose proof (pivots_dominate k Hk) as H. rewrite E, Rabs_R0 in H.
  pose proof (Rabs_pos (nth k (tsup t) 0)). lra.
Qed.

Lemma dominant_solved_lemma (r : list AR_c05) : (1 <= tn t)%nat -> length r = tn t ->
  exists u, tsolve t r = Ok u /\ length u = tn t /\
    forall i, (i < tn t)%nat -> sum_n (tn t) (fun j => (dense t i j * nth j u zero)%A) = nth i r zero.
Proof.
  intros Hn Hr.
  destruct (thomas_lemma AR_c05_FieldLaws t r W Hn Hr) as [(u & E & L & V & _)|(E & k & Hk & Z)].
  - exists u. auto.
  - exfalso. rewrite (pivot_B AR_c05_FieldLaws t W k Hk) in Z by (intros i Hi; apply pivots_nonzero; lia).
    injection Z as Z. apply (pivots_nonzero k Hk). exact Z.
Qed.

End Dom.
