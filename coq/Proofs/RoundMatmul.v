(* Proofs/RoundMatmul.v -- the matrix-matrix product of Model/Matrix.v ([mat_mul]: for every column of b,
   result.set_col(col, a.multiply(b.get_col(col)))) "to rounding accuracy":
   (a) in the STANDARD MODEL of floating-point arithmetic (Base/RoundModel.v), the same Gallina [mat_mul] at [ARm]:
         matmul_backward_error_lemma :  every entry  c_ij = Sum_q (a_iq + d_q) b_qj  with |d_q| <= gam k |a_iq|
                                        (column j of the product is (A + dA_j) b_j : Higham sec. 3.5)
         matmul_forward_error_lemma  :  |fl(A B) - A B|_ij <= gam k Sum_q |a_iq| |b_qj|          (Higham (3.13))
       k = cols a, for every shape with k u < 1;
   (b) for the PRIMITIVE-FLOAT instance ([mat_mul] at AF, IEEE binary64) through Flocq, entry by entry: for every
       finite entry of the product whose k products do not underflow (matmul_forward_error_float_lemma). *)
From Coq Require Import ZArith Reals Lra Lia List Floats Bool Arith.
From OV Require Import Base.Panic Base.Arith Base.RoundModel Model.Vector Model.Matrix Inst.FloatInst
  Proofs.Matrix Proofs.MatrixArith Proofs.ComplexRound Proofs.RoundDot Proofs.RoundMatvec Proofs.RoundDotFloat.
Import ListNotations.
Local Open Scope R_scope.

(* over any arithmetic: what mat_mul returns, entry by entry *)
Lemma mat_mul_Ok_entries {A : Arith} (a b c : matrix A) : wf a -> wf b -> mat_mul a b = Ok c ->
  cols a = rows b /\ wf c /\ rows c = rows a /\ cols c = cols b /\
  forall i j, (i < rows a)%nat -> (j < cols b)%nat ->
    entry c i j = sum_n (cols a) (fun q => mul (entry a i q) (entry b q j)).
Proof.
  intros Wa Wb E.
  assert (Hk : cols a = rows b).
  { destruct (Nat.eq_dec (cols a) (rows b)) as [H|H]; [exact H|]. rewrite (mat_mul_guard a b H) in E. discriminate. }
  pose proof (msp_self a Wa) as Ha. pose proof (msp_self b Wb) as Hb. rewrite <- Hk in Hb.
  destruct (mat_mul_msp (rows a) (cols a) (cols b) (entry a) (entry b) a b Ha Hb) as (c' & E' & Wc & Rc & Cc & Hc).
  rewrite E in E'. injection E' as <-. repeat split; assumption.
Qed.

Section RoundMatmul.
Variable u : R.
Hypothesis u_range : 0 <= u < 1.
Variables fadd fsub fmul fdiv : R -> R -> R.
Hypothesis fadd_ok : forall x y, exists d, Rabs d <= u /\ fadd x y = (x + y) * (1 + d).
Hypothesis fmul_ok : forall x y, exists d, Rabs d <= u /\ fmul x y = x * y * (1 + d).
Hypothesis fadd_0_mul : forall a b, fadd 0 (fmul a b) = fmul a b.

Notation AR := (ARm fadd fsub fmul fdiv).
Notation gam := (gam u).
Notation rentry := (rentry fadd fsub fmul fdiv).

Theorem matmul_backward_error_lemma (a b c : matrix AR) :
  wf a -> wf b -> INR (cols a) * u < 1 -> mat_mul a b = Ok c ->
  wf c /\ rows c = rows a /\ cols c = cols b /\
  forall i j, (i < rows a)%nat -> (j < cols b)%nat ->
    exists d : nat -> R,
      (forall q, (q < cols a)%nat -> Rabs (d q) <= gam (cols a) * Rabs (rentry a i q)) /\
      rentry c i j = Rsum (cols a) (fun q => (rentry a i q + d q) * rentry b q j).
Proof using u_range fadd_ok fmul_ok fadd_0_mul.
  intros Wa Wb Hn E. destruct (mat_mul_Ok_entries (A := AR) a b c Wa Wb E) as (Hk & Wc & Rc & Cc & Hc).
  split; [exact Wc|]. split; [exact Rc|]. split; [exact Cc|]. intros i j Hi Hj.
  destruct (sum_prod_round u u_range fadd fsub fmul fdiv fadd_ok fmul_ok fadd_0_mul (cols a)
              (fun q => rentry a i q) (fun q => rentry b q j)) as (W & HW & EW).
  exists (fun q => rentry a i q * (W q - 1)). split.
  - intros q Hq. rewrite Rabs_mult, Rmult_comm. apply Rmult_le_compat_r; [apply Rabs_pos|].
    apply (bnd_gam u u_range); [now apply HW|exact Hn].
  - transitivity (sum_n (A := AR) (cols a) (fun q => fmul (rentry a i q) (rentry b q j))).
    + exact (Hc i j Hi Hj).
    + etransitivity; [exact EW|]. apply Rsum_ext. intros q Hq. ring.
Qed.

Theorem matmul_forward_error_lemma (a b c : matrix AR) :
  wf a -> wf b -> INR (cols a) * u < 1 -> mat_mul a b = Ok c ->
  forall i j, (i < rows a)%nat -> (j < cols b)%nat ->
    Rabs (rentry c i j - Rsum (cols a) (fun q => rentry a i q * rentry b q j))
      <= gam (cols a) * Rsum (cols a) (fun q => Rabs (rentry a i q) * Rabs (rentry b q j)).
Proof using u_range fadd_ok fmul_ok fadd_0_mul.
  intros Wa Wb Hn E i j Hi Hj.
  destruct (matmul_backward_error_lemma a b c Wa Wb Hn E) as (_ & _ & _ & H).
  destruct (H i j Hi Hj) as (d & Hd & ->). rewrite <- Rsum_minus.
  rewrite (Rsum_ext _ _ (fun q => rentry b q j * d q)) by (intros; ring).
  eapply Rle_trans; [apply Rsum_abs|]. rewrite <- Rsum_scal. apply Rsum_le. intros q Hq.
  rewrite Rabs_mult. specialize (Hd q Hq). pose proof (Rabs_pos (rentry b q j)). nra.
Qed.

End RoundMatmul.

(* the primitive-float instance *)
Theorem matmul_forward_error_float_lemma (a b c : matrix AF) :
  wf a -> wf b -> INR (cols a) * u64 < 1 -> mat_mul (A := AF) a b = Ok c ->
  wf c /\ rows c = rows a /\ cols c = cols b /\
  forall i j, (i < rows a)%nat -> (j < cols b)%nat -> ffinite (entry c i j) ->
    (forall q, (q < cols a)%nat -> no_underflow (fentry a i q * fentry b q j)) ->
    Rabs (fentry c i j - Rsum (cols a) (fun q => fentry a i q * fentry b q j))
      <= g64 (cols a) * Rsum (cols a) (fun q => Rabs (fentry a i q) * Rabs (fentry b q j)).
Proof.
  intros Wa Wb Hn E. destruct (mat_mul_Ok_entries (A := AF) a b c Wa Wb E) as (Hk & Wc & Rc & Cc & Hc).
  split; [exact Wc|]. split; [exact Rc|]. split; [exact Cc|]. intros i j Hi Hj Fc Hu.
  assert (Ec : entry c i j = sum_n (A := AF) (cols a) (fun q => (entry a i q * entry b q j)%float))
    by exact (Hc i j Hi Hj).
  rewrite Ec in Fc.
  pose proof (sum_n_float_transfer (cols a) (fun q => entry a i q) (fun q => entry b q j) Fc Hu) as ET.
  destruct (sum_prod_round u64 u64_range Fadd Fsub Fmul Fdiv Fadd_ok Fmul_ok Fadd_0_mul (cols a)
              (fun q => FR (entry a i q)) (fun q => FR (entry b q j))) as (W & HW & EW).
  assert (Ev : fentry c i j = Rsum (cols a) (fun q => fentry a i q * fentry b q j * W q)).
  { transitivity (FR (sum_n (A := AF) (cols a) (fun q => (entry a i q * entry b q j)%float))).
    - unfold fentry. change (nth (i * cols c + j) (buf c) 0%float) with (entry c i j). now rewrite Ec.
    - etransitivity; [exact ET|]. exact EW. }
  rewrite Ev, <- Rsum_minus.
  rewrite (Rsum_ext _ _ (fun q => (fentry a i q * fentry b q j) * (W q - 1))) by (intros; ring).
  eapply Rle_trans; [apply Rsum_pert_le|].
  - intros q Hq. apply (bnd_gam u64 u64_range); [now apply HW|exact Hn].
  - apply Rmult_le_compat_l; [now apply (gam_nonneg u64 u64_range)|].
    apply Req_le, Rsum_ext. intros q Hq. apply Rabs_mult.
Qed.
