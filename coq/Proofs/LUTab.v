(* Proofs/LUTab.v -- the dense matrix whose (i,j) entry is f i j, as the flat row-major buffer the
   code stores (used to state theorems "for every matrix" through an entry function).  Stdlib style. *)
From Coq Require Import List Arith Lia.
From OV Require Import Base.Panic Base.Arith Model.Vector Model.Matrix Proofs.Matrix Proofs.LUPrim.
Import ListNotations.

Section Tab.
Context {A : Arith}.

Definition tabulate (r c : nat) (f : nat -> nat -> A) : matrix A :=
  mkM (flat_map (fun i => map (fun j => f i j) (seq 0 c)) (seq 0 r)) r c.

Lemma flat_rows_length (c : nat) (g : nat -> nat -> A) (l : list nat) :
  length (flat_map (fun i => map (fun j => g i j) (seq 0 c)) l) = length l * c.
Proof.
  induction l as [|a l IH]; cbn; auto.
  now rewrite app_length, map_length, seq_length, IH.
Qed.

Lemma flat_rows_nth (c : nat) (g : nat -> nat -> A) (l : list nat) i j d :
  i < length l -> j < c ->
  nth (i * c + j) (flat_map (fun i => map (fun j => g i j) (seq 0 c)) l) d = g (nth i l 0) j.
Proof.
  revert i; induction l as [|a l IH]; intros i Hi Hj; cbn in Hi; [lia|].
  cbn [flat_map]. destruct i as [|i].
  - cbn [Nat.mul Nat.add nth]. rewrite app_nth1 by now rewrite map_length, seq_length.
    rewrite (nth_indep _ d (g a 0)) by now rewrite map_length, seq_length.
    rewrite (map_nth (fun j => g a j) (seq 0 c) 0 j). now rewrite seq_nth.
  - rewrite app_nth2; rewrite map_length, seq_length; [|cbn; lia].
    replace (S i * c + j - c) with (i * c + j) by (cbn; lia).
    cbn [nth]. apply IH; auto; lia.
Qed.

Lemma tabulate_shape r c f : shape (tabulate r c f) r c.
Proof.
  unfold shape, wf, tabulate; cbn. now rewrite flat_rows_length, seq_length.
Qed.

Lemma tabulate_ent r c f i j : i < r -> j < c -> ent (tabulate r c f) i j = f i j.
Proof.
  intros Hi Hj. unfold ent, tabulate; cbn.
  rewrite flat_rows_nth by (auto; now rewrite seq_length). now rewrite seq_nth.
Qed.

(* every well-formed matrix is the tabulation of its entries *)
Lemma tabulate_ent_id (m : matrix A) : wf m -> tabulate (rows m) (cols m) (ent m) = m.
Proof.
  intros W. destruct m as [b r c]. unfold tabulate, wf, ent in *; cbn in *. f_equal.
  apply nth_ext with (d := zero) (d' := zero).
  - now rewrite flat_rows_length, seq_length.
  - intros k Hk. rewrite flat_rows_length, seq_length in Hk.
    assert (c <> 0) by (intros ->; lia).
    rewrite (Nat.div_mod k c) at 1 by auto.
    rewrite (Nat.mul_comm c (k / c)).
    rewrite flat_rows_nth.
    + rewrite seq_nth; cbn.
      * f_equal. rewrite (Nat.div_mod k c) at 3 by auto. lia.
      * apply Nat.div_lt_upper_bound; auto. lia.
    + rewrite seq_length. apply Nat.div_lt_upper_bound; auto. lia.
    + now apply Nat.mod_upper_bound.
Qed.

End Tab.
