(* Proofs/JacExactRound.v -- package jacexact (C18): the ROUNDING FLOOR of the finite-difference Jacobian and the drift of
   the restored coordinates, in the standard model of floating-point arithmetic (Base/RoundModel.v: every +, -, / returns
   the exact result times (1 + e), |e| <= u; the same Gallina [jacobian] of Model/Newton.v run at ARm), for ANY user function.

   restore_drift                (x (+) d) (-) d  differs from x by at most  u(1+u)|x + d| + u|x|  <=  (2u + u^2)(|x| + |d|).
   jacobian_call_points_drift   the calls of Mat64::jacobian are made at x and at p_0, ..., p_(n-1) with   (all columns)
                                   (p_j)_j = fl(x_j + d),                |(p_j)_j - (x_j + d)| <= u |x_j + d|
                                   (p_j)_k = ((x_k (+) d) (-) d),        |(p_j)_k - x_k| <= (2u + u^2)(|x_k| + |d|)   for k < j
                                   (p_j)_k = x_k                                                                       for k > j
                                and the state the loop ends with is within (2u + u^2)(|x_k| + |d|) of x in every coordinate.
   jacobian_rounding_floor      if the computed values f^(p) of component i at x and at p_j carry a relative error <= eps
                                (|f^_i(p) - f_i(p)| <= eps |f_i(p)|, f_i the exact function) then the returned entry q satisfies
                                   | q - (f_i(p_j) - f_i(x)) / d |  <=  ( (2u + u^2) |f_i(p_j) - f_i(x)| + eps (1+u)^2 (|f_i(p_j)| + |f_i(x)|) ) / |d|
                                                                    <=  ( 2u + u^2 + eps (1+u)^2 ) (|f_i(p_j)| + |f_i(x)|) / |d|.
   jacobian_total_error         with g(t) = f_i(x + t e_j) twice differentiable between 0 and d, |g''| <= B, and Dr >= |f_i(p_j) - g(d)|
                                (the effect of the drift of the call point):
                                   | q - d f_i / d x_j (x) |  <=  |d|/2 B  +  floor  +  Dr / |d|.
   drift_lipschitz              Dr from coordinate-wise Lipschitz constants L_k of f_i:  Dr = L_j u |x_j + d| + Sum_(k<j) L_k (2u + u^2)(|x_k| + |d|).
   fd_optimal_step              the textbook trade-off:  B/2 d + K/d >= sqrt(2 B K)  for every d > 0, with equality at d = sqrt(2K/B)
                                (K = floor numerator ~ u |f|:  the best step is ~ sqrt(u), the best accuracy ~ sqrt(u)). *)
From Coq Require Import List Arith Lia Reals Lra Psatz.
From OV Require Import Base.Panic Base.Arith Base.RoundModel Model.Vector Model.Matrix Model.Newton
  Proofs.Matrix Proofs.Newton Proofs.NewtonJac Proofs.Newton2Jac Proofs.JacExactGen.
Import ListNotations.
Local Open Scope R_scope.

Lemma Rabs_bnd x y : Rabs x <= y -> - y <= x <= y.
Proof. unfold Rabs. destruct (Rcase_abs x); lra. Qed.

(* ---------------------------------------------------------------- the textbook trade-off (pure real analysis) *)
Lemma fd_optimal_step_lemma (B K : R) : 0 < B -> 0 < K ->
  (forall d, 0 < d -> R_sqrt.sqrt (2 * B * K) <= B / 2 * d + K / d) /\
  0 < R_sqrt.sqrt (2 * K / B) /\
  B / 2 * R_sqrt.sqrt (2 * K / B) + K / R_sqrt.sqrt (2 * K / B) = R_sqrt.sqrt (2 * B * K).
Proof.
  intros HB HK.
  assert (H2 : 0 < 2 * B * K) by nra.
  split; [|split].
  - intros d Hd.
    assert (Hpos : 0 <= B / 2 * d + K / d).
    { apply Rplus_le_le_0_compat; [nra|]. apply Rlt_le, Rdiv_lt_0_compat; lra. }
    apply Rsqr_incr_0_var; [|exact Hpos]. rewrite Rsqr_sqrt by lra. unfold Rsqr.
    replace ((B / 2 * d + K / d) * (B / 2 * d + K / d)) with (2 * B * K + (B / 2 * d - K / d) * (B / 2 * d - K / d))
      by (field; lra).
    pose proof (Rle_0_sqr (B / 2 * d - K / d)) as S. unfold Rsqr in S. lra.
  - apply sqrt_lt_R0. apply Rdiv_lt_0_compat; lra.
  - set (s := R_sqrt.sqrt (2 * K / B)).
    assert (Hs : 0 < s) by (apply sqrt_lt_R0; apply Rdiv_lt_0_compat; lra).
    assert (Hss : s * s = 2 * K / B) by (apply sqrt_sqrt; apply Rlt_le, Rdiv_lt_0_compat; lra).
    assert (Ht : 0 <= B / 2 * s + K / s).
    { apply Rplus_le_le_0_compat; [nra|]. apply Rlt_le, Rdiv_lt_0_compat; lra. }
    symmetry. apply sqrt_lem_1; [lra|exact Ht|].
    replace ((B / 2 * s + K / s) * (B / 2 * s + K / s)) with (B * B / 4 * (s * s) + B * K + K * K / (s * s))
      by (field; lra).
    rewrite Hss. field. lra.
Qed.

Section JacRound.
Variable u : R.
Hypothesis u_range : 0 <= u < 1.
Variables fadd fsub fmul fdiv : R -> R -> R.
Hypothesis fadd_ok : forall x y, exists e, Rabs e <= u /\ fadd x y = (x + y) * (1 + e).
Hypothesis fsub_ok : forall x y, exists e, Rabs e <= u /\ fsub x y = (x - y) * (1 + e).
Hypothesis fdiv_ok : forall x y, y <> 0 -> exists e, Rabs e <= u /\ fdiv x y = x / y * (1 + e).
Notation AM := (ARm fadd fsub fmul fdiv).
Notation OM := (NReal AM).

(* ---------------------------------------------------------------- item 3: the restored coordinate *)
Lemma restore_drift_lemma (x d : R) :
  Rabs (fsub (fadd x d) d - x) <= u * (1 + u) * Rabs (x + d) + u * Rabs x /\
  Rabs (fsub (fadd x d) d - x) <= (2 * u + u * u) * (Rabs x + Rabs d).
Proof using u_range fadd_ok fsub_ok.
  destruct (fadd_ok x d) as (e1 & H1 & E1). destruct (fsub_ok (fadd x d) d) as (e2 & H2 & E2).
  rewrite E2, E1. apply Rabs_bnd in H1. apply Rabs_bnd in H2.
  assert (G : Rabs (((x + d) * (1 + e1) - d) * (1 + e2) - x) <= u * (1 + u) * Rabs (x + d) + u * Rabs x).
  { replace (((x + d) * (1 + e1) - d) * (1 + e2) - x) with ((x + d) * (e1 * (1 + e2)) + x * e2) by ring.
    eapply Rle_trans; [apply Rabs_triang|]. rewrite !Rabs_mult.
    assert (A1 : Rabs e1 <= u) by (apply Rabs_le; lra).
    assert (A2 : Rabs e2 <= u) by (apply Rabs_le; lra).
    assert (A3 : Rabs (1 + e2) <= 1 + u) by (apply Rabs_le; lra).
    pose proof (Rabs_pos (x + d)). pose proof (Rabs_pos x). pose proof (Rabs_pos e1). pose proof (Rabs_pos (1 + e2)).
    assert (Rabs e1 * Rabs (1 + e2) <= u * (1 + u)) by nra.
    nra. }
  split; [exact G|]. eapply Rle_trans; [exact G|].
  pose proof (Rabs_triang x d). pose proof (Rabs_pos x). pose proof (Rabs_pos d). nra.
Qed.

Lemma fadd_err (x d : R) : Rabs (fadd x d - (x + d)) <= u * Rabs (x + d).
Proof using fadd_ok.
  destruct (fadd_ok x d) as (e1 & H1 & E1). rewrite E1.
  replace ((x + d) * (1 + e1) - (x + d)) with ((x + d) * e1) by ring. rewrite Rabs_mult.
  pose proof (Rabs_pos (x + d)). nra.
Qed.

(* the bound on coordinate k of the j-th call point *)
Definition drift_bound (x : list R) (d : R) (j k : nat) : R :=
  if k =? j then u * Rabs (nth k x 0 + d)
  else if k <? j then (2 * u + u * u) * (Rabs (nth k x 0) + Rabs d) else 0.

(* the exact point x + t e_j *)
Definition xpt (x : list R) (j : nat) (t : R) : list R := upd_list x j (nth j x 0 + t).

Lemma xpt_nth x j t k : (j < length x)%nat -> nth k (xpt x j t) 0 = if k =? j then nth j x 0 + t else nth k x 0.
Proof. intros Hj. unfold xpt. now rewrite nth_upd_list by exact Hj. Qed.

Lemma xpt_0 x j : xpt x j 0 = x.
Proof. unfold xpt. rewrite Rplus_0_r. apply nw_upd_list_same. Qed.

Lemma call_pt_drift (x : list R) (d : R) (j k : nat) : (j < length x)%nat ->
  Rabs (nth k (call_pt OM x d j) 0 - nth k (xpt x j d) 0) <= drift_bound x d j k.
Proof using u_range fadd_ok fsub_ok.
  intros Hj. rewrite xpt_nth by exact Hj. change 0 with (@zero (NA OM)) at 1.
  rewrite (call_pt_nth OM x d j k Hj). unfold drift_bound, restored. cbn [NA NReal add sub ARm zero].
  destruct (k =? j) eqn:Ekj.
  - apply Nat.eqb_eq in Ekj. subst k. apply fadd_err.
  - destruct (k <? j).
    + apply restore_drift_lemma.
    + rewrite Rminus_diag_eq by reflexivity. rewrite Rabs_R0. lra.
Qed.

Lemma state_drift (x : list R) (d : R) (j k : nat) : (j <= length x)%nat ->
  Rabs (nth k (state_at OM x d j) 0 - nth k x 0) <= (2 * u + u * u) * (Rabs (nth k x 0) + Rabs d).
Proof using u_range fadd_ok fsub_ok.
  intros Hj. change 0 with (@zero (NA OM)) at 1. rewrite (state_at_nth OM x d j k Hj).
  destruct (k <? j).
  - unfold restored. cbn [NA NReal add sub ARm zero]. apply restore_drift_lemma.
  - cbn [NA NReal ARm zero]. rewrite Rminus_diag_eq by reflexivity. rewrite Rabs_R0.
    pose proof (Rabs_pos (nth k x 0)). pose proof (Rabs_pos d). nra.
Qed.

Lemma jacobian_call_points_drift_lemma (F : list R -> res (list R)) (x : list R) (d : R) (st : list R) (J : matrix AM) evs :
  jacobian_tr OM F x d = Ok (st, J, evs) ->
  evs = x :: map (call_pt OM x d) (seq 0 (length x)) /\
  (forall j k, (j < length x)%nat -> Rabs (nth k (call_pt OM x d j) 0 - nth k (xpt x j d) 0) <= drift_bound x d j k) /\
  length st = length x /\
  (forall k, Rabs (nth k st 0 - nth k x 0) <= (2 * u + u * u) * (Rabs (nth k x 0) + Rabs d)).
Proof using u_range fadd_ok fsub_ok.
  intros H. apply jacobian_tr_gen in H as (-> & -> & _).
  split; [reflexivity|]. split; [intros j k Hj; now apply call_pt_drift|].
  split; [exact (state_at_length OM x d (length x))|]. intros k. apply state_drift. apply le_n.
Qed.

(* ---------------------------------------------------------------- item 2: the rounding floor of one quotient *)
Lemma fd_quotient_error (a b A B0 d eps : R) : d <> 0 -> 0 <= eps ->
  Rabs (a - A) <= eps * Rabs A -> Rabs (b - B0) <= eps * Rabs B0 ->
  Rabs (fdiv (fsub a b) d - (A - B0) / d) <=
    ((2 * u + u * u) * Rabs (A - B0) + eps * ((1 + u) * (1 + u)) * (Rabs A + Rabs B0)) / Rabs d.
Proof using u_range fsub_ok fdiv_ok.
  intros Hd He Ha Hb.
  destruct (fsub_ok a b) as (e1 & H1 & E1). destruct (fdiv_ok (fsub a b) d Hd) as (e2 & H2 & E2).
  rewrite E2, E1. apply Rabs_bnd in H1. apply Rabs_bnd in H2.
  set (P := (1 + e1) * (1 + e2)).
  replace ((a - b) * (1 + e1) / d * (1 + e2) - (A - B0) / d)
    with (((A - B0) * (P - 1) + ((a - A) - (b - B0)) * P) / d) by (unfold P; field; exact Hd).
  unfold Rdiv at 1. rewrite Rabs_mult, Rabs_inv. unfold Rdiv.
  apply Rmult_le_compat_r; [apply Rlt_le, Rinv_0_lt_compat, Rabs_pos_lt; exact Hd|].
  eapply Rle_trans; [apply Rabs_triang|]. rewrite !Rabs_mult.
  assert (P1 : Rabs (P - 1) <= 2 * u + u * u) by (apply Rabs_le; unfold P; nra).
  assert (P2 : Rabs P <= (1 + u) * (1 + u)) by (apply Rabs_le; unfold P; nra).
  assert (D : Rabs (a - A - (b - B0)) <= eps * (Rabs A + Rabs B0)).
  { eapply Rle_trans; [apply Rabs_triang|]. rewrite Rabs_Ropp. lra. }
  pose proof (Rabs_pos (A - B0)). pose proof (Rabs_pos (P - 1)). pose proof (Rabs_pos P).
  pose proof (Rabs_pos (a - A - (b - B0))). pose proof (Rabs_pos A). pose proof (Rabs_pos B0).
  assert (T1 : Rabs (A - B0) * Rabs (P - 1) <= (2 * u + u * u) * Rabs (A - B0)) by nra.
  assert (T2 : Rabs (a - A - (b - B0)) * Rabs P <= eps * ((1 + u) * (1 + u)) * (Rabs A + Rabs B0)).
  { apply Rle_trans with (eps * (Rabs A + Rabs B0) * ((1 + u) * (1 + u))); [|lra].
    apply Rmult_le_compat; lra. }
  lra.
Qed.

(* the entry of the model's Jacobian *)
Lemma jacobian_rounding_floor_lemma (F : list R -> res (list R)) (x : list R) (d : R) (J : matrix AM) evs :
  jacobian OM F x d = Ok (J, evs) -> d <> 0 ->
  forall (i j : nat) (fi : list R -> R) (eps : R),
  (i < rows J)%nat -> (j < length x)%nat -> 0 <= eps ->
  (forall v, F x = Ok v -> Rabs (nth i v 0 - fi x) <= eps * Rabs (fi x)) ->
  (forall v, F (call_pt OM x d j) = Ok v ->
     Rabs (nth i v 0 - fi (call_pt OM x d j)) <= eps * Rabs (fi (call_pt OM x d j))) ->
  exists q, mget J i j = Ok q /\
    Rabs (q - (fi (call_pt OM x d j) - fi x) / d) <=
      ((2 * u + u * u) * Rabs (fi (call_pt OM x d j) - fi x) +
       eps * ((1 + u) * (1 + u)) * (Rabs (fi (call_pt OM x d j)) + Rabs (fi x))) / Rabs d /\
    Rabs (q - (fi (call_pt OM x d j) - fi x) / d) <=
      (2 * u + u * u + eps * ((1 + u) * (1 + u))) * (Rabs (fi (call_pt OM x d j)) + Rabs (fi x)) / Rabs d.
Proof using u_range fsub_ok fdiv_ok.
  intros H Hd i j fi eps Hi Hj He H0 H1.
  apply jacobian_gen_lemma in H as (_ & f0 & E0 & _ & Rw & _ & Hent).
  assert (Hi' : (i < length f0)%nat) by (rewrite <- Rw; exact Hi).
  destruct (Hent i j Hi' Hj) as (fj & q & Ej & _ & Eq & Em).
  exists q. split; [exact Em|].
  cbn [NA NReal div sub ARm zero] in Eq. injection Eq as <-.
  specialize (H0 f0 E0). specialize (H1 fj Ej).
  pose proof (fd_quotient_error (nth i fj 0) (nth i f0 0) (fi (call_pt OM x d j)) (fi x) d eps Hd He H1 H0) as G.
  split; [exact G|]. eapply Rle_trans; [exact G|].
  unfold Rdiv. apply Rmult_le_compat_r; [apply Rlt_le, Rinv_0_lt_compat, Rabs_pos_lt; exact Hd|].
  set (A := fi (call_pt OM x d j)) in *. set (B0 := fi x) in *.
  assert (T : Rabs (A - B0) <= Rabs A + Rabs B0).
  { unfold Rminus. eapply Rle_trans; [apply Rabs_triang|]. rewrite Rabs_Ropp. lra. }
  pose proof (Rabs_pos (A - B0)). nra.
Qed.

(* truncation + rounding floor + drift of the call point *)
Lemma jacobian_total_error_lemma (F : list R -> res (list R)) (x : list R) (d : R) (J : matrix AM) evs :
  jacobian OM F x d = Ok (J, evs) -> d <> 0 ->
  forall (i j : nat) (fi : list R -> R) (eps Dr : R) (g1 g2 : R -> R) (B : R),
  (i < rows J)%nat -> (j < length x)%nat -> 0 <= eps ->
  (forall v, F x = Ok v -> Rabs (nth i v 0 - fi x) <= eps * Rabs (fi x)) ->
  (forall v, F (call_pt OM x d j) = Ok v ->
     Rabs (nth i v 0 - fi (call_pt OM x d j)) <= eps * Rabs (fi (call_pt OM x d j))) ->
  (forall t, Rmin 0 d <= t <= Rmax 0 d -> derivable_pt_lim (fun t => fi (xpt x j t)) t (g1 t)) ->
  (forall t, Rmin 0 d <= t <= Rmax 0 d -> derivable_pt_lim g1 t (g2 t)) ->
  (forall t, Rmin 0 d <= t <= Rmax 0 d -> Rabs (g2 t) <= B) ->
  Rabs (fi (call_pt OM x d j) - fi (xpt x j d)) <= Dr ->
  exists q, mget J i j = Ok q /\
    Rabs (q - g1 0) <=
      Rabs d / 2 * B +
      ((2 * u + u * u) * Rabs (fi (call_pt OM x d j) - fi x) +
       eps * ((1 + u) * (1 + u)) * (Rabs (fi (call_pt OM x d j)) + Rabs (fi x))) / Rabs d +
      Dr / Rabs d.
Proof using u_range fsub_ok fdiv_ok.
  intros H Hd i j fi eps Dr g1 g2 B Hi Hj He H0 H1 Hg1 Hg2 HB HDr.
  destruct (jacobian_rounding_floor_lemma F x d J evs H Hd i j fi eps Hi Hj He H0 H1) as (q & Em & G & _).
  exists q. split; [exact Em|].
  pose proof (fwd_diff_trunc (fun t => fi (xpt x j t)) g1 g2 d B Hg1 Hg2 HB Hd) as T. cbv beta in T.
  rewrite xpt_0 in T.
  set (A := fi (call_pt OM x d j)) in *. set (B0 := fi x) in *. set (G1 := fi (xpt x j d)) in *.
  replace (q - g1 0) with ((q - (A - B0) / d) + (A - G1) / d + ((G1 - B0) / d - g1 0)) by (field; exact Hd).
  eapply Rle_trans; [apply Rabs_triang|]. eapply Rle_trans; [apply Rplus_le_compat_r, Rabs_triang|].
  assert (D2 : Rabs ((A - G1) / d) <= Dr / Rabs d).
  { unfold Rdiv. rewrite Rabs_mult, Rabs_inv. apply Rmult_le_compat_r; [|exact HDr].
    apply Rlt_le, Rinv_0_lt_compat, Rabs_pos_lt; exact Hd. }
  lra.
Qed.

(* the drift term from coordinate-wise Lipschitz constants of f_i at the exact point x + d e_j, on the drift box *)
Lemma drift_lipschitz_lemma (x : list R) (d : R) (j : nat) (fi : list R -> R) (L : nat -> R) :
  (j < length x)%nat -> (forall k, 0 <= L k) ->
  (forall p, length p = length x ->
     (forall k, Rabs (nth k p 0 - nth k (xpt x j d) 0) <= drift_bound x d j k) ->
     Rabs (fi p - fi (xpt x j d)) <= Rsum (length x) (fun k => L k * Rabs (nth k p 0 - nth k (xpt x j d) 0))) ->
  Rabs (fi (call_pt OM x d j) - fi (xpt x j d)) <= Rsum (length x) (fun k => L k * drift_bound x d j k).
Proof using u_range fadd_ok fsub_ok.
  intros Hj HL Hlip.
  eapply Rle_trans; [apply Hlip; [exact (call_pt_length OM x d j)|intros k; now apply call_pt_drift]|].
  apply Rsum_le. intros k Hk. apply Rmult_le_compat_l; [apply HL|]. now apply call_pt_drift.
Qed.

(* the same statements with [drift_bound] and [xpt] spelled out *)
Lemma jacobian_call_points_drift_explicit (F : list R -> res (list R)) (x : list R) (d : R) (st : list R) (J : matrix AM) evs :
  jacobian_tr OM F x d = Ok (st, J, evs) ->
  evs = x :: map (call_pt OM x d) (seq 0 (length x)) /\
  (forall j k, (j < length x)%nat ->
     Rabs (nth k (call_pt OM x d j) 0 - (if k =? j then nth j x 0 + d else nth k x 0)) <=
       (if k =? j then u * Rabs (nth k x 0 + d)
        else if k <? j then (2 * u + u * u) * (Rabs (nth k x 0) + Rabs d) else 0)) /\
  length st = length x /\
  (forall k, Rabs (nth k st 0 - nth k x 0) <= (2 * u + u * u) * (Rabs (nth k x 0) + Rabs d)).
Proof using u_range fadd_ok fsub_ok.
  intros H. destruct (jacobian_call_points_drift_lemma F x d st J evs H) as (Ev & Hd & Ls & Hs).
  split; [exact Ev|]. split; [|split; assumption].
  intros j k Hj. specialize (Hd j k Hj). rewrite xpt_nth in Hd by exact Hj. exact Hd.
Qed.

Lemma drift_lipschitz_explicit (x : list R) (d : R) (j : nat) (fi : list R -> R) (L : nat -> R) :
  (j < length x)%nat -> (forall k, 0 <= L k) ->
  (forall p, length p = length x ->
     (forall k, Rabs (nth k p 0 - nth k (upd_list x j (nth j x 0 + d)) 0) <=
        (if k =? j then u * Rabs (nth k x 0 + d)
         else if k <? j then (2 * u + u * u) * (Rabs (nth k x 0) + Rabs d) else 0)) ->
     Rabs (fi p - fi (upd_list x j (nth j x 0 + d))) <=
       Rsum (length x) (fun k => L k * Rabs (nth k p 0 - nth k (upd_list x j (nth j x 0 + d)) 0))) ->
  Rabs (fi (call_pt OM x d j) - fi (upd_list x j (nth j x 0 + d))) <=
    Rsum (length x) (fun k => L k * (if k =? j then u * Rabs (nth k x 0 + d)
                                     else if k <? j then (2 * u + u * u) * (Rabs (nth k x 0) + Rabs d) else 0)).
Proof using u_range fadd_ok fsub_ok. exact (drift_lipschitz_lemma x d j fi L). Qed.

End JacRound.
