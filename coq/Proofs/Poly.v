(* Proofs/Poly.v -- stub, to be filled in *)
