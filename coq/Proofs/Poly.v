(* Proofs/Poly.v -- lemmas about Model/Poly.v for C11 (ring and calculus laws).
   Part 1: facts that hold over EVERY arithmetic (no laws): empty-operand shortcuts, lengths,
           exhaustion of repeated differentiation.
   Part 2: over a commutative ring (RingLaws as a Section hypothesis): coefficient formulae,
           Horner evaluation as a ring homomorphism, derivative laws. *)
From Coq Require Import List Arith Lia Bool Ring Ring_theory.
From OV Require Import Base.Panic Base.Arith Model.Poly.
Import ListNotations.

(* ------------------------------------------------------------------ list helpers *)
Lemma nth_map_seq {X} (f : nat -> X) n k d : k < n -> nth k (map f (seq 0 n)) d = f k.
Proof.
  intros H. rewrite (nth_indep _ d (f 0)) by (rewrite map_length, seq_length; lia).
  rewrite map_nth. now rewrite seq_nth.
Qed.

Lemma nth_map_lt {X Y} (f : X -> Y) l k d d' : k < length l -> nth k (map f l) d = f (nth k l d').
Proof.
  intros H. rewrite (nth_indep _ d (f d')) by (rewrite map_length; lia). apply map_nth.
Qed.

Lemma list_eq_nth {X} (l1 l2 : list X) d :
  length l1 = length l2 -> (forall k, nth k l1 d = nth k l2 d) -> l1 = l2.
Proof. intros HL H. apply (nth_ext _ _ d d); auto. Qed.

Lemma nth_error_nth_or {X} (l : list X) k d :
  (k < length l /\ nth_error l k = Some (nth k l d)) \/ (length l <= k /\ nth_error l k = None /\ nth k l d = d).
Proof.
  destruct (Nat.lt_ge_cases k (length l)) as [H|H].
  - left; split; auto. destruct (nth_error l k) eqn:E.
    + f_equal. symmetry. now apply nth_error_nth.
    + apply nth_error_None in E; lia.
  - right; repeat split; auto. now apply nth_error_None. now apply nth_overflow.
Qed.

Section PolyAny.
Context {A : Arith}.
Notation coef p k := (nth k p (@zero A)).

(* ---- the empty polynomial: neutral for + and -, absorbing for *  (by the shortcuts of the code) *)
Lemma padd_nil_l (q : list A) : padd [] q = q.            Proof. reflexivity. Qed.
Lemma padd_nil_r (p : list A) : padd p [] = p.            Proof. now destruct p. Qed.
Lemma psub_nil_r (p : list A) : psub p [] = p.            Proof. now destruct p. Qed.
Lemma psub_nil_l (q : list A) : psub [] q = pneg q.       Proof. reflexivity. Qed.
Lemma pmul_nil_l (q : list A) : pmul [] q = [].           Proof. reflexivity. Qed.
Lemma pmul_nil_r (p : list A) : pmul p [] = [].           Proof. now destruct p. Qed.
Lemma peval_nil (x : A) : peval [] x = Panic Unwrap.      Proof. reflexivity. Qed.
Lemma pderiv_nil : pderiv (@nil A) = Panic Unwrap.        Proof. reflexivity. Qed.

(* ---- both operands non-empty: the general branch *)
Lemma padd_cons a (p : list A) b q : padd (a :: p) (b :: q) =
  map (fun i => opt_acc add (opt_acc add zero (nth_error (a :: p) i)) (nth_error (b :: q) i))
      (seq 0 (Nat.max (length (a :: p)) (length (b :: q)))).
Proof. reflexivity. Qed.
Lemma psub_cons a (p : list A) b q : psub (a :: p) (b :: q) =
  map (fun i => opt_acc sub (opt_acc add zero (nth_error (a :: p) i)) (nth_error (b :: q) i))
      (seq 0 (Nat.max (length (a :: p)) (length (b :: q)))).
Proof. reflexivity. Qed.
Lemma pmul_cons a (p : list A) b q : pmul (a :: p) (b :: q) =
  map (pmul_coeff (a :: p) (b :: q)) (seq 0 (length (a :: p) + length (b :: q) - 1)).
Proof. reflexivity. Qed.

(* ---- lengths *)
Lemma length_pneg (p : list A) : length (pneg p) = length p.
Proof. apply map_length. Qed.
Lemma length_pscale (p : list A) s : length (pscale p s) = length p.
Proof. apply map_length. Qed.
Lemma length_padd (p q : list A) : length (padd p q) = Nat.max (length p) (length q).
Proof.
  destruct p as [|a p]; [reflexivity|]. destruct q as [|b q]; [cbn; lia|].
  unfold padd. now rewrite map_length, seq_length.
Qed.
Lemma length_psub (p q : list A) : length (psub p q) = Nat.max (length p) (length q).
Proof.
  destruct p as [|a p]; [cbn; apply length_pneg|]. destruct q as [|b q]; [cbn; lia|].
  unfold psub. now rewrite map_length, seq_length.
Qed.
Lemma length_pmul (p q : list A) : p <> [] -> q <> [] -> length (pmul p q) = length p + length q - 1.
Proof.
  destruct p as [|a p]; [congruence|]. destruct q as [|b q]; [congruence|]. intros _ _.
  unfold pmul. now rewrite map_length, seq_length.
Qed.
Lemma pderiv_ok (p : list A) : p <> [] -> exists d, pderiv p = Ok d /\ length d = length p - 1.
Proof.
  destruct p as [|a t]; [congruence|]. intros _. eexists; split; [reflexivity|].
  rewrite map_length, seq_length. cbn; lia.
Qed.
Lemma pderiv_length (p d : list A) : pderiv p = Ok d -> length d = length p - 1.
Proof.
  destruct p as [|a t]; [discriminate|]. intros E; injection E as <-.
  rewrite map_length, seq_length. cbn; lia.
Qed.

(* ---- repeated differentiation: order k <= len works and leaves len-k coefficients; the order
        len = degree+1 leaves the empty polynomial; any higher order panics (derivative of empty) *)
Lemma pderiv_n_length (k : nat) : forall p : list A, k <= length p ->
  exists d, pderiv_n p k = Ok d /\ length d = length p - k.
Proof.
  induction k as [|k IH]; intros p H; cbn.
  - exists p; split; auto; lia.
  - destruct (pderiv_ok p) as (d & E & L); [destruct p; cbn in *; [lia|congruence]|].
    rewrite E; cbn. destruct (IH d) as (d' & E' & L'); [lia|]. exists d'; split; auto; lia.
Qed.
Lemma pderiv_n_exhausts (p : list A) : p <> [] -> pderiv_n p (length p) = Ok [].
Proof.
  intros _. destruct (pderiv_n_length (length p) p) as (d & E & L); [lia|].
  rewrite E. f_equal. apply length_zero_iff_nil. lia.
Qed.
Lemma pderiv_n_beyond (k : nat) : forall p : list A, length p < k -> pderiv_n p k = Panic Unwrap.
Proof.
  induction k as [|k IH]; intros p H; [lia|]. cbn.
  destruct p as [|a t]; [reflexivity|].
  destruct (pderiv_ok (a :: t)) as (d & E & L); [congruence|]. rewrite E; cbn.
  apply IH. cbn in *; lia.
Qed.
Lemma pderiv_at_exhausted (p : list A) x : p <> [] -> pderiv_at p x (length p) = Panic Unwrap.
Proof. intros H. unfold pderiv_at. now rewrite pderiv_n_exhausts. Qed.

End PolyAny.

(* ------------------------------------------------------------------ over a commutative ring *)
Local Open Scope arith_scope.
Section PolyRing.
Context {A : Arith} (RL : RingLaws A).
Notation coef p k := (nth k p (@zero A)).
Add Ring Aring : (rl_ring A RL).

(* ---- finite sums *)
Lemma sum_n_zero n (f : nat -> A) : (forall k, k < n -> f k = zero) -> sum_n n f = zero.
Proof.
  induction n as [|n IH]; cbn; intros H; auto.
  rewrite IH by (intros; apply H; lia). rewrite H by lia. ring.
Qed.
Lemma sum_n_add n (f g : nat -> A) : sum_n n (fun k => f k + g k) = sum_n n f + sum_n n g.
Proof. induction n as [|n IH]; cbn; [ring|]. rewrite IH. ring. Qed.
Lemma sum_n_mul_l n c (f : nat -> A) : c * sum_n n f = sum_n n (fun k => c * f k).
Proof. induction n as [|n IH]; cbn; [ring|]. rewrite <- IH. ring. Qed.
Lemma sum_n_shift n (f : nat -> A) : sum_n (S n) f = f 0 + sum_n n (fun k => f (S k)).
Proof.
  induction n as [|n IH]; [cbn; ring|].
  change (sum_n (S (S n)) f) with (sum_n (S n) f + f (S n)). rewrite IH. cbn. ring.
Qed.
Lemma sum_n_trunc m n (f : nat -> A) : m <= n -> (forall k, m <= k < n -> f k = zero) -> sum_n n f = sum_n m f.
Proof.
  induction n as [|n IH]; intros H Hz.
  - now replace m with 0 by lia.
  - destruct (Nat.eq_dec m (S n)) as [->|]; [reflexivity|].
    cbn. rewrite IH by (try lia; intros; apply Hz; lia). rewrite Hz by lia. ring.
Qed.
Lemma sum_n_single n j (f : nat -> A) : j < n -> (forall k, k < n -> k <> j -> f k = zero) -> sum_n n f = f j.
Proof.
  induction n as [|n IH]; intros Hj Hz; [lia|]. cbn.
  destruct (Nat.eq_dec j n) as [->|Hne].
  - rewrite sum_n_zero by (intros; apply Hz; lia). ring.
  - rewrite IH by (try lia; intros; apply Hz; lia). rewrite (Hz n) by lia. ring.
Qed.

(* ---- coefficient formulae *)
Lemma coef_nil k : coef (@nil A) k = zero.
Proof. now destruct k. Qed.

Lemma opt_acc_nth f acc (p : list A) k :
  opt_acc f acc (nth_error p k) = if k <? length p then f acc (coef p k) else acc.
Proof.
  destruct (nth_error_nth_or p k zero) as [(H & E)|(H & E & _)]; rewrite E; cbn [opt_acc].
  - now apply Nat.ltb_lt in H as ->.
  - now apply Nat.ltb_ge in H as ->.
Qed.

Lemma nth_padd (p q : list A) k : coef (padd p q) k = coef p k + coef q k.
Proof.
  destruct p as [|a p]; [rewrite padd_nil_l, coef_nil; ring|].
  destruct q as [|b q]; [rewrite padd_nil_r, coef_nil; ring|].
  rewrite padd_cons. set (P := a :: p); set (Q := b :: q).
  destruct (Nat.lt_ge_cases k (Nat.max (length P) (length Q))) as [H|H].
  - rewrite nth_map_seq by auto. rewrite !opt_acc_nth.
    destruct (Nat.ltb_spec k (length P)), (Nat.ltb_spec k (length Q));
      rewrite ?(nth_overflow P), ?(nth_overflow Q) by lia; ring.
  - rewrite !nth_overflow; [ring| | |]; try lia. rewrite map_length, seq_length; lia.
Qed.

Lemma nth_pneg (p : list A) k : coef (pneg p) k = - coef p k.
Proof.
  unfold pneg. destruct (Nat.lt_ge_cases k (length p)) as [H|H].
  - now apply nth_map_lt.
  - rewrite !nth_overflow; [ring| |]; auto. now rewrite map_length.
Qed.

Lemma nth_psub (p q : list A) k : coef (psub p q) k = coef p k - coef q k.
Proof.
  destruct p as [|a p]; [rewrite psub_nil_l, nth_pneg, coef_nil; ring|].
  destruct q as [|b q]; [rewrite psub_nil_r, coef_nil; ring|].
  rewrite psub_cons. set (P := a :: p); set (Q := b :: q).
  destruct (Nat.lt_ge_cases k (Nat.max (length P) (length Q))) as [H|H].
  - rewrite nth_map_seq by auto. rewrite !opt_acc_nth.
    destruct (Nat.ltb_spec k (length P)), (Nat.ltb_spec k (length Q));
      rewrite ?(nth_overflow P), ?(nth_overflow Q) by lia; ring.
  - rewrite !nth_overflow; [ring| | |]; try lia. rewrite map_length, seq_length; lia.
Qed.

Lemma nth_pscale (p : list A) s k : coef (pscale p s) k = coef p k * s.
Proof.
  unfold pscale. destruct (Nat.lt_ge_cases k (length p)) as [H|H].
  - now apply (nth_map_lt (fun x => x * s)).
  - rewrite !nth_overflow; [ring| |]; auto. now rewrite map_length.
Qed.

(* the convolution sum  Σ_{i<=k} p_i q_{k-i} *)
Definition conv (p q : list A) (k : nat) : A := sum_n (S k) (fun i => coef p i * coef q (k - i)).

Lemma fold_left_seq_sum (g : A -> nat -> A) (h : nat -> A) n :
  (forall acc i, i < n -> g acc i = acc + h i) -> fold_left g (seq 0 n) zero = sum_n n h.
Proof.
  induction n as [|n IH]; intros H; [reflexivity|].
  rewrite seq_S, fold_left_app. cbn. rewrite IH by (intros; apply H; lia). apply H; lia.
Qed.

Lemma pmul_coeff_conv (p q : list A) k : pmul_coeff p q k = conv p q k.
Proof.
  unfold pmul_coeff, conv.
  set (h := fun i => if i <=? k then coef p i * coef q (k - i) else zero).
  rewrite (fold_left_seq_sum _ h).
  - (* both sums equal the sum of h over max (length p) (S k) *)
    transitivity (sum_n (Nat.max (length p) (S k)) h).
    + symmetry. apply sum_n_trunc; [lia|]. intros i Hi. unfold h.
      rewrite (nth_overflow p) by lia. destruct (i <=? k); ring.
    + transitivity (sum_n (S k) h).
      * apply sum_n_trunc; [lia|]. intros i Hi. unfold h.
        destruct (Nat.leb_spec i k); [lia|reflexivity].
      * apply sum_n_ext. intros i Hi. unfold h. destruct (Nat.leb_spec i k); [reflexivity|lia].
  - intros acc i Hi. unfold h.
    destruct (nth_error_nth_or p i zero) as [(_ & E)|(H' & _)]; [rewrite E|lia].
    destruct (Nat.leb_spec i k); [|ring].
    destruct (nth_error_nth_or q (k - i) zero) as [(_ & E')|(_ & E' & Z)]; rewrite E'; [reflexivity|].
    rewrite Z; ring.
Qed.

Lemma conv_zero_beyond (p q : list A) k : length p + length q - 1 <= k -> conv p q k = zero.
Proof.
  intros H. unfold conv. apply sum_n_zero. intros i Hi.
  destruct (Nat.lt_ge_cases i (length p)) as [Hp|Hp].
  - rewrite (nth_overflow q) by lia. ring.
  - rewrite (nth_overflow p) by lia. ring.
Qed.

Lemma nth_pmul (p q : list A) k : coef (pmul p q) k = conv p q k.
Proof.
  destruct p as [|a p].
  { rewrite pmul_nil_l, coef_nil. symmetry. apply sum_n_zero. intros i _. rewrite coef_nil. ring. }
  destruct q as [|b q].
  { rewrite pmul_nil_r, coef_nil. symmetry. apply sum_n_zero. intros i _. rewrite coef_nil. ring. }
  rewrite pmul_cons. set (P := a :: p); set (Q := b :: q).
  destruct (Nat.lt_ge_cases k (length P + length Q - 1)) as [H|H].
  - rewrite nth_map_seq by auto. apply pmul_coeff_conv.
  - rewrite nth_overflow by (rewrite map_length, seq_length; lia).
    symmetry. now apply conv_zero_beyond.
Qed.

Lemma conv_cons a (p q : list A) k :
  conv (a :: p) q k = a * coef q k + match k with 0 => zero | S k' => conv p q k' end.
Proof.
  unfold conv. rewrite sum_n_shift. cbn [nth]. rewrite Nat.sub_0_r. f_equal.
  destruct k as [|k']; reflexivity.
Qed.

(* ---- n-fold sums  a + a + ... + a  (what the derivative computes instead of a numeric cast) *)
Definition nmul (n : nat) (a : A) : A := add_times n a zero.

Lemma add_times_acc n : forall (a acc : A), add_times n a acc = acc + nmul n a.
Proof.
  unfold nmul. induction n as [|n IH]; intros a acc; cbn; [ring|].
  rewrite (IH a (acc + a)), (IH a (zero + a)). ring.
Qed.
Lemma nmul_0 a : nmul 0 a = zero.                      Proof. reflexivity. Qed.
Lemma nmul_S n a : nmul (S n) a = a + nmul n a.
Proof. unfold nmul at 1. cbn. rewrite add_times_acc. ring. Qed.
Lemma nmul_plus n m a : nmul (n + m) a = nmul n a + nmul m a.
Proof. induction n as [|n IH]; cbn [Nat.add]; rewrite ?nmul_S, ?nmul_0, ?IH; ring. Qed.
Lemma nmul_add n a b : nmul n (a + b) = nmul n a + nmul n b.
Proof. induction n as [|n IH]; rewrite ?nmul_S, ?nmul_0, ?IH; ring. Qed.
Lemma nmul_mul_l n a b : nmul n (a * b) = nmul n a * b.
Proof. induction n as [|n IH]; rewrite ?nmul_S, ?nmul_0, ?IH; ring. Qed.
Lemma nmul_mul_r n a b : nmul n (a * b) = a * nmul n b.
Proof. induction n as [|n IH]; rewrite ?nmul_S, ?nmul_0, ?IH; ring. Qed.
Lemma nmul_zero n : nmul n zero = zero.
Proof. induction n as [|n IH]; rewrite ?nmul_S, ?nmul_0, ?IH; ring. Qed.
Lemma nmul_of_nat n a : nmul n a = nmul n one * a.
Proof. rewrite <- nmul_mul_l. f_equal. ring. Qed.
Lemma nmul_sum m n (f : nat -> A) : nmul m (sum_n n f) = sum_n n (fun k => nmul m (f k)).
Proof. induction n as [|n IH]; cbn; [apply nmul_zero|]. now rewrite nmul_add, IH. Qed.

(* coefficient k of the derivative is (k+1) * a_{k+1} *)
Lemma nth_pderiv (p d : list A) k : pderiv p = Ok d -> coef d k = nmul (S k) (coef p (S k)).
Proof.
  destruct p as [|a t]; [discriminate|]. intros E; injection E as <-. cbn [nth].
  destruct (Nat.lt_ge_cases k (length t)) as [H|H].
  - rewrite nth_map_seq by auto. now rewrite Nat.add_1_r.
  - rewrite nth_overflow by (rewrite map_length, seq_length; lia).
    rewrite (nth_overflow t) by lia. now rewrite nmul_zero.
Qed.

(* ---- Horner evaluation *)
Fixpoint horner (p : list A) (x : A) : A :=
  match p with [] => zero | a :: t => a + x * horner t x end.
Fixpoint rpow (x : A) (n : nat) : A := match n with 0 => one | S n' => x * rpow x n' end.

Lemma fold_horner (x : A) (p : list A) c :
  fold_left (fun acc a => acc * x + a) (rev p) c = horner (p ++ [c]) x.
Proof.
  induction p as [|a p IH]; cbn; [ring|].
  rewrite fold_left_app. cbn. rewrite IH. ring.
Qed.

Lemma peval_horner (p : list A) x : p <> [] -> peval p x = Ok (horner p x).
Proof.
  intros H. destruct (exists_last H) as (p' & c & ->).
  unfold peval. rewrite rev_app_distr. cbn. now rewrite fold_horner.
Qed.

Lemma horner_sum_ge (p : list A) x n : length p <= n ->
  horner p x = sum_n n (fun i => coef p i * rpow x i).
Proof.
  revert n. induction p as [|a t IH]; intros n H.
  - cbn [horner]. symmetry. apply sum_n_zero. intros i _. rewrite coef_nil. ring.
  - destruct n as [|n]; [cbn in H; lia|]. cbn [horner].
    rewrite sum_n_shift. cbn [nth rpow]. rewrite (IH n) by (cbn in H; lia).
    rewrite sum_n_mul_l. replace (a * one) with a by ring. f_equal.
    apply sum_n_ext. intros; ring.
Qed.
Lemma horner_sum (p : list A) x : horner p x = sum_n (length p) (fun i => coef p i * rpow x i).
Proof. now apply horner_sum_ge. Qed.

Lemma horner_ext (p q : list A) x : (forall k, coef p k = coef q k) -> horner p x = horner q x.
Proof.
  intros H. rewrite (horner_sum_ge p x (Nat.max (length p) (length q))) by lia.
  rewrite (horner_sum_ge q x (Nat.max (length p) (length q))) by lia.
  apply sum_n_ext. intros i _. now rewrite H.
Qed.

Lemma horner_padd (p q : list A) x : horner (padd p q) x = horner p x + horner q x.
Proof.
  set (n := Nat.max (length p) (length q)).
  rewrite (horner_sum_ge (padd p q) x n) by (rewrite length_padd; subst n; lia).
  rewrite (horner_sum_ge p x n), (horner_sum_ge q x n) by (subst n; lia).
  rewrite <- sum_n_add. apply sum_n_ext. intros i _. rewrite nth_padd. ring.
Qed.
Lemma horner_psub (p q : list A) x : horner (psub p q) x = horner p x - horner q x.
Proof.
  set (n := Nat.max (length p) (length q)).
  rewrite (horner_sum_ge (psub p q) x n) by (rewrite length_psub; subst n; lia).
  rewrite (horner_sum_ge p x n), (horner_sum_ge q x n) by (subst n; lia).
  replace (sum_n n (fun i => coef p i * rpow x i) - sum_n n (fun i => coef q i * rpow x i))
    with (sum_n n (fun i => coef p i * rpow x i) + (- one) * sum_n n (fun i => coef q i * rpow x i)) by ring.
  rewrite sum_n_mul_l, <- sum_n_add. apply sum_n_ext. intros i _. rewrite nth_psub. ring.
Qed.
Lemma horner_pneg (p : list A) x : horner (pneg p) x = - horner p x.
Proof. induction p as [|a t IH]; cbn; [ring|]. unfold pneg in IH. rewrite IH. ring. Qed.
Lemma horner_pscale (p : list A) s x : horner (pscale p s) x = horner p x * s.
Proof. induction p as [|a t IH]; cbn; [ring|]. unfold pscale in IH. rewrite IH. ring. Qed.
Lemma horner_lscale (p : list A) c x : horner (map (mul c) p) x = c * horner p x.
Proof. induction p as [|a t IH]; cbn; [ring|]. rewrite IH. ring. Qed.

Lemma horner_pmul (p q : list A) x : horner (pmul p q) x = horner p x * horner q x.
Proof.
  induction p as [|a p IH].
  - rewrite pmul_nil_l. cbn. ring.
  - transitivity (horner (padd (map (mul a) q) (zero :: pmul p q)) x).
    + apply horner_ext. intros k. rewrite nth_pmul, conv_cons, nth_padd. f_equal.
      * destruct (Nat.lt_ge_cases k (length q)) as [H|H].
        -- symmetry. now apply (nth_map_lt (mul a)).
        -- rewrite !nth_overflow; [ring| |]; auto. now rewrite map_length.
      * destruct k as [|k']; cbn [nth]; [reflexivity|]. now rewrite nth_pmul.
    + rewrite horner_padd, horner_lscale. cbn [horner]. rewrite IH. ring.
Qed.

(* ---- derivative laws *)
Lemma pderiv_padd (p q dp dq : list A) : pderiv p = Ok dp -> pderiv q = Ok dq ->
  pderiv (padd p q) = Ok (padd dp dq).
Proof.
  intros Ep Eq.
  assert (Np : p <> []) by (intros ->; discriminate).
  assert (Nq : q <> []) by (intros ->; discriminate).
  destruct (pderiv_ok (padd p q)) as (d & E & L).
  { intros Z. apply (f_equal (@length _)) in Z. rewrite length_padd in Z. destruct p; [congruence|cbn [length] in Z; lia]. }
  rewrite E. f_equal. apply (list_eq_nth _ _ zero).
  - rewrite L, !length_padd, (pderiv_length _ _ Ep), (pderiv_length _ _ Eq). lia.
  - intros k. rewrite (nth_pderiv _ _ k E), nth_padd, nmul_add, nth_padd.
    now rewrite (nth_pderiv _ _ k Ep), (nth_pderiv _ _ k Eq).
Qed.

Lemma pderiv_psub (p q dp dq : list A) : pderiv p = Ok dp -> pderiv q = Ok dq ->
  forall d, pderiv (psub p q) = Ok d -> forall k, coef d k = coef (psub dp dq) k.
Proof.
  intros Ep Eq d E k. rewrite (nth_pderiv _ _ k E), !nth_psub.
  rewrite (nth_pderiv _ _ k Ep), (nth_pderiv _ _ k Eq).
  replace (coef p (S k) - coef q (S k)) with (coef p (S k) + (- one) * coef q (S k)) by ring.
  rewrite nmul_add, nmul_mul_r. ring.
Qed.

Lemma pderiv_pscale (p dp : list A) s : pderiv p = Ok dp -> pderiv (pscale p s) = Ok (pscale dp s).
Proof.
  intros Ep.
  assert (Np : p <> []) by (intros ->; discriminate).
  destruct (pderiv_ok (pscale p s)) as (d & E & L).
  { intros Z. apply (f_equal (@length _)) in Z. rewrite length_pscale in Z. destruct p; [congruence|cbn [length] in Z; lia]. }
  rewrite E. f_equal. apply (list_eq_nth _ _ zero).
  - rewrite L, !length_pscale, (pderiv_length _ _ Ep). lia.
  - intros k. rewrite (nth_pderiv _ _ k E), !nth_pscale, nmul_mul_l.
    now rewrite (nth_pderiv _ _ k Ep).
Qed.

(* product rule, coefficient by coefficient:
   (k+1) Σ_{i<=k+1} p_i q_{k+1-i}  =  Σ_{i<=k} (i+1) p_{i+1} q_{k-i}  +  Σ_{i<=k} p_i (k-i+1) q_{k-i+1} *)
Lemma product_rule_coef (p q dp dq : list A) k : pderiv p = Ok dp -> pderiv q = Ok dq ->
  nmul (S k) (conv p q (S k)) = conv dp q k + conv p dq k.
Proof.
  intros Ep Eq. unfold conv.
  set (F := fun i => coef p i * coef q (S k - i)).
  rewrite nmul_sum.
  (* first sum: shift the index, the new i = 0 term is zero *)
  assert (E1 : sum_n (S k) (fun i => coef dp i * coef q (k - i)) = sum_n (S (S k)) (fun i => nmul i (F i))).
  { rewrite (sum_n_shift (S k)). rewrite nmul_0.
    replace (zero + sum_n (S k) (fun i => nmul (S i) (F (S i)))) with (sum_n (S k) (fun i => nmul (S i) (F (S i)))) by ring.
    apply sum_n_ext. intros i Hi. unfold F. rewrite (nth_pderiv _ _ i Ep), nmul_mul_l. reflexivity. }
  (* second sum: one more term, which is zero *)
  assert (E2 : sum_n (S k) (fun i => coef p i * coef dq (k - i)) = sum_n (S (S k)) (fun i => nmul (S k - i) (F i))).
  { change (sum_n (S (S k)) (fun i => nmul (S k - i) (F i)))
      with (sum_n (S k) (fun i => nmul (S k - i) (F i)) + nmul (S k - S k) (F (S k))).
    rewrite Nat.sub_diag, nmul_0.
    replace (sum_n (S k) (fun i => nmul (S k - i) (F i)) + zero) with (sum_n (S k) (fun i => nmul (S k - i) (F i))) by ring.
    apply sum_n_ext. intros i Hi. unfold F. rewrite (nth_pderiv _ _ (k - i) Eq), nmul_mul_r.
    replace (S (k - i)) with (S k - i)%nat by lia. reflexivity. }
  rewrite E1, E2, <- sum_n_add. apply sum_n_ext. intros i Hi.
  rewrite <- nmul_plus. f_equal. lia.
Qed.

Lemma pderiv_pmul_coef (p q dp dq d : list A) : pderiv p = Ok dp -> pderiv q = Ok dq ->
  pderiv (pmul p q) = Ok d -> forall k, coef d k = coef (padd (pmul dp q) (pmul p dq)) k.
Proof.
  intros Ep Eq E k. rewrite (nth_pderiv _ _ k E), nth_padd, !nth_pmul.
  now apply product_rule_coef.
Qed.

Lemma pderiv_pmul (p q dp dq : list A) : pderiv p = Ok dp -> pderiv q = Ok dq ->
  pderiv (pmul p q) = Ok (padd (pmul dp q) (pmul p dq)).
Proof.
  intros Ep Eq.
  assert (Np : p <> []) by (intros ->; discriminate).
  assert (Nq : q <> []) by (intros ->; discriminate).
  assert (Lm := length_pmul p q Np Nq).
  destruct (pderiv_ok (pmul p q)) as (d & E & L).
  { intros Z. rewrite Z in Lm. destruct p, q; cbn in *; try congruence; lia. }
  rewrite E. f_equal. apply (list_eq_nth _ _ zero).
  - rewrite L, Lm, length_padd.
    assert (Lp := pderiv_length _ _ Ep). assert (Lq := pderiv_length _ _ Eq).
    destruct dp as [|x dp']; destruct dq as [|y dq'].
    + rewrite pmul_nil_l, pmul_nil_r. cbn in *. lia.
    + rewrite pmul_nil_l. cbn [length Nat.max]. rewrite length_pmul by congruence. cbn in *. lia.
    + rewrite pmul_nil_r. rewrite length_pmul by congruence. cbn in *. lia.
    + rewrite !length_pmul by congruence. cbn in *. lia.
  - now apply pderiv_pmul_coef.
Qed.

(* ---- evaluation of results: total on non-empty operands, and a ring homomorphism *)
Lemma padd_nonempty (p q : list A) : p <> [] -> padd p q <> [].
Proof.
  intros Hp Z. apply (f_equal (@length _)) in Z. rewrite length_padd in Z.
  destruct p; [congruence|cbn [length] in Z; lia].
Qed.
Lemma psub_nonempty (p q : list A) : p <> [] -> psub p q <> [].
Proof.
  intros Hp Z. apply (f_equal (@length _)) in Z. rewrite length_psub in Z.
  destruct p; [congruence|cbn [length] in Z; lia].
Qed.
Lemma pmul_nonempty (p q : list A) : p <> [] -> q <> [] -> pmul p q <> [].
Proof.
  intros Hp Hq Z. apply (f_equal (@length _)) in Z. rewrite length_pmul in Z by auto.
  destruct p; [congruence|]. destruct q; [congruence|]. cbn [length] in Z; lia.
Qed.

Lemma peval_padd_lemma (p q : list A) x : p <> [] -> q <> [] ->
  exists a b, peval p x = Ok a /\ peval q x = Ok b /\ peval (padd p q) x = Ok (a + b).
Proof.
  intros Hp Hq. exists (horner p x), (horner q x).
  rewrite !peval_horner by auto using padd_nonempty. now rewrite horner_padd.
Qed.
Lemma peval_psub_lemma (p q : list A) x : p <> [] -> q <> [] ->
  exists a b, peval p x = Ok a /\ peval q x = Ok b /\ peval (psub p q) x = Ok (a - b).
Proof.
  intros Hp Hq. exists (horner p x), (horner q x).
  rewrite !peval_horner by auto using psub_nonempty. now rewrite horner_psub.
Qed.
Lemma peval_pmul_lemma (p q : list A) x : p <> [] -> q <> [] ->
  exists a b, peval p x = Ok a /\ peval q x = Ok b /\ peval (pmul p q) x = Ok (a * b).
Proof.
  intros Hp Hq. exists (horner p x), (horner q x).
  rewrite !peval_horner by auto using pmul_nonempty. now rewrite horner_pmul.
Qed.
Lemma peval_pneg_pscale_lemma (p : list A) x s : p <> [] ->
  exists a, peval p x = Ok a /\ peval (pneg p) x = Ok (- a) /\ peval (pscale p s) x = Ok (a * s).
Proof.
  intros Hp. exists (horner p x).
  assert (pneg p <> []) by (destruct p; [congruence|discriminate]).
  assert (pscale p s <> []) by (destruct p; [congruence|discriminate]).
  rewrite !peval_horner by auto. now rewrite horner_pneg, horner_pscale.
Qed.

End PolyRing.
