(* Proofs/PinTest_robust.v -- compiled copy of coq/Props/pending/C11_robust.v.txt (the blocks the coordinator appends to Props/C11.v),
   under the imports of Props/C11.v. *)
From Coq Require Import List Arith ZArith.
From OV Require Import Base.Panic Base.Arith Inst.QcInst Model.Poly Proofs.Poly Proofs.PolyExtra Proofs.PolyRing.
Import ListNotations.

(* ---- the canonicalisations of the source translator (package robust, driver/rust2coq.py header C1, C2, C3, C7) as theorems about
   the loop combinators: the `for_` / `for_ret` / `for_rev` term the translator emits for a counter `while` (e.g. the Horner loop
   of Polynomial::eval written `let mut i = degree; while i > 0 { i -= 1; .. }`) equals the while_ret term of the table-driven
   translation of the same loop, for every body, every state, every bound and every sufficient fuel. *)
From OV Require gen.SrcPrelude Proofs.SrcEqBase Proofs.SrcEqCanon Model.Matrix.
Theorem counter_up_while_is_for_ret : forall (S R : Type) (hi : nat) (body : nat -> S -> res (S + R)) (fuel lo : nat) (s : S),
  hi - lo < fuel ->
  SrcPrelude.while_ret fuel (SrcEqCanon.while_up_body hi body) (lo, s)
  = let* o := SrcPrelude.for_ret lo hi body s in
    Ok (Some (match o with inl s' => inl (Nat.max lo hi, s') | inr r => inr r end)).
Proof. intros S R hi body fuel lo s H. exact (SrcEqCanon.counter_up_while_is_for_ret hi body fuel lo s H). Qed.
Check counter_up_while_is_for_ret : forall (S R : Type) (hi : nat) (body : nat -> S -> res (S + R)) (fuel lo : nat) (s : S),
  hi - lo < fuel ->
  SrcPrelude.while_ret fuel (SrcEqCanon.while_up_body hi body) (lo, s)
  = let* o := SrcPrelude.for_ret lo hi body s in
    Ok (Some (match o with inl s' => inl (Nat.max lo hi, s') | inr r => inr r end)).
Print Assumptions counter_up_while_is_for_ret.
Example counter_up_while_is_for_ret_nonvacuous :
  5 - 2 < 4 /\ SrcPrelude.while_ret 4 (SrcEqCanon.while_up_body (R := nat) 5 (fun i s => if i =? 4 then Ok (inr (s + i)) else Ok (inl (s + i)))) (2, 0)
               = Ok (Some (inr 9)).
Proof. split; [repeat constructor | reflexivity]. Qed.

Theorem counter_up_while_is_for : forall (S : Type) (hi : nat) (body : nat -> S -> res S) (fuel lo : nat) (s : S),
  hi - lo < fuel ->
  SrcPrelude.while_ret fuel (SrcEqCanon.while_up_body0 hi body) (lo, s)
  = let* s' := for_ lo hi body s in Ok (Some (inl (Nat.max lo hi, s'))).
Proof. intros S hi body fuel lo s H. exact (SrcEqCanon.counter_up_while_is_for hi body fuel lo s H). Qed.
Check counter_up_while_is_for : forall (S : Type) (hi : nat) (body : nat -> S -> res S) (fuel lo : nat) (s : S),
  hi - lo < fuel ->
  SrcPrelude.while_ret fuel (SrcEqCanon.while_up_body0 hi body) (lo, s)
  = let* s' := for_ lo hi body s in Ok (Some (inl (Nat.max lo hi, s'))).
Print Assumptions counter_up_while_is_for.
Example counter_up_while_is_for_nonvacuous :
  6 - 1 < 6 /\ SrcPrelude.while_ret 6 (SrcEqCanon.while_up_body0 6 (fun i s => Ok (s ++ [i]))) (1, []) = Ok (Some (inl (6, [1; 2; 3; 4; 5]))).
Proof. split; [repeat constructor | reflexivity]. Qed.

Theorem counter_up1_while_is_for : forall (S : Type) (hi : nat) (body : nat -> S -> res S) (fuel lo : nat) (s : S),
  hi - lo < fuel ->
  SrcPrelude.while_ret fuel (SrcEqCanon.while_up1_body hi body) (lo, s)
  = let* s' := for_ lo hi (fun k s => let i1 := (k + 1)%nat in body i1 s) s in Ok (Some (inl (Nat.max lo hi, s'))).
Proof. intros S hi body fuel lo s H. exact (SrcEqCanon.counter_up1_while_is_for hi body fuel lo s H). Qed.
Check counter_up1_while_is_for : forall (S : Type) (hi : nat) (body : nat -> S -> res S) (fuel lo : nat) (s : S),
  hi - lo < fuel ->
  SrcPrelude.while_ret fuel (SrcEqCanon.while_up1_body hi body) (lo, s)
  = let* s' := for_ lo hi (fun k s => let i1 := (k + 1)%nat in body i1 s) s in Ok (Some (inl (Nat.max lo hi, s'))).
Print Assumptions counter_up1_while_is_for.
Example counter_up1_while_is_for_nonvacuous :
  3 - 0 < 4 /\ SrcPrelude.while_ret 4 (SrcEqCanon.while_up1_body 3 (fun i s => Ok (s ++ [i]))) (0, []) = Ok (Some (inl (3, [1; 2; 3]))).
Proof. split; [repeat constructor | reflexivity]. Qed.

Theorem counter_down_while_is_for_rev : forall (S : Type) (lo : nat) (body : nat -> S -> res S) (fuel hi : nat) (s : S),
  hi - lo < fuel ->
  SrcPrelude.while_ret fuel (SrcEqCanon.while_down_body lo body) (hi, s)
  = let* s' := for_rev lo hi body s in Ok (Some (inl (Nat.min hi lo, s'))).
Proof. intros S lo body fuel hi s H. exact (SrcEqCanon.counter_down_while_is_for_rev lo body fuel hi s H). Qed.
Check counter_down_while_is_for_rev : forall (S : Type) (lo : nat) (body : nat -> S -> res S) (fuel hi : nat) (s : S),
  hi - lo < fuel ->
  SrcPrelude.while_ret fuel (SrcEqCanon.while_down_body lo body) (hi, s)
  = let* s' := for_rev lo hi body s in Ok (Some (inl (Nat.min hi lo, s'))).
Print Assumptions counter_down_while_is_for_rev.
Example counter_down_while_is_for_rev_nonvacuous :
  4 - 0 < 5 /\ SrcPrelude.while_ret 5 (SrcEqCanon.while_down_body 0 (fun i s => Ok (s ++ [i]))) (4, []) = Ok (Some (inl (0, [3; 2; 1; 0]))).
Proof. split; [repeat constructor | reflexivity]. Qed.

Theorem countdown_for_is_for_rev : forall (S : Type) (n : nat) (body : nat -> S -> res S) (s : S),
  for_ 0 n (fun k s => let* a := usub n 1 in let* i := usub a k in body i s) s = for_rev 0 n body s.
Proof. intros S n body s. exact (SrcEqCanon.countdown_for_is_for_rev n body s). Qed.
Check countdown_for_is_for_rev : forall (S : Type) (n : nat) (body : nat -> S -> res S) (s : S),
  for_ 0 n (fun k s => let* a := usub n 1 in let* i := usub a k in body i s) s = for_rev 0 n body s.
Print Assumptions countdown_for_is_for_rev.

Theorem conditional_orientation : forall (Y : Type) (a b : nat) (c : bool) (x y : Y),
  (if a <=? b then x else y) = (if b <? a then y else x) /\
  (if a <? b then x else y) = (if b <=? a then y else x) /\
  (if negb c then x else y) = (if c then y else x).
Proof. intros Y a b c x y. exact (conj (SrcEqBase.if_leb_flip a b x y) (conj (SrcEqBase.if_ltb_flip a b x y) (SrcEqBase.if_negb_flip c x y))). Qed.
Check conditional_orientation : forall (Y : Type) (a b : nat) (c : bool) (x y : Y),
  (if a <=? b then x else y) = (if b <? a then y else x) /\
  (if a <? b then x else y) = (if b <=? a then y else x) /\
  (if negb c then x else y) = (if c then y else x).
Print Assumptions conditional_orientation.

Theorem negation_normal_form : forall (a b : nat) (x y : bool),
  negb (a <? b) = (b <=? a) /\ negb (a <=? b) = (b <? a) /\ negb (negb (a =? b)) = (a =? b) /\
  negb (x && y)%bool = (negb x || negb y)%bool /\ negb (x || y)%bool = (negb x && negb y)%bool.
Proof. intros a b x y. exact (conj (SrcEqCanon.nnf_ltb a b) (conj (SrcEqCanon.nnf_leb a b) (conj (SrcEqCanon.nnf_eqb a b) (conj (SrcEqCanon.nnf_andb x y) (SrcEqCanon.nnf_orb x y))))). Qed.
Check negation_normal_form : forall (a b : nat) (x y : bool),
  negb (a <? b) = (b <=? a) /\ negb (a <=? b) = (b <? a) /\ negb (negb (a =? b)) = (a =? b) /\
  negb (x && y)%bool = (negb x || negb y)%bool /\ negb (x || y)%bool = (negb x && negb y)%bool.
Print Assumptions negation_normal_form.

Theorem element_writes_keep_shape : forall (A : Arith) (l l' : list A) (m m' : Matrix.matrix A) (i j : nat) (x : A),
  (upd l i x = Ok l' -> length l' = length l) /\
  (Matrix.mset m i j x = Ok m' -> Matrix.rows m' = Matrix.rows m /\ Matrix.cols m' = Matrix.cols m /\ length (Matrix.buf m') = length (Matrix.buf m)).
Proof. intros A l l' m m' i j x. exact (conj (SrcEqCanon.upd_keeps_length l l' i x) (SrcEqCanon.mset_keeps_shape m m' i j x)). Qed.
Check element_writes_keep_shape : forall (A : Arith) (l l' : list A) (m m' : Matrix.matrix A) (i j : nat) (x : A),
  (upd l i x = Ok l' -> length l' = length l) /\
  (Matrix.mset m i j x = Ok m' -> Matrix.rows m' = Matrix.rows m /\ Matrix.cols m' = Matrix.cols m /\ length (Matrix.buf m') = length (Matrix.buf m)).
Print Assumptions element_writes_keep_shape.
Example element_writes_keep_shape_nonvacuous :
  upd [q 1 1; q 2 1; q 3 1] 1 (q 9 1 : AQ) = Ok [q 1 1; q 9 1; q 3 1] /\
  exists m', Matrix.mset (@Matrix.mkM AQ [q 1 1; q 2 1; q 3 1; q 4 1] 2 2) 1 0 (q 7 1 : AQ) = Ok m' /\ Matrix.rows m' = 2.
Proof. split; [reflexivity|]. eexists; split; reflexivity. Qed.
