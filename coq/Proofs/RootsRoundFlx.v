(* Proofs/RootsRoundFlx.v -- an instance of [std_model] (Proofs/RootsRound.v) that REALLY ROUNDS, built from the model's own
   complex operators.

   [flx_ops fsqrt]: the rounded complex operations are the operators of Model/Complex.v -- cadd, csub, cmul, cdiv, cmul_r, the
   formulas of src/complex/mod.rs -- instantiated at the arithmetic [AFlx] of Proofs/RoundFlx.v (every real operation = the exact
   one followed by round-to-nearest-even to 53 bits, unbounded exponent: binary64 without underflow / overflow).  Through the
   normwise bounds of Proofs/ComplexRound.v (cmul_std_model, cdiv_std_model) they satisfy the standard model with

        eps_flx = (3/2) kappa(2u + u^2),   kappa(g) = (2g + u(1+g)) / (1-g),  u = 2^-53         eps_flx <= 8 u

   (3/2 >= sqrt 2; the quotient is the worst operator).  Complex::sqrt is libm-backed (an oracle of the model): it stays an
   arbitrary function [fsqrt], assumed to have relative error eps_flx with respect to some square root.
   Consequence (quadratic_residual_flx_lemma): in that arithmetic both values returned by the model's quadratic_solve satisfy
        |a x^2 + b x + c| <= 128 u (|a||x|^2 + |b||x| + |c|),    u = 2^-53,     for every a <> 0, b, c. *)
From Coq Require Import List Arith Bool Reals Lra Lia Psatz.
From Coquelicot Require Import Complex.
From OV Require Import Base.Panic Base.Arith Base.RoundModel Model.Complex gen.Params Model.Roots
                       Proofs.RoundFlx Proofs.ComplexRound Proofs.RootsRound.
Import ListNotations.
Local Open Scope R_scope.
Import RRN.

Definition ofC (z : C) : cplx AFlx := @mkC AFlx (fst z) (snd z).
Definition toC (z : cplx AFlx) : C := (re z, im z).

Definition flx_add (z w : C) : C := toC (cadd (ofC z) (ofC w)).
Definition flx_sub (z w : C) : C := toC (csub (ofC z) (ofC w)).
Definition flx_mul (z w : C) : C := toC (cmul (ofC z) (ofC w)).
Definition flx_div (z w : C) : C := match cdiv (ofC z) (ofC w) with Ok q => toC q | Panic _ => RtoC 0 end.
Definition flx_scale (z : C) (r : R) : C := toC (@cmul_r AFlx (ofC z) r).

Definition eps_flx : R := 3 / 2 * kappa ux (2 * ux + ux * ux).

Definition flx_ops (fsqrt : C -> C) : RoundOps := {|
  o_radd := xadd; o_rsub := xsub; o_rmul := xmul; o_rdiv := xdiv; o_rsqrt := fun x => rndx (R_sqrt.sqrt x); o_rfrac := [];
  o_kabs := fun z => rndx (R_sqrt.sqrt (@abs_sqr AFlx (ofC z))); o_kabsA := fun z => z;
  o_kdivr := fun z r => match @cdiv_r AFlx (ofC z) r with Ok q => toC q | Panic _ => RtoC 0 end;
  o_kltb := fun z w => @cltb AFlx (ofC z) (ofC w); o_kleb := fun z w => @cleb AFlx (ofC z) (ofC w);
  o_pow := fun z _ => z; o_polar := fun r _ => RtoC r;
  o_add := flx_add; o_sub := flx_sub; o_mul := flx_mul; o_div := flx_div; o_scale := flx_scale; o_sqrt := fsqrt |}.

(* ---------------------------------------------------------------- componentwise / squared bounds -> normwise *)
Lemma norm_of_sq (e s : C) (k : R) : 0 <= k ->
  fst e * fst e + snd e * snd e <= (k * k) * (fst s * fst s + snd s * snd s) -> Cmod e <= k * Cmod s.
Proof.
  intros Hk H. apply sq_le_lin; try apply Cmod_ge_0; try exact Hk. now rewrite !Cmod_sqr.
Qed.

Lemma norm_of_cw (e s : C) (k : R) : 0 <= k ->
  Rabs (fst e) <= k * Rabs (fst s) -> Rabs (snd e) <= k * Rabs (snd s) -> Cmod e <= k * Cmod s.
Proof.
  intros Hk H1 H2. apply norm_of_sq; [exact Hk|].
  apply sq_le_of_abs_le in H1, H2.
  replace (k * Rabs (fst s) * (k * Rabs (fst s))) with (k * k * (fst s * fst s)) in H1.
  2:{ replace (fst s * fst s) with (Rabs (fst s) * Rabs (fst s)); [ring|]. unfold Rabs. destruct (Rcase_abs (fst s)); ring. }
  replace (k * Rabs (snd s) * (k * Rabs (snd s))) with (k * k * (snd s * snd s)) in H2.
  2:{ replace (snd s * snd s) with (Rabs (snd s) * Rabs (snd s)); [ring|]. unfold Rabs. destruct (Rcase_abs (snd s)); ring. }
  lra.
Qed.

Lemma rndx_err x : Rabs (rndx x - x) <= ux * Rabs x.
Proof.
  destruct (rndx_rel x) as (d & Hd & E). rewrite E. replace (x * (1 + d) - x) with (x * d) by ring.
  rewrite Rabs_mult. pose proof (Rabs_pos x). nra.
Qed.

(* ---------------------------------------------------------------- the constants *)
Lemma g_small : 0 <= 2 * ux + ux * ux <= / 500.
Proof. pose proof ux_range. pose proof ux_small. split; nra. Qed.

Lemma kappa_bounds : 2 * ux + ux * ux <= kappa ux (2 * ux + ux * ux) /\ kappa ux (2 * ux + ux * ux) <= 5.1 * ux.
Proof.
  pose proof ux_range as U. pose proof ux_small as S. pose proof g_small as G. unfold kappa.
  set (g := 2 * ux + ux * ux) in *.
  assert (P : 0 < 1 - g) by lra.
  split.
  - apply (Rmult_le_reg_r (1 - g)); [exact P|]. unfold Rdiv. rewrite Rmult_assoc, Rinv_l by lra. nra.
  - apply (Rmult_le_reg_r (1 - g)); [exact P|]. unfold Rdiv. rewrite Rmult_assoc, Rinv_l by lra. unfold g in *. nra.
Qed.

Lemma eps_flx_bounds : 0 <= eps_flx /\ ux <= eps_flx /\ 3 / 2 * (2 * ux + ux * ux) <= eps_flx /\ eps_flx <= 8 * ux /\ eps_flx <= / 100.
Proof.
  pose proof ux_range as U. pose proof ux_small as S. destruct kappa_bounds as [K1 K2]. pose proof g_small as G.
  unfold eps_flx. repeat split; nra.
Qed.

(* ---------------------------------------------------------------- the five operators *)
Lemma flx_add_ok (x y : C) : Cmod (flx_add x y - (x + y))%C <= eps_flx * Cmod (x + y)%C.
Proof.
  destruct eps_flx_bounds as (E0 & E1 & _). pose proof ux_range as U.
  apply Rle_trans with (ux * Cmod (x + y)%C); [|apply Rmult_le_compat_r; [apply Cmod_ge_0|exact E1]].
  apply norm_of_cw; [lra| |]; destruct x as [a b], y as [c d]; cbn; unfold xadd; apply rndx_err.
Qed.

Lemma flx_sub_ok (x y : C) : Cmod (flx_sub x y - (x - y))%C <= eps_flx * Cmod (x - y)%C.
Proof.
  destruct eps_flx_bounds as (E0 & E1 & _). pose proof ux_range as U.
  apply Rle_trans with (ux * Cmod (x - y)%C); [|apply Rmult_le_compat_r; [apply Cmod_ge_0|exact E1]].
  apply norm_of_cw; [lra| |]; destruct x as [a b], y as [c d]; cbn; unfold xsub.
  - replace (a + - c) with (a - c) by ring. apply rndx_err.
  - replace (b + - d) with (b - d) by ring. apply rndx_err.
Qed.

Lemma flx_scale_ok (z : C) (r : R) : Cmod (flx_scale z r - z * RtoC r)%C <= eps_flx * Cmod (z * RtoC r)%C.
Proof.
  destruct eps_flx_bounds as (E0 & E1 & _). pose proof ux_range as U.
  apply Rle_trans with (ux * Cmod (z * RtoC r)%C); [|apply Rmult_le_compat_r; [apply Cmod_ge_0|exact E1]].
  apply norm_of_cw; [lra| |]; destruct z as [a b]; cbn; unfold xmul.
  - replace (a * r - b * 0) with (a * r) by ring. apply rndx_err.
  - replace (a * 0 + b * r) with (b * r) by ring. apply rndx_err.
Qed.

Lemma flx_mul_ok (x y : C) : Cmod (flx_mul x y - x * y)%C <= eps_flx * Cmod (x * y)%C.
Proof.
  destruct eps_flx_bounds as (E0 & E1 & E2 & _). pose proof ux_range as U. pose proof g_small as G.
  set (g := 2 * ux + ux * ux) in *.
  apply Rle_trans with (3 / 2 * g * Cmod (x * y)%C); [|apply Rmult_le_compat_r; [apply Cmod_ge_0|exact E2]].
  rewrite Cmod_mult.
  destruct x as [a b], y as [c d].
  pose proof (cmul_std_model ux (proj1 U) a b c d (rndx (a * c)) (rndx (b * d)) (rndx (a * d)) (rndx (b * c))
                (rndx (rndx (a * c) - rndx (b * d))) (rndx (rndx (a * d) + rndx (b * c)))
                (rndx_err _) (rndx_err _) (rndx_err _) (rndx_err _) (rndx_err _) (rndx_err _)) as K.
  cbv zeta in K. fold g in K.
  set (e := (flx_mul (a, b) (c, d) - (a, b) * (c, d))%C).
  assert (Ee : fst e = rndx (rndx (a * c) - rndx (b * d)) - (a * c - b * d) /\
               snd e = rndx (rndx (a * d) + rndx (b * c)) - (a * d + b * c)).
  { unfold e. cbn. unfold xsub, xadd, xmul. split; ring. }
  destruct Ee as [Ee1 Ee2].
  assert (M : Cmod e * Cmod e <= (3 / 2 * g) * (3 / 2 * g) * ((Cmod (a, b) * Cmod (c, d)) * (Cmod (a, b) * Cmod (c, d)))).
  { rewrite Cmod_sqr, Ee1, Ee2.
    replace ((Cmod (a, b) * Cmod (c, d)) * (Cmod (a, b) * Cmod (c, d)))
      with ((Cmod (a, b) * Cmod (a, b)) * (Cmod (c, d) * Cmod (c, d))) by ring.
    rewrite !Cmod_sqr. cbn [fst snd].
    assert (0 <= g * g * ((a * a + b * b) * (c * c + d * d))).
    { apply Rmult_le_pos; [nra|]. apply Rmult_le_pos; nra. }
    nra. }
  apply sq_le_lin; try apply Cmod_ge_0.
  - apply Rmult_le_pos; apply Cmod_ge_0.
  - lra.
  - exact M.
Qed.

Lemma flx_div_ok (x y : C) : y <> RtoC 0 -> Cmod (flx_div x y - x / y)%C <= eps_flx * Cmod (x / y)%C.
Proof.
  intros Hy. pose proof ux_range as U. pose proof g_small as G.
  set (g := 2 * ux + ux * ux) in *. set (k := kappa ux g).
  destruct kappa_bounds as [K1 K2]. fold g in K1, K2. fold k in K1, K2.
  unfold eps_flx. fold g. fold k.
  rewrite Cmod_div by exact Hy.
  destruct x as [a b], y as [c d].
  assert (HD : 0 < c * c + d * d).
  { apply Cmod_gt_0 in Hy. assert (0 < Cmod (c, d) * Cmod (c, d)) by nra. rewrite Cmod_sqr in H. exact H. }
  pose proof (cdiv_std_model ux (proj1 U) a b c d (rndx (c * c)) (rndx (d * d)) (rndx (rndx (c * c) + rndx (d * d)))
                (rndx (a * c)) (rndx (b * d)) (rndx (rndx (a * c) + rndx (b * d)))
                (rndx (b * c)) (rndx (a * d)) (rndx (rndx (b * c) - rndx (a * d)))
                (rndx (rndx (rndx (a * c) + rndx (b * d)) / rndx (rndx (c * c) + rndx (d * d))))
                (rndx (rndx (rndx (b * c) - rndx (a * d)) / rndx (rndx (c * c) + rndx (d * d))))
                ltac:(fold g; lra) HD
                (rndx_err _) (rndx_err _) (rndx_err _) (rndx_err _) (rndx_err _) (rndx_err _)
                (rndx_err _) (rndx_err _) (rndx_err _) (rndx_err _) (rndx_err _)) as K.
  cbv zeta in K. fold g in K. fold k in K.
  set (e := (flx_div (a, b) (c, d) - (a, b) / (c, d))%C).
  assert (Ee : fst e = rndx (rndx (rndx (a * c) + rndx (b * d)) / rndx (rndx (c * c) + rndx (d * d)))
                       - (a * c + b * d) / (c * c + d * d) /\
               snd e = rndx (rndx (rndx (b * c) - rndx (a * d)) / rndx (rndx (c * c) + rndx (d * d)))
                       - (b * c - a * d) / (c * c + d * d)).
  { unfold e. cbn. unfold xdiv, xsub, xadd, xmul. split; field; lra. }
  destruct Ee as [Ee1 Ee2].
  assert (Pc : 0 < Cmod (c, d)) by (now apply Cmod_gt_0).
  assert (Ec : Cmod (c, d) * Cmod (c, d) = c * c + d * d) by (rewrite Cmod_sqr; reflexivity).
  assert (Ea : Cmod (a, b) * Cmod (a, b) = a * a + b * b) by (rewrite Cmod_sqr; reflexivity).
  assert (M : Cmod e * Cmod e <= (3 / 2 * k) * (3 / 2 * k) * ((Cmod (a, b) / Cmod (c, d)) * (Cmod (a, b) / Cmod (c, d)))).
  { rewrite Cmod_sqr, Ee1, Ee2.
    replace ((Cmod (a, b) / Cmod (c, d)) * (Cmod (a, b) / Cmod (c, d)))
      with ((Cmod (a, b) * Cmod (a, b)) / (Cmod (c, d) * Cmod (c, d))) by (field; lra).
    rewrite Ea, Ec.
    assert (0 <= k * k * ((a * a + b * b) / (c * c + d * d))).
    { apply Rmult_le_pos; [nra|]. unfold Rdiv. apply Rmult_le_pos; [nra|]. apply Rlt_le, Rinv_0_lt_compat. exact HD. }
    nra. }
  apply sq_le_lin; try apply Cmod_ge_0.
  - unfold Rdiv. apply Rmult_le_pos; [apply Cmod_ge_0|]. apply Rlt_le, Rinv_0_lt_compat. exact Pc.
  - nra.
  - exact M.
Qed.

(* ---------------------------------------------------------------- the instance *)
Theorem flx_std_model_lemma (fsqrt : C -> C) :
  (forall z : C, exists w : C, (w * w)%C = z /\ Cmod (fsqrt z - w)%C <= eps_flx * Cmod w) ->
  0 <= eps_flx <= / 100 /\ eps_flx <= 8 * ux /\ std_model eps_flx (flx_ops fsqrt).
Proof.
  intros Hs. destruct eps_flx_bounds as (E0 & _ & _ & E8 & E100).
  split; [lra|]. split; [exact E8|].
  unfold std_model. cbn [o_add o_sub o_mul o_div o_scale o_sqrt flx_ops].
  repeat split.
  - exact flx_add_ok.
  - exact flx_sub_ok.
  - exact flx_mul_ok.
  - exact flx_div_ok.
  - exact flx_scale_ok.
  - exact Hs.
Qed.

(* the quadratic in that arithmetic: residual <= 128 u (|a||x|^2 + |b||x| + |c|), u = 2^-53 *)
Theorem quadratic_residual_flx_lemma (fsqrt : C -> C) (a b c : C) :
  (forall z : C, exists w : C, (w * w)%C = z /\ Cmod (fsqrt z - w)%C <= eps_flx * Cmod w) -> a <> RtoC 0 ->
  exists r0 r1 : C, poly_solve (RoundRAo eps_flx (flx_ops fsqrt)) [c; b; a] false = Ok ([r0; r1], []) /\
    forall x : C, x = r0 \/ x = r1 ->
      Cmod (a * x * x + b * x + c)%C <= 128 * ux * (Cmod a * Cmod x * Cmod x + Cmod b * Cmod x + Cmod c).
Proof.
  intros Hs Ha. destruct (flx_std_model_lemma fsqrt Hs) as (He & E8 & HO).
  destruct (quadratic_residual_bound_lemma eps_flx _ a b c He HO Ha) as (r0 & r1 & E & H).
  exists r0, r1. split; [exact E|]. intros x Hx. eapply Rle_trans; [exact (H x Hx)|].
  apply Rmult_le_compat_r; [|lra].
  pose proof (Cmod_ge_0 a). pose proof (Cmod_ge_0 b). pose proof (Cmod_ge_0 c). pose proof (Cmod_ge_0 x).
  assert (0 <= Cmod a * Cmod x * Cmod x) by (repeat apply Rmult_le_pos; assumption).
  assert (0 <= Cmod b * Cmod x) by (apply Rmult_le_pos; assumption). lra.
Qed.

(* non-vacuity: the exact principal square root is an admissible fsqrt, and the arithmetic really rounds *)
From OV Require Import Proofs.RootsRoundEx.
Lemma flx_nonvacuous :
  (forall z : C, exists w : C, (w * w)%C = z /\ Cmod (Csqrt z - w)%C <= eps_flx * Cmod w) /\ RtoC 1 <> RtoC 0 /\
  flx_scale (RtoC 1) (1 / 3) <> (RtoC 1 * RtoC (1 / 3))%C.
Proof.
  destruct eps_flx_bounds as (E0 & _).
  split; [|split].
  - intros z. exists (Csqrt z). split; [apply Csqrt_sqr|].
    replace (Csqrt z - Csqrt z)%C with (RtoC 0) by ring. rewrite Cmod_0. pose proof (Cmod_ge_0 (Csqrt z)). nra.
  - intros H. apply RtoC_inj in H. lra.
  - intros H. apply (f_equal fst) in H. cbn in H. apply xdiv_inexact. unfold xdiv.
    unfold xmul in H. replace (1 / 3) with (1 * (1 / 3)) at 1 by ring. rewrite H. ring.
Qed.
