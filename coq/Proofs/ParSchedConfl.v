(* Proofs/ParSchedConfl.v -- commutation: in every reachable state, steps of two DIFFERENT threads commute (the
   strong diamond property): whichever moves first, the other can still move afterwards and both orders reach the
   same state.  This is the formal content of "a worker touches only its own component; main touches a worker's
   component only when that worker cannot move (before it is spawned, after it has finished)". *)
From Coq Require Import List Arith Lia.
From OV Require Import Base.Panic Base.Arith Model.Vector Model.ParDot Model.ParSched Proofs.ParDot Proofs.ParSched.
Import ListNotations.

Lemma upd_list_comm {X} (l : list X) i j x y : i <> j ->
  upd_list (upd_list l i x) j y = upd_list (upd_list l j y) i x.
Proof.
  revert i j; induction l as [|h tl IH]; intros [|i] [|j] H; cbn; auto; try congruence.
  f_equal. apply IH. congruence.
Qed.

Lemma nth_error_upd_other {X} (l : list X) i j x : j <> i -> nth_error (upd_list l i x) j = nth_error l j.
Proof.
  revert i j; induction l as [|h tl IH]; intros [|i] [|j] H; cbn; auto; try congruence.
Qed.

Section Confl.
Context {A : Arith}.
Notation T := (T A).
Variables (v w : list T) (t : nat).
Hypothesis Ht : 1 <= t.
Hypothesis Hl : length v = length w.
Notation fire := (fire v w t).
Notation Inv := (Inv v w t).

Lemma diamond_workers s k1 k2 s1 s2 : k1 <> k2 ->
  fire (Wk k1) s = Some s1 -> fire (Wk k2) s = Some s2 ->
  exists s', fire (Wk k2) s1 = Some s' /\ fire (Wk k1) s2 = Some s'.
Proof.
  intros Hne H1 H2. destruct s as [m l]. cbn [ParSched.fire ws main] in *.
  destruct (nth_error l k1) as [x1|] eqn:E1; [|discriminate].
  destruct (wstep x1) as [x1'|] eqn:W1; [|discriminate]. injection H1 as <-.
  destruct (nth_error l k2) as [x2|] eqn:E2; [|discriminate].
  destruct (wstep x2) as [x2'|] eqn:W2; [|discriminate]. injection H2 as <-.
  cbn [ws main]. rewrite (nth_error_upd_other l k1 k2) by congruence.
  rewrite (nth_error_upd_other l k2 k1) by congruence. rewrite E1, E2, W1, W2.
  eexists; split; [reflexivity|]. now rewrite (upd_list_comm l k1 k2).
Qed.

Lemma diamond_main_worker s k s1 s2 : Inv s ->
  fire Main s = Some s1 -> fire (Wk k) s = Some s2 ->
  exists s', fire (Wk k) s1 = Some s' /\ fire Main s2 = Some s'.
Proof.
  intros [HL HM] H1 H2. destruct s as [m l]. cbn [ParSched.fire ws main] in *.
  destruct (nth_error l k) as [x|] eqn:Ek; [|discriminate].
  destruct (wstep x) as [x'|] eqn:Wx; [|discriminate]. injection H2 as <-. cbn [ws main].
  destruct m as [i|j acc|r]; [| |discriminate].
  - destruct HM as [Hi HW]. destruct (i <? t).
    + assert (Hne : k <> i).
      { intros ->. destruct (HW i x Ek) as [_ H]. rewrite (H (le_n i)) in Wx. discriminate. }
      destruct (job v w t i) as [[a b]|pk]; injection H1 as <-; cbn [ws main].
      * rewrite (nth_error_upd_other l i k) by exact Hne. rewrite Ek, Wx.
        eexists; split; [reflexivity|]. now rewrite (upd_list_comm l i k) by congruence.
      * rewrite Ek, Wx. eauto.
    + injection H1 as <-. cbn [ws main]. rewrite Ek, Wx. eauto.
  - destruct (j <? t).
    + destruct (nth_error l j) as [y|] eqn:Ej; [|discriminate].
      assert (Hne : k <> j -> nth_error (upd_list l k x') j = Some y)
        by (intros H; now rewrite (nth_error_upd_other l k j) by congruence).
      destruct y as [|a b n ac|r| |]; try discriminate.
      * assert (Hkj : k <> j) by (intros ->; rewrite Ej in Ek; injection Ek as <-; discriminate).
        injection H1 as <-. cbn [ws main]. rewrite (nth_error_upd_other l j k) by exact Hkj.
        rewrite Ek, Wx, (Hne Hkj). eexists; split; [reflexivity|].
        now rewrite (upd_list_comm l j k) by congruence.
      * assert (Hkj : k <> j) by (intros ->; rewrite Ej in Ek; injection Ek as <-; discriminate).
        injection H1 as <-. cbn [ws main]. rewrite Ek, Wx, (Hne Hkj). eauto.
    + injection H1 as <-. cbn [ws main]. rewrite Ek, Wx. eauto.
Qed.

Lemma sched_diamond_exec s th1 th2 s1 s2 : Inv s -> th1 <> th2 ->
  fire th1 s = Some s1 -> fire th2 s = Some s2 ->
  exists s', fire th2 s1 = Some s' /\ fire th1 s2 = Some s'.
Proof.
  intros HI Hne H1 H2. destruct th1 as [|k1]; destruct th2 as [|k2].
  - congruence.
  - now apply (diamond_main_worker s k2 s1 s2).
  - destruct (diamond_main_worker s k1 s2 s1 HI H2 H1) as (s' & Ha & Hb). eauto.
  - apply (diamond_workers s k1 k2); congruence.
Qed.

End Confl.

Section ConflTop.
Context {A : Arith}.
Lemma sched_diamond_lemma (v w : list A) t s0 n s th1 th2 s1 s2 :
  par_program v w t = Ok s0 -> steps v w t n s0 s -> th1 <> th2 ->
  fire v w t th1 s = Some s1 -> fire v w t th2 s = Some s2 ->
  exists s', fire v w t th2 s1 = Some s' /\ fire v w t th1 s2 = Some s'.
Proof.
  intros HP HS Hne H1 H2. apply par_program_ok in HP as (Ht & Hl & ->).
  apply steps_exec in HS as (sch & _ & HE).
  destruct (exec_Inv v w t Ht Hl sch _ s (Inv_init v w t Ht Hl) HE) as [HI _].
  exact (sched_diamond_exec v w t s th1 th2 s1 s2 HI Hne H1 H2).
Qed.
End ConflTop.
