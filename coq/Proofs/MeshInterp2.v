(* Proofs/MeshInterp2.v -- the complete description of Mesh1D<f64,f64>::get_interpolated_vars
   (Model/Mesh.v: interp1) over R on a spaced node list (Proofs/MeshInterp.v: spaced):
     - within the snapping window of node k: the line of cell k (of cell n-2 for the last node);
     - at least the window left of the first / right of the last node: the zero-initialised result
       (no cell matches; this is the code's behaviour outside the grid);
     - inside a cell, at least the window away from its two nodes: the line of that cell
       (MeshInterp.interp_in_cell);
   and these four cases are exhaustive (interp_total).  In particular the function never panics on
   a spaced grid (interp1_spaced_ok). *)
From Coq Require Import List Arith Lia Bool Reals Lra.
From OV Require Import Base.Panic.
From OV Require Import Base.Arith.
From OV Require Import Model.Vector.
From OV Require Import Model.Mesh.
From OV Require Import Proofs.MeshBase.
From OV Require Import Proofs.MeshInterp.
Import ListNotations.
Local Open Scope R_scope.

(* ------------------------------------------------------------------ more of the cell test *)
Lemma in_cell_near_left snap xl xr x : Rabs (xl - x) < snap -> @in_cell AR snap xl xr x = true.
Proof.
  intros H. unfold in_cell, gtb. arR. rewrite !Rabs'_Rabs.
  rewrite (Rltb_t (Rabs (xl - x)) snap H). now rewrite orb_true_r.
Qed.

Lemma in_cell_near_right snap xl xr x : Rabs (xr - x) < snap -> @in_cell AR snap xl xr x = true.
Proof.
  intros H. unfold in_cell, gtb. arR. rewrite !Rabs'_Rabs.
  rewrite (Rltb_t (Rabs (xr - x)) snap H). now rewrite orb_true_r.
Qed.

(* a cell lying at least the window to the left of x does not match *)
Lemma in_cell_before snap xl xr x :
  0 <= snap -> xl + snap <= x -> xr + snap <= x -> @in_cell AR snap xl xr x = false.
Proof.
  intros Hs H1 H2. unfold in_cell, gtb. arR.
  rewrite (Rltb_f x xr) by lra. rewrite andb_false_r. cbn [orb].
  rewrite !Rabs'_Rabs.
  rewrite (Rltb_f (Rabs (xl - x)) snap) by (rewrite Rabs_left1; lra).
  rewrite (Rltb_f (Rabs (xr - x)) snap) by (rewrite Rabs_left1; lra).
  reflexivity.
Qed.

Section Interp2.
Variable m : mesh1 AR R.
Notation nodes := (m1_nodes m).
Notation xs k := (nth k (m1_nodes m) 0).
Notation row k := (nth k (m1_vars m) []).

(* the loop when no cell matches: the zero-initialised result comes back *)
Lemma interp_loop_none snap x :
  (1 <= length nodes)%nat ->
  (forall j, (j + 1 < length nodes)%nat -> @in_cell AR snap (xs j) (xs (j + 1)) x = false) ->
  @interp1 AR snap m x = Ok (repeat 0 (m1_nvars m)).
Proof.
  intros Hn Hout. unfold interp1, usub. arR.
  destruct (Nat.leb_spec 1 (length nodes)) as [_|]; [|lia]. cbn [bind].
  match goal with |- for_ 0 ?n ?b ?s = _ =>
    destruct (for_inv (fun (i : nat) r => r = s) 0 n b s) as (s' & E & Hs)
  end.
  - lia.
  - reflexivity.
  - intros i r Hi ->.
    rewrite (rd_ok nodes i 0) by lia. cbn [bind].
    rewrite (rd_ok nodes (i + 1) 0) by lia. cbn [bind].
    rewrite Hout by lia. eexists; split; reflexivity.
  - rewrite E, Hs. reflexivity.
Qed.

(* N1: inside the snapping window of node k the line of cell k is used (cells k-1 and k both
   match, the later one wins); for the last node the line of the last cell n-2 *)
Lemma interp_near_inner_node snap k x :
  0 < snap -> wf1 m -> spaced snap nodes -> (k + 1 < length nodes)%nat ->
  Rabs (x - xs k) < snap ->
  @interp1 AR snap m x = Ok (cellv m k x).
Proof.
  intros Hs Hwf Hsp Hk Hx.
  assert (Hne := spaced_ne m snap (Rlt_le _ _ Hs) Hsp).
  assert (Hx' : - snap < x - xs k < snap) by (apply Rabs_def2 in Hx; lra).
  apply (interp_loop_last m snap x k); auto.
  - apply in_cell_near_left. rewrite Rabs_minus_sym. exact Hx.
  - intros j Hkj Hj.
    assert (xs k + 2 * snap < xs j) by (apply (spaced_lt snap); auto; lia || lra).
    assert (xs k + 2 * snap < xs (j + 1)) by (apply (spaced_lt snap); auto; lia || lra).
    apply in_cell_beyond; lra.
Qed.

Lemma interp_near_last_node snap x :
  0 < snap -> wf1 m -> spaced snap nodes -> (2 <= length nodes)%nat ->
  Rabs (x - xs (length nodes - 1)) < snap ->
  @interp1 AR snap m x = Ok (cellv m (length nodes - 2) x).
Proof.
  intros Hs Hwf Hsp Hn Hx.
  assert (Hne := spaced_ne m snap (Rlt_le _ _ Hs) Hsp).
  apply (interp_loop_last m snap x (length nodes - 2)); auto; try lia.
  replace (length nodes - 2 + 1)%nat with (length nodes - 1)%nat by lia.
  apply in_cell_near_right. rewrite Rabs_minus_sym. exact Hx.
Qed.

Lemma interp_near_node snap k x :
  0 < snap -> wf1 m -> spaced snap nodes -> (2 <= length nodes)%nat ->
  (k < length nodes)%nat -> Rabs (x - xs k) < snap ->
  @interp1 AR snap m x = Ok (cellv m (Nat.min k (length nodes - 2)) x).
Proof.
  intros Hs Hwf Hsp Hn Hk Hx.
  destruct (Nat.eq_dec k (length nodes - 1)) as [->|Hnl].
  - replace (Nat.min (length nodes - 1) (length nodes - 2)) with (length nodes - 2)%nat by lia.
    apply interp_near_last_node; auto.
  - replace (Nat.min k (length nodes - 2)) with k by lia.
    apply interp_near_inner_node; auto. lia.
Qed.

(* N2: at least the window outside the grid no cell matches: the zero vector *)
Lemma interp_outside_left snap x :
  0 < snap -> spaced snap nodes -> (1 <= length nodes)%nat ->
  x + snap <= xs 0%nat ->
  @interp1 AR snap m x = Ok (repeat 0 (m1_nvars m)).
Proof.
  intros Hs Hsp Hn Hx. apply interp_loop_none; [exact Hn|].
  intros j Hj.
  assert (xs 0%nat <= xs j) by (apply (spaced_le snap); auto; lia || lra).
  assert (xs 0%nat <= xs (j + 1)) by (apply (spaced_le snap); auto; lia || lra).
  apply in_cell_beyond; lra.
Qed.

Lemma interp_outside_right snap x :
  0 < snap -> spaced snap nodes -> (1 <= length nodes)%nat ->
  xs (length nodes - 1) + snap <= x ->
  @interp1 AR snap m x = Ok (repeat 0 (m1_nvars m)).
Proof.
  intros Hs Hsp Hn Hx. apply interp_loop_none; [exact Hn|].
  intros j Hj.
  assert (xs j <= xs (length nodes - 1)) by (apply (spaced_le snap); auto; lia || lra).
  assert (xs (j + 1) <= xs (length nodes - 1)) by (apply (spaced_le snap); auto; lia || lra).
  apply in_cell_before; lra.
Qed.

End Interp2.

(* ------------------------------------------------------------------ N3: the cases are exhaustive *)
(* pure order reasoning on any non-empty list (no spacing needed): scan for the last node that is
   at least the window below x *)
Lemma nodes_cases_upto (snap x : R) (l : list R) i :
  (i < length l)%nat ->
  x + snap <= nth 0 l 0 \/
  nth i l 0 + snap <= x \/
  (exists k, (k <= i)%nat /\ Rabs (x - nth k l 0) < snap) \/
  (exists k, (k + 1 <= i)%nat /\ nth k l 0 + snap <= x /\ x <= nth (k + 1) l 0 - snap).
Proof.
  induction i as [|i IH]; intros Hi.
  - destruct (Rle_lt_dec (x + snap) (nth 0 l 0)) as [H1|H1]; [now left|].
    destruct (Rle_lt_dec (nth 0 l 0 + snap) x) as [H2|H2]; [right; now left|].
    right; right; left. exists 0%nat. split; [lia|]. apply Rabs_def1; lra.
  - destruct IH as [H|[H|[(k & Hk & H)|(k & Hk & H)]]]; [lia| | | |].
    + now left.
    + replace (S i) with (i + 1)%nat by lia.
      destruct (Rle_lt_dec x (nth (i + 1) l 0 - snap)) as [H1|H1].
      * right; right; right. exists i. repeat split; [lia|exact H|exact H1].
      * destruct (Rle_lt_dec (nth (i + 1) l 0 + snap) x) as [H2|H2]; [right; now left|].
        right; right; left. exists (i + 1)%nat. split; [lia|]. apply Rabs_def1; lra.
    + right; right; left. exists k. split; [lia|exact H].
    + right; right; right. exists k. split; [lia|exact H].
Qed.

Lemma nodes_cases (snap x : R) (l : list R) :
  (1 <= length l)%nat ->
  x + snap <= nth 0 l 0 \/
  nth (length l - 1) l 0 + snap <= x \/
  (exists k, (k < length l)%nat /\ Rabs (x - nth k l 0) < snap) \/
  (exists k, (k + 1 < length l)%nat /\ nth k l 0 + snap <= x /\ x <= nth (k + 1) l 0 - snap).
Proof.
  intros Hn.
  destruct (nodes_cases_upto snap x l (length l - 1)) as [H|[H|[(k & Hk & H)|(k & Hk & H)]]];
    [lia| | | |].
  - now left.
  - right; now left.
  - right; right; left. exists k. split; [lia|exact H].
  - right; right; right. exists k. split; [lia|exact H].
Qed.

Section Total.
Variable m : mesh1 AR R.
Notation nodes := (m1_nodes m).
Notation xs k := (nth k (m1_nodes m) 0).

(* every x falls under interp_outside_left, interp_outside_right, interp_near_node or
   MeshInterp.interp_in_cell: together they describe interp1 completely *)
Lemma interp_total snap x :
  0 < snap -> wf1 m -> spaced snap nodes -> (2 <= length nodes)%nat ->
  (x + snap <= xs 0%nat /\ @interp1 AR snap m x = Ok (repeat 0 (m1_nvars m))) \/
  (xs (length nodes - 1) + snap <= x /\ @interp1 AR snap m x = Ok (repeat 0 (m1_nvars m))) \/
  (exists k, (k < length nodes)%nat /\ Rabs (x - xs k) < snap /\
             @interp1 AR snap m x = Ok (cellv m (Nat.min k (length nodes - 2)) x)) \/
  (exists k, (k + 1 < length nodes)%nat /\ xs k + snap <= x /\ x <= xs (k + 1) - snap /\
             @interp1 AR snap m x = Ok (cellv m k x)).
Proof.
  intros Hs Hwf Hsp Hn.
  destruct (nodes_cases snap x nodes) as [H|[H|[(k & Hk & H)|(k & Hk & H1 & H2)]]]; [lia| | | |].
  - left. split; [exact H|]. apply interp_outside_left; auto. lia.
  - right; left. split; [exact H|]. apply interp_outside_right; auto. lia.
  - right; right; left. exists k. repeat split; auto. apply interp_near_node; auto.
  - right; right; right. exists k. repeat split; auto. apply interp_in_cell; auto.
Qed.

(* in particular: no panic anywhere on a spaced grid *)
Lemma interp1_spaced_ok snap x :
  0 < snap -> wf1 m -> spaced snap nodes -> (2 <= length nodes)%nat ->
  exists r, @interp1 AR snap m x = Ok r.
Proof.
  intros Hs Hwf Hsp Hn.
  destruct (interp_total snap x Hs Hwf Hsp Hn)
    as [[_ E]|[[_ E]|[(k & _ & _ & E)|(k & _ & _ & _ & E)]]]; eauto.
Qed.

End Total.

(* ------------------------------------------------------------------ N1, as an error bound *)
Lemma nth_lerp_row xl xr x (L Rr : list R) c :
  length L = length Rr -> (c < length L)%nat ->
  nth c (lerp_row xl xr x L Rr) 0 =
    nth c L 0 + (nth c Rr 0 - nth c L 0) / (xr - xl) * (x - xl).
Proof.
  revert Rr c; induction L as [|l L IH]; intros [|r Rr] c Hlen Hc; cbn in Hlen, Hc;
    try discriminate; try lia.
  destruct c as [|c]; [reflexivity|].
  unfold lerp_row in *. cbn [combine map nth]. apply IH; lia.
Qed.

Section NearBound.
Variable m : mesh1 AR R.
Notation nodes := (m1_nodes m).
Notation xs k := (nth k (m1_nodes m) 0).
Notation row k := (nth k (m1_vars m) []).

(* within the window of node k every component of the result is within |slope| * snap of the
   nodal value, slope = the slope of that component in the cell whose line is used *)
Lemma interp_near_node_bound snap k x c :
  0 < snap -> wf1 m -> spaced snap nodes -> (2 <= length nodes)%nat ->
  (k < length nodes)%nat -> Rabs (x - xs k) < snap -> (c < m1_nvars m)%nat ->
  let k' := Nat.min k (length nodes - 2) in
  let slope := (nth c (row (k' + 1)) 0 - nth c (row k') 0) / (xs (k' + 1) - xs k') in
  exists r, @interp1 AR snap m x = Ok r /\
            Rabs (nth c r 0 - nth c (row k) 0) <= Rabs slope * snap.
Proof.
  intros Hs Hwf Hsp Hn Hk Hx Hc k' slope.
  exists (cellv m k' x). split; [apply interp_near_node; auto|].
  assert (Hk' : (k' + 1 < length nodes)%nat) by (unfold k'; lia).
  assert (Hne := spaced_ne m snap (Rlt_le _ _ Hs) Hsp k' Hk').
  assert (Hval : nth c (cellv m k' x) 0 = nth c (row k') 0 + slope * (x - xs k')).
  { unfold cellv. rewrite nth_lerp_row; [reflexivity| |].
    - rewrite !row_length by (auto; lia). reflexivity.
    - rewrite row_length by (auto; lia). exact Hc. }
  assert (Hbound : Rabs (slope * (x - xs k)) <= Rabs slope * snap).
  { rewrite Rabs_mult. apply Rmult_le_compat_l; [apply Rabs_pos|lra]. }
  destruct (Nat.eq_dec k (length nodes - 1)) as [Hlast|Hnl].
  - (* last node: k = k' + 1 *)
    assert (Ek : k = (k' + 1)%nat) by (unfold k'; lia).
    apply Rle_trans with (2 := Hbound). apply Req_le. f_equal.
    arR. rewrite Hval, Ek. unfold slope. field. lra.
  - assert (Ek : k = k') by (unfold k'; lia).
    apply Rle_trans with (2 := Hbound). apply Req_le. f_equal.
    arR. rewrite Hval, Ek. ring.
Qed.

End NearBound.

(* ------------------------------------------------------------------ exactness on linear data *)
Section LinearExact.
Variable m : mesh1 AR R.
Notation nodes := (m1_nodes m).
Notation xs k := (nth k (m1_nodes m) 0).
Notation row k := (nth k (m1_vars m) []).

(* the line of a cell whose two nodal values lie on a*x+b is that line *)
Lemma cellv_linear k x c a b :
  wf1 m -> (k + 1 < length nodes)%nat -> xs (k + 1) <> xs k -> (c < m1_nvars m)%nat ->
  nth c (row k) 0 = a * xs k + b -> nth c (row (k + 1)) 0 = a * xs (k + 1) + b ->
  nth c (cellv m k x) 0 = a * x + b.
Proof.
  intros Hwf Hk Hne Hc Hl Hr. unfold cellv. rewrite nth_lerp_row.
  - arR. rewrite Hl, Hr. field. lra.
  - rewrite !row_length by (auto; lia). reflexivity.
  - rewrite row_length by (auto; lia). exact Hc.
Qed.

(* piecewise-linear interpolation reproduces linear data exactly at EVERY point of the grid range,
   the snapping windows included (there the neighbouring cell's line is the same line) *)
Lemma interp_linear_exact snap x c a b :
  0 < snap -> wf1 m -> spaced snap nodes -> (2 <= length nodes)%nat -> (c < m1_nvars m)%nat ->
  (forall k, (k < length nodes)%nat -> nth c (row k) 0 = a * xs k + b) ->
  xs 0%nat - snap < x -> x < xs (length nodes - 1) + snap ->
  exists r, @interp1 AR snap m x = Ok r /\ nth c r 0 = a * x + b.
Proof.
  intros Hs Hwf Hsp Hn Hc Hlin Hlo Hhi.
  assert (Hne := spaced_ne m snap (Rlt_le _ _ Hs) Hsp).
  destruct (interp_total m snap x Hs Hwf Hsp Hn)
    as [[H _]|[[H _]|[(k & Hk & _ & E)|(k & Hk & _ & _ & E)]]]; [lra|lra| |].
  - exists (cellv m (Nat.min k (length nodes - 2)) x). split; [exact E|].
    apply cellv_linear; auto; try lia.
    + apply Hne. lia.
    + apply Hlin. lia.
    + apply Hlin. lia.
  - exists (cellv m k x). split; [exact E|].
    apply cellv_linear; auto.
    apply Hlin. lia.
Qed.

End LinearExact.

Lemma interp_linear_exact_snapR (m : mesh1 AR R) x c a b :
  wf1 m -> spaced snapR (m1_nodes m) -> (2 <= length (m1_nodes m))%nat -> (c < m1_nvars m)%nat ->
  (forall k, (k < length (m1_nodes m))%nat ->
             nth c (nth k (m1_vars m) []) 0 = a * nth k (m1_nodes m) 0 + b) ->
  nth 0 (m1_nodes m) 0 - snapR < x -> x < nth (length (m1_nodes m) - 1) (m1_nodes m) 0 + snapR ->
  exists r, @interp1 AR snapR m x = Ok r /\ nth c r 0 = a * x + b.
Proof. intros. apply interp_linear_exact; auto. exact snapR_pos. Qed.

(* non-vacuity: the non-uniform mesh [0;1;3] carrying 2x+1, at x = 2 *)
Definition ex_lmesh : mesh1 AR R := mkM1 (A:=AR) 1 [0; 1; 3] [[1]; [3]; [7]].

Example interp_linear_exact_nonvacuous :
  0 < snapR /\ wf1 ex_lmesh /\ spaced snapR (m1_nodes ex_lmesh) /\
  (2 <= length (m1_nodes ex_lmesh))%nat /\ (0 < m1_nvars ex_lmesh)%nat /\
  (forall k, (k < length (m1_nodes ex_lmesh))%nat ->
             nth 0 (nth k (m1_vars ex_lmesh) []) 0 = 2 * nth k (m1_nodes ex_lmesh) 0 + 1) /\
  nth 0 (m1_nodes ex_lmesh) 0 - snapR < 2 /\
  2 < nth (length (m1_nodes ex_lmesh) - 1) (m1_nodes ex_lmesh) 0 + snapR /\
  @interp1 AR snapR ex_lmesh 2 = Ok [5].
Proof.
  assert (Hwf : wf1 ex_lmesh) by (split; [reflexivity | repeat constructor]).
  assert (Hsp : spaced snapR (m1_nodes ex_lmesh)).
  { intros [|[|k]] Hk; cbn in Hk; try lia; unfold snapR; cbn; lra. }
  assert (Hlin : forall k, (k < length (m1_nodes ex_lmesh))%nat ->
             nth 0 (nth k (m1_vars ex_lmesh) []) 0 = 2 * nth k (m1_nodes ex_lmesh) 0 + 1).
  { intros [|[|[|k]]] Hk; cbn in *; try lra; lia. }
  assert (Hlo : nth 0 (m1_nodes ex_lmesh) 0 - snapR < 2) by (unfold snapR; cbn; lra).
  assert (Hhi : 2 < nth (length (m1_nodes ex_lmesh) - 1) (m1_nodes ex_lmesh) 0 + snapR)
    by (unfold snapR; cbn; lra).
  repeat split; try apply Hwf; try (cbn; lia); try exact snapR_pos; try assumption.
  rewrite (interp_in_cell_snapR ex_lmesh 1 2); auto; try (cbn; lia);
    try (unfold snapR; cbn; lra).
  unfold lerp_row. cbn. f_equal. f_equal. lra.
Qed.
