(* Proofs/MeshIO3Fmt.v -- two concrete number formatters that ROUND, with their parsers, on exact
   rationals: instances of the hypotheses of Proofs/MeshIO3.v (parse (fmt x) = Ok (rnd x),
   fmt (rnd x) = fmt x) that are not the identity.
     fixed point   `{:.N}`   (what Mesh1D::output / Mesh2D::output / output_var use:
                              `write!(f, "{number:.prec$} ", ...)`, src/mesh1d.rs:154-156):
                   the value rounded to the nearest multiple of 10^-N, ties to the even last digit;
                   token = sign, and the digits as one integer (the point is N digits from the right)
     scientific    `{:.Ne}`: N+1 significant digits, ties to even; token = sign, the N+1 digits as
                   one integer, the decimal exponent
   Rust prints the shortest-exact decimal expansion of the f64 rounded half-to-even at the requested
   digit (core::fmt::float, format_exact), i.e. these functions applied to the rational value of the
   float.  Differences, stated: (1) a negative value that rounds to zero is printed "-0.00" by Rust
   (and read back as -0.0); rationals have no signed zero, the model's token is unsigned in that
   case (only case in which the tokens differ); (2) NaN and the infinities have no rational
   counterpart; (3) f64::from_str rounds the decimal to the nearest binary64 -- a second rounding
   which is not modelled here: the parsers below are exact.
   Everything is proved over Q (Qeq) and transported to Qc = the exact tier AQ. *)
From Coq Require Import ZArith QArith Qabs Qpower Qround Qcanon Lia Lqa Bool List.
From OV Require Import Base.Panic.
From OV Require Import Base.Arith.
From OV Require Import Inst.QcInst.
Import ListNotations.
Local Open Scope Z_scope.

(* ================================================================ division rounded to nearest, ties to even *)

Definition rne_div (a b : Z) : Z :=
  let f := a / b in
  match 2 * (a mod b) ?= b with
  | Lt => f
  | Gt => f + 1
  | Eq => if Z.even f then f else f + 1
  end.

Lemma rne_div_err a b : 0 < b -> - b <= 2 * (b * rne_div a b - a) <= b.
Proof.
  intros Hb. unfold rne_div. pose proof (Z.div_mod a b ltac:(lia)) as E.
  pose proof (Z.mod_pos_bound a b Hb) as Hr.
  set (f := a / b) in *. set (r := a mod b) in *.
  destruct (Z.compare_spec (2 * r) b) as [H|H|H]; [destruct (Z.even f)|..]; lia.
Qed.

Lemma rne_div_exact n b : 0 < b -> rne_div (n * b) b = n.
Proof.
  intros Hb. unfold rne_div. rewrite Z.div_mul, Z.mod_mul by lia.
  change (2 * 0) with 0. destruct (Z.compare_spec 0 b); lia.
Qed.

Lemma rne_div_scale a b c : 0 < b -> 0 < c -> rne_div (a * c) (b * c) = rne_div a b.
Proof.
  intros Hb Hc. unfold rne_div.
  rewrite Z.div_mul_cancel_r by lia. rewrite Z.mul_mod_distr_r by lia.
  replace (2 * (a mod b * c)) with (2 * (a mod b) * c) by ring.
  rewrite <- Zmult_compare_compat_r by lia. reflexivity.
Qed.

Lemma rne_div_lower a b n : 0 < b -> n * b <= a -> n <= rne_div a b.
Proof. intros Hb H. pose proof (rne_div_err a b Hb). nia. Qed.

Lemma rne_div_upper a b n : 0 < b -> a <= n * b -> rne_div a b <= n.
Proof. intros Hb H. pose proof (rne_div_err a b Hb). nia. Qed.

(* ties go to the even neighbour *)
Lemma rne_div_tie_even a b : 0 < b -> 2 * (a mod b) = b -> Z.even (rne_div a b) = true.
Proof.
  intros Hb H. unfold rne_div. rewrite H, Z.compare_refl.
  destruct (Z.even (a / b)) eqn:E; [exact E|].
  rewrite Z.even_add, E. reflexivity.
Qed.

(* the error is half a unit only at a tie, and then the result is even *)
Lemma rne_div_half_even a b :
  0 < b -> Z.abs (2 * (b * rne_div a b - a)) = b -> Z.even (rne_div a b) = true.
Proof.
  intros Hb. unfold rne_div. pose proof (Z.div_mod a b ltac:(lia)) as E.
  pose proof (Z.mod_pos_bound a b Hb) as Hr.
  set (f := a / b) in *. set (r := a mod b) in *.
  destruct (Z.compare_spec (2 * r) b) as [H|H|H].
  - intros _. destruct (Z.even f) eqn:Ef; [exact Ef|]. rewrite Z.even_add, Ef. reflexivity.
  - intros H'. lia.
  - intros H'. lia.
Qed.

Local Close Scope Z_scope.
Local Open Scope Q_scope.
Definition rneQ (q : Q) : Z := rne_div (Qnum q) (Zpos (Qden q)).

Lemma rneQ_proper q q' : q == q' -> rneQ q = rneQ q'.
Proof.
  unfold Qeq, rneQ. intros H.
  rewrite <- (rne_div_scale (Qnum q) _ (Zpos (Qden q'))) by lia.
  rewrite <- (rne_div_scale (Qnum q') _ (Zpos (Qden q))) by lia.
  rewrite H. f_equal. lia.
Qed.

Lemma rneQ_err q : q - (1#2) <= inject_Z (rneQ q) <= q + (1#2).
Proof.
  destruct q as [a b]. unfold rneQ. cbn [Qnum Qden].
  pose proof (rne_div_err a (Zpos b) ltac:(lia)) as H.
  unfold Qle, Qminus, Qplus, Qopp, inject_Z. cbn [Qnum Qden]. lia.
Qed.

Lemma rneQ_inject n : rneQ (inject_Z n) = n.
Proof. unfold rneQ, inject_Z. cbn [Qnum Qden]. rewrite <- (Z.mul_1_r n) at 1. now apply rne_div_exact. Qed.

Lemma rneQ_lower q n : inject_Z n <= q -> (n <= rneQ q)%Z.
Proof.
  unfold Qle, inject_Z, rneQ. cbn [Qnum Qden]. intros H. apply rne_div_lower; lia.
Qed.

Lemma rneQ_upper q n : q <= inject_Z n -> (rneQ q <= n)%Z.
Proof.
  unfold Qle, inject_Z, rneQ. cbn [Qnum Qden]. intros H. apply rne_div_upper; lia.
Qed.

Lemma rneQ_abs_err q : Qabs (inject_Z (rneQ q) - q) <= 1 # 2.
Proof. apply Qabs_Qle_condition. pose proof (rneQ_err q). lra. Qed.

Lemma rneQ_half_even q : Qabs (inject_Z (rneQ q) - q) == 1 # 2 -> Z.even (rneQ q) = true.
Proof.
  destruct q as [a b]. unfold rneQ. cbn [Qnum Qden]. intros H.
  apply rne_div_half_even; [lia|]. revert H.
  unfold Qeq, Qabs, Qminus, Qplus, Qopp, inject_Z. cbn [Qnum Qden]. lia.
Qed.

(* ---------------------------------------------------------------- signs *)
Definition Qneg (q : Q) : bool := (Qnum q <? 0)%Z.

Lemma Qneg_true q : Qneg q = true <-> q < 0.
Proof. unfold Qneg, Qlt. cbn [Qnum Qden]. rewrite Z.ltb_lt. lia. Qed.

Lemma Qneg_false q : Qneg q = false <-> 0 <= q.
Proof. unfold Qneg, Qle. cbn [Qnum Qden]. rewrite Z.ltb_ge. lia. Qed.

Lemma Qneg_proper q q' : q == q' -> Qneg q = Qneg q'.
Proof.
  intros H. destruct (Qneg q') eqn:E.
  - apply Qneg_true. apply Qneg_true in E. now rewrite H.
  - apply Qneg_false. apply Qneg_false in E. now rewrite H.
Qed.

(* the sign as a factor *)
Definition Qsg (q : Q) : Q := if Qneg q then -1 else 1.

Lemma Qsg_abs q : q == Qsg q * Qabs q.
Proof.
  unfold Qsg. destruct (Qneg q) eqn:E.
  - apply Qneg_true in E. rewrite Qabs_neg by lra. ring.
  - apply Qneg_false in E. rewrite Qabs_pos by lra. ring.
Qed.

Lemma Qabs_sg_mul q y : Qabs (Qsg q * y) == Qabs y.
Proof.
  unfold Qsg. destruct (Qneg q).
  - setoid_replace (-1 * y) with (- y) by ring. apply Qabs_opp.
  - now setoid_replace (1 * y) with y by ring.
Qed.

(* ================================================================ fixed point: {:.N} *)
Definition p10 (N : nat) : Z := (10 ^ Z.of_nat N)%Z.
Lemma p10_pos N : (0 < p10 N)%Z.
Proof. unfold p10. apply Z.pow_pos_nonneg; lia. Qed.
Lemma p10Q_pos N : 0 < inject_Z (p10 N).
Proof. change (inject_Z 0 < inject_Z (p10 N)). rewrite <- Zlt_Qlt. apply p10_pos. Qed.

(* a printed number: '-' or nothing, then the decimal digits of ft_int with the point N digits
   from the right *)
Record ftok := FTok { ft_neg : bool; ft_int : Z }.

Definition fixn (N : nat) (q : Q) : Z := rneQ (Qabs q * inject_Z (p10 N)).
Definition fmt_fixQ (N : nat) (q : Q) : ftok :=
  let n := fixn N q in FTok (Qneg q && negb (n =? 0)%Z) n.
Definition val_fix (N : nat) (t : ftok) : Q :=
  inject_Z (if ft_neg t then - ft_int t else ft_int t) / inject_Z (p10 N).

Lemma fixn_nonneg N q : (0 <= fixn N q)%Z.
Proof.
  apply rneQ_lower. change (inject_Z 0) with 0.
  apply Qmult_le_0_compat; [apply Qabs_nonneg | pose proof (p10Q_pos N); lra].
Qed.

Lemma fixn_proper N q q' : q == q' -> fixn N q = fixn N q'.
Proof. intros H. unfold fixn. apply rneQ_proper. now rewrite H. Qed.

Lemma fmt_fixQ_proper N q q' : q == q' -> fmt_fixQ N q = fmt_fixQ N q'.
Proof. intros H. unfold fmt_fixQ. now rewrite (fixn_proper N q q' H), (Qneg_proper q q' H). Qed.

Lemma val_fmt_fixQ N q :
  val_fix N (fmt_fixQ N q) == Qsg q * (inject_Z (fixn N q) / inject_Z (p10 N)).
Proof.
  unfold val_fix, fmt_fixQ, Qsg. cbn [ft_neg ft_int]. pose proof (p10Q_pos N) as Hp.
  destruct (Qneg q); cbn [andb].
  - destruct (Z.eqb_spec (fixn N q) 0) as [E|E]; cbn [negb].
    + rewrite E. change (inject_Z 0) with 0. field. lra.
    + rewrite inject_Z_opp. field. lra.
  - field. lra.
Qed.

(* the value printed is within half a unit of the last printed digit *)
Lemma fix_abs_err_eq N q :
  Qabs (val_fix N (fmt_fixQ N q) - q) ==
  Qabs (inject_Z (fixn N q) - Qabs q * inject_Z (p10 N)) / inject_Z (p10 N).
Proof.
  pose proof (p10Q_pos N) as Hp. rewrite val_fmt_fixQ. pose proof (Qsg_abs q) as Eq.
  set (p := inject_Z (p10 N)) in *. set (v := inject_Z (fixn N q)).
  set (s := Qsg q) in *. set (a := Qabs q) in *.
  setoid_replace (s * (v / p) - q) with (s * ((v - a * p) / p))
    by (rewrite Eq at 1; field; lra).
  unfold s, a.
  rewrite Qabs_sg_mul. unfold Qdiv. rewrite Qabs_Qmult.
  rewrite (Qabs_pos (/ p)) by (apply Qlt_le_weak, Qinv_lt_0_compat; exact Hp).
  reflexivity.
Qed.

Lemma fix_abs_err N q : Qabs (val_fix N (fmt_fixQ N q) - q) <= (1 # 2) / inject_Z (p10 N).
Proof.
  pose proof (p10Q_pos N) as Hp. rewrite fix_abs_err_eq. unfold Qdiv.
  apply Qmult_le_compat_r; [apply rneQ_abs_err | apply Qlt_le_weak, Qinv_lt_0_compat; exact Hp].
Qed.

(* the error is half a unit of the last digit only at a tie, and then the last digit is even *)
Lemma fix_tie_even N q :
  Qabs (val_fix N (fmt_fixQ N q) - q) == (1 # 2) / inject_Z (p10 N) -> Z.even (fixn N q) = true.
Proof.
  intros H. pose proof (p10Q_pos N) as Hp. rewrite fix_abs_err_eq in H.
  unfold fixn. apply rneQ_half_even. fold (fixn N q).
  set (t := Qabs (inject_Z (fixn N q) - Qabs q * inject_Z (p10 N))) in *.
  assert (E : t == t / inject_Z (p10 N) * inject_Z (p10 N)) by (field; lra).
  rewrite E, H. field. lra.
Qed.

(* printing the value of a printed number prints the same number *)
Lemma fmt_val_fixQ N q : fmt_fixQ N (val_fix N (fmt_fixQ N q)) = fmt_fixQ N q.
Proof.
  pose proof (p10Q_pos N) as Hp. pose proof (fixn_nonneg N q) as Hn.
  rewrite (fmt_fixQ_proper N _ _ (val_fmt_fixQ N q)).
  set (n := fixn N q) in *. set (p := inject_Z (p10 N)) in *.
  assert (Hn' : 0 <= inject_Z n) by (change (inject_Z 0 <= inject_Z n); now rewrite <- Zle_Qle).
  assert (Hfix : fixn N (Qsg q * (inject_Z n / p)) = n).
  { unfold fixn. fold p. rewrite <- (rneQ_inject n) at 2. apply rneQ_proper.
    rewrite Qabs_sg_mul. rewrite Qabs_pos.
    - field. lra.
    - apply Qle_shift_div_l; lra. }
  unfold fmt_fixQ at 1. rewrite Hfix. unfold fmt_fixQ. fold n. f_equal.
  destruct (Z.eqb_spec n 0) as [E|E]; cbn [negb]; [now rewrite !andb_false_r|].
  rewrite !andb_true_r. unfold Qsg. destruct (Qneg q) eqn:Eq.
  - apply Qneg_true. assert (0 < inject_Z n) by (change (inject_Z 0 < inject_Z n); rewrite <- Zlt_Qlt; lia).
    assert (0 < inject_Z n / p) by (apply Qlt_shift_div_l; lra). lra.
  - apply Qneg_false. assert (0 <= inject_Z n / p) by (apply Qle_shift_div_l; lra). lra.
Qed.

(* a well-formed printed number is printed again as itself *)
Lemma fmt_fixQ_canonical N s n :
  (0 <= n)%Z -> (s = true -> n <> 0%Z) -> fmt_fixQ N (val_fix N (FTok s n)) = FTok s n.
Proof.
  intros Hn Hs. pose proof (p10Q_pos N) as Hp. unfold val_fix. cbn [ft_neg ft_int].
  set (p := inject_Z (p10 N)) in *.
  assert (Hn' : 0 <= inject_Z n) by (change (inject_Z 0 <= inject_Z n); now rewrite <- Zle_Qle).
  assert (Hq : 0 <= inject_Z n / p) by (apply Qle_shift_div_l; lra).
  assert (Hfix : fixn N (inject_Z (if s then (- n)%Z else n) / p) = n).
  { unfold fixn. fold p. transitivity (rneQ (inject_Z n)); [|apply rneQ_inject]. apply rneQ_proper.
    destruct s.
    - rewrite inject_Z_opp. setoid_replace (- inject_Z n / p) with (- (inject_Z n / p)) by (field; lra).
      rewrite Qabs_opp, Qabs_pos by exact Hq. field. lra.
    - rewrite Qabs_pos by exact Hq. field. lra. }
  unfold fmt_fixQ. rewrite Hfix. f_equal.
  destruct s.
  - specialize (Hs eq_refl). destruct (Z.eqb_spec n 0) as [E|E]; [contradiction|]. cbn [negb].
    rewrite andb_true_r. apply Qneg_true. rewrite inject_Z_opp.
    assert (0 < inject_Z n) by (change (inject_Z 0 < inject_Z n); rewrite <- Zlt_Qlt; lia).
    assert (0 < inject_Z n / p) by (apply Qlt_shift_div_l; lra).
    setoid_replace (- inject_Z n / p) with (- (inject_Z n / p)) by (field; lra). lra.
  - replace (Qneg (inject_Z n / p)) with false; [reflexivity|]. symmetry. now apply Qneg_false.
Qed.

(* a value with at most N decimals survives *)
Lemma fix_survives N q z : q == inject_Z z / inject_Z (p10 N) -> val_fix N (fmt_fixQ N q) == q.
Proof.
  intros E. pose proof (p10Q_pos N) as Hp.
  rewrite (fmt_fixQ_proper N _ _ E).
  set (s := (z <? 0)%Z).
  assert (E' : inject_Z z / inject_Z (p10 N) == val_fix N (FTok s (Z.abs z))).
  { unfold val_fix, s. cbn [ft_neg ft_int]. destruct (Z.ltb_spec z 0).
    - now rewrite Z.abs_neq, Z.opp_involutive by lia.
    - now rewrite Z.abs_eq by lia. }
  rewrite (fmt_fixQ_proper N _ _ E'). rewrite fmt_fixQ_canonical.
  - now rewrite <- E', E.
  - lia.
  - unfold s. intros H. apply Z.ltb_lt in H. lia.
Qed.

(* ================================================================ powers of ten *)
Definition pw (z : Z) : Q := (10 # 1) ^ z.

Lemma pw_pos z : 0 < pw z.
Proof. apply Qpower_0_lt. reflexivity. Qed.
Lemma pw_add a b : pw (a + b) == pw a * pw b.
Proof. apply Qpower_plus. discriminate. Qed.
Lemma pw_0 : pw 0 == 1.
Proof. reflexivity. Qed.
Lemma pw_opp a : pw (- a) == / pw a.
Proof. apply Qpower_opp. Qed.
Lemma pw_sub a b : pw (a - b) == pw a / pw b.
Proof. unfold Z.sub. rewrite pw_add, pw_opp. reflexivity. Qed.
Lemma pw_Z n : (0 <= n)%Z -> pw n == inject_Z (10 ^ n).
Proof. intros H. unfold pw. now rewrite Zpower_Qpower. Qed.
Lemma pw_nat N : pw (Z.of_nat N) == inject_Z (p10 N).
Proof. apply pw_Z. lia. Qed.
Lemma pw_lt a b : (a < b)%Z -> pw a < pw b.
Proof. intros H. apply Qpower_lt_compat_l; [exact H | reflexivity]. Qed.
Lemma pw_le a b : (a <= b)%Z -> pw a <= pw b.
Proof. intros H. apply Qpower_le_compat_l; [exact H | discriminate]. Qed.
Lemma pw_lt_inv a b : pw a < pw b -> (a < b)%Z.
Proof. intros H. apply (Qpower_lt_compat_l_inv (10 # 1)); [exact H | reflexivity]. Qed.

(* the decade of a positive number is unique *)
Lemma decade_unique x e e' :
  pw e <= x < pw (e + 1) -> pw e' <= x < pw (e' + 1) -> e = e'.
Proof.
  intros [H1 H2] [H1' H2'].
  assert (e < e' + 1)%Z by (apply pw_lt_inv; lra).
  assert (e' < e + 1)%Z by (apply pw_lt_inv; lra). lia.
Qed.

(* ---------------------------------------------------------------- decimal digits of a positive integer *)
Fixpoint ilog10_aux (fuel : nat) (n : Z) : Z :=
  match fuel with
  | O => 0%Z
  | S f => if (n <? 10)%Z then 0%Z else (1 + ilog10_aux f (n / 10))%Z
  end.
Definition ilog10 (n : Z) : Z := ilog10_aux (S (Z.to_nat (Z.log2 n))) n.

Lemma ilog10_aux_spec fuel n :
  (0 < n < 2 ^ Z.of_nat fuel)%Z ->
  (0 <= ilog10_aux fuel n /\ 10 ^ ilog10_aux fuel n <= n < 10 ^ (ilog10_aux fuel n + 1))%Z.
Proof.
  revert n; induction fuel as [|f IH]; intros n Hn.
  - cbn in Hn. lia.
  - cbn [ilog10_aux]. destruct (Z.ltb_spec n 10) as [H|H].
    + cbn. lia.
    + assert (Hd : (0 < n / 10 < 2 ^ Z.of_nat f)%Z).
      { split; [apply Z.div_str_pos; lia|].
        apply Z.div_lt_upper_bound; [lia|].
        rewrite Nat2Z.inj_succ, Z.pow_succ_r in Hn by lia. lia. }
      destruct (IH _ Hd) as (H0 & Hlo & Hhi). set (e := ilog10_aux f (n / 10)) in *.
      pose proof (Z.div_mod n 10 ltac:(lia)) as E. pose proof (Z.mod_pos_bound n 10 ltac:(lia)) as Hr.
      replace (1 + e + 1)%Z with (Z.succ (Z.succ e)) by lia.
      replace (1 + e)%Z with (Z.succ e) by lia.
      rewrite Z.add_1_r in Hhi. rewrite !Z.pow_succ_r in * by lia. lia.
Qed.

Lemma ilog10_spec n : (0 < n)%Z -> (0 <= ilog10 n /\ 10 ^ ilog10 n <= n < 10 ^ (ilog10 n + 1))%Z.
Proof.
  intros Hn. apply ilog10_aux_spec. split; [exact Hn|].
  rewrite Nat2Z.inj_succ, Z2Nat.id by apply Z.log2_nonneg.
  apply Z.log2_spec. exact Hn.
Qed.

Lemma ilog10_pw n : (0 < n)%Z -> pw (ilog10 n) <= inject_Z n < pw (ilog10 n + 1).
Proof.
  intros Hn. destruct (ilog10_spec n Hn) as (H0 & Hlo & Hhi).
  rewrite !pw_Z by lia. rewrite <- Zle_Qle, <- Zlt_Qlt. lia.
Qed.

(* ---------------------------------------------------------------- the decade of a rational *)
Definition dexp (q : Q) : Z :=
  let e0 := (ilog10 (Z.abs (Qnum q)) - ilog10 (Zpos (Qden q)))%Z in
  if Qle_bool (pw e0) (Qabs q) then e0 else (e0 - 1)%Z.

Lemma Qabs_num_den q : Qabs q == inject_Z (Z.abs (Qnum q)) / inject_Z (Zpos (Qden q)).
Proof.
  destruct q as [a b]. unfold Qabs. cbn [Qnum Qden]. unfold Qeq, Qdiv, Qmult, Qinv, inject_Z.
  cbn [Qnum Qden]. lia.
Qed.

Lemma dexp_spec q : ~ q == 0 -> pw (dexp q) <= Qabs q < pw (dexp q + 1).
Proof.
  intros Hq. unfold dexp.
  set (a := Z.abs (Qnum q)). set (b := Zpos (Qden q)).
  assert (Ha : (0 < a)%Z).
  { unfold a. assert (Qnum q <> 0%Z); [|lia]. intros E. apply Hq. unfold Qeq. cbn. lia. }
  assert (Hb : (0 < b)%Z) by (unfold b; lia).
  pose proof (ilog10_pw a Ha) as [Ha1 Ha2]. pose proof (ilog10_pw b Hb) as [Hb1 Hb2].
  set (la := ilog10 a) in *. set (lb := ilog10 b) in *.
  assert (Eabs : Qabs q == inject_Z a / inject_Z b) by apply Qabs_num_den.
  assert (Hb' : 0 < inject_Z b) by (change (inject_Z 0 < inject_Z b); now rewrite <- Zlt_Qlt).
  pose proof (pw_pos lb) as Plb. pose proof (pw_pos (lb + 1)) as Plb1.
  (* pw (la - lb - 1) < |q| < pw (la - lb + 1) *)
  assert (Hlo : pw (la - lb - 1) < Qabs q).
  { rewrite Eabs. apply Qlt_shift_div_l; [exact Hb'|].
    replace (la - lb - 1)%Z with (la - (lb + 1))%Z by lia. rewrite pw_sub.
    apply Qlt_le_trans with (pw la); [|exact Ha1].
    setoid_replace (pw la / pw (lb + 1) * inject_Z b) with (pw la * (inject_Z b / pw (lb + 1)))
      by (field; lra).
    setoid_replace (pw la) with (pw la * 1) at 2 by ring.
    apply Qmult_lt_l; [apply pw_pos|]. apply Qlt_shift_div_r; lra. }
  assert (Hhi : Qabs q < pw (la - lb + 1)).
  { rewrite Eabs. apply Qlt_shift_div_r; [exact Hb'|].
    replace (la - lb + 1)%Z with (la + 1 - lb)%Z by lia. rewrite pw_sub.
    apply Qlt_le_trans with (pw (la + 1)); [exact Ha2|].
    setoid_replace (pw (la + 1) / pw lb * inject_Z b) with (pw (la + 1) * (inject_Z b / pw lb))
      by (field; lra).
    setoid_replace (pw (la + 1)) with (pw (la + 1) * 1) at 1 by ring.
    apply Qmult_le_l; [apply pw_pos|]. apply Qle_shift_div_l; lra. }
  destruct (Qle_bool (pw (la - lb)) (Qabs q)) eqn:E.
  - apply Qle_bool_iff in E. split; assumption.
  - replace (la - lb - 1 + 1)%Z with (la - lb)%Z by lia. split; [lra|].
    apply Qnot_le_lt. intros H. apply Qle_bool_iff in H. congruence.
Qed.

Lemma dexp_unique q e : pw e <= Qabs q < pw (e + 1) -> dexp q = e.
Proof.
  intros H. apply (decade_unique (Qabs q)); [|exact H]. apply dexp_spec.
  intros E. rewrite E in H. change (Qabs 0) with 0 in H. pose proof (pw_pos e). lra.
Qed.

Lemma dexp_proper q q' : ~ q == 0 -> q == q' -> dexp q = dexp q'.
Proof.
  intros Hq E. symmetry. apply dexp_unique. rewrite <- E. now apply dexp_spec.
Qed.

(* ================================================================ scientific: {:.Ne} *)
(* a printed number d.ddd..e<exp>: sign, the N+1 digits d ddd.. as one integer, the exponent *)
Record stok := STok { st_neg : bool; st_mant : Z; st_exp : Z }.

Definition sci_mant (N : nat) (q : Q) : Z := rneQ (Qabs q * pw (Z.of_nat N - dexp q)).

Definition fmt_sciQ (N : nat) (q : Q) : stok :=
  if Qeq_bool q 0 then STok false 0 0 else
  let e := dexp q in
  let m := sci_mant N q in
  if (m =? p10 (S N))%Z then STok (Qneg q) (p10 N) (e + 1) else STok (Qneg q) m e.

Definition val_sci (N : nat) (t : stok) : Q :=
  inject_Z (if st_neg t then - st_mant t else st_mant t) * pw (st_exp t - Z.of_nat N).

(* N+1 significant digits, the first one not 0 *)
Definition stok_canonical (N : nat) (t : stok) : Prop :=
  (p10 N <= st_mant t < p10 (S N))%Z \/ t = STok false 0 0.

Lemma p10_S N : p10 (S N) = (10 * p10 N)%Z.
Proof. unfold p10. rewrite Nat2Z.inj_succ, Z.pow_succ_r by lia. reflexivity. Qed.

Lemma sci_scaled_range N q : ~ q == 0 ->
  inject_Z (p10 N) <= Qabs q * pw (Z.of_nat N - dexp q) < inject_Z (p10 (S N)).
Proof.
  intros Hq. destruct (dexp_spec q Hq) as [Hlo Hhi]. set (e := dexp q) in *.
  pose proof (pw_pos (Z.of_nat N - e)) as Hp.
  rewrite <- !pw_nat. split.
  - replace (Z.of_nat N) with (e + (Z.of_nat N - e))%Z at 1 by lia. rewrite pw_add.
    apply Qmult_le_compat_r; lra.
  - replace (Z.of_nat (S N)) with (e + 1 + (Z.of_nat N - e))%Z by lia. rewrite pw_add.
    apply Qmult_lt_r; lra.
Qed.

Lemma sci_mant_range N q : ~ q == 0 -> (p10 N <= sci_mant N q <= p10 (S N))%Z.
Proof.
  intros Hq. destruct (sci_scaled_range N q Hq) as [Hlo Hhi]. unfold sci_mant. split.
  - now apply rneQ_lower.
  - apply rneQ_upper. lra.
Qed.

Lemma Qeq_bool_false q : Qeq_bool q 0 = false -> ~ q == 0.
Proof. intros E H. apply Qeq_bool_iff in H. congruence. Qed.

(* what is printed is canonical *)
Lemma fmt_sciQ_canonical N q : stok_canonical N (fmt_sciQ N q).
Proof.
  unfold fmt_sciQ. destruct (Qeq_bool q 0) eqn:E0; [now right|]. left.
  pose proof (sci_mant_range N q (Qeq_bool_false q E0)) as H. pose proof (p10_pos N) as Hp.
  destruct (Z.eqb_spec (sci_mant N q) (p10 (S N))) as [E|E]; cbn [st_mant].
  - rewrite p10_S. lia.
  - lia.
Qed.

(* its value: sign * mantissa * 10^(e - N), before or after the carry into a new digit *)
Lemma val_fmt_sciQ N q : ~ q == 0 ->
  val_sci N (fmt_sciQ N q) == Qsg q * (inject_Z (sci_mant N q) * pw (dexp q - Z.of_nat N)).
Proof.
  intros Hq. unfold fmt_sciQ.
  destruct (Qeq_bool q 0) eqn:E0; [apply Qeq_bool_iff in E0; contradiction|].
  assert (Hsg : forall m, inject_Z (if Qneg q then (- m)%Z else m) == Qsg q * inject_Z m).
  { intros m. unfold Qsg. destruct (Qneg q); [rewrite inject_Z_opp|]; ring. }
  destruct (Z.eqb_spec (sci_mant N q) (p10 (S N))) as [E|E]; unfold val_sci;
    cbn [st_neg st_mant st_exp]; rewrite Hsg; [|ring].
  rewrite E, p10_S, inject_Z_mult.
  replace (dexp q + 1 - Z.of_nat N)%Z with (1 + (dexp q - Z.of_nat N))%Z by lia.
  rewrite pw_add. change (pw 1) with (inject_Z 10). ring.
Qed.

(* absolute error: half a unit of the last printed digit, 10^(e - N) with 10^e <= |q| < 10^(e+1) *)
Lemma sci_abs_err N q : ~ q == 0 ->
  Qabs (val_sci N (fmt_sciQ N q) - q) <= (1 # 2) * pw (dexp q - Z.of_nat N).
Proof.
  intros Hq. rewrite (val_fmt_sciQ N q Hq). pose proof (Qsg_abs q) as Eq.
  set (e := dexp q) in *. set (m := inject_Z (sci_mant N q)).
  set (s := Qsg q) in *. set (a := Qabs q) in *.
  pose proof (pw_pos (e - Z.of_nat N)) as Hp. pose proof (pw_pos (Z.of_nat N - e)) as Hp'.
  assert (Einv : pw (Z.of_nat N - e) * pw (e - Z.of_nat N) == 1).
  { rewrite <- pw_add. replace (Z.of_nat N - e + (e - Z.of_nat N))%Z with 0%Z by lia. reflexivity. }
  setoid_replace (s * (m * pw (e - Z.of_nat N)) - q)
    with (s * ((m - a * pw (Z.of_nat N - e)) * pw (e - Z.of_nat N))).
  2:{ setoid_replace (s * ((m - a * pw (Z.of_nat N - e)) * pw (e - Z.of_nat N)))
        with (s * (m * pw (e - Z.of_nat N)) - (s * a) * (pw (Z.of_nat N - e) * pw (e - Z.of_nat N)))
        by ring.
      rewrite Einv, <- Eq. ring. }
  unfold s. rewrite Qabs_sg_mul, Qabs_Qmult, (Qabs_pos (pw _)) by lra.
  apply Qmult_le_compat_r; [apply rneQ_abs_err | lra].
Qed.

(* relative error: the number is at least 1.00..0e<exp> *)
Lemma sci_rel_err N q :
  Qabs (val_sci N (fmt_sciQ N q) - q) <= Qabs q * ((1 # 2) / inject_Z (p10 N)).
Proof.
  destruct (Qeq_bool q 0) eqn:E0.
  - unfold fmt_sciQ. rewrite E0. apply Qeq_bool_iff in E0. rewrite E0. cbn. discriminate.
  - pose proof (Qeq_bool_false q E0) as Hq.
    eapply Qle_trans; [apply (sci_abs_err N q Hq)|].
    destruct (dexp_spec q Hq) as [Hlo _].
    rewrite pw_sub, pw_nat. pose proof (p10Q_pos N) as HP.
    setoid_replace ((1 # 2) * (pw (dexp q) / inject_Z (p10 N)))
      with (pw (dexp q) * ((1 # 2) / inject_Z (p10 N))) by (field; lra).
    apply Qmult_le_compat_r; [exact Hlo|]. apply Qle_shift_div_l; lra.
Qed.

(* a canonical printed number is printed again as itself *)
Lemma fmt_sciQ_of_canonical N s m e :
  (p10 N <= m < p10 (S N))%Z -> fmt_sciQ N (val_sci N (STok s m e)) = STok s m e.
Proof.
  intros [Hlo Hhi]. pose proof (p10_pos N) as HP. unfold val_sci. cbn [st_neg st_mant st_exp].
  set (v := inject_Z (if s then (- m)%Z else m) * pw (e - Z.of_nat N)).
  pose proof (pw_pos (e - Z.of_nat N)) as Hp.
  assert (Hm : 0 < inject_Z m) by (change (inject_Z 0 < inject_Z m); rewrite <- Zlt_Qlt; lia).
  assert (Habs : Qabs v == inject_Z m * pw (e - Z.of_nat N)).
  { unfold v. rewrite Qabs_Qmult, (Qabs_pos (pw _)) by lra. destruct s.
    - rewrite inject_Z_opp, Qabs_opp, Qabs_pos by lra. reflexivity.
    - rewrite Qabs_pos by lra. reflexivity. }
  assert (Hv0 : ~ v == 0).
  { intros E. rewrite E in Habs. change (Qabs 0) with 0 in Habs.
    assert (0 < inject_Z m * pw (e - Z.of_nat N)) by (apply Qmult_lt_0_compat; lra). lra. }
  assert (He : dexp v = e).
  { apply dexp_unique. rewrite Habs. split.
    - replace e with (Z.of_nat N + (e - Z.of_nat N))%Z at 1 by lia. rewrite pw_add, pw_nat.
      apply Qmult_le_compat_r; [rewrite <- Zle_Qle; lia | lra].
    - replace (e + 1)%Z with (Z.of_nat (S N) + (e - Z.of_nat N))%Z by lia. rewrite pw_add, pw_nat.
      apply Qmult_lt_r; [lra | rewrite <- Zlt_Qlt; lia]. }
  assert (Hmant : sci_mant N v = m).
  { unfold sci_mant. rewrite He. transitivity (rneQ (inject_Z m)); [|apply rneQ_inject].
    apply rneQ_proper. rewrite Habs, <- Qmult_assoc, <- pw_add.
    replace (e - Z.of_nat N + (Z.of_nat N - e))%Z with 0%Z by lia. rewrite pw_0. ring. }
  unfold fmt_sciQ. destruct (Qeq_bool v 0) eqn:E0; [apply Qeq_bool_iff in E0; contradiction|].
  rewrite Hmant, He. destruct (Z.eqb_spec m (p10 (S N))) as [E|_]; [lia|]. f_equal.
  unfold v. destruct s.
  - apply Qneg_true. rewrite inject_Z_opp.
    assert (0 < inject_Z m * pw (e - Z.of_nat N)) by (apply Qmult_lt_0_compat; lra).
    setoid_replace (- inject_Z m * pw (e - Z.of_nat N)) with (- (inject_Z m * pw (e - Z.of_nat N))) by ring.
    lra.
  - apply Qneg_false. apply Qlt_le_weak, Qmult_lt_0_compat; lra.
Qed.

Lemma fmt_sciQ_proper N q q' : q == q' -> fmt_sciQ N q = fmt_sciQ N q'.
Proof.
  intros E. unfold fmt_sciQ.
  assert (E0 : Qeq_bool q 0 = Qeq_bool q' 0).
  { destruct (Qeq_bool q' 0) eqn:H.
    - apply Qeq_bool_iff. apply Qeq_bool_iff in H. now rewrite E.
    - destruct (Qeq_bool q 0) eqn:H'; [|reflexivity].
      apply Qeq_bool_iff in H'. rewrite E in H'. apply Qeq_bool_iff in H'. congruence. }
  rewrite <- E0. destruct (Qeq_bool q 0) eqn:H; [reflexivity|].
  pose proof (Qeq_bool_false q H) as Hq.
  assert (Em : sci_mant N q = sci_mant N q').
  { unfold sci_mant. rewrite <- (dexp_proper q q' Hq E). apply rneQ_proper.
    apply Qmult_comp; [now apply Qabs_wd | reflexivity]. }
  now rewrite <- Em, <- (dexp_proper q q' Hq E), <- (Qneg_proper q q' E).
Qed.

(* printing the value of what was printed prints the same *)
Lemma fmt_val_sciQ N q : fmt_sciQ N (val_sci N (fmt_sciQ N q)) = fmt_sciQ N q.
Proof.
  destruct (fmt_sciQ_canonical N q) as [H|H].
  - destruct (fmt_sciQ N q) as [s m e]. now apply fmt_sciQ_of_canonical.
  - rewrite H. reflexivity.
Qed.

(* ================================================================ the exact tier: Qc *)
Lemma Q2Qc_this (q : Q) : (Q2Qc q : Q) == q.
Proof. apply Qred_correct. Qed.

(* ---------------------------------------------------------------- fixed point *)
Definition fmt_fix (N : nat) (x : Qc) : ftok := fmt_fixQ N x.
(* a malformed token (no digits: modelled as a negative digit string) does not parse:
   f64::from_str(..).unwrap() *)
Definition parse_fix (N : nat) (t : ftok) : res Qc :=
  if (ft_int t <? 0)%Z then Panic Unwrap else Ok (Q2Qc (val_fix N t)).
Definition rnd_fix (N : nat) (x : Qc) : Qc := Q2Qc (val_fix N (fmt_fix N x)).

Lemma parse_fmt_fix N x : parse_fix N (fmt_fix N x) = Ok (rnd_fix N x).
Proof.
  unfold parse_fix, fmt_fix, fmt_fixQ at 1. cbn [ft_int].
  destruct (Z.ltb_spec (fixn N x) 0) as [H|_]; [|reflexivity].
  pose proof (fixn_nonneg N x). lia.
Qed.

Lemma fmt_rnd_fix N x : fmt_fix N (rnd_fix N x) = fmt_fix N x.
Proof.
  unfold rnd_fix, fmt_fix. rewrite (fmt_fixQ_proper N _ _ (Q2Qc_this _)). apply fmt_val_fixQ.
Qed.

Lemma rnd_fix_err N (x : Qc) : Qabs (rnd_fix N x - x) <= (1 # 2) / inject_Z (p10 N).
Proof. unfold rnd_fix. rewrite Q2Qc_this. apply fix_abs_err. Qed.

(* exactly the values with at most N decimals survive *)
Lemma rnd_fix_fixpoint N (x : Qc) :
  rnd_fix N x = x <-> exists z, x == inject_Z z / inject_Z (p10 N).
Proof.
  split.
  - intros E. eexists. transitivity (rnd_fix N x : Q); [now rewrite E|].
    unfold rnd_fix. rewrite Q2Qc_this. unfold val_fix. reflexivity.
  - intros (z & E). apply Qc_is_canon. unfold rnd_fix. rewrite Q2Qc_this. exact (fix_survives N x z E).
Qed.

(* ---------------------------------------------------------------- scientific *)
Definition fmt_sci (N : nat) (x : Qc) : stok := fmt_sciQ N x.
Definition parse_sci (N : nat) (t : stok) : res Qc :=
  if (st_mant t <? 0)%Z then Panic Unwrap else Ok (Q2Qc (val_sci N t)).
Definition rnd_sci (N : nat) (x : Qc) : Qc := Q2Qc (val_sci N (fmt_sci N x)).

Lemma parse_fmt_sci N x : parse_sci N (fmt_sci N x) = Ok (rnd_sci N x).
Proof.
  unfold parse_sci, rnd_sci.
  destruct (fmt_sciQ_canonical N x) as [H|H]; fold (fmt_sci N x) in H.
  - pose proof (p10_pos N). destruct (Z.ltb_spec (st_mant (fmt_sci N x)) 0); [lia | reflexivity].
  - rewrite H. reflexivity.
Qed.

Lemma fmt_rnd_sci N x : fmt_sci N (rnd_sci N x) = fmt_sci N x.
Proof.
  unfold rnd_sci, fmt_sci. rewrite (fmt_sciQ_proper N _ _ (Q2Qc_this _)). apply fmt_val_sciQ.
Qed.

Lemma rnd_sci_err N (x : Qc) : Qabs (rnd_sci N x - x) <= Qabs x * ((1 # 2) / inject_Z (p10 N)).
Proof. unfold rnd_sci. rewrite Q2Qc_this. apply sci_rel_err. Qed.

(* the decade of x and the sharper bound: half a unit of the last of the N+1 digits *)
Lemma rnd_sci_ulp N (x : Qc) : ~ x == 0 ->
  (10 # 1) ^ dexp x <= Qabs x < (10 # 1) ^ (dexp x + 1) /\
  Qabs (rnd_sci N x - x) <= (1 # 2) * (10 # 1) ^ (dexp x - Z.of_nat N) /\
  (st_exp (fmt_sci N x) = dexp x \/
   st_exp (fmt_sci N x) = (dexp x + 1)%Z /\ st_mant (fmt_sci N x) = p10 N).
Proof.
  intros Hx. split; [exact (dexp_spec x Hx)|]. split.
  - unfold rnd_sci. rewrite Q2Qc_this. exact (sci_abs_err N x Hx).
  - unfold fmt_sci, fmt_sciQ. destruct (Qeq_bool x 0) eqn:E0; [apply Qeq_bool_iff in E0; contradiction|].
    destruct (sci_mant N x =? p10 (S N))%Z; cbn [st_exp st_mant]; [right; split; reflexivity | left; reflexivity].
Qed.

(* the parsers have a single panic: f64::from_str(..).unwrap() *)
Lemma parse_fix_panic N t k : parse_fix N t = Panic k -> k = Unwrap /\ (ft_int t < 0)%Z.
Proof.
  unfold parse_fix. destruct (Z.ltb_spec (ft_int t) 0); [|discriminate]. now intros [= <-].
Qed.
Lemma parse_sci_panic N t k : parse_sci N t = Panic k -> k = Unwrap /\ (st_mant t < 0)%Z.
Proof.
  unfold parse_sci. destruct (Z.ltb_spec (st_mant t) 0); [|discriminate]. now intros [= <-].
Qed.
