(* Proofs/PinTest_cnorm.v -- compiled copy of coq/Props/pending/C15_cnorm.v.txt (package cnorm): everything after the line
   PINNED-BLOCK-START is exactly the pending block; the header reproduces the imports of Props/C15.v in their order (so that
   names resolve as they will at the end of that file, e.g. Rsum = Base.RoundModel.Rsum there) and its audit_separator. *)
From Coq Require Import List Arith Reals Permutation Sorted QArith Qcanon ZArith.
From OV Require Import Base.Panic Base.Arith Model.Complex Model.Vector Model.VecOps
                       Proofs.Vector Proofs.VectorR Proofs.VectorQc Proofs.VectorCx Proofs.VectorRp Proofs.ParDotFloat Proofs.VectorFloat Proofs.VectorFloat2
                       Inst.QcInst Inst.FloatInst.
Import ListNotations.
Local Open Scope nat_scope.
Lemma audit_separator : True.
Proof. exact I. Qed.
From OV Require Proofs.SrcEqVector.
From OV Require Proofs.SrcEqVec64.
From OV Require Proofs.SrcEqVectorOps.
From OV Require Proofs.SrcEqWrapVector.
From OV Require Proofs.SrcEqVecCmplx.
From Coq Require Import Reals Floats Lra Lia.
From OV Require Import Base.RoundModel Proofs.RoundDot Proofs.RoundFlx Proofs.ComplexRound Proofs.RoundDotFloat Inst.FloatInst.
From OV Require Import Proofs.RoundNorm.
From OV Require Import Proofs.RoundNorm2.
From OV Require Import Proofs.RoundSum.
(* PINNED-BLOCK-START *)
(* ======================================================================================================
   C15 (vectors), norm laws for COMPLEX and RATIONAL vectors -- package cnorm (review item A5).  Append to Props/C15.v.
   The property quantifies its norm laws over rationals, f64 and Complex<f64>; the blocks above prove them for real
   vectors.  Here, about the same model functions at the complex arithmetic over the reals
   (ComplexR.ACR = CArith ComplexR.SAR: Model/Complex.v's operators, Signed::abs z = (|z|, 0), |z| = sqrt (re^2 + im^2);
   ComplexR.SAR is the same record as the SAR of the blocks above: instances_agree) and at Qc (Inst/QcInst.v, AQ):
     cnorm_inf        Vector<Complex<f64>>::norm_inf (vec_cmplx.rs:34), the fold of Model/Vector.v that is run against the
                      implementation (kinds vec.cx, vec.cnormlaws): equal to the function regenerated from the source on this
                      run (cnorm_inf_is_source); its only panic is Index, exactly on the empty vector; over R it is THE maximum
                      of the moduli, non-negative, definite, absolutely homogeneous, and satisfies the triangle inequality;
     norm_1 at ACR    the generic norm_1 through Signed::abs: the complex number (sum of the moduli, 0); non-negative, definite,
                      homogeneous, triangle inequality;  norm_inf <= re norm_1 <= n * norm_inf;
     norm_1 at AQ     sum of the rational absolute values; the same laws;  max |x_i| <= norm_1 <= n * max |x_i|
                      (Vector<Rat> has no norm_inf in the code: the maximum is stated as an attained upper bound);
     dot at ACR       Vector::dot does NOT conjugate (functions.rs:38-46): it is the bilinear sum, not an inner product
                      (cdot_is_bilinear_not_hermitian: dot [i] [i] = -1).  The true Cauchy-Schwarz inequality for it:
                      |sum u_i v_i| <= sqrt (sum |u_i|^2) * sqrt (sum |v_i|^2).
     at Complex<f64>  (IEEE binary64 through Flocq) "exact on exactly-representable data": on Gaussian integers of integer modulus
                      (a^2 + b^2 = m^2 < 2^53, e.g. 3+4i) nothing rounds: norm_inf returns exactly max m_i, norm_1 exactly (sum m_i, +0).
     "to rounding accuracy" (standard model of floating-point arithmetic with a rounded square root, as for norm_2 above):
                      fl(|z|) = |z|(1 + th), |th| <= gam 3;  fl(norm_inf v) = max|z_i| (1 + th), |th| <= gam 3;
                      re fl(norm_1 v) = Sum |z_k| (1 + th_k), |th_k| <= gam (n+3), im fl(norm_1 v) = 0 -- for every length.
   Not proved: the standard model itself for Complex<f64> when re^2 + im^2 overflows or underflows (there the laws FAIL on the
   real code: norm_inf [1e200 + 0i] = inf, norm_inf [1e-200 + 1e-200i] = 0 -- the complex twin of the recorded finding
   f64-square-range; not in the default search); the search (kind vec.cnormlaws, 1e-12 slack) draws entries of moderate magnitude.
   ====================================================================================================== *)
From OV Require Proofs.ComplexR Proofs.VectorCx2 Proofs.VectorCx2Q Proofs.VectorCx2F Proofs.VectorCx2R gen.SrcVecCmplx.

Theorem instances_agree : VectorR.AR = ComplexR.AR /\ VectorR.SAR = ComplexR.SAR.
Proof. exact VectorCx2.instances_agree_lemma. Qed.
Check instances_agree : VectorR.AR = ComplexR.AR /\ VectorR.SAR = ComplexR.SAR.
Print Assumptions instances_agree.
Print Assumptions audit_separator.

(* ---------------------------------------------------------------- complex norm_inf: tie to the source, panic condition *)
Theorem cnorm_inf_is_source : forall (F : SArith) (v : list (cplx F)),
  SrcVecCmplx.s_cnorm_inf (F := F) v = cnorm_inf v.
Proof. intros F v. exact (VectorCx2.cnorm_inf_is_source_lemma v). Qed.
Check cnorm_inf_is_source : forall (F : SArith) (v : list (cplx F)),
  SrcVecCmplx.s_cnorm_inf (F := F) v = cnorm_inf v.
Print Assumptions cnorm_inf_is_source.

Theorem cnorm_inf_panics_iff_empty : forall (F : SArith) (v : list (cplx F)),
  (cnorm_inf v = Panic Index <-> v = []) /\
  (forall k, cnorm_inf v = Panic k -> k = Index /\ v = []) /\
  (v <> [] -> exists m, cnorm_inf v = Ok m).
Proof. intros F v. exact (VectorCx2.cnorm_inf_panic_lemma v). Qed.
Check cnorm_inf_panics_iff_empty : forall (F : SArith) (v : list (cplx F)),
  (cnorm_inf v = Panic Index <-> v = []) /\
  (forall k, cnorm_inf v = Panic k -> k = Index /\ v = []) /\
  (v <> [] -> exists m, cnorm_inf v = Ok m).
Print Assumptions cnorm_inf_panics_iff_empty.

(* ---------------------------------------------------------------- complex norm_inf over C = R x R *)
Theorem cnorm_inf_is_max : forall (v : list (cplx ComplexR.AR)) (m : R),
  cnorm_inf (F := ComplexR.SAR) v = Ok m <->
  (exists z, In z v /\ @Model.Complex.cabs ComplexR.SAR z = m) /\
  (forall z, In z v -> (@Model.Complex.cabs ComplexR.SAR z <= m)%R).
Proof. intros v m. exact (VectorCx2.cnorm_inf_max_lemma v m). Qed.
Check cnorm_inf_is_max : forall (v : list (cplx ComplexR.AR)) (m : R),
  cnorm_inf (F := ComplexR.SAR) v = Ok m <->
  (exists z, In z v /\ @Model.Complex.cabs ComplexR.SAR z = m) /\
  (forall z, In z v -> (@Model.Complex.cabs ComplexR.SAR z <= m)%R).
Print Assumptions cnorm_inf_is_max.
Print Assumptions audit_separator.

Theorem cnorm_inf_nonneg_definite : forall (v : list (cplx ComplexR.AR)) (m : R),
  cnorm_inf (F := ComplexR.SAR) v = Ok m ->
  (0 <= m)%R /\ (m = 0%R <-> forall z, In z v -> z = czero).
Proof.
  intros v m E. exact (Logic.conj (VectorCx2.cnorm_inf_nonneg_lemma v m E) (VectorCx2.cnorm_inf_definite_lemma v m E)).
Qed.
Check cnorm_inf_nonneg_definite : forall (v : list (cplx ComplexR.AR)) (m : R),
  cnorm_inf (F := ComplexR.SAR) v = Ok m ->
  (0 <= m)%R /\ (m = 0%R <-> forall z, In z v -> z = czero).
Print Assumptions cnorm_inf_nonneg_definite.
Print Assumptions audit_separator.

Theorem cnorm_inf_homogeneous : forall (v : list (cplx ComplexR.AR)) (c : cplx ComplexR.AR) (m : R),
  cnorm_inf (F := ComplexR.SAR) v = Ok m ->
  cnorm_inf (F := ComplexR.SAR) (vscale (A := ComplexR.ACR) v c) = Ok (@Model.Complex.cabs ComplexR.SAR c * m)%R.
Proof. intros v c m E. exact (VectorCx2.cnorm_inf_homog_lemma v c m E). Qed.
Check cnorm_inf_homogeneous : forall (v : list (cplx ComplexR.AR)) (c : cplx ComplexR.AR) (m : R),
  cnorm_inf (F := ComplexR.SAR) v = Ok m ->
  cnorm_inf (F := ComplexR.SAR) (vscale (A := ComplexR.ACR) v c) = Ok (@Model.Complex.cabs ComplexR.SAR c * m)%R.
Print Assumptions cnorm_inf_homogeneous.
Print Assumptions audit_separator.

Theorem cnorm_inf_triangle : forall (u v s : list (cplx ComplexR.AR)) (a b : R),
  vadd (A := ComplexR.ACR) u v = Ok s ->
  cnorm_inf (F := ComplexR.SAR) u = Ok a -> cnorm_inf (F := ComplexR.SAR) v = Ok b ->
  exists m, cnorm_inf (F := ComplexR.SAR) s = Ok m /\ (m <= a + b)%R.
Proof. intros u v s a b E Ea Eb. exact (VectorCx2.cnorm_inf_triangle_lemma u v s a b E Ea Eb). Qed.
Check cnorm_inf_triangle : forall (u v s : list (cplx ComplexR.AR)) (a b : R),
  vadd (A := ComplexR.ACR) u v = Ok s ->
  cnorm_inf (F := ComplexR.SAR) u = Ok a -> cnorm_inf (F := ComplexR.SAR) v = Ok b ->
  exists m, cnorm_inf (F := ComplexR.SAR) s = Ok m /\ (m <= a + b)%R.
Print Assumptions cnorm_inf_triangle.
Print Assumptions audit_separator.

(* ---------------------------------------------------------------- generic norm_1 at the complex instance *)
Theorem cnorm1_value : forall (v : list (cplx ComplexR.AR)),
  norm_1 (A := ComplexR.ACR) v
  = mkC (A := ComplexR.AR) (VectorR.Rsum (map (@Model.Complex.cabs ComplexR.SAR) v)) 0%R.
Proof. intros v. exact (VectorCx2.cnorm1_value_lemma v). Qed.
Check cnorm1_value : forall (v : list (cplx ComplexR.AR)),
  norm_1 (A := ComplexR.ACR) v
  = mkC (A := ComplexR.AR) (VectorR.Rsum (map (@Model.Complex.cabs ComplexR.SAR) v)) 0%R.
Print Assumptions cnorm1_value.
Print Assumptions audit_separator.

Theorem cnorm1_nonneg_definite : forall (v : list (cplx ComplexR.AR)),
  (0 <= re (norm_1 (A := ComplexR.ACR) v))%R /\ im (norm_1 (A := ComplexR.ACR) v) = 0%R /\
  (norm_1 (A := ComplexR.ACR) v = czero <-> forall z, In z v -> z = czero).
Proof.
  intros v. exact (Logic.conj (proj1 (VectorCx2.cnorm1_nonneg_lemma v))
                  (Logic.conj (proj2 (VectorCx2.cnorm1_nonneg_lemma v)) (VectorCx2.cnorm1_definite_lemma v))).
Qed.
Check cnorm1_nonneg_definite : forall (v : list (cplx ComplexR.AR)),
  (0 <= re (norm_1 (A := ComplexR.ACR) v))%R /\ im (norm_1 (A := ComplexR.ACR) v) = 0%R /\
  (norm_1 (A := ComplexR.ACR) v = czero <-> forall z, In z v -> z = czero).
Print Assumptions cnorm1_nonneg_definite.
Print Assumptions audit_separator.

Theorem cnorm1_homogeneous : forall (v : list (cplx ComplexR.AR)) (c : cplx ComplexR.AR),
  norm_1 (A := ComplexR.ACR) (vscale (A := ComplexR.ACR) v c)
  = @Base.Arith.mul ComplexR.ACR (@Base.Arith.abs ComplexR.ACR c) (norm_1 (A := ComplexR.ACR) v) /\
  re (norm_1 (A := ComplexR.ACR) (vscale (A := ComplexR.ACR) v c))
  = (@Model.Complex.cabs ComplexR.SAR c * re (norm_1 (A := ComplexR.ACR) v))%R.
Proof. intros v c. exact (VectorCx2.cnorm1_homog_lemma v c). Qed.
Check cnorm1_homogeneous : forall (v : list (cplx ComplexR.AR)) (c : cplx ComplexR.AR),
  norm_1 (A := ComplexR.ACR) (vscale (A := ComplexR.ACR) v c)
  = @Base.Arith.mul ComplexR.ACR (@Base.Arith.abs ComplexR.ACR c) (norm_1 (A := ComplexR.ACR) v) /\
  re (norm_1 (A := ComplexR.ACR) (vscale (A := ComplexR.ACR) v c))
  = (@Model.Complex.cabs ComplexR.SAR c * re (norm_1 (A := ComplexR.ACR) v))%R.
Print Assumptions cnorm1_homogeneous.
Print Assumptions audit_separator.

Theorem cnorm1_triangle : forall (u v s : list (cplx ComplexR.AR)), vadd (A := ComplexR.ACR) u v = Ok s ->
  (re (norm_1 (A := ComplexR.ACR) s) <= re (norm_1 (A := ComplexR.ACR) u) + re (norm_1 (A := ComplexR.ACR) v))%R.
Proof. intros u v s E. exact (VectorCx2.cnorm1_triangle_lemma u v s E). Qed.
Check cnorm1_triangle : forall (u v s : list (cplx ComplexR.AR)), vadd (A := ComplexR.ACR) u v = Ok s ->
  (re (norm_1 (A := ComplexR.ACR) s) <= re (norm_1 (A := ComplexR.ACR) u) + re (norm_1 (A := ComplexR.ACR) v))%R.
Print Assumptions cnorm1_triangle.
Print Assumptions audit_separator.

Theorem cnorm_chain : forall (v : list (cplx ComplexR.AR)) (m : R), cnorm_inf (F := ComplexR.SAR) v = Ok m ->
  (m <= re (norm_1 (A := ComplexR.ACR) v))%R /\ (re (norm_1 (A := ComplexR.ACR) v) <= INR (length v) * m)%R.
Proof. intros v m E. exact (VectorCx2.cnorm_inf_le_norm1_lemma v m E). Qed.
Check cnorm_chain : forall (v : list (cplx ComplexR.AR)) (m : R), cnorm_inf (F := ComplexR.SAR) v = Ok m ->
  (m <= re (norm_1 (A := ComplexR.ACR) v))%R /\ (re (norm_1 (A := ComplexR.ACR) v) <= INR (length v) * m)%R.
Print Assumptions cnorm_chain.
Print Assumptions audit_separator.

(* ---------------------------------------------------------------- Cauchy-Schwarz for the bilinear complex dot *)
Theorem cdot_cauchy_schwarz : forall (u v : list (cplx ComplexR.AR)) (d : cplx ComplexR.AR),
  dot (A := ComplexR.ACR) u v = Ok d ->
  (@Model.Complex.cabs ComplexR.SAR d
   <= R_sqrt.sqrt (VectorR.Rsum (map (fun z : cplx ComplexR.AR => re z * re z + im z * im z) u)) *
      R_sqrt.sqrt (VectorR.Rsum (map (fun z : cplx ComplexR.AR => re z * re z + im z * im z) v)))%R.
Proof. intros u v d E. exact (VectorCx2.cdot_cauchy_schwarz_lemma u v d E). Qed.
Check cdot_cauchy_schwarz : forall (u v : list (cplx ComplexR.AR)) (d : cplx ComplexR.AR),
  dot (A := ComplexR.ACR) u v = Ok d ->
  (@Model.Complex.cabs ComplexR.SAR d
   <= R_sqrt.sqrt (VectorR.Rsum (map (fun z : cplx ComplexR.AR => re z * re z + im z * im z) u)) *
      R_sqrt.sqrt (VectorR.Rsum (map (fun z : cplx ComplexR.AR => re z * re z + im z * im z) v)))%R.
Print Assumptions cdot_cauchy_schwarz.
Print Assumptions audit_separator.

Theorem cdot_is_bilinear_not_hermitian :
  dot (A := ComplexR.ACR) [mkC (A := ComplexR.AR) 0%R 1%R] [mkC (A := ComplexR.AR) 0%R 1%R]
  = Ok (mkC (A := ComplexR.AR) (-1)%R 0%R).
Proof. exact VectorCx2.cdot_not_hermitian. Qed.
Check cdot_is_bilinear_not_hermitian :
  dot (A := ComplexR.ACR) [mkC (A := ComplexR.AR) 0%R 1%R] [mkC (A := ComplexR.AR) 0%R 1%R]
  = Ok (mkC (A := ComplexR.AR) (-1)%R 0%R).
Print Assumptions cdot_is_bilinear_not_hermitian.
Print Assumptions audit_separator.

(* the raw loop (combine stops at the shorter vector) satisfies the same inequality without the size guard *)
Theorem cdot_raw_cauchy_schwarz : forall (u v : list (cplx ComplexR.AR)),
  (@Model.Complex.cabs ComplexR.SAR (dot_raw (A := ComplexR.ACR) u v)
   <= R_sqrt.sqrt (VectorR.Rsum (map (fun z : cplx ComplexR.AR => re z * re z + im z * im z) u)) *
      R_sqrt.sqrt (VectorR.Rsum (map (fun z : cplx ComplexR.AR => re z * re z + im z * im z) v)))%R.
Proof. intros u v. exact (VectorCx2.cdot_raw_cauchy_schwarz_lemma u v). Qed.
Check cdot_raw_cauchy_schwarz : forall (u v : list (cplx ComplexR.AR)),
  (@Model.Complex.cabs ComplexR.SAR (dot_raw (A := ComplexR.ACR) u v)
   <= R_sqrt.sqrt (VectorR.Rsum (map (fun z : cplx ComplexR.AR => re z * re z + im z * im z) u)) *
      R_sqrt.sqrt (VectorR.Rsum (map (fun z : cplx ComplexR.AR => re z * re z + im z * im z) v)))%R.
Print Assumptions cdot_raw_cauchy_schwarz.
Print Assumptions audit_separator.

(* the complex norms are the REAL norms (the functions of the blocks above, at VectorR.SAR) of the vector of moduli *)
Theorem cnorm_via_moduli : forall (v : list (cplx ComplexR.AR)),
  cnorm_inf (F := ComplexR.SAR) v
  = Model.Vector.norm_inf (F := VectorR.SAR) Rabs (map (@Model.Complex.cabs ComplexR.SAR) v) /\
  norm_1 (A := ComplexR.ACR) v
  = mkC (A := ComplexR.AR) (norm_1 (A := VectorR.AR) (map (@Model.Complex.cabs ComplexR.SAR) v)) 0%R.
Proof. intros v. exact (VectorCx2.cnorm_via_moduli_lemma v). Qed.
Check cnorm_via_moduli : forall (v : list (cplx ComplexR.AR)),
  cnorm_inf (F := ComplexR.SAR) v
  = Model.Vector.norm_inf (F := VectorR.SAR) Rabs (map (@Model.Complex.cabs ComplexR.SAR) v) /\
  norm_1 (A := ComplexR.ACR) v
  = mkC (A := ComplexR.AR) (norm_1 (A := VectorR.AR) (map (@Model.Complex.cabs ComplexR.SAR) v)) 0%R.
Print Assumptions cnorm_via_moduli.
Print Assumptions audit_separator.

(* non-vacuity of the hypotheses of the complex laws: a concrete sum of equal-length complex vectors is defined, norm_inf of a
   non-empty complex vector is a value (5 = |3 + 4i|), and the dot product of equal-length vectors is a value *)
Example cnorm_laws_nonvacuous :
  vadd (A := ComplexR.ACR) [mkC (A := ComplexR.AR) 3%R 4%R; mkC (A := ComplexR.AR) 0%R (-1)%R]
                           [mkC (A := ComplexR.AR) 1%R 0%R; mkC (A := ComplexR.AR) 2%R 2%R]
  = Ok [@Base.Arith.add ComplexR.ACR (mkC (A := ComplexR.AR) 3%R 4%R) (mkC (A := ComplexR.AR) 1%R 0%R);
        @Base.Arith.add ComplexR.ACR (mkC (A := ComplexR.AR) 0%R (-1)%R) (mkC (A := ComplexR.AR) 2%R 2%R)] /\
  (exists m, cnorm_inf (F := ComplexR.SAR) [mkC (A := ComplexR.AR) 3%R 4%R; mkC (A := ComplexR.AR) 0%R (-1)%R] = Ok m) /\
  (exists d, dot (A := ComplexR.ACR) [mkC (A := ComplexR.AR) 3%R 4%R] [mkC (A := ComplexR.AR) 1%R 0%R] = Ok d).
Proof.
  split; [reflexivity|]. split; [|eexists; reflexivity].
  apply (proj2 (proj2 (VectorCx2.cnorm_inf_panic_lemma (F := ComplexR.SAR) _))). discriminate.
Qed.

(* ---------------------------------------------------------------- generic norm_1 at Qc (rational vectors) *)
Theorem qnorm1_value : forall (v : list Qc), norm_1 (A := AQ) v = VectorCx2Q.Qcsum (map Qcabs.Qcabs v).
Proof. intros v. exact (VectorCx2Q.qnorm1_value_lemma v). Qed.
Check qnorm1_value : forall (v : list Qc), norm_1 (A := AQ) v = VectorCx2Q.Qcsum (map Qcabs.Qcabs v).
Print Assumptions qnorm1_value.

Theorem qnorm1_nonneg_definite : forall (v : list Qc),
  (0 <= norm_1 (A := AQ) v)%Qc /\ (norm_1 (A := AQ) v = 0%Qc <-> forall x, In x v -> x = 0%Qc).
Proof. intros v. exact (Logic.conj (VectorCx2Q.qnorm1_nonneg_lemma v) (VectorCx2Q.qnorm1_definite_lemma v)). Qed.
Check qnorm1_nonneg_definite : forall (v : list Qc),
  (0 <= norm_1 (A := AQ) v)%Qc /\ (norm_1 (A := AQ) v = 0%Qc <-> forall x, In x v -> x = 0%Qc).
Print Assumptions qnorm1_nonneg_definite.

Theorem qnorm1_homogeneous : forall (v : list Qc) (c : Qc),
  norm_1 (A := AQ) (vscale (A := AQ) v c) = (Qcabs.Qcabs c * norm_1 (A := AQ) v)%Qc.
Proof. intros v c. exact (VectorCx2Q.qnorm1_homog_lemma v c). Qed.
Check qnorm1_homogeneous : forall (v : list Qc) (c : Qc),
  norm_1 (A := AQ) (vscale (A := AQ) v c) = (Qcabs.Qcabs c * norm_1 (A := AQ) v)%Qc.
Print Assumptions qnorm1_homogeneous.

Theorem qnorm1_triangle : forall (u v s : list Qc), vadd (A := AQ) u v = Ok s ->
  (norm_1 (A := AQ) s <= norm_1 (A := AQ) u + norm_1 (A := AQ) v)%Qc.
Proof. intros u v s E. exact (VectorCx2Q.qnorm1_triangle_lemma u v s E). Qed.
Check qnorm1_triangle : forall (u v s : list Qc), vadd (A := AQ) u v = Ok s ->
  (norm_1 (A := AQ) s <= norm_1 (A := AQ) u + norm_1 (A := AQ) v)%Qc.
Print Assumptions qnorm1_triangle.

Theorem qnorm_chain : forall (v : list Qc), v <> [] ->
  exists x, In x v /\ (forall y, In y v -> (Qcabs.Qcabs y <= Qcabs.Qcabs x)%Qc) /\
            (Qcabs.Qcabs x <= norm_1 (A := AQ) v)%Qc /\
            (norm_1 (A := AQ) v <= VectorCx2Q.Qc_of_nat (length v) * Qcabs.Qcabs x)%Qc.
Proof. intros v H. exact (VectorCx2Q.qnorm_chain_lemma v H). Qed.
Check qnorm_chain : forall (v : list Qc), v <> [] ->
  exists x, In x v /\ (forall y, In y v -> (Qcabs.Qcabs y <= Qcabs.Qcabs x)%Qc) /\
            (Qcabs.Qcabs x <= norm_1 (A := AQ) v)%Qc /\
            (norm_1 (A := AQ) v <= VectorCx2Q.Qc_of_nat (length v) * Qcabs.Qcabs x)%Qc.
Print Assumptions qnorm_chain.

(* the model's Signed::abs on Qc (`if x < 0 {-x} else {x}`) IS the rational absolute value used in the statements above *)
Theorem qabs_is_abs : forall x : Qc, @Base.Arith.abs AQ x = Qcabs.Qcabs x.
Proof. intros x. exact (VectorCx2Q.Qc_abs_Qcabs x). Qed.
Check qabs_is_abs : forall x : Qc, @Base.Arith.abs AQ x = Qcabs.Qcabs x.
Print Assumptions qabs_is_abs.

Example qnorm_laws_nonvacuous :
  vadd (A := AQ) [q 1 2; q (-3) 1] [q 1 1; q 1 1] = Ok [@Base.Arith.add AQ (q 1 2) (q 1 1); @Base.Arith.add AQ (q (-3) 1) (q 1 1)] /\
  [q 1 2; q (-3) 1] <> [].
Proof. split; [reflexivity|discriminate]. Qed.

(* ---------------------------------------------------------------- Complex<f64>: exact on exactly-representable data (Flocq) *)
(* [VectorCx2F.GaussExact z m]: the two components of z hold integers a, b (finite floats of these values) with
   a*a + b*b = m*m, 0 <= m, m*m < 2^53 -- a Gaussian integer of integer modulus m.  [ExactW x z]: x is finite, of value z. *)
Theorem cnorm_inf_exact_float : forall (z0 : cplx AF) (t : list (cplx AF)) (m0 : Z) (ms : list Z),
  VectorCx2F.GaussExact z0 m0 -> Forall2 VectorCx2F.GaussExact t ms ->
  exists r, cnorm_inf (F := SAF) (z0 :: t) = Ok r /\ ParDotFloat.ExactW r (VectorCx2F.zmaxl m0 ms) /\
            In (VectorCx2F.zmaxl m0 ms) (m0 :: ms) /\ (forall m, In m (m0 :: ms) -> (m <= VectorCx2F.zmaxl m0 ms)%Z).
Proof.
  intros z0 t m0 ms H0 Ht. destruct (VectorCx2F.cnorm_inf_exact_float_lemma z0 t m0 ms H0 Ht) as (r & E & X).
  exists r. exact (Logic.conj E (Logic.conj X (VectorCx2F.zmaxl_spec m0 ms))).
Qed.
Check cnorm_inf_exact_float : forall (z0 : cplx AF) (t : list (cplx AF)) (m0 : Z) (ms : list Z),
  VectorCx2F.GaussExact z0 m0 -> Forall2 VectorCx2F.GaussExact t ms ->
  exists r, cnorm_inf (F := SAF) (z0 :: t) = Ok r /\ ParDotFloat.ExactW r (VectorCx2F.zmaxl m0 ms) /\
            In (VectorCx2F.zmaxl m0 ms) (m0 :: ms) /\ (forall m, In m (m0 :: ms) -> (m <= VectorCx2F.zmaxl m0 ms)%Z).
Print Assumptions cnorm_inf_exact_float.
Print Assumptions audit_separator.

Theorem cnorm1_exact_float : forall (v : list (cplx AF)) (ms : list Z),
  Forall2 VectorCx2F.GaussExact v ms -> (VectorFloat.zsuml ms < 2 ^ 53)%Z ->
  ParDotFloat.ExactW (re (norm_1 (A := ACF) v)) (VectorFloat.zsuml ms) /\ im (norm_1 (A := ACF) v) = 0%float.
Proof. intros v ms Hv Hb. exact (VectorCx2F.cnorm1_exact_float_lemma v ms Hv Hb). Qed.
Check cnorm1_exact_float : forall (v : list (cplx AF)) (ms : list Z),
  Forall2 VectorCx2F.GaussExact v ms -> (VectorFloat.zsuml ms < 2 ^ 53)%Z ->
  ParDotFloat.ExactW (re (norm_1 (A := ACF) v)) (VectorFloat.zsuml ms) /\ im (norm_1 (A := ACF) v) = 0%float.
Print Assumptions cnorm1_exact_float.
Print Assumptions audit_separator.

(* non-vacuity: [3+4i; -5; -5+12i] are Gaussian integers of moduli 5, 5, 13; their sum 23 is below 2^53 *)
Example cnorm_exact_float_nonvacuous :
  Forall2 VectorCx2F.GaussExact VectorCx2F.exc_v VectorCx2F.exc_m /\ (VectorFloat.zsuml VectorCx2F.exc_m < 2 ^ 53)%Z.
Proof. split; [exact VectorCx2F.exc_exact|]. vm_compute. reflexivity. Qed.

(* ---------------------------------------------------------------- complex norms "to rounding accuracy" (standard model) *)
(* The same Gallina functions at the standard-model arithmetic (RoundModel.ARm: every + and * is the exact result times (1+d),
   |d| <= u; RoundNorm2.SARm adds the rounded square root), as for norm_2_relative_error above.  Comparisons are exact. *)
Theorem cabs_relative_error : forall (u : R), (0 <= u < 1)%R ->
  forall (fadd fsub fmul fdiv : R -> R -> R) (fsqrt : R -> R),
  (forall x y : R, exists d : R, (Rabs d <= u)%R /\ fadd x y = ((x + y) * (1 + d))%R) ->
  (forall x y : R, exists d : R, (Rabs d <= u)%R /\ fmul x y = (x * y * (1 + d))%R) ->
  (forall x : R, (0 <= x)%R -> exists d : R, (Rabs d <= u)%R /\ fsqrt x = (R_sqrt.sqrt x * (1 + d))%R) ->
  forall (z : cplx (RoundModel.ARm fadd fsub fmul fdiv)), (INR 3 * u < 1)%R ->
  exists th : R, (Rabs th <= RoundModel.gam u 3)%R /\
    (@Model.Complex.cabs (RoundNorm2.SARm fadd fsub fmul fdiv fsqrt) z : R) = (R_sqrt.sqrt (re z * re z + im z * im z) * (1 + th))%R.
Proof. intros u Hu fadd fsub fmul fdiv fsqrt Ha Hm Hs z. exact (VectorCx2R.cabs_relative_error_lemma u Hu fadd fsub fmul fdiv fsqrt Ha Hm Hs z). Qed.
Check cabs_relative_error : forall (u : R), (0 <= u < 1)%R ->
  forall (fadd fsub fmul fdiv : R -> R -> R) (fsqrt : R -> R),
  (forall x y : R, exists d : R, (Rabs d <= u)%R /\ fadd x y = ((x + y) * (1 + d))%R) ->
  (forall x y : R, exists d : R, (Rabs d <= u)%R /\ fmul x y = (x * y * (1 + d))%R) ->
  (forall x : R, (0 <= x)%R -> exists d : R, (Rabs d <= u)%R /\ fsqrt x = (R_sqrt.sqrt x * (1 + d))%R) ->
  forall (z : cplx (RoundModel.ARm fadd fsub fmul fdiv)), (INR 3 * u < 1)%R ->
  exists th : R, (Rabs th <= RoundModel.gam u 3)%R /\
    (@Model.Complex.cabs (RoundNorm2.SARm fadd fsub fmul fdiv fsqrt) z : R) = (R_sqrt.sqrt (re z * re z + im z * im z) * (1 + th))%R.
Print Assumptions cabs_relative_error.
Print Assumptions audit_separator.

Theorem cnorm_inf_relative_error : forall (u : R), (0 <= u < 1)%R ->
  forall (fadd fsub fmul fdiv : R -> R -> R) (fsqrt : R -> R),
  (forall x y : R, exists d : R, (Rabs d <= u)%R /\ fadd x y = ((x + y) * (1 + d))%R) ->
  (forall x y : R, exists d : R, (Rabs d <= u)%R /\ fmul x y = (x * y * (1 + d))%R) ->
  (forall x : R, (0 <= x)%R -> exists d : R, (Rabs d <= u)%R /\ fsqrt x = (R_sqrt.sqrt x * (1 + d))%R) ->
  forall (v : list (cplx (RoundModel.ARm fadd fsub fmul fdiv))) (m : R), (INR 3 * u < 1)%R ->
  cnorm_inf (F := RoundNorm2.SARm fadd fsub fmul fdiv fsqrt) v = Ok m ->
  exists (z : cplx (RoundModel.ARm fadd fsub fmul fdiv)) (th : R), In z v /\
    (forall w, In w v -> (R_sqrt.sqrt (re w * re w + im w * im w) <= R_sqrt.sqrt (re z * re z + im z * im z))%R) /\
    (Rabs th <= RoundModel.gam u 3)%R /\ m = (R_sqrt.sqrt (re z * re z + im z * im z) * (1 + th))%R.
Proof. intros u Hu fadd fsub fmul fdiv fsqrt Ha Hm Hs v m. exact (VectorCx2R.cnorm_inf_relative_error_lemma u Hu fadd fsub fmul fdiv fsqrt Ha Hm Hs v m). Qed.
Check cnorm_inf_relative_error : forall (u : R), (0 <= u < 1)%R ->
  forall (fadd fsub fmul fdiv : R -> R -> R) (fsqrt : R -> R),
  (forall x y : R, exists d : R, (Rabs d <= u)%R /\ fadd x y = ((x + y) * (1 + d))%R) ->
  (forall x y : R, exists d : R, (Rabs d <= u)%R /\ fmul x y = (x * y * (1 + d))%R) ->
  (forall x : R, (0 <= x)%R -> exists d : R, (Rabs d <= u)%R /\ fsqrt x = (R_sqrt.sqrt x * (1 + d))%R) ->
  forall (v : list (cplx (RoundModel.ARm fadd fsub fmul fdiv))) (m : R), (INR 3 * u < 1)%R ->
  cnorm_inf (F := RoundNorm2.SARm fadd fsub fmul fdiv fsqrt) v = Ok m ->
  exists (z : cplx (RoundModel.ARm fadd fsub fmul fdiv)) (th : R), In z v /\
    (forall w, In w v -> (R_sqrt.sqrt (re w * re w + im w * im w) <= R_sqrt.sqrt (re z * re z + im z * im z))%R) /\
    (Rabs th <= RoundModel.gam u 3)%R /\ m = (R_sqrt.sqrt (re z * re z + im z * im z) * (1 + th))%R.
Print Assumptions cnorm_inf_relative_error.
Print Assumptions audit_separator.

Theorem cnorm1_backward_error : forall (u : R), (0 <= u < 1)%R ->
  forall (fadd fsub fmul fdiv : R -> R -> R) (fsqrt : R -> R),
  (forall x y : R, exists d : R, (Rabs d <= u)%R /\ fadd x y = ((x + y) * (1 + d))%R) ->
  (forall x y : R, exists d : R, (Rabs d <= u)%R /\ fmul x y = (x * y * (1 + d))%R) ->
  (forall x : R, (0 <= x)%R -> exists d : R, (Rabs d <= u)%R /\ fsqrt x = (R_sqrt.sqrt x * (1 + d))%R) ->
  forall (v : list (cplx (RoundModel.ARm fadd fsub fmul fdiv))), (INR (length v + 3) * u < 1)%R ->
  exists th : nat -> R,
    (forall k, k < length v -> (Rabs (th k) <= RoundModel.gam u (length v + 3))%R) /\
    re (norm_1 (A := CArith (RoundNorm2.SARm fadd fsub fmul fdiv fsqrt)) v)
    = RoundModel.Rsum (length v) (fun k => (R_sqrt.sqrt (re (nth k v (@czero (RoundModel.ARm fadd fsub fmul fdiv))) * re (nth k v (@czero (RoundModel.ARm fadd fsub fmul fdiv))) + im (nth k v (@czero (RoundModel.ARm fadd fsub fmul fdiv))) * im (nth k v (@czero (RoundModel.ARm fadd fsub fmul fdiv)))) * (1 + th k))%R) /\
    im (norm_1 (A := CArith (RoundNorm2.SARm fadd fsub fmul fdiv fsqrt)) v) = 0%R.
Proof. intros u Hu fadd fsub fmul fdiv fsqrt Ha Hm Hs v. exact (VectorCx2R.cnorm1_backward_error_lemma u Hu fadd fsub fmul fdiv fsqrt Ha Hm Hs v). Qed.
Check cnorm1_backward_error : forall (u : R), (0 <= u < 1)%R ->
  forall (fadd fsub fmul fdiv : R -> R -> R) (fsqrt : R -> R),
  (forall x y : R, exists d : R, (Rabs d <= u)%R /\ fadd x y = ((x + y) * (1 + d))%R) ->
  (forall x y : R, exists d : R, (Rabs d <= u)%R /\ fmul x y = (x * y * (1 + d))%R) ->
  (forall x : R, (0 <= x)%R -> exists d : R, (Rabs d <= u)%R /\ fsqrt x = (R_sqrt.sqrt x * (1 + d))%R) ->
  forall (v : list (cplx (RoundModel.ARm fadd fsub fmul fdiv))), (INR (length v + 3) * u < 1)%R ->
  exists th : nat -> R,
    (forall k, k < length v -> (Rabs (th k) <= RoundModel.gam u (length v + 3))%R) /\
    re (norm_1 (A := CArith (RoundNorm2.SARm fadd fsub fmul fdiv fsqrt)) v)
    = RoundModel.Rsum (length v) (fun k => (R_sqrt.sqrt (re (nth k v (@czero (RoundModel.ARm fadd fsub fmul fdiv))) * re (nth k v (@czero (RoundModel.ARm fadd fsub fmul fdiv))) + im (nth k v (@czero (RoundModel.ARm fadd fsub fmul fdiv))) * im (nth k v (@czero (RoundModel.ARm fadd fsub fmul fdiv)))) * (1 + th k))%R) /\
    im (norm_1 (A := CArith (RoundNorm2.SARm fadd fsub fmul fdiv fsqrt)) v) = 0%R.
Print Assumptions cnorm1_backward_error.
Print Assumptions audit_separator.

Theorem cnorm1_relative_error : forall (u : R), (0 <= u < 1)%R ->
  forall (fadd fsub fmul fdiv : R -> R -> R) (fsqrt : R -> R),
  (forall x y : R, exists d : R, (Rabs d <= u)%R /\ fadd x y = ((x + y) * (1 + d))%R) ->
  (forall x y : R, exists d : R, (Rabs d <= u)%R /\ fmul x y = (x * y * (1 + d))%R) ->
  (forall x : R, (0 <= x)%R -> exists d : R, (Rabs d <= u)%R /\ fsqrt x = (R_sqrt.sqrt x * (1 + d))%R) ->
  forall (v : list (cplx (RoundModel.ARm fadd fsub fmul fdiv))), (INR (length v + 3) * u < 1)%R ->
  (Rabs (re (norm_1 (A := CArith (RoundNorm2.SARm fadd fsub fmul fdiv fsqrt)) v)
         - RoundModel.Rsum (length v) (fun k => R_sqrt.sqrt (re (nth k v (@czero (RoundModel.ARm fadd fsub fmul fdiv))) * re (nth k v (@czero (RoundModel.ARm fadd fsub fmul fdiv))) + im (nth k v (@czero (RoundModel.ARm fadd fsub fmul fdiv))) * im (nth k v (@czero (RoundModel.ARm fadd fsub fmul fdiv))))))
   <= RoundModel.gam u (length v + 3) * RoundModel.Rsum (length v) (fun k => R_sqrt.sqrt (re (nth k v (@czero (RoundModel.ARm fadd fsub fmul fdiv))) * re (nth k v (@czero (RoundModel.ARm fadd fsub fmul fdiv))) + im (nth k v (@czero (RoundModel.ARm fadd fsub fmul fdiv))) * im (nth k v (@czero (RoundModel.ARm fadd fsub fmul fdiv))))))%R.
Proof. intros u Hu fadd fsub fmul fdiv fsqrt Ha Hm Hs v. exact (VectorCx2R.cnorm1_relative_error_lemma u Hu fadd fsub fmul fdiv fsqrt Ha Hm Hs v). Qed.
Check cnorm1_relative_error : forall (u : R), (0 <= u < 1)%R ->
  forall (fadd fsub fmul fdiv : R -> R -> R) (fsqrt : R -> R),
  (forall x y : R, exists d : R, (Rabs d <= u)%R /\ fadd x y = ((x + y) * (1 + d))%R) ->
  (forall x y : R, exists d : R, (Rabs d <= u)%R /\ fmul x y = (x * y * (1 + d))%R) ->
  (forall x : R, (0 <= x)%R -> exists d : R, (Rabs d <= u)%R /\ fsqrt x = (R_sqrt.sqrt x * (1 + d))%R) ->
  forall (v : list (cplx (RoundModel.ARm fadd fsub fmul fdiv))), (INR (length v + 3) * u < 1)%R ->
  (Rabs (re (norm_1 (A := CArith (RoundNorm2.SARm fadd fsub fmul fdiv fsqrt)) v)
         - RoundModel.Rsum (length v) (fun k => R_sqrt.sqrt (re (nth k v (@czero (RoundModel.ARm fadd fsub fmul fdiv))) * re (nth k v (@czero (RoundModel.ARm fadd fsub fmul fdiv))) + im (nth k v (@czero (RoundModel.ARm fadd fsub fmul fdiv))) * im (nth k v (@czero (RoundModel.ARm fadd fsub fmul fdiv))))))
   <= RoundModel.gam u (length v + 3) * RoundModel.Rsum (length v) (fun k => R_sqrt.sqrt (re (nth k v (@czero (RoundModel.ARm fadd fsub fmul fdiv))) * re (nth k v (@czero (RoundModel.ARm fadd fsub fmul fdiv))) + im (nth k v (@czero (RoundModel.ARm fadd fsub fmul fdiv))) * im (nth k v (@czero (RoundModel.ARm fadd fsub fmul fdiv))))))%R.
Print Assumptions cnorm1_relative_error.
Print Assumptions audit_separator.

(* the hypotheses are met by 53-bit round-to-nearest-even after every operation, the square root included *)
Example cnorm_relative_error_nonvacuous :
  (0 <= ux < 1)%R /\
  (forall x y : R, exists d : R, (Rabs d <= ux)%R /\ xadd x y = ((x + y) * (1 + d))%R) /\
  (forall x y : R, exists d : R, (Rabs d <= ux)%R /\ xmul x y = (x * y * (1 + d))%R) /\
  (forall x : R, (0 <= x)%R -> exists d : R, (Rabs d <= ux)%R /\ rndx (R_sqrt.sqrt x) = (R_sqrt.sqrt x * (1 + d))%R) /\
  (INR (2 + 3) * ux < 1)%R.
Proof.
  split; [exact ux_range|]. split; [exact xadd_ok|]. split; [exact xmul_ok|].
  split; [intros x _; apply rndx_rel|cbn [Nat.add INR]; pose proof ux_small; lra].
Qed.
