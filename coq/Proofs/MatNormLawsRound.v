(* Proofs/MatNormLawsRound.v -- the float norms of Model/MatNorms.v "to rounding accuracy" (package matnorm, item 4):
   the SAME Gallina mnorm_1 / mnorm_inf / mnorm_max / mnorm_frob instantiated at the STANDARD MODEL of floating-point
   arithmetic (Base/RoundModel.v [ARm], with the rounded square root of Proofs/RoundNorm2.v [SARm]; |.| and the
   comparisons are exact, as in IEEE arithmetic), compared with the same functions at the exact reals [SAR] on the same
   buffer ([rm m] is m retyped):

     |fl(norm_1 A)   - norm_1 A|   <= gam rows * norm_1 A        (rows u < 1)
     |fl(norm_inf A) - norm_inf A| <= gam cols * norm_inf A      (cols u < 1)
     fl(norm_max A) = norm_max A                                  (no arithmetic operation is rounded)
     fl(norm_frob A) = norm_frob A * (1 + th), |th| <= gam (rows*cols + 1)    ((rows*cols+1) u < 1)

   The maxima are taken exactly, so the error of norm_1 / norm_inf is that of one column / row sum (n rounded additions
   of non-negative terms: no cancellation).  Overflow and underflow are outside the standard model. *)
From Coq Require Import List Arith Lia Reals Lra Psatz Bool.
From OV Require Import Base.Panic Base.Arith Base.RoundModel Model.Vector Model.Matrix Model.MatNorms.
From OV Require Import Proofs.Matrix Proofs.MatNorms Proofs.MatNormsR Proofs.RoundDot Proofs.RoundNorm2.
From OV Require Import Proofs.MatNormLawsBase.
Import ListNotations.
Local Open Scope R_scope.

Lemma Rsum_Rs n f : Rsum n f = Rs n f.
Proof. induction n as [|n IH]; [reflexivity|]. rewrite Rs_S, <- IH. reflexivity. Qed.

Lemma Rabs_le_bounds x a : Rabs x <= a -> - a <= x <= a.
Proof. unfold Rabs. destruct (Rcase_abs x); lra. Qed.

(* two maxima of 0 and a family, the members of one within a relative distance g of the members of the other *)
Lemma ismax_pert (P P' : R -> Prop) N N' g : 0 <= g ->
  (forall x, P x -> 0 <= x) -> (forall x, P' x -> 0 <= x) ->
  (forall x', P' x' -> exists x, P x /\ x' <= (1 + g) * x) ->
  (forall x, P x -> exists x', P' x' /\ (1 - g) * x <= x') ->
  ismax P N -> ismax P' N' -> Rabs (N' - N) <= g * N.
Proof.
  intros Hg Hp Hp' Hup Hlo HN HN'.
  pose proof (ismax_nonneg _ _ HN Hp) as PN. pose proof (ismax_nonneg _ _ HN' Hp') as PN'.
  assert (U : N' <= (1 + g) * N).
  { apply (ismax_le _ _ _ HN'); [nra|]. intros x' Hx'. destruct (Hup x' Hx') as (x & Hx & Hle).
    pose proof (proj1 HN x Hx). pose proof (Hp x Hx). nra. }
  assert (L : (1 - g) * N <= N').
  { destruct (proj2 HN) as [->|Hm]; [lra|]. destruct (Hlo N Hm) as (x' & Hx' & Hle).
    pose proof (proj1 HN' x' Hx'). lra. }
  apply Rabs_le. lra.
Qed.

Section RoundMatNorm.
Variable u : R.
Hypothesis u_range : 0 <= u < 1.
Variables fadd fsub fmul fdiv : R -> R -> R.
Variable fsqrt : R -> R.
Hypothesis fadd_ok : forall x y, exists d, Rabs d <= u /\ fadd x y = (x + y) * (1 + d).

Notation ARf := (ARm fadd fsub fmul fdiv).
Notation SARf := (SARm fadd fsub fmul fdiv fsqrt).
Notation gam := (gam u).

Lemma ARf_OrdLaws : OrdLaws ARf.
Proof.
  split.
  - intros x. apply (proj2 (R_ltb_false x x)). apply Rle_refl.
  - intros a b c Hab Hac. apply (proj1 (R_ltb_true a b)) in Hab. apply (proj1 (R_ltb_false a c)) in Hac.
    apply (proj2 (R_ltb_false b c)). lra.
Qed.

(* the same buffer read as a matrix over the exact reals *)
Definition rm (m : matrix ARf) : matrix AR := mkM (A:=AR) (buf m) (rows m) (cols m).

(* n rounded additions of non-negative terms *)
Lemma fsum_bounds n (a : nat -> R) : (forall k, (k < n)%nat -> 0 <= a k) -> INR n * u < 1 ->
  0 <= (sum_n (A:=ARf) n a : R) /\
  (1 - gam n) * Rs n a <= (sum_n (A:=ARf) n a : R) <= (1 + gam n) * Rs n a.
Proof using u_range fadd_ok.
  intros Ha Hn. rewrite <- (sum_acc_zero (A:=ARf)).
  destruct (sum_acc_round u u_range fadd fsub fmul fdiv fadd_ok n a 0) as (P & W & HP & HW & E).
  change (@zero ARf) with 0. rewrite E, Rmult_0_l, Rplus_0_l.
  assert (HW' : forall k, (k < n)%nat -> (1 - u) ^ n <= W k <= / (1 - u) ^ n).
  { intros k Hk. apply (bnd_mono u u_range (n - k) n (W k)); [lia|now apply HW]. }
  pose proof (Rsum_weighted n a W _ _ Ha HW') as (L & U).
  pose proof (Rsum_nonneg n a Ha) as HS.
  rewrite (Rsum_Rs n a) in L, U, HS. rewrite (Rsum_Rs n (fun k => a k * W k)) in L, U. rewrite (Rsum_Rs n (fun k => a k * W k)).
  pose proof (pow1u_pos u u_range n) as Ppos.
  assert (B1 : bnd u n ((1 - u) ^ n)).
  { split; [lra|]. pose proof (pow1u_le1 u u_range n).
    apply Rle_trans with 1; [lra|]. rewrite <- Rinv_1 at 1. apply Rinv_le_contravar; lra. }
  assert (B2 : bnd u n (/ (1 - u) ^ n)) by (apply (bnd_inv u u_range); exact B1).
  pose proof (bnd_gam u u_range n _ B1 Hn) as G1. pose proof (bnd_gam u u_range n _ B2 Hn) as G2.
  apply Rabs_le_bounds in G1. apply Rabs_le_bounds in G2.
  set (S := Rs n a) in *. set (lo := (1 - u) ^ n) in *. set (hi := / lo) in *.
  assert (0 <= lo * S) by (apply Rmult_le_pos; lra).
  assert (0 <= (lo - (1 - gam n)) * S) by (apply Rmult_le_pos; lra).
  assert (0 <= ((1 + gam n) - hi) * S) by (apply Rmult_le_pos; lra).
  split; [lra|]. split; lra.
Qed.

Lemma ltbf_false (x y : R) : ltb (a:=ARf) x y = false -> y <= x.
Proof. intros H. apply (proj1 (R_ltb_false x y)). exact H. Qed.

Lemma mnorm_1_rounding_lemma (m : matrix ARf) : wf m -> INR (rows m) * u < 1 ->
  exists Nf N, mnorm_1 (S:=SARf) m = Ok Nf /\ mnorm_1 (S:=SAR) (rm m) = Ok N /\
    Rabs (Nf - N) <= gam (rows m) * N.
Proof using u_range fadd_ok.
  intros Hw Hn.
  destruct (norms_spec_lemma (SS:=SARf) ARf_OrdLaws m Hw) as ((Nf & Ef & Hub & Hmem) & _).
  assert (Hw' : wf (rm m)) by exact Hw.
  destruct (n1_msp _ _ _ (rm m) (msp_self _ Hw')) as (N & E & HN).
  exists Nf, N. split; [exact Ef|]. split; [exact E|].
  set (f := entry (A:=AR) (rm m)).
  set (fs := fun j => (sum_n (A:=ARf) (rows m) (fun i => Rabs (f i j)) : R)).
  assert (HB : forall j, 0 <= fs j /\ (1 - gam (rows m)) * csum (rows m) f j <= fs j <= (1 + gam (rows m)) * csum (rows m) f j).
  { intros j. apply fsum_bounds; auto. intros; apply Rabs_pos. }
  apply (ismax_pert (P1 (rows m) (cols m) f) (fun x => exists j, (j < cols m)%nat /\ x = fs j) N Nf (gam (rows m))).
  - apply (gam_nonneg u u_range). exact Hn.
  - apply P1_nonneg.
  - intros x (j & _ & ->). apply HB.
  - intros x' (j & Hj & ->). exists (csum (rows m) f j). split; [exists j; auto|apply HB].
  - intros x (j & Hj & ->). exists (fs j). split; [exists j; auto|apply HB].
  - exact HN.
  - split.
    + intros x (j & Hj & ->). apply ltbf_false. exact (Hub j Hj).
    + destruct Hmem as [->|(j & Hj & ->)]; [now left|right; exists j; split; auto].
Qed.

Lemma mnorm_inf_rounding_lemma (m : matrix ARf) : wf m -> INR (cols m) * u < 1 ->
  exists Nf N, mnorm_inf (S:=SARf) m = Ok Nf /\ mnorm_inf (S:=SAR) (rm m) = Ok N /\
    Rabs (Nf - N) <= gam (cols m) * N.
Proof using u_range fadd_ok.
  intros Hw Hn.
  destruct (norms_spec_lemma (SS:=SARf) ARf_OrdLaws m Hw) as (_ & (Nf & Ef & Hub & Hmem) & _).
  assert (Hw' : wf (rm m)) by exact Hw.
  destruct (ninf_msp _ _ _ (rm m) (msp_self _ Hw')) as (N & E & HN).
  exists Nf, N. split; [exact Ef|]. split; [exact E|].
  set (f := entry (A:=AR) (rm m)).
  set (fs := fun i => (sum_n (A:=ARf) (cols m) (fun j => Rabs (f i j)) : R)).
  assert (HB : forall i, 0 <= fs i /\ (1 - gam (cols m)) * rsum (cols m) f i <= fs i <= (1 + gam (cols m)) * rsum (cols m) f i).
  { intros i. apply fsum_bounds; auto. intros; apply Rabs_pos. }
  apply (ismax_pert (Pinf (rows m) (cols m) f) (fun x => exists i, (i < rows m)%nat /\ x = fs i) N Nf (gam (cols m))).
  - apply (gam_nonneg u u_range). exact Hn.
  - apply Pinf_nonneg.
  - intros x (i & _ & ->). apply HB.
  - intros x' (i & Hi & ->). exists (rsum (cols m) f i). split; [exists i; auto|apply HB].
  - intros x (i & Hi & ->). exists (fs i). split; [exists i; auto|apply HB].
  - exact HN.
  - split.
    + intros x (i & Hi & ->). apply ltbf_false. exact (Hub i Hi).
    + destruct Hmem as [->|(i & Hi & ->)]; [now left|right; exists i; split; auto].
Qed.

(* norm_max rounds nothing *)
Lemma mnorm_max_exact_lemma (m : matrix ARf) : wf m ->
  exists N, mnorm_max (S:=SARf) m = Ok N /\ mnorm_max (S:=SAR) (rm m) = Ok N.
Proof using.
  intros Hw.
  destruct (norms_spec_lemma (SS:=SARf) ARf_OrdLaws m Hw) as (_ & _ & (Nf & Ef & Hub & Hmem) & _).
  assert (Hw' : wf (rm m)) by exact Hw.
  destruct (nmax_msp _ _ _ (rm m) (msp_self _ Hw')) as (N & E & HN).
  exists Nf. split; [exact Ef|]. rewrite E. apply f_equal.
  apply (ismax_eq _ (Pmax (rows m) (cols m) (entry (A:=AR) (rm m))) _ _ HN); [|apply Pmax_nonneg|intros x; split; intros Hx; exact Hx].
  split.
  - intros x (i & j & Hi & Hj & ->). apply ltbf_false. exact (Hub i j Hi Hj).
  - destruct Hmem as [->|(i & j & Hi & Hj & ->)]; [now left|right; exists i, j; auto].
Qed.

Hypothesis fmul_ok : forall x y, exists d, Rabs d <= u /\ fmul x y = x * y * (1 + d).
Hypothesis fadd_0_mul : forall a b, fadd 0 (fmul a b) = fmul a b.
Hypothesis fsqrt_ok : forall x, 0 <= x -> exists d, Rabs d <= u /\ fsqrt x = R_sqrt.sqrt x * (1 + d).

(* norm_frob is the Euclidean norm of the buffer (for every SArith in fact; stated where it is used) *)
Lemma mnorm_frob_norm_2 (m : matrix ARf) : wf m ->
  mnorm_frob (S:=SARf) m = Ok (norm_2 (F:=SARf) Rabs (buf m)).
Proof.
  intros Hw. rewrite (mnorm_frob_lemma (SS:=SARf) m Hw). apply f_equal.
  symmetry. apply (norm_2_sum fadd fsub fmul fdiv fsqrt (buf m)).
Qed.

Lemma mnorm_frob_rounding_lemma (m : matrix ARf) : wf m -> INR (rows m * cols m + 1) * u < 1 ->
  exists th N, Rabs th <= gam (rows m * cols m + 1) /\
    mnorm_frob (S:=SAR) (rm m) = Ok N /\ mnorm_frob (S:=SARf) m = Ok (N * (1 + th)).
Proof using u_range fadd_ok fmul_ok fadd_0_mul fsqrt_ok.
  intros Hw Hn. assert (Hw' : wf (rm m)) by exact Hw.
  assert (Hl : length (buf m) = (rows m * cols m)%nat) by exact Hw.
  rewrite <- Hl in Hn.
  destruct (norm_2_relative_error_lemma u u_range fadd fsub fmul fdiv fsqrt fadd_ok fmul_ok fadd_0_mul fsqrt_ok
              (buf m) Hn) as (th & Hth & E).
  exists th. eexists. split; [rewrite <- Hl; exact Hth|].
  destruct (norms_real_lemma (rm m) Hw') as (_ & _ & _ & _ & Ef).
  split; [exact Ef|]. rewrite (mnorm_frob_norm_2 m Hw). apply f_equal.
  etransitivity; [exact E|]. rewrite Rsum_Rs. reflexivity.
Qed.

End RoundMatNorm.
