(* Proofs/SrcEqVec64.v -- the f64-only methods of src/vector/vec_f64.rs against Section Vec64 of Model/Vector.v (package
   C15): over an arithmetic with sqrt / of_nat (SArith) and with the two calls that are not IEEE primitives (the inherent
   f64::abs and libm powf) as parameters, exactly as in the model.
   norm_2 is the one place where the hand-written model deliberately differs from the source: the source computes
   powf(|x|, 2.0), the model |x|*|x| (tied by tolerance in the correspondence check).  The lemma therefore carries the
   hypothesis  powf y 2 = y*y  -- which is the precise statement of what the model assumes. *)
From Coq Require Import List Arith ZArith Lia Bool.
From OV Require Import Base.Panic Base.Arith Model.Vector gen.SrcPrelude gen.SrcVec64 Proofs.SrcEqBase.
Import ListNotations.

Section SrcEqVec64.
Context {F : SArith}.
Variable fabs : F -> F.
Variable powf : F -> F -> F.
Local Notation A := (SA F).
Implicit Types (v : list (T A)) (a b p : T A) (n : nat).

Lemma tab_loop n (G : nat -> res (T A)) :
  for_from n 0 (fun i vec => let* y := G i in upd vec i y) (repeat zero n) = mapM G (seq 0 n).
Proof.
  pose proof (for_from_tab G (repeat zero n) []) as H. rewrite repeat_length in H. cbn [length app] in H.
  rewrite H. apply bind_ret.
Qed.

Lemma src_linspace a b n : s_linspace a b n = linspace a b n.
Proof.
  unfold s_linspace, linspace, for_. rewrite Nat.sub_0_r. apply bind_ext; intros h.
  etransitivity; [exact (tab_loop n (fun i => Ok (add a (mul h (of_nat i)))))|apply mapM_pure].
Qed.

Lemma src_powspace a b n p : s_powspace powf a b n p = powspace powf a b n p.
Proof.
  unfold s_powspace, powspace, for_. rewrite Nat.sub_0_r.
  rewrite <- (tab_loop n (fun i => let* x := div (of_nat i) (sub (of_nat n) one) in Ok (add a (mul (sub b a) (powf x p))))).
  apply for_from_ext; intros i s _. destruct (div (of_nat i) (sub (of_nat n) one)); reflexivity.
Qed.

Lemma src_norm_p v p : s_norm_p fabs powf v p = norm_p fabs powf v p.
Proof.
  unfold s_norm_p, norm_p, for_. rewrite Nat.sub_0_r.
  rewrite (for_from_fold (rd v) (fun acc x => add acc (powf (fabs x) p))), mapM_rd_all. reflexivity.
Qed.

Lemma src_norm_2 v :
  (forall y : T A, powf y (add one one) = mul y y) ->
  s_norm_2 fabs powf v = Ok (norm_2 fabs v).
Proof.
  intros Hp. unfold s_norm_2, norm_2, for_. rewrite Nat.sub_0_r.
  rewrite (for_from_fold (rd v) (fun acc x => add acc (powf (fabs x) (add one one)))), mapM_rd_all. cbn [bind].
  do 2 f_equal. clear -Hp. generalize (@zero A). induction v as [|x t IH]; intros z; cbn; [reflexivity|].
  now rewrite Hp, IH.
Qed.

(* the source reads self.vec[i] twice (test and assignment), the model once *)
Lemma src_norm_inf v : s_norm_inf fabs v = norm_inf fabs v.
Proof.
  unfold s_norm_inf, norm_inf, for_. apply bind_ext_ok; intros x0 H0.
  assert (L : 1 <= length v) by (apply (rd_Ok_inv v 0 x0 x0) in H0; lia).
  rewrite (for_from_ext _ _ _ (fun i r => let* x := rd v i in Ok (if ltb r (fabs x) then fabs x else r))).
  2:{ intros i r _. destruct (rd v i) as [x|] eqn:E; cbn [bind]; [|reflexivity].
      destruct (ltb r (fabs x)); cbn [bind]; [|reflexivity]. unfold rd in *. destruct (nth_error v i); [|discriminate]. injection E as ->. reflexivity. }
  rewrite (for_from_fold (rd v) (fun r x => if ltb r (fabs x) then fabs x else r)).
  rewrite mapM_rd_seq by lia. cbn [bind]. rewrite firstn_all2 by (rewrite skipn_length; lia). reflexivity.
Qed.

(* all of them at once: what a Props file pins as  model_is_source_<property>  *)
Definition model_is_source_Vec64 : Prop :=
  (forall a b n, s_linspace a b n = linspace a b n) /\
  (forall a b n p, s_powspace powf a b n p = powspace powf a b n p) /\
  (forall v p, s_norm_p fabs powf v p = norm_p fabs powf v p) /\
  (forall v, (forall y : T A, powf y (add one one) = mul y y) -> s_norm_2 fabs powf v = Ok (norm_2 fabs v)) /\
  (forall v, s_norm_inf fabs v = norm_inf fabs v).
Lemma model_is_source_Vec64_lemma : model_is_source_Vec64.
Proof. exact (conj src_linspace (conj src_powspace (conj src_norm_p (conj src_norm_2 src_norm_inf)))). Qed.

End SrcEqVec64.
