(* Proofs/MeshStore.v -- the storage laws of Model/Mesh.v: what is written is what is read back
   (1-D and 2-D, guarded and unguarded accessors), guard halves, cross sections, var_as_matrix,
   assign, apply, and the lifting of the single-write laws to any sequence of writes.
   Pure storage facts: no law on the arithmetic [A] is used. *)
From Coq Require Import List Arith Lia Bool.
From OV Require Import Base.Panic.
From OV Require Import Base.Arith.
From OV Require Import Model.Vector.
From OV Require Import Model.Matrix.
From OV Require Import Model.Mesh.
From OV Require Import Proofs.MeshBase.
Import ListNotations.

(* ------------------------------------------------------------------ flat indices *)
Lemma idx_lt i j nx ny : i < nx -> j < ny -> i * ny + j < nx * ny.
Proof. nia. Qed.

Lemma idx_inj ny i j i' j' :
  j < ny -> j' < ny -> i * ny + j = i' * ny + j' -> i = i' /\ j = j'.
Proof.
  intros Hj Hj' E.
  assert (Hi : i = i').
  { apply (f_equal (fun x => x / ny)) in E.
    rewrite !Nat.div_add_l, !Nat.div_small in E by lia. lia. }
  subst i'. split; [reflexivity | lia].
Qed.

Lemma idx_eqb ny i j i' j' :
  j < ny -> j' < ny -> (i * ny + j =? i' * ny + j') = (i =? i') && (j =? j').
Proof.
  intros Hj Hj'.
  destruct (Nat.eqb_spec (i * ny + j) (i' * ny + j')) as [E|E].
  - apply idx_inj in E as [-> ->]; auto. now rewrite !Nat.eqb_refl.
  - destruct (Nat.eqb_spec i i') as [->|Hi]; [|reflexivity].
    destruct (Nat.eqb_spec j j') as [->|Hjj]; [|reflexivity].
    now contradiction E.
Qed.

(* ------------------------------------------------------------------ loops *)
(* for_inv followed by a consequence of the final invariant (lets [apply] read the loop body
   off the goal) *)
Lemma for_inv_post {S} (I : nat -> S -> Prop) (Q : S -> Prop) lo hi body (s : S) :
  lo <= hi -> I lo s ->
  (forall i s, lo <= i < hi -> I i s -> exists s', body i s = Ok s' /\ I (Datatypes.S i) s') ->
  (forall s', I hi s' -> Q s') ->
  exists s', for_ lo hi body s = Ok s' /\ Q s'.
Proof.
  intros Hle H0 Hstep Hpost.
  destruct (for_inv I lo hi body s Hle H0 Hstep) as (s' & E & H).
  exists s'. split; [exact E | now apply Hpost].
Qed.

(* ------------------------------------------------------------------ list facts *)
Section ListFacts.
Context {Y : Type}.

Lemma rd_repeat (x : Y) n i : i < n -> rd (repeat x n) i = Ok x.
Proof.
  unfold rd. revert i; induction n as [|n IH]; intros i Hi; [lia|].
  destruct i as [|i]; cbn [repeat nth_error]; [reflexivity|]. apply IH; lia.
Qed.

Lemma rd_upd_list (l : list Y) i j v :
  i < length l -> rd (upd_list l i v) j = if i =? j then Ok v else rd l j.
Proof.
  intros Hi. unfold rd. rewrite nth_error_upd_list by exact Hi.
  rewrite (Nat.eqb_sym j i). destruct (i =? j); reflexivity.
Qed.

Lemma Forall_upd_list (P : Y -> Prop) l i v :
  Forall P l -> P v -> Forall P (upd_list l i v).
Proof.
  intros Hl Hv. revert i; induction Hl as [|h t Hh Ht IH]; intros i.
  - cbn. constructor.
  - destruct i as [|i]; cbn [upd_list]; constructor; auto.
Qed.

Lemma upd_list_twice (l : list Y) i a b : upd_list (upd_list l i a) i b = upd_list l i b.
Proof.
  revert i; induction l as [|h t IH]; intros [|i]; cbn [upd_list]; auto. now rewrite IH.
Qed.

Lemma upd_list_nth_id (l : list Y) i d : upd_list l i (nth i l d) = l.
Proof.
  revert i; induction l as [|h t IH]; intros [|i]; cbn [upd_list nth]; auto. now rewrite IH.
Qed.

(* a list being overwritten front to back by one value *)
Lemma fill_step (a : Y) l k : k < length l ->
  upd_list (repeat a k ++ skipn k l) k a = repeat a (S k) ++ skipn (S k) l.
Proof.
  revert l; induction k as [|k IH]; intros [|h t] Hk; cbn [length] in Hk; try lia.
  - reflexivity.
  - change (upd_list (repeat a (S k) ++ skipn (S k) (h :: t)) (S k) a)
      with (a :: upd_list (repeat a k ++ skipn k t) k a).
    rewrite IH by lia. reflexivity.
Qed.

Lemma nth0_skipn (l : list Y) k d : nth 0 (skipn k l) d = nth k l d.
Proof.
  revert l; induction k as [|k IH]; intros [|h t]; cbn [skipn nth]; auto.
Qed.

Lemma nth_fill (a : Y) l k d : nth k (repeat a k ++ skipn k l) d = nth k l d.
Proof.
  rewrite app_nth2; rewrite repeat_length; [|lia].
  rewrite Nat.sub_diag. apply nth0_skipn.
Qed.

Lemma fill_length (a : Y) l k : k <= length l -> length (repeat a k ++ skipn k l) = length l.
Proof. intros H. rewrite app_length, repeat_length, skipn_length. lia. Qed.

Lemma Forall_fill (P : Y -> Prop) (a : Y) l k :
  P a -> Forall P l -> Forall P (repeat a k ++ skipn k l).
Proof.
  intros Ha Hl. apply Forall_app. split.
  - apply Forall_forall. intros y Hy. apply repeat_spec in Hy. now subst y.
  - rewrite Forall_forall in *. intros y Hy. apply Hl.
    rewrite <- (firstn_skipn k l). apply in_or_app. now right.
Qed.

Lemma Forall_nth_lt (P : Y -> Prop) l k d : Forall P l -> k < length l -> P (nth k l d).
Proof. intros H Hk. rewrite Forall_forall in H. apply H. now apply nth_In. Qed.

End ListFacts.

Section Store.
Context {A : Arith} {X : Type}.
Notation mesh1 := (mesh1 A X).
Notation mesh2 := (mesh2 A X).

(* ================================================================== 1. new *)
Lemma mesh1_new_wf (nodes : list X) nvars : wf1 (mesh1_new (A:=A) nodes nvars).
Proof.
  unfold wf1, mesh1_new; cbn [m1_vars m1_nodes m1_nvars]. split.
  - apply repeat_length.
  - apply Forall_forall. intros r Hr. apply repeat_spec in Hr. subst r. apply repeat_length.
Qed.

Lemma mesh1_new_get (nodes : list X) nvars node :
  node < length nodes ->
  get_nodes_vars1 (mesh1_new (A:=A) nodes nvars) node = Ok (repeat zero nvars).
Proof.
  intros H. unfold get_nodes_vars1, mesh1_new; cbn [m1_vars m1_nodes m1_nvars].
  destruct (Nat.leb_spec (length nodes) node) as [Hle|_]; [lia|].
  now apply rd_repeat.
Qed.

Lemma range_guard2_ok (m : mesh2) i j :
  i < m2_nx m -> j < m2_ny m -> range_guard2 m i j = Ok tt.
Proof.
  intros Hi Hj. unfold range_guard2, usub.
  destruct (Nat.leb_spec 1 (m2_nx m)) as [_|H]; [|lia]. cbn [bind].
  destruct (Nat.ltb_spec (m2_nx m - 1) i) as [H|_]; [lia|].
  destruct (Nat.leb_spec 1 (m2_ny m)) as [_|H]; [|lia]. cbn [bind].
  destruct (Nat.ltb_spec (m2_ny m - 1) j) as [H|_]; [lia|]. reflexivity.
Qed.

Lemma mesh2_new_wf (xs ys : list X) nvars : wf2 (mesh2_new (A:=A) xs ys nvars).
Proof.
  unfold wf2, mesh2_new; cbn [m2_vars m2_nx m2_ny m2_x m2_y m2_nvars].
  repeat split.
  - apply repeat_length.
  - apply Forall_forall. intros r Hr. apply repeat_spec in Hr. subst r. apply repeat_length.
Qed.

Lemma mesh2_new_get (xs ys : list X) nvars i j :
  i < length xs -> j < length ys ->
  get_nodes_vars2 (mesh2_new (A:=A) xs ys nvars) i j = Ok (repeat zero nvars).
Proof.
  intros Hi Hj. unfold get_nodes_vars2.
  rewrite range_guard2_ok by (cbn; assumption). cbn [bind].
  cbn [mesh2_new m2_vars m2_ny]. apply rd_repeat. now apply idx_lt.
Qed.

(* ================================================================== 2. Mesh1D: write / read *)

(* inside the range the guarded read is the unguarded one *)
Lemma get_nodes_vars1_index1 (m : mesh1) node :
  node < nnodes1 m -> get_nodes_vars1 m node = index1 m node.
Proof.
  unfold nnodes1, get_nodes_vars1, index1. intros H.
  destruct (Nat.leb_spec (length (m1_nodes m)) node) as [Hle|_]; [lia|]. reflexivity.
Qed.

Lemma get_nodes_vars1_guard (m : mesh1) node :
  nnodes1 m <= node -> get_nodes_vars1 m node = Panic Guard.
Proof.
  unfold nnodes1, get_nodes_vars1. intros H.
  destruct (Nat.leb_spec (length (m1_nodes m)) node) as [_|Hlt]; [reflexivity|lia].
Qed.

Lemma set_nodes_vars1_guard (m : mesh1) node v :
  nnodes1 m <= node \/ length v <> m1_nvars m -> set_nodes_vars1 m node v = Panic Guard.
Proof.
  unfold nnodes1, set_nodes_vars1. intros H.
  destruct (Nat.leb_spec (length (m1_nodes m)) node) as [_|Hlt]; [reflexivity|].
  destruct (Nat.eqb_spec (length v) (m1_nvars m)) as [E|_]; [lia|]. reflexivity.
Qed.

(* inside the range and with the right length, the guarded write is the unguarded one *)
Lemma set_nodes_vars1_index1_set (m : mesh1) node v :
  node < nnodes1 m -> length v = m1_nvars m -> set_nodes_vars1 m node v = index1_set m node v.
Proof.
  unfold nnodes1, set_nodes_vars1, index1_set. intros H Hv.
  destruct (Nat.leb_spec (length (m1_nodes m)) node) as [Hle|_]; [lia|].
  destruct (Nat.eqb_spec (length v) (m1_nvars m)) as [_|E]; [|contradiction]. reflexivity.
Qed.

Lemma index1_ok (m : mesh1) node :
  wf1 m -> node < nnodes1 m ->
  index1 m node = Ok (nth node (m1_vars m) []) /\ length (nth node (m1_vars m) []) = m1_nvars m.
Proof.
  unfold nnodes1, index1. intros [Hlen Hall] H. split.
  - apply rd_ok; lia.
  - apply (Forall_nth_lt _ _ _ _ Hall). lia.
Qed.

(* mesh[node] = v *)
Lemma index1_set_spec (m : mesh1) node v :
  wf1 m -> node < nnodes1 m -> length v = m1_nvars m ->
  exists m', index1_set m node v = Ok m' /\ wf1 m' /\
    m1_nodes m' = m1_nodes m /\ m1_nvars m' = m1_nvars m /\
    (forall node', index1 m' node' = if node =? node' then Ok v else index1 m node') /\
    (forall node', node' < nnodes1 m ->
       get_nodes_vars1 m' node' = if node =? node' then Ok v else get_nodes_vars1 m node').
Proof.
  intros Hwf Hn Hv. pose proof Hwf as [Hlen Hall]. unfold nnodes1 in Hn.
  exists (mkM1 (m1_nvars m) (m1_nodes m) (upd_list (m1_vars m) node v)).
  assert (Hidx : forall node',
    index1 (mkM1 (m1_nvars m) (m1_nodes m) (upd_list (m1_vars m) node v)) node' =
    if node =? node' then Ok v else index1 m node').
  { intros node'. unfold index1; cbn [m1_vars]. apply rd_upd_list. lia. }
  split; [|split; [|split; [|split; [|split]]]].
  - unfold index1_set. rewrite upd_ok by lia. reflexivity.
  - split; cbn [m1_vars m1_nodes m1_nvars].
    + now rewrite upd_list_length.
    + now apply Forall_upd_list.
  - reflexivity.
  - reflexivity.
  - exact Hidx.
  - intros node' Hn'. rewrite !get_nodes_vars1_index1; [apply Hidx | exact Hn' | exact Hn'].
Qed.

(* set_nodes_vars then get_nodes_vars *)
Lemma mesh1_get_set (m : mesh1) node v :
  wf1 m -> node < nnodes1 m -> length v = m1_nvars m ->
  exists m', set_nodes_vars1 m node v = Ok m' /\ wf1 m' /\
    m1_nodes m' = m1_nodes m /\ m1_nvars m' = m1_nvars m /\
    (forall node', node' < nnodes1 m ->
       get_nodes_vars1 m' node' = if node =? node' then Ok v else get_nodes_vars1 m node') /\
    (forall node', index1 m' node' = if node =? node' then Ok v else index1 m node').
Proof.
  intros Hwf Hn Hv.
  destruct (index1_set_spec m node v Hwf Hn Hv) as (m' & E & Hwf' & Hnodes & Hnv & Hidx & Hget).
  exists m'. rewrite set_nodes_vars1_index1_set by assumption. auto 10.
Qed.

(* mesh[node][var] = x *)
Lemma index1_set_elem_spec (m : mesh1) node var x old_row :
  wf1 m -> node < nnodes1 m -> var < m1_nvars m -> index1 m node = Ok old_row ->
  exists m', index1_set_elem m node var x = Ok m' /\ wf1 m' /\
    m1_nodes m' = m1_nodes m /\ m1_nvars m' = m1_nvars m /\
    (forall node', index1 m' node' =
       if node =? node' then Ok (upd_list old_row var x) else index1 m node') /\
    (forall node', node' < nnodes1 m ->
       get_nodes_vars1 m' node' =
       if node =? node' then Ok (upd_list old_row var x) else get_nodes_vars1 m node').
Proof.
  intros Hwf Hn Hvar Hold.
  destruct (index1_ok m node Hwf Hn) as [E Hlen]. rewrite E in Hold. injection Hold as <-.
  destruct (index1_set_spec m node (upd_list (nth node (m1_vars m) []) var x) Hwf Hn)
    as (m' & E' & Hrest).
  { now rewrite upd_list_length. }
  exists m'. split; [|exact Hrest].
  unfold index1_set_elem. unfold index1 in E. rewrite E. cbn [bind].
  rewrite upd_ok by lia. cbn [bind]. exact E'.
Qed.

(* ================================================================== 3. Mesh2D: write / read *)

Definition shape2_eq (m' m : mesh2) : Prop :=
  m2_nvars m' = m2_nvars m /\ m2_nx m' = m2_nx m /\ m2_ny m' = m2_ny m /\
  m2_x m' = m2_x m /\ m2_y m' = m2_y m.

Lemma shape2_eq_with_vars (m : mesh2) vs : shape2_eq (with_vars2 m vs) m.
Proof. unfold shape2_eq, with_vars2; cbn. auto. Qed.

Lemma shape2_eq_trans (m1 m2 m3 : mesh2) : shape2_eq m1 m2 -> shape2_eq m2 m3 -> shape2_eq m1 m3.
Proof. unfold shape2_eq. intuition congruence. Qed.

Lemma wf2_with_vars (m : mesh2) vs :
  wf2 m -> length vs = m2_nx m * m2_ny m -> Forall (fun r => length r = m2_nvars m) vs ->
  wf2 (with_vars2 m vs).
Proof.
  intros (Hx & Hy & _ & _) Hlen Hall. unfold wf2, with_vars2; cbn. auto.
Qed.

(* the precise failure of the range test: Underflow when the mesh has no node in the
   direction tested (checked nx - 1 / ny - 1), Guard otherwise *)
Lemma range_guard2_panic (m : mesh2) i j :
  m2_nx m <= i \/ m2_ny m <= j ->
  exists k, range_guard2 m i j = Panic k /\ (k = Guard \/ k = Underflow).
Proof.
  intros H. unfold range_guard2, usub.
  destruct (Nat.leb_spec 1 (m2_nx m)) as [Hx|Hx]; cbn [bind]; [|eauto].
  destruct (Nat.ltb_spec (m2_nx m - 1) i) as [Hi|Hi]; [eauto|].
  destruct (Nat.leb_spec 1 (m2_ny m)) as [Hy|Hy]; cbn [bind]; [|eauto].
  destruct (Nat.ltb_spec (m2_ny m - 1) j) as [Hj|Hj]; [eauto|]. lia.
Qed.

Lemma range_guard2_guard (m : mesh2) i j :
  0 < m2_nx m -> 0 < m2_ny m -> m2_nx m <= i \/ m2_ny m <= j ->
  range_guard2 m i j = Panic Guard.
Proof.
  intros Hx Hy H. unfold range_guard2, usub.
  destruct (Nat.leb_spec 1 (m2_nx m)) as [_|Hx']; [|lia]. cbn [bind].
  destruct (Nat.ltb_spec (m2_nx m - 1) i) as [Hi|Hi]; [reflexivity|].
  destruct (Nat.leb_spec 1 (m2_ny m)) as [_|Hy']; [|lia]. cbn [bind].
  destruct (Nat.ltb_spec (m2_ny m - 1) j) as [Hj|Hj]; [reflexivity|]. lia.
Qed.

Lemma get_nodes_vars2_guard (m : mesh2) i j :
  m2_nx m <= i \/ m2_ny m <= j ->
  exists k, get_nodes_vars2 m i j = Panic k /\ (k = Guard \/ k = Underflow).
Proof.
  intros H. destruct (range_guard2_panic m i j H) as (k & E & Hk).
  exists k. unfold get_nodes_vars2. rewrite E. auto.
Qed.

Lemma set_nodes_vars2_guard (m : mesh2) i j v :
  m2_nx m <= i \/ m2_ny m <= j ->
  exists k, set_nodes_vars2 m i j v = Panic k /\ (k = Guard \/ k = Underflow).
Proof.
  intros H. destruct (range_guard2_panic m i j H) as (k & E & Hk).
  exists k. unfold set_nodes_vars2. rewrite E. auto.
Qed.

(* on a mesh with nodes in both directions the failure is the explicit guard *)
Lemma get_nodes_vars2_guard_nonempty (m : mesh2) i j :
  0 < m2_nx m -> 0 < m2_ny m -> m2_nx m <= i \/ m2_ny m <= j ->
  get_nodes_vars2 m i j = Panic Guard.
Proof.
  intros Hx Hy H. unfold get_nodes_vars2. now rewrite range_guard2_guard.
Qed.

Lemma set_nodes_vars2_guard_nonempty (m : mesh2) i j v :
  0 < m2_nx m -> 0 < m2_ny m -> m2_nx m <= i \/ m2_ny m <= j ->
  set_nodes_vars2 m i j v = Panic Guard.
Proof.
  intros Hx Hy H. unfold set_nodes_vars2. now rewrite range_guard2_guard.
Qed.

(* the nvars guard of set_nodes_vars (after the range test) *)
Lemma set_nodes_vars2_guard_len (m : mesh2) i j v :
  i < m2_nx m -> j < m2_ny m -> length v <> m2_nvars m ->
  set_nodes_vars2 m i j v = Panic Guard.
Proof.
  intros Hi Hj Hv. unfold set_nodes_vars2. rewrite range_guard2_ok by assumption. cbn [bind].
  destruct (Nat.eqb_spec (length v) (m2_nvars m)) as [E|_]; [contradiction|]. reflexivity.
Qed.

Lemma get_nodes_vars2_index2 (m : mesh2) i j :
  i < m2_nx m -> j < m2_ny m -> get_nodes_vars2 m i j = index2 m i j.
Proof.
  intros Hi Hj. unfold get_nodes_vars2, index2. now rewrite range_guard2_ok.
Qed.

Lemma set_nodes_vars2_index2_set (m : mesh2) i j v :
  i < m2_nx m -> j < m2_ny m -> length v = m2_nvars m ->
  set_nodes_vars2 m i j v = index2_set m i j v.
Proof.
  intros Hi Hj Hv. unfold set_nodes_vars2, index2_set. rewrite range_guard2_ok by assumption.
  cbn [bind]. destruct (Nat.eqb_spec (length v) (m2_nvars m)) as [_|E]; [|contradiction].
  reflexivity.
Qed.

Lemma index2_ok (m : mesh2) i j :
  wf2 m -> i < m2_nx m -> j < m2_ny m ->
  index2 m i j = Ok (nth (i * m2_ny m + j) (m2_vars m) []) /\
  length (nth (i * m2_ny m + j) (m2_vars m) []) = m2_nvars m.
Proof.
  intros (_ & _ & Hlen & Hall) Hi Hj.
  pose proof (idx_lt i j _ _ Hi Hj) as Hk. unfold index2. split.
  - apply rd_ok; lia.
  - apply (Forall_nth_lt _ _ _ _ Hall). lia.
Qed.

Lemma get_nodes_vars2_ok (m : mesh2) i j :
  wf2 m -> i < m2_nx m -> j < m2_ny m ->
  get_nodes_vars2 m i j = Ok (nth (i * m2_ny m + j) (m2_vars m) []) /\
  length (nth (i * m2_ny m + j) (m2_vars m) []) = m2_nvars m.
Proof.
  intros Hwf Hi Hj. rewrite get_nodes_vars2_index2 by assumption. now apply index2_ok.
Qed.

(* replacing the variable vector of node (i,j) : the common core of the three writes *)
Lemma with_vars2_upd_spec (m : mesh2) i j v :
  wf2 m -> i < m2_nx m -> j < m2_ny m -> length v = m2_nvars m ->
  let m' := with_vars2 m (upd_list (m2_vars m) (i * m2_ny m + j) v) in
  wf2 m' /\ shape2_eq m' m /\
  (forall i' j', i' < m2_nx m -> j' < m2_ny m ->
     index2 m' i' j' = if (i =? i') && (j =? j') then Ok v else index2 m i' j') /\
  (forall i' j', i' < m2_nx m -> j' < m2_ny m ->
     get_nodes_vars2 m' i' j' = if (i =? i') && (j =? j') then Ok v else get_nodes_vars2 m i' j').
Proof.
  intros Hwf Hi Hj Hv m'. pose proof Hwf as (Hx & Hy & Hlen & Hall).
  pose proof (idx_lt i j _ _ Hi Hj) as Hk.
  assert (Hidx : forall i' j', i' < m2_nx m -> j' < m2_ny m ->
     index2 m' i' j' = if (i =? i') && (j =? j') then Ok v else index2 m i' j').
  { intros i' j' Hi' Hj'. unfold index2, m'; cbn [with_vars2 m2_vars m2_ny].
    rewrite rd_upd_list by lia. now rewrite idx_eqb by assumption. }
  split; [|split; [|split]].
  - apply wf2_with_vars; auto.
    + now rewrite upd_list_length.
    + now apply Forall_upd_list.
  - apply shape2_eq_with_vars.
  - exact Hidx.
  - intros i' j' Hi' Hj'.
    rewrite (get_nodes_vars2_index2 m') by (unfold m'; cbn; assumption).
    rewrite (get_nodes_vars2_index2 m) by assumption. now apply Hidx.
Qed.

(* mesh[(i,j)] = v *)
Lemma index2_set_spec (m : mesh2) i j v :
  wf2 m -> i < m2_nx m -> j < m2_ny m -> length v = m2_nvars m ->
  exists m', index2_set m i j v = Ok m' /\ wf2 m' /\ shape2_eq m' m /\
    (forall i' j', i' < m2_nx m -> j' < m2_ny m ->
       index2 m' i' j' = if (i =? i') && (j =? j') then Ok v else index2 m i' j') /\
    (forall i' j', i' < m2_nx m -> j' < m2_ny m ->
       get_nodes_vars2 m' i' j' =
       if (i =? i') && (j =? j') then Ok v else get_nodes_vars2 m i' j').
Proof.
  intros Hwf Hi Hj Hv. pose proof Hwf as (Hx & Hy & Hlen & Hall).
  pose proof (idx_lt i j _ _ Hi Hj) as Hk.
  exists (with_vars2 m (upd_list (m2_vars m) (i * m2_ny m + j) v)). split.
  - unfold index2_set. rewrite upd_ok by lia. reflexivity.
  - now apply with_vars2_upd_spec.
Qed.

(* set_nodes_vars then get_nodes_vars *)
Lemma mesh2_get_set (m : mesh2) i j v :
  wf2 m -> i < m2_nx m -> j < m2_ny m -> length v = m2_nvars m ->
  exists m', set_nodes_vars2 m i j v = Ok m' /\ wf2 m' /\ shape2_eq m' m /\
    (forall i' j', i' < m2_nx m -> j' < m2_ny m ->
       get_nodes_vars2 m' i' j' =
       if (i =? i') && (j =? j') then Ok v else get_nodes_vars2 m i' j') /\
    (forall i' j', i' < m2_nx m -> j' < m2_ny m ->
       index2 m' i' j' = if (i =? i') && (j =? j') then Ok v else index2 m i' j').
Proof.
  intros Hwf Hi Hj Hv.
  destruct (index2_set_spec m i j v Hwf Hi Hj Hv) as (m' & E & Hwf' & Hsh & Hidx & Hget).
  exists m'. rewrite set_nodes_vars2_index2_set by assumption. auto 10.
Qed.

(* vars[k][var] = x *)
Lemma set_elem_ok (vs : list (list A)) k var x :
  k < length vs -> var < length (nth k vs []) ->
  set_elem vs k var x = Ok (upd_list vs k (upd_list (nth k vs []) var x)).
Proof.
  intros Hk Hvar. unfold set_elem. rewrite (rd_ok vs k []) by exact Hk. cbn [bind].
  rewrite upd_ok by exact Hvar. cbn [bind]. now apply upd_ok.
Qed.

(* mesh[(i,j)][var] = x *)
Lemma index2_set_elem_spec (m : mesh2) i j var x old_row :
  wf2 m -> i < m2_nx m -> j < m2_ny m -> var < m2_nvars m -> index2 m i j = Ok old_row ->
  exists m', index2_set_elem m i j var x = Ok m' /\ wf2 m' /\ shape2_eq m' m /\
    (forall i' j', i' < m2_nx m -> j' < m2_ny m ->
       index2 m' i' j' =
       if (i =? i') && (j =? j') then Ok (upd_list old_row var x) else index2 m i' j') /\
    (forall i' j', i' < m2_nx m -> j' < m2_ny m ->
       get_nodes_vars2 m' i' j' =
       if (i =? i') && (j =? j') then Ok (upd_list old_row var x) else get_nodes_vars2 m i' j').
Proof.
  intros Hwf Hi Hj Hvar Hold. pose proof Hwf as (Hx & Hy & Hlen & Hall).
  pose proof (idx_lt i j _ _ Hi Hj) as Hk.
  destruct (index2_ok m i j Hwf Hi Hj) as [E Hrow]. rewrite E in Hold. injection Hold as <-.
  exists (with_vars2 m (upd_list (m2_vars m) (i * m2_ny m + j)
            (upd_list (nth (i * m2_ny m + j) (m2_vars m) []) var x))). split.
  - unfold index2_set_elem. rewrite set_elem_ok by lia. reflexivity.
  - apply with_vars2_upd_spec; auto. now rewrite upd_list_length.
Qed.


(* ================================================================== 4. cross sections *)
Lemma cross_section_xnode_spec (m : mesh2) i :
  wf2 m -> i < m2_nx m ->
  exists s, cross_section_xnode m i = Ok s /\ wf1 s /\ m1_nodes s = m2_y m /\
    m1_nvars s = m2_nvars m /\
    forall j, j < m2_ny m -> get_nodes_vars1 s j = get_nodes_vars2 m i j.
Proof.
  intros Hwf Hi. pose proof Hwf as (Hx & Hy & Hlen & Hall).
  unfold cross_section_xnode.
  apply (for_inv_post (fun k (s : mesh1) =>
           wf1 s /\ m1_nodes s = m2_y m /\ m1_nvars s = m2_nvars m /\
           forall j, j < k -> get_nodes_vars1 s j = get_nodes_vars2 m i j)).
  - lia.
  - split; [apply mesh1_new_wf|]. split; [reflexivity|]. split; [reflexivity|].
    intros j Hj; lia.
  - intros k s [_ Hk] (Hwf1 & Hn & Hnv & Hcopied).
    destruct (get_nodes_vars2_ok m i k Hwf Hi Hk) as [Eg Hrow]. rewrite Eg. cbn [bind].
    assert (Hnn : nnodes1 s = m2_ny m) by (unfold nnodes1; rewrite Hn; lia).
    destruct (mesh1_get_set s k (nth (i * m2_ny m + k) (m2_vars m) []) Hwf1)
      as (s' & E' & Hwf' & Hn' & Hnv' & Hget & _).
    + lia.
    + congruence.
    + exists s'. split; [exact E'|]. split; [exact Hwf'|].
      split; [congruence|]. split; [congruence|].
      intros j Hj. rewrite Hget by lia.
      destruct (Nat.eqb_spec k j) as [<-|Hne].
      * symmetry; exact Eg.
      * apply Hcopied; lia.
  - intros s Hs. exact Hs.
Qed.

Lemma cross_section_ynode_spec (m : mesh2) j :
  wf2 m -> j < m2_ny m ->
  exists s, cross_section_ynode m j = Ok s /\ wf1 s /\ m1_nodes s = m2_x m /\
    m1_nvars s = m2_nvars m /\
    forall i, i < m2_nx m -> get_nodes_vars1 s i = get_nodes_vars2 m i j.
Proof.
  intros Hwf Hj. pose proof Hwf as (Hx & Hy & Hlen & Hall).
  unfold cross_section_ynode.
  apply (for_inv_post (fun k (s : mesh1) =>
           wf1 s /\ m1_nodes s = m2_x m /\ m1_nvars s = m2_nvars m /\
           forall i, i < k -> get_nodes_vars1 s i = get_nodes_vars2 m i j)).
  - lia.
  - split; [apply mesh1_new_wf|]. split; [reflexivity|]. split; [reflexivity|].
    intros i Hi; lia.
  - intros k s [_ Hk] (Hwf1 & Hn & Hnv & Hcopied).
    destruct (get_nodes_vars2_ok m k j Hwf Hk Hj) as [Eg Hrow]. rewrite Eg. cbn [bind].
    assert (Hnn : nnodes1 s = m2_nx m) by (unfold nnodes1; rewrite Hn; lia).
    destruct (mesh1_get_set s k (nth (k * m2_ny m + j) (m2_vars m) []) Hwf1)
      as (s' & E' & Hwf' & Hn' & Hnv' & Hget & _).
    + lia.
    + congruence.
    + exists s'. split; [exact E'|]. split; [exact Hwf'|].
      split; [congruence|]. split; [congruence|].
      intros i Hi. rewrite Hget by lia.
      destruct (Nat.eqb_spec k i) as [<-|Hne].
      * symmetry; exact Eg.
      * apply Hcopied; lia.
  - intros s Hs. exact Hs.
Qed.

(* ================================================================== 5. var_as_matrix *)
Lemma var_as_matrix_guard (m : mesh2) var :
  m2_nvars m <= var -> var_as_matrix m var = Panic Guard.
Proof.
  intros H. unfold var_as_matrix.
  destruct (Nat.leb_spec (m2_nvars m) var) as [_|Hlt]; [reflexivity|lia].
Qed.

(* component var of node (i,j), read through the guarded accessor *)
Lemma entry2_ok (m : mesh2) var i j :
  wf2 m -> var < m2_nvars m -> i < m2_nx m -> j < m2_ny m ->
  let row := nth (i * m2_ny m + j) (m2_vars m) [] in
  rd (m2_vars m) (i * m2_ny m + j) = Ok row /\ rd row var = Ok (nth var row zero) /\
  (let* r := get_nodes_vars2 m i j in rd r var) = Ok (nth var row zero).
Proof.
  intros Hwf Hvar Hi Hj row.
  destruct (index2_ok m i j Hwf Hi Hj) as [E Hrow]. fold row in E, Hrow.
  assert (Erd : rd row var = Ok (nth var row zero)) by (apply rd_ok; lia).
  split; [exact E|]. split; [exact Erd|].
  rewrite get_nodes_vars2_index2 by assumption. rewrite E. cbn [bind]. exact Erd.
Qed.

Lemma var_as_matrix_spec (m : mesh2) var :
  wf2 m -> var < m2_nvars m ->
  exists M, var_as_matrix m var = Ok M /\ rows M = m2_nx m /\ cols M = m2_ny m /\
    length (buf M) = m2_nx m * m2_ny m /\
    forall i j, i < m2_nx m -> j < m2_ny m ->
      mget M i j = (let* r := get_nodes_vars2 m i j in rd r var).
Proof.
  intros Hwf Hvar. unfold var_as_matrix.
  destruct (Nat.leb_spec (m2_nvars m) var) as [Hle|_]; [lia|].
  apply (for_inv_post (fun i (M : matrix A) =>
           rows M = m2_nx m /\ cols M = m2_ny m /\ length (buf M) = m2_nx m * m2_ny m /\
           forall i' j', i' < i -> j' < m2_ny m ->
             mget M i' j' = (let* r := get_nodes_vars2 m i' j' in rd r var))).
  - lia.
  - unfold mat_new; cbn [rows cols buf]. repeat split; auto.
    + apply repeat_length.
    + intros i' j' Hi'; lia.
  - intros i M0 [_ Hi] (Hr0 & Hc0 & Hb0 & Hdone0).
    apply (for_inv_post (fun j (M : matrix A) =>
           rows M = m2_nx m /\ cols M = m2_ny m /\ length (buf M) = m2_nx m * m2_ny m /\
           forall i' j', i' < m2_nx m -> j' < m2_ny m -> i' < i \/ (i' = i /\ j' < j) ->
             mget M i' j' = (let* r := get_nodes_vars2 m i' j' in rd r var))).
    + lia.
    + split; [exact Hr0|]. split; [exact Hc0|]. split; [exact Hb0|].
      intros i' j' Hi' Hj' [Hlt|[_ Hlt]]; [|lia]. now apply Hdone0.
    + intros j M [_ Hj] (Hr & Hc & Hb & Hdone).
      destruct (entry2_ok m var i j Hwf Hvar Hi Hj) as (E1 & E2 & E3).
      rewrite E1. cbn [bind]. rewrite E2. cbn [bind].
      pose proof (idx_lt i j _ _ Hi Hj) as Hk.
      unfold mset. rewrite upd_ok by (rewrite Hc; lia). cbn [bind].
      eexists. split; [reflexivity|]. cbn [rows cols buf].
      split; [exact Hr|]. split; [exact Hc|]. split; [now rewrite upd_list_length|].
      intros i' j' Hi' Hj' Hvis. unfold mget; cbn [buf cols]. rewrite Hc.
      rewrite rd_upd_list by lia. rewrite idx_eqb by assumption.
      destruct (Nat.eqb_spec i i') as [<-|Hni]; cbn [andb].
      * destruct (Nat.eqb_spec j j') as [<-|Hnj].
        -- symmetry; exact E3.
        -- specialize (Hdone i j' Hi' Hj'). unfold mget in Hdone. rewrite Hc in Hdone.
           apply Hdone. lia.
      * specialize (Hdone i' j' Hi' Hj'). unfold mget in Hdone. rewrite Hc in Hdone.
        apply Hdone. lia.
    + intros M (Hr & Hc & Hb & Hdone). split; [exact Hr|]. split; [exact Hc|].
      split; [exact Hb|]. intros i' j' Hi' Hj'. apply Hdone; lia.
  - intros M (Hr & Hc & Hb & Hdone). auto.
Qed.

(* ================================================================== 6. assign *)

(* the innermost loop of assign: row k is overwritten front to back *)
Lemma fill_row_loop (vs : list (list A)) k n x :
  k < length vs -> length (nth k vs []) = n ->
  for_ 0 n (fun v vs => set_elem vs k v x) vs = Ok (upd_list vs k (repeat x n)).
Proof.
  intros Hk Hn. set (row := nth k vs []) in *.
  destruct (for_inv (fun v vs' => vs' = upd_list vs k (repeat x v ++ skipn v row))
              0 n (fun v vs => set_elem vs k v x) vs) as (vs' & E & H).
  - lia.
  - cbn [repeat app skipn]. unfold row. symmetry. apply upd_list_nth_id.
  - intros v s [_ Hv] ->. set (R := repeat x v ++ skipn v row).
    assert (HR : nth k (upd_list vs k R) [] = R).
    { rewrite nth_upd_list by exact Hk. now rewrite Nat.eqb_refl. }
    assert (HlenR : length R = n) by (unfold R; rewrite fill_length; lia).
    rewrite set_elem_ok.
    + eexists. split; [reflexivity|]. rewrite HR, upd_list_twice. f_equal.
      unfold R. apply fill_step. lia.
    + now rewrite upd_list_length.
    + rewrite HR. lia.
  - rewrite E, H. rewrite skipn_all2 by lia. now rewrite app_nil_r.
Qed.

Lemma assign2_spec (m : mesh2) x :
  wf2 m ->
  exists m', assign2 m x = Ok m' /\ wf2 m' /\ shape2_eq m' m /\
    m2_vars m' = repeat (repeat x (m2_nvars m)) (m2_nx m * m2_ny m) /\
    forall i j, i < m2_nx m -> j < m2_ny m ->
      get_nodes_vars2 m' i j = Ok (repeat x (m2_nvars m)).
Proof.
  intros Hwf. pose proof Hwf as (Hx & Hy & Hlen & Hall).
  set (R := repeat x (m2_nvars m)).
  assert (HR : length R = m2_nvars m) by apply repeat_length.
  assert (Hloop : exists vs',
    for_ 0 (m2_nx m) (fun i vs =>
      for_ 0 (m2_ny m) (fun j vs =>
        for_ 0 (m2_nvars m) (fun v vs => set_elem vs (i * m2_ny m + j) v x) vs) vs) (m2_vars m)
    = Ok vs' /\ vs' = repeat R (m2_nx m * m2_ny m)).
  { apply (for_inv_post (fun i vs' =>
             vs' = repeat R (i * m2_ny m) ++ skipn (i * m2_ny m) (m2_vars m))).
    - lia.
    - reflexivity.
    - intros i s0 [_ Hi] ->.
      apply (for_inv_post (fun j vs' =>
             vs' = repeat R (i * m2_ny m + j) ++ skipn (i * m2_ny m + j) (m2_vars m))).
      + lia.
      + now rewrite Nat.add_0_r.
      + intros j s [_ Hj] ->. pose proof (idx_lt i j _ _ Hi Hj) as Hk.
        rewrite fill_row_loop.
        * eexists. split; [reflexivity|]. fold R.
          replace (i * m2_ny m + S j) with (S (i * m2_ny m + j)) by lia.
          apply fill_step. lia.
        * rewrite fill_length; lia.
        * rewrite nth_fill. apply (Forall_nth_lt _ _ _ _ Hall). lia.
      + intros s ->. f_equal; f_equal; lia.
    - intros s ->. rewrite skipn_all2 by lia. apply app_nil_r. }
  destruct Hloop as (vs' & E & ->).
  exists (with_vars2 m (repeat R (m2_nx m * m2_ny m))).
  assert (Hwf' : wf2 (with_vars2 m (repeat R (m2_nx m * m2_ny m)))).
  { apply wf2_with_vars; auto.
    - apply repeat_length.
    - apply Forall_forall. intros r Hr. apply repeat_spec in Hr. now subst r. }
  split; [unfold assign2; rewrite E; reflexivity|].
  split; [exact Hwf'|]. split; [apply shape2_eq_with_vars|]. split; [reflexivity|].
  intros i j Hi Hj. rewrite get_nodes_vars2_index2 by (cbn; assumption).
  unfold index2; cbn [with_vars2 m2_vars m2_ny]. apply rd_repeat. now apply idx_lt.
Qed.

(* ================================================================== 7. apply *)
Lemma apply2_spec (func : X -> X -> res A) (f : nat -> nat -> A) (m : mesh2) var :
  wf2 m -> var < m2_nvars m ->
  (forall i j, i < m2_nx m -> j < m2_ny m ->
     exists x y, nth_error (m2_x m) i = Some x /\ nth_error (m2_y m) j = Some y /\
                 func x y = Ok (f i j)) ->
  exists m', apply2 func m var = Ok m' /\ wf2 m' /\ shape2_eq m' m /\
    forall i j, i < m2_nx m -> j < m2_ny m ->
      exists r, get_nodes_vars2 m i j = Ok r /\
                get_nodes_vars2 m' i j = Ok (upd_list r var (f i j)).
Proof.
  intros Hwf Hvar Hf. pose proof Hwf as (Hx & Hy & Hlen & Hall).
  set (Inv := fun K (vs' : list (list A)) =>
     length vs' = m2_nx m * m2_ny m /\ Forall (fun r => length r = m2_nvars m) vs' /\
     forall i' j', i' < m2_nx m -> j' < m2_ny m ->
       nth (i' * m2_ny m + j') vs' [] =
       if i' * m2_ny m + j' <? K
       then upd_list (nth (i' * m2_ny m + j') (m2_vars m) []) var (f i' j')
       else nth (i' * m2_ny m + j') (m2_vars m) []).
  assert (Hloop : exists vs',
    for_ 0 (m2_nx m) (fun i vs =>
      let* x := rd (m2_x m) i in
      for_ 0 (m2_ny m) (fun j vs =>
        let* y := rd (m2_y m) j in
        let* v := func x y in
        set_elem vs (i * m2_ny m + j) var v) vs) (m2_vars m)
    = Ok vs' /\ Inv (m2_nx m * m2_ny m) vs').
  { apply (for_inv_post (fun i vs' => Inv (i * m2_ny m) vs')).
    - lia.
    - split; [exact Hlen|]. split; [exact Hall|]. intros i' j' _ _.
      destruct (Nat.ltb_spec (i' * m2_ny m + j') (0 * m2_ny m)) as [H|_]; [lia|reflexivity].
    - intros i s0 [_ Hi] Hs0.
      destruct (nth_error (m2_x m) i) as [x|] eqn:Ex.
      2:{ apply nth_error_None in Ex. lia. }
      unfold rd at 1. rewrite Ex. cbn [bind].
      apply (for_inv_post (fun j vs' => Inv (i * m2_ny m + j) vs')).
      + lia.
      + now rewrite Nat.add_0_r.
      + intros j s [_ Hj] (Hsl & Hsall & Hsnth).
        pose proof (idx_lt i j _ _ Hi Hj) as Hk.
        destruct (Hf i j Hi Hj) as (x' & y & Ex' & Ey & Efun).
        rewrite Ex in Ex'. injection Ex' as <-.
        unfold rd at 1. rewrite Ey. cbn [bind]. rewrite Efun. cbn [bind].
        assert (Hrow : length (nth (i * m2_ny m + j) s []) = m2_nvars m).
        { apply (Forall_nth_lt _ _ _ _ Hsall). lia. }
        rewrite set_elem_ok by lia.
        eexists. split; [reflexivity|]. split; [|split].
        * now rewrite upd_list_length.
        * apply Forall_upd_list; [exact Hsall|]. now rewrite upd_list_length.
        * intros i' j' Hi' Hj'. rewrite nth_upd_list by lia.
          destruct (Nat.eqb_spec (i' * m2_ny m + j') (i * m2_ny m + j)) as [E|Hne].
          -- apply idx_inj in E as [-> ->]; [|assumption|assumption].
             rewrite (Hsnth i j Hi Hj).
             destruct (Nat.ltb_spec (i * m2_ny m + j) (i * m2_ny m + j)) as [H|_]; [lia|].
             destruct (Nat.ltb_spec (i * m2_ny m + j) (i * m2_ny m + S j)) as [_|H]; [|lia].
             reflexivity.
          -- rewrite (Hsnth i' j' Hi' Hj').
             destruct (Nat.ltb_spec (i' * m2_ny m + j') (i * m2_ny m + j)) as [H1|H1];
             destruct (Nat.ltb_spec (i' * m2_ny m + j') (i * m2_ny m + S j)) as [H2|H2];
               try lia; reflexivity.
      + intros s Hs. replace (S i * m2_ny m) with (i * m2_ny m + m2_ny m) by lia. exact Hs.
    - intros s Hs. exact Hs. }
  destruct Hloop as (vs' & E & Hl' & Hall' & Hnth').
  exists (with_vars2 m vs').
  split; [unfold apply2; rewrite E; reflexivity|].
  split; [now apply wf2_with_vars|]. split; [apply shape2_eq_with_vars|].
  intros i j Hi Hj. pose proof (idx_lt i j _ _ Hi Hj) as Hk.
  destruct (get_nodes_vars2_ok m i j Hwf Hi Hj) as [Eg _].
  exists (nth (i * m2_ny m + j) (m2_vars m) []). split; [exact Eg|].
  rewrite get_nodes_vars2_index2 by (cbn; assumption).
  unfold index2; cbn [with_vars2 m2_vars m2_ny].
  rewrite (rd_ok vs' _ []) by lia. rewrite (Hnth' i j Hi Hj).
  destruct (Nat.ltb_spec (i * m2_ny m + j) (m2_nx m * m2_ny m)) as [_|H]; [reflexivity|lia].
Qed.


(* ================================================================== 8. any sequence of writes *)

(* ---- 2-D ---- *)
Inductive wop2 :=
| WSet (i j : nat) (v : list A)
| WSetIdx (i j : nat) (v : list A)
| WSetElem (i j var : nat) (x : A)
| WAssign (x : A).

Definition wstep2 (m : mesh2) (o : wop2) : res mesh2 :=
  match o with
  | WSet i j v => set_nodes_vars2 m i j v
  | WSetIdx i j v => index2_set m i j v
  | WSetElem i j var x => index2_set_elem m i j var x
  | WAssign x => assign2 m x
  end.

Definition wrun2 (m : mesh2) (ops : list wop2) : res mesh2 :=
  fold_left (fun r o => let* m := r in wstep2 m o) ops (Ok m).

Definition wvalid2 (m : mesh2) (o : wop2) : Prop :=
  match o with
  | WSet i j v => i < m2_nx m /\ j < m2_ny m /\ length v = m2_nvars m
  | WSetIdx i j v => i < m2_nx m /\ j < m2_ny m /\ length v = m2_nvars m
  | WSetElem i j var _ => i < m2_nx m /\ j < m2_ny m /\ var < m2_nvars m
  | WAssign _ => True
  end.

(* the specification: a mesh is a function from nodes to variable vectors *)
Definition sstep2 (nv : nat) (g : nat -> nat -> list A) (o : wop2) : nat -> nat -> list A :=
  match o with
  | WSet i j v => fun i' j' => if (i =? i') && (j =? j') then v else g i' j'
  | WSetIdx i j v => fun i' j' => if (i =? i') && (j =? j') then v else g i' j'
  | WSetElem i j var x =>
      fun i' j' => if (i =? i') && (j =? j') then upd_list (g i' j') var x else g i' j'
  | WAssign x => fun _ _ => repeat x nv
  end.

Lemma wvalid2_shape (m' m : mesh2) o : shape2_eq m' m -> wvalid2 m o -> wvalid2 m' o.
Proof.
  intros (Hnv & Hnx & Hny & _ & _). destruct o; cbn [wvalid2]; rewrite ?Hnv, ?Hnx, ?Hny; auto.
Qed.

Lemma wstep2_refine (m : mesh2) o g :
  wf2 m -> wvalid2 m o ->
  (forall i j, i < m2_nx m -> j < m2_ny m -> get_nodes_vars2 m i j = Ok (g i j)) ->
  exists m', wstep2 m o = Ok m' /\ wf2 m' /\ shape2_eq m' m /\
    forall i j, i < m2_nx m -> j < m2_ny m ->
      get_nodes_vars2 m' i j = Ok (sstep2 (m2_nvars m) g o i j).
Proof.
  intros Hwf Hval Hg. destruct o as [i j v|i j v|i j var x|x]; cbn [wstep2 sstep2 wvalid2] in *.
  - destruct Hval as (Hi & Hj & Hv).
    destruct (mesh2_get_set m i j v Hwf Hi Hj Hv) as (m' & E & Hwf' & Hsh & Hget & _).
    exists m'. split; [exact E|]. split; [exact Hwf'|]. split; [exact Hsh|].
    intros i' j' Hi' Hj'. rewrite (Hget i' j' Hi' Hj'), (Hg i' j' Hi' Hj').
    destruct ((i =? i') && (j =? j')); reflexivity.
  - destruct Hval as (Hi & Hj & Hv).
    destruct (index2_set_spec m i j v Hwf Hi Hj Hv) as (m' & E & Hwf' & Hsh & _ & Hget).
    exists m'. split; [exact E|]. split; [exact Hwf'|]. split; [exact Hsh|].
    intros i' j' Hi' Hj'. rewrite (Hget i' j' Hi' Hj'), (Hg i' j' Hi' Hj').
    destruct ((i =? i') && (j =? j')); reflexivity.
  - destruct Hval as (Hi & Hj & Hvar).
    assert (Hold : index2 m i j = Ok (g i j)).
    { rewrite <- get_nodes_vars2_index2 by assumption. now apply Hg. }
    destruct (index2_set_elem_spec m i j var x (g i j) Hwf Hi Hj Hvar Hold)
      as (m' & E & Hwf' & Hsh & _ & Hget).
    exists m'. split; [exact E|]. split; [exact Hwf'|]. split; [exact Hsh|].
    intros i' j' Hi' Hj'. rewrite (Hget i' j' Hi' Hj'), (Hg i' j' Hi' Hj').
    destruct (Nat.eqb_spec i i') as [<-|Hni]; cbn [andb]; [|reflexivity].
    destruct (Nat.eqb_spec j j') as [<-|Hnj]; reflexivity.
  - destruct (assign2_spec m x Hwf) as (m' & E & Hwf' & Hsh & _ & Hget).
    exists m'. auto.
Qed.

Lemma wrun2_cons (m : mesh2) o ops :
  wrun2 m (o :: ops) = let* m1 := wstep2 m o in wrun2 m1 ops.
Proof.
  unfold wrun2. cbn [fold_left bind]. destruct (wstep2 m o) as [m1|k]; cbn [bind]; [reflexivity|].
  induction ops as [|o' ops IH]; cbn [fold_left bind]; auto.
Qed.

Lemma mesh2_writes_refine (m : mesh2) ops g :
  wf2 m -> Forall (wvalid2 m) ops ->
  (forall i j, i < m2_nx m -> j < m2_ny m -> get_nodes_vars2 m i j = Ok (g i j)) ->
  exists m', wrun2 m ops = Ok m' /\ wf2 m' /\ shape2_eq m' m /\
    forall i j, i < m2_nx m -> j < m2_ny m ->
      get_nodes_vars2 m' i j = Ok (fold_left (sstep2 (m2_nvars m)) ops g i j).
Proof.
  intros Hwf Hval. revert m g Hwf Hval.
  induction ops as [|o ops IH]; intros m g Hwf Hval Hg.
  - exists m. cbn [fold_left]. split; [reflexivity|]. split; [exact Hwf|].
    split; [unfold shape2_eq; auto 10|]. exact Hg.
  - inversion Hval as [|o' ops' Ho Hops]; subst o' ops'.
    destruct (wstep2_refine m o g Hwf Ho Hg) as (m1 & E1 & Hwf1 & Hsh1 & Hg1).
    pose proof Hsh1 as (Hnv & Hnx & Hny & _ & _).
    destruct (IH m1 (sstep2 (m2_nvars m) g o) Hwf1) as (m' & E' & Hwf' & Hsh' & Hg').
    + eapply Forall_impl; [|exact Hops]. intros o'. now apply wvalid2_shape.
    + rewrite Hnx, Hny. exact Hg1.
    + exists m'. rewrite wrun2_cons, E1. cbn [bind fold_left].
      split; [exact E'|]. split; [exact Hwf'|].
      split; [exact (shape2_eq_trans _ _ _ Hsh' Hsh1)|].
      rewrite Hnx, Hny, Hnv in Hg'. exact Hg'.
Qed.

(* ---- 1-D ---- *)
Inductive wop1 :=
| W1Set (node : nat) (v : list A)
| W1SetIdx (node : nat) (v : list A)
| W1SetElem (node var : nat) (x : A).

Definition wstep1 (m : mesh1) (o : wop1) : res mesh1 :=
  match o with
  | W1Set node v => set_nodes_vars1 m node v
  | W1SetIdx node v => index1_set m node v
  | W1SetElem node var x => index1_set_elem m node var x
  end.

Definition wrun1 (m : mesh1) (ops : list wop1) : res mesh1 :=
  fold_left (fun r o => let* m := r in wstep1 m o) ops (Ok m).

Definition wvalid1 (m : mesh1) (o : wop1) : Prop :=
  match o with
  | W1Set node v => node < nnodes1 m /\ length v = m1_nvars m
  | W1SetIdx node v => node < nnodes1 m /\ length v = m1_nvars m
  | W1SetElem node var _ => node < nnodes1 m /\ var < m1_nvars m
  end.

Definition sstep1 (g : nat -> list A) (o : wop1) : nat -> list A :=
  match o with
  | W1Set node v => fun node' => if node =? node' then v else g node'
  | W1SetIdx node v => fun node' => if node =? node' then v else g node'
  | W1SetElem node var x =>
      fun node' => if node =? node' then upd_list (g node') var x else g node'
  end.

Lemma wvalid1_shape (m' m : mesh1) o :
  m1_nodes m' = m1_nodes m -> m1_nvars m' = m1_nvars m -> wvalid1 m o -> wvalid1 m' o.
Proof.
  intros Hn Hnv. destruct o; cbn [wvalid1]; unfold nnodes1; rewrite ?Hn, ?Hnv; auto.
Qed.

Lemma wstep1_refine (m : mesh1) o g :
  wf1 m -> wvalid1 m o ->
  (forall node, node < nnodes1 m -> get_nodes_vars1 m node = Ok (g node)) ->
  exists m', wstep1 m o = Ok m' /\ wf1 m' /\ m1_nodes m' = m1_nodes m /\
    m1_nvars m' = m1_nvars m /\
    forall node, node < nnodes1 m -> get_nodes_vars1 m' node = Ok (sstep1 g o node).
Proof.
  intros Hwf Hval Hg. destruct o as [node v|node v|node var x]; cbn [wstep1 sstep1 wvalid1] in *.
  - destruct Hval as (Hn & Hv).
    destruct (mesh1_get_set m node v Hwf Hn Hv) as (m' & E & Hwf' & Hnodes & Hnv & Hget & _).
    exists m'. split; [exact E|]. split; [exact Hwf'|]. split; [exact Hnodes|].
    split; [exact Hnv|].
    intros node' Hn'. rewrite (Hget node' Hn'), (Hg node' Hn').
    destruct (node =? node'); reflexivity.
  - destruct Hval as (Hn & Hv).
    destruct (index1_set_spec m node v Hwf Hn Hv) as (m' & E & Hwf' & Hnodes & Hnv & _ & Hget).
    exists m'. split; [exact E|]. split; [exact Hwf'|]. split; [exact Hnodes|].
    split; [exact Hnv|].
    intros node' Hn'. rewrite (Hget node' Hn'), (Hg node' Hn').
    destruct (node =? node'); reflexivity.
  - destruct Hval as (Hn & Hvar).
    assert (Hold : index1 m node = Ok (g node)).
    { rewrite <- get_nodes_vars1_index1 by assumption. now apply Hg. }
    destruct (index1_set_elem_spec m node var x (g node) Hwf Hn Hvar Hold)
      as (m' & E & Hwf' & Hnodes & Hnv & _ & Hget).
    exists m'. split; [exact E|]. split; [exact Hwf'|]. split; [exact Hnodes|].
    split; [exact Hnv|].
    intros node' Hn'. rewrite (Hget node' Hn'), (Hg node' Hn').
    destruct (Nat.eqb_spec node node') as [<-|Hne]; reflexivity.
Qed.

Lemma wrun1_cons (m : mesh1) o ops :
  wrun1 m (o :: ops) = let* m1 := wstep1 m o in wrun1 m1 ops.
Proof.
  unfold wrun1. cbn [fold_left bind]. destruct (wstep1 m o) as [m1|k]; cbn [bind]; [reflexivity|].
  induction ops as [|o' ops IH]; cbn [fold_left bind]; auto.
Qed.

Lemma mesh1_writes_refine (m : mesh1) ops g :
  wf1 m -> Forall (wvalid1 m) ops ->
  (forall node, node < nnodes1 m -> get_nodes_vars1 m node = Ok (g node)) ->
  exists m', wrun1 m ops = Ok m' /\ wf1 m' /\ m1_nodes m' = m1_nodes m /\
    m1_nvars m' = m1_nvars m /\
    forall node, node < nnodes1 m ->
      get_nodes_vars1 m' node = Ok (fold_left sstep1 ops g node).
Proof.
  intros Hwf Hval. revert m g Hwf Hval.
  induction ops as [|o ops IH]; intros m g Hwf Hval Hg.
  - exists m. cbn [fold_left]. auto.
  - inversion Hval as [|o' ops' Ho Hops]; subst o' ops'.
    destruct (wstep1_refine m o g Hwf Ho Hg) as (m1 & E1 & Hwf1 & Hnodes1 & Hnv1 & Hg1).
    assert (Hnn : nnodes1 m1 = nnodes1 m) by (unfold nnodes1; now rewrite Hnodes1).
    destruct (IH m1 (sstep1 g o) Hwf1) as (m' & E' & Hwf' & Hnodes' & Hnv' & Hg').
    + eapply Forall_impl; [|exact Hops]. intros o'. now apply wvalid1_shape.
    + rewrite Hnn. exact Hg1.
    + exists m'. rewrite wrun1_cons, E1. cbn [bind fold_left].
      split; [exact E'|]. split; [exact Hwf'|].
      split; [congruence|]. split; [congruence|].
      rewrite Hnn in Hg'. exact Hg'.
Qed.

End Store.
